import LP.Proofs.ReachV1Frame
import LP.Proofs.ReachV2Claim
/-
  LP.Proofs.ReachG1WF — the inductive invariant `g1_WF T0 s r` of `Variant.guarV1`
  (launchpad-guaranteed-tickets): the v1 guaranteed-ticket allocation / blacklist / distribution
  logic exactly as `Variant.migration`, BUT the claim path is the vested one (`claimVested` with the
  v1 unlock schedule `Sched1` stored by `setSchedule1`; repeated claims release further parts) and
  the owner's withdrawal is `claimPaymentOwn`.

  Everything that does not mention the variant is REUSED from the `v1_` development
  (`LP/Proofs/ReachV1*.lean`): the projection `v1_gv`, the phases `v1_PhaseC` / `v1_PhE`, the loop
  lemmas, `v1_CallOK`.  The launchpad-token ledger is the one of the v2 development
  (`LPI`, `LPre`, `LPost` of `LP/Proofs/ReachV2WF.lean`, which read only the projection `GCore` and
  the record `LProj`).  New here: the vesting part `g1_Vest` —
    * `lp`    : the launchpad-token ledger `LPI`,
    * `sch`   : a stored schedule satisfies `validSched1`,
    * `exact` : every participant's `userClaimed` is `0` or EXACTLY the schedule's released amount
                `userTotal × pct1 r' sched1 / 10000` at some earlier round `r' ≤ r`
                (= `claimedExactly1` of C13, the invariant the v1 claimable computation needs).
-/
namespace LP
open LP.FY

theorem g1_flags {v : Variant} (hv : v = .guarV1) :
    v.vested = true ∧ v.hasNft = false ∧ v.isV2 = false ∧ v.v1Alloc = true ∧
    v.hasGuaranteed = true ∧ v.noAdditionalStep = false ∧ (v != .nftGuar) = true ∧
    v.hasLock = false ∧ v.hasUnblacklist = true := by
  subst hv; exact ⟨rfl, rfl, rfl, rfl, rfl, rfl, rfl, rfl, rfl⟩

/-! ### the launchpad-token projection -/

/-- the fields the launchpad-token ledger reads (the `sched` slot of `LProj` is the v2 milestone
    list, which `guarV1` never uses: filled with the default) -/
def g1_lproj (s : State) : LProj :=
  { lpBal := s.bal (.esdt s.lpTok) 0, deposited := s.deposited, totalDeposited := s.totalDeposited,
    perTicket := s.perTicket, userTotal := s.userTotal, userClaimed := s.userClaimed,
    claimed := s.claimed, sched := defaultSchedule2 }

/-- the vesting part of the invariant; `sc` = the stored v1 schedule, `r` = current round -/
structure g1_Vest (g : GCore) (p : LProj) (sc : Option Sched1) (r : Nat) : Prop where
  lp : LPI g p
  sch : ∀ x, sc = some x → validSched1 x
  exact : ∀ a, p.userClaimed a = 0 ∨
    ∃ r', r' ≤ r ∧ p.userClaimed a = entitled (p.userTotal a) (pct1 r' sc)

theorem g1_Vest.mono {g : GCore} {p : LProj} {sc : Option Sched1} {r r' : Nat}
    (h : g1_Vest g p sc r) (hr : r ≤ r') : g1_Vest g p sc r' :=
  ⟨h.lp, h.sch, fun a => (h.exact a).imp id (fun ⟨x, hx, e⟩ => ⟨x, by omega, e⟩)⟩

/-- a step inside the pre-distribution phases that leaves the launchpad-token fields and the
    schedule alone and does not increase `nrWinning + reserve` -/
theorem g1_Vest.early {g g' : GCore} {p : LProj} {sc : Option Sched1} {r r' : Nat}
    (h : g1_Vest g p sc r) (hr : r ≤ r')
    (ha : g.core.flags.additional = false) (ha' : g'.core.flags.additional = false)
    (hnw : g'.core.nrWinning + g'.tg ≤ g.core.nrWinning + g.tg)
    (hc : p.deposited = false → ∀ a, g'.core.confirmed a = 0) : g1_Vest g' p sc r' :=
  ⟨LPI.early h.lp ha ha' hnw hc, h.sch,
    fun a => (h.exact a).imp id (fun ⟨x, hx, e⟩ => ⟨x, by omega, e⟩)⟩

/-- before the distribution completes nobody has claimed anything -/
theorem g1_Vest.fresh {g : GCore} {p : LProj} {sc : Option Sched1} {r : Nat}
    (h : g1_Vest g p sc r) (ha : g.core.flags.additional = false) (a : Nat) :
    p.userTotal a = 0 ∧ p.userClaimed a = 0 ∧ p.claimed a = false :=
  (h.lp.pre ha).fresh a

/-- the inductive invariant; `r` is the round of the latest transaction, `T0` the number of
    winning tickets configured at deployment -/
structure g1_WF (T0 : Nat) (s : State) (r : Nat) : Prop where
  var : s.variant = .guarV1
  pricePos : 0 < s.price
  tokNe : s.payTok ≠ .esdt s.lpTok
  static : 0 < s.minConfirmed
  balOther : ∀ t, t ≠ s.payTok → t ≠ .esdt s.lpTok → s.bal t 0 = 0
  tlConf : r < s.cfg.conf → ∀ a, s.confirmed a = 0
  tlStarted : s.flags.started = true → s.cfg.conf ≤ r ∧ s.cfg.sel ≤ r
  vs : g1_Vest s.gcore (g1_lproj s) s.sched1 r
  phase : v1_PhaseC T0 s.core (v1_gv s)

theorem g1_notStarted_of_lt {T0 : Nat} {s : State} {r : Nat} (h : g1_WF T0 s r) {n : Nat}
    (hr : r ≤ n) (hlt : n < s.cfg.conf ∨ n < s.cfg.sel) : s.flags.started = false := by
  cases hs : s.flags.started with
  | false => rfl
  | true => have := h.tlStarted hs; omega

theorem g1_gcore_eq {s s' : State} (hcore : s'.core = s.core) (hgv : v1_gv s' = v1_gv s) :
    s'.gcore = s.gcore := by
  have h1 : s'.whitelist = s.whitelist := congrArg v1_G.whitelist hgv
  have h2 : s'.uts = s.uts := congrArg v1_G.uts hgv
  have h3 : s'.totalGuaranteed = s.totalGuaranteed := congrArg v1_G.tg hgv
  unfold State.gcore
  rw [hcore, h1, h2, h3]


/-- state-level form of `g1_Vest.early` -/
theorem g1_vs_early {T0 : Nat} {s s' : State} {r r' : Nat} (h : g1_WF T0 s r) (hr : r ≤ r')
    (ha : s.flags.additional = false) (ha' : s'.flags.additional = false)
    (hlj : g1_lproj s' = g1_lproj s) (hsc : s'.sched1 = s.sched1)
    (hnw : s'.nrWinning + s'.totalGuaranteed ≤ s.nrWinning + s.totalGuaranteed)
    (hc : s.deposited = false → ∀ a, s'.confirmed a = 0) :
    g1_Vest s'.gcore (g1_lproj s') s'.sched1 r' := by
  rw [hlj, hsc]
  exact h.vs.early (g' := s'.gcore) hr ha ha' hnw hc

/-! ### transfer of the invariant along unchanged projections -/

theorem g1_WF_of_core {T0 : Nat} {s s' : State} {r r' : Nat} (h : g1_WF T0 s r)
    (hcore : s'.core = s.core) (hgv : v1_gv s' = v1_gv s) (hv : s'.variant = s.variant)
    (hp : s'.payTok = s.payTok) (hl : s'.lpTok = s.lpTok)
    (hb : ∀ t, t ≠ s.payTok → t ≠ .esdt s.lpTok → s'.bal t 0 = 0)
    (htl1 : r' < s'.cfg.conf → ∀ a, s.confirmed a = 0)
    (htl2 : s.flags.started = true → s'.cfg.conf ≤ r' ∧ s'.cfg.sel ≤ r')
    (hvs : g1_Vest s.gcore (g1_lproj s') s'.sched1 r') :
    g1_WF T0 s' r' := by
  have hprice : s'.price = s.price := congrArg Core.price hcore
  have hflags : s'.flags = s.flags := congrArg Core.flags hcore
  have hconf : s'.confirmed = s.confirmed := congrArg Core.confirmed hcore
  have hmc : s'.minConfirmed = s.minConfirmed := congrArg v1_G.minConfirmed hgv
  refine ⟨by rw [hv]; exact h.var, by rw [hprice]; exact h.pricePos, by rw [hp, hl]; exact h.tokNe,
    by rw [hmc]; exact h.static, ?_, ?_, ?_, by rw [g1_gcore_eq hcore hgv]; exact hvs,
    by rw [hcore, hgv]; exact h.phase⟩
  · intro t h1 h2; rw [hp] at h1; rw [hl] at h2; exact hb t h1 h2
  · intro h1; rw [hconf]; exact htl1 h1
  · intro h1; rw [hflags] at h1; exact htl2 h1

theorem g1_WF_same_cfg {T0 : Nat} {s s' : State} {r r' : Nat} (h : g1_WF T0 s r)
    (hcore : s'.core = s.core) (hgv : v1_gv s' = v1_gv s) (hv : s'.variant = s.variant)
    (hp : s'.payTok = s.payTok) (hl : s'.lpTok = s.lpTok)
    (hb : ∀ t, t ≠ s.payTok → t ≠ .esdt s.lpTok → s'.bal t 0 = 0)
    (hcfg : s'.cfg = s.cfg) (hr : r ≤ r')
    (hvs : g1_Vest s.gcore (g1_lproj s') s'.sched1 r') :
    g1_WF T0 s' r' := by
  apply g1_WF_of_core h hcore hgv hv hp hl hb
  · intro h1; rw [hcfg] at h1; exact h.tlConf (by omega)
  · intro h1; rw [hcfg]; have := h.tlStarted h1; omega
  · exact hvs

/-! ### deployment -/

theorem g1_init_inv {a : InitArgs} {e : Env} {s : State} (h : init .guarV1 a e = .ok s) :
    s.variant = .guarV1 ∧ 0 < a.price ∧ 0 < a.nrWinning ∧ a.payTok ≠ .esdt a.lpTok ∧
    s.price = a.price ∧ s.payTok = a.payTok ∧ s.lpTok = a.lpTok ∧ s.nrWinning = a.nrWinning ∧
    s.flags = {} ∧ s.bal = (fun _ _ => 0) ∧ s.confirmed = (fun _ => 0) ∧
    s.status = (fun _ => false) ∧ s.posToId = (fun _ => 0) ∧ s.range = (fun _ => none) ∧
    s.batch = (fun _ => none) ∧ s.lastTicketId = 0 ∧ s.op = .none ∧ s.claimablePayment = 0 ∧
    0 < s.minConfirmed ∧ s.whitelist = [] ∧ s.totalGuaranteed = 0 ∧ s.uts = (fun _ => none) ∧
    s.blacklist = (fun _ => false) ∧ s.deposited = false ∧
    s.totalDeposited = 0 ∧ s.userTotal = (fun _ => 0) ∧ s.userClaimed = (fun _ => 0) ∧
    s.claimed = (fun _ => false) ∧ s.sched1 = none := by
  unfold init at h
  simp only [Variant.hasNft, Variant.v1Alloc, Variant.hasLock, Variant.noAdditionalStep, bind_ok_iff,
      req_ok_iff, pure_ok_iff, pure_bind,
      exists_const, if_true, if_false, Bool.false_eq_true, reduceCtorEq, decide_eq_true_eq,
      bne_iff_ne, ne_eq, not_false_eq_true, beq_iff_eq] at h
  lp_peel h
  subst h
  refine ⟨rfl, by omega, by omega, by assumption, rfl, rfl, rfl, rfl, rfl, rfl, rfl, rfl, rfl, rfl, rfl,
    rfl, rfl, rfl, by assumption, rfl, rfl, rfl, rfl, rfl, rfl, rfl, rfl, rfl, rfl⟩

theorem g1_init_WF {a : InitArgs} {e : Env} {s : State}
    (h : init .guarV1 a e = .ok s) : g1_WF a.nrWinning s e.round := by
  obtain ⟨h1, h2, h3, h4, h5, h6, h7, h8, h9, h10, h11, h12, h13, h14, h15, h16, h17, h18,
    h19, h20, h21, h22, h23, h24, h25, h26, h27, h28, h29⟩ := g1_init_inv h
  have hna : s.flags.additional = false := by rw [h9]
  refine ⟨h1, by omega, by rw [h6, h7]; exact h4, h19, ?_, ?_, ?_, ?_, ?_⟩
  · intro t _ _; rw [h10]
  · intro _ a; rw [h11]
  · intro hs; rw [h9] at hs; cases hs
  · refine ⟨⟨fun now => ?_, fun _ => ⟨fun a => ?_, ?_, h25, fun a => ?_, fun hq => ?_⟩,
      fun _ => ⟨fun a => ?_, fun hd => ?_⟩, fun hq => ?_⟩, fun x hx => ?_, fun a => Or.inl ?_⟩
    · show unlockedPct2 now defaultSchedule2 ≤ 10000
      rw [unlockedPct2_default]; exact Nat.le_refl _
    · show s.confirmed a = 0; rw [h11]
    · show s.bal (.esdt s.lpTok) 0 = 0; rw [h10]
    · show s.userTotal a = 0 ∧ s.userClaimed a = 0; rw [h26, h27]; exact ⟨rfl, rfl⟩
    · have : s.flags.additional = true := hq
      rw [hna] at this; cases this
    · show s.userTotal a = 0 ∧ s.userClaimed a = 0 ∧ s.claimed a = false
      rw [h26, h27, h28]; exact ⟨rfl, rfl, rfl⟩
    · have : s.deposited = true := hd
      rw [h24] at this; cases this
    · have : s.flags.additional = true := hq
      rw [hna] at this; cases this
    · rw [h29] at hx; cases hx
    · show s.userClaimed a = 0; rw [h27]
  · left
    have htg : (v1_gv s).tg = 0 := h21
    refine ⟨by show s.flags.additional = false; rw [h9], by rw [htg]; omega, Or.inl ⟨[], ?_, Or.inl ⟨?_, ?_⟩⟩⟩
    · refine ⟨?_, ?_, by rw [htg]; exact h8, h12, h13, ⟨List.nodup_nil, nofun, nofun⟩, ?_, ?_, ?_⟩
      · show s.flags.filtered = false; rw [h9]
      · show s.flags.selected = false; rw [h9]
      · intro a _; show s.confirmed a = 0; rw [h11]
      · intro a _; show s.range a = none; rw [h14]
      · show s.bal s.payTok 0 = s.price * sumOver s.confirmed []
        rw [h10]; simp [sumOver]
    · refine ⟨?_, h17, ?_, h16⟩
      · show s.flags.started = false; rw [h9]
      · trivial
    · refine ⟨?_, ?_⟩
      · show GI false s.whitelist s.uts s.blUts s.range s.totalGuaranteed
        have := (GuarInvX_initial s h20 h21 h22 h14 h23).base
        rw [h1] at this
        exact this
      · intro u hu
        have : s.blacklist u = true := hu
        rw [h23] at this; cases this

/-! ### passing of time -/

theorem g1_wait_WF {T0 : Nat} {s : State} {r r' : Nat} (h : g1_WF T0 s r) (hr : r ≤ r') :
    g1_WF T0 s r' :=
  ⟨h.var, h.pricePos, h.tokNe, h.static, h.balOther, fun h1 => h.tlConf (by omega),
    fun h1 => by have := h.tlStarted h1; omega, h.vs.mono hr, h.phase⟩

end LP
