import LP.Props.AllVariants
import LP.Props.C02reach
import LP.Props.C13reachV2
import LP.Props.C14feeLp
import LP.Props.C03final
import LP.Props.C12reserve
import LP.Props.C11topup
/-
  LP.Proofs.AllVariants2Aux — helper definitions and per-family lemmas for
  `LP/Props/AllVariants2.lean` (C02, C03, C11, C12 stated once for all eight contracts).

  * `ReachOfA hash v a0 s r` — `ReachOf` of `LP/Props/AllVariants.lean` with the deployment
    arguments `a0` exposed (`ReachOf_iff`), so that "the winners configured at deployment"
    (`a0.nrWinning`) can be named.
  * `reserveOf`, `CoverAfter`, `CoverSpec` — the common form of launchpad-token coverage (C02).
  * `DepositSpec` — the common form of the single deposit.
  * `completionCall`, `Completed`, `FinalSpec` — the common form of C03 at the completing call.
  * `guaranteeOf`, `HonouredSpec` — the common form of C11 at the completing call.
  Each family (plain, nft, guarV2, v1 = migration / lockedGuar, guarV1, nftGuar) is shown to
  imply the common form, from the existing per-family theorems.
-/
namespace LP.Props.AllVariants
open LP LP.FY
open LP.Props.C02 (LpCover maxWinners)

/-! ### reachability with the deployment arguments exposed -/

/-- `ReachOf` with the deployment arguments `a0` exposed -/
def ReachOfA (hash : List Nat → List Nat) (v : Variant) (a0 : InitArgs) (s : State) (r : Nat) : Prop :=
  match v with
  | .base => ReachA hash .base a0 s r
  | .locked => ReachA hash .locked a0 s r
  | .nft => ReachA hash .nft a0 s r
  | .guarV2 => ReachA hash .guarV2 a0 s r
  | .migration => v1_ReachA hash .migration a0 s r
  | .lockedGuar => v1_ReachA hash .lockedGuar a0 s r
  | .guarV1 => g1_ReachA hash a0 s r
  | .nftGuar => ng_ReachA hash a0 s r

theorem ReachOf_iff {hash : List Nat → List Nat} {v : Variant} {s : State} {r : Nat} :
    ReachOf hash v s r ↔ ∃ a0, ReachOfA hash v a0 s r := by
  cases v <;> simp only [ReachOf, ReachOfA]
  · exact Reach_iff
  · exact Reach_iff
  · exact Reach_iff
  · exact g1_Reach_iff
  · exact Reach_iff
  · exact v1_Reach_iff
  · exact v1_Reach_iff
  · exact ng_Reach_iff

theorem ReachOfA.toReachOf {hash : List Nat → List Nat} {v : Variant} {a0 : InitArgs} {s : State}
    {r : Nat} (h : ReachOfA hash v a0 s r) : ReachOf hash v s r :=
  ReachOf_iff.mpr ⟨a0, h⟩

/-- deployment is a reachable state (with its own arguments) -/
theorem initA_reachable (hash : List Nat → List Nat) (v : Variant) (a : InitArgs) (e : Env) (s : State)
    (h : init v a e = .ok s) : ReachOfA hash v a s e.round := by
  cases v <;> simp only [ReachOfA]
  · exact ReachA.init e s h
  · exact ReachA.init e s h
  · exact ReachA.init e s h
  · exact g1_ReachA.init e s h
  · exact ReachA.init e s h
  · exact v1_ReachA.init e s h
  · exact v1_ReachA.init e s h
  · exact ng_ReachA.init e s h

/-- the restriction on the calls of a history of variant `v` (allocation entries have at least one
    ticket): `CallOK` for the four contracts of the generic development, `v1_CallOK` for the four
    contracts with the v1 allocation endpoint -/
def CallOKOf (v : Variant) (c : Call) : Prop :=
  match v with
  | .base | .locked | .nft | .guarV2 => CallOK c
  | .migration | .lockedGuar | .guarV1 | .nftGuar => v1_CallOK c

/-- an accepted call (rounds non-decreasing, `EnvOK`, `CallOKOf`) leads to a reachable state -/
theorem ReachOfA.call {hash : List Nat → List Nat} {v : Variant} {a0 : InitArgs} {s : State} {r : Nat}
    (h : ReachOfA hash v a0 s r) (e : Env) (c : Call) (s' : State) (o : Out) (hr : r ≤ e.round)
    (hok : EnvOK e) (hc : CallOKOf v c) (hs : step hash s e c = .ok (s', o)) :
    ReachOfA hash v a0 s' e.round := by
  cases v <;> simp only [ReachOfA, CallOKOf] at h hc ⊢
  · exact .call s r e c s' o h hr hok hc hs
  · exact .call s r e c s' o h hr hok hc hs
  · exact .call s r e c s' o h hr hok hc hs
  · exact .call s r e c s' o h hr hok hc hs
  · exact .call s r e c s' o h hr hok hc hs
  · exact .call s r e c s' o h hr hok hc hs
  · exact .call s r e c s' o h hr hok hc hs
  · exact .call s r e c s' o h hr hok hc hs

/-- the passing of time keeps a state reachable -/
theorem ReachOfA.wait {hash : List Nat → List Nat} {v : Variant} {a0 : InitArgs} {s : State} {r r' : Nat}
    (h : ReachOfA hash v a0 s r) (hr : r ≤ r') : ReachOfA hash v a0 s r' := by
  cases v <;> simp only [ReachOfA] at h ⊢
  · exact .wait s r r' h hr
  · exact .wait s r r' h hr
  · exact .wait s r r' h hr
  · exact .wait s r r' h hr
  · exact .wait s r r' h hr
  · exact .wait s r r' h hr
  · exact .wait s r r' h hr
  · exact .wait s r r' h hr

/-! ### C02: the common form of launchpad-token coverage -/

/-- winning tickets the launchpad tokens are reserved for until all selection steps are complete:
    the outstanding base winners `nrWinning` plus, in the five contracts with guaranteed tickets,
    the reserve `totalGuaranteed` -/
def reserveOf (v : Variant) (s : State) : Nat :=
  if v.hasGuaranteed then s.nrWinning + s.totalGuaranteed else s.nrWinning

/-- coverage after all selection steps: `Lw` lists everybody who may still hold a range; their
    winning tickets add up to `nrWinning`.  Contracts without vesting: the balance covers
    `perTicket × Σ winCountOf`.  The two contracts with vesting (`guarV1`, `guarV2`): the balance IS
    the owner's not yet withdrawn surplus + `perTicket × Σ winCountOf` over the unsettled + the
    unvested remainders `userTotal − userClaimed` of the settled (`Lv` lists every vesting record) -/
def CoverAfter (v : Variant) (s : State) : Prop :=
  ∃ Lw : List Nat, Covers s Lw ∧ (∀ a rg, s.range a = some rg → a ∈ Lw) ∧
    sumOver (winCountOf s) Lw = s.nrWinning ∧
    (v.vested = false → s.perTicket * sumOver (winCountOf s) Lw ≤ s.bal (.esdt s.lpTok) 0) ∧
    (v.vested = true → ∃ Lv : List Nat, Lv.Nodup ∧
      (∀ a, a ∉ Lv → s.userTotal a = 0 ∧ s.userClaimed a = 0) ∧
      (∀ a, s.userClaimed a ≤ s.userTotal a) ∧
      s.bal (.esdt s.lpTok) 0 = ownSurplus s + s.perTicket * sumOver (winCountOf s) Lw
        + sumOver (fun a => s.userTotal a - s.userClaimed a) Lv)

/-- the common form of C02 in a reachable state after the deposit (`T0` = winners configured at
    deployment) -/
def CoverSpec (v : Variant) (T0 : Nat) (s : State) : Prop :=
  s.payTok ≠ .esdt s.lpTok ∧
  LpCover s ∧
  (s.flags.filtered = false →
    reserveOf v s = T0 ∧ s.perTicket * T0 ≤ s.bal (.esdt s.lpTok) 0) ∧
  (s.flags.additional = false → (v = .nftGuar → ∀ rg, s.op ≠ .additional (.nft rg)) →
    s.perTicket * reserveOf v s ≤ s.bal (.esdt s.lpTok) 0) ∧
  (AllDone s → CoverAfter v s)

theorem coverAfter_plain_form {v : Variant} {s : State} (hvs : v.vested = false) {L : List Nat}
    (h1 : Covers s L) (hwin : sumOver (winCountOf s) L = s.nrWinning)
    (hrg : ∀ a rg, s.range a = some rg → a ∈ L) (hc : LpCover s) : CoverAfter v s := by
  refine ⟨L, h1, hrg, hwin, fun _ => ?_, fun hq => ?_⟩
  · rw [hwin]; exact hc
  · rw [hvs] at hq; cases hq

theorem cover_plain (hash : List Nat → List Nat) (v : Variant) (hv : Plain v) (a0 : InitArgs)
    (s : State) (r : Nat) (h : ReachA hash v a0 s r) (hd : s.deposited = true) :
    CoverSpec v a0.nrWinning s := by
  have hI := pl_reachA hv h
  have hR : Reach hash v s r := Reach_iff.mpr ⟨a0, h⟩
  have hg : v.hasGuaranteed = false := by rcases hv with rfl | rfl <;> rfl
  have hvs : v.vested = false := by rcases hv with rfl | rfl <;> rfl
  have hc : LpCover s := LP.PL.cover_of_Lp hI hd
  have hres : reserveOf v s = s.nrWinning := by simp [reserveOf, hg]
  refine ⟨hI.base.tokNe, hc, fun hf => ?_, fun _ _ => by rw [hres]; exact hc, fun hdone => ?_⟩
  · obtain ⟨k1, k2⟩ := LP.PL.lp_exact_until_filter hash v hv a0 s r h hd hf
    exact ⟨by rw [hres]; exact k2, by rw [k1]; exact Nat.le_refl _⟩
  · obtain ⟨L, h1, _, hwin, _, hrg⟩ := LP.Props.C01reach.three_counts hash v hv s r hR hdone
    exact coverAfter_plain_form hvs h1 hwin (fun a rg hr => (hrg a rg hr).1) hc

theorem cover_nft (hash : List Nat → List Nat) (a0 : InitArgs)
    (s : State) (r : Nat) (h : ReachA hash .nft a0 s r) (hd : s.deposited = true) :
    CoverSpec .nft a0.nrWinning s := by
  have hR : Reach hash .nft s r := Reach_iff.mpr ⟨a0, h⟩
  have hI := fl_reach_NftLp hR
  have hc : LpCover s := hI.cover hd
  have hres : reserveOf .nft s = s.nrWinning := rfl
  refine ⟨hI.tokNe, hc, fun hf => ?_, fun _ _ => by rw [hres]; exact hc, fun hdone => ?_⟩
  · have k := LP.Props.C14reach.winners_before_filter_nft hash a0 s r h hf
    refine ⟨by rw [hres]; exact k, ?_⟩
    rw [← k]; exact hc
  · obtain ⟨L, h1, _, hwin, _, hrg⟩ := LP.Props.C14reach.three_counts_nft hash s r hR hdone
    exact coverAfter_plain_form rfl h1 hwin (fun a rg hr => (hrg a rg hr).1) hc

theorem cover_guarV2 (hash : List Nat → List Nat) (a0 : InitArgs)
    (s : State) (r : Nat) (h : ReachA hash .guarV2 a0 s r) (hd : s.deposited = true) :
    CoverSpec .guarV2 a0.nrWinning s := by
  have hR : Reach hash .guarV2 s r := Reach_iff.mpr ⟨a0, h⟩
  have hwf := reach_WF2 h
  have hres : reserveOf .guarV2 s = s.nrWinning + s.totalGuaranteed := rfl
  have hpre : s.flags.additional = false →
      s.perTicket * (s.nrWinning + s.totalGuaranteed) ≤ s.bal (.esdt s.lpTok) 0 := by
    intro hna
    obtain ⟨_, h2, _⟩ := LP.Props.C01reachV2.lp_before_distribution_guarV2 hash s r hR hna
    obtain ⟨k1, k2⟩ := h2 hd
    omega
  have hdone : s.flags.additional = true → AllDone s := by
    intro ha
    have hF := v2_phase_F hwf.phase ha
    exact ⟨hF.d.selected, ha⟩
  have hafter : AllDone s → CoverAfter .guarV2 s := by
    intro hD
    obtain ⟨Lw, h1, _, hwin, _, hrg⟩ := LP.Props.C01reachV2.three_counts_guarV2 hash s r hR hD
    obtain ⟨Lv, k1, k2, k3⟩ := LP.VV.lp_exact_guarV2 hash s r hR hD
    obtain ⟨_, hle, _⟩ := LP.Props.C01reachV2.lp_ledger_guarV2 hash s r hR hD
    refine ⟨Lw, h1, fun a rg hr => (hrg a rg hr).1, hwin, fun hq => (by cases hq),
      fun _ => ⟨Lv, k1, k2, hle, by rw [hwin]; exact k3⟩⟩
  have hc : LpCover s := by
    unfold LpCover
    cases ha : s.flags.additional with
    | false =>
      have := hpre ha
      have h2 : s.perTicket * s.nrWinning ≤ s.perTicket * (s.nrWinning + s.totalGuaranteed) :=
        Nat.mul_le_mul_left _ (Nat.le_add_right _ _)
      omega
    | true =>
      obtain ⟨Lv, _, _, k3⟩ := LP.VV.lp_exact_guarV2 hash s r hR (hdone ha)
      omega
  refine ⟨hwf.tokNe, hc, fun hf => ?_, fun hna _ => by rw [hres]; exact hpre hna, hafter⟩
  obtain ⟨_, k⟩ := LP.Props.C01reachV2.reserve_conserved_guarV2 hash a0 s r h
  have hsum := k hf
  have hna : s.flags.additional = false := by
    rcases hwf.phase with ⟨hna, _⟩ | hE | hF
    · exact hna
    · have : s.flags.filtered = true := hE.filtered
      rw [hf] at this; cases this
    · have : s.flags.filtered = true := hF.d.filtered
      rw [hf] at this; cases this
  refine ⟨by rw [hres]; exact hsum, ?_⟩
  rw [← hsum]; exact hpre hna

theorem cover_v1 (hash : List Nat → List Nat) (v : Variant) (hv : v1_Fam v) (a0 : InitArgs)
    (s : State) (r : Nat) (h : v1_ReachA hash v a0 s r) (hd : s.deposited = true) :
    CoverSpec v a0.nrWinning s := by
  have hR : v1_Reach hash v s r := v1_Reach_iff.mpr ⟨a0, h⟩
  have hwf := v1_reach_WF hv h
  have hg : v.hasGuaranteed = true := by rcases hv with rfl | rfl <;> rfl
  have hvs : v.vested = false := by rcases hv with rfl | rfl <;> rfl
  have hres : reserveOf v s = s.nrWinning + s.totalGuaranteed := by simp [reserveOf, hg]
  obtain ⟨hc, hpre⟩ := LP.Props.C01reachV1.lp_cover_v1 hash v hv s r hR hd
  refine ⟨hwf.tokNe, hc, fun hf => ?_, fun hna _ => by rw [hres]; exact hpre hna, fun hdone => ?_⟩
  · have hsum := (LP.Props.C01reachV1.reserve_v1 hash v hv a0 s r h).1 hf
    have hna : s.flags.additional = false := (v1_phase_notFiltered hwf.phase hf).1
    refine ⟨by rw [hres]; exact hsum, ?_⟩
    rw [← hsum]; exact hpre hna
  · obtain ⟨L, h1, _, hwin, _, hrg⟩ := LP.Props.C01reachV1.three_counts_v1 hash v hv s r hR hdone
    exact coverAfter_plain_form hvs h1 hwin (fun a rg hr => (hrg a rg hr).1) hc

theorem cover_guarV1 (hash : List Nat → List Nat) (a0 : InitArgs)
    (s : State) (r : Nat) (h : g1_ReachA hash a0 s r) (hd : s.deposited = true) :
    CoverSpec .guarV1 a0.nrWinning s := by
  have hR : g1_Reach hash s r := g1_Reach_iff.mpr ⟨a0, h⟩
  have hwf := g1_reach_WF h
  have hres : reserveOf .guarV1 s = s.nrWinning + s.totalGuaranteed := rfl
  obtain ⟨hc1, hpre⟩ := LP.Props.C01reachG1.lp_cover_guarV1 hash s r hR
  have hc : LpCover s := by
    cases ha : s.flags.additional with
    | true => exact hc1 ha
    | false =>
      have := hpre ha hd
      unfold LpCover
      have h2 : s.perTicket * s.nrWinning ≤ s.perTicket * (s.nrWinning + s.totalGuaranteed) :=
        Nat.mul_le_mul_left _ (Nat.le_add_right _ _)
      omega
  refine ⟨hwf.tokNe, hc, fun hf => ?_, fun hna _ => by rw [hres]; exact hpre hna hd,
    fun hD => ?_⟩
  · have hsum := (LP.Props.C01reachG1.reserve_guarV1 hash a0 s r h).1 hf
    have hna : s.flags.additional = false := (v1_phase_notFiltered hwf.phase hf).1
    refine ⟨by rw [hres]; exact hsum, ?_⟩
    rw [← hsum]; exact hpre hna hd
  · obtain ⟨Lw, h1, _, hwin, _, hrg⟩ := LP.Props.C01reachG1.three_counts_guarV1 hash s r hR hD
    obtain ⟨Lv, k1, k2, k3⟩ := LP.Props.C01reachG1.lp_exact_guarV1 hash s r hR hD
    obtain ⟨_, hle⟩ := LP.Props.C01reachG1.unsettled_no_record_guarV1 hash s r hR
    exact ⟨Lw, h1, fun a rg hr => (hrg a rg hr).1, hwin, fun hq => (by cases hq),
      fun _ => ⟨Lv, k1, k2, hle, by rw [hwin]; exact k3⟩⟩

/-- before the filter completes no NFT-draw cursor is saved -/
theorem ng_op_not_nft_of_notFiltered {T0 : Nat} {s : State} {r : Nat} (hwf : ng_WF T0 s r)
    (hf : s.flags.filtered = false) : ∀ rg, s.op ≠ .additional (.nft rg) := by
  obtain ⟨hna, htg, L0, hp, hab⟩ := ng_phase_notFiltered hwf.phase hf
  exact ng_op_not_nft (T0 := T0) (g := v1_gv s) (Or.inl ⟨hna, htg, Or.inl ⟨L0, hp, hab⟩⟩)

theorem cover_nftGuar (hash : List Nat → List Nat) (a0 : InitArgs)
    (s : State) (r : Nat) (h : ng_ReachA hash a0 s r) (hd : s.deposited = true) :
    CoverSpec .nftGuar a0.nrWinning s := by
  have hR : ng_Reach hash s r := ng_Reach_iff.mpr ⟨a0, h⟩
  have hwf := ng_reach_WF h
  have hres : reserveOf .nftGuar s = s.nrWinning + s.totalGuaranteed := rfl
  obtain ⟨hc, hpre⟩ := LP.FL.lp_cover_nftGuar hash s r hR hd
  refine ⟨hwf.tokNe, hc, fun hf => ?_, fun hna hop => by rw [hres]; exact hpre hna (hop rfl),
    fun hdone => ?_⟩
  · have hsum := (LP.Props.C14reachG.ng_reserve hash a0 s r h).1 hf
    have hna : s.flags.additional = false := (ng_phase_notFiltered hwf.phase hf).1
    refine ⟨by rw [hres]; exact hsum, ?_⟩
    rw [← hsum]; exact hpre hna (ng_op_not_nft_of_notFiltered hwf hf)
  · obtain ⟨L, h1, _, hwin, _, hrg⟩ := LP.Props.C14reachG.ng_three_counts hash s r hR hdone
    exact coverAfter_plain_form rfl h1 hwin (fun a rg hr => (hrg a rg hr).1) hc

/-! ### C02: the single deposit -/

/-- the common form of the single deposit (`T0` = winners configured at deployment) -/
def DepositSpec (hash : List Nat → List Nat) (T0 : Nat) (s : State) (e : Env) (s' : State) (o : Out) :
    Prop :=
  e.caller = s.owner ∧ s.deposited = false ∧
  singleFungible e = .ok (.esdt s.lpTok, s.perTicket * T0) ∧
  s'.deposited = true ∧ s'.totalDeposited = s.perTicket * T0 ∧ s'.perTicket = s.perTicket ∧
  s'.nrWinning = s.nrWinning ∧ s'.lpTok = s.lpTok ∧ o.xfers = [] ∧
  ∀ (p : List (Env × Call)) (e' : Env), ∃ err, step hash (run hash s' p) e' .deposit = .error err

theorem deposit_of_maxWinners (hash : List Nat → List Nat) {T0 : Nat} {s : State} {e : Env}
    {s' : State} {o : Out} (hm : maxWinners s = T0) (hs : step hash s e .deposit = .ok (s', o)) :
    DepositSpec hash T0 s e s' o := by
  obtain ⟨k1, k2, k3⟩ := (LP.Props.C02.deposit_accepted_iff hash s e).mp ⟨_, hs⟩
  obtain ⟨h1, h2, _⟩ := LP.Props.C02.deposit_effect hash s s' e o hs
  rw [hm] at k3 h1
  have hd' : s'.deposited = true := by rw [h1]
  refine ⟨k1, k2, k3, hd', by rw [h1], by rw [h1]; rfl, by rw [h1]; rfl, by rw [h1]; rfl, h2,
    fun p e' => ?_⟩
  exact LP.Props.C02.second_deposit_rejected hash _ e' (pl_run_deposited hash p s' hd')

theorem maxWinners_noGuar {s : State} (hv : s.variant.hasGuaranteed = false) :
    maxWinners s = s.nrWinning := by
  simp [maxWinners, reservedForDeposit, hv]

theorem maxWinners_guar {s : State} (hv : s.variant.hasGuaranteed = true) :
    maxWinners s = s.nrWinning + s.totalGuaranteed := by
  simp [maxWinners, reservedForDeposit, hv]

/-- the variant stored in a reachable state is the variant of the development -/
theorem variant_of_reach {hash : List Nat → List Nat} {v : Variant} {a0 : InitArgs} {s : State}
    {r : Nat} (h : ReachOfA hash v a0 s r) : s.variant.hasGuaranteed = v.hasGuaranteed ∧
      s.variant.vested = v.vested := by
  cases v <;> simp only [ReachOfA] at h
  · have := (reach_WF (Or.inl rfl) h).var
    rcases this with k | k <;> rw [k] <;> exact ⟨rfl, rfl⟩
  · have := (reach_WF (Or.inr rfl) h).var
    rcases this with k | k <;> rw [k] <;> exact ⟨rfl, rfl⟩
  · rw [(nf_reach_WF h).var]; exact ⟨rfl, rfl⟩
  · rw [(g1_reach_WF h).var]; exact ⟨rfl, rfl⟩
  · rw [(reach_WF2 h).var]; exact ⟨rfl, rfl⟩
  · have := (v1_reach_WF (Or.inl rfl) h).var
    rcases this with k | k <;> rw [k] <;> exact ⟨rfl, rfl⟩
  · have := (v1_reach_WF (Or.inr rfl) h).var
    rcases this with k | k <;> rw [k] <;> exact ⟨rfl, rfl⟩
  · rw [(ng_reach_WF h).var]; exact ⟨rfl, rfl⟩

/-- C12 / the winners count before the filter, all eight contracts: `reserveOf v s = T0` -/
theorem reserve_before_filter {hash : List Nat → List Nat} {v : Variant} {a0 : InitArgs} {s : State}
    {r : Nat} (h : ReachOfA hash v a0 s r) (hf : s.flags.filtered = false) :
    reserveOf v s = a0.nrWinning := by
  cases v <;> simp only [ReachOfA] at h
  · exact LP.Props.C01reach.winners_before_filter hash .base (Or.inl rfl) a0 s r h hf
  · exact LP.Props.C01reach.winners_before_filter hash .locked (Or.inr rfl) a0 s r h hf
  · exact LP.Props.C14reach.winners_before_filter_nft hash a0 s r h hf
  · exact (LP.Props.C01reachG1.reserve_guarV1 hash a0 s r h).1 hf
  · exact (LP.Props.C01reachV2.reserve_conserved_guarV2 hash a0 s r h).2 hf
  · exact (LP.Props.C01reachV1.reserve_v1 hash .migration (Or.inl rfl) a0 s r h).1 hf
  · exact (LP.Props.C01reachV1.reserve_v1 hash .lockedGuar (Or.inr rfl) a0 s r h).1 hf
  · exact (LP.Props.C14reachG.ng_reserve hash a0 s r h).1 hf

/-- the deposit endpoint's `maxWinners` is `reserveOf` in every reachable state -/
theorem maxWinners_eq_reserveOf {hash : List Nat → List Nat} {v : Variant} {a0 : InitArgs} {s : State}
    {r : Nat} (h : ReachOfA hash v a0 s r) : maxWinners s = reserveOf v s := by
  obtain ⟨hg, _⟩ := variant_of_reach h
  unfold reserveOf
  cases hv : v.hasGuaranteed with
  | false => rw [hv] at hg; simp [maxWinners_noGuar hg]
  | true => rw [hv] at hg; simp [maxWinners_guar hg]

/-! ### C02: nothing is left at the end -/

/-- the common form of "nothing is left at the end" in a state in which all selection steps are
    complete and every participant has settled: no winner is outstanding; in the six contracts
    without vesting the owner's accepted `claimPayment` leaves no launchpad token; in the two
    contracts with vesting the balance is zero once everybody has received his whole entitlement
    and the owner has withdrawn (`totalDeposited` cleared), and the owner's accepted withdrawal
    leaves exactly the unvested remainders -/
def ZeroAtEndSpec (hash : List Nat → List Nat) (v : Variant) (s : State) (r : Nat) : Prop :=
  s.nrWinning = 0 ∧
  (v.vested = false → ∀ e s' o, step hash s e .claimPayment = .ok (s', o) →
    s'.nrWinning = 0 ∧ s'.bal (.esdt s'.lpTok) 0 = 0) ∧
  (v.vested = true →
    ((∀ a, s.userClaimed a = s.userTotal a) → s.totalDeposited = 0 → s.bal (.esdt s.lpTok) 0 = 0) ∧
    (∀ e s' o, r ≤ e.round → EnvOK e → step hash s e .claimPayment = .ok (s', o) →
      s'.totalDeposited = 0 ∧ s'.claimablePayment = 0 ∧ s'.nrWinning = 0 ∧
      ∃ L : List Nat, L.Nodup ∧ (∀ a, a ∉ L → s'.userTotal a = 0 ∧ s'.userClaimed a = 0) ∧
        s'.bal (.esdt s'.lpTok) 0 = sumOver (fun a => s'.userTotal a - s'.userClaimed a) L))

theorem nrWinning_zero_of_counts {s : State} {L : List Nat}
    (hwin : sumOver (winCountOf s) L = s.nrWinning) (hall : ∀ a, s.range a = none) :
    s.nrWinning = 0 := by
  rw [← hwin]
  apply sumOver_zero
  intro a _
  simp [winCountOf, hall a]

theorem zero_plain (hash : List Nat → List Nat) (v : Variant) (hv : Plain v) (a0 : InitArgs)
    (s : State) (r : Nat) (h : ReachA hash v a0 s r) (hd : AllDone s) (hall : ∀ a, s.range a = none) :
    ZeroAtEndSpec hash v s r := by
  have hR : Reach hash v s r := Reach_iff.mpr ⟨a0, h⟩
  have hvs : v.vested = false := by rcases hv with rfl | rfl <;> rfl
  refine ⟨LP.PL.all_settled_nrWinning_plain hash v hv s r hR hd hall, fun _ e s' o hs => ?_,
    fun hq => by rw [hvs] at hq; cases hq⟩
  obtain ⟨k1, k2⟩ := LP.PL.lp_zero_at_end_plain hash v hv s r hR hd hall e s' o hs
  obtain ⟨_, _, _, _, m5, _⟩ := LP.PL.owner_surplus_plain hash v hv s r hR e s' o hs
  exact ⟨by rw [m5]; exact k1, k2⟩

theorem zero_nft (hash : List Nat → List Nat) (a0 : InitArgs)
    (s : State) (r : Nat) (h : ReachA hash .nft a0 s r) (hd : AllDone s)
    (hall : ∀ a, s.range a = none) : ZeroAtEndSpec hash .nft s r := by
  have hR : Reach hash .nft s r := Reach_iff.mpr ⟨a0, h⟩
  refine ⟨LP.FL.all_settled_nrWinning_nft hash s r hR hd hall, fun _ e s' o hs => ?_,
    fun hq => by cases hq⟩
  obtain ⟨k1, k2⟩ := LP.FL.lp_zero_at_end_nft hash s r hR hd hall e s' o hs
  obtain ⟨_, m2, _⟩ := LP.FL.owner_surplus_nft hash s r hR e s' o hs
  exact ⟨by rw [m2]; exact k1, k2⟩

theorem zero_v1 (hash : List Nat → List Nat) (v : Variant) (hv : v1_Fam v) (a0 : InitArgs)
    (s : State) (r : Nat) (h : v1_ReachA hash v a0 s r) (hd : AllDone s)
    (hall : ∀ a, s.range a = none) : ZeroAtEndSpec hash v s r := by
  have hR : v1_Reach hash v s r := v1_Reach_iff.mpr ⟨a0, h⟩
  have hvs : v.vested = false := by rcases hv with rfl | rfl <;> rfl
  refine ⟨v1_all_settled_nrWinning (v1_reach_WF hv h) hd hall, fun _ e s' o hs => ?_,
    fun hq => by rw [hvs] at hq; cases hq⟩
  obtain ⟨k1, k2⟩ := LP.Props.C01reachV1.lp_zero_at_end_v1 hash v hv s r hR hd hall e s' o hs
  obtain ⟨_, m2, _⟩ := LP.Props.C01reachV1.owner_surplus_v1 hash v hv s r hR e s' o hs
  exact ⟨by rw [m2]; exact k1, k2⟩

theorem zero_nftGuar (hash : List Nat → List Nat) (a0 : InitArgs)
    (s : State) (r : Nat) (h : ng_ReachA hash a0 s r) (hd : AllDone s)
    (hall : ∀ a, s.range a = none) : ZeroAtEndSpec hash .nftGuar s r := by
  have hR : ng_Reach hash s r := ng_Reach_iff.mpr ⟨a0, h⟩
  refine ⟨ng_all_settled_nrWinning (ng_reach_WF h) hd hall, fun _ e s' o hs => ?_,
    fun hq => by cases hq⟩
  obtain ⟨k1, k2⟩ := LP.FL.lp_zero_at_end_nftGuar hash s r hR hd hall e s' o hs
  obtain ⟨_, m2, _⟩ := LP.FL.owner_surplus_nftGuar hash s r hR e s' o hs
  exact ⟨by rw [m2]; exact k1, k2⟩

theorem zero_guarV2 (hash : List Nat → List Nat) (a0 : InitArgs)
    (s : State) (r : Nat) (h : ReachA hash .guarV2 a0 s r) (hd : AllDone s)
    (hall : ∀ a, s.range a = none) : ZeroAtEndSpec hash .guarV2 s r := by
  have hR : Reach hash .guarV2 s r := Reach_iff.mpr ⟨a0, h⟩
  obtain ⟨L', _, _, hwin, _, _⟩ := LP.Props.C01reachV2.three_counts_guarV2 hash s r hR hd
  have hz := nrWinning_zero_of_counts hwin hall
  refine ⟨hz, fun hq => (by cases hq), fun _ => ⟨fun hcl hown => ?_, fun e s' o hr hok hs => ?_⟩⟩
  · exact LP.Props.C01reachV2.lp_nothing_left_guarV2 hash s r hR hd hall hcl hown
  · obtain ⟨_, m2, m3, m4, _, _, L, l1, l2, l3⟩ :=
      LP.VV.owner_withdrawal_guarV2 hash s r hR e s' o hr hok hs
    refine ⟨m3, m2, by rw [m4]; exact hz, L, l1, l2, ?_⟩
    rw [l3, m4, hz]; simp

theorem zero_guarV1 (hash : List Nat → List Nat) (a0 : InitArgs)
    (s : State) (r : Nat) (h : g1_ReachA hash a0 s r) (hd : AllDone s)
    (hall : ∀ a, s.range a = none) : ZeroAtEndSpec hash .guarV1 s r := by
  have hR : g1_Reach hash s r := g1_Reach_iff.mpr ⟨a0, h⟩
  obtain ⟨L', _, _, hwin, _, _⟩ := LP.Props.C01reachG1.three_counts_guarV1 hash s r hR hd
  have hz := nrWinning_zero_of_counts hwin hall
  refine ⟨hz, fun hq => (by cases hq), fun _ => ⟨fun hcl hown => ?_, fun e s' o hr hok hs => ?_⟩⟩
  · exact LP.Props.C01reachG1.lp_nothing_left_guarV1 hash s r hR hd hall hcl hown
  · obtain ⟨_, m2, m3, m4, _, _, L, l1, l2, l3⟩ :=
      LP.Props.C01reachG1.owner_withdrawal_guarV1 hash s r hR e s' o hr hok hs
    refine ⟨m3, m2, by rw [m4]; exact hz, L, l1, l2, ?_⟩
    rw [l3, m4, hz]; simp

/-! ### C03: the final number of winning tickets, at the call that completes the ticket selection -/

/-- the endpoint whose completion finishes the selection of winning TICKETS: `select` for the three
    contracts without guaranteed tickets (for `nft` the NFT draw `selectNft` follows, it does not
    touch tickets), `distribute` for the four contracts with a distribution step, `secondary` for
    launchpad-nft-and-guaranteed-tickets -/
def completionCall : Variant → Call
  | .base | .locked | .nft => .select
  | .guarV2 | .migration | .lockedGuar | .guarV1 => .distribute
  | .nftGuar => .secondary

/-- "this accepted call completed the step" in the form each family states it: the completion flag
    is set (`select`: `selected`; v2 `distribute`: `additional`), or — the four contracts with the
    v1 distribution loop — the call returns `[0]` (an interrupted call returns `[1]`; a call whose
    leftover loop spins is rejected: `C03_leftover_v1_may_spin`) -/
def Completed (v : Variant) (s' : State) (o : Out) : Prop :=
  match v with
  | .base | .locked | .nft => s'.flags.selected = true
  | .guarV2 => s'.flags.additional = true
  | .migration | .lockedGuar | .guarV1 | .nftGuar => o.ret = [0]

/-- the common form of C03 in the state `s'` left by the completing call (`T0` = winners
    configured at deployment) -/
def FinalSpec (T0 : Nat) (s' : State) : Prop :=
  countTrue s'.status s'.lastTicketId = min T0 s'.lastTicketId ∧
  (∀ t, s'.status t = true → 1 ≤ t ∧ t ≤ s'.lastTicketId) ∧
  s'.nrWinning = countTrue s'.status s'.lastTicketId ∧
  s'.claimablePayment = s'.price * countTrue s'.status s'.lastTicketId ∧
  0 < s'.price ∧ s'.claimablePayment / s'.price = countTrue s'.status s'.lastTicketId ∧
  s'.flags.selected = true

theorem finalSpec_of {T0 : Nat} {hash : List Nat → List Nat} {s s' : State} {e : Env} {c : Call}
    {o : Out} (hs : step hash s e c = .ok (s', o)) (hc : ∀ tok a, c ≠ .setTicketPrice tok a)
    (hp : 0 < s.price)
    (h1 : countTrue s'.status s'.lastTicketId = s'.nrWinning)
    (h2 : s'.nrWinning = min T0 s'.lastTicketId)
    (h3 : s'.claimablePayment = s'.price * s'.nrWinning)
    (h4 : ∀ t, s'.status t = true → 1 ≤ t ∧ t ≤ s'.lastTicketId)
    (h5 : s'.flags.selected = true) : FinalSpec T0 s' := by
  have hp' : 0 < s'.price := by rw [(price_frame hs hc).1]; exact hp
  refine ⟨by rw [h1]; exact h2, h4, h1.symm, by rw [h1]; exact h3, hp', ?_, h5⟩
  rw [h3, h1]
  exact Nat.mul_div_cancel_left _ hp'

theorem final_every {hash : List Nat → List Nat} {v : Variant} {a0 : InitArgs} {s : State} {r : Nat}
    (h : ReachOfA hash v a0 s r) (e : Env) (s' : State) (o : Out) (hr : r ≤ e.round)
    (hs : step hash s e (completionCall v) = .ok (s', o)) (hc : Completed v s' o) :
    FinalSpec a0.nrWinning s' ∧ (v ≠ .nft → AllDone s') ∧
    (v.v1Alloc = true → ∀ t, s.status t = true → s'.status t = true) := by
  cases v <;> simp only [ReachOfA, completionCall, Completed] at h hs hc
  · obtain ⟨k1, k2, k3, k4, k5⟩ :=
      LP.Props.C01reach.three_counts_at_completion hash .base (Or.inl rfl) a0 s r h e s' o hs hc
    exact ⟨finalSpec_of hs (by intro _ _ hh; cases hh) (reach_WF (Or.inl rfl) h).pricePos k1 k2 k3 k4 hc,
      fun _ => k5, fun hq => by cases hq⟩
  · obtain ⟨k1, k2, k3, k4, k5⟩ :=
      LP.Props.C01reach.three_counts_at_completion hash .locked (Or.inr rfl) a0 s r h e s' o hs hc
    exact ⟨finalSpec_of hs (by intro _ _ hh; cases hh) (reach_WF (Or.inr rfl) h).pricePos k1 k2 k3 k4 hc,
      fun _ => k5, fun hq => by cases hq⟩
  · obtain ⟨k1, k2, k3, k4⟩ :=
      LP.Props.C14reach.three_counts_at_completion_nft hash a0 s r h e s' o hs hc
    exact ⟨finalSpec_of hs (by intro _ _ hh; cases hh) (nf_reach_WF h).pricePos k1 k2 k3 k4 hc,
      fun hq => absurd rfl hq, fun hq => by cases hq⟩
  · obtain ⟨k0, k1, _, k2, k3, k4, k5⟩ :=
      LP.Props.C01reachG1.final_winners_guarV1_partial hash a0 s r h e s' o hs hc
    exact ⟨finalSpec_of hs (by intro _ _ hh; cases hh) (g1_reach_WF h).pricePos k1 k2 k3 k4 k0.1,
      fun _ => k0, fun _ => k5⟩
  · obtain ⟨k1, _, k2, k3, k4, k0⟩ :=
      LP.Props.C01reachV2.final_winners_guarV2 hash a0 s r h e s' o hs hc
    exact ⟨finalSpec_of hs (by intro _ _ hh; cases hh) (reach_WF2 h).pricePos k1 k2 k3 k4 k0.1,
      fun _ => k0, fun hq => by cases hq⟩
  · obtain ⟨k0, k1, _, k2, k3, k4, k5⟩ :=
      LP.Props.C01reachV1.final_winners_v1_partial hash .migration (Or.inl rfl) a0 s r h e s' o hs hc
    exact ⟨finalSpec_of hs (by intro _ _ hh; cases hh) (v1_reach_WF (Or.inl rfl) h).pricePos k1 k2 k3 k4
      k0.1, fun _ => k0, fun _ => k5⟩
  · obtain ⟨k0, k1, _, k2, k3, k4, k5⟩ :=
      LP.Props.C01reachV1.final_winners_v1_partial hash .lockedGuar (Or.inr rfl) a0 s r h e s' o hs hc
    exact ⟨finalSpec_of hs (by intro _ _ hh; cases hh) (v1_reach_WF (Or.inr rfl) h).pricePos k1 k2 k3 k4
      k0.1, fun _ => k0, fun _ => k5⟩
  · obtain ⟨k0, k1, k2, k3, k4, k5⟩ :=
      LP.Props.C14reachG.ng_final_winners_partial hash a0 s r h e s' o hr hs hc
    exact ⟨finalSpec_of hs (by intro _ _ hh; cases hh) (ng_reach_WF h).pricePos k1 k2 k3 k4 k0.1,
      fun _ => k0, fun _ => k5⟩

/-! ### C11: the guarantees are honoured, at the call that completes the distribution -/

/-- the number of winning tickets guaranteed to the holder `u` of the guarantee record `st`:
    v2 — `(calcV2 …).1 = min confirmed (guarantees whose confirmation threshold is met)`;
    v1 (four contracts) — `min (qualified guarantee (calcV1 …).1) confirmed` -/
def guaranteeOf (v : Variant) (s : State) (u : Nat) (st : UTS) : Nat :=
  match v with
  | .guarV2 => (calcV2 st.infos (s.confirmed u)).1
  | _ => min (calcV1 st (s.confirmed u) s.minConfirmed).1 (s.confirmed u)

/-- the common form of C11 in the state `s'` left by the completing call: every holder of a
    guarantee record (v2: who holds a ticket range, i.e. was not removed by the filter) owns at
    least his guaranteed number of winning tickets; no winning flag lies outside `1..lastTicketId` -/
def HonouredSpec (v : Variant) (s' : State) : Prop :=
  (∀ u st, s'.uts u = some st → (v = .guarV2 → ∃ rg, s'.range u = some rg) →
    guaranteeOf v s' u st ≤ winCountOf s' u) ∧
  (∀ t, s'.status t = true → 1 ≤ t ∧ t ≤ s'.lastTicketId)

theorem honoured_every {hash : List Nat → List Nat} {v : Variant} {a0 : InitArgs} {s : State} {r : Nat}
    (hg : v.hasGuaranteed = true)
    (h : ReachOfA hash v a0 s r) (e : Env) (s' : State) (o : Out) (hr : r ≤ e.round)
    (hs : step hash s e (completionCall v) = .ok (s', o)) (hc : Completed v s' o) :
    HonouredSpec v s' := by
  cases v <;> simp only [ReachOfA, completionCall, Completed] at h hs hc
  · cases hg
  · cases hg
  · cases hg
  · obtain ⟨k1, k2⟩ := LP.Props.C01reachG1.guarantee_honoured_guarV1 hash a0 s r h e s' o hs hc
    exact ⟨fun u st hu _ => k1 u st hu, k2⟩
  · have hwf := reach_WF2 h
    obtain ⟨hwf', _⟩ := v2_distribute_full hwf hs
    have hF : PhF s'.gcore := v2_phase_F hwf'.phase hc
    refine ⟨fun u st hu hrg => ?_, hF.flagsIn⟩
    obtain ⟨rg, hrg⟩ := hrg rfl
    have h1 := hF.hon u st rg hu hrg
    have h2 : winCountOf s' u = countWinning s'.status rg.first (rangeLen rg) := by
      simp only [winCountOf, hrg]
    show (calcV2 st.infos (s'.confirmed u)).1 ≤ winCountOf s' u
    rw [h2]; exact h1
  · obtain ⟨k1, k2⟩ :=
      LP.Props.C01reachV1.guarantee_honoured_v1 hash .migration (Or.inl rfl) a0 s r h e s' o hs hc
    exact ⟨fun u st hu _ => k1 u st hu, k2⟩
  · obtain ⟨k1, k2⟩ :=
      LP.Props.C01reachV1.guarantee_honoured_v1 hash .lockedGuar (Or.inr rfl) a0 s r h e s' o hs hc
    exact ⟨fun u st hu _ => k1 u st hu, k2⟩
  · obtain ⟨k1, k2⟩ := LP.Props.C14reachG.ng_guarantee_honoured hash a0 s r h e s' o hr hs hc
    exact ⟨fun u st hu _ => k1 u st hu, k2⟩

/-! ### C12: the reserve -/

theorem v2_owed_le {T0 : Nat} {s : State} {r : Nat} (hwf : WF2 T0 s r)
    (hna : s.flags.additional = false) : s.nrWinning + s.totalGuaranteed ≤ T0 := by
  have htg := hwf.tgLe
  rcases hwf.phase with ⟨_, hns, _, hph⟩ | hE | hF
  · rcases hph with ⟨L0, hp, _⟩ | hC | hD
    · have : s.nrWinning = T0 - s.totalGuaranteed := hp.nrw
      omega
    · have : s.nrWinning = min (T0 - s.totalGuaranteed) s.lastTicketId := hC.nrw
      omega
    · have h1 : s.flags.selected = true := hD.selected
      have h2 : s.flags.selected = false := hns
      rw [h2] at h1; cases h1
  · have : s.nrWinning = min (T0 - s.totalGuaranteed) s.lastTicketId := hE.nrw
    omega
  · have h1 : s.flags.additional = true := hF.add
    rw [hna] at h1; cases h1

/-- the common form of C12 (`T0` = winners configured at deployment) -/
def ReserveSpec (v : Variant) (T0 : Nat) (s : State) : Prop :=
  (s.flags.filtered = false → s.nrWinning + s.totalGuaranteed = T0) ∧
  (s.flags.additional = false → (v = .nftGuar → ∀ rg, s.op ≠ .additional (.nft rg)) →
    s.nrWinning + s.totalGuaranteed ≤ T0) ∧
  (s.flags.additional = false → s.nrWinning ≤ T0)

theorem reserve_every {hash : List Nat → List Nat} {v : Variant} {a0 : InitArgs} {s : State} {r : Nat}
    (hg : v.hasGuaranteed = true) (h : ReachOfA hash v a0 s r) : ReserveSpec v a0.nrWinning s := by
  cases v <;> simp only [ReachOfA] at h
  · cases hg
  · cases hg
  · cases hg
  · obtain ⟨k1, k2⟩ := LP.Props.C01reachG1.reserve_guarV1 hash a0 s r h
    exact ⟨k1, fun hna _ => k2 hna, fun hna => Nat.le_trans (Nat.le_add_right _ _) (k2 hna)⟩
  · obtain ⟨_, k1⟩ := LP.Props.C01reachV2.reserve_conserved_guarV2 hash a0 s r h
    have k2 := v2_owed_le (reach_WF2 h)
    exact ⟨k1, fun hna _ => k2 hna, fun hna => Nat.le_trans (Nat.le_add_right _ _) (k2 hna)⟩
  · obtain ⟨k1, k2⟩ := LP.Props.C01reachV1.reserve_v1 hash .migration (Or.inl rfl) a0 s r h
    exact ⟨k1, fun hna _ => k2 hna, fun hna => Nat.le_trans (Nat.le_add_right _ _) (k2 hna)⟩
  · obtain ⟨k1, k2⟩ := LP.Props.C01reachV1.reserve_v1 hash .lockedGuar (Or.inr rfl) a0 s r h
    exact ⟨k1, fun hna _ => k2 hna, fun hna => Nat.le_trans (Nat.le_add_right _ _) (k2 hna)⟩
  · obtain ⟨k1, k2, k3⟩ := LP.Props.C14reachG.ng_reserve hash a0 s r h
    exact ⟨k1, fun hna hop => k2 hna (hop rfl), k3⟩

/-! ### histories: `run` over an admissible history stays reachable -/

/-- the transactions of an admissible history of variant `v`: EGLD or ESDT, not both; allocation
    entries have at least one ticket -/
def HistOKOf (v : Variant) (e : Env) (c : Call) : Prop := EnvOK e ∧ CallOKOf v c

theorem run_cons_ok {hash : List Nat → List Nat} {s s' : State} {e : Env} {c : Call} {o : Out}
    {rest : List (Env × Call)} (h : step hash s e c = .ok (s', o)) :
    run hash s ((e, c) :: rest) = run hash s' rest := by
  simp [run, h]

theorem run_cons_err {hash : List Nat → List Nat} {s : State} {e : Env} {c : Call} {err : Err}
    {rest : List (Env × Call)} (h : step hash s e c = .error err) :
    run hash s ((e, c) :: rest) = run hash s rest := by
  simp [run, h]

/-- along any admissible history with non-decreasing rounds (rejected transactions leave no trace)
    the state stays reachable, with the same deployment arguments -/
theorem reachOfA_run {hash : List Nat → List Nat} {v : Variant} {a0 : InitArgs} :
    ∀ (p : LP.Props.C17.Hist) (s : State) (r : Nat), ReachOfA hash v a0 s r →
      LP.Props.C17.RoundsFrom r p → (∀ x ∈ p, HistOKOf v x.1 x.2) →
      ∃ r', r ≤ r' ∧ ReachOfA hash v a0 (run hash s p) r'
  | [], s, r, h, _, _ => ⟨r, Nat.le_refl _, h⟩
  | (e, c) :: rest, s, r, h, hr, hp => by
    obtain ⟨h1, h2⟩ := hr
    have hx := hp (e, c) (List.mem_cons_self ..)
    have hrest : ∀ x ∈ rest, HistOKOf v x.1 x.2 := fun x hx => hp x (List.mem_cons_of_mem _ hx)
    cases hst : step hash s e c with
    | error err =>
      rw [run_cons_err hst]
      obtain ⟨r', k1, k2⟩ := reachOfA_run rest s e.round (h.wait h1) h2 hrest
      exact ⟨r', Nat.le_trans h1 k1, k2⟩
    | ok q =>
      obtain ⟨s', o⟩ := q
      rw [run_cons_ok hst]
      obtain ⟨r', k1, k2⟩ :=
        reachOfA_run rest s' e.round (h.call e c s' o h1 hx.1 hx.2 hst) h2 hrest
      exact ⟨r', Nat.le_trans h1 k1, k2⟩

end LP.Props.AllVariants
