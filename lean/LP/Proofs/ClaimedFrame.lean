import LP.Proofs.NftDraw
/-
  LP.Proofs.ClaimedFrame — the `claimed` flags are written only by `settle`:
  every other helper leaves `State.claimed` unchanged.
-/
namespace LP

/-! ### launchpad-common helpers -/

theorem tryCreateTickets_claimed {s s' : State} {a n : Nat} (h : tryCreateTickets s a n = .ok s') :
    s'.claimed = s.claimed := by
  unfold tryCreateTickets at h
  simp only [bind_ok_iff, pure_ok_iff, req_ok_iff, exists_const] at h
  obtain ⟨_, _, rfl⟩ := h
  rfl

theorem createMany_claimed : ∀ (l : List (Nat × Nat)) {s s' : State}, createMany l s = .ok s' →
    s'.claimed = s.claimed
  | [], s, s', h => by simp only [createMany, Except.ok.injEq] at h; rw [h]
  | (a, n) :: rest, s, s', h => by
    unfold createMany at h
    cases h1 : tryCreateTickets s a n with
    | error e => simp [h1] at h
    | ok s1 =>
      simp only [h1] at h
      rw [createMany_claimed rest h, tryCreateTickets_claimed h1]

theorem addV1Many_claimed : ∀ (l : List (Nat × Nat × Nat × Bool)) {acc acc' : State × Nat × Nat},
    addV1Many l acc = .ok acc' → acc'.1.claimed = acc.1.claimed
  | [], acc, acc', h => by simp only [addV1Many, Except.ok.injEq] at h; rw [h]
  | (buyer, staking, energy, migrated) :: rest, (s, tw, tg), acc', h => by
    unfold addV1Many at h
    cases h1 : tryCreateTickets s buyer (staking + energy) with
    | error e => simp [h1] at h
    | ok s1 =>
      simp only [h1] at h
      repeat' (split at h)
      all_goals first
        | (cases h; done)
        | (rw [addV1Many_claimed rest h]; show s1.claimed = s.claimed
           exact tryCreateTickets_claimed h1)

theorem addTicketsV1_claimed {s s' : State} {e : Env} {l : List (Nat × Nat × Nat × Bool)}
    (h : addTicketsV1 s e l = .ok s') : s'.claimed = s.claimed := by
  unfold addTicketsV1 at h
  simp only [bind_ok_iff, pure_ok_iff, Prod.exists] at h
  obtain ⟨_, _, s1, tw, tg, h1, rfl⟩ := h
  exact addV1Many_claimed l h1

theorem addV2Many_claimed (e : Env) : ∀ (l : List (Nat × Nat × List (Nat × Nat)))
    {acc acc' : State × Nat × Nat × Nat × Nat × Nat},
    addV2Many e l acc = .ok acc' → acc'.1.claimed = acc.1.claimed
  | [], acc, acc', h => by simp only [addV2Many, Except.ok.injEq] at h; rw [h]
  | (buyer, n, infos) :: rest, (s, tw, tg, uc, ta, ga), acc', h => by
    unfold addV2Many at h
    split at h
    · exact addV2Many_claimed e rest h
    · split at h
      · cases h
      · split at h
        · cases h
        · split at h
          · cases h
          · cases h1 : tryCreateTickets s buyer n with
            | error err => simp [h1] at h
            | ok s1 =>
              simp only [h1] at h
              split at h
              · cases h
              · split at h
                · split at h
                  · cases h
                  · rw [addV2Many_claimed e rest h]
                    show s1.claimed = s.claimed
                    exact tryCreateTickets_claimed h1
                · rw [addV2Many_claimed e rest h]
                  show s1.claimed = s.claimed
                  exact tryCreateTickets_claimed h1

theorem addTicketsV2_claimed {t t' : Tx} {e : Env} {l : List (Nat × Nat × List (Nat × Nat))}
    (h : addTicketsV2 t e l = .ok t') : t'.s.claimed = t.s.claimed := by
  unfold addTicketsV2 at h
  simp only [bind_ok_iff, pure_ok_iff, Prod.exists] at h
  obtain ⟨_, _, s1, tw, tg, uc, ta, ga, h1, rfl⟩ := h
  exact addV2Many_claimed e l h1

theorem depositLaunchpadTokens_claimed {s s' : State} {e : Env} {tw : Nat}
    (h : depositLaunchpadTokens s e tw = .ok s') : s'.claimed = s.claimed := by
  unfold depositLaunchpadTokens at h
  simp only [bind_ok_iff, pure_ok_iff, req_ok_iff, exists_const, Prod.exists] at h
  obtain ⟨_, _, _, _, _, _, rfl⟩ := h
  rfl

theorem trySetTicketPrice_claimed {s s' : State} {tok : Token} {amount : Nat}
    (h : trySetTicketPrice s tok amount = .ok s') : s'.claimed = s.claimed := by
  unfold trySetTicketPrice at h
  simp only [bind_ok_iff, pure_ok_iff, req_ok_iff, exists_const] at h
  obtain ⟨_, _, _, rfl⟩ := h
  rfl

theorem confirmTickets_claimed {t t' : Tx} {e : Env} {n : Nat}
    (h : confirmTickets t e n = .ok t') : t'.s.claimed = t.s.claimed := by
  unfold confirmTickets at h
  simp only [bind_ok_iff, pure_ok_iff, req_ok_iff, exists_const, Prod.exists] at h
  obtain ⟨_, _, _, _, _, _, _, _, _, _, _, _, _, rfl⟩ := h
  rfl

theorem filterTickets_claimed {t t' : Tx} {e : Env}
    (h : filterTickets t e = .ok t') : t'.s.claimed = t.s.claimed := by
  unfold filterTickets at h
  simp only [bind_ok_iff, req_ok_iff, requireStage, exists_const] at h
  obtain ⟨_, _, _, h⟩ := h
  split at h
  · simp only [bind_ok_iff, pure_ok_iff, Prod.exists, Prod.mk.injEq] at h
    obtain ⟨first, removed, _, f, b, st, _, h⟩ := h
    cases st with
    | completed =>
      simp only [bind_ok_iff, pure_ok_iff] at h
      obtain ⟨_, _, rfl⟩ := h; rfl
    | interrupted => simp only [pure_ok_iff] at h; subst h; rfl
    | outOfFuel => cases h
  · simp only [bind_ok_iff, pure_ok_iff, Prod.exists, Prod.mk.injEq] at h
    obtain ⟨first, removed, _, f, b, st, _, h⟩ := h
    cases st with
    | completed =>
      simp only [bind_ok_iff, pure_ok_iff] at h
      obtain ⟨_, _, rfl⟩ := h; rfl
    | interrupted => simp only [pure_ok_iff] at h; subst h; rfl
    | outOfFuel => cases h
  · simp [bind, Except.bind] at h

theorem selectWinners_claimed {hash : List Nat → List Nat} {t t' : Tx} {e : Env}
    (h : selectWinners hash t e = .ok t') : t'.s.claimed = t.s.claimed := by
  unfold selectWinners at h
  simp only [bind_ok_iff, req_ok_iff, requireStage, ownerOrUser, exists_const] at h
  obtain ⟨_, _, _, _, _, h⟩ := h
  split at h
  · simp only [bind_ok_iff, pure_ok_iff, Prod.exists, Prod.mk.injEq] at h
    obtain ⟨rng, pos, t0, _, x, b, st, _, h⟩ := h
    cases st with
    | completed => simp only [pure_ok_iff] at h; subst h; rfl
    | interrupted => simp only [pure_ok_iff] at h; subst h; rfl
    | outOfFuel => cases h
  · simp only [bind_ok_iff, pure_ok_iff, Prod.exists, Prod.mk.injEq] at h
    obtain ⟨rng, pos, t0, _, x, b, st, _, h⟩ := h
    cases st with
    | completed => simp only [pure_ok_iff] at h; subst h; rfl
    | interrupted => simp only [pure_ok_iff] at h; subst h; rfl
    | outOfFuel => cases h
  · simp [bind, Except.bind] at h

/-! ### blacklist -/

theorem blacklistMany_claimed (e : Env) : ∀ (l : List Nat) {t t' : Tx},
    blacklistMany e l t = .ok t' → t'.s.claimed = t.s.claimed
  | [], t, t', h => by simp only [blacklistMany, Except.ok.injEq] at h; rw [h]
  | a :: rest, t, t', h => by
    unfold blacklistMany at h
    split at h
    · cases h
    · split at h
      · cases h
      · simp only at h
        split at h
        · cases h
        · rename_i t1 h1
          rw [blacklistMany_claimed e rest h]
          have ht1 : t1.s.claimed = t.s.claimed := by
            split at h1
            · rw [refund_ok_iff] at h1
              rw [h1.2, refundResult_state]
            · cases h1; rfl
          simp only [Tx.setS]
          split <;> exact ht1

theorem addUsersToBlacklist_claimed {t t' : Tx} {e : Env} {l : List Nat}
    (h : addUsersToBlacklist t e l = .ok t') : t'.s.claimed = t.s.claimed := by
  unfold addUsersToBlacklist at h
  simp only [bind_ok_iff, req_ok_iff, extendedPermissions, exists_const] at h
  obtain ⟨_, _, h⟩ := h
  exact blacklistMany_claimed e l h

theorem unblacklistMany_claimed : ∀ (l : List Nat) {s s' : State},
    unblacklistMany l s = .ok s' → s'.claimed = s.claimed
  | [], s, s', h => by simp only [unblacklistMany, Except.ok.injEq] at h; rw [h]
  | a :: rest, s, s', h => by
    unfold unblacklistMany at h
    split at h
    · rw [unblacklistMany_claimed rest h]
    · cases h

theorem removeUsersFromBlacklist_claimed {s s' : State} {e : Env} {l : List Nat}
    (h : removeUsersFromBlacklist s e l = .ok s') : s'.claimed = s.claimed := by
  unfold removeUsersFromBlacklist at h
  simp only [bind_ok_iff, req_ok_iff, extendedPermissions, exists_const] at h
  obtain ⟨_, _, h⟩ := h
  exact unblacklistMany_claimed l h

theorem clearV1Many_claimed : ∀ (l : List Nat) {acc acc' : State × Nat × Nat},
    clearV1Many l acc = .ok acc' → acc'.1.claimed = acc.1.claimed
  | [], acc, acc', h => by simp only [clearV1Many, Except.ok.injEq] at h; rw [h]
  | u :: rest, (s, removed, tg), acc', h => by
    unfold clearV1Many at h
    repeat' (first | split at h | simp only at h)
    all_goals first
      | (cases h; done)
      | (rw [clearV1Many_claimed rest h])

theorem clearGuaranteedV1_claimed {s s' : State} {l : List Nat}
    (h : clearGuaranteedV1 s l = .ok s') : s'.claimed = s.claimed := by
  unfold clearGuaranteedV1 at h
  simp only [bind_ok_iff, pure_ok_iff, Prod.exists] at h
  obtain ⟨s1, a, b, h1, rfl⟩ := h
  exact clearV1Many_claimed l h1

theorem clearV2Many_claimed : ∀ (l : List Nat) {acc acc' : State × Nat × Nat},
    clearV2Many l acc = .ok acc' → acc'.1.claimed = acc.1.claimed
  | [], acc, acc', h => by simp only [clearV2Many, Except.ok.injEq] at h; rw [h]
  | u :: rest, (s, nw, tg), acc', h => by
    unfold clearV2Many at h
    repeat' (first | split at h | simp only at h)
    all_goals first
      | (cases h; done)
      | (rw [clearV2Many_claimed rest h])

theorem clearGuaranteedV2_claimed {s s' : State} {l : List Nat}
    (h : clearGuaranteedV2 s l = .ok s') : s'.claimed = s.claimed := by
  unfold clearGuaranteedV2 at h
  simp only [bind_ok_iff, pure_ok_iff, Prod.exists] at h
  obtain ⟨s1, a, b, h1, rfl⟩ := h
  exact clearV2Many_claimed l h1

theorem restoreV1Many_claimed : ∀ (l : List Nat) {acc acc' : State × Nat × Nat},
    restoreV1Many l acc = .ok acc' → acc'.1.claimed = acc.1.claimed
  | [], acc, acc', h => by simp only [restoreV1Many, Except.ok.injEq] at h; rw [h]
  | u :: rest, (s, nw, tg), acc', h => by
    unfold restoreV1Many at h
    repeat' (first | split at h | simp only at h)
    all_goals first
      | (cases h; done)
      | (rw [restoreV1Many_claimed rest h])

theorem restoreGuaranteedV1_claimed {s s' : State} {l : List Nat}
    (h : restoreGuaranteedV1 s l = .ok s') : s'.claimed = s.claimed := by
  unfold restoreGuaranteedV1 at h
  simp only [bind_ok_iff, pure_ok_iff, Prod.exists] at h
  obtain ⟨s1, a, b, h1, rfl⟩ := h
  exact restoreV1Many_claimed l h1

theorem restoreV2Many_claimed : ∀ (l : List Nat) {acc acc' : State × Nat × Nat},
    restoreV2Many l acc = .ok acc' → acc'.1.claimed = acc.1.claimed
  | [], acc, acc', h => by simp only [restoreV2Many, Except.ok.injEq] at h; rw [h]
  | u :: rest, (s, nw, tg), acc', h => by
    unfold restoreV2Many at h
    repeat' (first | split at h | simp only at h)
    all_goals first
      | (cases h; done)
      | (rw [restoreV2Many_claimed rest h])

theorem restoreGuaranteedV2_claimed {s s' : State} {l : List Nat}
    (h : restoreGuaranteedV2 s l = .ok s') : s'.claimed = s.claimed := by
  unfold restoreGuaranteedV2 at h
  simp only [bind_ok_iff, pure_ok_iff, Prod.exists] at h
  obtain ⟨s1, a, b, h1, rfl⟩ := h
  exact restoreV2Many_claimed l h1

theorem refundNftMany_claimed : ∀ (l : List Nat) {t t' : Tx},
    refundNftMany l t = .ok t' → t'.s.claimed = t.s.claimed
  | [], t, t', h => by simp only [refundNftMany, Except.ok.injEq] at h; rw [h]
  | u :: rest, t, t', h => by
    unfold refundNftMany at h
    simp only at h
    split at h
    · split at h
      · cases h
      · rename_i t1 h1
        rw [refundNftMany_claimed rest h]
        rw [send_ok_iff] at h1
        rw [h1.2]; rfl
    · exact refundNftMany_claimed rest h

/-! ### vesting -/

theorem setSchedule1_claimed {s s' : State} {e : Env} {a b c d f : Nat}
    (h : setSchedule1 s e a b c d f = .ok s') : s'.claimed = s.claimed := by
  unfold setSchedule1 at h
  simp only [bind_ok_iff, pure_ok_iff, req_ok_iff, exists_const] at h
  obtain ⟨_, _, _, _, rfl⟩ := h
  rfl

theorem setSchedule2_claimed {t t' : Tx} {e : Env} {ms : List (Nat × Nat)}
    (h : setSchedule2 t e ms = .ok t') : t'.s.claimed = t.s.claimed := by
  unfold setSchedule2 at h
  simp only [bind_ok_iff, pure_ok_iff, req_ok_iff, requireStage, exists_const] at h
  obtain ⟨_, _, _, rfl⟩ := h
  rfl

/-! ### generic loop rule -/

theorem runWhile_keeps {σ : Type} (P : σ → Prop) (body : σ → Res (σ × Bool))
    (hb : ∀ x x' c, body x = .ok (x', c) → P x → P x') :
    ∀ (f : Nat) (b : Option Nat) (x x' : σ) (b' : Option Nat) (st : LoopStatus),
      runWhile body f b x = .ok (x', b', st) → P x → P x' := by
  intro f
  induction f with
  | zero =>
    intro b x x' b' st h hp
    rw [runWhile_zero] at h
    cases h; exact hp
  | succ f ih =>
    intro b x x' b' st h hp
    cases hbx : body x with
    | error err => rw [runWhile_err hbx] at h; cases h
    | ok r =>
      obtain ⟨x1, c⟩ := r
      have hp1 := hb x x1 c hbx hp
      cases c
      · rw [runWhile_stop hbx] at h
        cases h; exact hp1
      · cases b with
        | none => rw [runWhile_cont_none hbx] at h; exact ih _ _ _ _ _ h hp1
        | some k =>
          cases k with
          | zero => rw [runWhile_cont_zero hbx] at h; cases h; exact hp1
          | succ k => rw [runWhile_cont_succ hbx] at h; exact ih _ _ _ _ _ h hp1

/-! ### owner withdrawal -/

theorem claimPaymentOwn_claimed {t t' : Tx} {e : Env}
    (h : claimPaymentOwn t e = .ok t') : t'.s.claimed = t.s.claimed := by
  unfold claimPaymentOwn at h
  simp only [bind_ok_iff, req_ok_iff, requireStage, exists_const] at h
  obtain ⟨_, h⟩ := h
  split at h
  · simp only [bind_ok_iff, send_ok_iff] at h
    obtain ⟨t1, ⟨_, rfl⟩, h⟩ := h
    split at h
    · simp only [pure_ok_iff] at h; subst h; rfl
    · split at h
      · simp only [pure_ok_iff] at h; subst h; rfl
      · rw [send_ok_iff] at h; rw [h.2]; rfl
  · simp only [bind_ok_iff, pure_ok_iff] at h
    obtain ⟨a, rfl, h⟩ := h
    split at h
    · simp only [pure_ok_iff] at h; subst h; rfl
    · split at h
      · simp only [pure_ok_iff] at h; subst h; rfl
      · rw [send_ok_iff] at h; rw [h.2]; rfl

theorem claimPaymentCommon_claimed {t t' : Tx} {e : Env}
    (h : claimPaymentCommon t e = .ok t') : t'.s.claimed = t.s.claimed := by
  obtain ⟨_, b, cp, hs, _⟩ := claimPaymentCommon_frame h
  rw [hs]

theorem claimNftPayment_claimed {t t' : Tx} {e : Env}
    (h : claimNftPayment t e = .ok t') : t'.s.claimed = t.s.claimed := by
  rw [claimNftPayment_ok_iff] at h
  obtain ⟨_, _, rfl⟩ := h
  split <;> rfl

/-! ### token delivery -/

theorem sendLocked_claimed {t t' : Tx} {e : Env} {dest amount : Nat}
    (h : t.sendLocked e dest amount = .ok t') : t'.s.claimed = t.s.claimed := by
  rw [sendLocked_eq_with] at h
  unfold sendLockedWith at h
  split at h
  · simp only [bind_ok_iff, pure_ok_iff, send_ok_iff] at h
    obtain ⟨t1, ⟨_, rfl⟩, t2, rfl, h⟩ := h
    split at h
    · rw [send_ok_iff] at h; rw [h.2]; rfl
    · simp only [pure_ok_iff] at h; subst h; rfl
  · simp only [bind_ok_iff, pure_ok_iff] at h
    obtain ⟨t2, rfl, h⟩ := h
    split at h
    · rw [send_ok_iff] at h; rw [h.2]; rfl
    · simp only [pure_ok_iff] at h; subst h; rfl

theorem sendLaunchpadTokens_claimed {t t' : Tx} {e : Env} {addr n : Nat}
    (h : t.sendLaunchpadTokens e addr n = .ok t') : t'.s.claimed = t.s.claimed := by
  unfold Tx.sendLaunchpadTokens at h
  split at h
  · cases h; rfl
  · simp only at h
    split at h
    · exact sendLocked_claimed h
    · rw [send_ok_iff] at h
      rw [h.2]; rfl

/-! ### claims -/

/-- the non-vested claim sets exactly the caller's flag -/
theorem claimBase_claimed {t t' : Tx} {e : Env} (h : claimBase t e = .ok t') :
    t'.s.claimed = upd t.s.claimed e.caller true := by
  rw [claimBase_ok_iff] at h
  obtain ⟨r, _, t2, h2, h3⟩ := h
  have h2' := sendLaunchpadTokens_claimed h2
  rw [claimMid_state] at h2'
  have ht2 : t2.s.claimed = upd t.s.claimed e.caller true := h2'
  split at h3
  · rw [claimNft_ok_iff] at h3
    obtain ⟨_, _, rfl⟩ := h3
    rw [(claimNftResult_effect t2 e).2.2.2.2.2.2.1, ht2]
  · simp only [pure_ok_iff] at h3
    subst h3; exact ht2

theorem claimSettle_claimed {t t1 : Tx} {e : Env} (h : claimSettle t e = .ok t1) :
    t1.s.claimed = upd t.s.claimed e.caller true := by
  unfold claimSettle at h
  cases hcl : t.s.claimed e.caller
  · simp only [hcl, Bool.false_eq_true, if_false, bind_ok_iff, Prod.exists, settle_ok_iff,
      refund_ok_iff, pure_ok_iff] at h
    obtain ⟨s1, rd, rf, ⟨_, _, r, _, _, _, _, _, rfl⟩, t0, ⟨_, rfl⟩, rfl⟩ := h
    split
    · simp only [Tx.setS, refundResult_state]; rfl
    · rw [refundResult_state]; rfl
  · simp only [hcl, if_true, pure_ok_iff] at h
    subst h
    funext u
    simp only [upd_apply]
    split
    · rename_i hu; rw [hu, hcl]
    · rfl

theorem claimPay_claimed {v2 : Bool} {t t' : Tx} {e : Env} {c : Nat}
    (h : claimPay v2 t e c = .ok t') : t'.s.claimed = t.s.claimed := by
  unfold claimPay at h
  split at h
  · simp only [bind_ok_iff, send_ok_iff, pure_ok_iff] at h
    obtain ⟨t1, ⟨_, rfl⟩, rfl⟩ := h
    cases v2 <;> rfl
  · simp only [pure_ok_iff] at h
    subst h; rfl

theorem claimBody_claimed {v2 : Bool} {t t' : Tx} {e : Env} (h : claimBody v2 t e = .ok t') :
    t'.s.claimed = upd t.s.claimed e.caller true := by
  unfold claimBody at h
  simp only [bind_ok_iff] at h
  obtain ⟨t1, h1, c, _, h2⟩ := h
  rw [claimPay_claimed h2, claimSettle_claimed h1]

/-- the vesting claim sets the caller's flag (a no-op on repeat claims) -/
theorem claimVested_claimed {t t' : Tx} {e : Env} (h : claimVested t e = .ok t') :
    t'.s.claimed = upd t.s.claimed e.caller true := by
  rw [claimVested_eq] at h
  split at h
  · simp only [bind_ok_iff, req_ok_iff, exists_const] at h
    exact claimBody_claimed h.2
  · exact claimBody_claimed h

/-! ### distribution step and NFT draw -/

theorem g_leftoverBody_tx_s (hash : List Nat → List Nat) (v2 : Bool) (nrOrig last : Nat) (s0 : State)
    (x x' : LSt) (c : Bool) (h : leftoverBody hash v2 nrOrig last x = .ok (x', c))
    (hx : x.tx.s = s0) : x'.tx.s = s0 := by
  unfold leftoverBody at h
  simp only at h
  have hd := Tx.g_draw_s hash x.tx x.rng
  repeat' (first | split at h | simp only at h)
  all_goals first
    | (cases h; done)
    | (simp only [Except.ok.injEq, Prod.mk.injEq] at h
       obtain ⟨rfl, _⟩ := h
       first
         | exact hx
         | (split <;> exact hx)
         | (rw [← hx]; exact hd)
         | (simp only []; split <;> (first | exact hx | (rw [← hx]; exact hd))))

theorem g_nftBody_tx_s (hash : List Nat → List Nat) (total : Nat) (s0 : State)
    (x x' : NSt) (c : Bool) (h : nftBody hash total x = .ok (x', c))
    (hx : x.tx.s = s0) : x'.tx.s = s0 := by
  unfold nftBody at h
  have hd := Tx.g_draw_s hash x.tx x.rng
  split at h
  · cases h; exact hx
  · simp only at h
    split at h
    · cases h
    · cases h
      rw [← hx]; exact hd

theorem nftSubstep_claimed {hash : List Nat → List Nat} {t t' : Tx} {rng rng' : Rng} {st : LoopStatus}
    (h : nftSubstep hash t rng = .ok (t', rng', st)) : t'.s.claimed = t.s.claimed := by
  unfold nftSubstep at h
  simp only [bind_ok_iff, Prod.exists] at h
  obtain ⟨x, b, st0, hrun, hrest⟩ := h
  have hx : x.tx.s = t.s :=
    runWhile_keeps (fun y : NSt => y.tx.s = t.s) _
      (fun y y' c hb hy => g_nftBody_tx_s hash _ t.s y y' c hb hy) _ _ _ _ _ _ hrun rfl
  cases st0 with
  | outOfFuel => cases hrest
  | interrupted =>
    simp only [pure_ok_iff, Prod.mk.injEq] at hrest
    obtain ⟨rfl, _, _⟩ := hrest
    show x.tx.s.claimed = _
    rw [hx]
  | completed =>
    simp only [pure_ok_iff, Prod.mk.injEq] at hrest
    obtain ⟨rfl, _, _⟩ := hrest
    show x.tx.s.claimed = _
    rw [hx]

theorem selectNft_claimed {hash : List Nat → List Nat} {t t' : Tx} {e : Env}
    (h : selectNft hash t e = .ok t') : t'.s.claimed = t.s.claimed := by
  obtain ⟨_, _, _, t0, t1, rng, rng', st, h0, hsub, hfin⟩ := g_selectNft_inv h
  have h1 := nftSubstep_claimed hsub
  rw [h0] at h1
  rcases hfin with ⟨_, hs, _⟩ | ⟨_, hs, _⟩ <;> rw [hs] <;> exact h1

theorem guaranteedSubstep_claimed {hash : List Nat → List Nat} {t t' : Tx} {g g' : GuarOp}
    {st : LoopStatus} (h : guaranteedSubstep hash t g = .ok (t', g', st)) :
    t'.s.claimed = t.s.claimed := by
  unfold guaranteedSubstep at h
  simp only [bind_ok_iff, Prod.exists] at h
  obtain ⟨x, b, st0, _, hrest⟩ := h
  cases st0 with
  | outOfFuel => cases hrest
  | interrupted =>
    simp only [pure_ok_iff, Prod.mk.injEq] at hrest
    obtain ⟨rfl, _, _⟩ := hrest
    rfl
  | completed =>
    simp only [bind_ok_iff, Prod.exists] at hrest
    obtain ⟨y, b2, st1, hrun, hrest⟩ := hrest
    have hy := runWhile_keeps (fun z : LSt => z.tx.s.claimed = t.s.claimed) _
      (fun z z' c hb hz => by
        have := g_leftoverBody_tx_s hash _ _ _ z.tx.s z z' c hb rfl
        show z'.tx.s.claimed = _
        rw [this]; exact hz) _ _ _ _ _ _ hrun rfl
    cases st1 with
    | outOfFuel => cases hrest
    | interrupted =>
      simp only [pure_ok_iff, Prod.mk.injEq] at hrest
      obtain ⟨rfl, _, _⟩ := hrest
      exact hy
    | completed =>
      simp only [pure_ok_iff, Prod.mk.injEq] at hrest
      obtain ⟨rfl, _, _⟩ := hrest
      exact hy

/-- `r`, if it succeeds, yields a transaction whose `claimed` map is `c0` -/
def KeepsC (c0 : Nat → Bool) (r : Res Tx) : Prop := ∀ t', r = .ok t' → t'.s.claimed = c0

theorem KeepsC_error (c0 : Nat → Bool) (err : Err) : KeepsC c0 (.error err) := by
  intro t' h; cases h

theorem KeepsC_pure (c0 : Nat → Bool) (t : Tx) (h : t.s.claimed = c0) : KeepsC c0 (pure t) := by
  intro t' h'; cases h'; exact h

theorem KeepsC_ok (c0 : Nat → Bool) (t : Tx) (h : t.s.claimed = c0) : KeepsC c0 (.ok t) := by
  intro t' h'; cases h'; exact h

theorem KeepsC_bind {α : Type} (c0 : Nat → Bool) (x : Res α) (f : α → Res Tx)
    (h : ∀ a, x = .ok a → KeepsC c0 (f a)) : KeepsC c0 (x >>= f) := by
  intro t' h'
  rw [bind_ok_iff] at h'
  obtain ⟨a, ha, hf⟩ := h'
  exact h a ha t' hf

theorem KeepsC_pure_bind {α : Type} (c0 : Nat → Bool) (x : α) (f : α → Res Tx)
    (h : KeepsC c0 (f x)) : KeepsC c0 (pure x >>= f) := h

theorem KeepsC_error_bind {α : Type} (c0 : Nat → Bool) (err : Err) (f : α → Res Tx) :
    KeepsC c0 ((Except.error err : Res α) >>= f) := by
  intro t' h; cases h

theorem KeepsC_bind_guar (c0 : Nat → Bool) (hash : List Nat → List Nat) (t0 : Tx) (g : GuarOp)
    (f : Tx × GuarOp × LoopStatus → Res Tx)
    (h : ∀ a : Tx × GuarOp × LoopStatus, a.1.s.claimed = t0.s.claimed → KeepsC c0 (f a)) :
    KeepsC c0 (guaranteedSubstep hash t0 g >>= f) := by
  apply KeepsC_bind
  intro a ha
  exact h a (guaranteedSubstep_claimed (t' := a.1) (g' := a.2.1) (st := a.2.2) ha)

theorem KeepsC_bind_nft (c0 : Nat → Bool) (hash : List Nat → List Nat) (t0 : Tx) (r : Rng)
    (f : Tx × Rng × LoopStatus → Res Tx)
    (h : ∀ a : Tx × Rng × LoopStatus, a.1.s.claimed = t0.s.claimed → KeepsC c0 (f a)) :
    KeepsC c0 (nftSubstep hash t0 r >>= f) := by
  apply KeepsC_bind
  intro a ha
  exact h a (nftSubstep_claimed (t' := a.1) (rng' := a.2.1) (st := a.2.2) ha)

theorem freshRng_claimed (t : Tx) (r : Rng) (t' : Tx) (h : t.freshRng = (r, t')) :
    t'.s.claimed = t.s.claimed := by
  have := Tx.g_freshRng_s t
  rw [h] at this
  exact congrArg State.claimed this

theorem distribute_keeps (hash : List Nat → List Nat) (t : Tx) (e : Env) :
    KeepsC t.s.claimed (distribute hash t e) := by
  unfold distribute
  repeat' (first
    | with_reducible apply KeepsC_error
    | with_reducible apply KeepsC_pure_bind
    | with_reducible apply KeepsC_error_bind
    | (with_reducible apply KeepsC_bind_guar; intro a hg)
    | (with_reducible apply KeepsC_bind; intro a ha)
    | split
    | (simp only []))
  all_goals
    with_reducible apply KeepsC_pure
    first
      | exact hg
      | exact hg.trans (freshRng_claimed t _ _ (by assumption))

theorem distribute_claimed {hash : List Nat → List Nat} {t t' : Tx} {e : Env}
    (h : distribute hash t e = .ok t') : t'.s.claimed = t.s.claimed :=
  distribute_keeps hash t e t' h

theorem secondary_claimed {hash : List Nat → List Nat} {t t' : Tx} {e : Env}
    (h : secondary hash t e = .ok t') : t'.s.claimed = t.s.claimed := by
  unfold secondary at h
  simp only [bind_ok_iff, req_ok_iff, requireStage, exists_const] at h
  obtain ⟨_, _, _, h⟩ := h
  split at h
  case h_3 => simp [bind, Except.bind] at h
  all_goals
    simp only [bind_ok_iff, pure_ok_iff, Prod.exists, Prod.mk.injEq] at h
    obtain ⟨cur, t0, ⟨_, ht0⟩, hh⟩ := h
    have h0 : t0.s.claimed = t.s.claimed := by
      first
        | (rw [← ht0]; exact freshRng_claimed t _ _ rfl)
        | rw [← ht0]
    clear ht0
    cases cur with
    | nft r =>
      simp only [bind_ok_iff, pure_ok_iff] at hh
      obtain ⟨_, rfl, hh⟩ := hh
      simp only [bind_ok_iff, Prod.exists] at hh
      obtain ⟨t2, rng', st, hsub, hfin⟩ := hh
      have h2 := nftSubstep_claimed hsub
      cases st <;>
        (simp only [pure_ok_iff] at hfin; subst hfin; show t2.s.claimed = _; rw [h2]; exact h0)
    | guar g =>
      simp only [bind_ok_iff, Prod.exists] at hh
      obtain ⟨t1, g', st, hsub, hfin⟩ := hh
      have hg := guaranteedSubstep_claimed hsub
      cases st with
      | completed =>
        simp only [bind_ok_iff, pure_ok_iff] at hfin
        obtain ⟨_, rfl, hfin⟩ := hfin
        simp only [bind_ok_iff, Prod.exists] at hfin
        obtain ⟨t2, rng', st2, hsub2, hfin⟩ := hfin
        have h2 := nftSubstep_claimed hsub2
        have hfr : (t1.setS (creditAdditional t1.s g'.additional)).freshRng.2.s.claimed
            = t1.s.claimed :=
          freshRng_claimed (t1.setS (creditAdditional t1.s g'.additional)) _ _ rfl
        cases st2 <;>
          (simp only [pure_ok_iff] at hfin; subst hfin; show t2.s.claimed = _
           rw [h2, hfr, hg]; exact h0)
      | interrupted =>
        simp only [bind_ok_iff, pure_ok_iff] at hfin
        obtain ⟨_, rfl, hfin⟩ := hfin
        simp only [pure_ok_iff] at hfin
        subst hfin
        show t1.s.claimed = _
        rw [hg]; exact h0
      | outOfFuel =>
        simp only [bind_ok_iff, pure_ok_iff] at hfin
        obtain ⟨_, rfl, hfin⟩ := hfin
        simp only [pure_ok_iff] at hfin
        subst hfin
        show t1.s.claimed = _
        rw [hg]; exact h0

theorem confirmNft_claimed {s s' : State} {e : Env} (h : confirmNft s e = .ok s') :
    s'.claimed = s.claimed := by
  rw [confirmNft_ok_iff] at h
  rw [h.2.2.2.2.2]

theorem KeepsC_bind_tx (c0 c1 : Nat → Bool) (x : Res Tx) (f : Tx → Res Tx)
    (hx : ∀ a, x = .ok a → a.s.claimed = c1)
    (h : ∀ a : Tx, a.s.claimed = c1 → KeepsC c0 (f a)) : KeepsC c0 (x >>= f) := by
  apply KeepsC_bind
  intro a ha
  exact h a (hx a ha)

theorem KeepsC_bind_st (c0 c1 : Nat → Bool) (x : Res State) (f : State → Res Tx)
    (hx : ∀ a, x = .ok a → a.claimed = c1)
    (h : ∀ a : State, a.claimed = c1 → KeepsC c0 (f a)) : KeepsC c0 (x >>= f) := by
  apply KeepsC_bind
  intro a ha
  exact h a (hx a ha)

theorem exec_blacklist_keeps (hash : List Nat → List Nat) (t : Tx) (e : Env) (l : List Nat) :
    KeepsC t.s.claimed (exec hash t e (.blacklist l)) := by
  unfold exec
  repeat' (first
    | with_reducible apply KeepsC_pure_bind
    | (with_reducible refine KeepsC_bind_tx _ _ _ _ (fun _ h => addUsersToBlacklist_claimed h) ?_
       intro a1 h1)
    | (with_reducible refine KeepsC_bind_tx _ _ _ _ (fun _ h => refundNftMany_claimed _ h) ?_
       intro a3 h3)
    | (with_reducible refine KeepsC_bind_st _ _ _ _ (fun _ h => clearGuaranteedV2_claimed h) ?_
       intro a2 h2)
    | (with_reducible refine KeepsC_bind_st _ _ _ _ (fun _ h => clearGuaranteedV1_claimed h) ?_
       intro a2 h2)
    | split
    | (simp only []))
  all_goals
    with_reducible apply KeepsC_pure
    simp only [Tx.setS, Tx.emit, *]

/-! ### all endpoints -/

/-- every endpoint other than `claim` leaves `claimed` unchanged -/
theorem exec_claimed_eq {hash : List Nat → List Nat} {t t' : Tx} {e : Env} {c : Call}
    (hc : c ≠ .claim) (h : exec hash t e c = .ok t') : t'.s.claimed = t.s.claimed := by
  cases c with
  | claim => exact absurd rfl hc
  | addTickets l =>
    simp only [exec, bind_ok_iff, pure_ok_iff, req_ok_iff, requireStage, exists_const] at h
    obtain ⟨_, s1, h1, rfl⟩ := h
    exact createMany_claimed l h1
  | addTicketsV1 l =>
    simp only [exec, bind_ok_iff, pure_ok_iff] at h
    obtain ⟨s1, h1, rfl⟩ := h
    exact addTicketsV1_claimed h1
  | addTicketsV2 l => exact addTicketsV2_claimed h
  | deposit =>
    simp only [exec, bind_ok_iff, pure_ok_iff] at h
    obtain ⟨s1, h1, rfl⟩ := h
    exact depositLaunchpadTokens_claimed h1
  | setTicketPrice tok amount =>
    simp only [exec, bind_ok_iff, pure_ok_iff, req_ok_iff, requireStage, exists_const] at h
    obtain ⟨_, s1, h1, rfl⟩ := h
    exact trySetTicketPrice_claimed h1
  | setPerTicket amount =>
    simp only [exec, bind_ok_iff, pure_ok_iff, req_ok_iff, requireStage, exists_const] at h
    obtain ⟨_, _, _, rfl⟩ := h
    rfl
  | setConfStart r =>
    simp only [exec, bind_ok_iff, pure_ok_iff, req_ok_iff, exists_const] at h
    obtain ⟨_, _, _, rfl⟩ := h
    rfl
  | setSelStart r =>
    simp only [exec, bind_ok_iff, pure_ok_iff, req_ok_iff, exists_const] at h
    obtain ⟨_, _, _, rfl⟩ := h
    rfl
  | setClaimStart r =>
    simp only [exec, bind_ok_iff, pure_ok_iff, req_ok_iff, exists_const] at h
    obtain ⟨_, _, _, rfl⟩ := h
    rfl
  | setSupport a => simp only [exec, pure_ok_iff] at h; subst h; rfl
  | pause => simp only [exec, pure_ok_iff] at h; subst h; rfl
  | unpause => simp only [exec, pure_ok_iff] at h; subst h; rfl
  | confirm n => exact confirmTickets_claimed h
  | filter => exact filterTickets_claimed h
  | select => exact selectWinners_claimed h
  | claimPayment =>
    simp only [exec] at h
    split at h
    · exact claimPaymentOwn_claimed h
    · simp only [bind_ok_iff] at h
      obtain ⟨t1, h1, h2⟩ := h
      have e1 := claimPaymentCommon_claimed h1
      split at h2
      · rw [claimNftPayment_claimed h2, e1]
      · simp only [pure_ok_iff] at h2; subst h2; exact e1
  | blacklist l => exact exec_blacklist_keeps hash t e l t' h
  | refundUsers l =>
    simp only [exec, bind_ok_iff, pure_ok_iff] at h
    obtain ⟨t1, h1, s2, h2, rfl⟩ := h
    show s2.claimed = _
    rw [clearGuaranteedV2_claimed h2, addUsersToBlacklist_claimed h1]
  | unblacklist l =>
    simp only [exec, bind_ok_iff] at h
    obtain ⟨s1, h1, h2⟩ := h
    have e1 := removeUsersFromBlacklist_claimed h1
    split at h2
    · simp only [bind_ok_iff, pure_ok_iff] at h2
      obtain ⟨s2, hs2, rfl⟩ := h2
      show s2.claimed = _
      rw [restoreGuaranteedV2_claimed hs2, e1]
    · simp only [bind_ok_iff, pure_ok_iff] at h2
      obtain ⟨s2, hs2, rfl⟩ := h2
      show s2.claimed = _
      rw [restoreGuaranteedV1_claimed hs2, e1]
  | distribute => exact distribute_claimed h
  | setSchedule1 a b c d f =>
    simp only [exec, bind_ok_iff, pure_ok_iff] at h
    obtain ⟨s1, h1, rfl⟩ := h
    exact setSchedule1_claimed h1
  | setSchedule2 l => exact setSchedule2_claimed h
  | confirmNft =>
    simp only [exec, bind_ok_iff, pure_ok_iff] at h
    obtain ⟨s1, h1, rfl⟩ := h
    exact confirmNft_claimed h1
  | selectNft => exact selectNft_claimed h
  | secondary => exact secondary_claimed h
  | setNftCost c =>
    simp only [exec, bind_ok_iff, pure_ok_iff, req_ok_iff, requireStage, exists_const] at h
    obtain ⟨_, _, _, rfl⟩ := h
    rfl
  | issueSft =>
    simp only [exec, bind_ok_iff] at h
    obtain ⟨_, _, h⟩ := h
    cases h
  | createSfts =>
    simp only [exec, bind_ok_iff] at h
    obtain ⟨_, _, _, _, h⟩ := h
    cases h
  | setTransferRole o =>
    simp only [exec, bind_ok_iff] at h
    obtain ⟨_, _, h⟩ := h
    cases h
  | sftSetup => simp only [exec, pure_ok_iff] at h; subst h; rfl

/-- the `claim` endpoint sets exactly the caller's flag -/
theorem exec_claim_claimed {hash : List Nat → List Nat} {t t' : Tx} {e : Env}
    (h : exec hash t e .claim = .ok t') : t'.s.claimed = upd t.s.claimed e.caller true := by
  cases hv : t.s.variant.vested
  · rw [exec_claim_nonvested hash t e hv] at h
    exact claimBase_claimed h
  · rw [exec_claim_vested hash t e hv] at h
    exact claimVested_claimed h

end LP
