import LP.Proofs.ReachV1WF
/-
  LP.Proofs.ReachV1Easy — preservation of `v1_WF` by the endpoints without a loop and without a
  claim: setters, `setSupport`, `pause`, `unpause`, `deposit`, `setTicketPrice`, `confirm`.
  (`addTicketsV1`, `blacklist`, `unblacklist` are in `ReachV1Alloc.lean`.)
-/
namespace LP
open LP.FY LP.Events

theorem v1_WF_same_cfg {T0 : Nat} {s s' : State} {r r' : Nat} (h : v1_WF T0 s r)
    (hcore : s'.core = s.core) (hgv : v1_gv s' = v1_gv s) (hv : s'.variant = s.variant)
    (hlk : s'.lockPct = s.lockPct)
    (hp : s'.payTok = s.payTok) (hl : s'.lpTok = s.lpTok)
    (hb : ∀ t, t ≠ s.payTok → t ≠ .esdt s.lpTok → s'.bal t 0 = 0)
    (hcfg : s'.cfg = s.cfg) (hr : r ≤ r')
    (hlp : s'.deposited = true → s'.perTicket * v1_owed s ≤ s'.bal (.esdt s.lpTok) 0) :
    v1_WF T0 s' r' := by
  apply v1_WF_of_core h hcore hgv hv hlk hp hl hb
  · intro h1; rw [hcfg] at h1; exact h.tlConf (by omega)
  · intro h1; rw [hcfg]; have := h.tlStarted h1; omega
  · exact hlp

/-! ### trivial endpoints -/

theorem v1_setSupport {T0 : Nat} {hash : List Nat → List Nat} {s s' : State} {e : Env} {o : Out}
    {r a : Nat} (h : v1_WF T0 s r) (hr : r ≤ e.round)
    (hs : step hash s e (.setSupport a) = .ok (s', o)) : v1_WF T0 s' e.round := by
  obtain ⟨t, hx, rfl⟩ := rb_step_np (by intro m hm; simp [endpointMeta] at hm; rw [← hm]) hs
  simp only [exec, pure_ok_iff] at hx
  subst hx
  exact v1_WF_same_cfg h rfl rfl rfl rfl rfl rfl h.balOther rfl hr h.lp

theorem v1_pause {T0 : Nat} {hash : List Nat → List Nat} {s s' : State} {e : Env} {o : Out}
    {r : Nat} (h : v1_WF T0 s r) (hr : r ≤ e.round)
    (hs : step hash s e .pause = .ok (s', o)) : v1_WF T0 s' e.round := by
  obtain ⟨t, hx, rfl⟩ := rb_step_np (by intro m hm; simp [endpointMeta] at hm; rw [← hm]) hs
  simp only [exec, pure_ok_iff] at hx
  subst hx
  exact v1_WF_same_cfg h rfl rfl rfl rfl rfl rfl h.balOther rfl hr h.lp

theorem v1_unpause {T0 : Nat} {hash : List Nat → List Nat} {s s' : State} {e : Env} {o : Out}
    {r : Nat} (h : v1_WF T0 s r) (hr : r ≤ e.round)
    (hs : step hash s e .unpause = .ok (s', o)) : v1_WF T0 s' e.round := by
  obtain ⟨t, hx, rfl⟩ := rb_step_np (by intro m hm; simp [endpointMeta] at hm; rw [← hm]) hs
  simp only [exec, pure_ok_iff] at hx
  subst hx
  exact v1_WF_same_cfg h rfl rfl rfl rfl rfl rfl h.balOther rfl hr h.lp

theorem v1_setPerTicket {T0 : Nat} {hash : List Nat → List Nat} {s s' : State} {e : Env} {o : Out}
    {r a : Nat} (h : v1_WF T0 s r) (hr : r ≤ e.round)
    (hs : step hash s e (.setPerTicket a) = .ok (s', o)) : v1_WF T0 s' e.round := by
  obtain ⟨t, hx, rfl⟩ := rb_step_np (by intro m hm; simp [endpointMeta] at hm; rw [← hm]) hs
  obtain ⟨h1, _, h3, _⟩ := exec_setPerTicket_s hx
  rw [h1]
  refine v1_WF_same_cfg h rfl rfl rfl rfl rfl rfl h.balOther rfl hr ?_
  intro hd
  have h3' : s.deposited = false := h3
  have hd' : s.deposited = true := hd
  rw [h3'] at hd'; cases hd'

theorem v1_setConfStart {T0 : Nat} {hash : List Nat → List Nat} {s s' : State} {e : Env} {o : Out}
    {r x : Nat} (h : v1_WF T0 s r) (hr : r ≤ e.round)
    (hs : step hash s e (.setConfStart x) = .ok (s', o)) : v1_WF T0 s' e.round := by
  obtain ⟨t, hx, rfl⟩ := rb_step_np (by intro m hm; simp [endpointMeta] at hm; rw [← hm]) hs
  obtain ⟨h1, h2, h3⟩ := exec_setConfStart_s hx
  have h2' : e.round < s.cfg.conf := h2
  rw [h1]
  refine v1_WF_of_core h rfl rfl rfl rfl rfl rfl h.balOther ?_ ?_ h.lp
  · intro _; exact h.tlConf (by omega)
  · intro hst; have := h.tlStarted hst; omega

theorem v1_setSelStart {T0 : Nat} {hash : List Nat → List Nat} {s s' : State} {e : Env} {o : Out}
    {r x : Nat} (h : v1_WF T0 s r) (hr : r ≤ e.round)
    (hs : step hash s e (.setSelStart x) = .ok (s', o)) : v1_WF T0 s' e.round := by
  obtain ⟨t, hx, rfl⟩ := rb_step_np (by intro m hm; simp [endpointMeta] at hm; rw [← hm]) hs
  obtain ⟨h1, h2, h3⟩ := exec_setSelStart_s hx
  have h2' : e.round < s.cfg.sel := h2
  rw [h1]
  refine v1_WF_of_core h rfl rfl rfl rfl rfl rfl h.balOther ?_ ?_ h.lp
  · intro hlt; exact h.tlConf (by have : e.round < s.cfg.conf := hlt; omega)
  · intro hst; have := h.tlStarted hst; omega

theorem v1_setClaimStart {T0 : Nat} {hash : List Nat → List Nat} {s s' : State} {e : Env} {o : Out}
    {r x : Nat} (h : v1_WF T0 s r) (hr : r ≤ e.round)
    (hs : step hash s e (.setClaimStart x) = .ok (s', o)) : v1_WF T0 s' e.round := by
  obtain ⟨t, hx, rfl⟩ := rb_step_np (by intro m hm; simp [endpointMeta] at hm; rw [← hm]) hs
  rw [(exec_setClaimStart_s hx).1]
  refine v1_WF_of_core h rfl rfl rfl rfl rfl rfl h.balOther ?_ ?_ h.lp
  · intro hlt; exact h.tlConf (by have : e.round < s.cfg.conf := hlt; omega)
  · intro hst
    have := h.tlStarted hst
    show s.cfg.conf ≤ e.round ∧ s.cfg.sel ≤ e.round
    omega

/-! ### deposit -/

/-- the call value of an accepted deposit (EGLD or ESDT, not both): exactly one transfer of
    `perTicket × totalWinning` launchpad tokens -/
theorem v1_deposit_payment {s0 s1 : State} {e : Env} {tw : Nat}
    (h : depositLaunchpadTokens s0 e tw = .ok s1) (hok : EnvOK e) :
    e.egld = 0 ∧ e.esdts = [⟨.esdt s0.lpTok, 0, s0.perTicket * tw⟩] := by
  obtain ⟨amt, h1, h2⟩ := rb_deposit_payment h hok
  refine ⟨h1, ?_⟩
  unfold depositLaunchpadTokens at h
  simp only [bind_ok_iff, pure_ok_iff, req_ok_iff, exists_const, Prod.exists] at h
  obtain ⟨_, tok, amount, hsf, _, hamt, _⟩ := h
  unfold singleFungible at hsf
  rw [h2] at hsf
  simp only [if_true, Except.ok.injEq, Prod.mk.injEq] at hsf
  have : amount = s0.perTicket * tw := by simpa using hamt
  rw [h2, hsf.2, this]

theorem v1_deposit {T0 : Nat} {hash : List Nat → List Nat} {s s' : State} {e : Env} {o : Out}
    {r : Nat} (h : v1_WF T0 s r) (hr : r ≤ e.round) (hok : EnvOK e)
    (hs : step hash s e .deposit = .ok (s', o)) : v1_WF T0 s' e.round := by
  obtain ⟨m, t, _, _, _, hx, rfl, _⟩ := step_ok_inv hs
  have hx' := hx
  simp only [exec, bind_ok_iff, pure_ok_iff] at hx'
  obtain ⟨s1, hd, _⟩ := hx'
  obtain ⟨he1, he2⟩ := v1_deposit_payment hd hok
  have hlp : (tx0 s e).s.lpTok = s.lpTok := rfl
  have hpt : (tx0 s e).s.perTicket = s.perTicket := rfl
  have hnw : (tx0 s e).s.nrWinning = s.nrWinning := rfl
  have hres : reservedForDeposit (tx0 s e).s = s.totalGuaranteed := by
    unfold reservedForDeposit
    have : (tx0 s e).s.variant = s.variant := rfl
    rw [this, (v1_fam_flags h.var).2.2.2.2.1]; rfl
  rw [hlp, hpt, hnw, hres] at he2
  have hcp := rb_credit_single s e _ _ he1 he2
  obtain ⟨_, h1⟩ := exec_deposit_s hx
  rw [h1]
  have hts : (tx0 s e).s = creditPayments s e := rfl
  rw [hts, hcp]
  have hbal : ∀ t, t ≠ .esdt s.lpTok →
      (s.bal.add (.esdt s.lpTok) 0 (s.perTicket * (s.nrWinning + s.totalGuaranteed))) t 0 = s.bal t 0 := by
    intro t ht; simp [Bal.add, ht]
  refine v1_WF_same_cfg (s := s) h ?_ rfl rfl rfl rfl rfl ?_ rfl hr ?_
  · show ({ s.core with payBal :=
        (s.bal.add (.esdt s.lpTok) 0 (s.perTicket * (s.nrWinning + s.totalGuaranteed))) s.payTok 0 } : Core)
      = s.core
    rw [hbal _ h.tokNe]; rfl
  · intro t h1 h2
    show (s.bal.add (.esdt s.lpTok) 0 _) t 0 = 0
    rw [hbal t h2]; exact h.balOther t h1 h2
  · intro _
    show s.perTicket * v1_owed s ≤
      (s.bal.add (.esdt s.lpTok) 0 (s.perTicket * (s.nrWinning + s.totalGuaranteed))) (.esdt s.lpTok) 0
    have hle : v1_owed s ≤ s.nrWinning + s.totalGuaranteed := by
      unfold v1_owed; split <;> omega
    have := Nat.mul_le_mul_left s.perTicket hle
    simp only [Bal.add, and_self, if_true]
    omega

/-! ### rebuilding phase A -/

/-- phase A from its parts -/
theorem v1_mk_phaseA {T0 : Nat} {c : Core} {g : v1_G} (ha : c.flags.additional = false)
    (htg : g.tg ≤ T0) {L0 : List (Nat × Nat)} (hp : Pre (T0 - g.tg) c L0) (hA : PhA c L0)
    (hg : v1_GX c g) : v1_PhaseC T0 c g :=
  Or.inl ⟨ha, htg, Or.inl ⟨L0, hp, Or.inl ⟨hA, hg⟩⟩⟩

/-! ### setTicketPrice -/

theorem v1_setTicketPrice {T0 : Nat} {hash : List Nat → List Nat} {s s' : State} {e : Env} {o : Out}
    {r a : Nat} {tok : Token} (h : v1_WF T0 s r) (hr : r ≤ e.round)
    (hs : step hash s e (.setTicketPrice tok a) = .ok (s', o)) : v1_WF T0 s' e.round := by
  obtain ⟨t, hx, rfl⟩ := rb_step_np (by intro m hm; simp [endpointMeta] at hm; rw [← hm]) hs
  obtain ⟨h1, h2, h3, _, h5⟩ := exec_setTicketPrice_s hx
  have hlt : e.round < s.cfg.conf := rb_stage_addTickets h2
  have hz : ∀ a, s.confirmed a = 0 := h.tlConf (by omega)
  have hns : s.flags.started = false := v1_notStarted_of_lt h hr (Or.inl hlt)
  obtain ⟨hadd, htg, L0, hp, ha, hg⟩ := v1_phase_notStarted h.phase hns
  have hpay0 : s.bal s.payTok 0 = 0 := by
    have : s.bal s.payTok 0 = s.price * sumOver s.confirmed (L0.map Prod.fst) := hp.pay
    rw [sumOver_zero _ _ (fun a _ => hz a)] at this
    simpa using this
  have hb0 : ∀ t, t ≠ .esdt s.lpTok → s.bal t 0 = 0 := by
    intro t ht
    by_cases h1 : t = s.payTok
    · rw [h1]; exact hpay0
    · exact h.balOther t h1 ht
  rw [h1]
  refine ⟨h.var, h3, h5, h.static, fun t _ h2 => hb0 t h2, fun _ => hz, ?_, h.lp, ?_⟩
  · intro hst; have := h.tlStarted hst; exact ⟨by omega, by omega⟩
  · refine v1_mk_phaseA hadd htg (L0 := L0)
      ⟨hp.notFiltered, hp.notSelected, hp.nrw, hp.status0, hp.pos0, hp.ok, hp.outC, hp.outR, ?_⟩
      ⟨ha.notStarted, ha.op, ha.chain, ha.last⟩ ⟨hg.gi, hg.bl_range⟩
    show s.bal tok 0 = a * sumOver s.confirmed (L0.map Prod.fst)
    rw [sumOver_zero _ _ (fun a _ => hz a), hb0 tok h5]; simp

/-! ### confirm -/

theorem v1_confirm {T0 : Nat} {hash : List Nat → List Nat} {s s' : State} {e : Env} {o : Out}
    {r n : Nat} (h : v1_WF T0 s r) (hr : r ≤ e.round) (hok : EnvOK e)
    (hs : step hash s e (.confirm n) = .ok (s', o)) : v1_WF T0 s' e.round := by
  obtain ⟨total, hacc, rfl, _⟩ := LP.Props.C07.confirm_effect hash s e n s' o hs
  have hbal := LP.Props.C07.confirm_holdings s e n total hacc hok
  obtain ⟨_, _, hst, _, _, htix, hle⟩ := hacc
  obtain ⟨hc1, hc2⟩ := rb_stage_confirm hst
  have hns : s.flags.started = false := v1_notStarted_of_lt h hr (Or.inr hc2)
  obtain ⟨hadd, htg, L0, hp, ha, hg⟩ := v1_phase_notStarted h.phase hns
  have hcp : creditPayments s e = { s with bal := s.bal.add s.payTok 0 (s.price * n) } := by
    have : creditPayments s e = { s with bal := (creditPayments s e).bal } := rfl
    rw [this, hbal]
  rw [hcp]
  -- the caller's allocation bounds the new total
  have hin : e.caller ∈ L0.map Prod.fst → ∀ p ∈ L0, p.1 = e.caller → s.confirmed e.caller + n ≤ p.2 := by
    intro _ p hp1 hpe
    have : total = p.2 := rb_ticketsFor_chain ha.chain hp.ok.pos hp1 (by rw [hpe]; exact htix)
    omega
  have hout : e.caller ∉ L0.map Prod.fst → n = 0 ∧ s.confirmed e.caller = 0 := by
    intro hnin
    have hrn : s.range e.caller = none := hp.outR _ hnin
    have hc0 : s.confirmed e.caller = 0 := hp.outC _ hnin
    unfold ticketsFor at htix
    rw [hrn] at htix
    simp only [Except.ok.injEq] at htix
    omega
  refine ⟨h.var, h.pricePos, h.tokNe, h.static, ?_, ?_, ?_, ?_, ?_⟩
  · intro t h1 h2
    show (s.bal.add s.payTok 0 (s.price * n)) t 0 = 0
    simp only [Bal.add, h1, false_and, if_false]
    exact h.balOther t h1 h2
  · intro hlt; exfalso; have : e.round < s.cfg.conf := hlt; omega
  · intro hst2; have := h.tlStarted hst2; exact ⟨by omega, by omega⟩
  · intro hd
    show s.perTicket * v1_owed s ≤ (s.bal.add s.payTok 0 (s.price * n)) (.esdt s.lpTok) 0
    have hne : Token.esdt s.lpTok ≠ s.payTok := fun hh => h.tokNe hh.symm
    simp only [Bal.add, hne, false_and, if_false]
    exact h.lp hd
  · refine v1_mk_phaseA hadd htg (L0 := L0)
      ⟨hp.notFiltered, hp.notSelected, hp.nrw, hp.status0, hp.pos0,
        ⟨hp.ok.nodup, hp.ok.pos, ?_⟩, ?_, hp.outR, ?_⟩
      ⟨ha.notStarted, ha.op, ha.chain, ha.last⟩ ⟨hg.gi, hg.bl_range⟩
    · intro p hp1
      show upd s.confirmed e.caller (s.confirmed e.caller + n) p.1 ≤ p.2
      by_cases hpe : p.1 = e.caller
      · rw [hpe, upd_same]
        exact hin (by rw [← hpe]; exact List.mem_map_of_mem hp1) p hp1 hpe
      · rw [upd_other _ _ _ _ hpe]; exact hp.ok.le p hp1
    · intro a ha1
      show upd s.confirmed e.caller (s.confirmed e.caller + n) a = 0
      by_cases hae : a = e.caller
      · subst hae
        obtain ⟨hn0, hc0⟩ := hout ha1
        rw [upd_same, hn0, hc0]
      · rw [upd_other _ _ _ _ hae]; exact hp.outC a ha1
    · show (s.bal.add s.payTok 0 (s.price * n)) s.payTok 0
        = s.price * sumOver (upd s.confirmed e.caller (s.confirmed e.caller + n)) (L0.map Prod.fst)
      have hpay : s.bal s.payTok 0 = s.price * sumOver s.confirmed (L0.map Prod.fst) := hp.pay
      simp only [Bal.add, and_self, if_true, hpay]
      by_cases hmem : e.caller ∈ L0.map Prod.fst
      · have := sumOver_upd_mem s.confirmed (L0.map Prod.fst) e.caller (s.confirmed e.caller + n)
          hp.ok.nodup hmem
        have e1 : sumOver (upd s.confirmed e.caller (s.confirmed e.caller + n)) (L0.map Prod.fst)
            = sumOver s.confirmed (L0.map Prod.fst) + n := by omega
        rw [e1, Nat.mul_add]
      · obtain ⟨hn0, _⟩ := hout hmem
        rw [sumOver_upd_not_mem _ _ _ _ hmem, hn0]; simp

end LP
