import LP.Step
/-
  LP.Proofs.Vesting — helper definitions and lemmas about the unlock schedules of crates 4
  (v1: start/initial/times/pct/period) and 5 (v2: milestones), and the claimable computation.
-/
namespace LP

theorem MAX_PERCENTAGE_eq : MAX_PERCENTAGE = 10000 := rfl

/-! ### generic `Res` plumbing -/

theorem req_bind_ok {α : Type} {c : Bool} {msg : String} {f : Unit → Res α} {x : α} :
    (req c msg >>= f) = .ok x ↔ c = true ∧ f () = .ok x := by
  cases c <;> simp [req, bind, Except.bind]

theorem bsub_eq_ok {a b c : Nat} {site : String} :
    bsub a b site = .ok c ↔ b ≤ a ∧ c = a - b := by
  unfold bsub
  split
  · simp [*, eq_comm]
  · simp [*]

/-! ### v2 schedules: sums, order -/

/-- sum of the percentages of a milestone list -/
def sumPct (ms : List (Nat × Nat)) : Nat := (ms.map (·.2)).sum

/-- release rounds are non-decreasing -/
def roundsSorted (ms : List (Nat × Nat)) : Prop := ms.Pairwise (fun a b => a.1 ≤ b.1)

/-- sum of the percentages of ALL milestones whose release round has been reached -/
def reachedSum (now : Nat) (ms : List (Nat × Nat)) : Nat :=
  sumPct (ms.filter (fun m => decide (m.1 ≤ now)))

@[simp] theorem sumPct_nil : sumPct [] = 0 := rfl
@[simp] theorem sumPct_cons (m : Nat × Nat) (ms : List (Nat × Nat)) :
    sumPct (m :: ms) = m.2 + sumPct ms := by simp [sumPct]

/-- each milestone is individually admissible at time `now` -/
def milestoneOk (now : Nat) (m : Nat × Nat) : Prop :=
  m.2 ≤ 10000 ∧ now ≤ m.1 ∧ m.1 ≤ now + 26280000

/-- the validation loop, characterised -/
theorem validateMilestones_eq_some (now : Nat) (ms : List (Nat × Nat)) (last total T : Nat) :
    validateMilestones now ms last total = some T ↔
      (∀ m ∈ ms, milestoneOk now m) ∧ (∀ m ∈ ms, last ≤ m.1) ∧ roundsSorted ms ∧
      T = total + sumPct ms := by
  induction ms generalizing last total with
  | nil => simp [validateMilestones, roundsSorted, eq_comm]
  | cons m rest ih =>
    obtain ⟨r, p⟩ := m
    unfold validateMilestones
    by_cases hc : (p > MAX_PERCENTAGE || r < now || r < last || r > now + MAX_RELEASE_ROUND_DIFF) = true
    · rw [if_pos hc]
      simp [MAX_PERCENTAGE, MAX_RELEASE_ROUND_DIFF] at hc
      constructor
      · intro h; cases h
      · rintro ⟨h1, h2, _, _⟩
        have a := h1 (r, p) (List.mem_cons_self ..)
        have b := h2 (r, p) (List.mem_cons_self ..)
        simp only [milestoneOk] at a b
        exfalso
        omega
    · rw [if_neg hc, ih]
      simp [MAX_PERCENTAGE, MAX_RELEASE_ROUND_DIFF] at hc
      simp only [List.forall_mem_cons, roundsSorted, List.pairwise_cons, milestoneOk, sumPct_cons]
      constructor
      · rintro ⟨h1, h2, h3, h4⟩
        refine ⟨⟨⟨by omega, by omega, by omega⟩, h1⟩, ⟨by omega, fun m hm => ?_⟩, ⟨h2, h3⟩, by omega⟩
        have := h2 m hm
        omega
      · rintro ⟨⟨_, h1⟩, ⟨_, _⟩, ⟨h2, h3⟩, h4⟩
        exact ⟨h1, h2, h3, by omega⟩

theorem validSchedule2_iff' (now : Nat) (ms : List (Nat × Nat)) :
    validSchedule2 now ms = true ↔
      ms ≠ [] ∧ (∀ m ∈ ms, milestoneOk now m) ∧ roundsSorted ms ∧ sumPct ms = 10000 := by
  unfold validSchedule2
  simp only [Bool.and_eq_true, Bool.not_eq_true', beq_iff_eq, validateMilestones_eq_some,
    MAX_PERCENTAGE, Nat.zero_le, implies_true, true_and, Nat.zero_add]
  constructor
  · rintro ⟨h0, h1, h2, h3⟩
    exact ⟨by intro h; subst h; simp at h0, h1, h2, h3.symm⟩
  · rintro ⟨h0, h1, h2, h3⟩
    exact ⟨by cases ms <;> simp_all, h1, h2, h3.symm⟩

/-! ### v2: the unlocked percentage -/

theorem unlockedPct2_mono {now now' : Nat} (h : now ≤ now') (ms : List (Nat × Nat)) :
    unlockedPct2 now ms ≤ unlockedPct2 now' ms := by
  induction ms with
  | nil => simp [unlockedPct2]
  | cons m rest ih =>
    obtain ⟨r, p⟩ := m
    unfold unlockedPct2
    by_cases h1 : r ≤ now
    · have h2 : r ≤ now' := by omega
      simp only [h1, h2, if_true]
      omega
    · simp [h1]

theorem unlockedPct2_le_sum (now : Nat) (ms : List (Nat × Nat)) :
    unlockedPct2 now ms ≤ sumPct ms := by
  induction ms with
  | nil => simp [unlockedPct2]
  | cons m rest ih =>
    obtain ⟨r, p⟩ := m
    unfold unlockedPct2
    split <;> simp <;> omega

/-- with non-decreasing rounds the early `break` loses nothing -/
theorem unlockedPct2_eq_reachedSum (now : Nat) (ms : List (Nat × Nat)) (hs : roundsSorted ms) :
    unlockedPct2 now ms = reachedSum now ms := by
  induction ms with
  | nil => simp [unlockedPct2, reachedSum]
  | cons m rest ih =>
    obtain ⟨r, p⟩ := m
    simp only [roundsSorted, List.pairwise_cons] at hs
    unfold unlockedPct2
    by_cases h1 : r ≤ now
    · simp only [h1, if_true, reachedSum, List.filter_cons, decide_true, sumPct_cons]
      have := ih hs.2
      simp only [reachedSum] at this
      omega
    · have hnone : rest.filter (fun m => decide (m.1 ≤ now)) = [] := by
        rw [List.filter_eq_nil_iff]
        intro m hm
        have := hs.1 m hm
        simp only [decide_eq_true_eq]
        omega
      simp [h1, reachedSum, hnone]

theorem unlockedPct2_all (now : Nat) (ms : List (Nat × Nat)) (h : ∀ m ∈ ms, m.1 ≤ now) :
    unlockedPct2 now ms = sumPct ms := by
  induction ms with
  | nil => simp [unlockedPct2]
  | cons m rest ih =>
    obtain ⟨r, p⟩ := m
    simp only [List.forall_mem_cons] at h
    unfold unlockedPct2
    simp [h.1, ih h.2]

theorem unlockedPct2_before_first (now : Nat) (m : Nat × Nat) (rest : List (Nat × Nat))
    (h : now < m.1) : unlockedPct2 now (m :: rest) = 0 := by
  obtain ⟨r, p⟩ := m
  unfold unlockedPct2
  have : ¬ r ≤ now := by simp at h; omega
  simp [this]

theorem roundsSorted_le_last (ms : List (Nat × Nat)) (hs : roundsSorted ms) (hne : ms ≠ []) :
    ∀ m ∈ ms, m.1 ≤ (ms.getLast hne).1 := by
  induction ms with
  | nil => exact absurd rfl hne
  | cons a rest ih =>
    simp only [roundsSorted, List.pairwise_cons] at hs
    by_cases hr : rest = []
    · subst hr
      simp
    · intro m hm
      rw [List.getLast_cons hr]
      rcases List.mem_cons.1 hm with rfl | hm
      · exact hs.1 _ (List.getLast_mem hr)
      · exact ih hs.2 hr m hm

theorem unlockedPct2_after_last (now : Nat) (ms : List (Nat × Nat)) (hs : roundsSorted ms)
    (hne : ms ≠ []) (h : (ms.getLast hne).1 ≤ now) : unlockedPct2 now ms = sumPct ms :=
  unlockedPct2_all now ms (fun m hm => Nat.le_trans (roundsSorted_le_last ms hs hne m hm) h)

theorem unlockedPct2_default (now : Nat) : unlockedPct2 now defaultSchedule2 = 10000 := by
  simp [defaultSchedule2, unlockedPct2, MAX_PERCENTAGE]

theorem defaultSchedule2_sorted : roundsSorted defaultSchedule2 := by
  simp [defaultSchedule2, roundsSorted]

theorem defaultSchedule2_sum : sumPct defaultSchedule2 = 10000 := by
  simp [defaultSchedule2, MAX_PERCENTAGE]

/-! ### the abstract claim process -/

/-- amount (cumulative) a winner with entitlement `E` may have received when `pct` basis
    points are unlocked -/
def entitled (E pct : Nat) : Nat := E * pct / 10000

/-- one claim: the user receives `entitled E pct - claimed` (truncated at 0) and `claimed`
    grows by that amount; the function returns the new cumulative amount -/
def claimStep (E pct claimed : Nat) : Nat := claimed + (entitled E pct - claimed)

/-- claims at the rounds `rs` (in this order), starting from cumulative `c0` -/
def claimFold (E : Nat) (pct : Nat → Nat) (rs : List Nat) (c0 : Nat) : Nat :=
  rs.foldl (fun c r => claimStep E (pct r) c) c0

/-- the individual pay-outs of the claims at rounds `rs` -/
def claimPayouts (E : Nat) (pct : Nat → Nat) : List Nat → Nat → List Nat
  | [], _ => []
  | r :: rs, c => (entitled E (pct r) - c) :: claimPayouts E pct rs (claimStep E (pct r) c)

theorem entitled_mono (E : Nat) {p q : Nat} (h : p ≤ q) : entitled E p ≤ entitled E q :=
  Nat.div_le_div_right (Nat.mul_le_mul_left E h)

theorem entitled_le (E : Nat) {p : Nat} (h : p ≤ 10000) : entitled E p ≤ E := by
  unfold entitled
  apply Nat.div_le_of_le_mul
  rw [Nat.mul_comm 10000 E]
  exact Nat.mul_le_mul_left E h

theorem entitled_full (E : Nat) : entitled E 10000 = E := Nat.mul_div_cancel E (by decide)

theorem entitled_zero (E : Nat) : entitled E 0 = 0 := by simp [entitled]

theorem claimStep_eq {E pct claimed : Nat} (h : claimed ≤ entitled E pct) :
    claimStep E pct claimed = entitled E pct := by
  unfold claimStep; omega

theorem claimStep_ge (E pct claimed : Nat) : claimed ≤ claimStep E pct claimed := by
  unfold claimStep; omega

theorem claimStep_le {E pct claimed : Nat} (hp : pct ≤ 10000) (hc : claimed ≤ E) :
    claimStep E pct claimed ≤ E := by
  have := entitled_le E hp
  unfold claimStep; omega

theorem claimFold_nil (E : Nat) (pct : Nat → Nat) (c0 : Nat) : claimFold E pct [] c0 = c0 := rfl

theorem claimFold_cons (E : Nat) (pct : Nat → Nat) (r : Nat) (rs : List Nat) (c0 : Nat) :
    claimFold E pct (r :: rs) c0 = claimFold E pct rs (claimStep E (pct r) c0) := rfl

theorem claimFold_append (E : Nat) (pct : Nat → Nat) (rs rs' : List Nat) (c0 : Nat) :
    claimFold E pct (rs ++ rs') c0 = claimFold E pct rs' (claimFold E pct rs c0) := by
  simp [claimFold, List.foldl_append]

theorem claimFold_ge (E : Nat) (pct : Nat → Nat) (rs : List Nat) (c0 : Nat) :
    c0 ≤ claimFold E pct rs c0 := by
  induction rs generalizing c0 with
  | nil => exact Nat.le_refl _
  | cons r rs ih =>
    rw [claimFold_cons]
    exact Nat.le_trans (claimStep_ge E (pct r) c0) (ih _)

theorem claimFold_le (E : Nat) (pct : Nat → Nat) (hp : ∀ r, pct r ≤ 10000) (rs : List Nat)
    (c0 : Nat) (h0 : c0 ≤ E) : claimFold E pct rs c0 ≤ E := by
  induction rs generalizing c0 with
  | nil => exact h0
  | cons r rs ih =>
    rw [claimFold_cons]
    exact ih _ (claimStep_le (hp r) h0)

/-- path independence: with a monotone percentage function and claim rounds in
    non-decreasing order the cumulative amount after the last claim depends only on the
    last claim round -/
theorem claimFold_last (E : Nat) (pct : Nat → Nat) (hmono : ∀ a b, a ≤ b → pct a ≤ pct b)
    (rs : List Nat) (hs : rs.Pairwise (· ≤ ·)) (hne : rs ≠ []) (c0 : Nat)
    (h0 : c0 ≤ entitled E (pct (rs.head hne))) :
    claimFold E pct rs c0 = entitled E (pct (rs.getLast hne)) := by
  induction rs generalizing c0 with
  | nil => exact absurd rfl hne
  | cons r rest ih =>
    rw [claimFold_cons]
    simp only [List.head_cons] at h0
    rw [claimStep_eq h0]
    simp only [List.pairwise_cons] at hs
    by_cases hr : rest = []
    · subst hr
      simp [claimFold]
    · rw [List.getLast_cons hr]
      apply ih hs.2 hr
      exact entitled_mono E (hmono _ _ (hs.1 _ (List.head_mem hr)))

/-- the pay-outs add up to the growth of the cumulative amount -/
theorem claimPayouts_sum (E : Nat) (pct : Nat → Nat) (rs : List Nat) (c0 : Nat) :
    c0 + (claimPayouts E pct rs c0).sum = claimFold E pct rs c0 := by
  induction rs generalizing c0 with
  | nil => simp [claimPayouts, claimFold]
  | cons r rs ih =>
    rw [claimFold_cons, ← ih]
    simp only [claimPayouts, List.sum_cons, claimStep]
    omega

/-! ### v2: `claimable2` -/

/-- the schedule in force (v2) -/
def sched2Of (s : State) : List (Nat × Nat) := s.sched2.getD defaultSchedule2

/-- cumulative amount user `a` is entitled to at round `now` (v2) -/
def entitled2 (s : State) (a now : Nat) : Nat :=
  entitled (s.userTotal a) (unlockedPct2 now (sched2Of s))

theorem entitled2_mono (s : State) (a : Nat) {r r' : Nat} (h : r ≤ r') :
    entitled2 s a r ≤ entitled2 s a r' :=
  entitled_mono _ (unlockedPct2_mono h _)

/-- `claimable2`, normal form -/
theorem claimable2_eq (s : State) (e : Env) (a : Nat) :
    claimable2 s e a =
      if s.userTotal a = 0 then .ok 0
      else if s.userClaimed a < s.userTotal a then
        bsub (entitled2 s a e.round) (s.userClaimed a) "claimable - claimed"
      else .error (.user "Already claimed all tokens") := by
  unfold claimable2
  by_cases h0 : s.userTotal a = 0
  · simp [h0]
  · by_cases h1 : s.userClaimed a < s.userTotal a
    · simp [h0, h1, req, bind, Except.bind, entitled2, entitled, sched2Of, MAX_PERCENTAGE]
    · simp [h0, h1, req, bind, Except.bind]

/-! ### v1: the unlocked percentage -/

/-- what `setSchedule1` demands of the numbers of a v1 schedule -/
def validSched1 (sc : Sched1) : Prop :=
  (sc.period > 0 ∨ sc.initial = 10000) ∧ sc.initial + sc.times * sc.pct = 10000

/-- number of elapsed release periods, capped -/
def periodsAt (now : Nat) (sc : Sched1) : Nat :=
  if (now - sc.start) / sc.period > sc.times then sc.times else (now - sc.start) / sc.period

theorem unlockedPct1_eq (now : Nat) (sc : Sched1) :
    unlockedPct1 now sc =
      if sc.start > now then 0
      else if sc.initial = 10000 then 10000
      else sc.initial + sc.pct * periodsAt now sc := rfl

theorem periodsAt_le_times (now : Nat) (sc : Sched1) : periodsAt now sc ≤ sc.times := by
  unfold periodsAt; split <;> omega

theorem periodsAt_mono (sc : Sched1) {now now' : Nat} (h : now ≤ now') :
    periodsAt now sc ≤ periodsAt now' sc := by
  have hd : (now - sc.start) / sc.period ≤ (now' - sc.start) / sc.period :=
    Nat.div_le_div_right (by omega)
  unfold periodsAt
  split <;> split <;> omega

theorem periodsAt_full (sc : Sched1) {now : Nat} (hp : sc.period > 0)
    (h : sc.start + sc.times * sc.period ≤ now) : periodsAt now sc = sc.times := by
  have : sc.times ≤ (now - sc.start) / sc.period := by
    rw [Nat.le_div_iff_mul_le hp]; omega
  unfold periodsAt
  split <;> omega

theorem unlockedPct1_mono (sc : Sched1) {now now' : Nat} (h : now ≤ now') :
    unlockedPct1 now sc ≤ unlockedPct1 now' sc := by
  rw [unlockedPct1_eq, unlockedPct1_eq]
  by_cases h1 : sc.start > now
  · simp [h1]
  · have h1' : ¬ sc.start > now' := by omega
    rw [if_neg h1, if_neg h1']
    by_cases h2 : sc.initial = 10000
    · simp [h2]
    · rw [if_neg h2, if_neg h2]
      exact Nat.add_le_add_left (Nat.mul_le_mul_left _ (periodsAt_mono sc h)) _

theorem unlockedPct1_le (sc : Sched1) (hv : validSched1 sc) (now : Nat) :
    unlockedPct1 now sc ≤ 10000 := by
  rw [unlockedPct1_eq]
  split
  · omega
  · split
    · omega
    · have h1 : sc.pct * periodsAt now sc ≤ sc.pct * sc.times :=
        Nat.mul_le_mul_left _ (periodsAt_le_times now sc)
      have h2 : sc.pct * sc.times = sc.times * sc.pct := Nat.mul_comm _ _
      have := hv.2
      omega

theorem unlockedPct1_before (sc : Sched1) {now : Nat} (h : now < sc.start) :
    unlockedPct1 now sc = 0 := by
  rw [unlockedPct1_eq, if_pos h]

theorem unlockedPct1_full (sc : Sched1) (hv : validSched1 sc) {now : Nat}
    (h : sc.start + sc.times * sc.period ≤ now ∨ (sc.initial = 10000 ∧ sc.start ≤ now)) :
    unlockedPct1 now sc = 10000 := by
  rw [unlockedPct1_eq]
  have h1 : ¬ sc.start > now := by
    rcases h with h | h
    · have : 0 ≤ sc.times * sc.period := Nat.zero_le _
      omega
    · omega
  rw [if_neg h1]
  by_cases h2 : sc.initial = 10000
  · rw [if_pos h2]
  · rw [if_neg h2]
    rcases h with h | h
    · have hp : sc.period > 0 := by
        rcases hv.1 with hp | hp
        · exact hp
        · exact absurd hp h2
      rw [periodsAt_full sc hp h, Nat.mul_comm]
      exact hv.2
    · exact absurd h.1 h2

/-- with `initial = 100 %` the v1 percentage is a step function -/
theorem unlockedPct1_step (sc : Sched1) (hi : sc.initial = 10000) (now : Nat) :
    unlockedPct1 now sc = if sc.start > now then 0 else 10000 := by
  rw [unlockedPct1_eq]
  split
  · rfl
  · simp

/-! ### v1: `claimable1` -/

/-- unlocked percentage of the stored v1 schedule (nothing while no schedule is stored) -/
def pct1 (now : Nat) : Option Sched1 → Nat
  | none => 0
  | some sc => unlockedPct1 now sc

theorem pct1_mono (o : Option Sched1) {now now' : Nat} (h : now ≤ now') :
    pct1 now o ≤ pct1 now' o := by
  cases o with
  | none => exact Nat.le_refl _
  | some sc => exact unlockedPct1_mono sc h

/-- cumulative amount user `a` is entitled to at round `now` (v1) -/
def entitled1 (s : State) (a now : Nat) : Nat :=
  entitled (s.userTotal a) (pct1 now s.sched1)

theorem entitled1_mono (s : State) (a : Nat) {r r' : Nat} (h : r ≤ r') :
    entitled1 s a r ≤ entitled1 s a r' :=
  entitled_mono _ (pct1_mono _ h)

/-- `claimable1`, normal form -/
theorem claimable1_eq (s : State) (e : Env) (a : Nat) :
    claimable1 s e a =
      if s.userTotal a = 0 then .ok 0
      else if s.userClaimed a < s.userTotal a then
        match s.sched1 with
        | none => .ok 0
        | some sc =>
          if sc.start > e.round then .ok 0
          else if sc.initial = 10000 then .ok (s.userTotal a)
          else bsub (entitled1 s a e.round) (s.userClaimed a) "claimable - claimed"
      else .error (.user "Already claimed all tokens") := by
  unfold claimable1
  by_cases h0 : s.userTotal a = 0
  · simp [h0]
  · by_cases h1 : s.userClaimed a < s.userTotal a
    · simp only [h0, h1, if_false, if_true, req, bind, Except.bind, decide_true, pure, Except.pure,
        entitled1, entitled, MAX_PERCENTAGE]
      cases hs : s.sched1 with
      | none => rfl
      | some sc => simp only [pct1]; rfl
    · simp [h0, h1, req, bind, Except.bind]

/-! ### the endpoints that store a schedule -/

theorem setSchedule1_eq_ok (s s' : State) (e : Env) (start initial times pct period : Nat) :
    setSchedule1 s e start initial times pct period = .ok s' ↔
      (e.round < s.cfg.conf ∨ s.sched1 = none) ∧ start ≥ e.round ∧
      (period > 0 ∨ initial = 10000) ∧ initial + times * pct = 10000 ∧
      s' = { s with sched1 := some ⟨start, initial, times, pct, period⟩ } := by
  unfold setSchedule1
  simp only [req_bind_ok, pure, Except.pure, Except.ok.injEq, MAX_PERCENTAGE, Bool.or_eq_true,
    decide_eq_true_eq, beq_iff_eq, Option.isNone_iff_eq_none, eq_comm (a := s')]

theorem requireStage_bind_ok {α : Type} {s : State} {e : Env} {st : Stage} {msg : String}
    {f : Unit → Res α} {x : α} :
    (requireStage s e st msg >>= f) = .ok x ↔ s.stage e = st ∧ f () = .ok x := by
  unfold requireStage
  rw [req_bind_ok, beq_iff_eq]

theorem setSchedule2_eq_ok (t t' : Tx) (e : Env) (ms : List (Nat × Nat)) :
    setSchedule2 t e ms = .ok t' ↔
      t.s.stage e = .addTickets ∧ ms.length ≤ 60 ∧ validSchedule2 e.round ms = true ∧
      t' = (t.setS { t.s with sched2 := some ms }).emit ⟨"setUnlockSchedule", topics e,
        [e.caller, e.round, e.epoch, ms.length] ++ flattenPairs ms⟩ := by
  unfold setSchedule2
  simp only [requireStage_bind_ok, req_bind_ok, pure, Except.pure, Except.ok.injEq,
    MAX_UNLOCK_MILESTONES_ENTRIES, eq_comm (a := t')]
  constructor
  · rintro ⟨a, b, c, d⟩
    exact ⟨a, of_decide_eq_true b, c, d⟩
  · rintro ⟨a, b, c, d⟩
    exact ⟨a, decide_eq_true b, c, d⟩

/-! ### `claimVested` for a user who has already settled (every claim after the first) -/

/-- the claimable computation selected by the variant -/
def claimableV (s : State) (e : Env) (a : Nat) : Res Nat :=
  if s.variant.isV2 then claimable2 s e a else claimable1 s e a

theorem send_ok_inv {t t' : Tx} {to : Nat} {p : Pay} (h : t.send to p = .ok t') :
    t' = { t with s := { t.s with bal := t.s.bal.sub p.tok p.nonce p.amount },
                  o := { t.o with xfers := t.o.xfers ++ [(to, p)] } } := by
  unfold Tx.send at h
  split at h
  · cases h
  · cases h; rfl

/-- a repeat claim pays exactly the claimable amount, adds it to `userClaimed` of the caller
    and touches neither the entitlements nor the schedules -/
theorem claimVested_repeat {t t' : Tx} {e : Env} (hcl : t.s.claimed e.caller = true)
    (h : claimVested t e = .ok t') :
    ∃ c, claimableV t.s e e.caller = .ok c ∧
      t'.s.userClaimed e.caller = t.s.userClaimed e.caller + c ∧
      (∀ a, a ≠ e.caller → t'.s.userClaimed a = t.s.userClaimed a) ∧
      t'.s.userTotal = t.s.userTotal ∧ t'.s.sched1 = t.s.sched1 ∧ t'.s.sched2 = t.s.sched2 ∧
      t'.o.xfers = t.o.xfers ++ (if c > 0 then [(e.caller, ⟨.esdt t.s.lpTok, 0, c⟩)] else []) := by
  unfold claimVested at h
  unfold claimableV
  cases hv : t.s.variant.isV2
  · simp only [hv, hcl, if_true, pure, Except.pure, bind, Except.bind, Bool.false_eq_true,
      if_false] at h ⊢
    split at h
    · cases h
    · rename_i c hc
      refine ⟨c, hc, ?_⟩
      by_cases hpos : c > 0
      · simp only [hpos, if_true] at h ⊢
        split at h
        · cases h
        · rename_i t1 hs
          have := send_ok_inv hs
          subst this
          cases h
          refine ⟨?_, ?_, rfl, rfl, rfl, rfl⟩
          · simp [Tx.setS]
          · intro a ha
            simp [Tx.setS, upd, ha]
      · simp only [hpos, if_false] at h ⊢
        cases h
        have : c = 0 := by omega
        simp [this]
  · simp only [hv, hcl, if_true, pure, Except.pure, bind, Except.bind] at h ⊢
    split at h
    · cases h
    · clear ‹req _ _ = _›
      split at h
      · cases h
      · rename_i c hc
        refine ⟨c, hc, ?_⟩
        by_cases hpos : c > 0
        · simp only [hpos, if_true] at h ⊢
          split at h
          · cases h
          · rename_i t1 hs
            have := send_ok_inv hs
            subst this
            cases h
            refine ⟨?_, ?_, rfl, rfl, rfl, rfl⟩
            · simp [Tx.setS, Tx.emit]
            · intro a ha
              simp [Tx.setS, Tx.emit, upd, ha]
        · simp only [hpos, if_false] at h ⊢
          cases h
          have : c = 0 := by omega
          simp [this]

/-! ### `claimVested`, any claim (first or repeat) -/

/-- first part of `claimVested`: settle the tickets on the first claim -/
def claimSettle (t : Tx) (e : Env) : Res Tx :=
  if t.s.claimed e.caller then pure t else do
    let (s, redeem, refund) ← settle t.s e
    let t ← (t.setS s).refund e e.caller refund
    pure (if redeem > 0 then
      t.setS { t.s with userTotal := upd t.s.userTotal e.caller (redeem * t.s.perTicket) } else t)

/-- last part of `claimVested`: pay `c` and book it -/
def claimPay (v2 : Bool) (t : Tx) (e : Env) (c : Nat) : Res Tx :=
  if c > 0 then do
    let t ← t.send e.caller ⟨.esdt t.s.lpTok, 0, c⟩
    let t := t.setS { t.s with userClaimed := upd t.s.userClaimed e.caller (t.s.userClaimed e.caller + c) }
    pure (if v2 then t.emit ⟨"claimLaunchpadTokens", topics e,
      [e.caller, e.round, e.epoch, t.s.lpTok + 1, 0, c]⟩ else t)
  else pure t

/-- `claimVested` after the pause check -/
def claimBody (v2 : Bool) (t : Tx) (e : Env) : Res Tx :=
  claimSettle t e >>= fun t1 =>
    (if v2 then claimable2 t1.s e e.caller else claimable1 t1.s e e.caller) >>= fun c =>
      claimPay v2 t1 e c

theorem claimVested_eq (t : Tx) (e : Env) :
    claimVested t e =
      if t.s.variant.isV2 then
        req (!t.s.paused) "Contract is paused" >>= fun _ => claimBody true t e
      else claimBody false t e := by
  unfold claimVested claimBody claimSettle claimPay
  generalize t.s.variant.isV2 = b
  cases b <;> cases hc : t.s.claimed e.caller <;> simp [bind_assoc]

theorem settle_frame {s s' : State} {e : Env} {rd rf : Nat} (h : settle s e = .ok (s', rd, rf)) :
    s'.userClaimed = s.userClaimed ∧ s'.userTotal = s.userTotal ∧ s'.sched1 = s.sched1 ∧
    s'.sched2 = s.sched2 ∧ s'.variant = s.variant ∧ s.stage e = .claim := by
  unfold settle at h
  simp only [requireStage_bind_ok, req_bind_ok] at h
  obtain ⟨hst, _, h⟩ := h
  split at h
  · cases h
  · simp only [bind, Except.bind, pure, Except.pure] at h
    repeat' (first | (cases h; done) | split at h)
    all_goals (cases h; exact ⟨rfl, rfl, rfl, rfl, rfl, hst⟩)

theorem refund_frame {t t' : Tx} {e : Env} {a n : Nat} (h : t.refund e a n = .ok t') :
    t'.s.userClaimed = t.s.userClaimed ∧ t'.s.userTotal = t.s.userTotal ∧
    t'.s.sched1 = t.s.sched1 ∧ t'.s.sched2 = t.s.sched2 ∧ t'.s.variant = t.s.variant := by
  unfold Tx.refund at h
  split at h
  · cases h; exact ⟨rfl, rfl, rfl, rfl, rfl⟩
  · simp only [bind, Except.bind, pure, Except.pure] at h
    split at h
    · cases h
    · rename_i t1 hs
      have := send_ok_inv hs
      subst this
      cases h
      exact ⟨rfl, rfl, rfl, rfl, rfl⟩

/-- the settle part never touches `userClaimed` or the schedules, and changes `userTotal`
    at most for the caller; it is the identity for a caller who has settled before -/
theorem claimSettle_frame {t t1 : Tx} {e : Env} (h : claimSettle t e = .ok t1) :
    t1.s.userClaimed = t.s.userClaimed ∧ t1.s.sched1 = t.s.sched1 ∧ t1.s.sched2 = t.s.sched2 ∧
    (∀ a, a ≠ e.caller → t1.s.userTotal a = t.s.userTotal a) ∧
    (t.s.claimed e.caller = true → t1 = t) ∧
    (t.s.claimed e.caller = false → t.s.stage e = .claim) := by
  unfold claimSettle at h
  cases hcl : t.s.claimed e.caller
  · simp only [hcl, Bool.false_eq_true, if_false, bind, Except.bind, pure, Except.pure] at h
    split at h
    · cases h
    · rename_i v hset
      obtain ⟨s', rd, rf⟩ := v
      have hf := settle_frame hset
      simp only at h
      split at h
      · cases h
      · rename_i t2 href
        have hr := refund_frame href
        simp only [Tx.setS] at hr
        cases h
        refine ⟨?_, ?_, ?_, ?_, (fun h => by cases h), fun _ => hf.2.2.2.2.2⟩
        · split
          · simp only [Tx.setS]; rw [hr.1, hf.1]
          · rw [hr.1, hf.1]
        · split
          · simp only [Tx.setS]; rw [hr.2.2.1, hf.2.2.1]
          · rw [hr.2.2.1, hf.2.2.1]
        · split
          · simp only [Tx.setS]; rw [hr.2.2.2.1, hf.2.2.2.1]
          · rw [hr.2.2.2.1, hf.2.2.2.1]
        · intro a ha
          split
          · simp only [Tx.setS, upd, ha, if_false]; rw [hr.2.1, hf.2.1]
          · rw [hr.2.1, hf.2.1]
  · simp only [hcl, if_true, pure, Except.pure] at h
    cases h
    exact ⟨rfl, rfl, rfl, fun _ _ => rfl, fun _ => rfl, (fun h => by cases h)⟩

theorem claimPay_inv {v2 : Bool} {t t' : Tx} {e : Env} {c : Nat} (h : claimPay v2 t e c = .ok t') :
    t'.s.userClaimed e.caller = t.s.userClaimed e.caller + c ∧
    (∀ a, a ≠ e.caller → t'.s.userClaimed a = t.s.userClaimed a) ∧
    t'.s.userTotal = t.s.userTotal ∧ t'.s.sched1 = t.s.sched1 ∧ t'.s.sched2 = t.s.sched2 ∧
    t'.o.xfers = t.o.xfers ++ (if c > 0 then [(e.caller, ⟨.esdt t.s.lpTok, 0, c⟩)] else []) := by
  unfold claimPay at h
  by_cases hpos : c > 0
  · simp only [hpos, if_true, bind, Except.bind, pure, Except.pure] at h ⊢
    split at h
    · cases h
    · rename_i t1 hs
      have := send_ok_inv hs
      subst this
      cases h
      cases v2
      · refine ⟨?_, ?_, rfl, rfl, rfl, rfl⟩
        · simp [Tx.setS]
        · intro a ha
          simp [Tx.setS, upd, ha]
      · refine ⟨?_, ?_, rfl, rfl, rfl, rfl⟩
        · simp [Tx.setS, Tx.emit]
        · intro a ha
          simp [Tx.setS, Tx.emit, upd, ha]
  · simp only [hpos, if_false, pure, Except.pure] at h ⊢
    cases h
    have : c = 0 := by omega
    simp [this]

theorem claimBody_inv {v2 : Bool} {t t' : Tx} {e : Env} (h : claimBody v2 t e = .ok t') :
    ∃ t1 c, claimSettle t e = .ok t1 ∧
      (if v2 then claimable2 t1.s e e.caller else claimable1 t1.s e e.caller) = .ok c ∧
      t'.s.userClaimed e.caller = t.s.userClaimed e.caller + c ∧
      (∀ a, a ≠ e.caller → t'.s.userClaimed a = t.s.userClaimed a) ∧
      t'.s.userTotal = t1.s.userTotal ∧ t'.s.sched1 = t.s.sched1 ∧ t'.s.sched2 = t.s.sched2 ∧
      t'.o.xfers = t1.o.xfers ++ (if c > 0 then [(e.caller, ⟨.esdt t1.s.lpTok, 0, c⟩)] else []) := by
  unfold claimBody at h
  simp only [bind, Except.bind] at h
  split at h
  · cases h
  · rename_i t1 h1
    split at h
    · cases h
    · rename_i c hc
      have hf := claimSettle_frame h1
      have hp := claimPay_inv h
      exact ⟨t1, c, h1, hc, by rw [hp.1, hf.1], fun a ha => by rw [hp.2.1 a ha, hf.1],
        hp.2.2.1, by rw [hp.2.2.2.1, hf.2.1], by rw [hp.2.2.2.2.1, hf.2.2.1], hp.2.2.2.2.2⟩

/-- inversion of a successful vesting claim (first or repeat): there is an intermediate
    transaction state `t1` (after the settle part) on which the claimable amount `c` is
    computed; `c` is paid to the caller and added to `userClaimed` of the caller -/
theorem claimVested_inv {t t' : Tx} {e : Env} (h : claimVested t e = .ok t') :
    ∃ t1 c, claimSettle t e = .ok t1 ∧
      (if t.s.variant.isV2 then claimable2 t1.s e e.caller else claimable1 t1.s e e.caller) = .ok c ∧
      t'.s.userClaimed e.caller = t.s.userClaimed e.caller + c ∧
      (∀ a, a ≠ e.caller → t'.s.userClaimed a = t.s.userClaimed a) ∧
      t'.s.userTotal = t1.s.userTotal ∧ t'.s.sched1 = t.s.sched1 ∧ t'.s.sched2 = t.s.sched2 ∧
      t'.o.xfers = t1.o.xfers ++ (if c > 0 then [(e.caller, ⟨.esdt t1.s.lpTok, 0, c⟩)] else []) := by
  rw [claimVested_eq] at h
  cases hv : t.s.variant.isV2
  · simp only [hv, Bool.false_eq_true, if_false] at h ⊢
    simpa using claimBody_inv h
  · simp only [hv, if_true, req_bind_ok] at h ⊢
    simpa using claimBody_inv h.2

end LP
