import LP.Proofs.ReachV1Final
/-
  LP.Proofs.ReachV1Frame — once every selection step (lottery AND distribution) is complete, only
  `claimPayment` changes the recorded proceeds (to zero), the ticket price is frozen, and the
  completion flags stay set (the v1 counterpart of `rb_proceeds_frame`).
-/
namespace LP
open LP.FY

theorem v1_proceeds_frame {T0 : Nat} {hash : List Nat → List Nat} {s s' : State} {e : Env} {c : Call}
    {o : Out} {r : Nat} (h : v1_WF T0 s r) (hr : r ≤ e.round) (hd : AllDone s)
    (hs : step hash s e c = .ok (s', o)) :
    s'.price = s.price ∧ s'.flags = s.flags ∧
    (s'.claimablePayment = s.claimablePayment ∨ (c = .claimPayment ∧ s'.claimablePayment = 0)) := by
  have hD : PhD s.core := v1_phase_D h.phase hd.2
  have hst : s.flags.started = true := hD.started
  obtain ⟨hc1, hc2⟩ := h.tlStarted hst
  have hfil : s.flags.filtered = true := hD.filtered
  have hex := v1_exposed h.var hs
  have hnotAdd : s.stage e ≠ .addTickets := fun hh => by have := rb_stage_addTickets hh; omega
  have hnotConf : s.stage e ≠ .confirm := fun hh => by have := (rb_stage_confirm hh).2; omega
  cases c with
  | addTicketsV1 l =>
    exact absurd (LP.Props.C06.alloc_only_in_addTickets hash s e _ _ (Or.inr (Or.inl ⟨l, rfl⟩)) hs) hnotAdd
  | setTicketPrice tok a =>
    exact absurd (LP.Props.C06.terms_only_in_addTickets hash s e _ _ (Or.inl ⟨tok, a, rfl⟩) hs) hnotAdd
  | setPerTicket a =>
    exact absurd (LP.Props.C06.terms_only_in_addTickets hash s e _ _ (Or.inr (Or.inl ⟨a, rfl⟩)) hs) hnotAdd
  | confirm n =>
    exact absurd (LP.Props.C06.confirm_only_in_confirm hash s e _ _ (Or.inl ⟨n, rfl⟩) hs) hnotConf
  | blacklist l =>
    rcases LP.Props.C06.blacklist_only_before_selection hash s e _ _ (Or.inl ⟨l, rfl⟩) hs with hh | hh
    · exact absurd hh hnotAdd
    · exact absurd hh hnotConf
  | unblacklist l =>
    rcases LP.Props.C06.blacklist_only_before_selection hash s e _ _ (Or.inr (Or.inr ⟨l, rfl⟩)) hs with hh | hh
    · exact absurd hh hnotAdd
    · exact absurd hh hnotConf
  | filter =>
    have := (LP.Props.C06.filter_gate hash s e _ hs).2
    rw [hfil] at this; cases this
  | select =>
    have := (LP.Props.C06.select_gate hash s e _ hs).2.2
    rw [hd.1] at this; cases this
  | distribute =>
    exfalso
    obtain ⟨t, hx, _, _⟩ := LP.Props.C20.step_nopay_inv (by
      intro m hm; simp only [endpointMeta] at hm; split at hm
      · simp at hm; rw [← hm]
      · cases hm) hs
    simp only [exec] at hx
    have := (distribute_ok_cases hash _ t e hx).1.notDone
    have h2 : s.flags.additional = true := hd.2
    simp only [LP.Props.C20.txOf] at this
    rw [h2] at this; cases this
  | setConfStart x =>
    obtain ⟨t, hx, rfl⟩ := rb_step_np (by intro m hm; simp [endpointMeta] at hm; rw [← hm]) hs
    have := (exec_setConfStart_s hx).2.1
    have : e.round < s.cfg.conf := this
    omega
  | setSelStart x =>
    obtain ⟨t, hx, rfl⟩ := rb_step_np (by intro m hm; simp [endpointMeta] at hm; rw [← hm]) hs
    have := (exec_setSelStart_s hx).2.1
    have : e.round < s.cfg.sel := this
    omega
  | setClaimStart x =>
    obtain ⟨t, hx, rfl⟩ := rb_step_np (by intro m hm; simp [endpointMeta] at hm; rw [← hm]) hs
    rw [(exec_setClaimStart_s hx).1]
    exact ⟨rfl, rfl, Or.inl rfl⟩
  | setSupport a =>
    obtain ⟨t, hx, rfl⟩ := rb_step_np (by intro m hm; simp [endpointMeta] at hm; rw [← hm]) hs
    simp only [exec, pure_ok_iff] at hx
    subst hx
    exact ⟨rfl, rfl, Or.inl rfl⟩
  | pause =>
    obtain ⟨t, hx, rfl⟩ := rb_step_np (by intro m hm; simp [endpointMeta] at hm; rw [← hm]) hs
    simp only [exec, pure_ok_iff] at hx
    subst hx
    exact ⟨rfl, rfl, Or.inl rfl⟩
  | unpause =>
    obtain ⟨t, hx, rfl⟩ := rb_step_np (by intro m hm; simp [endpointMeta] at hm; rw [← hm]) hs
    simp only [exec, pure_ok_iff] at hx
    subst hx
    exact ⟨rfl, rfl, Or.inl rfl⟩
  | deposit =>
    obtain ⟨m, t, _, _, _, hx, rfl, _⟩ := step_ok_inv hs
    rw [(exec_deposit_s hx).2]
    exact ⟨rfl, rfl, Or.inl rfl⟩
  | claim =>
    obtain ⟨t, hx, rfl⟩ := rb_step_np (by intro m hm; simp [endpointMeta] at hm; rw [← hm]) hs
    obtain ⟨_, rg, B, _, _, hs', _⟩ := v1_claim_state h.var h.tokNe h.static.2 hx
    rw [hs']
    exact ⟨rfl, rfl, Or.inl rfl⟩
  | claimPayment =>
    obtain ⟨t, hx, rfl⟩ := rb_step_np (by intro m hm; simp [endpointMeta] at hm; rw [← hm]) hs
    obtain ⟨hv1, hv2, _⟩ := v1_fam_flags h.var
    simp only [exec, rbTx_s, hv1, Bool.false_eq_true, if_false, bind_ok_iff] at hx
    obtain ⟨t1, h1, hfin⟩ := hx
    obtain ⟨_, B, cp, hs1, _⟩ := rb_claimPaymentCommon_frame h1
    simp only [rbTx_s] at hs1
    have hvar : t1.s.variant = s.variant := by rw [hs1]
    rw [hvar, hv2] at hfin
    simp only [Bool.false_eq_true, if_false, pure_ok_iff] at hfin
    subst hfin
    obtain ⟨L, _, _, hpost, _⟩ := hD.led
    have hpost0 : PayEqPost (rbTx s e).s L := (rb_PayPost_iff s L).mpr hpost
    obtain ⟨_, hz, _, _⟩ :=
      LP.Props.C01.claimPaymentCommon_keeps_post (rbTx s e) t1 e L h.tokNe h1 hpost0
    refine ⟨by rw [hs1], by rw [hs1], Or.inr ⟨rfl, hz⟩⟩
  | _ => exact absurd hex id

end LP
