import LP.Proofs.ReachBEAll
import LP.Proofs.Resume
import LP.Proofs.ResumeFrame
import LP.Props.C19frame
/-
  LP.Proofs.Unstuck — C04 / C19 at the level of REACHABLE states: no selection step can be left
  stuck.

  * `us_Live c`        what the phase invariants of all eight reachable-state developments say
                       about the cursor of the filter / the base lottery (read off `Pre`/`PhA`/`PhB`
                       and `PhC`); it does not read the payment balance of the projection, so it
                       transfers to the NFT developments (`nf_core`);
  * `us_live_covered`  every `be_Covered` state satisfies it;
  * `us_filter_loop`   the filter loop from a `Mid` state, whatever the budget: completes, or is
                       interrupted in a `Mid` state strictly further on;
  * `us_filter_step`   `step … .filter` is accepted in every covered, unfiltered, unpaused state in
                       the selection stage; completes or strictly decreases `us_filLeft`;
  * `us_select_step`   the same for `step … .select`, measure `us_selLeft`;
  * `us_run_completes` generic: a step that is always accepted and completes or decreases a measure
                       completes along any sequence of at least `measure + 1` calls.
-/
namespace LP
open LP.Props LP.Events LP.FY LP.Props.C17

/-! ## the cursor facts shared by all developments -/

/-- the filter cursor: `(1, 0)` when nothing is saved, the saved `(first, removed)` otherwise, and
    the loop state it denotes is in the middle of compacting some allocation list -/
def us_Fil (c : Core) : Prop :=
  ∃ (L0 : List (Nat × Nat)) (f rm : Nat), AllocOK c.confirmed L0 ∧
    ((c.op = .none ∧ f = 1 ∧ rm = 0) ∨ c.op = .filter f rm) ∧
    Mid c.confirmed c.lastTicketId L0 ⟨c.range, c.batch, f, rm⟩

/-- the cursor of the base lottery: nothing saved, or a saved position inside `1..nrWinning` -/
def us_Sel (c : Core) : Prop :=
  c.op = .none ∨ ∃ rng pos, c.op = .select rng pos ∧ 1 ≤ pos ∧ pos ≤ c.nrWinning

structure us_Live (c : Core) : Prop where
  fil : c.flags.filtered = false → us_Fil c
  sel : c.flags.filtered = true → c.flags.selected = false → us_Sel c

theorem us_Live.of_payBal {c : Core} {x : Nat} (h : us_Live { c with payBal := x }) : us_Live c :=
  ⟨h.fil, h.sel⟩

theorem us_Fil_of_PhA {T0 : Nat} {c : Core} {L0 : List (Nat × Nat)} (hp : Pre T0 c L0) (ha : PhA c L0) :
    us_Fil c := by
  refine ⟨L0, 1, 0, hp.ok, Or.inl ⟨ha.op, rfl, rfl⟩, ?_⟩
  rw [ha.last]
  exact rb_Mid_start ha.chain hp.outR

theorem us_Fil_of_PhB {T0 : Nat} {c : Core} {L0 : List (Nat × Nat)} (hp : Pre T0 c L0) (hb : PhB c L0) :
    us_Fil c := by
  obtain ⟨f, rm, hop, hm⟩ := hb.mid
  exact ⟨L0, f, rm, hp.ok, Or.inr hop, hm⟩

theorem us_Sel_of_PhC {T0 : Nat} {c : Core} (h : PhC T0 c) : us_Sel c := by
  rcases h.sel with ⟨h1, _⟩ | ⟨rng, pos, arr, h1, h2, h3, _⟩
  · exact Or.inl h1
  · exact Or.inr ⟨rng, pos, h1, h2, h3⟩

theorem us_Live_of_early {T0 : Nat} {c : Core} {L0 : List (Nat × Nat)} (hp : Pre T0 c L0)
    (h : PhA c L0 ∨ PhB c L0) : us_Live c := by
  refine ⟨fun _ => ?_, fun hf => ?_⟩
  · rcases h with ha | hb
    · exact us_Fil_of_PhA hp ha
    · exact us_Fil_of_PhB hp hb
  · rw [hp.notFiltered] at hf; cases hf

theorem us_Live_of_PhC {T0 : Nat} {c : Core} (h : PhC T0 c) : us_Live c :=
  ⟨fun hf => (by rw [h.filtered] at hf; cases hf), fun _ _ => us_Sel_of_PhC h⟩

/-- a projection whose base lottery is complete -/
theorem us_Live_of_done {c : Core} (hf : c.flags.filtered = true) (hs : c.flags.selected = true) :
    us_Live c :=
  ⟨fun h => (by rw [hf] at h; cases h), fun _ h => (by rw [hs] at h; cases h)⟩

theorem us_Live_of_Phase {T0 : Nat} {c : Core} (h : Phase T0 c) : us_Live c := by
  rcases h with ⟨L0, hp, hab⟩ | hc | hd
  · exact us_Live_of_early hp hab
  · exact us_Live_of_PhC hc
  · exact us_Live_of_done hd.filtered hd.selected

theorem us_Live_of_WF2 {T0 : Nat} {s : State} {r : Nat} (wf : WF2 T0 s r) : us_Live s.core := by
  rcases wf.phase with ⟨_, _, _, h4⟩ | hE | hF
  · exact us_Live_of_Phase h4
  · exact us_Live_of_done hE.filtered hE.selected
  · exact us_Live_of_done hF.d.filtered hF.d.selected

theorem us_Live_of_nf_Phase {T0 : Nat} {c : Core} (h : nf_Phase T0 c) : us_Live c := by
  rcases h with ⟨_, _, h3⟩ | ⟨_, hD, _⟩ | ⟨_, hD⟩
  · exact us_Live_of_Phase h3
  · exact us_Live_of_done hD.filtered hD.selected
  · exact us_Live_of_done hD.filtered hD.selected

theorem us_Live_of_v1_PhaseC {T0 : Nat} {c : Core} {g : v1_G} (h : v1_PhaseC T0 c g) : us_Live c := by
  rcases h with ⟨_, _, ⟨L0, hp, ⟨ha, _⟩ | ⟨hb, _⟩⟩ | ⟨hc, _⟩ | hE⟩ | ⟨_, hd⟩
  · exact us_Live_of_early hp (Or.inl ha)
  · exact us_Live_of_early hp (Or.inr hb)
  · exact us_Live_of_PhC hc
  · exact us_Live_of_done hE.filtered hE.selected
  · exact us_Live_of_done hd.filtered hd.selected

theorem us_Live_of_ng_Phase {T0 : Nat} {c : Core} {g : v1_G} (h : ng_Phase T0 c g) : us_Live c := by
  rcases h with h | ⟨hF, _⟩
  · exact us_Live_of_v1_PhaseC h
  · exact us_Live_of_done hF.post.filtered hF.post.selected

/-- every state of the eight reachable-state developments -/
theorem us_live_covered {hash : List Nat → List Nat} {s : State} {r : Nat}
    (h : be_Covered hash s r) : us_Live s.core := by
  cases h with
  | plain hv h =>
    obtain ⟨a0, ha⟩ := Reach_iff.mp h
    exact us_Live_of_Phase (reach_WF hv ha).phase
  | guarV2 h =>
    obtain ⟨a0, ha⟩ := Reach_iff.mp h
    exact us_Live_of_WF2 (reach_WF2 ha)
  | nft h =>
    obtain ⟨a0, ha⟩ := Reach_iff.mp h
    have h1 : us_Live (nf_core s) := us_Live_of_nf_Phase (nf_reach_WF ha).phase
    exact h1.of_payBal
  | v1 hv h =>
    obtain ⟨a0, ha⟩ := v1_Reach_iff.mp h
    exact us_Live_of_v1_PhaseC (v1_reach_WF hv ha).phase
  | guarV1 h =>
    obtain ⟨a0, ha⟩ := g1_Reach_iff.mp h
    exact us_Live_of_v1_PhaseC (g1_reach_WF ha).phase
  | nftGuar h =>
    obtain ⟨a0, ha⟩ := ng_Reach_iff.mp h
    have h1 : us_Live (nf_core s) := us_Live_of_ng_Phase (ng_reach_WF ha).phase
    exact h1.of_payBal

/-! ## the stage -/

/-- once the selection round is reached and the selection steps are not all complete, the stage is
    WinnerSelection -/
theorem us_stage {s : State} {e : Env} (hv : validPeriods s.cfg = true) (hsel : s.cfg.sel ≤ e.round)
    (hfl : (s.flags.selected && s.flags.additional) = false) : s.stage e = .winnerSelection := by
  obtain ⟨h1, _⟩ := (validPeriods_iff _).mp hv
  unfold State.stage stageOf
  rw [if_neg (by omega), if_neg (by omega), hfl]
  rfl

/-! ## the filter loop -/

theorem us_Mid_first_le {conf : Nat → Nat} {last : Nat} {L0 : List (Nat × Nat)} {x : FilSt}
    (hm : Mid conf last L0 x) : 1 ≤ x.first ∧ x.first ≤ last + 1 := by
  obtain ⟨P, S, _, _, _, hfirst, _, hlast, _, _⟩ := hm
  omega

/-- a continuing iteration moves the cursor forward -/
theorem us_filterBody_first {conf : Nat → Nat} {last : Nat} {L0 : List (Nat × Nat)}
    (hok : AllocOK conf L0) {x x' : FilSt}
    (h : filterBody conf last x = .ok (x', true)) (hm : Mid conf last L0 x) : x.first < x'.first := by
  obtain ⟨P, S, hL, hcP, hcS, hfirst, hrem, hlast, hzero, hout⟩ := hm
  cases S with
  | nil =>
    simp only [ticketTotal, Nat.add_zero] at hlast
    rw [filterBody_stop conf last x hlast] at h
    simp at h
  | cons p S' =>
    obtain ⟨a, n⟩ := p
    have han : (a, n) ∈ L0 := by rw [hL]; exact List.mem_append_right _ (List.mem_cons_self ..)
    have hn1 : 1 ≤ n := hok.pos _ han
    have hcn : conf a ≤ n := hok.le _ han
    have hdl : droppedSum conf P ≤ ticketTotal P :=
      rb_dropped_le (fun q hq => hok.le q (by rw [hL]; exact List.mem_append_left _ hq))
    obtain ⟨hb, hr, _⟩ := hcS
    simp only [ticketTotal] at hlast
    have hne : x.first ≠ last + 1 := by omega
    obtain ⟨f1, hbody, hf1, _⟩ := filterBody_step conf last x a n hne hb hr hcn (by omega)
    rw [hbody] at h
    simp only [Except.ok.injEq, Prod.mk.injEq, and_true] at h
    subst h
    omega

/-- the filter loop from a state in the middle of the compaction, with the endpoint's fuel and any
    budget: it never fails and never runs out of fuel; it completes (and the final subtraction
    `last - removed` cannot underflow), or it is interrupted — only with a finite budget — in a
    state that is again in the middle of the compaction, strictly further on -/
theorem us_filter_loop {conf : Nat → Nat} {last : Nat} {L0 : List (Nat × Nat)}
    (hok : AllocOK conf L0) {x : FilSt} (hm : Mid conf last L0 x) (b : Option Nat) :
    (∃ x' b', runWhile (filterBody conf last) (last + 2) b x = .ok (x', b', .completed) ∧
        x'.removed ≤ last) ∨
    (∃ x' b', runWhile (filterBody conf last) (last + 2) b x = .ok (x', b', .interrupted) ∧
        Mid conf last L0 x' ∧ x.first < x'.first ∧ b ≠ none) := by
  have hm0 := hm
  obtain ⟨P, S, hL, hcP, hcS, hfirst, hrem, hlast, hzero, hout⟩ := hm
  have hmemP : ∀ q ∈ P, q ∈ L0 := fun q hq => by rw [hL]; exact List.mem_append_left _ hq
  have hmemS : ∀ q ∈ S, q ∈ L0 := fun q hq => by rw [hL]; exact List.mem_append_right _ hq
  have hdlP : droppedSum conf P ≤ ticketTotal P := rb_dropped_le (fun q hq => hok.le q (hmemP q hq))
  have hdlS : droppedSum conf S ≤ ticketTotal S := rb_dropped_le (fun q hq => hok.le q (hmemS q hq))
  have hnd := hok.nodup
  rw [hL, List.map_append, List.nodup_append] at hnd
  have hposS : ∀ q ∈ S, 1 ≤ q.2 := fun q hq => hok.pos q (hmemS q hq)
  obtain ⟨f', hrun, _, hrem', _⟩ := filter_run conf last S x (S.length + 1) hnd.2.1 hposS
    (fun q hq => hok.le q (hmemS q hq)) hcS hlast (by omega) (Nat.le_refl _)
  have hlen := length_le_ticketTotal S hposS
  have hN : S.length + 1 ≤ last + 2 := by omega
  have hf' : f'.removed ≤ last := by omega
  cases b with
  | none =>
    exact Or.inl ⟨f', none, runWhile_fuel_mono _ _ _ _ _ _ _ hrun (by decide) _ hN, hf'⟩
  | some k =>
    rcases runWhile_call_progress _ (S.length + 1) x f' hrun k (last + 2) hN with
      ⟨b', h⟩ | ⟨x1, h1, _, _, _⟩
    · exact Or.inl ⟨f', b', h, hf'⟩
    · obtain ⟨hm1, hμ⟩ := runWhile_interrupted_measure (filterBody conf last)
        (fun z => last + 1 - z.first) (Mid conf last L0)
        (fun z z' hz hb => by
          have h2 := rb_filterBody_Mid hok hb hz
          have h3 := us_filterBody_first hok hb hz
          have h4 := (us_Mid_first_le h2).2
          exact ⟨h2, by omega⟩)
        _ _ _ _ _ h1 hm0
      have h4 := (us_Mid_first_le hm1).2
      exact Or.inr ⟨x1, some 0, h1, hm1, by omega, by simp⟩

/-! ## `filterTickets` is never stuck -/

/-- the cursor position of the filter (1 when nothing is saved) -/
def us_filCursor (s : State) : Nat :=
  match s.op with
  | .filter f _ => f
  | _ => 1

/-- number of ticket ids the filter has not passed yet -/
def us_filLeft (s : State) : Nat := s.lastTicketId + 1 - us_filCursor s

/-- what a call of a resumable step reports: completed (`[0]`, flag set, nothing saved), or
    interrupted (`[1]`, only possible with a finite budget) -/
structure us_Outcome (s' : State) (o : Out) (e : Env) (flag : State → Bool) (left : State → Nat)
    (s : State) : Prop where
  cases : (o.ret = [0] ∧ flag s' = true ∧ s'.op = .none) ∨
    (o.ret = [1] ∧ flag s' = false ∧ s'.op ≠ .none ∧ left s' < left s ∧ e.budget ≠ none)
  paused : s'.paused = s.paused
  cfg : s'.cfg = s.cfg
  owner : s'.owner = s.owner

theorem us_Outcome.unlimited {s' : State} {o : Out} {e : Env} {flag : State → Bool}
    {left : State → Nat} {s : State} (h : us_Outcome s' o e flag left s) (hb : e.budget = none) :
    o.ret = [0] ∧ flag s' = true ∧ s'.op = .none := by
  rcases h.cases with h1 | ⟨_, _, _, _, h5⟩
  · exact h1
  · exact absurd hb h5

theorem us_filter_step (hash : List Nat → List Nat) {s : State} {e : Env}
    (hl : us_Fil s.core) (hv : validPeriods s.cfg = true) (hnf : s.flags.filtered = false)
    (hns : s.flags.selected = false) (hsel : s.cfg.sel ≤ e.round) (hp : s.paused = false)
    (h1 : e.egld = 0) (h2 : e.esdts = []) :
    (s.op = .none ∨ ∃ f rm, s.op = .filter f rm) ∧ us_filLeft s ≤ s.lastTicketId ∧
    ∃ s' o, step hash s e .filter = .ok (s', o) ∧
      us_Outcome s' o e (fun s => s.flags.filtered) us_filLeft s := by
  obtain ⟨L0, f, rm, hok, hop, hm⟩ := hl
  have hop' : s.op = .none ∧ f = 1 ∧ rm = 0 ∨ s.op = .filter f rm := hop
  have hm' : Mid s.confirmed s.lastTicketId L0 ⟨s.range, s.batch, f, rm⟩ := hm
  have hx : filStOf s = some ⟨s.range, s.batch, f, rm⟩ := by
    rcases hop' with ⟨h, rfl, rfl⟩ | h <;> simp only [filStOf, h]
  have hcur : us_filCursor s = f := by
    rcases hop' with ⟨h, rfl, rfl⟩ | h <;> simp only [us_filCursor, h]
  have hfb := us_Mid_first_le hm'
  have hpre : FilterPre s e := ⟨hp, us_stage hv hsel (by rw [hns]; rfl), hnf⟩
  refine ⟨?_, by unfold us_filLeft; rw [hcur]; simp only at hfb; omega, ?_⟩
  · rcases hop' with ⟨h, _⟩ | h
    · exact Or.inl h
    · exact Or.inr ⟨f, rm, h⟩
  rw [step_filter hash s e h1 h2]
  rcases us_filter_loop hok hm' e.budget with ⟨x', b', hrun, hle⟩ | ⟨x', b', hrun, hm1, hlt, hb⟩
  · rw [filterTickets_completed ⟨s, ⟨e.budget, e.seeds, e.script⟩, {}⟩ e _ x' b' hpre hx hrun hle]
    exact ⟨_, _, rfl, Or.inl ⟨rfl, rfl, rfl⟩, rfl, rfl, rfl⟩
  · rw [filterTickets_interrupted ⟨s, ⟨e.budget, e.seeds, e.script⟩, {}⟩ e _ x' b' hpre hx hrun]
    refine ⟨_, _, rfl, Or.inr ⟨rfl, ?_, ?_, ?_, hb⟩, rfl, rfl, rfl⟩
    · show (filterFlags s f).filtered = false
      rw [filterFlags_filtered]; exact hnf
    · show Op.filter _ _ ≠ Op.none
      exact nofun
    · have hb1 := (us_Mid_first_le hm1).2
      show s.lastTicketId + 1 - x'.first < us_filLeft s
      unfold us_filLeft
      rw [hcur]
      simp only at hlt hb1
      omega

/-! ## `selectWinners` is never stuck -/

def us_selCursor (s : State) : Nat :=
  match s.op with
  | .select _ p => p
  | _ => 1

/-- number of winners the base lottery has still to draw (counting the current position) -/
def us_selLeft (s : State) : Nat := s.nrWinning + 1 - us_selCursor s

/-- the core loop of the lottery from a position inside `1..nr`, with the endpoint's fuel and any
    budget: never fails, never out of fuel; completes, or is interrupted — only with a finite
    budget — at a strictly later position that is still inside `1..nr` -/
theorem us_select_loop (hash : List Nat → List Nat) (nr last : Nat) (y : SelCore)
    (hpos : nr = 0 ∨ (1 ≤ y.pos ∧ y.pos ≤ nr)) (b : Option Nat) :
    (∃ y' b', runWhile (selCoreBody hash nr last) (nr + 2) b y = .ok (y', b', .completed)) ∨
    (∃ y' b', runWhile (selCoreBody hash nr last) (nr + 2) b y = .ok (y', b', .interrupted) ∧
        y.pos < y'.pos ∧ y'.pos ≤ nr ∧ b ≠ none) := by
  obtain ⟨yf, hrun⟩ := selCore_completes hash nr last (nr - y.pos + 1) y hpos (Nat.le_refl _)
  have hN : nr - y.pos + 1 ≤ nr + 2 := by omega
  cases b with
  | none => exact Or.inl ⟨yf, none, runWhile_fuel_mono _ _ _ _ _ _ _ hrun (by decide) _ hN⟩
  | some k =>
    rcases runWhile_call_progress _ _ y yf hrun k (nr + 2) hN with ⟨b', h⟩ | ⟨y1, h1, _, _, _⟩
    · exact Or.inl ⟨yf, b', h⟩
    · obtain ⟨hp1, hμ⟩ := runWhile_interrupted_measure (selCoreBody hash nr last)
        (fun z => nr + 1 - z.pos) (fun z => z.pos ≤ nr)
        (fun z z' hz hb => by
          rw [selCoreBody_eq] at hb
          by_cases h0 : nr = 0
          · rw [if_pos h0] at hb; simp at hb
          · rw [if_neg h0] at hb
            by_cases hpn : z.pos = nr
            · rw [if_pos hpn] at hb; simp at hb
            · rw [if_neg hpn] at hb
              simp only [Except.ok.injEq, Prod.mk.injEq, and_true] at hb
              subst hb
              simp only [selCoreStep]
              constructor <;> omega)
        _ _ _ _ _ h1
        (by
          rcases hpos with h0 | h
          · exfalso
            -- with `nr = 0` the loop stops at once: no interruption
            have hb : selCoreBody hash nr last y = .ok (y, false) := by
              simp only [selCoreBody, h0, if_true]
            rw [runWhile_stop hb] at h1
            simp at h1
          · exact h.2)
      exact Or.inr ⟨y1, some 0, h1, by omega, hp1, by simp⟩

theorem us_select_step (hash : List Nat → List Nat) {s : State} {e : Env}
    (hl : us_Sel s.core) (hv : validPeriods s.cfg = true) (hf : s.flags.filtered = true)
    (hns : s.flags.selected = false) (hsel : s.cfg.sel ≤ e.round) (hp : s.paused = false)
    (hcaller : e.caller = s.owner ∨ e.callerIsContract = false)
    (h1 : e.egld = 0) (h2 : e.esdts = []) :
    (s.op = .none ∨ ∃ r p, s.op = .select r p) ∧ us_selLeft s ≤ s.nrWinning ∧
    ∃ s' o, step hash s e .select = .ok (s', o) ∧
      us_Outcome s' o e (fun s => s.flags.selected) us_selLeft s := by
  have hl' : s.op = .none ∨ ∃ rng pos, s.op = .select rng pos ∧ 1 ≤ pos ∧ pos ≤ s.nrWinning := hl
  have hpre : SelectPre s e := by
    refine ⟨hp, us_stage hv hsel (by rw [hns]; rfl), ?_, hf, hns⟩
    rcases hcaller with h | h
    · simp [h]
    · simp [h]
  -- the loop state the call starts from
  obtain ⟨y, hy, hcur, hpos⟩ : ∃ y, selCoreAt s e = some y ∧ y.pos = us_selCursor s ∧
      (s.nrWinning = 0 ∨ (1 ≤ y.pos ∧ y.pos ≤ s.nrWinning)) := by
    rcases hl' with hop | ⟨rng, pos, hop, hp1, hp2⟩
    · refine ⟨⟨s.status, s.posToId, (callTx s e none).freshRng.1, 1, (callTx s e none).dctx⟩, ?_, ?_, ?_⟩
      · simp only [selCoreAt, selCoreOf, callTx, hop]
      · simp only [us_selCursor, hop]
      · by_cases h : s.nrWinning = 0
        · exact Or.inl h
        · exact Or.inr ⟨Nat.le_refl _, by simp only; omega⟩
    · refine ⟨⟨s.status, s.posToId, rng, pos, (callTx s e none).dctx⟩, ?_, ?_, Or.inr ⟨hp1, hp2⟩⟩
      · simp only [selCoreAt, selCoreOf, callTx, hop]
      · simp only [us_selCursor, hop]
  refine ⟨?_, ?_, ?_⟩
  · rcases hl' with hop | ⟨rng, pos, hop, _⟩
    · exact Or.inl hop
    · exact Or.inr ⟨rng, pos, hop⟩
  · unfold us_selLeft
    rcases hl' with hop | ⟨rng, pos, hop, hp1, hp2⟩
    · simp only [us_selCursor, hop]; omega
    · simp only [us_selCursor, hop]; omega
  rw [step_select hash s e h1 h2, selectWinners_callTx_eq hash s e e.budget y hpre hy]
  rcases us_select_loop hash s.nrWinning s.lastTicketId y hpos e.budget with
    ⟨y', b', hrun⟩ | ⟨y', b', hrun, hlt, hle, hb⟩
  · rw [hrun]
    exact ⟨_, _, rfl, Or.inl ⟨rfl, rfl, rfl⟩, rfl, rfl, rfl⟩
  · rw [hrun]
    refine ⟨_, _, rfl, Or.inr ⟨rfl, hns, ?_, ?_, hb⟩, rfl, rfl, rfl⟩
    · show Op.select _ _ ≠ Op.none
      exact nofun
    · show s.nrWinning + 1 - y'.pos < us_selLeft s
      unfold us_selLeft
      rw [← hcur]
      omega

/-! ## sequences of calls -/

/-- the history that calls endpoint `c` once in each of the environments `es` -/
def us_hist (c : Call) (es : List Env) : Hist := es.map (fun e => (e, c))

/-- once the completion flag is set (and further calls of the endpoint are rejected) it stays set -/
theorem us_run_done (hash : List Nat → List Nat) (c : Call) (flag : State → Bool)
    (hrej : ∀ s e, flag s = true → ∃ err, step hash s e c = .error err) :
    ∀ (es : List Env) (s : State), flag s = true → run hash s (us_hist c es) = s
  | [], _, _ => rfl
  | e :: rest, s, hf => by
    obtain ⟨err, herr⟩ := hrej s e hf
    show run hash s ((e, c) :: us_hist c rest) = s
    rw [run_cons_error _ herr]
    exact us_run_done hash c flag hrej rest s hf

/-- generic liveness: if, in every good state whose flag is not set, a call of `c` (in an
    admissible environment not earlier than the latest transaction) is accepted, leads to a good
    state, and sets the flag or strictly decreases `left`, then any `left s + 1` successive calls set
    the flag — whatever their budgets — and it stays set -/
theorem us_run_completes (hash : List Nat → List Nat) (c : Call) (Good : State → Nat → Prop)
    (Q : Env → Prop) (flag : State → Bool) (left : State → Nat)
    (hstep : ∀ s r e, Good s r → flag s = false → r ≤ e.round → Q e →
      ∃ s' o, step hash s e c = .ok (s', o) ∧ Good s' e.round ∧
        (flag s' = true ∨ left s' < left s))
    (hrej : ∀ s e, flag s = true → ∃ err, step hash s e c = .error err) :
    ∀ (es : List Env) (s : State) (r : Nat), Good s r → RoundsFrom r (us_hist c es) →
      (∀ e ∈ es, Q e) → left s + 1 ≤ es.length → flag (run hash s (us_hist c es)) = true
  | [], _, _, _, _, _, hlen => by simp at hlen
  | e :: rest, s, r, hg, hr, hq, hlen => by
    cases hf : flag s with
    | true => rw [us_run_done hash c flag hrej _ s hf]; exact hf
    | false =>
      obtain ⟨hr1, hr2⟩ : r ≤ e.round ∧ RoundsFrom e.round (us_hist c rest) := hr
      obtain ⟨s', o, hst, hg', hprog⟩ := hstep s r e hg hf hr1 (hq e (List.mem_cons_self ..))
      show flag (run hash s ((e, c) :: us_hist c rest)) = true
      rw [run_cons_ok _ hst]
      rcases hprog with hdone | hlt
      · rw [us_run_done hash c flag hrej _ s' hdone]; exact hdone
      · exact us_run_completes hash c Good Q flag left hstep hrej rest s' e.round hg' hr2
          (fun e' he' => hq e' (List.mem_cons_of_mem _ he'))
          (by simp only [List.length_cons] at hlen; omega)

/-! ## the reachable-state theorems -/

/-- an environment that carries no payment -/
def us_NoPay (e : Env) : Prop := e.egld = 0 ∧ e.esdts = []

theorem us_NoPay.envOK {e : Env} (h : us_NoPay e) : EnvOK e := Or.inl h.1

theorem us_histOK {e : Env} {c : Call} (h : us_NoPay e) (h1 : CallOK c) (h2 : v1_CallOK c) :
    be_HistOK e c := ⟨h.envOK, h1, h2⟩

/-- the selection stage has been reached and the contract is not paused -/
structure us_Open (hash : List Nat → List Nat) (ow : Nat) (s : State) (r : Nat) : Prop where
  cov : be_Covered hash s r
  notPaused : s.paused = false
  sel : s.cfg.sel ≤ r
  owner : s.owner = ow

theorem us_filter_never_stuck (hash : List Nat → List Nat) {s : State} {r : Nat} {e : Env}
    (hs : be_Covered hash s r) (hnf : s.flags.filtered = false) (hr : r ≤ e.round)
    (hsel : s.cfg.sel ≤ e.round) (hpay : us_NoPay e) (hp : s.paused = false) :
    (s.op = .none ∨ ∃ f rm, s.op = .filter f rm) ∧ us_filLeft s ≤ s.lastTicketId ∧
    ∃ s' o, step hash s e .filter = .ok (s', o) ∧ be_Covered hash s' e.round ∧
      us_Outcome s' o e (fun s => s.flags.filtered) us_filLeft s := by
  have hg := (be_family_all hash).good hs
  have hns : s.flags.selected = false := by
    cases h : s.flags.selected with
    | false => rfl
    | true => have := hg.tix.selFil h; rw [show s.core.flags.filtered = s.flags.filtered from rfl, hnf] at this; cases this
  obtain ⟨h1, h2, s', o, hst, hout⟩ :=
    us_filter_step hash ((us_live_covered hs).fil hnf) hg.valid hnf hns hsel hp hpay.1 hpay.2
  exact ⟨h1, h2, s', o, hst,
    (be_family_all hash).call hs hr (us_histOK (c := .filter) hpay trivial trivial) hst, hout⟩

theorem us_filter_rejected_when_done (hash : List Nat → List Nat) (s : State) (e : Env)
    (h : s.flags.filtered = true) : ∃ err, step hash s e .filter = .error err := by
  cases hst : step hash s e .filter with
  | error err => exact ⟨err, rfl⟩
  | ok x =>
    exfalso
    obtain ⟨m, t, _, _, _, hx, _, _⟩ := step_ok_inv hst
    have h3 := (filterTickets_inv _ _ _ hx).1.notFiltered
    have h4 : (tx0 s e).s.flags = s.flags := rfl
    rw [h4, h] at h3
    cases h3

theorem us_filter_completes (hash : List Nat → List Nat) {s : State} {r : Nat}
    (hs : be_Covered hash s r) (hsel : s.cfg.sel ≤ r) (hp : s.paused = false) (es : List Env)
    (hr : RoundsFrom r (us_hist .filter es)) (hpay : ∀ e ∈ es, us_NoPay e)
    (hlen : us_filLeft s + 1 ≤ es.length) :
    (run hash s (us_hist .filter es)).flags.filtered = true := by
  refine us_run_completes hash .filter (us_Open hash s.owner) us_NoPay (fun s => s.flags.filtered)
    us_filLeft ?_ (fun s e h => us_filter_rejected_when_done hash s e h) es s r
    ⟨hs, hp, hsel, rfl⟩ hr hpay hlen
  intro s1 r1 e hg hf hr1 hq
  obtain ⟨_, _, s', o, hst, hcov, hout⟩ := us_filter_never_stuck hash hg.cov hf hr1
    (Nat.le_trans hg.sel hr1) hq hg.notPaused
  refine ⟨s', o, hst, ⟨hcov, by rw [hout.paused]; exact hg.notPaused,
    by rw [hout.cfg]; exact Nat.le_trans hg.sel hr1, by rw [hout.owner]; exact hg.owner⟩, ?_⟩
  rcases hout.cases with ⟨_, h, _⟩ | ⟨_, _, _, h, _⟩
  · exact Or.inl h
  · exact Or.inr h

theorem us_select_never_stuck (hash : List Nat → List Nat) {s : State} {r : Nat} {e : Env}
    (hs : be_Covered hash s r) (hf : s.flags.filtered = true) (hns : s.flags.selected = false)
    (hr : r ≤ e.round) (hsel : s.cfg.sel ≤ e.round) (hpay : us_NoPay e) (hp : s.paused = false)
    (hcaller : e.caller = s.owner ∨ e.callerIsContract = false) :
    (s.op = .none ∨ ∃ rg p, s.op = .select rg p) ∧ us_selLeft s ≤ s.nrWinning ∧
    ∃ s' o, step hash s e .select = .ok (s', o) ∧ be_Covered hash s' e.round ∧
      us_Outcome s' o e (fun s => s.flags.selected) us_selLeft s := by
  have hg := (be_family_all hash).good hs
  obtain ⟨h1, h2, s', o, hst, hout⟩ :=
    us_select_step hash ((us_live_covered hs).sel hf hns) hg.valid hf hns hsel hp hcaller
      hpay.1 hpay.2
  exact ⟨h1, h2, s', o, hst,
    (be_family_all hash).call hs hr (us_histOK (c := .select) hpay trivial trivial) hst, hout⟩

theorem us_select_rejected_when_done (hash : List Nat → List Nat) (s : State) (e : Env)
    (h : s.flags.selected = true) : ∃ err, step hash s e .select = .error err := by
  cases hst : step hash s e .select with
  | error err => exact ⟨err, rfl⟩
  | ok x =>
    exfalso
    obtain ⟨m, t, _, _, _, hx, _, _⟩ := step_ok_inv hst
    have h3 := (selectWinners_inv hash _ _ _ hx).1.notSelected
    have h4 : (tx0 s e).s.flags = s.flags := rfl
    rw [h4, h] at h3
    cases h3

theorem us_select_completes (hash : List Nat → List Nat) {s : State} {r : Nat}
    (hs : be_Covered hash s r) (hf : s.flags.filtered = true) (hsel : s.cfg.sel ≤ r)
    (hp : s.paused = false) (es : List Env)
    (hr : RoundsFrom r (us_hist .select es))
    (hq : ∀ e ∈ es, us_NoPay e ∧ (e.caller = s.owner ∨ e.callerIsContract = false))
    (hlen : us_selLeft s + 1 ≤ es.length) :
    (run hash s (us_hist .select es)).flags.selected = true := by
  refine us_run_completes hash .select
    (fun s1 r1 => us_Open hash s.owner s1 r1 ∧ s1.flags.filtered = true)
    (fun e => us_NoPay e ∧ (e.caller = s.owner ∨ e.callerIsContract = false))
    (fun s => s.flags.selected) us_selLeft ?_
    (fun s e h => us_select_rejected_when_done hash s e h) es s r
    ⟨⟨hs, hp, hsel, rfl⟩, hf⟩ hr hq hlen
  intro s1 r1 e hg hns hr1 hq1
  obtain ⟨hg, hf1⟩ := hg
  obtain ⟨_, _, s', o, hst, hcov, hout⟩ := us_select_never_stuck hash hg.cov hf1 hns hr1
    (Nat.le_trans hg.sel hr1) hq1.1 hg.notPaused (by rw [hg.owner]; exact hq1.2)
  have hfl : s'.flags.filtered = true := by
    have := (be_family_all hash).good hcov
    rcases hout.cases with ⟨_, h, _⟩ | ⟨_, _, hop, _⟩
    · exact this.tix.selFil h
    · -- the saved operation is a `.select` cursor: the filter flag was not touched
      cases hfl : s'.flags.filtered with
      | true => rfl
      | false =>
        exfalso
        have hl := (us_live_covered hcov).fil hfl
        obtain ⟨_, f, rm, _, hop', _⟩ := hl
        have hop'' : s'.op = .none ∧ f = 1 ∧ rm = 0 ∨ s'.op = .filter f rm := hop'
        obtain ⟨m, t, _, _, _, hx, hs', _⟩ := step_ok_inv hst
        obtain ⟨_, y, y', b, _, ⟨_, ht⟩ | ⟨_, ht⟩⟩ := selectWinners_ok_cases hash _ _ _ hx
        · rw [hs', ht] at hfl
          have : (tx0 s1 e).s.flags.filtered = false := hfl
          have h4 : (tx0 s1 e).s.flags = s1.flags := rfl
          rw [h4, hf1] at this; cases this
        · rw [hs', ht] at hfl
          have : (tx0 s1 e).s.flags.filtered = false := hfl
          have h4 : (tx0 s1 e).s.flags = s1.flags := rfl
          rw [h4, hf1] at this; cases this
  refine ⟨s', o, hst, ⟨⟨hcov, by rw [hout.paused]; exact hg.notPaused,
    by rw [hout.cfg]; exact Nat.le_trans hg.sel hr1, by rw [hout.owner]; exact hg.owner⟩, hfl⟩, ?_⟩
  rcases hout.cases with ⟨_, h, _⟩ | ⟨_, _, _, h, _⟩
  · exact Or.inl h
  · exact Or.inr h

/-! ## C19: pausing between the calls of an interrupted operation loses nothing -/

theorem us_roundsFrom_mem {r : Nat} : ∀ {h : Hist}, RoundsFrom r h → ∀ p ∈ h, r ≤ p.1.round
  | [], _, _, hp => by cases hp
  | (e, c) :: rest, ⟨h1, h2⟩, p, hp => by
    rcases List.mem_cons.mp hp with rfl | hp
    · exact h1
    · exact Nat.le_trans h1 (us_roundsFrom_mem h2 p hp)

/-- everything a later resuming call depends on -/
structure us_Kept (s s' : State) : Prop where
  cursor : s'.cursor = s.cursor
  flags : s'.flags = s.flags
  sel : s'.cfg.sel = s.cfg.sel

/-- from a covered state with a saved operation, in the selection stage: ANY history (accepted or
    rejected calls, `pause` / `unpause` included) none of whose calls is the endpoint that resumes
    the saved operation leads to a covered state with the same cursor, the same loop data, the
    same completion flags and the same selection round -/
theorem us_frame_run (hash : List Nat → List Nat) {s : State} {r : Nat} (hs : be_Covered hash s r)
    (hop : s.op ≠ .none) (hfl : (s.flags.selected && s.flags.additional) = false)
    (hsel : s.cfg.sel ≤ r) (h : Hist) (hr : RoundsFrom r h) (hok : ∀ p ∈ h, be_HistOK p.1 p.2)
    (hres : ∀ p ∈ h, p.2.resumes s.op = false) :
    us_Kept s (run hash s h) ∧
    ∃ r', be_Covered hash (run hash s h) r' ∧ r ≤ r' ∧
      ∀ q : Hist, RoundsFrom r (h ++ q) → RoundsFrom r' q := by
  have hg := (be_family_all hash).good hs
  obtain ⟨hc1, _⟩ := (validPeriods_iff _).mp hg.valid
  have hround : ∀ p ∈ h, s.cfg.sel ≤ p.1.round :=
    fun p hp => Nat.le_trans hsel (us_roundsFrom_mem hr p hp)
  obtain ⟨h1, h2⟩ := cursor_frame_run hash h s hop hfl (by omega) hround hres
  obtain ⟨_, h3, _⟩ := be_frozen_run hash h s s r ⟨hg.valid, rfl, hsel, rfl⟩ hround
  obtain ⟨r', hl, hq⟩ := be_later_run (P := be_HistOK) hash h s r hr hok
  exact ⟨⟨h1, h2, h3⟩, r', (be_family_all hash).later hs hl, hl.round_le, hq⟩

theorem us_filLeft_of_cursor {s s' : State} (h : s'.cursor = s.cursor) : us_filLeft s' = us_filLeft s := by
  have h1 : s'.op = s.op := congrArg Cursor.op h
  have h2 : s'.lastTicketId = s.lastTicketId := congrArg Cursor.lastTicketId h
  unfold us_filLeft us_filCursor
  rw [h1, h2]

theorem us_selLeft_of_cursor {s s' : State} (h : s'.cursor = s.cursor) : us_selLeft s' = us_selLeft s := by
  have h1 : s'.op = s.op := congrArg Cursor.op h
  have h2 : s'.nrWinning = s.nrWinning := congrArg Cursor.nrWinning h
  unfold us_selLeft us_selCursor
  rw [h1, h2]

/-- **interrupted filter, then anything but `filter` (pauses included)**: as soon as the contract
    is un-paused again the next `filter` call is accepted and continues from the saved cursor with
    the progress made so far (`us_filLeft` unchanged) -/
theorem us_filter_resume_after (hash : List Nat → List Nat) {s : State} {r : Nat}
    (hs : be_Covered hash s r) {f rm : Nat} (hop : s.op = .filter f rm) (hsel : s.cfg.sel ≤ r)
    (h : Hist) (hr : RoundsFrom r h) (hok : ∀ p ∈ h, be_HistOK p.1 p.2)
    (hnf : ∀ p ∈ h, p.2 ≠ .filter) (hp : (run hash s h).paused = false)
    (e : Env) (hre : RoundsFrom r (h ++ [(e, .filter)])) (hpay : us_NoPay e) :
    us_Kept s (run hash s h) ∧ us_filLeft (run hash s h) = us_filLeft s ∧
    ∃ s' o, step hash (run hash s h) e .filter = .ok (s', o) ∧ be_Covered hash s' e.round ∧
      us_Outcome s' o e (fun s => s.flags.filtered) us_filLeft (run hash s h) := by
  obtain ⟨hm1, hm2, _⟩ := ((be_family_all hash).good hs).mid_filter hop
  obtain ⟨hk, r', hcov, hrr, hq⟩ := us_frame_run hash hs (by rw [hop]; exact nofun)
    (by rw [hm2]; rfl) hsel h hr hok
    (fun p hp => by
      rw [hop]
      have := hnf p hp
      cases hc : p.2 <;> first | rfl | exact absurd hc this)
  have hre' : r' ≤ e.round := (hq _ hre).1
  obtain ⟨_, _, hst⟩ := us_filter_never_stuck hash hcov (by rw [hk.flags]; exact hm1) hre'
    (by rw [hk.sel]; omega) hpay hp
  exact ⟨hk, us_filLeft_of_cursor hk.cursor, hst⟩

/-- the same for an interrupted `select` -/
theorem us_select_resume_after (hash : List Nat → List Nat) {s : State} {r : Nat}
    (hs : be_Covered hash s r) {rg : Rng} {pos : Nat} (hop : s.op = .select rg pos)
    (hf : s.flags.filtered = true) (hns : s.flags.selected = false) (hsel : s.cfg.sel ≤ r)
    (h : Hist) (hr : RoundsFrom r h) (hok : ∀ p ∈ h, be_HistOK p.1 p.2)
    (hnf : ∀ p ∈ h, p.2 ≠ .select) (hp : (run hash s h).paused = false)
    (e : Env) (hre : RoundsFrom r (h ++ [(e, .select)])) (hpay : us_NoPay e)
    (hcaller : e.caller = (run hash s h).owner ∨ e.callerIsContract = false) :
    us_Kept s (run hash s h) ∧ us_selLeft (run hash s h) = us_selLeft s ∧
    ∃ s' o, step hash (run hash s h) e .select = .ok (s', o) ∧ be_Covered hash s' e.round ∧
      us_Outcome s' o e (fun s => s.flags.selected) us_selLeft (run hash s h) := by
  obtain ⟨hk, r', hcov, hrr, hq⟩ := us_frame_run hash hs (by rw [hop]; exact nofun)
    (by rw [hns]; rfl) hsel h hr hok
    (fun p hp => by
      rw [hop]
      have := hnf p hp
      cases hc : p.2 <;> first | rfl | exact absurd hc this)
  have hre' : r' ≤ e.round := (hq _ hre).1
  obtain ⟨_, _, hst⟩ := us_select_never_stuck hash hcov (by rw [hk.flags]; exact hf)
    (by rw [hk.flags]; exact hns) hre' (by rw [hk.sel]; omega) hpay hp hcaller
  exact ⟨hk, us_selLeft_of_cursor hk.cursor, hst⟩

/-! ## the additional step of `Variant.nft`: `selectNft` is never stuck -/

/-- number of draws the NFT step still has to make -/
def us_nftLeft (s : State) : Nat := min s.payers.length (s.availNfts - s.nftWinners.length)

theorem us_nft_loop (hash : List Nat → List Nat) (total F : Nat) (y : NCore) (hi : NInv y)
    (hle : y.selected ≤ total) (hF : y.usersLeft + 2 ≤ F) (b : Option Nat) :
    (∃ y' b', runWhile (nftCoreBody hash total) F b y = .ok (y', b', .completed)) ∨
    (∃ y' b', runWhile (nftCoreBody hash total) F b y = .ok (y', b', .interrupted) ∧
        NInv y' ∧ y'.selected ≤ total ∧
        min y'.usersLeft (total - y'.selected) < min y.usersLeft (total - y.selected) ∧ b ≠ none) := by
  obtain ⟨yf, hrun⟩ := nftCore_completes hash total (min y.usersLeft (total - y.selected) + 1) y hi hle
    (Nat.le_refl _)
  have hN : min y.usersLeft (total - y.selected) + 1 ≤ F := by omega
  cases b with
  | none => exact Or.inl ⟨yf, none, runWhile_fuel_mono _ _ _ _ _ _ _ hrun (by decide) _ hN⟩
  | some k =>
    rcases runWhile_call_progress _ _ y yf hrun k F hN with ⟨b', h⟩ | ⟨y1, h1, _, _, _⟩
    · exact Or.inl ⟨yf, b', h⟩
    · obtain ⟨⟨h2, h3⟩, h4⟩ := nftCore_interrupted_progress hash total F _ _ y y1 h1 hi hle
      exact Or.inr ⟨y1, some 0, h1, h2, h3, h4, by simp⟩

theorem us_step_selectNft (hash : List Nat → List Nat) (s : State) (e : Env)
    (hv : s.variant = .nft) (h1 : e.egld = 0) (h2 : e.esdts = []) :
    step hash s e .selectNft =
      match selectNft hash (callTx s e e.budget) e with
      | .error err => .error err
      | .ok t => .ok (t.s, t.o) := by
  simp only [step, endpointMeta, exec, hv, creditPayments_nopay s e h1 h2, h1, h2, callTx]
  simp
  cases selectNft hash ⟨s, ⟨e.budget, e.seeds, e.script⟩, {}⟩ e <;> rfl

/-- `selectNft` in a state with the NFT-list invariants, base lottery complete, NFT step not -/
theorem us_nft_step (hash : List Nat → List Nat) {s : State} {e : Env} (hvar : s.variant = .nft)
    (hop : s.op = .none ∨ ∃ rg, s.op = .additional (.nft rg)) (hrdy : NftReady s)
    (hw : s.nftWinners.length ≤ s.availNfts)
    (hv : validPeriods s.cfg = true) (hs : s.flags.selected = true)
    (hna : s.flags.additional = false) (hsel : s.cfg.sel ≤ e.round)
    (h1 : e.egld = 0) (h2 : e.esdts = []) :
    ∃ s' o, step hash s e .selectNft = .ok (s', o) ∧ s'.flags.selected = true ∧
      us_Outcome s' o e (fun s => s.flags.additional) us_nftLeft s := by
  have hpre : NftPre s e := ⟨us_stage hv hsel (by rw [hna]; simp), hs, hna⟩
  obtain ⟨y, hy⟩ : ∃ y, nftCoreAt s e = some y := by
    unfold nftCoreAt nftRngOf
    rcases hop with h | ⟨rg, h⟩ <;> simp [callTx, h]
  obtain ⟨hi, _⟩ := nftCoreAt_inv s e y hy hrdy
  obtain ⟨r0, _, hy0⟩ := nftCoreAt_some s e none y hy
  have hyp : y.payers = s.payers ∧ y.winners = s.nftWinners := by
    rw [← hy0]; exact ⟨rfl, rfl⟩
  have hul : y.usersLeft = s.payers.length := by rw [hi.left, hyp.1]
  have hsl : y.selected = s.nftWinners.length := by rw [hi.sel, hyp.2]
  rw [us_step_selectNft hash s e hvar h1 h2, selectNft_callTx_eq hash s e e.budget y hpre hy]
  rcases us_nft_loop hash s.availNfts (s.payers.length + 2) y hi (by omega) (by omega) e.budget with
    ⟨y', b', hrun⟩ | ⟨y', b', hrun, hi', hle', hlt, hb⟩
  · rw [hrun]
    exact ⟨_, _, rfl, hs, Or.inl ⟨rfl, rfl, rfl⟩, rfl, rfl, rfl⟩
  · rw [hrun]
    refine ⟨_, _, rfl, hs, Or.inr ⟨rfl, hna, ?_, ?_, hb⟩, rfl, rfl, rfl⟩
    · show Op.additional _ ≠ Op.none
      exact nofun
    · show min y'.payers.length (s.availNfts - y'.winners.length) < us_nftLeft s
      unfold us_nftLeft
      rw [← hi'.left, ← hi'.sel, ← hul, ← hsl]
      exact hlt

theorem us_nft_never_stuck (hash : List Nat → List Nat) {s : State} {r : Nat} {e : Env}
    (hs : Reach hash .nft s r) (hsd : s.flags.selected = true) (hna : s.flags.additional = false)
    (hr : r ≤ e.round) (hsel : s.cfg.sel ≤ e.round) (hpay : us_NoPay e) :
    (s.op = .none ∨ ∃ rg, s.op = .additional (.nft rg)) ∧ us_nftLeft s ≤ s.availNfts ∧
    ∃ s' o, step hash s e .selectNft = .ok (s', o) ∧ Reach hash .nft s' e.round ∧
      s'.flags.selected = true ∧
      us_Outcome s' o e (fun s => s.flags.additional) us_nftLeft s := by
  obtain ⟨a0, ha⟩ := Reach_iff.mp hs
  have wf := nf_reach_WF ha
  obtain ⟨_, hop, _⟩ := nf_phase_mid wf.phase hsd hna
  have hop' : s.op = .none ∨ ∃ rg, s.op = .additional (.nft rg) := hop
  have hrdy : NftReady s := ⟨wf.side.nodupP, wf.side.disj⟩
  have hw : s.nftWinners.length ≤ s.availNfts := wf.side.winLe
  obtain ⟨s', o, hst, hsd', hout⟩ := us_nft_step hash wf.var hop' hrdy hw (be_validPeriods_reach hs)
    hsd hna hsel hpay.1 hpay.2
  refine ⟨hop', by unfold us_nftLeft; omega, s', o, hst,
    .call _ _ _ _ _ _ hs hr hpay.envOK (by trivial) hst, hsd', hout⟩

theorem us_nft_rejected_when_done (hash : List Nat → List Nat) (s : State) (e : Env)
    (h : s.flags.additional = true) : ∃ err, step hash s e .selectNft = .error err := by
  cases hst : step hash s e .selectNft with
  | error err => exact ⟨err, rfl⟩
  | ok x =>
    exfalso
    obtain ⟨m, t, _, _, _, hx, _, _⟩ := step_ok_inv hst
    have h3 := (selectNft_inv hash _ _ _ hx).1.notDone
    have h4 : (tx0 s e).s.flags = s.flags := rfl
    rw [h4, h] at h3
    cases h3

theorem us_nft_completes (hash : List Nat → List Nat) {s : State} {r : Nat}
    (hs : Reach hash .nft s r) (hsd : s.flags.selected = true) (hsel : s.cfg.sel ≤ r)
    (es : List Env) (hr : RoundsFrom r (us_hist .selectNft es)) (hpay : ∀ e ∈ es, us_NoPay e)
    (hlen : us_nftLeft s + 1 ≤ es.length) :
    (run hash s (us_hist .selectNft es)).flags.additional = true := by
  refine us_run_completes hash .selectNft
    (fun s1 r1 => Reach hash .nft s1 r1 ∧ s1.flags.selected = true ∧ s1.cfg.sel ≤ r1) us_NoPay
    (fun s => s.flags.additional) us_nftLeft ?_
    (fun s e h => us_nft_rejected_when_done hash s e h) es s r ⟨hs, hsd, hsel⟩ hr hpay hlen
  intro s1 r1 e hg hna hr1 hq
  obtain ⟨hre, hsd1, hsel1⟩ := hg
  obtain ⟨_, _, s', o, hst, hre', hsd', hout⟩ := us_nft_never_stuck hash hre hsd1 hna hr1
    (Nat.le_trans hsel1 hr1) hq
  refine ⟨s', o, hst, ⟨hre', hsd', by rw [hout.cfg]; exact Nat.le_trans hsel1 hr1⟩, ?_⟩
  rcases hout.cases with ⟨_, h, _⟩ | ⟨_, _, _, h, _⟩
  · exact Or.inl h
  · exact Or.inr h

/-! ## the additional step of `Variant.guarV2`: `distribute` is always accepted -/

theorem us_distFinish_completed (e : Env) (t : Tx) (g : GuarOp) :
    ∃ t', distFinish e (t, g, .completed) = .ok t' ∧ t'.o.ret = [0] ∧
      t'.s.flags.additional = true ∧ t'.s.paused = t.s.paused ∧ t'.s.cfg = t.s.cfg := by
  unfold distFinish
  simp only
  split
  · exact ⟨_, rfl, rfl, rfl, rfl, rfl⟩
  · exact ⟨_, rfl, rfl, rfl, rfl, rfl⟩

theorem us_distFinish_interrupted (e : Env) (t : Tx) (g : GuarOp) :
    ∃ t', distFinish e (t, g, .interrupted) = .ok t' ∧ t'.o.ret = [1] ∧
      t'.s.flags = t.s.flags ∧ t'.s.paused = t.s.paused ∧ t'.s.cfg = t.s.cfg :=
  ⟨_, rfl, rfl, rfl, rfl, rfl⟩

/-- both loops of the v2 distribution step from a state satisfying the distribution invariant:
    never a failure, never out of fuel, whatever the budget -/
theorem us_guarSub_v2_total (hash : List Nat → List Nat) {s : State} {off : Nat}
    (hv2 : s.variant.isV2 = true) (hR : RangesOK s.core) (T : Tx) (hT : T.s = s) (g : GuarOp)
    (hgo : g.offset = off) (hG0 : G1 s.gcore off (guarX s g)) :
    ∃ T1 g1 st1, guaranteedSubstep hash T g = .ok (T1, g1, st1) ∧
      (st1 = .completed ∨ (st1 = .interrupted ∧ T.c.budget ≠ none)) ∧
      T1.s.flags = s.flags ∧ T1.s.paused = s.paused ∧ T1.s.cfg = s.cfg := by
  obtain ⟨Ts, Tc, To⟩ := T
  simp only at hT
  subst hT
  rw [guaranteedSubstep_eq]
  obtain ⟨x, b1, st, hrun, hst⟩ := guarRun_total Ts g Tc.budget
  have hloop1 := rb_runWhile_inv (G1 Ts.gcore off) (guarBody Ts)
    (fun y y' hb hp => v2_guarBody_G1 hv2 hR hb hp) _ _ _ _ _ _ hrun hG0
  have hrun' : runWhile (guarBody (Tx.mk Ts Tc To).s) ((Tx.mk Ts Tc To).s.whitelist.length + 2)
      (Tx.mk Ts Tc To).c.budget (guarX (Tx.mk Ts Tc To).s g) = .ok (x, b1, st) := hrun
  rw [hrun']
  cases st with
  | outOfFuel => exact absurd rfl hst
  | interrupted =>
    refine ⟨_, _, _, rfl, Or.inr ⟨rfl, ?_⟩, rfl, rfl, rfl⟩
    obtain ⟨k, hk⟩ := runWhile_interrupted_budget hrun
    show Tc.budget ≠ none
    rw [hk]; simp
  | completed =>
    obtain ⟨y, hGy, hby⟩ := hloop1.2 rfl
    obtain ⟨hy0, hxy⟩ := v2_guarBody_false hby
    subst hxy
    have hd := hGy.d
    have hLI : LInv Ts.lastTicketId Ts.nrWinning
        (LCore.lift (Tx.mk Ts Tc To) (leftZ (guarS1 Ts x) (guarG1 g x) (Tx.mk Ts Tc To).dctx)) := by
      refine ⟨?_, hd.count⟩
      show PosInv Ts.lastTicketId x.status Ts.posToId (Ts.nrWinning + g.offset)
      rw [hgo]; exact hd.pinv
    obtain ⟨xf, _, hcall⟩ := leftover_v2_call hash Ts.nrWinning Ts.lastTicketId _ hLI b1
    rw [runWhile_map (LCore.lift (Tx.mk Ts Tc To)) _ _
      (leftoverBody_lift hash true Ts.nrWinning Ts.lastTicketId (Tx.mk Ts Tc To))] at hcall
    have hfuel : leftFuel Ts = Ts.lastTicketId + 2 := by unfold leftFuel; rw [hv2]; rfl
    show ∃ T1 g1 st1, guarSubOutcome2 (Tx.mk Ts Tc To) (guarS1 Ts x)
        (runWhile (leftCoreBody hash Ts.variant.isV2 Ts.nrWinning Ts.lastTicketId) (leftFuel Ts) b1
          (leftZ (guarS1 Ts x) (guarG1 g x) (Tx.mk Ts Tc To).dctx)) = .ok (T1, g1, st1) ∧ _
    rw [hfuel, hv2]
    cases hr2 : runWhile (leftCoreBody hash true Ts.nrWinning Ts.lastTicketId) (Ts.lastTicketId + 2) b1
        (leftZ (guarS1 Ts x) (guarG1 g x) (Tx.mk Ts Tc To).dctx) with
    | error err =>
      rw [hr2] at hcall
      simp [Except.map] at hcall
    | ok q =>
      obtain ⟨z, b2, st2⟩ := q
      rw [hr2] at hcall
      cases st2 with
      | outOfFuel => simp [Except.map] at hcall
      | completed => exact ⟨_, _, _, rfl, Or.inl rfl, rfl, rfl, rfl⟩
      | interrupted =>
        refine ⟨_, _, _, rfl, Or.inr ⟨rfl, ?_⟩, rfl, rfl, rfl⟩
        show Tc.budget ≠ none
        intro hnone
        rw [hnone] at hrun
        have hb1 : b1 = none := (runWhile_none_budget _ _ _ _ _ _ hrun).1
        rw [hb1] at hr2
        exact (runWhile_none_budget _ _ _ _ _ _ hr2).2 rfl

theorem us_step_distribute_v2 (hash : List Nat → List Nat) (s : State) (e : Env)
    (hv : s.variant = .guarV2) (h1 : e.egld = 0) (h2 : e.esdts = []) :
    step hash s e .distribute =
      match distribute hash (callTx s e e.budget) e with
      | .error err => .error err
      | .ok t => .ok (t.s, t.o) := by
  simp only [step, endpointMeta, exec, hv, creditPayments_nopay s e h1 h2, h1, h2, callTx]
  simp [Variant.hasGuaranteed, Variant.v1Alloc, Variant.isV2]
  cases distribute hash ⟨s, ⟨e.budget, e.seeds, e.script⟩, {}⟩ e <;> rfl

/-- **`distribute` (guarV2) cannot be left stuck**: in every reachable state with the base lottery
    complete and the distribution not, un-paused, in the selection stage, a call by the owner or a
    non-contract account is accepted whatever is saved (only `.none` or a `.guar` cursor can be)
    and whatever the budget; with an unlimited budget it completes the step -/
theorem us_dist_v2_never_stuck (hash : List Nat → List Nat) {s : State} {r : Nat} {e : Env}
    (hs : Reach hash .guarV2 s r) (hsd : s.flags.selected = true)
    (hna : s.flags.additional = false) (hr : r ≤ e.round) (hsel : s.cfg.sel ≤ e.round)
    (hpay : us_NoPay e) (hp : s.paused = false)
    (hcaller : e.caller = s.owner ∨ e.callerIsContract = false) :
    (s.op = .none ∨ ∃ g, s.op = .additional (.guar g)) ∧
    ∃ s' o, step hash s e .distribute = .ok (s', o) ∧ Reach hash .guarV2 s' e.round ∧
      s'.paused = false ∧ s'.cfg = s.cfg ∧
      ((o.ret = [0] ∧ s'.flags.additional = true) ∨
       (o.ret = [1] ∧ s'.flags.additional = false ∧ e.budget ≠ none)) := by
  obtain ⟨a0, ha⟩ := Reach_iff.mp hs
  have h := reach_WF2 ha
  have hE : PhE (a0.nrWinning - s.totalGuaranteed) s.gcore := v2_phase_E h.phase hsd hna
  have hv2 : s.variant.isV2 = true := (v2_flags h.var).2.2.1
  have hRanges : RangesOK s.core := v2_alloc_ranges hE.alloc
  obtain ⟨lo, off, add, hD, hop⟩ := hE.dist
  have hpre : DistPre s e := by
    refine ⟨fun _ => hp, us_stage (be_validPeriods_reach hs) hsel (by rw [hna]; simp), fun _ => ?_,
      hsd, hna⟩
    rcases hcaller with hc | hc
    · simp [hc]
    · simp [hc]
  obtain ⟨g, hg, hg1, hg2, hg3⟩ : ∃ g, guarOpOf (callTx s e e.budget) = some g ∧ g.leftover = lo ∧
      g.offset = off ∧ g.additional = add := by
    rcases hop with ⟨hop, rfl, rfl, rfl⟩ | ⟨rng, hop⟩
    · have hop' : s.op = .none := hop
      exact ⟨{ rng := (callTx s e e.budget).freshRng.1 }, by simp only [guarOpOf, callTx, hop'],
        rfl, rfl, rfl⟩
    · have hop' : s.op = .additional (.guar ⟨rng, lo, off, add⟩) := hop
      exact ⟨⟨rng, lo, off, add⟩, by simp only [guarOpOf, callTx, hop'], rfl, rfl, rfl⟩
  have hG0 : G1 s.gcore off (guarX s g) := by
    refine ⟨rfl, ?_⟩
    show DInv (gcoreWS s.gcore s.whitelist s.status) g.leftover off g.additional
    rw [hg1, hg3]; exact hD
  have hopS : s.op = .none ∨ ∃ g, s.op = .additional (.guar g) := by
    rcases hop with ⟨hop, _⟩ | ⟨rng, hop⟩
    · exact Or.inl hop
    · exact Or.inr ⟨_, hop⟩
  refine ⟨hopS, ?_⟩
  obtain ⟨T1, g1, st1, hsub, hst1, hfl, hpa, hcf⟩ := us_guarSub_v2_total hash hv2 hRanges
    (selTxOf (callTx s e e.budget)) (selTxOf_s _) g hg2 hG0
  have hbud : (selTxOf (callTx s e e.budget)).c.budget = e.budget := selTxOf_budget _
  have hstep : step hash s e .distribute =
      match (distFinish e (T1, g1, st1)) with
      | .error err => .error err
      | .ok t => .ok (t.s, t.o) := by
    rw [us_step_distribute_v2 hash s e h.var hpay.1 hpay.2,
      distribute_eq hash (callTx s e e.budget) e g hpre hg, hsub]
    rfl
  have hcall : ∀ s' o, step hash s e .distribute = .ok (s', o) → Reach hash .guarV2 s' e.round :=
    fun s' o hst => .call _ _ _ _ _ _ hs hr hpay.envOK (by trivial) hst
  rcases hst1 with rfl | ⟨rfl, hb⟩
  · obtain ⟨t', ht', hr0, hadd, hpa', hcf'⟩ := us_distFinish_completed e T1 g1
    rw [ht'] at hstep
    exact ⟨t'.s, t'.o, hstep, hcall _ _ hstep, by rw [hpa', hpa]; exact hp, by rw [hcf', hcf],
      Or.inl ⟨hr0, hadd⟩⟩
  · obtain ⟨t', ht', hr1, hfl', hpa', hcf'⟩ := us_distFinish_interrupted e T1 g1
    rw [ht'] at hstep
    exact ⟨t'.s, t'.o, hstep, hcall _ _ hstep, by rw [hpa', hpa]; exact hp, by rw [hcf', hcf],
      Or.inr ⟨hr1, by rw [hfl', hfl]; exact hna, by rw [← hbud]; exact hb⟩⟩

end LP
