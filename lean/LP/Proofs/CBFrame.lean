import LP.Proofs.Claim
import LP.Proofs.Loop
import LP.Proofs.Blacklist
/-
  LP.Proofs.CBFrame — the same pass as LP.Proofs.ClaimedFrame for the pair (`confirmed`, `blacklist`):
  every helper keeps both maps, except `confirmTickets` / `settle` (write `confirmed`),
  `blacklistMany` (writes both) and `unblacklistMany` (writes `blacklist`), whose exact effect is
  taken from LP.Proofs.Claim / LP.Proofs.Events.
  (generated from the `_claimed` lemmas of ClaimedFrame.lean; the proofs are the same scripts)
-/
namespace LP

/-- the two maps of the blacklist invariant -/
structure CB where
  confirmed : Nat → Nat
  blacklist : Nat → Bool

@[reducible] def State.cb (s : State) : CB := ⟨s.confirmed, s.blacklist⟩

/-! ### generic loop rule and loop bodies (copies of the ClaimedFrame lemmas, so that this file
  can be imported together with either LP.Proofs.Frame or LP.Proofs.ClaimedFrame) -/

theorem runWhile_keeps_cb {σ : Type} (P : σ → Prop) (body : σ → Res (σ × Bool))
    (hb : ∀ x x' c, body x = .ok (x', c) → P x → P x') :
    ∀ (f : Nat) (b : Option Nat) (x x' : σ) (b' : Option Nat) (st : LoopStatus),
      runWhile body f b x = .ok (x', b', st) → P x → P x' := by
  intro f
  induction f with
  | zero =>
    intro b x x' b' st h hp
    rw [runWhile_zero] at h
    cases h; exact hp
  | succ f ih =>
    intro b x x' b' st h hp
    cases hbx : body x with
    | error err => rw [runWhile_err hbx] at h; cases h
    | ok r =>
      obtain ⟨x1, c⟩ := r
      have hp1 := hb x x1 c hbx hp
      cases c
      · rw [runWhile_stop hbx] at h
        cases h; exact hp1
      · cases b with
        | none => rw [runWhile_cont_none hbx] at h; exact ih _ _ _ _ _ h hp1
        | some k =>
          cases k with
          | zero => rw [runWhile_cont_zero hbx] at h; cases h; exact hp1
          | succ k => rw [runWhile_cont_succ hbx] at h; exact ih _ _ _ _ _ h hp1

theorem leftoverBody_tx_s_cb (hash : List Nat → List Nat) (v2 : Bool) (nrOrig last : Nat) (s0 : State)
    (x x' : LSt) (c : Bool) (h : leftoverBody hash v2 nrOrig last x = .ok (x', c))
    (hx : x.tx.s = s0) : x'.tx.s = s0 := by
  unfold leftoverBody at h
  simp only at h
  have hd : (x.tx.draw hash x.rng).2.2.s = x.tx.s := (Events.DrawFrame.draw hash x.tx x.rng).1
  repeat' (first | split at h | simp only at h)
  all_goals first
    | (cases h; done)
    | (simp only [Except.ok.injEq, Prod.mk.injEq] at h
       obtain ⟨rfl, _⟩ := h
       first
         | exact hx
         | (split <;> exact hx)
         | (rw [← hx]; exact hd)
         | (simp only []; split <;> (first | exact hx | (rw [← hx]; exact hd))))

theorem nftBody_tx_s_cb (hash : List Nat → List Nat) (total : Nat) (s0 : State)
    (x x' : NSt) (c : Bool) (h : nftBody hash total x = .ok (x', c))
    (hx : x.tx.s = s0) : x'.tx.s = s0 := by
  unfold nftBody at h
  have hd : (x.tx.draw hash x.rng).2.2.s = x.tx.s := (Events.DrawFrame.draw hash x.tx x.rng).1
  split at h
  · cases h; exact hx
  · simp only at h
    split at h
    · cases h
    · cases h
      rw [← hx]; exact hd

theorem cb_confirmed {s s' : State} (h : s'.cb = s.cb) : s'.confirmed = s.confirmed :=
  congrArg CB.confirmed h
theorem cb_blacklist {s s' : State} (h : s'.cb = s.cb) : s'.blacklist = s.blacklist :=
  congrArg CB.blacklist h

/-! ### launchpad-common helpers -/

theorem tryCreateTickets_cb {s s' : State} {a n : Nat} (h : tryCreateTickets s a n = .ok s') :
    s'.cb = s.cb := by
  unfold tryCreateTickets at h
  simp only [bind_ok_iff, pure_ok_iff, req_ok_iff, exists_const] at h
  obtain ⟨_, _, rfl⟩ := h
  rfl

theorem createMany_cb : ∀ (l : List (Nat × Nat)) {s s' : State}, createMany l s = .ok s' →
    s'.cb = s.cb
  | [], s, s', h => by simp only [createMany, Except.ok.injEq] at h; rw [h]
  | (a, n) :: rest, s, s', h => by
    unfold createMany at h
    cases h1 : tryCreateTickets s a n with
    | error e => simp [h1] at h
    | ok s1 =>
      simp only [h1] at h
      rw [createMany_cb rest h, tryCreateTickets_cb h1]

theorem addV1Many_cb : ∀ (l : List (Nat × Nat × Nat × Bool)) {acc acc' : State × Nat × Nat},
    addV1Many l acc = .ok acc' → acc'.1.cb = acc.1.cb
  | [], acc, acc', h => by simp only [addV1Many, Except.ok.injEq] at h; rw [h]
  | (buyer, staking, energy, migrated) :: rest, (s, tw, tg), acc', h => by
    unfold addV1Many at h
    cases h1 : tryCreateTickets s buyer (staking + energy) with
    | error e => simp [h1] at h
    | ok s1 =>
      simp only [h1] at h
      repeat' (split at h)
      all_goals first
        | (cases h; done)
        | (rw [addV1Many_cb rest h]; show s1.cb = s.cb
           exact tryCreateTickets_cb h1)

theorem addTicketsV1_cb {s s' : State} {e : Env} {l : List (Nat × Nat × Nat × Bool)}
    (h : addTicketsV1 s e l = .ok s') : s'.cb = s.cb := by
  unfold addTicketsV1 at h
  simp only [bind_ok_iff, pure_ok_iff, Prod.exists] at h
  obtain ⟨_, _, s1, tw, tg, h1, rfl⟩ := h
  exact addV1Many_cb l h1

theorem addV2Many_cb (e : Env) : ∀ (l : List (Nat × Nat × List (Nat × Nat)))
    {acc acc' : State × Nat × Nat × Nat × Nat × Nat},
    addV2Many e l acc = .ok acc' → acc'.1.cb = acc.1.cb
  | [], acc, acc', h => by simp only [addV2Many, Except.ok.injEq] at h; rw [h]
  | (buyer, n, infos) :: rest, (s, tw, tg, uc, ta, ga), acc', h => by
    unfold addV2Many at h
    split at h
    · exact addV2Many_cb e rest h
    · split at h
      · cases h
      · split at h
        · cases h
        · split at h
          · cases h
          · cases h1 : tryCreateTickets s buyer n with
            | error err => simp [h1] at h
            | ok s1 =>
              simp only [h1] at h
              split at h
              · cases h
              · split at h
                · split at h
                  · cases h
                  · rw [addV2Many_cb e rest h]
                    show s1.cb = s.cb
                    exact tryCreateTickets_cb h1
                · rw [addV2Many_cb e rest h]
                  show s1.cb = s.cb
                  exact tryCreateTickets_cb h1

theorem addTicketsV2_cb {t t' : Tx} {e : Env} {l : List (Nat × Nat × List (Nat × Nat))}
    (h : addTicketsV2 t e l = .ok t') : t'.s.cb = t.s.cb := by
  unfold addTicketsV2 at h
  simp only [bind_ok_iff, pure_ok_iff, Prod.exists] at h
  obtain ⟨_, _, s1, tw, tg, uc, ta, ga, h1, rfl⟩ := h
  exact addV2Many_cb e l h1

theorem depositLaunchpadTokens_cb {s s' : State} {e : Env} {tw : Nat}
    (h : depositLaunchpadTokens s e tw = .ok s') : s'.cb = s.cb := by
  unfold depositLaunchpadTokens at h
  simp only [bind_ok_iff, pure_ok_iff, req_ok_iff, exists_const, Prod.exists] at h
  obtain ⟨_, _, _, _, _, _, rfl⟩ := h
  rfl

theorem trySetTicketPrice_cb {s s' : State} {tok : Token} {amount : Nat}
    (h : trySetTicketPrice s tok amount = .ok s') : s'.cb = s.cb := by
  unfold trySetTicketPrice at h
  simp only [bind_ok_iff, pure_ok_iff, req_ok_iff, exists_const] at h
  obtain ⟨_, _, _, rfl⟩ := h
  rfl

theorem filterTickets_cb {t t' : Tx} {e : Env}
    (h : filterTickets t e = .ok t') : t'.s.cb = t.s.cb := by
  unfold filterTickets at h
  simp only [bind_ok_iff, req_ok_iff, requireStage, exists_const] at h
  obtain ⟨_, _, _, h⟩ := h
  split at h
  · simp only [bind_ok_iff, pure_ok_iff, Prod.exists, Prod.mk.injEq] at h
    obtain ⟨first, removed, _, f, b, st, _, h⟩ := h
    cases st with
    | completed =>
      simp only [bind_ok_iff, pure_ok_iff] at h
      obtain ⟨_, _, rfl⟩ := h; rfl
    | interrupted => simp only [pure_ok_iff] at h; subst h; rfl
    | outOfFuel => cases h
  · simp only [bind_ok_iff, pure_ok_iff, Prod.exists, Prod.mk.injEq] at h
    obtain ⟨first, removed, _, f, b, st, _, h⟩ := h
    cases st with
    | completed =>
      simp only [bind_ok_iff, pure_ok_iff] at h
      obtain ⟨_, _, rfl⟩ := h; rfl
    | interrupted => simp only [pure_ok_iff] at h; subst h; rfl
    | outOfFuel => cases h
  · simp [bind, Except.bind] at h

theorem selectWinners_cb {hash : List Nat → List Nat} {t t' : Tx} {e : Env}
    (h : selectWinners hash t e = .ok t') : t'.s.cb = t.s.cb := by
  unfold selectWinners at h
  simp only [bind_ok_iff, req_ok_iff, requireStage, ownerOrUser, exists_const] at h
  obtain ⟨_, _, _, _, _, h⟩ := h
  split at h
  · simp only [bind_ok_iff, pure_ok_iff, Prod.exists, Prod.mk.injEq] at h
    obtain ⟨rng, pos, t0, _, x, b, st, _, h⟩ := h
    cases st with
    | completed => simp only [pure_ok_iff] at h; subst h; rfl
    | interrupted => simp only [pure_ok_iff] at h; subst h; rfl
    | outOfFuel => cases h
  · simp only [bind_ok_iff, pure_ok_iff, Prod.exists, Prod.mk.injEq] at h
    obtain ⟨rng, pos, t0, _, x, b, st, _, h⟩ := h
    cases st with
    | completed => simp only [pure_ok_iff] at h; subst h; rfl
    | interrupted => simp only [pure_ok_iff] at h; subst h; rfl
    | outOfFuel => cases h
  · simp [bind, Except.bind] at h

/-! ### blacklist -/

theorem clearV1Many_cb : ∀ (l : List Nat) {acc acc' : State × Nat × Nat},
    clearV1Many l acc = .ok acc' → acc'.1.cb = acc.1.cb
  | [], acc, acc', h => by simp only [clearV1Many, Except.ok.injEq] at h; rw [h]
  | u :: rest, (s, removed, tg), acc', h => by
    unfold clearV1Many at h
    repeat' (first | split at h | simp only at h)
    all_goals first
      | (cases h; done)
      | (rw [clearV1Many_cb rest h])

theorem clearGuaranteedV1_cb {s s' : State} {l : List Nat}
    (h : clearGuaranteedV1 s l = .ok s') : s'.cb = s.cb := by
  unfold clearGuaranteedV1 at h
  simp only [bind_ok_iff, pure_ok_iff, Prod.exists] at h
  obtain ⟨s1, a, b, h1, rfl⟩ := h
  exact clearV1Many_cb l h1

theorem clearV2Many_cb : ∀ (l : List Nat) {acc acc' : State × Nat × Nat},
    clearV2Many l acc = .ok acc' → acc'.1.cb = acc.1.cb
  | [], acc, acc', h => by simp only [clearV2Many, Except.ok.injEq] at h; rw [h]
  | u :: rest, (s, nw, tg), acc', h => by
    unfold clearV2Many at h
    repeat' (first | split at h | simp only at h)
    all_goals first
      | (cases h; done)
      | (rw [clearV2Many_cb rest h])

theorem clearGuaranteedV2_cb {s s' : State} {l : List Nat}
    (h : clearGuaranteedV2 s l = .ok s') : s'.cb = s.cb := by
  unfold clearGuaranteedV2 at h
  simp only [bind_ok_iff, pure_ok_iff, Prod.exists] at h
  obtain ⟨s1, a, b, h1, rfl⟩ := h
  exact clearV2Many_cb l h1

theorem restoreV1Many_cb : ∀ (l : List Nat) {acc acc' : State × Nat × Nat},
    restoreV1Many l acc = .ok acc' → acc'.1.cb = acc.1.cb
  | [], acc, acc', h => by simp only [restoreV1Many, Except.ok.injEq] at h; rw [h]
  | u :: rest, (s, nw, tg), acc', h => by
    unfold restoreV1Many at h
    repeat' (first | split at h | simp only at h)
    all_goals first
      | (cases h; done)
      | (rw [restoreV1Many_cb rest h])

theorem restoreGuaranteedV1_cb {s s' : State} {l : List Nat}
    (h : restoreGuaranteedV1 s l = .ok s') : s'.cb = s.cb := by
  unfold restoreGuaranteedV1 at h
  simp only [bind_ok_iff, pure_ok_iff, Prod.exists] at h
  obtain ⟨s1, a, b, h1, rfl⟩ := h
  exact restoreV1Many_cb l h1

theorem restoreV2Many_cb : ∀ (l : List Nat) {acc acc' : State × Nat × Nat},
    restoreV2Many l acc = .ok acc' → acc'.1.cb = acc.1.cb
  | [], acc, acc', h => by simp only [restoreV2Many, Except.ok.injEq] at h; rw [h]
  | u :: rest, (s, nw, tg), acc', h => by
    unfold restoreV2Many at h
    repeat' (first | split at h | simp only at h)
    all_goals first
      | (cases h; done)
      | (rw [restoreV2Many_cb rest h])

theorem restoreGuaranteedV2_cb {s s' : State} {l : List Nat}
    (h : restoreGuaranteedV2 s l = .ok s') : s'.cb = s.cb := by
  unfold restoreGuaranteedV2 at h
  simp only [bind_ok_iff, pure_ok_iff, Prod.exists] at h
  obtain ⟨s1, a, b, h1, rfl⟩ := h
  exact restoreV2Many_cb l h1

theorem refundNftMany_cb : ∀ (l : List Nat) {t t' : Tx},
    refundNftMany l t = .ok t' → t'.s.cb = t.s.cb
  | [], t, t', h => by simp only [refundNftMany, Except.ok.injEq] at h; rw [h]
  | u :: rest, t, t', h => by
    unfold refundNftMany at h
    simp only at h
    split at h
    · split at h
      · cases h
      · rename_i t1 h1
        rw [refundNftMany_cb rest h]
        rw [send_ok_iff] at h1
        rw [h1.2]; rfl
    · exact refundNftMany_cb rest h

/-! ### vesting -/

theorem setSchedule1_cb {s s' : State} {e : Env} {a b c d f : Nat}
    (h : setSchedule1 s e a b c d f = .ok s') : s'.cb = s.cb := by
  unfold setSchedule1 at h
  simp only [bind_ok_iff, pure_ok_iff, req_ok_iff, exists_const] at h
  obtain ⟨_, _, _, _, rfl⟩ := h
  rfl

theorem setSchedule2_cb {t t' : Tx} {e : Env} {ms : List (Nat × Nat)}
    (h : setSchedule2 t e ms = .ok t') : t'.s.cb = t.s.cb := by
  unfold setSchedule2 at h
  simp only [bind_ok_iff, pure_ok_iff, req_ok_iff, requireStage, exists_const] at h
  obtain ⟨_, _, _, rfl⟩ := h
  rfl

/-! ### generic loop rule -/

/-! ### owner withdrawal -/

theorem claimPaymentOwn_cb {t t' : Tx} {e : Env}
    (h : claimPaymentOwn t e = .ok t') : t'.s.cb = t.s.cb := by
  unfold claimPaymentOwn at h
  simp only [bind_ok_iff, req_ok_iff, requireStage, exists_const] at h
  obtain ⟨_, h⟩ := h
  split at h
  · simp only [bind_ok_iff, send_ok_iff] at h
    obtain ⟨t1, ⟨_, rfl⟩, h⟩ := h
    split at h
    · simp only [pure_ok_iff] at h; subst h; rfl
    · split at h
      · simp only [pure_ok_iff] at h; subst h; rfl
      · rw [send_ok_iff] at h; rw [h.2]; rfl
  · simp only [bind_ok_iff, pure_ok_iff] at h
    obtain ⟨a, rfl, h⟩ := h
    split at h
    · simp only [pure_ok_iff] at h; subst h; rfl
    · split at h
      · simp only [pure_ok_iff] at h; subst h; rfl
      · rw [send_ok_iff] at h; rw [h.2]; rfl

theorem claimPaymentCommon_cb {t t' : Tx} {e : Env}
    (h : claimPaymentCommon t e = .ok t') : t'.s.cb = t.s.cb := by
  unfold claimPaymentCommon at h
  simp only [bind_ok_iff, req_ok_iff, requireStage, exists_const] at h
  obtain ⟨_, h⟩ := h
  split at h
  · simp only [bind_ok_iff, send_ok_iff] at h
    obtain ⟨t1, ⟨_, rfl⟩, x, _, h⟩ := h
    split at h
    · rw [send_ok_iff] at h; rw [h.2]; rfl
    · simp only [pure_ok_iff] at h; subst h; rfl
  · simp only [bind_ok_iff, pure_ok_iff] at h
    obtain ⟨a, rfl, x, _, h⟩ := h
    split at h
    · rw [send_ok_iff] at h; rw [h.2]; rfl
    · simp only [pure_ok_iff] at h; subst h; rfl

theorem claimNftPayment_cb {t t' : Tx} {e : Env}
    (h : claimNftPayment t e = .ok t') : t'.s.cb = t.s.cb := by
  unfold claimNftPayment at h
  simp only [bind_ok_iff, req_ok_iff, requireStage, exists_const] at h
  obtain ⟨_, h⟩ := h
  split at h
  · simp only [bind_ok_iff, pure_ok_iff, send_ok_iff] at h
    obtain ⟨t1, ⟨_, rfl⟩, rfl⟩ := h
    rfl
  · simp only [pure_ok_iff] at h; subst h; rfl

/-! ### token delivery -/

theorem sendLocked_cb {t t' : Tx} {e : Env} {dest amount : Nat}
    (h : t.sendLocked e dest amount = .ok t') : t'.s.cb = t.s.cb := by
  rw [sendLocked_eq_with] at h
  unfold sendLockedWith at h
  split at h
  · simp only [bind_ok_iff, pure_ok_iff, send_ok_iff] at h
    obtain ⟨t1, ⟨_, rfl⟩, t2, rfl, h⟩ := h
    split at h
    · rw [send_ok_iff] at h; rw [h.2]; rfl
    · simp only [pure_ok_iff] at h; subst h; rfl
  · simp only [bind_ok_iff, pure_ok_iff] at h
    obtain ⟨t2, rfl, h⟩ := h
    split at h
    · rw [send_ok_iff] at h; rw [h.2]; rfl
    · simp only [pure_ok_iff] at h; subst h; rfl

theorem sendLaunchpadTokens_cb {t t' : Tx} {e : Env} {addr n : Nat}
    (h : t.sendLaunchpadTokens e addr n = .ok t') : t'.s.cb = t.s.cb := by
  unfold Tx.sendLaunchpadTokens at h
  split at h
  · cases h; rfl
  · simp only at h
    split at h
    · exact sendLocked_cb h
    · rw [send_ok_iff] at h
      rw [h.2]; rfl

/-! ### claims -/

/-! ### distribution step and NFT draw -/

theorem nftSubstep_cb {hash : List Nat → List Nat} {t t' : Tx} {rng rng' : Rng} {st : LoopStatus}
    (h : nftSubstep hash t rng = .ok (t', rng', st)) : t'.s.cb = t.s.cb := by
  unfold nftSubstep at h
  simp only [bind_ok_iff, Prod.exists] at h
  obtain ⟨x, b, st0, hrun, hrest⟩ := h
  have hx : x.tx.s = t.s :=
    runWhile_keeps_cb (fun y : NSt => y.tx.s = t.s) _
      (fun y y' c hb hy => nftBody_tx_s_cb hash _ t.s y y' c hb hy) _ _ _ _ _ _ hrun rfl
  cases st0 with
  | outOfFuel => cases hrest
  | interrupted =>
    simp only [pure_ok_iff, Prod.mk.injEq] at hrest
    obtain ⟨rfl, _, _⟩ := hrest
    show x.tx.s.cb = _
    rw [hx]
  | completed =>
    simp only [pure_ok_iff, Prod.mk.injEq] at hrest
    obtain ⟨rfl, _, _⟩ := hrest
    show x.tx.s.cb = _
    rw [hx]

theorem selectNft_cb {hash : List Nat → List Nat} {t t' : Tx} {e : Env}
    (h : selectNft hash t e = .ok t') : t'.s.cb = t.s.cb := by
  unfold selectNft at h
  simp only [bind_ok_iff, req_ok_iff, requireStage, exists_const] at h
  obtain ⟨_, _, _, h⟩ := h
  split at h
  case h_3 => simp [bind, Except.bind] at h
  case h_4 => simp [bind, Except.bind] at h
  all_goals
    simp only [bind_ok_iff, pure_ok_iff, Prod.exists, Prod.mk.injEq] at h
    obtain ⟨rng, t0, ⟨_, ht0⟩, t1, rng', st, hsub, hfin⟩ := h
    have e0 : t0.s.cb = t.s.cb := by
      first
        | (rw [← ht0]; exact congrArg State.cb (Events.DrawFrame.freshRng t).1)
        | rw [← ht0]
    have e1 := nftSubstep_cb hsub
    cases st <;>
      (simp only [pure_ok_iff] at hfin; subst hfin; show t1.s.cb = _; rw [e1, e0])

theorem guaranteedSubstep_cb {hash : List Nat → List Nat} {t t' : Tx} {g g' : GuarOp}
    {st : LoopStatus} (h : guaranteedSubstep hash t g = .ok (t', g', st)) :
    t'.s.cb = t.s.cb := by
  unfold guaranteedSubstep at h
  simp only [bind_ok_iff, Prod.exists] at h
  obtain ⟨x, b, st0, _, hrest⟩ := h
  cases st0 with
  | outOfFuel => cases hrest
  | interrupted =>
    simp only [pure_ok_iff, Prod.mk.injEq] at hrest
    obtain ⟨rfl, _, _⟩ := hrest
    rfl
  | completed =>
    simp only [bind_ok_iff, Prod.exists] at hrest
    obtain ⟨y, b2, st1, hrun, hrest⟩ := hrest
    have hy := runWhile_keeps_cb (fun z : LSt => z.tx.s.cb = t.s.cb) _
      (fun z z' c hb hz => by
        have := leftoverBody_tx_s_cb hash _ _ _ z.tx.s z z' c hb rfl
        show z'.tx.s.cb = _
        rw [this]; exact hz) _ _ _ _ _ _ hrun rfl
    cases st1 with
    | outOfFuel => cases hrest
    | interrupted =>
      simp only [pure_ok_iff, Prod.mk.injEq] at hrest
      obtain ⟨rfl, _, _⟩ := hrest
      exact hy
    | completed =>
      simp only [pure_ok_iff, Prod.mk.injEq] at hrest
      obtain ⟨rfl, _, _⟩ := hrest
      exact hy

/-- `r`, if it succeeds, yields a transaction whose `claimed` map is `c0` -/
def KeepsCB (c0 : CB) (r : Res Tx) : Prop := ∀ t', r = .ok t' → t'.s.cb = c0

theorem KeepsCB_error (c0 : CB) (err : Err) : KeepsCB c0 (.error err) := by
  intro t' h; cases h

theorem KeepsCB_pure (c0 : CB) (t : Tx) (h : t.s.cb = c0) : KeepsCB c0 (pure t) := by
  intro t' h'; cases h'; exact h

theorem KeepsCB_ok (c0 : CB) (t : Tx) (h : t.s.cb = c0) : KeepsCB c0 (.ok t) := by
  intro t' h'; cases h'; exact h

theorem KeepsCB_bind {α : Type} (c0 : CB) (x : Res α) (f : α → Res Tx)
    (h : ∀ a, x = .ok a → KeepsCB c0 (f a)) : KeepsCB c0 (x >>= f) := by
  intro t' h'
  rw [bind_ok_iff] at h'
  obtain ⟨a, ha, hf⟩ := h'
  exact h a ha t' hf

theorem KeepsCB_pure_bind {α : Type} (c0 : CB) (x : α) (f : α → Res Tx)
    (h : KeepsCB c0 (f x)) : KeepsCB c0 (pure x >>= f) := h

theorem KeepsCB_error_bind {α : Type} (c0 : CB) (err : Err) (f : α → Res Tx) :
    KeepsCB c0 ((Except.error err : Res α) >>= f) := by
  intro t' h; cases h

theorem KeepsCB_bind_guar (c0 : CB) (hash : List Nat → List Nat) (t0 : Tx) (g : GuarOp)
    (f : Tx × GuarOp × LoopStatus → Res Tx)
    (h : ∀ a : Tx × GuarOp × LoopStatus, a.1.s.cb = t0.s.cb → KeepsCB c0 (f a)) :
    KeepsCB c0 (guaranteedSubstep hash t0 g >>= f) := by
  apply KeepsCB_bind
  intro a ha
  exact h a (guaranteedSubstep_cb (t' := a.1) (g' := a.2.1) (st := a.2.2) ha)

theorem KeepsCB_bind_nft (c0 : CB) (hash : List Nat → List Nat) (t0 : Tx) (r : Rng)
    (f : Tx × Rng × LoopStatus → Res Tx)
    (h : ∀ a : Tx × Rng × LoopStatus, a.1.s.cb = t0.s.cb → KeepsCB c0 (f a)) :
    KeepsCB c0 (nftSubstep hash t0 r >>= f) := by
  apply KeepsCB_bind
  intro a ha
  exact h a (nftSubstep_cb (t' := a.1) (rng' := a.2.1) (st := a.2.2) ha)

theorem freshRng_cb (t : Tx) (r : Rng) (t' : Tx) (h : t.freshRng = (r, t')) :
    t'.s.cb = t.s.cb := by
  have : t.freshRng.2.s = t.s := (Events.DrawFrame.freshRng t).1
  rw [h] at this
  exact congrArg State.cb this

theorem distribute_keeps_cb (hash : List Nat → List Nat) (t : Tx) (e : Env) :
    KeepsCB t.s.cb (distribute hash t e) := by
  unfold distribute
  repeat' (first
    | with_reducible apply KeepsCB_error
    | with_reducible apply KeepsCB_pure_bind
    | with_reducible apply KeepsCB_error_bind
    | (with_reducible apply KeepsCB_bind_guar; intro a hg)
    | (with_reducible apply KeepsCB_bind; intro a ha)
    | split
    | (simp only []))
  all_goals
    with_reducible apply KeepsCB_pure
    first
      | exact hg
      | exact hg.trans (freshRng_cb t _ _ (by assumption))

theorem distribute_cb {hash : List Nat → List Nat} {t t' : Tx} {e : Env}
    (h : distribute hash t e = .ok t') : t'.s.cb = t.s.cb :=
  distribute_keeps_cb hash t e t' h

theorem secondary_cb {hash : List Nat → List Nat} {t t' : Tx} {e : Env}
    (h : secondary hash t e = .ok t') : t'.s.cb = t.s.cb := by
  unfold secondary at h
  simp only [bind_ok_iff, req_ok_iff, requireStage, exists_const] at h
  obtain ⟨_, _, _, h⟩ := h
  split at h
  case h_3 => simp [bind, Except.bind] at h
  all_goals
    simp only [bind_ok_iff, pure_ok_iff, Prod.exists, Prod.mk.injEq] at h
    obtain ⟨cur, t0, ⟨_, ht0⟩, hh⟩ := h
    have h0 : t0.s.cb = t.s.cb := by
      first
        | (rw [← ht0]; exact freshRng_cb t _ _ rfl)
        | rw [← ht0]
    clear ht0
    cases cur with
    | nft r =>
      simp only [bind_ok_iff, pure_ok_iff] at hh
      obtain ⟨_, rfl, hh⟩ := hh
      simp only [bind_ok_iff, Prod.exists] at hh
      obtain ⟨t2, rng', st, hsub, hfin⟩ := hh
      have h2 := nftSubstep_cb hsub
      cases st <;>
        (simp only [pure_ok_iff] at hfin; subst hfin; show t2.s.cb = _; rw [h2]; exact h0)
    | guar g =>
      simp only [bind_ok_iff, Prod.exists] at hh
      obtain ⟨t1, g', st, hsub, hfin⟩ := hh
      have hg := guaranteedSubstep_cb hsub
      cases st with
      | completed =>
        simp only [bind_ok_iff, pure_ok_iff] at hfin
        obtain ⟨_, rfl, hfin⟩ := hfin
        simp only [bind_ok_iff, Prod.exists] at hfin
        obtain ⟨t2, rng', st2, hsub2, hfin⟩ := hfin
        have h2 := nftSubstep_cb hsub2
        have hfr : (t1.setS (creditAdditional t1.s g'.additional)).freshRng.2.s.cb
            = t1.s.cb :=
          freshRng_cb (t1.setS (creditAdditional t1.s g'.additional)) _ _ rfl
        cases st2 <;>
          (simp only [pure_ok_iff] at hfin; subst hfin; show t2.s.cb = _
           rw [h2, hfr, hg]; exact h0)
      | interrupted =>
        simp only [bind_ok_iff, pure_ok_iff] at hfin
        obtain ⟨_, rfl, hfin⟩ := hfin
        simp only [pure_ok_iff] at hfin
        subst hfin
        show t1.s.cb = _
        rw [hg]; exact h0
      | outOfFuel =>
        simp only [bind_ok_iff, pure_ok_iff] at hfin
        obtain ⟨_, rfl, hfin⟩ := hfin
        simp only [pure_ok_iff] at hfin
        subst hfin
        show t1.s.cb = _
        rw [hg]; exact h0

theorem confirmNft_cb {s s' : State} {e : Env} (h : confirmNft s e = .ok s') :
    s'.cb = s.cb := by
  unfold confirmNft at h
  simp only [bind_ok_iff, pure_ok_iff, req_ok_iff, requireStage, exists_const] at h
  repeat (cases h with | intro _ h)
  subst h
  rfl

theorem KeepsCB_bind_tx (c0 c1 : CB) (x : Res Tx) (f : Tx → Res Tx)
    (hx : ∀ a, x = .ok a → a.s.cb = c1)
    (h : ∀ a : Tx, a.s.cb = c1 → KeepsCB c0 (f a)) : KeepsCB c0 (x >>= f) := by
  apply KeepsCB_bind
  intro a ha
  exact h a (hx a ha)

theorem KeepsCB_bind_st (c0 c1 : CB) (x : Res State) (f : State → Res Tx)
    (hx : ∀ a, x = .ok a → a.cb = c1)
    (h : ∀ a : State, a.cb = c1 → KeepsCB c0 (f a)) : KeepsCB c0 (x >>= f) := by
  apply KeepsCB_bind
  intro a ha
  exact h a (hx a ha)

/-! ### all endpoints -/

/-! ### the helpers that write `confirmed` / `blacklist`: exact effect -/

theorem claimPay_cb {v2 : Bool} {t t' : Tx} {e : Env} {c : Nat}
    (h : claimPay v2 t e c = .ok t') : t'.s.cb = t.s.cb := by
  unfold claimPay at h
  split at h
  · simp only [bind_ok_iff, send_ok_iff, pure_ok_iff] at h
    obtain ⟨t1, ⟨_, rfl⟩, rfl⟩ := h
    cases v2 <;> rfl
  · simp only [pure_ok_iff] at h
    subst h; rfl

theorem claimNft_cb {t t' : Tx} {e : Env} (h : claimNft t e = .ok t') : t'.s.cb = t.s.cb := by
  unfold claimNft at h
  generalize swapRemove t.s.nftWinners e.caller = sw at h
  obtain ⟨w, won⟩ := sw
  cases won
  · simp only [Bool.false_eq_true, ↓reduceIte] at h
    generalize hsp : swapRemove (t.setS { t.s with nftWinners := w }).s.payers e.caller = sp at h
    obtain ⟨p, paid⟩ := sp
    cases paid
    · simp only [Bool.false_eq_true, ↓reduceIte, bind_ok_iff, req_ok_iff, exists_const, pure_ok_iff,
        Nat.reduceEqDiff] at h
      obtain ⟨_, rfl⟩ := h
      rfl
    · simp only [↓reduceIte, bind_ok_iff, req_ok_iff, exists_const] at h
      obtain ⟨_, h⟩ := h
      rw [send_ok_iff] at h
      rw [h.2]; rfl
  · simp only [↓reduceIte, bind_ok_iff, req_ok_iff, exists_const, pure_ok_iff, Nat.reduceEqDiff] at h
    obtain ⟨_, rfl⟩ := h
    rfl

/-- `confirmTickets` raises the caller's `confirmed` by `n` -/
theorem confirmTickets_cb {t t' : Tx} {e : Env} {n : Nat} (h : confirmTickets t e n = .ok t') :
    t'.s.cb = ⟨upd t.s.confirmed e.caller (t.s.confirmed e.caller + n), t.s.blacklist⟩ := by
  unfold confirmTickets at h
  simp only [bind_ok_iff, pure_ok_iff, req_ok_iff, exists_const, Prod.exists] at h
  obtain ⟨_, _, _, _, _, _, _, _, _, _, _, _, _, rfl⟩ := h
  rfl

/-- the settle part of the vesting claim zeroes the caller's `confirmed` on the first claim -/
theorem claimSettle_cb {t t1 : Tx} {e : Env} (h : claimSettle t e = .ok t1) :
    t1.s.cb = ⟨if t.s.claimed e.caller then t.s.confirmed else upd t.s.confirmed e.caller 0,
               t.s.blacklist⟩ := by
  unfold claimSettle at h
  cases hcl : t.s.claimed e.caller
  · simp only [hcl, Bool.false_eq_true, if_false, bind_ok_iff, Prod.exists, settle_ok_iff,
      refund_ok_iff, pure_ok_iff] at h
    obtain ⟨s1, rd, rf, ⟨_, _, r, _, _, _, _, _, rfl⟩, t0, ⟨_, rfl⟩, rfl⟩ := h
    split
    · simp only [Tx.setS, refundResult_state]; rfl
    · rw [refundResult_state]; rfl
  · simp only [hcl, if_true, pure_ok_iff] at h
    subst h
    rfl

theorem claimVested_cb {t t' : Tx} {e : Env} (h : claimVested t e = .ok t') :
    t'.s.cb = ⟨if t.s.claimed e.caller then t.s.confirmed else upd t.s.confirmed e.caller 0,
               t.s.blacklist⟩ := by
  have hb : ∀ v2, claimBody v2 t e = .ok t' → t'.s.cb =
      ⟨if t.s.claimed e.caller then t.s.confirmed else upd t.s.confirmed e.caller 0, t.s.blacklist⟩ := by
    intro v2 h
    unfold claimBody at h
    simp only [bind_ok_iff] at h
    obtain ⟨t1, h1, c, _, h2⟩ := h
    rw [claimPay_cb h2, claimSettle_cb h1]
  rw [claimVested_eq] at h
  split at h
  · simp only [bind_ok_iff, req_ok_iff, exists_const] at h
    exact hb _ h.2
  · exact hb _ h

/-- the non-vested claim zeroes the caller's `confirmed` -/
theorem claimBase_cb {t t' : Tx} {e : Env} (h : claimBase t e = .ok t') :
    t'.s.cb = ⟨upd t.s.confirmed e.caller 0, t.s.blacklist⟩ := by
  rw [claimBase_ok_iff] at h
  obtain ⟨r, _, t2, h2, h3⟩ := h
  have h2' := sendLaunchpadTokens_cb h2
  rw [claimMid_state] at h2'
  have ht2 : t2.s.cb = ⟨upd t.s.confirmed e.caller 0, t.s.blacklist⟩ := h2'
  split at h3
  · rw [claimNft_cb h3, ht2]
  · simp only [pure_ok_iff] at h3
    subst h3; exact ht2

/-! ### all endpoints -/

/-- the pair (`confirmed`, `blacklist`) after an accepted call -/
def cbAfter (s : State) (e : Env) : Call → CB
  | .confirm n => ⟨upd s.confirmed e.caller (s.confirmed e.caller + n), s.blacklist⟩
  | .blacklist l | .refundUsers l =>
    ⟨fun a => if a ∈ l then 0 else s.confirmed a, fun a => if a ∈ l then true else s.blacklist a⟩
  | .unblacklist l => ⟨s.confirmed, fun a => if a ∈ l then false else s.blacklist a⟩
  | .claim =>
    ⟨if s.variant.vested && s.claimed e.caller then s.confirmed else upd s.confirmed e.caller 0,
     s.blacklist⟩
  | _ => s.cb

theorem GHook_cb {l : List Nat} {s s' : State} (h : Events.GHook l s s') : s'.cb = s.cb := by
  obtain ⟨⟨_, _, _, _, _, rfl⟩, _⟩ := h
  rfl

/-- **every endpoint**: exact `confirmed` and `blacklist` after an accepted body -/
theorem exec_cb {hash : List Nat → List Nat} {t t' : Tx} {e : Env} {c : Call}
    (h : exec hash t e c = .ok t') : t'.s.cb = cbAfter t.s e c := by
  cases c with
  | confirm n => exact confirmTickets_cb h
  | blacklist l =>
    obtain ⟨_, _, _, _, _, _, s1, py, bal, hg, hs, _⟩ := Events.exec_blacklist_out h
    rw [hs]
    exact GHook_cb hg
  | refundUsers l =>
    obtain ⟨_, _, _, hg⟩ := Events.exec_refundUsers_out h
    exact GHook_cb hg
  | unblacklist l =>
    obtain ⟨_, hg, _⟩ := Events.exec_unblacklist_out h
    exact GHook_cb hg
  | claim =>
    cases hv : t.s.variant.vested
    · rw [exec_claim_nonvested hash t e hv] at h
      rw [claimBase_cb h]
      simp only [cbAfter, hv, Bool.false_and, Bool.false_eq_true, if_false]
    · rw [exec_claim_vested hash t e hv] at h
      rw [claimVested_cb h]
      simp only [cbAfter, hv, Bool.true_and]
  | addTickets l =>
    simp only [exec, bind_ok_iff, pure_ok_iff, req_ok_iff, requireStage, exists_const] at h
    obtain ⟨_, s1, h1, rfl⟩ := h
    exact createMany_cb l h1
  | addTicketsV1 l =>
    simp only [exec, bind_ok_iff, pure_ok_iff] at h
    obtain ⟨s1, h1, rfl⟩ := h
    exact addTicketsV1_cb h1
  | addTicketsV2 l => exact addTicketsV2_cb h
  | deposit =>
    simp only [exec, bind_ok_iff, pure_ok_iff] at h
    obtain ⟨s1, h1, rfl⟩ := h
    exact depositLaunchpadTokens_cb h1
  | setTicketPrice tok amount =>
    simp only [exec, bind_ok_iff, pure_ok_iff, req_ok_iff, requireStage, exists_const] at h
    obtain ⟨_, s1, h1, rfl⟩ := h
    exact trySetTicketPrice_cb h1
  | setPerTicket amount =>
    simp only [exec, bind_ok_iff, pure_ok_iff, req_ok_iff, requireStage, exists_const] at h
    obtain ⟨_, _, _, rfl⟩ := h
    rfl
  | setConfStart r =>
    simp only [exec, bind_ok_iff, pure_ok_iff, req_ok_iff, exists_const] at h
    obtain ⟨_, _, _, rfl⟩ := h
    rfl
  | setSelStart r =>
    simp only [exec, bind_ok_iff, pure_ok_iff, req_ok_iff, exists_const] at h
    obtain ⟨_, _, _, rfl⟩ := h
    rfl
  | setClaimStart r =>
    simp only [exec, bind_ok_iff, pure_ok_iff, req_ok_iff, exists_const] at h
    obtain ⟨_, _, _, rfl⟩ := h
    rfl
  | setSupport a => simp only [exec, pure_ok_iff] at h; subst h; rfl
  | pause => simp only [exec, pure_ok_iff] at h; subst h; rfl
  | unpause => simp only [exec, pure_ok_iff] at h; subst h; rfl
  | filter => exact filterTickets_cb h
  | select => exact selectWinners_cb h
  | claimPayment =>
    simp only [exec] at h
    split at h
    · exact claimPaymentOwn_cb h
    · simp only [bind_ok_iff] at h
      obtain ⟨t1, h1, h2⟩ := h
      have e1 := claimPaymentCommon_cb h1
      split at h2
      · exact (claimNftPayment_cb h2).trans e1
      · simp only [pure_ok_iff] at h2; subst h2; exact e1
  | distribute => exact distribute_cb h
  | setSchedule1 a b c d f =>
    simp only [exec, bind_ok_iff, pure_ok_iff] at h
    obtain ⟨s1, h1, rfl⟩ := h
    exact setSchedule1_cb h1
  | setSchedule2 l => exact setSchedule2_cb h
  | confirmNft =>
    simp only [exec, bind_ok_iff, pure_ok_iff] at h
    obtain ⟨s1, h1, rfl⟩ := h
    exact confirmNft_cb h1
  | selectNft => exact selectNft_cb h
  | secondary => exact secondary_cb h
  | setNftCost c =>
    simp only [exec, bind_ok_iff, pure_ok_iff, req_ok_iff, requireStage, exists_const] at h
    obtain ⟨_, _, _, rfl⟩ := h
    rfl
  | issueSft =>
    simp only [exec, bind_ok_iff] at h
    obtain ⟨_, _, h⟩ := h
    cases h
  | createSfts =>
    simp only [exec, bind_ok_iff] at h
    obtain ⟨_, _, _, _, h⟩ := h
    cases h
  | setTransferRole o =>
    simp only [exec, bind_ok_iff] at h
    obtain ⟨_, _, h⟩ := h
    cases h
  | sftSetup => simp only [exec, pure_ok_iff] at h; subst h; rfl

theorem cbAfter_credit (s : State) (e : Env) (c : Call) :
    cbAfter (creditPayments s e) e c = cbAfter s e c := by
  cases c <;> rfl

/-- the same for a whole transaction -/
theorem step_cb {hash : List Nat → List Nat} {s s' : State} {e : Env} {c : Call} {o : Out}
    (h : step hash s e c = .ok (s', o)) : s'.cb = cbAfter s e c := by
  obtain ⟨m, t, _, _, _, hx, rfl, _⟩ := step_ok_inv h
  rw [exec_cb hx]
  exact cbAfter_credit s e c

/-! ### deployment -/

/-- a freshly deployed contract has nothing confirmed and nobody blacklisted -/
theorem init_cb {v : Variant} {a : InitArgs} {e : Env} {s : State} (h : init v a e = .ok s) :
    s.cb = ⟨fun _ => 0, fun _ => false⟩ := by
  unfold init at h
  cases v <;>
    simp only [Variant.hasNft, Variant.v1Alloc, Variant.hasLock, bind_ok_iff, req_ok_iff, pure_ok_iff, pure_bind,
      exists_const, if_true, if_false, Bool.false_eq_true, beq_self_eq_true, reduceCtorEq, decide_eq_true_eq,
      bne_iff_ne, ne_eq, not_false_eq_true, beq_iff_eq, bne_self_eq_false] at h
  all_goals
    repeat (cases h with | intro _ h)
    subst h
    rfl

/-! ### histories -/

/-- a property of the pair preserved by every accepted call holds along every history -/
theorem run_induct (hash : List Nat → List Nat) (P : State → Prop)
    (hstep : ∀ s e c s' o, P s → step hash s e c = .ok (s', o) → P s') :
    ∀ (h : List (Env × Call)) (s : State), P s → P (run hash s h)
  | [], s, hp => hp
  | (e, c) :: rest, s, hp => by
    unfold run
    cases hst : step hash s e c with
    | ok r =>
      obtain ⟨s', o⟩ := r
      exact run_induct hash P hstep rest s' (hstep s e c s' o hp hst)
    | error err => exact run_induct hash P hstep rest s hp

end LP
