import LP.Proofs.ReachG1Select
/-
  LP.Proofs.ReachG1Dist — preservation of `g1_WF` (`Variant.guarV1`) by `distribute`, for ANY budget
  and from a fresh or a saved operation (same proof as `LP/Proofs/ReachV1Dist.lean`, whose
  variant-free loop lemmas are reused).  New: at completion the launchpad-token ledger passes from
  `LPre` (deposit intact, nobody has claimed) to case A of `LPost` with the empty list.
-/
namespace LP
open LP.FY

theorem g1_distribute_cases {T0 : Nat} {hash : List Nat → List Nat} {s s' : State} {e : Env}
    {o : Out} {r : Nat} (h : g1_WF T0 s r) (hs : step hash s e .distribute = .ok (s', o)) :
    s.stage e = .winnerSelection ∧ s.totalGuaranteed ≤ T0 ∧ v1_PhE T0 s.core (v1_gv s) ∧
    ∃ (g : GuarOp) (x : GSt), v1_G1 s s.nrWinning s.totalGuaranteed x ∧
      PosInv s.lastTicketId s.status s.posToId (s.nrWinning + g.offset) ∧
      ((s' = distSaved1 s g x ∧ o.ret = [1]) ∨
       (x.whitelist = [] ∧ ∃ z : LCore,
          ((s' = distSaved2 s x z ∧ o.ret = [1] ∧
              v1_L2 s.lastTicketId s.nrWinning s.totalGuaranteed x.status z) ∨
           (s' = distDone s x z ∧ o.ret = [0] ∧
             LInv s.lastTicketId s.nrWinning (z.lift default) ∧
             z.additional ≤ s.totalGuaranteed ∧ (∀ t, x.status t = true → z.status t = true) ∧
             (s.nrWinning + z.additional ≥ s.lastTicketId ∨
               z.additional = s.totalGuaranteed))))) := by
  have hiv2 : s.variant.isV2 = false := (g1_flags h.var).2.2.1
  obtain ⟨t, hx, rfl, rfl⟩ := LP.Props.C20.step_nopay_inv (by
    intro m hm; simp only [endpointMeta] at hm; split at hm
    · simp at hm; rw [← hm]
    · cases hm) hs
  simp only [exec] at hx
  have hx' : distribute hash (rbTx s e) e = .ok t := hx
  obtain ⟨hpre, g, x, b1, hg, _, hcase⟩ := distribute_ok_cases hash (rbTx s e) t e hx'
  simp only [rbTx_s] at hpre hcase
  obtain ⟨htg, hE⟩ := v1_phase_E h.phase hpre.selected hpre.notDone
  refine ⟨hpre.stage, htg, hE, g, x, ?_⟩
  obtain ⟨lo, off, add, hop, hpos, hcount, hsplit, hhon⟩ := hE.dist
  obtain ⟨hg1, hg2, hg3⟩ := v1_guarOpOf hg hop
  have hRI : v1_RI s := v1_RI_of_alloc hE.alloc
  have hG0 : v1_G1 s s.nrWinning s.totalGuaranteed (guarX s g) := by
    refine ⟨rfl, hpos.inside, fun _ ht => ht, ?_, ?_, hhon⟩
    · show countTrue s.status s.lastTicketId = s.nrWinning + g.additional
      rw [hg3]; exact hcount
    · show g.leftover + g.additional + gSum false s.uts s.whitelist = s.totalGuaranteed
      rw [hg1, hg3]; exact hsplit
  have hpos' : PosInv s.lastTicketId s.status s.posToId (s.nrWinning + g.offset) := by
    rw [hg2]; exact hpos
  rcases hcase with ⟨hrun, hs', hret, _⟩ | ⟨hrun, z, b2, hcase2⟩
  · have hG := (v1_loop1 hiv2 hRI hrun hG0).1 rfl
    exact ⟨hG, hpos', Or.inl ⟨hs', hret⟩⟩
  · obtain ⟨hG, hnil⟩ := (v1_loop1 hiv2 hRI hrun hG0).2 rfl
    refine ⟨hG, hpos', Or.inr ⟨hnil, z, ?_⟩⟩
    rw [hiv2] at hcase2
    have hL0 : v1_L2 s.lastTicketId s.nrWinning s.totalGuaranteed x.status
        (leftZ (guarS1 s x) (guarG1 g x) (rbTx s e).dctx) := by
      refine ⟨⟨?_, hG.count⟩, ?_, fun _ ht => ht⟩
      · exact v1_PosInv_mono hpos' hG.mono hG.flagsIn
      · have := hG.split
        rw [hnil] at this
        simp only [gSum_nil, Nat.add_zero] at this
        exact this
    rcases hcase2 with ⟨hrun2, hs', hret, _⟩ | ⟨hrun2, hs', hret, _⟩
    · exact Or.inl ⟨hs', hret, (v1_loop2 hrun2 hL0).1 rfl⟩
    · exact Or.inr ⟨hs', hret, (v1_loop2 hrun2 hL0).2 rfl⟩

/-! ### the endpoint -/

theorem g1_distribute {T0 : Nat} {hash : List Nat → List Nat} {s s' : State} {e : Env} {o : Out}
    {r : Nat} (h : g1_WF T0 s r) (_hr : r ≤ e.round)
    (hs : step hash s e .distribute = .ok (s', o)) : g1_WF T0 s' e.round := by
  obtain ⟨hstage, htg, hE, g, x, hG, hpos, hcase⟩ := g1_distribute_cases h hs
  obtain ⟨hc1, hc2⟩ := rb_stage_winnerSelection hstage
  have hnadd : s.flags.additional = false := by
    rcases h.phase with ⟨ha, _⟩ | ⟨ha, hd⟩
    · exact ha
    · exfalso
      obtain ⟨_, _, _, hh⟩ : True ∧ True ∧ True ∧ s.flags.additional = false := by
        obtain ⟨t, hx, _, _⟩ := LP.Props.C20.step_nopay_inv (by
          intro m hm; simp only [endpointMeta] at hm; split at hm
          · simp at hm; rw [← hm]
          · cases hm) hs
        simp only [exec] at hx
        exact ⟨trivial, trivial, trivial, (distribute_ok_cases hash _ t e hx).1.notDone⟩
      have ha' : s.flags.additional = true := ha
      rw [hh] at ha'; cases ha'
  rcases hcase with ⟨rfl, _⟩ | ⟨hnil, z, ⟨rfl, _, hL⟩ | ⟨rfl, _, hinv, hle, hmono, _⟩⟩
  · -- interrupted in the first loop
    refine ⟨h.var, h.pricePos, h.tokNe, h.static, h.balOther, ?_, ?_,
      g1_vs_early (s' := distSaved1 s g x) h _hr hnadd hnadd rfl rfl (Nat.le_refl _) (fun hq => (h.vs.lp.nodep hq).1), ?_⟩
    · intro hlt; exfalso; have : e.round < s.cfg.conf := hlt; omega
    · intro _; exact ⟨hc1, hc2⟩
    · left
      refine ⟨hnadd, htg, Or.inr (Or.inr ?_)⟩
      exact v1_PhE_next (s := s) (s' := distSaved1 s g x) hE rfl rfl
        (rng := g.rng) (lo := x.leftover) (off := g.offset) (add := x.additional) rfl
        (v1_PosInv_mono hpos hG.mono hG.flagsIn) hG.count hG.split hG.hon
  · -- interrupted in the second loop
    refine ⟨h.var, h.pricePos, h.tokNe, h.static, h.balOther, ?_, ?_,
      g1_vs_early (s' := distSaved2 s x z) h _hr hnadd hnadd rfl rfl (Nat.le_refl _) (fun hq => (h.vs.lp.nodep hq).1), ?_⟩
    · intro hlt; exfalso; have : e.round < s.cfg.conf := hlt; omega
    · intro _; exact ⟨hc1, hc2⟩
    · left
      refine ⟨hnadd, htg, Or.inr (Or.inr ?_)⟩
      refine v1_PhE_next (s := s) (s' := distSaved2 s x z) hE rfl rfl
        (rng := z.rng) (lo := z.leftover) (off := z.offset) (add := z.additional) rfl
        hL.inv.pinv hL.inv.count ?_ ?_
      · show z.leftover + z.additional + gSum false s.uts x.whitelist = s.totalGuaranteed
        rw [hnil]; simp only [gSum_nil, Nat.add_zero]; exact hL.sum
      · intro u st hu hp
        rcases hG.hon u st hu hp with hm | hh
        · rw [hnil] at hm; cases hm
        · exact Or.inr (v1_HonS_mono hL.mono hh)
  · -- completed
    have hcl : s.claimablePayment = s.price * s.nrWinning := hE.claimable
    have hD' := v1_handover (c := s.core) hE.started hE.filtered hE.selected hE.alloc
        (st' := z.status) (pi' := z.posToId) (n' := s.nrWinning + z.additional)
        (cl := s.claimablePayment + s.price * z.additional) hinv.count
        (by rw [hcl, Nat.mul_add]; rfl)
    refine ⟨h.var, h.pricePos, h.tokNe, h.static, h.balOther, ?_, ?_, ?_, ?_⟩
    · intro hlt; exfalso; have : e.round < s.cfg.conf := hlt; omega
    · intro _; exact ⟨hc1, hc2⟩
    · have hvs := h.vs
      have hl := hvs.lp
      have hpr := hl.pre hnadd
      have hcf : ∀ a, s.userTotal a = 0 ∧ s.userClaimed a = 0 ∧ s.claimed a = false := hpr.fresh
      have hnz : s.deposited = false → s.nrWinning + z.additional = 0 := fun hq =>
        v2_PhD_nrw_zero hD' (hl.nodep hq).1
      refine ⟨?_, hvs.sch, (hvs.mono _hr).exact⟩
      show LPI (distDone s x z).gcore (g1_lproj s)
      refine ⟨hl.sched, fun hq => ?_, (fun hq => by have : true = false := hq; cases this), fun _ => ⟨⟨[], List.nodup_nil,
        fun a _ => ⟨(hcf a).1, (hcf a).2.1⟩, Or.inl ⟨?_, s.nrWinning + z.additional, ?_, ?_, ?_⟩⟩,
        fun a => ?_, fun a _ => (hcf a).1⟩⟩
      · obtain ⟨q1, q2, q3, q4, _⟩ := hl.nodep hq
        exact ⟨q1, q2, q3, q4, fun _ => hnz hq⟩
      · show s.bal (.esdt s.lpTok) 0 + 0 = s.totalDeposited
        cases hdp : s.deposited with
        | true =>
          have h1 : s.bal (.esdt s.lpTok) 0 = s.totalDeposited := (hpr.dep hdp).1
          rw [h1]; rfl
        | false =>
          obtain ⟨_, q2, q3, _⟩ := hl.nodep hdp
          have q2' : s.bal (.esdt s.lpTok) 0 = 0 := q2
          have q3' : s.totalDeposited = 0 := q3
          rw [q2', q3']
      · show s.claimablePayment + s.price * z.additional = s.price * (s.nrWinning + z.additional)
        rw [hcl, Nat.mul_add]
      · show (s.nrWinning + z.additional) * s.perTicket
          = s.perTicket * (s.nrWinning + z.additional) + 0
        rw [Nat.mul_comm]; rfl
      · show (s.nrWinning + z.additional) * s.perTicket ≤ s.totalDeposited
        cases hdp : s.deposited with
        | true =>
          have h2 : s.perTicket * (s.nrWinning + s.totalGuaranteed) ≤ s.totalDeposited := (hpr.dep hdp).2
          have h3 : s.nrWinning + z.additional ≤ s.nrWinning + s.totalGuaranteed := by omega
          rw [Nat.mul_comm]
          exact Nat.le_trans (Nat.mul_le_mul_left _ h3) h2
        | false => rw [hnz hdp]; simp
      · show s.userClaimed a ≤ s.userTotal a
        rw [(hcf a).1, (hcf a).2.1]; exact Nat.le_refl _
    · right
      exact ⟨rfl, hD'⟩

end LP
