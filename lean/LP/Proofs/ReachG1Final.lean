import LP.Proofs.ReachG1Base
/-
  LP.Proofs.ReachG1Final — what the completing `distribute` call establishes for `Variant.guarV1`
  (final winner count, honoured guarantees) and consequences of the invariant (same proofs as
  `LP/Proofs/ReachV1Final.lean`).
-/
namespace LP
open LP.FY

/-- the `distribute` call that completes the distribution (`ret = [0]`) from a well-formed state -/
theorem g1_distribute_completion {T0 : Nat} {hash : List Nat → List Nat} {s s' : State} {e : Env}
    {o : Out} {r : Nat} (h : g1_WF T0 s r) (hs : step hash s e .distribute = .ok (s', o))
    (hret : o.ret = [0]) :
    s'.flags.selected = true ∧ s'.flags.additional = true ∧
    s'.lastTicketId = s.lastTicketId ∧ s'.price = s.price ∧
    countTrue s'.status s'.lastTicketId = s'.nrWinning ∧
    s'.nrWinning = min T0 s'.lastTicketId ∧
    s'.claimablePayment = s'.price * s'.nrWinning ∧
    (∀ t, s'.status t = true → 1 ≤ t ∧ t ≤ s'.lastTicketId) ∧
    (∀ t, s.status t = true → s'.status t = true) ∧
    (∀ u st, s'.uts u = some st →
      min (calcV1 st (s'.confirmed u) s'.minConfirmed).1 (s'.confirmed u) ≤ winCountOf s' u) := by
  obtain ⟨_, htg, hE, g, x, hG, _, hcase⟩ := g1_distribute_cases h hs
  rcases hcase with ⟨_, h1⟩ | ⟨hnil, z, ⟨_, h1, _⟩ | ⟨rfl, _, hinv, hle, hmono, hfin⟩⟩
  · rw [hret] at h1; cases h1
  · rw [hret] at h1; cases h1
  · have hnrw : s.nrWinning = min (T0 - s.totalGuaranteed) s.lastTicketId := hE.nrw
    have hll := hinv.le_last
    have hll' : s.nrWinning + z.additional ≤ s.lastTicketId := hll
    have hcl : s.claimablePayment = s.price * s.nrWinning := hE.claimable
    refine ⟨hE.selected, rfl, rfl, rfl, hinv.count, ?_, ?_, hinv.pinv.inside,
      fun t ht => hmono t (hG.mono t ht), ?_⟩
    · show s.nrWinning + z.additional = min T0 s.lastTicketId
      rcases hfin with hf | hf <;> omega
    · show s.claimablePayment + s.price * z.additional = s.price * (s.nrWinning + z.additional)
      rw [hcl, Nat.mul_add]
    · intro u st hu
      show min (calcV1 st (s.confirmed u) s.minConfirmed).1 (s.confirmed u)
        ≤ winOf s.range z.status u
      have hu' : s.uts u = some st := hu
      by_cases hpos : gOf false st > 0
      · rcases hG.hon u st hu' hpos with hm | hh
        · rw [hnil] at hm; cases hm
        · exact v1_HonS_mono hmono hh
      · have := v1_calcV1_fst_le st (s.confirmed u) s.minConfirmed
        have h0 : (calcV1 st (s.confirmed u) s.minConfirmed).1 = 0 := by omega
        rw [h0]; simp

/-- before the filter has completed the reserve is intact: `nrWinning + totalGuaranteed = T0` -/
theorem g1_reserve_before_filter {T0 : Nat} {s : State} {r : Nat} (h : g1_WF T0 s r)
    (hf : s.flags.filtered = false) : s.nrWinning + s.totalGuaranteed = T0 := by
  obtain ⟨_, htg, L0, hp, _⟩ := v1_phase_notFiltered h.phase hf
  have h1 : s.nrWinning = T0 - s.totalGuaranteed := hp.nrw
  have h2 : s.totalGuaranteed ≤ T0 := htg
  omega

/-- in every well-formed state the winners still to be paid never exceed `T0` -/
theorem g1_owed_le {T0 : Nat} {s : State} {r : Nat} (h : g1_WF T0 s r)
    (hna : s.flags.additional = false) : s.nrWinning + s.totalGuaranteed ≤ T0 := by
  rcases h.phase with ⟨_, htg, ⟨L0, hp, _⟩ | ⟨hC, _⟩ | hE⟩ | ⟨ha, _⟩
  · have h1 : s.nrWinning = T0 - s.totalGuaranteed := hp.nrw
    have h2 : s.totalGuaranteed ≤ T0 := htg
    omega
  · have h1 : s.nrWinning = min (T0 - s.totalGuaranteed) s.lastTicketId := hC.nrw
    have h2 : s.totalGuaranteed ≤ T0 := htg
    omega
  · have h1 : s.nrWinning = min (T0 - s.totalGuaranteed) s.lastTicketId := hE.nrw
    have h2 : s.totalGuaranteed ≤ T0 := htg
    omega
  · have ha' : s.flags.additional = true := ha
    rw [hna] at ha'; cases ha'

/-- until the first `distribute` call is accepted, the whitelist is exactly the set of holders of
    a positive guarantee (reserve invariant of C12, carried through filter and lottery) -/
theorem g1_whitelist_intact {T0 : Nat} {s : State} {r : Nat} (h : g1_WF T0 s r)
    (hna : s.flags.additional = false) (hop : s.flags.selected = true → s.op = .none) (u : Nat) :
    u ∈ s.whitelist ↔ ∃ st, s.uts u = some st ∧ st.c + st.d > 0 := by
  have key : v1_GW (v1_gv s) := by
    rcases h.phase with ⟨_, _, ⟨L0, _, ⟨_, hg⟩ | ⟨_, hg⟩⟩ | ⟨_, hg⟩ | hE⟩ | ⟨ha, _⟩
    · exact hg.toGW
    · exact hg
    · exact hg
    · exact hE.wl0 (hop hE.selected)
    · have ha' : s.flags.additional = true := ha
      rw [hna] at ha'; cases ha'
  constructor
  · intro hm
    obtain ⟨st, h1, h2⟩ := key.pos_of_mem u hm
    exact ⟨st, h1, by simpa using h2⟩
  · rintro ⟨st, h1, h2⟩
    exact key.mem_of_pos u st h1 (by simpa using h2)

/-- during the distribution (lottery complete, distribution not): the winning flags number
    `nrWinning + additional so far`, never more than `min T0 lastTicketId`, all inside
    `1..lastTicketId` -/
theorem g1_winners_bound {T0 : Nat} {s : State} {r : Nat} (h : g1_WF T0 s r)
    (hsel : s.flags.selected = true) (hna : s.flags.additional = false) :
    s.nrWinning ≤ countTrue s.status s.lastTicketId ∧
    countTrue s.status s.lastTicketId ≤ min T0 s.lastTicketId ∧
    (∀ t, s.status t = true → 1 ≤ t ∧ t ≤ s.lastTicketId) := by
  obtain ⟨htg, hE⟩ := v1_phase_E h.phase hsel hna
  obtain ⟨lo, off, add, _, hpos, hcount, hsplit, _⟩ := hE.dist
  have hnrw : s.nrWinning = min (T0 - s.totalGuaranteed) s.lastTicketId := hE.nrw
  have htg' : s.totalGuaranteed ≤ T0 := htg
  have hsplit' : lo + add + gSum false s.uts s.whitelist = s.totalGuaranteed := hsplit
  have hcount' : countTrue s.status s.lastTicketId = s.nrWinning + add := hcount
  have hle := countTrue_le s.status s.lastTicketId
  exact ⟨by omega, by omega, hpos.inside⟩

/-- once everybody has settled no winner is outstanding -/
theorem g1_all_settled_nrWinning {T0 : Nat} {s : State} {r : Nat} (h : g1_WF T0 s r)
    (hd : AllDone s) (hall : ∀ a, s.range a = none) : s.nrWinning = 0 := by
  have hD := v1_phase_D h.phase hd.2
  obtain ⟨L, _, _, _, hwin⟩ := hD.led
  have hwin' : sumOver (winOf s.range s.status) L = s.nrWinning := hwin
  rw [← hwin']
  apply sumOver_zero
  intro a _
  simp [winOf, hall a]

end LP
