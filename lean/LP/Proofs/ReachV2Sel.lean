import LP.Proofs.ReachV2Alloc
/-
  LP.Proofs.ReachV2Sel — preservation of `WF2` by `filterTickets` and by the base lottery
  `selectWinners` (interrupted or completed); at the completion of the lottery the distribution
  phase `PhE` starts with the fresh cursor `(0, 1, 0)`.
-/
namespace LP
open LP.FY

theorem v2_filter {T0 : Nat} {hash : List Nat → List Nat} {s s' : State} {e : Env} {o : Out}
    {r : Nat} (h : WF2 T0 s r) (_hr : r ≤ e.round)
    (hs : step hash s e .filter = .ok (s', o)) : WF2 T0 s' e.round := by
  obtain ⟨t, hx, rfl⟩ := rb_step_np (by intro m hm; simp [endpointMeta] at hm; rw [← hm]) hs
  simp only [exec] at hx
  obtain ⟨hpre, x, f, b, hxs, hcase⟩ := rb_filterTickets_cases hx
  simp only [rbTx_s] at hpre hxs hcase
  obtain ⟨hc1, hc2⟩ := rb_stage_winnerSelection hpre.stage
  have hnsel0 : s.flags.selected = false := by
    cases hq : s.flags.selected with
    | false => rfl
    | true =>
      rcases h.phase with ⟨_, h2, _⟩ | hE | hF
      · have h2' : s.flags.selected = false := h2
        rw [h2'] at hq; cases hq
      · have : s.flags.filtered = true := hE.filtered
        rw [hpre.notFiltered] at this; cases this
      · have : s.flags.filtered = true := hF.d.filtered
        rw [hpre.notFiltered] at this; cases this
  obtain ⟨hna, hgi, hph⟩ := v2_phase_early h.phase hnsel0
  obtain ⟨L0, hp, hab⟩ := rb_phase_notFiltered hph hpre.notFiltered
  have hmid : Mid s.confirmed s.lastTicketId L0 x ∧ (x.first = 1 ∨ s.flags.started = true) := by
    rcases hab with ha | hb
    · have hop : s.op = .none := ha.op
      simp only [filStOf, hop, Option.some.injEq] at hxs
      subst hxs
      have hl : s.lastTicketId = ticketTotal L0 := ha.last
      rw [hl]
      exact ⟨rb_Mid_start ha.chain hp.outR, Or.inl rfl⟩
    · obtain ⟨f0, rm, hop, hm⟩ := hb.mid
      have hop' : s.op = .filter f0 rm := hop
      simp only [filStOf, hop', Option.some.injEq] at hxs
      subst hxs
      exact ⟨hm, Or.inr hb.started⟩
  obtain ⟨hmid, hfirst⟩ := hmid
  have hok : AllocOK s.confirmed L0 := hp.ok
  have hloop := fun b' st (hrun : runWhile (filterBody s.confirmed s.lastTicketId)
      (s.lastTicketId + 2) (rbTx s e).c.budget x = .ok (f, b', st)) =>
    rb_runWhile_inv (Mid s.confirmed s.lastTicketId L0) (filterBody s.confirmed s.lastTicketId)
      (fun y y' hb hm => rb_filterBody_Mid hok hb hm) _ _ _ _ _ _ hrun hmid
  obtain ⟨hff, hfs, hfa⟩ := rb_filterFlags s x.first
  have hstarted := filterFlags_started s x.first hfirst
  rcases hcase with ⟨hrun, hs'⟩ | ⟨hrun, hle, hs'⟩
  · -- interrupted
    have hmf : Mid s.confirmed s.lastTicketId L0 f := (hloop _ _ hrun).1 rfl
    have houtR := hmf.choose_spec.choose_spec.2.2.2.2.2.2.2
    rw [hs']
    refine ⟨h.var, h.pricePos, h.tokNe, h.balOther, ?_, ?_, h.tgLe, ?_, ?_, ?_⟩
    rotate_right
    · refine LPI.early h.lp hna ?_ (Nat.le_refl _) (fun hq => (h.lp.nodep hq).1)
      show (filterFlags s x.first).additional = false
      rw [hfa]; exact hna
    · intro hlt; exfalso; have : e.round < s.cfg.conf := hlt; omega
    · intro _; exact ⟨hc1, hc2⟩
    · intro hq
      have hq' : (filterFlags s x.first).started = false := hq
      rw [hstarted] at hq'; cases hq'
    · left
      refine ⟨?_, ?_, hgi, Or.inl ⟨L0, ⟨?_, ?_, hp.nrw, hp.status0, hp.pos0, hp.ok, hp.outC, houtR,
        hp.pay⟩, Or.inr ⟨hstarted, ⟨f.first, f.removed, rfl, hmf⟩⟩⟩⟩
      · show (filterFlags s x.first).additional = false
        rw [hfa]; exact hna
      · show (filterFlags s x.first).selected = false
        rw [hfs]; exact hnsel0
      · show (filterFlags s x.first).filtered = false
        rw [hff]; exact hpre.notFiltered
      · show (filterFlags s x.first).selected = false
        rw [hfs]; exact hp.notSelected
  · -- completed
    obtain ⟨y, hmy, hby⟩ := (hloop _ _ hrun).2 rfl
    obtain ⟨hy1, hyf⟩ := rb_filterBody_false hby
    subst hyf
    obtain ⟨hch, hrem, hlast, hzero, hout⟩ := rb_Mid_final hok hmy hy1
    have hcd := confSum_add_droppedSum s.confirmed L0 hok.le
    have hnew : s.lastTicketId - f.removed = ticketTotal (survivors s.confirmed L0) := by
      rw [ticketTotal_survivors, hrem]; omega
    have hnrw : s.nrWinning = T0 - s.totalGuaranteed := hp.nrw
    rw [hs']
    refine ⟨h.var, h.pricePos, h.tokNe, h.balOther, ?_, ?_, h.tgLe, ?_, ?_, ?_⟩
    rotate_right
    · refine LPI.early h.lp hna ?_ ?_ (fun hq => (h.lp.nodep hq).1)
      · show (filterFlags s x.first).additional = false
        rw [hfa]; exact hna
      · show (if s.nrWinning > s.lastTicketId - f.removed then s.lastTicketId - f.removed
              else s.nrWinning) + s.totalGuaranteed ≤ s.nrWinning + s.totalGuaranteed
        split <;> omega
    · intro hlt; exfalso; have : e.round < s.cfg.conf := hlt; omega
    · intro _; exact ⟨hc1, hc2⟩
    · intro hq
      have hq' : (filterFlags s x.first).started = false := hq
      rw [hstarted] at hq'; cases hq'
    · left
      refine ⟨?_, ?_, hgi, Or.inr (Or.inl ⟨hstarted, rfl, ?_, ?_, ?_,
        Or.inl ⟨rfl, hp.status0, hp.pos0⟩⟩)⟩
      · show (filterFlags s x.first).additional = false
        rw [hfa]; exact hna
      · show (filterFlags s x.first).selected = false
        rw [hfs]; exact hnsel0
      · show (filterFlags s x.first).selected = false
        rw [hfs]; exact hp.notSelected
      · show (if s.nrWinning > s.lastTicketId - f.removed then s.lastTicketId - f.removed
              else s.nrWinning) = min (T0 - s.totalGuaranteed) (s.lastTicketId - f.removed)
        rw [hnrw]; split <;> omega
      · refine ⟨survivors s.confirmed L0, survivors_nodup _ _ hok.nodup, ?_, hch, hnew, ?_, ?_⟩
        · intro p hp1
          obtain ⟨_, h2, h3⟩ := mem_survivors hp1
          exact ⟨by omega, h2⟩
        · intro a ha
          by_cases hin : a ∈ L0.map Prod.fst
          · obtain ⟨p, hp1, hpa⟩ := List.mem_map.mp hin
            have hc0 : s.confirmed p.1 = 0 := by
              apply Classical.byContradiction
              intro hne
              exact ha (hpa ▸ rb_mem_survivors_of_pos hp1 hne)
            subst hpa
            exact ⟨hzero p hp1 hc0, hc0⟩
          · exact ⟨hout a hin, hp.outC a hin⟩
        · show s.bal s.payTok 0 = s.price * sumOver s.confirmed ((survivors s.confirmed L0).map Prod.fst)
          rw [rb_sumOver_survivors]
          exact hp.pay

/-! ### the base lottery -/

/-- `rb_select_cases` from the phase alone (the variant does not matter) -/
theorem v2_select_cases {T : Nat} {hash : List Nat → List Nat} {s : State} {e : Env} {t : Tx}
    (hph : ∀ (_ : s.flags.filtered = true) (_ : s.flags.selected = false), PhC T s.core)
    (hx : exec hash (rbTx s e) e .select = .ok t) :
    s.stage e = .winnerSelection ∧ PhC T s.core ∧ ∃ x : SelSt,
      (t.s = selInt s x ∧ 1 ≤ x.pos ∧ x.pos ≤ s.nrWinning ∧
        ∃ arr, R s.lastTicketId x.pos x.status x.posToId arr) ∨
      (t.s = selDone s x ∧ ∃ arr, R s.lastTicketId (s.nrWinning + 1) x.status x.posToId arr) := by
  simp only [exec] at hx
  obtain ⟨hstage, hfil, hnsel, rng, pos, t0, hop, x, b, st, hrun, hfin⟩ := rb_selectWinners_cases hx
  simp only [rbTx_s] at hstage hfil hnsel hop hrun hfin
  have hC : PhC T s.core := hph hfil hnsel
  refine ⟨hstage, hC, x, ?_⟩
  have hnl : s.nrWinning ≤ s.lastTicketId := by
    have : s.nrWinning = min T s.lastTicketId := hC.nrw
    omega
  have hstart : 1 ≤ pos ∧ (s.nrWinning ≠ 0 → pos ≤ s.nrWinning) ∧
      (s.nrWinning = 0 → pos = 1) ∧ ∃ arr, R s.lastTicketId pos s.status s.posToId arr := by
    rcases hC.sel with ⟨hop0, hs0, hp0⟩ | ⟨rng1, pos1, arr, hop1, h1, h2, hR⟩
    · have hop0' : s.op = .none := hop0
      rcases hop with ⟨_, rfl⟩ | hop
      · refine ⟨Nat.le_refl 1, fun hne => by omega, fun _ => rfl, List.range' 1 s.lastTicketId, ?_⟩
        have hs0' : s.status = fun _ => false := hs0
        have hp0' : s.posToId = fun _ => 0 := hp0
        rw [hs0', hp0']
        exact R_init _
      · rw [hop0'] at hop; cases hop
    · have hop1' : s.op = .select rng1 pos1 := hop1
      rcases hop with ⟨hop, _⟩ | hop
      · rw [hop1'] at hop; cases hop
      · rw [hop1'] at hop
        injection hop with e1 e2
        subst e1 e2
        have h2' : pos1 ≤ s.nrWinning := h2
        exact ⟨h1, fun _ => h2', fun h0 => by omega, arr, hR⟩
  obtain ⟨hs1, hs2, hs3, arr0, hR0⟩ := hstart
  by_cases hnr : s.nrWinning = 0
  · have hbody : selectBody hash s.nrWinning s.lastTicketId ⟨s.status, s.posToId, rng, pos, t0⟩
        = .ok (⟨s.status, s.posToId, rng, pos, t0⟩, false) := by
      rw [selectBody_eq, if_pos hnr]
    rw [runWhile_stop hbody] at hrun
    simp only [Except.ok.injEq, Prod.mk.injEq] at hrun
    obtain ⟨rfl, _, rfl⟩ := hrun
    rcases hfin with ⟨hh, _⟩ | ⟨_, hs'⟩
    · cases hh
    · have hpos1 := hs3 hnr
      subst hpos1
      exact Or.inr ⟨hs', arr0, by rw [hnr]; exact hR0⟩
  · have hP0 : SelP s.nrWinning s.lastTicketId ⟨s.status, s.posToId, rng, pos, t0⟩ :=
      ⟨hs1, hs2 hnr, arr0, hR0⟩
    obtain ⟨hint, hcomp⟩ := rb_runWhile_inv (SelP s.nrWinning s.lastTicketId)
      (selectBody hash s.nrWinning s.lastTicketId)
      (fun y y' hb hp => rb_selectBody_SelP hnr hnl hb hp) _ _ _ _ _ _ hrun hP0
    rcases hfin with ⟨hst, hs'⟩ | ⟨hst, hs'⟩
    · obtain ⟨p1, p2, arr, hR⟩ := hint hst
      exact Or.inl ⟨hs', p1, p2, arr, hR⟩
    · obtain ⟨y, hPy, hby⟩ := hcomp hst
      exact Or.inr ⟨hs', rb_selectBody_final hnr hnl hby hPy⟩

/-- the distribution invariant right after the base lottery, fresh cursor -/
theorem v2_DInv_fresh {g : GCore} {arr : List Nat} (hgi : GI2 g.whitelist g.uts g.tg)
    (hle : g.core.nrWinning ≤ g.core.lastTicketId)
    (hR : R g.core.lastTicketId (g.core.nrWinning + 1) g.core.status g.core.posToId arr) :
    DInv g 0 1 0 := by
  have hL := LInv_init (additional := 0) hR (fun _ ht => ht) hR.flagsIn (hR.count hle) default 0 default
  refine ⟨hgi.nodup, ?_, hL.pinv, hL.count, ?_⟩
  · have := hgi.total; omega
  · intro u st r hu hnw _
    have h0 : sumG st.infos = 0 := by
      cases hq : sumG st.infos with
      | zero => rfl
      | succ k => exact absurd (hgi.mem_of_pos u st hu (by omega)) hnw
    have := calcV2_sum st.infos (g.core.confirmed u)
    omega

theorem v2_select {T0 : Nat} {hash : List Nat → List Nat} {s s' : State} {e : Env} {o : Out}
    {r : Nat} (h : WF2 T0 s r) (_hr : r ≤ e.round)
    (hs : step hash s e .select = .ok (s', o)) : WF2 T0 s' e.round := by
  obtain ⟨t, hx, rfl⟩ := rb_step_np (by intro m hm; simp [endpointMeta] at hm; rw [← hm]) hs
  have hearly : s.flags.selected = false →
      s.flags.additional = false ∧ GI2 s.whitelist s.uts s.totalGuaranteed ∧
        Phase (T0 - s.totalGuaranteed) s.core := fun hq => v2_phase_early h.phase hq
  obtain ⟨hstage, hC, x, hcase⟩ := v2_select_cases (T := T0 - s.totalGuaranteed)
    (fun hf hq => rb_phase_C (hearly hq).2.2 hf hq) hx
  obtain ⟨hna, hgi, _⟩ := hearly hC.notSelected
  obtain ⟨hc1, hc2⟩ := rb_stage_winnerSelection hstage
  have hstd : s.flags.started = true := hC.started
  rcases hcase with ⟨hs', p1, p2, arr, hR⟩ | ⟨hs', arr, hR⟩
  · rw [hs']
    refine ⟨h.var, h.pricePos, h.tokNe, h.balOther, ?_, ?_, h.tgLe, ?_, ?_, ?_⟩
    rotate_right
    · exact LPI.early h.lp hna hna (Nat.le_refl _) (fun hq => (h.lp.nodep hq).1)
    · intro hlt; exfalso; have : e.round < s.cfg.conf := hlt; omega
    · intro _; exact ⟨hc1, hc2⟩
    · intro hq
      have hq' : s.flags.started = false := hq
      rw [hstd] at hq'; cases hq'
    · left
      exact ⟨hna, hC.notSelected, hgi, Or.inr (Or.inl ⟨hC.started, hC.filtered, hC.notSelected, hC.nrw,
        hC.alloc, Or.inr ⟨x.rng, x.pos, arr, rfl, p1, p2, hR⟩⟩)⟩
  · rw [hs']
    have hnl : s.nrWinning ≤ s.lastTicketId := by
      have : s.nrWinning = min (T0 - s.totalGuaranteed) s.lastTicketId := hC.nrw
      omega
    refine ⟨h.var, h.pricePos, h.tokNe, h.balOther, ?_, ?_, h.tgLe, ?_, ?_, ?_⟩
    rotate_right
    · exact LPI.early h.lp hna hna (Nat.le_refl _) (fun hq => (h.lp.nodep hq).1)
    · intro hlt; exfalso; have : e.round < s.cfg.conf := hlt; omega
    · intro _; exact ⟨hc1, hc2⟩
    · intro hq
      have hq' : s.flags.started = false := hq
      rw [hstd] at hq'; cases hq'
    · right; left
      refine ⟨hC.started, hC.filtered, rfl, hna, hC.nrw, hC.alloc, rfl, 0, 1, 0, ?_,
        Or.inl ⟨rfl, rfl, rfl, rfl⟩⟩
      exact v2_DInv_fresh (g := (selDone s x).gcore) hgi hnl hR

end LP
