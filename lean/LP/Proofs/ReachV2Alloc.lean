import LP.Proofs.ReachV2Easy
/-
  LP.Proofs.ReachV2Alloc — preservation of `WF2` by the endpoints that move the guaranteed-ticket
  reserve before winner selection: `addTicketsV2`, `blacklist`, `refundUsers`, `unblacklist`.
-/
namespace LP
open LP.FY LP.Events

/-! ### the reserve step through the dispatcher -/

theorem v2_step_guar {hash : List Nat → List Nat} {s s' : State} {e : Env} {c : Call} {o : Out}
    (hc : isGuarCall c = true) (hX : GuarInvX s) (hs : step hash s e c = .ok (s', o)) : RStep s s' := by
  have := step_guar hash s e c hc hX
  rw [hs] at this
  exact this

/-! ### allocation -/

/-- the (address, size) pairs a v2 allocation list actually allocates: zero-size entries are
    skipped by the contract -/
def v2Proj (l : List (Nat × Nat × List (Nat × Nat))) : List (Nat × Nat) :=
  (l.filter (fun p => p.2.1 ≠ 0)).map (fun p => (p.1, p.2.1))

theorem v2Proj_pos (l : List (Nat × Nat × List (Nat × Nat))) : ∀ p ∈ v2Proj l, 1 ≤ p.2 := by
  intro p hp
  unfold v2Proj at hp
  obtain ⟨q, hq, rfl⟩ := List.mem_map.mp hp
  have := (List.mem_filter.mp hq).2
  simp only [ne_eq, decide_not, Bool.not_eq_eq_eq_not, Bool.not_true, decide_eq_false_iff_not] at this
  show 1 ≤ q.2.1
  omega

theorem v2Proj_cons_zero (a : Nat) (infos : List (Nat × Nat)) (rest : List (Nat × Nat × List (Nat × Nat))) :
    v2Proj ((a, 0, infos) :: rest) = v2Proj rest := by
  simp [v2Proj]

theorem v2Proj_cons_pos (a n : Nat) (infos : List (Nat × Nat)) (rest : List (Nat × Nat × List (Nat × Nat)))
    (hn : n ≠ 0) : v2Proj ((a, n, infos) :: rest) = (a, n) :: v2Proj rest := by
  simp [v2Proj, hn]

/-- `s'` agrees with `s` except for the ticket space and the guaranteed-ticket records -/
def AllocShape (s s' : State) : Prop :=
  ∃ r b l wl u, s' = { s with range := r, batch := b, lastTicketId := l, whitelist := wl, uts := u }

theorem AllocShape.refl (s : State) : AllocShape s s := ⟨_, _, _, _, _, rfl⟩

theorem AllocShape.trans {a b c : State} (h1 : AllocShape a b) (h2 : AllocShape b c) : AllocShape a c := by
  obtain ⟨r1, b1, l1, w1, u1, rfl⟩ := h1
  obtain ⟨r2, b2, l2, w2, u2, rfl⟩ := h2
  exact ⟨r2, b2, l2, w2, u2, rfl⟩

/-- the allocation loop of v2 allocates exactly like `createMany` on the non-zero entries -/
theorem v2_addV2Many_shadow (e : Env) : ∀ (l : List (Nat × Nat × List (Nat × Nat))) (s z : State)
    (tw tg uc ta ga : Nat) (s' : State) (tw' tg' uc' ta' ga' : Nat),
    addV2Many e l (s, tw, tg, uc, ta, ga) = .ok (s', tw', tg', uc', ta', ga') →
    z.range = s.range → z.batch = s.batch → z.lastTicketId = s.lastTicketId →
    ∃ z', createMany (v2Proj l) z = .ok z' ∧ z'.range = s'.range ∧ z'.batch = s'.batch ∧
      z'.lastTicketId = s'.lastTicketId ∧ AllocShape s s' := by
  intro l
  induction l with
  | nil =>
    intro s z tw tg uc ta ga s' tw' tg' uc' ta' ga' h h1 h2 h3
    simp only [addV2Many, Except.ok.injEq, Prod.mk.injEq] at h
    obtain ⟨rfl, _⟩ := h
    exact ⟨z, rfl, h1, h2, h3, AllocShape.refl _⟩
  | cons p rest ih =>
    obtain ⟨a, n, infos⟩ := p
    intro s z tw tg uc ta ga s' tw' tg' uc' ta' ga' h h1 h2 h3
    by_cases hn : n = 0
    · subst hn
      simp only [addV2Many, if_true] at h
      rw [v2Proj_cons_zero]
      exact ih s z tw tg uc ta ga s' tw' tg' uc' ta' ga' h h1 h2 h3
    · rw [v2Proj_cons_pos a n infos rest hn]
      simp only [addV2Many, if_neg hn] at h
      split at h
      · cases h
      split at h
      · cases h
      split at h
      · cases h
      rw [tryCreateTickets_eq] at h
      by_cases hr : s.range a = none
      · by_cases hb : s.lastTicketId + 1 + n < usizeMax
        · simp only [if_pos hr, if_pos hb] at h
          have hz : tryCreateTickets z a n = .ok (allocState z a n) := by
            rw [tryCreateTickets_eq, h1, h3, if_pos hr, if_pos hb]
          have k1 : (allocState z a n).range = (allocState s a n).range := by
            simp only [allocState, h1, h3]
          have k2 : (allocState z a n).batch = (allocState s a n).batch := by
            simp only [allocState, h2, h3]
          have k3 : (allocState z a n).lastTicketId = (allocState s a n).lastTicketId := by
            simp only [allocState, h3]
          have sh0 : AllocShape s (allocState s a n) := ⟨_, _, _, _, _, rfl⟩
          split at h
          · cases h
          split at h
          · split at h
            · cases h
            · obtain ⟨z', c1, c2, c3, c4, c5⟩ := ih _ (allocState z a n) _ _ _ _ _ _ _ _ _ _ _ h k1 k2 k3
              refine ⟨z', ?_, c2, c3, c4, sh0.trans (AllocShape.trans ⟨_, _, _, _, _, rfl⟩ c5)⟩
              simp only [createMany, hz]; exact c1
          · obtain ⟨z', c1, c2, c3, c4, c5⟩ := ih _ (allocState z a n) _ _ _ _ _ _ _ _ _ _ _ h k1 k2 k3
            refine ⟨z', ?_, c2, c3, c4, sh0.trans (AllocShape.trans ⟨_, _, _, _, _, rfl⟩ c5)⟩
            simp only [createMany, hz]; exact c1
        · simp only [if_pos hr, if_neg hb] at h; cases h
      · simp only [if_neg hr] at h; cases h

theorem v2_addTicketsV2_inv {t t' : Tx} {e : Env} {l : List (Nat × Nat × List (Nat × Nat))}
    (h : addTicketsV2 t e l = .ok t') :
    t.s.stage e = .addTickets ∧
    ∃ z', createMany (v2Proj l) t.s = .ok z' ∧
      ∃ wl u nw tg, t'.s =
        { t.s with range := z'.range, batch := z'.batch, lastTicketId := z'.lastTicketId,
                   whitelist := wl, uts := u, nrWinning := nw, totalGuaranteed := tg } := by
  unfold addTicketsV2 at h
  simp only [bind_ok_iff, requireStage, req_ok_iff, exists_const, Prod.exists, pure_ok_iff] at h
  obtain ⟨hst, s1, tw, tg, uc, ta, ga, hm, rfl⟩ := h
  refine ⟨by simpa using hst, ?_⟩
  obtain ⟨z', c1, c2, c3, c4, r, b, lt, wl, u, rfl⟩ :=
    v2_addV2Many_shadow e l t.s t.s _ _ _ _ _ _ _ _ _ _ _ hm rfl rfl rfl
  refine ⟨z', c1, wl, u, tw, tg, ?_⟩
  simp only [Tx.emit, Tx.setS]
  rw [c2, c3, c4]

theorem v2_addTickets {T0 : Nat} {hash : List Nat → List Nat} {s s' : State} {e : Env} {o : Out}
    {r : Nat} {l : List (Nat × Nat × List (Nat × Nat))} (h : WF2 T0 s r) (hr : r ≤ e.round)
    (hs : step hash s e (.addTicketsV2 l) = .ok (s', o)) : WF2 T0 s' e.round := by
  have hs0 := hs
  obtain ⟨t, hx, rfl⟩ := rb_step_np (by
    intro m hm; simp only [endpointMeta] at hm; split at hm
    · simp at hm; rw [← hm]
    · cases hm) hs
  simp only [exec] at hx
  obtain ⟨hst, s1, hcm, wl, u, nw, tg', heq⟩ := v2_addTicketsV2_inv hx
  simp only [rbTx_s] at hst hcm heq
  have hlt : e.round < s.cfg.conf := rb_stage_addTickets hst
  have hz : ∀ a, s.confirmed a = 0 := h.tlConf (by omega)
  have hns : s.flags.started = false := v2_notStarted_of_lt h hr (Or.inl hlt)
  obtain ⟨hna, hnsel, hgi, L0, hp, ha⟩ := v2_phase_notStarted h.phase hns
  obtain ⟨hres, hX', hvar'⟩ := v2_step_guar (c := .addTicketsV2 l) rfl (h.gx hns) hs0
  obtain ⟨hnd, hnone, _, hlast, hchain, hfr, hfb, _⟩ := createMany_ok (v2Proj l) s s1 hcm
  have hpos := v2Proj_pos l
  have hch := hchain hpos
  have hnew : ∀ a, a ∈ (v2Proj l).map Prod.fst → a ∉ L0.map Prod.fst := by
    intro a ha1 ha2
    obtain ⟨rr, hrr⟩ := rb_Chain_range_some ha.chain ha2
    have hn : s.range a = none := hnone a ha1
    have hrr' : s.range a = some rr := hrr
    rw [hn] at hrr'; cases hrr'
  have hl0 : s.lastTicketId = ticketTotal L0 := ha.last
  have hnrw : s.nrWinning = T0 - s.totalGuaranteed := hp.nrw
  have htg := h.tgLe
  rw [heq] at hres hX' ⊢
  have hres' : nw + tg' = s.nrWinning + s.totalGuaranteed := hres
  have hv2 : s.variant.isV2 = true := (v2_flags h.var).2.2.1
  refine ⟨h.var, h.pricePos, h.tokNe, h.balOther, fun _ => hz, ?_, ?_, fun _ => hX', ?_, ?_⟩
  rotate_right
  · refine LPI.early h.lp hna hna ?_ (fun _ => hz)
    show nw + tg' ≤ s.nrWinning + s.totalGuaranteed
    omega
  · intro hst2; have := h.tlStarted hst2; exact ⟨by omega, by omega⟩
  · show tg' ≤ T0; omega
  · left
    refine ⟨hna, hnsel, ?_, Or.inl ⟨L0 ++ v2Proj l,
      ⟨hp.notFiltered, hp.notSelected, ?_, hp.status0, hp.pos0, ⟨?_, ?_, ?_⟩, ?_, ?_, ?_⟩,
      Or.inl ⟨ha.notStarted, ha.op, ?_, ?_⟩⟩⟩
    · have hb : GuarInv s.variant.isV2 _ := hX'.base
      rw [hv2] at hb
      exact GI2.of_GuarInv hb
    · show nw = T0 - tg'; omega
    · rw [List.map_append, List.nodup_append]
      exact ⟨hp.ok.nodup, hnd, fun a ha1 b hb1 hab => hnew b hb1 (hab ▸ ha1)⟩
    · intro p hp1
      rcases List.mem_append.mp hp1 with hp1 | hp1
      · exact hp.ok.pos p hp1
      · exact hpos p hp1
    · intro p hp1
      rcases List.mem_append.mp hp1 with hp1 | hp1
      · exact hp.ok.le p hp1
      · show s.confirmed p.1 ≤ p.2; rw [hz]; omega
    · intro a _; exact hz a
    · intro a ha1
      rw [List.map_append, List.mem_append, not_or] at ha1
      show s1.range a = none
      rw [hfr a ha1.2]; exact hp.outR a ha1.1
    · show s.bal s.payTok 0 = s.price * sumOver s.confirmed ((L0 ++ v2Proj l).map Prod.fst)
      rw [sumOver_zero _ _ (fun a _ => hz a)]
      have : s.bal s.payTok 0 = s.price * sumOver s.confirmed (L0.map Prod.fst) := hp.pay
      rw [sumOver_zero _ _ (fun a _ => hz a)] at this
      exact this
    · show Chain (L0 ++ v2Proj l) 1 s1.range s1.batch
      rw [rb_Chain_append]
      constructor
      · apply rb_Chain_congr ha.chain hp.ok.pos
        · intro a ha1; exact hfr a (fun hh => hnew a hh ha1)
        · intro x _ hx2; exact hfb x (by omega)
      · rw [← hl0, Nat.add_comm]; exact hch
    · show s1.lastTicketId = ticketTotal (L0 ++ v2Proj l)
      rw [hlast, rb_ticketTotal_append, hl0]

/-! ### blacklist / refundUsers -/

theorem v2_eta_payers_bal (s : State) : { s with payers := s.payers, bal := s.bal } = s := rfl

/-- the effect of the v2 blacklist endpoints on a state before the filter -/
theorem v2_blacklisted {T0 : Nat} {s s' : State} {e : Env} {r : Nat} {l : List Nat}
    (h : WF2 T0 s r) (hr : r ≤ e.round)
    (hadd : addUsersToBlacklist (rbTx s e) e l = .ok (blTx (rbTx s e) e l))
    (hk : GHook l (blState s l) s') (hrs : RStep s s') : WF2 T0 s' e.round := by
  obtain ⟨_, hstage, hnd, hall, hle, _⟩ := (addUsersToBlacklist_ok_iff _ _ _ _).mp hadd
  simp only [rbTx_s] at hstage hall hle
  have hns : s.flags.started = false := by
    rcases hstage with h1 | h1
    · exact v2_notStarted_of_lt h hr (Or.inl (rb_stage_addTickets h1))
    · exact v2_notStarted_of_lt h hr (Or.inr (rb_stage_confirm h1).2)
  obtain ⟨hna, hnsel, hgi, L0, hp, ha⟩ := v2_phase_notStarted h.phase hns
  have hall' : ∀ u ∈ l, u ∈ L0.map Prod.fst := by
    intro u hu
    apply Classical.byContradiction
    intro hnin
    have h1 : s.range u = none := hp.outR u hnin
    have h2 := (hall u hu).2
    rw [h1] at h2; cases h2
  have hsum := rb_sumOver_blacklist l s.confirmed (L0.map Prod.fst) hp.ok.nodup hnd hall'
  obtain ⟨⟨wl, u, b, nw, tg', rfl⟩, _⟩ := hk
  obtain ⟨hres, hX', _⟩ := hrs
  have hres' : nw + tg' = s.nrWinning + s.totalGuaranteed := hres
  have hnrw : s.nrWinning = T0 - s.totalGuaranteed := hp.nrw
  have htg := h.tgLe
  have hv2 : s.variant.isV2 = true := (v2_flags h.var).2.2.1
  have hlj : ({ s.lproj with lpBal := (s.bal.sub s.payTok 0 (s.price * blConfSum s l)) (.esdt s.lpTok) 0 }
      : LProj) = s.lproj := by
    have : (s.bal.sub s.payTok 0 (s.price * blConfSum s l)) (.esdt s.lpTok) 0 = s.bal (.esdt s.lpTok) 0 := by
      have hne : Token.esdt s.lpTok ≠ s.payTok := fun hh => h.tokNe hh.symm
      simp [Bal.sub, hne]
    rw [this]; rfl
  refine ⟨h.var, h.pricePos, h.tokNe, ?_, ?_, ?_, ?_, fun _ => hX', ?_, ?_⟩
  rotate_right
  · show LPI _ ({ s.lproj with lpBal := (s.bal.sub s.payTok 0 (s.price * blConfSum s l)) (.esdt s.lpTok) 0 }
      : LProj)
    rw [hlj]
    refine LPI.early h.lp hna hna ?_ (fun hq a => ?_)
    · show nw + tg' ≤ s.nrWinning + s.totalGuaranteed
      omega
    · show (if a ∈ l then 0 else s.confirmed a) = 0
      split
      · rfl
      · exact (h.lp.nodep hq).1 a
  · intro t h1 h2
    show (s.bal.sub s.payTok 0 (s.price * blConfSum s l)) t 0 = 0
    have h1' : t ≠ s.payTok := h1
    simp only [Bal.sub, and_true]
    rw [if_neg h1']
    exact h.balOther t h1 h2
  · intro hlt a
    show (if a ∈ l then 0 else s.confirmed a) = 0
    split
    · rfl
    · exact h.tlConf (by have : e.round < s.cfg.conf := hlt; omega) a
  · intro hst2
    have := h.tlStarted hst2
    show s.cfg.conf ≤ e.round ∧ s.cfg.sel ≤ e.round
    omega
  · show tg' ≤ T0; omega
  · left
    refine ⟨hna, hnsel, ?_, Or.inl ⟨L0, ⟨hp.notFiltered, hp.notSelected, ?_, hp.status0, hp.pos0,
      ⟨hp.ok.nodup, hp.ok.pos, ?_⟩, ?_, hp.outR, ?_⟩,
      Or.inl ⟨ha.notStarted, ha.op, ha.chain, ha.last⟩⟩⟩
    · have hb : GuarInv s.variant.isV2 _ := hX'.base
      rw [hv2] at hb
      exact GI2.of_GuarInv hb
    · show nw = T0 - tg'; omega
    · intro p hp1
      show (if p.1 ∈ l then 0 else s.confirmed p.1) ≤ p.2
      split
      · omega
      · exact hp.ok.le p hp1
    · intro a ha1
      show (if a ∈ l then 0 else s.confirmed a) = 0
      split
      · rfl
      · exact hp.outC a ha1
    · show (s.bal.sub s.payTok 0 (s.price * blConfSum s l)) s.payTok 0
        = s.price * sumOver (fun a => if a ∈ l then 0 else s.confirmed a) (L0.map Prod.fst)
      have hpay : s.bal s.payTok 0 = s.price * sumOver s.confirmed (L0.map Prod.fst) := hp.pay
      simp only [Bal.sub, and_self, if_true]
      unfold blConfSum at hle ⊢
      rw [hpay, ← hsum, Nat.mul_add]
      omega

theorem v2_blacklist {T0 : Nat} {hash : List Nat → List Nat} {s s' : State} {e : Env} {o : Out}
    {r : Nat} {l : List Nat} (h : WF2 T0 s r) (hr : r ≤ e.round)
    (hs : step hash s e (.blacklist l) = .ok (s', o)) : WF2 T0 s' e.round := by
  have hs0 := hs
  obtain ⟨t, hx, rfl⟩ := rb_step_np (by intro m hm; simp [endpointMeta] at hm; rw [← hm]) hs
  obtain ⟨hadd, _, _, _, _, _, s1, py, bal, hk, heq, hnft⟩ := exec_blacklist_out hx
  obtain ⟨e1, e2⟩ := hnft (by simp only [rbTx_s]; exact (v2_flags h.var).2.1)
  subst e1 e2
  have heq : t.s = s1 := heq
  have hstage := ((addUsersToBlacklist_ok_iff _ _ _ _).mp hadd).2.1
  simp only [rbTx_s] at hstage
  have hns : s.flags.started = false := by
    rcases hstage with h1 | h1
    · exact v2_notStarted_of_lt h hr (Or.inl (rb_stage_addTickets h1))
    · exact v2_notStarted_of_lt h hr (Or.inr (rb_stage_confirm h1).2)
  have hrs := v2_step_guar (c := .blacklist l) rfl (h.gx hns) hs0
  rw [heq] at hrs ⊢
  exact v2_blacklisted h hr hadd hk hrs

theorem v2_refundUsers {T0 : Nat} {hash : List Nat → List Nat} {s s' : State} {e : Env} {o : Out}
    {r : Nat} {l : List Nat} (h : WF2 T0 s r) (hr : r ≤ e.round)
    (hs : step hash s e (.refundUsers l) = .ok (s', o)) : WF2 T0 s' e.round := by
  have hs0 := hs
  obtain ⟨t, hx, rfl⟩ := rb_step_np (by
    intro m hm; simp only [endpointMeta] at hm; split at hm
    · simp at hm; rw [← hm]
    · cases hm) hs
  obtain ⟨hadd, _, _, hk⟩ := exec_refundUsers_out hx
  have hstage := ((addUsersToBlacklist_ok_iff _ _ _ _).mp hadd).2.1
  simp only [rbTx_s] at hstage
  have hns : s.flags.started = false := by
    rcases hstage with h1 | h1
    · exact v2_notStarted_of_lt h hr (Or.inl (rb_stage_addTickets h1))
    · exact v2_notStarted_of_lt h hr (Or.inr (rb_stage_confirm h1).2)
  have hrs := v2_step_guar (c := .refundUsers l) rfl (h.gx hns) hs0
  exact v2_blacklisted h hr hadd hk hrs

/-! ### un-blacklisting -/

theorem v2_unblacklist {T0 : Nat} {hash : List Nat → List Nat} {s s' : State} {e : Env} {o : Out}
    {r : Nat} {l : List Nat} (h : WF2 T0 s r) (hr : r ≤ e.round)
    (hs : step hash s e (.unblacklist l) = .ok (s', o)) : WF2 T0 s' e.round := by
  have hs0 := hs
  obtain ⟨t, hx, rfl⟩ := rb_step_np (by
    intro m hm; simp only [endpointMeta] at hm; split at hm
    · simp at hm; rw [← hm]
    · cases hm) hs
  obtain ⟨hrem, hk, _⟩ := exec_unblacklist_out hx
  obtain ⟨_, hstage, _⟩ := (removeUsersFromBlacklist_ok_iff _ _ _ _).mp hrem
  simp only [rbTx_s] at hstage hk
  have hns : s.flags.started = false := by
    rcases hstage with h1 | h1
    · exact v2_notStarted_of_lt h hr (Or.inl (rb_stage_addTickets h1))
    · exact v2_notStarted_of_lt h hr (Or.inr (rb_stage_confirm h1).2)
  obtain ⟨hres, hX', _⟩ := v2_step_guar (c := .unblacklist l) rfl (h.gx hns) hs0
  obtain ⟨hna, hnsel, hgi, L0, hp, ha⟩ := v2_phase_notStarted h.phase hns
  obtain ⟨⟨wl, u, b, nw, tg', heq⟩, _⟩ := hk
  rw [heq] at hres hX' ⊢
  have hres' : nw + tg' = s.nrWinning + s.totalGuaranteed := hres
  have hnrw : s.nrWinning = T0 - s.totalGuaranteed := hp.nrw
  have htg := h.tgLe
  have hv2 : s.variant.isV2 = true := (v2_flags h.var).2.2.1
  refine ⟨h.var, h.pricePos, h.tokNe, h.balOther, fun hlt => h.tlConf (by
      have : e.round < s.cfg.conf := hlt; omega), ?_, ?_, fun _ => hX', ?_, ?_⟩
  rotate_right
  · refine LPI.early h.lp hna hna ?_ (fun hq => (h.lp.nodep hq).1)
    show nw + tg' ≤ s.nrWinning + s.totalGuaranteed
    omega
  · intro hst2
    have := h.tlStarted hst2
    show s.cfg.conf ≤ e.round ∧ s.cfg.sel ≤ e.round
    omega
  · show tg' ≤ T0; omega
  · left
    refine ⟨hna, hnsel, ?_, Or.inl ⟨L0, ⟨hp.notFiltered, hp.notSelected, ?_, hp.status0, hp.pos0,
      hp.ok, hp.outC, hp.outR, hp.pay⟩, Or.inl ⟨ha.notStarted, ha.op, ha.chain, ha.last⟩⟩⟩
    · have hb : GuarInv s.variant.isV2 _ := hX'.base
      rw [hv2] at hb
      exact GI2.of_GuarInv hb
    · show nw = T0 - tg'; omega

end LP
