import LP.Proofs.ReachV1Claim
/-
  LP.Proofs.ReachV1Base — reachable states of the v1 guaranteed-ticket launchpads on the common
  claim path (`Variant.migration`; also `Variant.lockedGuar`) and the inductive invariant `v1_WF`
  over them:

      v1_init_WF   (LP/Proofs/ReachV1WF.lean)   deployment establishes `v1_WF`
      v1_call_WF                                  every accepted call keeps `v1_WF`
      v1_wait_WF   (LP/Proofs/ReachV1WF.lean)   the passing of time keeps `v1_WF`
      v1_reach_WF                                 hence `v1_WF` holds in every reachable state

  RESTRICTION (explicit in the `call` constructor through `v1_CallOK`): every entry of an
  `addTicketsV1` call allocates at least one ticket, `1 ≤ staking + energy`.  A zero-size entry
  `(a, 0, 0, false)` creates the empty range `[f, f-1]` and a batch slot that the next allocation
  overwrites; such histories are excluded, as in the plain development.  Nothing else is
  restricted: in particular `distribute`, `filter` and `select` may be interrupted by ANY budget.
-/
namespace LP
open LP.FY

/-- the endpoints the family does not expose are rejected by the dispatcher -/
theorem v1_exposed {hash : List Nat → List Nat} {s s' : State} {e : Env} {c : Call} {o : Out}
    (hv : v1_Fam s.variant) (hs : step hash s e c = .ok (s', o)) :
    match c with
    | .addTickets _ | .addTicketsV2 _ | .refundUsers _
    | .setSchedule1 .. | .setSchedule2 _ | .confirmNft | .selectNft | .secondary | .setNftCost _
    | .issueSft | .createSfts | .setTransferRole _ | .sftSetup => False
    | _ => True := by
  obtain ⟨m, t, hm, _⟩ := step_ok_inv hs
  rcases hv with hv | hv <;> rw [hv] at hm <;> cases c <;> first | trivial | (simp [endpointMeta, Variant.v1Alloc, Variant.isV2, Variant.hasUnblacklist, Variant.hasGuaranteed, Variant.hasNft] at hm)

/-- **preservation**: every accepted call keeps the invariant -/
theorem v1_call_WF {T0 : Nat} {hash : List Nat → List Nat} {s s' : State} {e : Env} {c : Call}
    {o : Out} {r : Nat} (h : v1_WF T0 s r) (hr : r ≤ e.round) (hok : EnvOK e) (hc : v1_CallOK c)
    (hs : step hash s e c = .ok (s', o)) : v1_WF T0 s' e.round := by
  have hex := v1_exposed h.var hs
  cases c with
  | addTicketsV1 l => exact v1_addTicketsV1 h hr hc hs
  | deposit => exact v1_deposit h hr hok hs
  | setTicketPrice tok a => exact v1_setTicketPrice h hr hs
  | setPerTicket a => exact v1_setPerTicket h hr hs
  | setConfStart x => exact v1_setConfStart h hr hs
  | setSelStart x => exact v1_setSelStart h hr hs
  | setClaimStart x => exact v1_setClaimStart h hr hs
  | setSupport a => exact v1_setSupport h hr hs
  | pause => exact v1_pause h hr hs
  | unpause => exact v1_unpause h hr hs
  | confirm n => exact v1_confirm h hr hok hs
  | filter => exact v1_filter h hr hs
  | select => exact v1_select h hr hs
  | distribute => exact v1_distribute h hr hs
  | claim => exact v1_claim h hr hs
  | claimPayment => exact v1_claimPayment h hr hs
  | blacklist l => exact v1_blacklist h hr hs
  | unblacklist l => exact v1_unblacklist h hr hs
  | _ => exact absurd hex id

/-! ### reachable states -/

/-- states reachable from a deployment with arguments `a0`, paired with the round of the latest
    transaction (`wait` lets rounds pass without a transaction) -/
inductive v1_ReachA (hash : List Nat → List Nat) (v : Variant) (a0 : InitArgs) : State → Nat → Prop
  | init (e : Env) (s : State) : init v a0 e = .ok s → v1_ReachA hash v a0 s e.round
  | call (s : State) (r : Nat) (e : Env) (c : Call) (s' : State) (o : Out) :
      v1_ReachA hash v a0 s r → r ≤ e.round → EnvOK e → v1_CallOK c →
      step hash s e c = .ok (s', o) → v1_ReachA hash v a0 s' e.round
  | wait (s : State) (r r' : Nat) : v1_ReachA hash v a0 s r → r ≤ r' → v1_ReachA hash v a0 s r'

/-- states reachable by the launchpad `v` from any deployment -/
inductive v1_Reach (hash : List Nat → List Nat) (v : Variant) : State → Nat → Prop
  | init (a : InitArgs) (e : Env) (s : State) : init v a e = .ok s → v1_Reach hash v s e.round
  | call (s : State) (r : Nat) (e : Env) (c : Call) (s' : State) (o : Out) :
      v1_Reach hash v s r → r ≤ e.round → EnvOK e → v1_CallOK c →
      step hash s e c = .ok (s', o) → v1_Reach hash v s' e.round
  | wait (s : State) (r r' : Nat) : v1_Reach hash v s r → r ≤ r' → v1_Reach hash v s r'

theorem v1_Reach_iff {hash : List Nat → List Nat} {v : Variant} {s : State} {r : Nat} :
    v1_Reach hash v s r ↔ ∃ a0, v1_ReachA hash v a0 s r := by
  constructor
  · intro h
    induction h with
    | init a e s h => exact ⟨a, .init e s h⟩
    | call s r e c s' o _ h1 h2 h3 h4 ih =>
      obtain ⟨a0, ih⟩ := ih
      exact ⟨a0, .call s r e c s' o ih h1 h2 h3 h4⟩
    | wait s r r' _ h1 ih =>
      obtain ⟨a0, ih⟩ := ih
      exact ⟨a0, .wait s r r' ih h1⟩
  · rintro ⟨a0, h⟩
    induction h with
    | init e s h => exact .init a0 e s h
    | call s r e c s' o _ h1 h2 h3 h4 ih => exact .call s r e c s' o ih h1 h2 h3 h4
    | wait s r r' _ h1 ih => exact .wait s r r' ih h1

/-- the invariant holds in every reachable state -/
theorem v1_reach_WF {hash : List Nat → List Nat} {v : Variant} (hv : v1_Fam v) {a0 : InitArgs}
    {s : State} {r : Nat} (h : v1_ReachA hash v a0 s r) : v1_WF a0.nrWinning s r := by
  induction h with
  | init e s h => exact v1_init_WF hv h
  | call s r e c s' o _ h1 h2 h3 h4 ih => exact v1_call_WF ih h1 h2 h3 h4
  | wait s r r' _ h1 ih => exact v1_wait_WF ih h1

/-! ### the ledger read off the invariant -/

theorem v1_WF_ledger {T0 : Nat} {s : State} {r : Nat} (h : v1_WF T0 s r) :
    ∃ L : List Nat, Covers s L ∧ (¬ AllDone s → PayEqPre s L) ∧
      (AllDone s → PayEqPost s L ∧ sumOver (winCountOf s) L = s.nrWinning ∧
        (∀ a, winCountOf s a ≤ s.confirmed a) ∧
        (∀ a rg, s.range a = some rg → a ∈ L ∧ rg.first ≤ rg.last ∧
          rg.last + 1 = rg.first + s.confirmed a)) := by
  have key : ∀ Ls : List (Nat × Nat), (Ls.map Prod.fst).Nodup →
      (∀ a, a ∉ Ls.map Prod.fst → s.confirmed a = 0) → PayPre s.core (Ls.map Prod.fst) →
      s.flags.additional = false →
      ∃ L : List Nat, Covers s L ∧ (¬ AllDone s → PayEqPre s L) ∧
        (AllDone s → PayEqPost s L ∧ sumOver (winCountOf s) L = s.nrWinning ∧
          (∀ a, winCountOf s a ≤ s.confirmed a) ∧
          (∀ a rg, s.range a = some rg → a ∈ L ∧ rg.first ≤ rg.last ∧
            rg.last + 1 = rg.first + s.confirmed a)) := by
    intro Ls hnd hout hpay hna
    refine ⟨Ls.map Prod.fst, ⟨hnd, ?_⟩, fun _ => hpay, ?_⟩
    · intro a ha
      apply Classical.byContradiction
      intro hin
      exact ha (hout a hin)
    · intro hd
      have h1 : s.flags.additional = true := hd.2
      rw [hna] at h1; cases h1
  rcases h.phase with ⟨hna, _, ⟨L0, hp, _⟩ | ⟨hC, _⟩ | hE⟩ | ⟨ha, hD⟩
  · exact key L0 hp.ok.nodup hp.outC hp.pay hna
  · obtain ⟨Ls, hnd, _, _, _, hout, hpay⟩ := hC.alloc
    exact key Ls hnd (fun a ha => (hout a ha).2) hpay hna
  · obtain ⟨Ls, hnd, _, _, _, hout, hpay⟩ := hE.alloc
    exact key Ls hnd (fun a ha => (hout a ha).2) hpay hna
  · obtain ⟨L, hnd, hsupp, hpost, hwin⟩ := hD.led
    refine ⟨L, ⟨hnd, hsupp⟩, ?_, fun _ => ⟨(rb_PayPost_iff s L).mpr hpost, hwin, ?_, ?_⟩⟩
    · intro hnd
      exact absurd ⟨hD.selected, ha⟩ hnd
    · intro a
      show winOf s.range s.status a ≤ s.confirmed a
      cases hr : s.range a with
      | none => simp [winOf, hr]
      | some rg => exact rb_winOf_le hr (hD.rngOk a rg hr).2
    · intro a rg hr
      obtain ⟨h1, h2⟩ := hD.rngOk a rg hr
      have h2' : rg.last + 1 = rg.first + s.confirmed a := h2
      exact ⟨hsupp a (by show s.confirmed a ≠ 0; omega), h1, h2'⟩

end LP

#print axioms LP.v1_init_WF
#print axioms LP.v1_call_WF
#print axioms LP.v1_wait_WF
#print axioms LP.v1_reach_WF
