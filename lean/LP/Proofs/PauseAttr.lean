import Lean
/-
  LP.Proofs.PauseAttr — the simp set `setp` used by LP.Proofs.PauseFrame: projections of
  `State.setP` / `Tx.setP` and the laws pushing `mapR` through the `Res` monad.
-/
register_simp_attr setp
