import LP.Proofs.ReachG1Alloc
/-
  LP.Proofs.ReachG1Filter — preservation of `g1_WF` (`Variant.guarV1`) by `filterTickets`,
  interrupted or completed (same proof as `LP/Proofs/ReachV1Filter.lean`).
-/
namespace LP
open LP.FY

theorem g1_filter {T0 : Nat} {hash : List Nat → List Nat} {s s' : State} {e : Env} {o : Out}
    {r : Nat} (h : g1_WF T0 s r) (_hr : r ≤ e.round)
    (hs : step hash s e .filter = .ok (s', o)) : g1_WF T0 s' e.round := by
  obtain ⟨t, hx, rfl⟩ := rb_step_np (by intro m hm; simp [endpointMeta] at hm; rw [← hm]) hs
  simp only [exec] at hx
  obtain ⟨hpre, x, f, b, hxs, hcase⟩ := rb_filterTickets_cases hx
  simp only [rbTx_s] at hpre hxs hcase
  obtain ⟨hc1, hc2⟩ := rb_stage_winnerSelection hpre.stage
  obtain ⟨hadd, htg, L0, hp, hab⟩ := v1_phase_notFiltered h.phase hpre.notFiltered
  have hadd' : s.flags.additional = false := hadd
  have hgw : v1_GW (v1_gv s) := by
    rcases hab with ⟨_, hg⟩ | ⟨_, hg⟩
    · exact hg.toGW
    · exact hg
  have hmid : Mid s.confirmed s.lastTicketId L0 x ∧ (x.first = 1 ∨ s.flags.started = true) := by
    rcases hab with ⟨ha, _⟩ | ⟨hb, _⟩
    · have hop : s.op = .none := ha.op
      simp only [filStOf, hop, Option.some.injEq] at hxs
      subst hxs
      have hl : s.lastTicketId = ticketTotal L0 := ha.last
      rw [hl]
      exact ⟨rb_Mid_start ha.chain hp.outR, Or.inl rfl⟩
    · obtain ⟨f0, rm, hop, hm⟩ := hb.mid
      have hop' : s.op = .filter f0 rm := hop
      simp only [filStOf, hop', Option.some.injEq] at hxs
      subst hxs
      exact ⟨hm, Or.inr hb.started⟩
  obtain ⟨hmid, hfirst⟩ := hmid
  have hok : AllocOK s.confirmed L0 := hp.ok
  have hloop := fun b' st (hrun : runWhile (filterBody s.confirmed s.lastTicketId)
      (s.lastTicketId + 2) (rbTx s e).c.budget x = .ok (f, b', st)) =>
    rb_runWhile_inv (Mid s.confirmed s.lastTicketId L0) (filterBody s.confirmed s.lastTicketId)
      (fun y y' hb hm => rb_filterBody_Mid hok hb hm) _ _ _ _ _ _ hrun hmid
  obtain ⟨hff, hfs, hfa⟩ := rb_filterFlags s x.first
  rcases hcase with ⟨hrun, hs'⟩ | ⟨hrun, hle, hs'⟩
  · -- interrupted
    have hmf : Mid s.confirmed s.lastTicketId L0 f := (hloop _ _ hrun).1 rfl
    have houtR := hmf.choose_spec.choose_spec.2.2.2.2.2.2.2
    rw [hs']
    refine ⟨h.var, h.pricePos, h.tokNe, h.static, h.balOther, ?_, ?_, ?_, ?_⟩
    · intro hlt; exfalso; have : e.round < s.cfg.conf := hlt; omega
    · intro _; exact ⟨hc1, hc2⟩
    · exact g1_vs_early (s' := filterSaved s x f) h _hr hadd' (by show (filterFlags s x.first).additional = false; rw [hfa]; exact hadd')
        rfl rfl (Nat.le_refl _) (fun hq => (h.vs.lp.nodep hq).1)
    · left
      refine ⟨?_, htg, Or.inl ⟨L0, ⟨?_, ?_, hp.nrw, hp.status0, hp.pos0, hp.ok, hp.outC, houtR, hp.pay⟩,
        Or.inr ⟨⟨?_, ?_⟩, hgw⟩⟩⟩
      · show (filterFlags s x.first).additional = false
        rw [hfa]; exact hadd'
      · show (filterFlags s x.first).filtered = false
        rw [hff]; exact hpre.notFiltered
      · show (filterFlags s x.first).selected = false
        rw [hfs]; exact hp.notSelected
      · exact filterFlags_started s x.first hfirst
      · exact ⟨f.first, f.removed, rfl, hmf⟩
  · -- completed
    obtain ⟨y, hmy, hby⟩ := (hloop _ _ hrun).2 rfl
    obtain ⟨hy1, hyf⟩ := rb_filterBody_false hby
    subst hyf
    obtain ⟨hch, hrem, hlast, hzero, hout⟩ := rb_Mid_final hok hmy hy1
    have hcd := confSum_add_droppedSum s.confirmed L0 hok.le
    have hnew : s.lastTicketId - f.removed = ticketTotal (survivors s.confirmed L0) := by
      rw [ticketTotal_survivors, hrem]; omega
    have hnrw : s.nrWinning = T0 - s.totalGuaranteed := hp.nrw
    rw [hs']
    refine ⟨h.var, h.pricePos, h.tokNe, h.static, h.balOther, ?_, ?_, ?_, ?_⟩
    · intro hlt; exfalso; have : e.round < s.cfg.conf := hlt; omega
    · intro _; exact ⟨hc1, hc2⟩
    · refine g1_vs_early (s' := filterDone s x f) h _hr hadd' (by show (filterFlags s x.first).additional = false; rw [hfa]; exact hadd')
        rfl rfl ?_ (fun hq => (h.vs.lp.nodep hq).1)
      show (if s.nrWinning > s.lastTicketId - f.removed then s.lastTicketId - f.removed
              else s.nrWinning) + s.totalGuaranteed ≤ s.nrWinning + s.totalGuaranteed
      split <;> omega
    · left
      refine ⟨?_, htg, Or.inr (Or.inl ⟨⟨filterFlags_started s x.first hfirst, rfl, ?_, ?_, ?_,
        Or.inl ⟨rfl, hp.status0, hp.pos0⟩⟩, hgw⟩)⟩
      · show (filterFlags s x.first).additional = false
        rw [hfa]; exact hadd'
      · show (filterFlags s x.first).selected = false
        rw [hfs]; exact hp.notSelected
      · show (if s.nrWinning > s.lastTicketId - f.removed then s.lastTicketId - f.removed
              else s.nrWinning) = min (T0 - s.totalGuaranteed) (s.lastTicketId - f.removed)
        rw [hnrw]; split <;> omega
      · refine ⟨survivors s.confirmed L0, survivors_nodup _ _ hok.nodup, ?_, hch, hnew, ?_, ?_⟩
        · intro p hp1
          obtain ⟨_, h2, h3⟩ := mem_survivors hp1
          exact ⟨by omega, h2⟩
        · intro a ha
          by_cases hin : a ∈ L0.map Prod.fst
          · obtain ⟨p, hp1, hpa⟩ := List.mem_map.mp hin
            have hc0 : s.confirmed p.1 = 0 := by
              apply Classical.byContradiction
              intro hne
              exact ha (hpa ▸ rb_mem_survivors_of_pos hp1 hne)
            subst hpa
            exact ⟨hzero p hp1 hc0, hc0⟩
          · exact ⟨hout a hin, hp.outC a hin⟩
        · show s.bal s.payTok 0 = s.price * sumOver s.confirmed ((survivors s.confirmed L0).map Prod.fst)
          rw [rb_sumOver_survivors]
          exact hp.pay

end LP
