import LP.Proofs.ReachBEAll
import LP.Proofs.ClaimedFrame
import LP.Proofs.Frame
/-
  LP.Proofs.AllocReach — ticket allocation (C18, C07) at the level of reachable states, for all
  eight launchpads (`be_Covered`).

  PART I — frame pass for the ticket-space projection `TK` = (`range`, `batch`, `lastTicketId`):
  * `exec_tk_eq`         every endpoint other than the three allocation endpoints, `filter` and
                         `claim` leaves the ticket space unchanged;
  * `filterTickets_selected`, `TKShrink`, `exec_claim_shrink`  `claim` only deletes records.

  PART II — facts read off the phase invariants of the reachable-state developments:
  * `ar_Part c L`  the allocation list `L` partitions the ticket space `1..lastTicketId` of the
                   projection `c`; consequences `ar_Part.bounds/.disj/.cover/.sum`;
  * `ar_Tix c`     before the filter starts there is such a list with `confirmed ≤ size`,
                   after the filter completed (lottery not complete) there is one with
                   `size = confirmed`; before the filter completes `confirmed ≤ size of the range`
                   and the bounds (also while the filter is interrupted); after it
                   `size = confirmed`, ranges pairwise disjoint;
  * `ar_Tix_of_…`  it follows from each phase / each family's invariant; `ar_tix_covered`;
  * `ar_Good`, `ar_good_covered`   + "filtered ⇒ started ⇒ the selection period has begun";
  * `ar_allocList`, `ar_exec_alloc`, `ar_step_alloc`, `ar_step_alloc_exact`  the three allocation
                   endpoints allocate like `createMany` on their list;
  * `ar_step_keeps`, `ar_later_keeps`  records are kept exactly until the selection period begins;
  * `ar_Bnd`, `ar_bnd_step`, `ar_bnd_covered`  every record lies inside `1..lastTicketId` in EVERY
                   reachable state (induction over the four `…Reach` relations);
  * `ar_part_dist` guarV2 / migration / lockedGuar / guarV1: the partition survives the base
                   lottery until the distribution step completes.
-/
/- PART I (frame pass) -/
/-
  LP.Proofs.AllocFrame — frame pass for the ticket-space projection `TK` = (`range`, `batch`,
  `lastTicketId`): every helper keeps it except `tryCreateTickets` (allocation), `filterTickets`
  and `settle` (claim).  (generated from the `_claimed` lemmas of ClaimedFrame.lean; same scripts)
-/
namespace LP

/-- the ticket space -/
structure TK where
  range : Nat → Option Range
  batch : Nat → Option Batch
  lastTicketId : Nat

@[reducible] def State.tk (s : State) : TK := ⟨s.range, s.batch, s.lastTicketId⟩

theorem tk_range {s s' : State} (h : s'.tk = s.tk) : s'.range = s.range := congrArg TK.range h
theorem tk_batch {s s' : State} (h : s'.tk = s.tk) : s'.batch = s.batch := congrArg TK.batch h
theorem tk_last {s s' : State} (h : s'.tk = s.tk) : s'.lastTicketId = s.lastTicketId :=
  congrArg TK.lastTicketId h


/-! ### launchpad-common helpers -/

theorem depositLaunchpadTokens_tk {s s' : State} {e : Env} {tw : Nat}
    (h : depositLaunchpadTokens s e tw = .ok s') : s'.tk = s.tk := by
  unfold depositLaunchpadTokens at h
  simp only [bind_ok_iff, pure_ok_iff, req_ok_iff, exists_const, Prod.exists] at h
  obtain ⟨_, _, _, _, _, _, rfl⟩ := h
  rfl

theorem trySetTicketPrice_tk {s s' : State} {tok : Token} {amount : Nat}
    (h : trySetTicketPrice s tok amount = .ok s') : s'.tk = s.tk := by
  unfold trySetTicketPrice at h
  simp only [bind_ok_iff, pure_ok_iff, req_ok_iff, exists_const] at h
  obtain ⟨_, _, _, rfl⟩ := h
  rfl

theorem confirmTickets_tk {t t' : Tx} {e : Env} {n : Nat}
    (h : confirmTickets t e n = .ok t') : t'.s.tk = t.s.tk := by
  unfold confirmTickets at h
  simp only [bind_ok_iff, pure_ok_iff, req_ok_iff, exists_const, Prod.exists] at h
  obtain ⟨_, _, _, _, _, _, _, _, _, _, _, _, _, rfl⟩ := h
  rfl

theorem selectWinners_tk {hash : List Nat → List Nat} {t t' : Tx} {e : Env}
    (h : selectWinners hash t e = .ok t') : t'.s.tk = t.s.tk := by
  unfold selectWinners at h
  simp only [bind_ok_iff, req_ok_iff, requireStage, ownerOrUser, exists_const] at h
  obtain ⟨_, _, _, _, _, h⟩ := h
  split at h
  · simp only [bind_ok_iff, pure_ok_iff, Prod.exists, Prod.mk.injEq] at h
    obtain ⟨rng, pos, t0, _, x, b, st, _, h⟩ := h
    cases st with
    | completed => simp only [pure_ok_iff] at h; subst h; rfl
    | interrupted => simp only [pure_ok_iff] at h; subst h; rfl
    | outOfFuel => cases h
  · simp only [bind_ok_iff, pure_ok_iff, Prod.exists, Prod.mk.injEq] at h
    obtain ⟨rng, pos, t0, _, x, b, st, _, h⟩ := h
    cases st with
    | completed => simp only [pure_ok_iff] at h; subst h; rfl
    | interrupted => simp only [pure_ok_iff] at h; subst h; rfl
    | outOfFuel => cases h
  · simp [bind, Except.bind] at h

/-! ### blacklist -/

theorem blacklistMany_tk (e : Env) : ∀ (l : List Nat) {t t' : Tx},
    blacklistMany e l t = .ok t' → t'.s.tk = t.s.tk
  | [], t, t', h => by simp only [blacklistMany, Except.ok.injEq] at h; rw [h]
  | a :: rest, t, t', h => by
    unfold blacklistMany at h
    split at h
    · cases h
    · split at h
      · cases h
      · simp only at h
        split at h
        · cases h
        · rename_i t1 h1
          rw [blacklistMany_tk e rest h]
          have ht1 : t1.s.tk = t.s.tk := by
            split at h1
            · rw [refund_ok_iff] at h1
              rw [h1.2, refundResult_state]
            · cases h1; rfl
          simp only [Tx.setS]
          split <;> exact ht1

theorem addUsersToBlacklist_tk {t t' : Tx} {e : Env} {l : List Nat}
    (h : addUsersToBlacklist t e l = .ok t') : t'.s.tk = t.s.tk := by
  unfold addUsersToBlacklist at h
  simp only [bind_ok_iff, req_ok_iff, extendedPermissions, exists_const] at h
  obtain ⟨_, _, h⟩ := h
  exact blacklistMany_tk e l h

theorem unblacklistMany_tk : ∀ (l : List Nat) {s s' : State},
    unblacklistMany l s = .ok s' → s'.tk = s.tk
  | [], s, s', h => by simp only [unblacklistMany, Except.ok.injEq] at h; rw [h]
  | a :: rest, s, s', h => by
    unfold unblacklistMany at h
    split at h
    · rw [unblacklistMany_tk rest h]
    · cases h

theorem removeUsersFromBlacklist_tk {s s' : State} {e : Env} {l : List Nat}
    (h : removeUsersFromBlacklist s e l = .ok s') : s'.tk = s.tk := by
  unfold removeUsersFromBlacklist at h
  simp only [bind_ok_iff, req_ok_iff, extendedPermissions, exists_const] at h
  obtain ⟨_, _, h⟩ := h
  exact unblacklistMany_tk l h

theorem clearV1Many_tk : ∀ (l : List Nat) {acc acc' : State × Nat × Nat},
    clearV1Many l acc = .ok acc' → acc'.1.tk = acc.1.tk
  | [], acc, acc', h => by simp only [clearV1Many, Except.ok.injEq] at h; rw [h]
  | u :: rest, (s, removed, tg), acc', h => by
    unfold clearV1Many at h
    repeat' (first | split at h | simp only at h)
    all_goals first
      | (cases h; done)
      | (rw [clearV1Many_tk rest h])

theorem clearGuaranteedV1_tk {s s' : State} {l : List Nat}
    (h : clearGuaranteedV1 s l = .ok s') : s'.tk = s.tk := by
  unfold clearGuaranteedV1 at h
  simp only [bind_ok_iff, pure_ok_iff, Prod.exists] at h
  obtain ⟨s1, a, b, h1, rfl⟩ := h
  exact clearV1Many_tk l h1

theorem clearV2Many_tk : ∀ (l : List Nat) {acc acc' : State × Nat × Nat},
    clearV2Many l acc = .ok acc' → acc'.1.tk = acc.1.tk
  | [], acc, acc', h => by simp only [clearV2Many, Except.ok.injEq] at h; rw [h]
  | u :: rest, (s, nw, tg), acc', h => by
    unfold clearV2Many at h
    repeat' (first | split at h | simp only at h)
    all_goals first
      | (cases h; done)
      | (rw [clearV2Many_tk rest h])

theorem clearGuaranteedV2_tk {s s' : State} {l : List Nat}
    (h : clearGuaranteedV2 s l = .ok s') : s'.tk = s.tk := by
  unfold clearGuaranteedV2 at h
  simp only [bind_ok_iff, pure_ok_iff, Prod.exists] at h
  obtain ⟨s1, a, b, h1, rfl⟩ := h
  exact clearV2Many_tk l h1

theorem restoreV1Many_tk : ∀ (l : List Nat) {acc acc' : State × Nat × Nat},
    restoreV1Many l acc = .ok acc' → acc'.1.tk = acc.1.tk
  | [], acc, acc', h => by simp only [restoreV1Many, Except.ok.injEq] at h; rw [h]
  | u :: rest, (s, nw, tg), acc', h => by
    unfold restoreV1Many at h
    repeat' (first | split at h | simp only at h)
    all_goals first
      | (cases h; done)
      | (rw [restoreV1Many_tk rest h])

theorem restoreGuaranteedV1_tk {s s' : State} {l : List Nat}
    (h : restoreGuaranteedV1 s l = .ok s') : s'.tk = s.tk := by
  unfold restoreGuaranteedV1 at h
  simp only [bind_ok_iff, pure_ok_iff, Prod.exists] at h
  obtain ⟨s1, a, b, h1, rfl⟩ := h
  exact restoreV1Many_tk l h1

theorem restoreV2Many_tk : ∀ (l : List Nat) {acc acc' : State × Nat × Nat},
    restoreV2Many l acc = .ok acc' → acc'.1.tk = acc.1.tk
  | [], acc, acc', h => by simp only [restoreV2Many, Except.ok.injEq] at h; rw [h]
  | u :: rest, (s, nw, tg), acc', h => by
    unfold restoreV2Many at h
    repeat' (first | split at h | simp only at h)
    all_goals first
      | (cases h; done)
      | (rw [restoreV2Many_tk rest h])

theorem restoreGuaranteedV2_tk {s s' : State} {l : List Nat}
    (h : restoreGuaranteedV2 s l = .ok s') : s'.tk = s.tk := by
  unfold restoreGuaranteedV2 at h
  simp only [bind_ok_iff, pure_ok_iff, Prod.exists] at h
  obtain ⟨s1, a, b, h1, rfl⟩ := h
  exact restoreV2Many_tk l h1

theorem refundNftMany_tk : ∀ (l : List Nat) {t t' : Tx},
    refundNftMany l t = .ok t' → t'.s.tk = t.s.tk
  | [], t, t', h => by simp only [refundNftMany, Except.ok.injEq] at h; rw [h]
  | u :: rest, t, t', h => by
    unfold refundNftMany at h
    simp only at h
    split at h
    · split at h
      · cases h
      · rename_i t1 h1
        rw [refundNftMany_tk rest h]
        rw [send_ok_iff] at h1
        rw [h1.2]; rfl
    · exact refundNftMany_tk rest h

/-! ### vesting -/

theorem setSchedule1_tk {s s' : State} {e : Env} {a b c d f : Nat}
    (h : setSchedule1 s e a b c d f = .ok s') : s'.tk = s.tk := by
  unfold setSchedule1 at h
  simp only [bind_ok_iff, pure_ok_iff, req_ok_iff, exists_const] at h
  obtain ⟨_, _, _, _, rfl⟩ := h
  rfl

theorem setSchedule2_tk {t t' : Tx} {e : Env} {ms : List (Nat × Nat)}
    (h : setSchedule2 t e ms = .ok t') : t'.s.tk = t.s.tk := by
  unfold setSchedule2 at h
  simp only [bind_ok_iff, pure_ok_iff, req_ok_iff, requireStage, exists_const] at h
  obtain ⟨_, _, _, rfl⟩ := h
  rfl

/-! ### generic loop rule -/

/-! ### owner withdrawal -/

theorem claimPaymentOwn_tk {t t' : Tx} {e : Env}
    (h : claimPaymentOwn t e = .ok t') : t'.s.tk = t.s.tk := by
  unfold claimPaymentOwn at h
  simp only [bind_ok_iff, req_ok_iff, requireStage, exists_const] at h
  obtain ⟨_, h⟩ := h
  split at h
  · simp only [bind_ok_iff, send_ok_iff] at h
    obtain ⟨t1, ⟨_, rfl⟩, h⟩ := h
    split at h
    · simp only [pure_ok_iff] at h; subst h; rfl
    · split at h
      · simp only [pure_ok_iff] at h; subst h; rfl
      · rw [send_ok_iff] at h; rw [h.2]; rfl
  · simp only [bind_ok_iff, pure_ok_iff] at h
    obtain ⟨a, rfl, h⟩ := h
    split at h
    · simp only [pure_ok_iff] at h; subst h; rfl
    · split at h
      · simp only [pure_ok_iff] at h; subst h; rfl
      · rw [send_ok_iff] at h; rw [h.2]; rfl

theorem claimPaymentCommon_tk {t t' : Tx} {e : Env}
    (h : claimPaymentCommon t e = .ok t') : t'.s.tk = t.s.tk := by
  obtain ⟨_, b, cp, hs, _⟩ := claimPaymentCommon_frame h
  rw [hs]

theorem claimNftPayment_tk {t t' : Tx} {e : Env}
    (h : claimNftPayment t e = .ok t') : t'.s.tk = t.s.tk := by
  rw [claimNftPayment_ok_iff] at h
  obtain ⟨_, _, rfl⟩ := h
  split <;> rfl

/-! ### token delivery -/

theorem sendLocked_tk {t t' : Tx} {e : Env} {dest amount : Nat}
    (h : t.sendLocked e dest amount = .ok t') : t'.s.tk = t.s.tk := by
  rw [sendLocked_eq_with] at h
  unfold sendLockedWith at h
  split at h
  · simp only [bind_ok_iff, pure_ok_iff, send_ok_iff] at h
    obtain ⟨t1, ⟨_, rfl⟩, t2, rfl, h⟩ := h
    split at h
    · rw [send_ok_iff] at h; rw [h.2]; rfl
    · simp only [pure_ok_iff] at h; subst h; rfl
  · simp only [bind_ok_iff, pure_ok_iff] at h
    obtain ⟨t2, rfl, h⟩ := h
    split at h
    · rw [send_ok_iff] at h; rw [h.2]; rfl
    · simp only [pure_ok_iff] at h; subst h; rfl

theorem sendLaunchpadTokens_tk {t t' : Tx} {e : Env} {addr n : Nat}
    (h : t.sendLaunchpadTokens e addr n = .ok t') : t'.s.tk = t.s.tk := by
  unfold Tx.sendLaunchpadTokens at h
  split at h
  · cases h; rfl
  · simp only at h
    split at h
    · exact sendLocked_tk h
    · rw [send_ok_iff] at h
      rw [h.2]; rfl

/-! ### claims -/

theorem claimPay_tk {v2 : Bool} {t t' : Tx} {e : Env} {c : Nat}
    (h : claimPay v2 t e c = .ok t') : t'.s.tk = t.s.tk := by
  unfold claimPay at h
  split at h
  · simp only [bind_ok_iff, send_ok_iff, pure_ok_iff] at h
    obtain ⟨t1, ⟨_, rfl⟩, rfl⟩ := h
    cases v2 <;> rfl
  · simp only [pure_ok_iff] at h
    subst h; rfl

/-! ### distribution step and NFT draw -/

theorem nftSubstep_tk {hash : List Nat → List Nat} {t t' : Tx} {rng rng' : Rng} {st : LoopStatus}
    (h : nftSubstep hash t rng = .ok (t', rng', st)) : t'.s.tk = t.s.tk := by
  unfold nftSubstep at h
  simp only [bind_ok_iff, Prod.exists] at h
  obtain ⟨x, b, st0, hrun, hrest⟩ := h
  have hx : x.tx.s = t.s :=
    runWhile_keeps (fun y : NSt => y.tx.s = t.s) _
      (fun y y' c hb hy => g_nftBody_tx_s hash _ t.s y y' c hb hy) _ _ _ _ _ _ hrun rfl
  cases st0 with
  | outOfFuel => cases hrest
  | interrupted =>
    simp only [pure_ok_iff, Prod.mk.injEq] at hrest
    obtain ⟨rfl, _, _⟩ := hrest
    show x.tx.s.tk = _
    rw [hx]
  | completed =>
    simp only [pure_ok_iff, Prod.mk.injEq] at hrest
    obtain ⟨rfl, _, _⟩ := hrest
    show x.tx.s.tk = _
    rw [hx]

theorem selectNft_tk {hash : List Nat → List Nat} {t t' : Tx} {e : Env}
    (h : selectNft hash t e = .ok t') : t'.s.tk = t.s.tk := by
  obtain ⟨_, _, _, t0, t1, rng, rng', st, h0, hsub, hfin⟩ := g_selectNft_inv h
  have h1 := nftSubstep_tk hsub
  rw [h0] at h1
  rcases hfin with ⟨_, hs, _⟩ | ⟨_, hs, _⟩ <;> rw [hs] <;> exact h1

theorem guaranteedSubstep_tk {hash : List Nat → List Nat} {t t' : Tx} {g g' : GuarOp}
    {st : LoopStatus} (h : guaranteedSubstep hash t g = .ok (t', g', st)) :
    t'.s.tk = t.s.tk := by
  unfold guaranteedSubstep at h
  simp only [bind_ok_iff, Prod.exists] at h
  obtain ⟨x, b, st0, _, hrest⟩ := h
  cases st0 with
  | outOfFuel => cases hrest
  | interrupted =>
    simp only [pure_ok_iff, Prod.mk.injEq] at hrest
    obtain ⟨rfl, _, _⟩ := hrest
    rfl
  | completed =>
    simp only [bind_ok_iff, Prod.exists] at hrest
    obtain ⟨y, b2, st1, hrun, hrest⟩ := hrest
    have hy := runWhile_keeps (fun z : LSt => z.tx.s.tk = t.s.tk) _
      (fun z z' c hb hz => by
        have := g_leftoverBody_tx_s hash _ _ _ z.tx.s z z' c hb rfl
        show z'.tx.s.tk = _
        rw [this]; exact hz) _ _ _ _ _ _ hrun rfl
    cases st1 with
    | outOfFuel => cases hrest
    | interrupted =>
      simp only [pure_ok_iff, Prod.mk.injEq] at hrest
      obtain ⟨rfl, _, _⟩ := hrest
      exact hy
    | completed =>
      simp only [pure_ok_iff, Prod.mk.injEq] at hrest
      obtain ⟨rfl, _, _⟩ := hrest
      exact hy

/-- `r`, if it succeeds, yields a transaction whose `claimed` map is `c0` -/
def KeepsTK (c0 : TK) (r : Res Tx) : Prop := ∀ t', r = .ok t' → t'.s.tk = c0

theorem KeepsTK_error (c0 : TK) (err : Err) : KeepsTK c0 (.error err) := by
  intro t' h; cases h

theorem KeepsTK_pure (c0 : TK) (t : Tx) (h : t.s.tk = c0) : KeepsTK c0 (pure t) := by
  intro t' h'; cases h'; exact h

theorem KeepsTK_ok (c0 : TK) (t : Tx) (h : t.s.tk = c0) : KeepsTK c0 (.ok t) := by
  intro t' h'; cases h'; exact h

theorem KeepsTK_bind {α : Type} (c0 : TK) (x : Res α) (f : α → Res Tx)
    (h : ∀ a, x = .ok a → KeepsTK c0 (f a)) : KeepsTK c0 (x >>= f) := by
  intro t' h'
  rw [bind_ok_iff] at h'
  obtain ⟨a, ha, hf⟩ := h'
  exact h a ha t' hf

theorem KeepsTK_pure_bind {α : Type} (c0 : TK) (x : α) (f : α → Res Tx)
    (h : KeepsTK c0 (f x)) : KeepsTK c0 (pure x >>= f) := h

theorem KeepsTK_error_bind {α : Type} (c0 : TK) (err : Err) (f : α → Res Tx) :
    KeepsTK c0 ((Except.error err : Res α) >>= f) := by
  intro t' h; cases h

theorem KeepsTK_bind_guar (c0 : TK) (hash : List Nat → List Nat) (t0 : Tx) (g : GuarOp)
    (f : Tx × GuarOp × LoopStatus → Res Tx)
    (h : ∀ a : Tx × GuarOp × LoopStatus, a.1.s.tk = t0.s.tk → KeepsTK c0 (f a)) :
    KeepsTK c0 (guaranteedSubstep hash t0 g >>= f) := by
  apply KeepsTK_bind
  intro a ha
  exact h a (guaranteedSubstep_tk (t' := a.1) (g' := a.2.1) (st := a.2.2) ha)

theorem KeepsTK_bind_nft (c0 : TK) (hash : List Nat → List Nat) (t0 : Tx) (r : Rng)
    (f : Tx × Rng × LoopStatus → Res Tx)
    (h : ∀ a : Tx × Rng × LoopStatus, a.1.s.tk = t0.s.tk → KeepsTK c0 (f a)) :
    KeepsTK c0 (nftSubstep hash t0 r >>= f) := by
  apply KeepsTK_bind
  intro a ha
  exact h a (nftSubstep_tk (t' := a.1) (rng' := a.2.1) (st := a.2.2) ha)

theorem freshRng_tk (t : Tx) (r : Rng) (t' : Tx) (h : t.freshRng = (r, t')) :
    t'.s.tk = t.s.tk := by
  have := Tx.g_freshRng_s t
  rw [h] at this
  exact congrArg State.tk this

theorem distribute_keeps_tk (hash : List Nat → List Nat) (t : Tx) (e : Env) :
    KeepsTK t.s.tk (distribute hash t e) := by
  unfold distribute
  repeat' (first
    | with_reducible apply KeepsTK_error
    | with_reducible apply KeepsTK_pure_bind
    | with_reducible apply KeepsTK_error_bind
    | (with_reducible apply KeepsTK_bind_guar; intro a hg)
    | (with_reducible apply KeepsTK_bind; intro a ha)
    | split
    | (simp only []))
  all_goals
    with_reducible apply KeepsTK_pure
    first
      | exact hg
      | exact hg.trans (freshRng_tk t _ _ (by assumption))

theorem distribute_tk {hash : List Nat → List Nat} {t t' : Tx} {e : Env}
    (h : distribute hash t e = .ok t') : t'.s.tk = t.s.tk :=
  distribute_keeps_tk hash t e t' h

theorem secondary_tk {hash : List Nat → List Nat} {t t' : Tx} {e : Env}
    (h : secondary hash t e = .ok t') : t'.s.tk = t.s.tk := by
  unfold secondary at h
  simp only [bind_ok_iff, req_ok_iff, requireStage, exists_const] at h
  obtain ⟨_, _, _, h⟩ := h
  split at h
  case h_3 => simp [bind, Except.bind] at h
  all_goals
    simp only [bind_ok_iff, pure_ok_iff, Prod.exists, Prod.mk.injEq] at h
    obtain ⟨cur, t0, ⟨_, ht0⟩, hh⟩ := h
    have h0 : t0.s.tk = t.s.tk := by
      first
        | (rw [← ht0]; exact freshRng_tk t _ _ rfl)
        | rw [← ht0]
    clear ht0
    cases cur with
    | nft r =>
      simp only [bind_ok_iff, pure_ok_iff] at hh
      obtain ⟨_, rfl, hh⟩ := hh
      simp only [bind_ok_iff, Prod.exists] at hh
      obtain ⟨t2, rng', st, hsub, hfin⟩ := hh
      have h2 := nftSubstep_tk hsub
      cases st <;>
        (simp only [pure_ok_iff] at hfin; subst hfin; show t2.s.tk = _; rw [h2]; exact h0)
    | guar g =>
      simp only [bind_ok_iff, Prod.exists] at hh
      obtain ⟨t1, g', st, hsub, hfin⟩ := hh
      have hg := guaranteedSubstep_tk hsub
      cases st with
      | completed =>
        simp only [bind_ok_iff, pure_ok_iff] at hfin
        obtain ⟨_, rfl, hfin⟩ := hfin
        simp only [bind_ok_iff, Prod.exists] at hfin
        obtain ⟨t2, rng', st2, hsub2, hfin⟩ := hfin
        have h2 := nftSubstep_tk hsub2
        have hfr : (t1.setS (creditAdditional t1.s g'.additional)).freshRng.2.s.tk
            = t1.s.tk :=
          freshRng_tk (t1.setS (creditAdditional t1.s g'.additional)) _ _ rfl
        cases st2 <;>
          (simp only [pure_ok_iff] at hfin; subst hfin; show t2.s.tk = _
           rw [h2, hfr, hg]; exact h0)
      | interrupted =>
        simp only [bind_ok_iff, pure_ok_iff] at hfin
        obtain ⟨_, rfl, hfin⟩ := hfin
        simp only [pure_ok_iff] at hfin
        subst hfin
        show t1.s.tk = _
        rw [hg]; exact h0
      | outOfFuel =>
        simp only [bind_ok_iff, pure_ok_iff] at hfin
        obtain ⟨_, rfl, hfin⟩ := hfin
        simp only [pure_ok_iff] at hfin
        subst hfin
        show t1.s.tk = _
        rw [hg]; exact h0

theorem confirmNft_tk {s s' : State} {e : Env} (h : confirmNft s e = .ok s') :
    s'.tk = s.tk := by
  rw [confirmNft_ok_iff] at h
  rw [h.2.2.2.2.2]

theorem KeepsTK_bind_tx (c0 c1 : TK) (x : Res Tx) (f : Tx → Res Tx)
    (hx : ∀ a, x = .ok a → a.s.tk = c1)
    (h : ∀ a : Tx, a.s.tk = c1 → KeepsTK c0 (f a)) : KeepsTK c0 (x >>= f) := by
  apply KeepsTK_bind
  intro a ha
  exact h a (hx a ha)

theorem KeepsTK_bind_st (c0 c1 : TK) (x : Res State) (f : State → Res Tx)
    (hx : ∀ a, x = .ok a → a.tk = c1)
    (h : ∀ a : State, a.tk = c1 → KeepsTK c0 (f a)) : KeepsTK c0 (x >>= f) := by
  apply KeepsTK_bind
  intro a ha
  exact h a (hx a ha)

theorem exec_blacklist_keeps_tk (hash : List Nat → List Nat) (t : Tx) (e : Env) (l : List Nat) :
    KeepsTK t.s.tk (exec hash t e (.blacklist l)) := by
  unfold exec
  repeat' (first
    | with_reducible apply KeepsTK_pure_bind
    | (with_reducible refine KeepsTK_bind_tx _ _ _ _ (fun _ h => addUsersToBlacklist_tk h) ?_
       intro a1 h1)
    | (with_reducible refine KeepsTK_bind_tx _ _ _ _ (fun _ h => refundNftMany_tk _ h) ?_
       intro a3 h3)
    | (with_reducible refine KeepsTK_bind_st _ _ _ _ (fun _ h => clearGuaranteedV2_tk h) ?_
       intro a2 h2)
    | (with_reducible refine KeepsTK_bind_st _ _ _ _ (fun _ h => clearGuaranteedV1_tk h) ?_
       intro a2 h2)
    | split
    | (simp only []))
  all_goals
    with_reducible apply KeepsTK_pure
    simp only [Tx.setS, Tx.emit, *]



/-! ### all endpoints -/

/-- every endpoint other than the allocation endpoints, `filter` and `claim` leaves the ticket
    space unchanged -/
theorem exec_tk_eq {hash : List Nat → List Nat} {t t' : Tx} {e : Env} {c : Call}
    (hc : c ≠ .claim) (hf : c ≠ .filter) (ha : ∀ l, c ≠ .addTickets l) (ha1 : ∀ l, c ≠ .addTicketsV1 l)
    (ha2 : ∀ l, c ≠ .addTicketsV2 l)
    (h : exec hash t e c = .ok t') : t'.s.tk = t.s.tk := by
  cases c with
  | claim => exact absurd rfl hc
  | filter => exact absurd rfl hf
  | addTickets l => exact absurd rfl (ha l)
  | addTicketsV1 l => exact absurd rfl (ha1 l)
  | addTicketsV2 l => exact absurd rfl (ha2 l)
  | deposit =>
    simp only [exec, bind_ok_iff, pure_ok_iff] at h
    obtain ⟨s1, h1, rfl⟩ := h
    exact depositLaunchpadTokens_tk h1
  | setTicketPrice tok amount =>
    simp only [exec, bind_ok_iff, pure_ok_iff, req_ok_iff, requireStage, exists_const] at h
    obtain ⟨_, s1, h1, rfl⟩ := h
    exact trySetTicketPrice_tk h1
  | setPerTicket amount =>
    simp only [exec, bind_ok_iff, pure_ok_iff, req_ok_iff, requireStage, exists_const] at h
    obtain ⟨_, _, _, rfl⟩ := h
    rfl
  | setConfStart r =>
    simp only [exec, bind_ok_iff, pure_ok_iff, req_ok_iff, exists_const] at h
    obtain ⟨_, _, _, rfl⟩ := h
    rfl
  | setSelStart r =>
    simp only [exec, bind_ok_iff, pure_ok_iff, req_ok_iff, exists_const] at h
    obtain ⟨_, _, _, rfl⟩ := h
    rfl
  | setClaimStart r =>
    simp only [exec, bind_ok_iff, pure_ok_iff, req_ok_iff, exists_const] at h
    obtain ⟨_, _, _, rfl⟩ := h
    rfl
  | setSupport a => simp only [exec, pure_ok_iff] at h; subst h; rfl
  | pause => simp only [exec, pure_ok_iff] at h; subst h; rfl
  | unpause => simp only [exec, pure_ok_iff] at h; subst h; rfl
  | confirm n => exact confirmTickets_tk h
  | select => exact selectWinners_tk h
  | claimPayment =>
    simp only [exec] at h
    split at h
    · exact claimPaymentOwn_tk h
    · simp only [bind_ok_iff] at h
      obtain ⟨t1, h1, h2⟩ := h
      have e1 := claimPaymentCommon_tk h1
      split at h2
      · rw [claimNftPayment_tk h2, e1]
      · simp only [pure_ok_iff] at h2; subst h2; exact e1
  | blacklist l => exact exec_blacklist_keeps_tk hash t e l t' h
  | refundUsers l =>
    simp only [exec, bind_ok_iff, pure_ok_iff] at h
    obtain ⟨t1, h1, s2, h2, rfl⟩ := h
    show s2.tk = _
    rw [clearGuaranteedV2_tk h2, addUsersToBlacklist_tk h1]
  | unblacklist l =>
    simp only [exec, bind_ok_iff] at h
    obtain ⟨s1, h1, h2⟩ := h
    have e1 := removeUsersFromBlacklist_tk h1
    split at h2
    · simp only [bind_ok_iff, pure_ok_iff] at h2
      obtain ⟨s2, hs2, rfl⟩ := h2
      show s2.tk = _
      rw [restoreGuaranteedV2_tk hs2, e1]
    · simp only [bind_ok_iff, pure_ok_iff] at h2
      obtain ⟨s2, hs2, rfl⟩ := h2
      show s2.tk = _
      rw [restoreGuaranteedV1_tk hs2, e1]
  | distribute => exact distribute_tk h
  | setSchedule1 a b c d f =>
    simp only [exec, bind_ok_iff, pure_ok_iff] at h
    obtain ⟨s1, h1, rfl⟩ := h
    exact setSchedule1_tk h1
  | setSchedule2 l => exact setSchedule2_tk h
  | confirmNft =>
    simp only [exec, bind_ok_iff, pure_ok_iff] at h
    obtain ⟨s1, h1, rfl⟩ := h
    exact confirmNft_tk h1
  | selectNft => exact selectNft_tk h
  | secondary => exact secondary_tk h
  | setNftCost c =>
    simp only [exec, bind_ok_iff, pure_ok_iff, req_ok_iff, requireStage, exists_const] at h
    obtain ⟨_, _, _, rfl⟩ := h
    rfl
  | issueSft =>
    simp only [exec, bind_ok_iff] at h
    obtain ⟨_, _, h⟩ := h
    cases h
  | createSfts =>
    simp only [exec, bind_ok_iff] at h
    obtain ⟨_, _, _, _, h⟩ := h
    cases h
  | setTransferRole o =>
    simp only [exec, bind_ok_iff] at h
    obtain ⟨_, _, h⟩ := h
    cases h
  | sftSetup => simp only [exec, pure_ok_iff] at h; subst h; rfl

/-! ### the writers: `filterTickets` (flags side) and the claims -/

/-- `filterTickets` does not touch the `selected` flag -/
theorem filterTickets_selected {t t' : Tx} {e : Env}
    (h : filterTickets t e = .ok t') : t'.s.flags.selected = t.s.flags.selected := by
  unfold filterTickets at h
  simp only [bind_ok_iff, req_ok_iff, requireStage, exists_const] at h
  obtain ⟨_, _, _, h⟩ := h
  split at h
  · simp only [bind_ok_iff, pure_ok_iff, Prod.exists, Prod.mk.injEq] at h
    obtain ⟨first, removed, _, f, b, st, _, h⟩ := h
    cases st with
    | completed =>
      simp only [bind_ok_iff, pure_ok_iff] at h
      obtain ⟨_, _, rfl⟩ := h
      dsimp only [Tx.emit]; split <;> rfl
    | interrupted => simp only [pure_ok_iff] at h; subst h; dsimp only; split <;> rfl
    | outOfFuel => cases h
  · simp only [bind_ok_iff, pure_ok_iff, Prod.exists, Prod.mk.injEq] at h
    obtain ⟨first, removed, _, f, b, st, _, h⟩ := h
    cases st with
    | completed =>
      simp only [bind_ok_iff, pure_ok_iff] at h
      obtain ⟨_, _, rfl⟩ := h
      dsimp only [Tx.emit]; split <;> rfl
    | interrupted => simp only [pure_ok_iff] at h; subst h; dsimp only; split <;> rfl
    | outOfFuel => cases h
  · simp [bind, Except.bind] at h

/-- the ticket space only loses records: the total is unchanged and every record of `s'` is a
    record of `s` -/
def TKShrink (s s' : State) : Prop :=
  s'.lastTicketId = s.lastTicketId ∧ ∀ a rg, s'.range a = some rg → s.range a = some rg

theorem TKShrink.refl (s : State) : TKShrink s s := ⟨rfl, fun _ _ h => h⟩

theorem TKShrink.trans {a b c : State} (h1 : TKShrink a b) (h2 : TKShrink b c) : TKShrink a c :=
  ⟨h2.1.trans h1.1, fun x rg h => h1.2 x rg (h2.2 x rg h)⟩

theorem TKShrink.of_eq {s s' : State} (h : s'.tk = s.tk) : TKShrink s s' :=
  ⟨tk_last h, fun a rg hr => by rw [← tk_range h]; exact hr⟩

theorem settle_shrink {s s1 : State} {e : Env} {rd rf : Nat} (h : settle s e = .ok (s1, rd, rf)) :
    TKShrink s s1 := by
  rw [settle_ok_iff] at h
  obtain ⟨_, _, r, _, _, _, _, _, rfl⟩ := h
  refine ⟨rfl, fun a rg hr => ?_⟩
  have hr' : upd s.range e.caller none a = some rg := hr
  rw [upd_apply] at hr'
  split at hr'
  · cases hr'
  · exact hr'

theorem refund_tk {t t' : Tx} {e : Env} {a n : Nat} (h : t.refund e a n = .ok t') :
    t'.s.tk = t.s.tk := by
  rw [refund_ok_iff] at h
  rw [h.2, refundResult_state]

theorem claimNft_tk {t t' : Tx} {e : Env} (h : claimNft t e = .ok t') : t'.s.tk = t.s.tk := by
  unfold claimNft at h
  dsimp only [Tx.setS] at h
  cases hw : (swapRemove t.s.nftWinners e.caller).2 <;>
    cases hp : (swapRemove t.s.payers e.caller).2 <;>
    simp only [hw, hp, if_true, if_false, Bool.false_eq_true, bind_ok_iff, req_ok_iff, exists_const] at h
  all_goals
    obtain ⟨_, h⟩ := h
    first
      | (rw [send_ok_iff] at h; rw [h.2]; rfl)
      | (cases h; rfl)

theorem claimBase_shrink {t t' : Tx} {e : Env} (h : claimBase t e = .ok t') : TKShrink t.s t'.s := by
  unfold claimBase at h
  simp only [bind_ok_iff, Prod.exists] at h
  obtain ⟨s1, rd, rf, hs, t1, hr, t2, h2, h3⟩ := h
  have e1 : TKShrink t.s t1.s := (settle_shrink hs).trans (TKShrink.of_eq (refund_tk hr))
  have e2 : TKShrink t.s t2.s := e1.trans (TKShrink.of_eq (sendLaunchpadTokens_tk h2))
  split at h3
  · exact e2.trans (TKShrink.of_eq (claimNft_tk h3))
  · simp only [pure_ok_iff] at h3; subst h3; exact e2

theorem claimVested_shrink {t t' : Tx} {e : Env} (h : claimVested t e = .ok t') :
    TKShrink t.s t'.s := by
  unfold claimVested at h
  dsimp only at h
  cases hv : t.s.variant.isV2 <;> cases hcl : t.s.claimed e.caller <;>
    simp only [hv, hcl, if_true, if_false, Bool.false_eq_true, pure_bind, bind_ok_iff, req_ok_iff, exists_const, Prod.exists] at h
  case false.true | true.true =>
    lp_peel h
    split at h
    · simp only [bind_ok_iff, pure_ok_iff] at h
      obtain ⟨t3, h3, rfl⟩ := h
      rw [send_ok_iff] at h3
      rw [h3.2]; exact TKShrink.refl _
    · cases h; exact TKShrink.refl _
  all_goals
    lp_peel h
    rename_i s1 redeem refund hs t2 hr c hc
    have e2 : TKShrink t.s t2.s := (settle_shrink hs).trans (TKShrink.of_eq (refund_tk hr))
    generalize ht1 : (if redeem > 0 then t2.setS _ else t2) = t1 at h
    have e1 : TKShrink t.s t1.s := by
      subst ht1
      split <;> exact e2
    split at h
    · simp only [bind_ok_iff, pure_ok_iff] at h
      obtain ⟨t3, h3, rfl⟩ := h
      rw [send_ok_iff] at h3
      rw [h3.2]; exact e1
    · cases h; exact e1

/-- the `claim` endpoint only deletes records -/
theorem exec_claim_shrink {hash : List Nat → List Nat} {t t' : Tx} {e : Env}
    (h : exec hash t e .claim = .ok t') : TKShrink t.s t'.s := by
  cases hv : t.s.variant.vested
  · rw [exec_claim_nonvested hash t e hv] at h
    exact claimBase_shrink h
  · rw [exec_claim_vested hash t e hv] at h
    exact claimVested_shrink h

end LP

/- PART II (reachable states) -/
namespace LP
open LP.Props LP.Events LP.FY

/-! ### partitions of the ticket space -/

/-- the allocation list `L` (address, size) describes the whole ticket space of `c` -/
structure ar_Part (c : Core) (L : List (Nat × Nat)) : Prop where
  nodup : (L.map Prod.fst).Nodup
  pos : ∀ p ∈ L, 1 ≤ p.2
  chain : Chain L 1 c.range c.batch
  last : c.lastTicketId = ticketTotal L
  out : ∀ a, a ∉ L.map Prod.fst → c.range a = none ∧ c.confirmed a = 0

/-- number of tickets of a range record (`0` without a record) -/
def ar_size (range : Nat → Option Range) (a : Nat) : Nat :=
  match range a with
  | none => 0
  | some r => rangeLen r

theorem ar_size_none {range : Nat → Option Range} {a : Nat} (h : range a = none) :
    ar_size range a = 0 := by simp [ar_size, h]

theorem ar_size_some {range : Nat → Option Range} {a : Nat} {r : Range} (h : range a = some r) :
    ar_size range a = rangeLen r := by simp [ar_size, h]

namespace ar_Part
variable {c : Core} {L : List (Nat × Nat)}

/-- an address with a record is listed, with exactly the recorded size -/
theorem mem_of_range (h : ar_Part c L) {a : Nat} {r : Range} (hr : c.range a = some r) :
    ∃ p ∈ L, p.1 = a ∧ 1 ≤ r.first ∧ r.first ≤ r.last ∧ r.last ≤ c.lastTicketId ∧
      r.last + 1 = r.first + p.2 := by
  by_cases ha : a ∈ L.map Prod.fst
  · obtain ⟨p, hp, rfl⟩ := List.mem_map.mp ha
    obtain ⟨r', hr', h1, h2, h3, h4⟩ := Chain_bounds h.chain h.pos p hp
    rw [hr] at hr'; injection hr' with hr'; subst hr'
    exact ⟨p, hp, rfl, h1, h2, by rw [h.last]; omega, h4⟩
  · rw [(h.out a ha).1] at hr; cases hr

theorem range_of_mem (h : ar_Part c L) {p : Nat × Nat} (hp : p ∈ L) :
    ∃ r, c.range p.1 = some r ∧ 1 ≤ r.first ∧ r.first ≤ r.last ∧ r.last ≤ c.lastTicketId ∧
      r.last + 1 = r.first + p.2 := by
  obtain ⟨r', hr', h1, h2, h3, h4⟩ := Chain_bounds h.chain h.pos p hp
  exact ⟨r', hr', h1, h2, by rw [h.last]; omega, h4⟩

/-- every record lies inside `1..lastTicketId` and is not empty -/
theorem bounds (h : ar_Part c L) {a : Nat} {r : Range} (hr : c.range a = some r) :
    1 ≤ r.first ∧ r.first ≤ r.last ∧ r.last ≤ c.lastTicketId := by
  obtain ⟨_, _, _, h1, h2, h3, _⟩ := h.mem_of_range hr
  exact ⟨h1, h2, h3⟩

/-- the records of two different addresses do not overlap -/
theorem disj (h : ar_Part c L) {a b : Nat} {ra rb : Range} (hne : a ≠ b)
    (hra : c.range a = some ra) (hrb : c.range b = some rb) :
    ra.last < rb.first ∨ rb.last < ra.first := by
  obtain ⟨p, hp, rfl, _⟩ := h.mem_of_range hra
  obtain ⟨q, hq, rfl, _⟩ := h.mem_of_range hrb
  exact Chain_disjoint h.chain h.pos p hp q hq hne ra rb hra hrb

/-- every ticket id belongs to the record of exactly one address -/
theorem cover (h : ar_Part c L) {t : Nat} (h1 : 1 ≤ t) (h2 : t ≤ c.lastTicketId) :
    ∃ a r, c.range a = some r ∧ r.first ≤ t ∧ t ≤ r.last ∧
      ∀ b rb, c.range b = some rb → rb.first ≤ t → t ≤ rb.last → b = a := by
  obtain ⟨p, _, r, hr, h3, h4⟩ := Chain_cover h.chain t h1 (by rw [← h.last]; omega)
  refine ⟨p.1, r, hr, h3, h4, ?_⟩
  intro b rb hrb h5 h6
  apply Classical.byContradiction
  intro hne
  rcases h.disj hne hrb hr with h7 | h7 <;> omega

theorem size_eq (h : ar_Part c L) {p : Nat × Nat} (hp : p ∈ L) : ar_size c.range p.1 = p.2 := by
  obtain ⟨r, hr, _, _, _, h4⟩ := h.range_of_mem hp
  rw [ar_size_some hr]; unfold rangeLen; omega

theorem sumOver_sizes {f : Nat → Nat} : ∀ {L : List (Nat × Nat)}, (∀ p ∈ L, f p.1 = p.2) →
    sumOver f (L.map Prod.fst) = ticketTotal L
  | [], _ => rfl
  | p :: rest, h => by
    simp only [List.map_cons, sumOver, ticketTotal]
    rw [h p (List.mem_cons_self ..), sumOver_sizes (fun q hq => h q (List.mem_cons_of_mem _ hq))]

/-- the sizes of the records add up to `lastTicketId`; the list of holders is exact -/
theorem sum (h : ar_Part c L) :
    (L.map Prod.fst).Nodup ∧ (∀ a, a ∈ L.map Prod.fst ↔ (c.range a).isSome = true) ∧
    sumOver (ar_size c.range) (L.map Prod.fst) = c.lastTicketId := by
  refine ⟨h.nodup, ?_, ?_⟩
  · intro a
    constructor
    · intro ha
      obtain ⟨p, hp, rfl⟩ := List.mem_map.mp ha
      obtain ⟨r, hr, _⟩ := h.range_of_mem hp
      rw [hr]; rfl
    · intro hs
      apply Classical.byContradiction
      intro ha
      rw [(h.out a ha).1] at hs; cases hs
  · rw [h.last]; exact sumOver_sizes (fun p hp => h.size_eq hp)

theorem payBal (h : ar_Part c L) (x : Nat) : ar_Part { c with payBal := x } L :=
  ⟨h.nodup, h.pos, h.chain, h.last, h.out⟩

end ar_Part

/-! ### the facts read off the phases -/

structure ar_Tix (c : Core) : Prop where
  /-- the filter has not started: the allocation list partitions the ticket space, nobody has
      confirmed more than allocated -/
  pre : c.flags.filtered = false → c.op = .none →
    ∃ L, ar_Part c L ∧ ∀ p ∈ L, c.confirmed p.1 ≤ p.2
  /-- the filter is complete, the lottery is not: the compacted list partitions the (shrunk)
      ticket space, everybody holds exactly the confirmed tickets -/
  post : c.flags.filtered = true → c.flags.selected = false →
    ∃ L, ar_Part c L ∧ ∀ p ∈ L, p.2 = c.confirmed p.1
  /-- until the filter completes (also while it is interrupted): confirmed ≤ size of the record,
      nothing confirmed without a record, no record is empty -/
  confLe : c.flags.filtered = false → ∀ a, c.confirmed a ≤ ar_size c.range a ∧
    ∀ r, c.range a = some r → r.first ≤ r.last
  /-- once the filter is complete: size of the record = confirmed ≥ 1 -/
  confEq : c.flags.filtered = true → ∀ a, c.confirmed a = ar_size c.range a ∧
    ∀ r, c.range a = some r → r.first ≤ r.last
  /-- once the filter is complete: the records of different addresses do not overlap -/
  disjF : c.flags.filtered = true → ∀ a b ra rb, a ≠ b → c.range a = some ra →
    c.range b = some rb → ra.last < rb.first ∨ rb.last < ra.first
  /-- until the filter completes (also while it is interrupted) every record lies inside the
      ticket space -/
  bndPre : c.flags.filtered = false → ∀ a r, c.range a = some r →
    1 ≤ r.first ∧ r.last ≤ c.lastTicketId

theorem ar_Tix.of_payBal {c : Core} {x : Nat} (h : ar_Tix { c with payBal := x }) : ar_Tix c := by
  refine ⟨fun h1 h2 => ?_, fun h1 h2 => ?_, h.confLe, h.confEq, h.disjF, h.bndPre⟩
  · obtain ⟨L, hp, hle⟩ := h.pre h1 h2
    exact ⟨L, ⟨hp.nodup, hp.pos, hp.chain, hp.last, hp.out⟩, hle⟩
  · obtain ⟨L, hp, hle⟩ := h.post h1 h2
    exact ⟨L, ⟨hp.nodup, hp.pos, hp.chain, hp.last, hp.out⟩, hle⟩

/-- `confirmed ≤ size` from a partition whose entries bound the confirmations -/
theorem ar_confLe_of_part {c : Core} {L : List (Nat × Nat)} (hp : ar_Part c L)
    (hle : ∀ p ∈ L, c.confirmed p.1 ≤ p.2) (a : Nat) :
    c.confirmed a ≤ ar_size c.range a ∧ ∀ r, c.range a = some r → r.first ≤ r.last := by
  refine ⟨?_, fun r hr => (hp.bounds hr).2.1⟩
  by_cases ha : a ∈ L.map Prod.fst
  · obtain ⟨p, hp', rfl⟩ := List.mem_map.mp ha
    rw [hp.size_eq hp']; exact hle p hp'
  · rw [(hp.out a ha).2]; exact Nat.zero_le _

theorem ar_confEq_of_part {c : Core} {L : List (Nat × Nat)} (hp : ar_Part c L)
    (hle : ∀ p ∈ L, p.2 = c.confirmed p.1) (a : Nat) :
    c.confirmed a = ar_size c.range a ∧ ∀ r, c.range a = some r → r.first ≤ r.last := by
  refine ⟨?_, fun r hr => (hp.bounds hr).2.1⟩
  by_cases ha : a ∈ L.map Prod.fst
  · obtain ⟨p, hp', rfl⟩ := List.mem_map.mp ha
    rw [hp.size_eq hp']; exact (hle p hp').symm
  · rw [(hp.out a ha).2, ar_size_none (hp.out a ha).1]

theorem ar_Tix_of_PhA {T0 : Nat} {c : Core} {L0 : List (Nat × Nat)} (hp : Pre T0 c L0)
    (ha : PhA c L0) : ar_Tix c := by
  have hpart : ar_Part c L0 :=
    ⟨hp.ok.nodup, hp.ok.pos, ha.chain, ha.last, fun a h => ⟨hp.outR a h, hp.outC a h⟩⟩
  refine ⟨fun _ _ => ⟨L0, hpart, hp.ok.le⟩, fun h => ?_, fun _ => ar_confLe_of_part hpart hp.ok.le,
    fun h => ?_, fun h => ?_,
    fun _ a r hr => ⟨(hpart.bounds hr).1, (hpart.bounds hr).2.2⟩⟩ <;>
    (rw [hp.notFiltered] at h; cases h)

theorem ar_Tix_of_PhB {T0 : Nat} {c : Core} {L0 : List (Nat × Nat)} (hp : Pre T0 c L0)
    (hb : PhB c L0) : ar_Tix c := by
  obtain ⟨f, rm, hop, P, S, hL, hP, hS, hfirst, _, hend, hzero, hout⟩ := hb.mid
  refine ⟨fun _ h => ?_, fun h => ?_, fun _ a => ?_, fun h => ?_, fun h => ?_, fun _ a r hr => ?_⟩
  · rw [hop] at h; cases h
  · rw [hp.notFiltered] at h; cases h
  · have hposS : ∀ p ∈ S, 1 ≤ p.2 := fun p hp' => hp.ok.pos p (by rw [hL]; exact List.mem_append_right _ hp')
    have hrng : ∀ r, c.range a = some r → r.first ≤ r.last := by
      intro r hr
      by_cases ha : a ∈ L0.map Prod.fst
      · rw [hL, List.map_append, List.mem_append] at ha
        by_cases hS' : a ∈ S.map Prod.fst
        · obtain ⟨p, hp', rfl⟩ := List.mem_map.mp hS'
          obtain ⟨r', hr', _, h2, _⟩ := Chain_bounds hS hposS p hp'
          have hr'' : c.range p.1 = some r' := hr'
          rw [hr] at hr''; injection hr'' with hr''; subst hr''; exact h2
        · have haP : a ∈ P.map Prod.fst := ha.resolve_right hS'
          obtain ⟨p, hp', rfl⟩ := List.mem_map.mp haP
          by_cases h0 : c.confirmed p.1 = 0
          · have : c.range p.1 = none := hzero p hp' h0
            rw [this] at hr; cases hr
          · have hmem : (p.1, c.confirmed p.1) ∈ survivors c.confirmed P := by
              unfold survivors
              rw [List.mem_filterMap]
              exact ⟨p, hp', by simp [h0]⟩
            obtain ⟨r', hr', _, h2, _⟩ :=
              Chain_bounds hP (survivors_pos c.confirmed P) _ hmem
            have hr'' : c.range p.1 = some r' := hr'
            rw [hr] at hr''; injection hr'' with hr''; subst hr''; exact h2
      · have : c.range a = none := hout a ha
        rw [this] at hr; cases hr
    refine ⟨?_, hrng⟩
    by_cases ha : a ∈ L0.map Prod.fst
    · by_cases hS' : a ∈ S.map Prod.fst
      · obtain ⟨p, hp', rfl⟩ := List.mem_map.mp hS'
        obtain ⟨r', hr', _, _, _, h4⟩ := Chain_bounds hS hposS p hp'
        have hr'' : c.range p.1 = some r' := hr'
        rw [ar_size_some hr'']
        have := hp.ok.le p (by rw [hL]; exact List.mem_append_right _ hp')
        unfold rangeLen; omega
      · rw [hL, List.map_append, List.mem_append] at ha
        have haP : a ∈ P.map Prod.fst := ha.resolve_right hS'
        obtain ⟨p, hp', rfl⟩ := List.mem_map.mp haP
        by_cases h0 : c.confirmed p.1 = 0
        · rw [h0]; exact Nat.zero_le _
        · have hmem : (p.1, c.confirmed p.1) ∈ survivors c.confirmed P := by
            unfold survivors
            rw [List.mem_filterMap]
            exact ⟨p, hp', by simp [h0]⟩
          obtain ⟨r', hr', _, _, _, h4⟩ :=
            Chain_bounds hP (survivors_pos c.confirmed P) _ hmem
          have hr'' : c.range p.1 = some r' := hr'
          rw [ar_size_some hr'']
          simp only at h4
          unfold rangeLen; omega
    · rw [hp.outC a ha]; exact Nat.zero_le _
  · rw [hp.notFiltered] at h; cases h
  · rw [hp.notFiltered] at h; cases h
  · have hposS : ∀ p ∈ S, 1 ≤ p.2 := fun p hp' => hp.ok.pos p (by rw [hL]; exact List.mem_append_right _ hp')
    have hfirst' : f = 1 + ticketTotal P := hfirst
    have hend' : f + ticketTotal S = c.lastTicketId + 1 := hend
    by_cases ha : a ∈ L0.map Prod.fst
    · by_cases hS' : a ∈ S.map Prod.fst
      · obtain ⟨p, hp', rfl⟩ := List.mem_map.mp hS'
        obtain ⟨r', hr', h1, _, h3, _⟩ := Chain_bounds hS hposS p hp'
        have hr'' : c.range p.1 = some r' := hr'
        rw [hr] at hr''; injection hr'' with hr''; subst hr''
        have h1' : f ≤ r.first := h1
        have h3' : r.last < f + ticketTotal S := h3
        exact ⟨by omega, by omega⟩
      · rw [hL, List.map_append, List.mem_append] at ha
        have haP : a ∈ P.map Prod.fst := ha.resolve_right hS'
        obtain ⟨p, hp', rfl⟩ := List.mem_map.mp haP
        by_cases h0 : c.confirmed p.1 = 0
        · have : c.range p.1 = none := hzero p hp' h0
          rw [this] at hr; cases hr
        · have hmem : (p.1, c.confirmed p.1) ∈ survivors c.confirmed P := by
            unfold survivors
            rw [List.mem_filterMap]
            exact ⟨p, hp', by simp [h0]⟩
          obtain ⟨r', hr', h1, _, h3, _⟩ :=
            Chain_bounds hP (survivors_pos c.confirmed P) _ hmem
          have hr'' : c.range p.1 = some r' := hr'
          rw [hr] at hr''; injection hr'' with hr''; subst hr''
          rw [ticketTotal_survivors] at h3
          have hle := confSum_add_droppedSum c.confirmed P
            (fun q hq => hp.ok.le q (by rw [hL]; exact List.mem_append_left _ hq))
          exact ⟨h1, by omega⟩
    · have : c.range a = none := hout a ha
      rw [this] at hr; cases hr

/-- the phases after the filter that still carry the compacted allocation list
    (`PhC`, and the distribution phases of the guaranteed-ticket variants) -/
theorem ar_Tix_of_alloc {c : Core} (hf : c.flags.filtered = true)
    (alloc : ∃ Ls : List (Nat × Nat), (Ls.map Prod.fst).Nodup ∧
      (∀ p ∈ Ls, 1 ≤ p.2 ∧ p.2 = c.confirmed p.1) ∧ Chain Ls 1 c.range c.batch ∧
      c.lastTicketId = ticketTotal Ls ∧
      (∀ a, a ∉ Ls.map Prod.fst → c.range a = none ∧ c.confirmed a = 0) ∧
      PayPre c (Ls.map Prod.fst)) : ar_Tix c := by
  obtain ⟨Ls, hnd, hpos, hch, hlast, hout, _⟩ := alloc
  have hpart : ar_Part c Ls := ⟨hnd, fun p hp => (hpos p hp).1, hch, hlast, hout⟩
  have heq : ∀ p ∈ Ls, p.2 = c.confirmed p.1 := fun p hp => (hpos p hp).2
  refine ⟨fun h => ?_, fun _ _ => ⟨Ls, hpart, heq⟩, fun h => ?_,
    fun _ => ar_confEq_of_part hpart heq, fun _ a b ra rb hne hra hrb => hpart.disj hne hra hrb,
    fun h => ?_⟩ <;>
    (rw [hf] at h; cases h)

theorem ar_Tix_of_PhC {T0 : Nat} {c : Core} (h : PhC T0 c) : ar_Tix c :=
  ar_Tix_of_alloc h.filtered h.alloc

theorem ar_Tix_of_PhD_op {c : Core} (h : PhD { c with op := .none }) : ar_Tix c := by
  have hf : c.flags.filtered = true := h.filtered
  have hs : c.flags.selected = true := h.selected
  refine ⟨fun h1 => ?_, fun _ h1 => ?_, fun h1 => ?_, fun _ a => ?_, fun _ => h.disj,
    fun h1 => (by rw [hf] at h1; cases h1)⟩
  · rw [hf] at h1; cases h1
  · rw [hs] at h1; cases h1
  · rw [hf] at h1; cases h1
  · cases hr : c.range a with
    | none => exact ⟨by rw [ar_size_none hr]; exact h.rngNone a hr, fun r h1 => by cases h1⟩
    | some r =>
      obtain ⟨h1, h2⟩ := h.rngOk a r hr
      have h2' : r.last + 1 = r.first + c.confirmed a := h2
      refine ⟨by rw [ar_size_some hr]; unfold rangeLen; omega, fun r' h3 => ?_⟩
      injection h3 with h3; subst h3; exact h1

theorem ar_Tix_of_PhD {c : Core} (h : PhD c) : ar_Tix c :=
  ar_Tix_of_PhD_op (c := c) ⟨h.started, h.filtered, h.selected, rfl, h.rngOk, h.rngNone, h.disj, h.led⟩

theorem ar_Tix_of_Phase {T0 : Nat} {c : Core} (h : Phase T0 c) : ar_Tix c := by
  rcases h with ⟨L0, hp, ha | hb⟩ | hc | hd
  · exact ar_Tix_of_PhA hp ha
  · exact ar_Tix_of_PhB hp hb
  · exact ar_Tix_of_PhC hc
  · exact ar_Tix_of_PhD hd

theorem ar_Tix_of_WF2 {T0 : Nat} {s : State} {r : Nat} (wf : WF2 T0 s r) : ar_Tix s.core := by
  rcases wf.phase with ⟨_, _, _, h4⟩ | hE | hF
  · exact ar_Tix_of_Phase h4
  · exact ar_Tix_of_alloc hE.filtered hE.alloc
  · exact ar_Tix_of_PhD hF.d

theorem ar_Tix_of_v1_PhaseC {T0 : Nat} {c : Core} {g : v1_G} (h : v1_PhaseC T0 c g) : ar_Tix c := by
  rcases h with ⟨_, _, ⟨L0, hp, ⟨ha, _⟩ | ⟨hb, _⟩⟩ | ⟨hc, _⟩ | hE⟩ | ⟨_, hd⟩
  · exact ar_Tix_of_PhA hp ha
  · exact ar_Tix_of_PhB hp hb
  · exact ar_Tix_of_PhC hc
  · exact ar_Tix_of_alloc hE.filtered hE.alloc
  · exact ar_Tix_of_PhD hd

theorem ar_Tix_of_nf_Phase {T0 : Nat} {c : Core} (h : nf_Phase T0 c) : ar_Tix c := by
  rcases h with ⟨_, _, h3⟩ | ⟨_, hD, _, _⟩ | ⟨_, hD⟩
  · exact ar_Tix_of_Phase h3
  · exact ar_Tix_of_PhD_op hD
  · exact ar_Tix_of_PhD hD

theorem ar_Tix_of_ng_Phase {T0 : Nat} {c : Core} {g : v1_G} (h : ng_Phase T0 c g) : ar_Tix c := by
  rcases h with h | ⟨hF, _⟩
  · exact ar_Tix_of_v1_PhaseC h
  · exact ar_Tix_of_PhD_op hF.post

/-- the allocation facts hold in every reachable state of each of the eight launchpads -/
theorem ar_tix_covered {hash : List Nat → List Nat} {s : State} {r : Nat}
    (h : be_Covered hash s r) : ar_Tix s.core := by
  cases h with
  | plain hv h =>
    obtain ⟨a0, ha⟩ := Reach_iff.mp h
    exact ar_Tix_of_Phase (reach_WF hv ha).phase
  | guarV2 h =>
    obtain ⟨a0, ha⟩ := Reach_iff.mp h
    exact ar_Tix_of_WF2 (reach_WF2 ha)
  | nft h =>
    obtain ⟨a0, ha⟩ := Reach_iff.mp h
    exact ar_Tix.of_payBal (ar_Tix_of_nf_Phase (nf_reach_WF ha).phase)
  | v1 hv h =>
    obtain ⟨a0, ha⟩ := v1_Reach_iff.mp h
    exact ar_Tix_of_v1_PhaseC (v1_reach_WF hv ha).phase
  | guarV1 h =>
    obtain ⟨a0, ha⟩ := g1_Reach_iff.mp h
    exact ar_Tix_of_v1_PhaseC (g1_reach_WF ha).phase
  | nftGuar h =>
    obtain ⟨a0, ha⟩ := ng_Reach_iff.mp h
    exact ar_Tix.of_payBal (ar_Tix_of_ng_Phase (ng_reach_WF ha).phase)

/-! ### the timeline side: the filter runs only once selection has begun -/

/-- allocation facts + "started ⇒ the selection period has begun" -/
structure ar_Good (s : State) (r : Nat) : Prop where
  tix : ar_Tix s.core
  filStarted : s.flags.filtered = true → s.flags.started = true
  tl : s.flags.started = true → s.cfg.conf ≤ r ∧ s.cfg.sel ≤ r

theorem ar_filStarted_of_Phase {T0 : Nat} {c : Core} (h : Phase T0 c) :
    c.flags.filtered = true → c.flags.started = true := by
  intro hf
  rcases h with ⟨L0, hp, _⟩ | hc | hd
  · rw [hp.notFiltered] at hf; cases hf
  · exact hc.started
  · exact hd.started

theorem ar_filStarted_of_v1 {T0 : Nat} {c : Core} {g : v1_G} (h : v1_PhaseC T0 c g) :
    c.flags.filtered = true → c.flags.started = true := by
  intro hf
  rcases h with ⟨_, _, ⟨L0, hp, _⟩ | ⟨hc, _⟩ | hE⟩ | ⟨_, hd⟩
  · rw [hp.notFiltered] at hf; cases hf
  · exact hc.started
  · exact hE.started
  · exact hd.started

theorem ar_good_covered {hash : List Nat → List Nat} {s : State} {r : Nat}
    (h : be_Covered hash s r) : ar_Good s r := by
  refine ⟨ar_tix_covered h, ?_, ?_⟩
  · cases h with
    | plain hv h =>
      obtain ⟨a0, ha⟩ := Reach_iff.mp h
      exact ar_filStarted_of_Phase (reach_WF hv ha).phase
    | guarV2 h =>
      obtain ⟨a0, ha⟩ := Reach_iff.mp h
      rcases (reach_WF2 ha).phase with ⟨_, _, _, h4⟩ | hE | hF
      · exact ar_filStarted_of_Phase h4
      · exact fun _ => hE.started
      · exact fun _ => hF.d.started
    | nft h =>
      obtain ⟨a0, ha⟩ := Reach_iff.mp h
      rcases (nf_reach_WF ha).phase with ⟨_, _, h3⟩ | ⟨_, hD, _, _⟩ | ⟨_, hD⟩
      · exact ar_filStarted_of_Phase h3
      · exact fun _ => hD.started
      · exact fun _ => hD.started
    | v1 hv h =>
      obtain ⟨a0, ha⟩ := v1_Reach_iff.mp h
      exact ar_filStarted_of_v1 (v1_reach_WF hv ha).phase
    | guarV1 h =>
      obtain ⟨a0, ha⟩ := g1_Reach_iff.mp h
      exact ar_filStarted_of_v1 (g1_reach_WF ha).phase
    | nftGuar h =>
      obtain ⟨a0, ha⟩ := ng_Reach_iff.mp h
      rcases (ng_reach_WF ha).phase with h1 | ⟨hF, _⟩
      · exact ar_filStarted_of_v1 h1
      · exact fun _ => hF.post.started
  · cases h with
    | plain hv h =>
      obtain ⟨a0, ha⟩ := Reach_iff.mp h
      exact (reach_WF hv ha).tlStarted
    | guarV2 h =>
      obtain ⟨a0, ha⟩ := Reach_iff.mp h
      exact (reach_WF2 ha).tlStarted
    | nft h =>
      obtain ⟨a0, ha⟩ := Reach_iff.mp h
      exact (nf_reach_WF ha).tlStarted
    | v1 hv h =>
      obtain ⟨a0, ha⟩ := v1_Reach_iff.mp h
      exact (v1_reach_WF hv ha).tlStarted
    | guarV1 h =>
      obtain ⟨a0, ha⟩ := g1_Reach_iff.mp h
      exact (g1_reach_WF ha).tlStarted
    | nftGuar h =>
      obtain ⟨a0, ha⟩ := ng_Reach_iff.mp h
      exact (ng_reach_WF ha).tlStarted

/-! ### the allocation endpoints -/

/-- the (address, size) pairs an allocation call creates (v1: staking + energy tickets; v2: the
    zero-size entries are skipped by the contract) -/
def ar_allocList : Call → Option (List (Nat × Nat))
  | .addTickets l => some l
  | .addTicketsV1 l => some (v1_proj l)
  | .addTicketsV2 l => some (v2Proj l)
  | _ => none

theorem ar_allocList_none {c : Call} (h : ar_allocList c = none) :
    (∀ l, c ≠ .addTickets l) ∧ (∀ l, c ≠ .addTicketsV1 l) ∧ (∀ l, c ≠ .addTicketsV2 l) := by
  cases c <;> first | (cases h; done) | exact ⟨nofun, nofun, nofun⟩

/-- the side conditions on histories make every allocated size positive -/
theorem ar_alloc_pos {e : Env} {c : Call} {L : List (Nat × Nat)} (hok : be_HistOK e c)
    (hL : ar_allocList c = some L) : ∀ p ∈ L, 1 ≤ p.2 := by
  cases c with
  | addTickets l =>
    simp only [ar_allocList, Option.some.injEq] at hL; subst hL
    exact hok.2.1
  | addTicketsV1 l =>
    simp only [ar_allocList, Option.some.injEq] at hL; subst hL
    intro p hp
    obtain ⟨q, hq, rfl⟩ := List.mem_map.mp hp
    exact hok.2.2 q hq
  | addTicketsV2 l =>
    simp only [ar_allocList, Option.some.injEq] at hL; subst hL
    exact v2Proj_pos l
  | _ => cases hL

/-- each of the three allocation endpoints allocates like `createMany` on its list -/
theorem ar_exec_alloc {hash : List Nat → List Nat} {t t' : Tx} {e : Env} {c : Call}
    {L : List (Nat × Nat)} (hL : ar_allocList c = some L) (h : exec hash t e c = .ok t') :
    t.s.stage e = .addTickets ∧
    ∃ z', createMany L t.s = .ok z' ∧ t'.s.range = z'.range ∧ t'.s.batch = z'.batch ∧
      t'.s.lastTicketId = z'.lastTicketId := by
  cases c with
  | addTickets l =>
    simp only [ar_allocList, Option.some.injEq] at hL; subst hL
    simp only [exec, bind_ok_iff, pure_ok_iff, req_ok_iff, requireStage, exists_const] at h
    obtain ⟨hst, s1, h1, rfl⟩ := h
    exact ⟨by simpa using hst, s1, h1, rfl, rfl, rfl⟩
  | addTicketsV1 l =>
    simp only [ar_allocList, Option.some.injEq] at hL; subst hL
    simp only [exec, bind_ok_iff, pure_ok_iff] at h
    obtain ⟨s1, h1, rfl⟩ := h
    obtain ⟨hst, z', k1, k2, k3, k4, _⟩ := v1_addTicketsV1_inv h1
    exact ⟨hst, z', k1, k2, k3, k4⟩
  | addTicketsV2 l =>
    simp only [ar_allocList, Option.some.injEq] at hL; subst hL
    obtain ⟨hst, z', k1, wl, u, nw, tg, k2⟩ := v2_addTicketsV2_inv (by simpa only [exec] using h)
    exact ⟨hst, z', k1, by rw [k2], by rw [k2], by rw [k2]⟩
  | _ => cases hL

/-- an accepted allocation call: no duplicate inside the call, no listed address had a record,
    the total grows by the sum of the sizes, the new records form a chain of consecutive exact-size
    ranges starting right after the old total, nobody else's record changes -/
theorem ar_step_alloc {hash : List Nat → List Nat} {s s' : State} {e : Env} {c : Call} {o : Out}
    {L : List (Nat × Nat)} (hL : ar_allocList c = some L) (h : step hash s e c = .ok (s', o)) :
    s.stage e = .addTickets ∧
    (L.map Prod.fst).Nodup ∧ (∀ a ∈ L.map Prod.fst, s.range a = none) ∧
    s'.lastTicketId = s.lastTicketId + ticketTotal L ∧
    ((∀ p ∈ L, 1 ≤ p.2) → Chain L (s.lastTicketId + 1) s'.range s'.batch) ∧
    (∀ a, a ∉ L.map Prod.fst → s'.range a = s.range a) := by
  obtain ⟨m, t, _, _, _, hx, rfl, _⟩ := step_ok_inv h
  obtain ⟨hst, z', k1, k2, k3, k4⟩ := ar_exec_alloc hL hx
  obtain ⟨h1, h2, _, h4, h5, h6, _, _⟩ := createMany_ok L _ z' k1
  refine ⟨hst, h1, h2, by rw [k4, h4]; rfl, fun hpos => ?_, fun a ha => by rw [k2, h6 a ha]; rfl⟩
  rw [k2, k3]; exact h5 hpos

/-- the record each listed address receives: `[total before the entry + 1, … + n]` -/
theorem ar_step_alloc_exact {hash : List Nat → List Nat} {s s' : State} {e : Env} {c : Call} {o : Out}
    {L : List (Nat × Nat)} (hL : ar_allocList c = some L) (hpos : ∀ p ∈ L, 1 ≤ p.2)
    (h : step hash s e c = .ok (s', o)) {P S : List (Nat × Nat)} {a n : Nat}
    (hsplit : L = P ++ (a, n) :: S) :
    s.range a = none ∧
    s'.range a = some ⟨s.lastTicketId + ticketTotal P + 1, s.lastTicketId + ticketTotal P + n⟩ ∧
    ar_size s'.range a = n := by
  obtain ⟨_, _, h2, _, h4, _⟩ := ar_step_alloc hL h
  have hch := h4 hpos
  rw [hsplit] at hch
  have hn : 1 ≤ n := hpos (a, n) (by rw [hsplit]; simp)
  have hr := (Chain_split hch).1
  have hr' : s'.range a = some ⟨s.lastTicketId + ticketTotal P + 1, s.lastTicketId + ticketTotal P + n⟩ := by
    rw [hr]
    show some (Range.mk _ _) = some (Range.mk _ _)
    congr 2 <;> omega
  refine ⟨h2 a (by rw [hsplit]; simp), hr', ?_⟩
  rw [ar_size_some hr']; unfold rangeLen; simp only; omega

/-! ### records are stable until the selection period begins -/

theorem ar_early_iff {c : Cfg} (hv : validPeriods c = true) (r : Nat) (f : Flags) :
    r < c.sel ↔ (stageOf r c f = .addTickets ∨ stageOf r c f = .confirm) := by
  obtain ⟨h1, _⟩ := (validPeriods_iff c).mp hv
  unfold stageOf
  constructor
  · intro h
    by_cases h2 : r < c.conf
    · left; simp [h2]
    · right; simp [h2, h]
  · intro h
    by_cases h2 : r < c.conf
    · omega
    · by_cases h3 : r < c.sel
      · exact h3
      · simp only [h2, h3, if_false] at h
        rcases h with h | h <;> (repeat' (split at h)) <;> cases h

/-- one accepted call in a reachable state, at a round before the selection period (of the state
    it produces): every existing record is kept exactly -/
theorem ar_step_keeps {hash : List Nat → List Nat} {s s' : State} {r : Nat} {e : Env} {c : Call}
    {o : Out} (hs : be_Covered hash s r) (hr : r ≤ e.round) (hok : be_HistOK e c)
    (h : step hash s e c = .ok (s', o)) (hearly : e.round < s'.cfg.sel) :
    e.round < s.cfg.sel ∧ ∀ a rg, s.range a = some rg → s'.range a = some rg := by
  have hg := (be_family_all hash).good hs
  have hg' := (be_family_all hash).good ((be_family_all hash).call hs hr hok h)
  have hag := ar_good_covered hs
  have hst' := (ar_early_iff hg'.valid e.round s.flags).mp hearly
  rw [step_cfg_keeps_stage h s.flags] at hst'
  have hst : s.stage e = .addTickets ∨ s.stage e = .confirm := hst'
  have hlt : e.round < s.cfg.sel := (ar_early_iff hg.valid e.round s.flags).mpr hst'
  refine ⟨hlt, ?_⟩
  have hns : s.flags.started = false := by
    cases h1 : s.flags.started with
    | false => rfl
    | true => have := (hag.tl h1).2; omega
  have hnf : s.flags.filtered = false := by
    cases h1 : s.flags.filtered with
    | false => rfl
    | true => rw [hag.filStarted h1] at hns; cases hns
  intro a rg hrg
  cases hL : ar_allocList c with
  | some L =>
    obtain ⟨_, _, h2, _, _, h5⟩ := ar_step_alloc hL h
    rw [h5 a (fun ha => by rw [h2 a ha] at hrg; cases hrg)]; exact hrg
  | none =>
    obtain ⟨n1, n2, n3⟩ := ar_allocList_none hL
    by_cases hcf : c = .filter
    · subst hcf
      have := (C06.filter_gate hash s e _ h).1
      rcases hst with h1 | h1 <;> (rw [h1] at this; cases this)
    · by_cases hcc : c = .claim
      · subst hcc
        rcases C06.claim_gate hash s e _ h with h1 | ⟨hv, hcl⟩
        · rcases hst with h2 | h2 <;> (rw [h2] at h1; cases h1)
        · rw [hg.fresh hv hnf] at hcl; cases hcl
      · obtain ⟨m, t, _, _, _, hx, rfl, _⟩ := step_ok_inv h
        have := tk_range (exec_tk_eq hcc hcf n1 n2 n3 hx)
        rw [this]; exact hrg

/-- **records are kept until the selection period begins**: along any continuation of a reachable
    state (accepted calls satisfying the side conditions, rounds non-decreasing, waiting allowed)
    that ends before the selection start round, every record is kept exactly -/
theorem ar_later_keeps {hash : List Nat → List Nat} {s s' : State} {r r' : Nat}
    (hs : be_Covered hash s r) (hl : be_Later be_HistOK hash s r s' r') (hearly : r' < s'.cfg.sel) :
    ∀ a rg, s.range a = some rg → s'.range a = some rg := by
  induction hl with
  | refl => exact fun _ _ h => h
  | call s1 r1 e c s2 o hl1 h1 h2 h3 ih =>
    have hc1 := (be_family_all hash).later hs hl1
    obtain ⟨hlt, hk⟩ := ar_step_keeps hc1 h1 h2 h3 hearly
    intro a rg hrg
    exact hk a rg (ih (by omega) a rg hrg)
  | wait s1 r1 r2 _ h1 ih => exact ih (by omega)

/-! ### every record lies inside the ticket space, in EVERY reachable state -/

/-- every record lies inside `1..lastTicketId` -/
def ar_Bnd (s : State) : Prop :=
  ∀ a rg, s.range a = some rg → 1 ≤ rg.first ∧ rg.last ≤ s.lastTicketId

theorem ar_bnd_of_tix {s : State} (ht : ar_Tix s.core) (hsel : s.flags.selected = false) :
    ar_Bnd s := by
  intro a rg hr
  cases hf : s.flags.filtered with
  | false => exact ht.bndPre hf a rg hr
  | true =>
    obtain ⟨L, hp, _⟩ := ht.post hf hsel
    have := hp.bounds hr
    exact ⟨this.1, this.2.2⟩

theorem ar_init_range {v : Variant} {a : InitArgs} {e : Env} {s : State}
    (h : init v a e = .ok s) : s.range = fun _ => none := by
  unfold init at h
  cases v <;>
    simp only [Variant.hasNft, Variant.v1Alloc, Variant.hasLock, bind_ok_iff, req_ok_iff, pure_ok_iff, pure_bind,
      exists_const, if_true, if_false, Bool.false_eq_true, beq_self_eq_true, reduceCtorEq, decide_eq_true_eq,
      bne_iff_ne, ne_eq, not_false_eq_true, beq_iff_eq, bne_self_eq_false] at h
  all_goals
    repeat (cases h with | intro _ h)
    subst h
    rfl

theorem ar_bnd_init {v : Variant} {a : InitArgs} {e : Env} {s : State}
    (h : init v a e = .ok s) : ar_Bnd s := by
  intro x rg hr
  rw [ar_init_range h] at hr; cases hr

/-- allocation keeps every record inside the (grown) ticket space — also for zero-size entries -/
theorem ar_createMany_bnd : ∀ (L : List (Nat × Nat)) (s s' : State), createMany L s = .ok s' →
    ar_Bnd s → ar_Bnd s'
  | [], s, s', h, hb => by
    simp only [createMany, Except.ok.injEq] at h; subst h; exact hb
  | (a, n) :: rest, s, s', h, hb => by
    obtain ⟨_, _, h⟩ := createMany_cons_inv s s' a n rest h
    refine ar_createMany_bnd rest _ s' h ?_
    intro x rg hr
    have hr' : upd s.range a (some ⟨s.lastTicketId + 1, s.lastTicketId + n⟩) x = some rg := hr
    show 1 ≤ rg.first ∧ rg.last ≤ s.lastTicketId + n
    rw [upd_apply] at hr'
    split at hr'
    · injection hr' with hr'; subst hr'
      exact ⟨by simp only; omega, Nat.le_refl _⟩
    · have := hb x rg hr'
      exact ⟨this.1, by omega⟩

/-- one accepted call between two reachable states keeps the bounds -/
theorem ar_bnd_step {hash : List Nat → List Nat} {s s' : State} {r r' : Nat} {e : Env} {c : Call}
    {o : Out} (hs : be_Covered hash s r) (hs' : be_Covered hash s' r')
    (h : step hash s e c = .ok (s', o)) (hb : ar_Bnd s) : ar_Bnd s' := by
  cases hsel : s'.flags.selected with
  | false => exact ar_bnd_of_tix (ar_tix_covered hs') hsel
  | true =>
    have hg := (be_family_all hash).good hs
    cases hL : ar_allocList c with
    | some L =>
      obtain ⟨m, t, _, _, _, hx, rfl, _⟩ := step_ok_inv h
      obtain ⟨_, z', k1, k2, _, k4⟩ := ar_exec_alloc hL hx
      have hz : ar_Bnd z' := ar_createMany_bnd L _ z' k1 hb
      intro a rg hr
      rw [k2] at hr
      have := hz a rg hr
      exact ⟨this.1, by rw [k4]; exact this.2⟩
    | none =>
      obtain ⟨n1, n2, n3⟩ := ar_allocList_none hL
      by_cases hcf : c = .filter
      · subst hcf
        exfalso
        have hnf := (C06.filter_gate hash s e _ h).2
        obtain ⟨m, t, _, _, _, hx, rfl, _⟩ := step_ok_inv h
        have h1 : t.s.flags.selected = s.flags.selected :=
          filterTickets_selected (by simpa only [exec] using hx)
        rw [hsel] at h1
        have hfil : s.flags.filtered = true := hg.tix.selFil h1.symm
        rw [hfil] at hnf; cases hnf
      · by_cases hcc : c = .claim
        · subst hcc
          obtain ⟨m, t, _, _, _, hx, rfl, _⟩ := step_ok_inv h
          have hsh := exec_claim_shrink hx
          intro a rg hr
          have := hb a rg (hsh.2 a rg hr)
          exact ⟨this.1, by rw [hsh.1]; exact this.2⟩
        · obtain ⟨m, t, _, _, _, hx, rfl, _⟩ := step_ok_inv h
          have htk := exec_tk_eq hcc hcf n1 n2 n3 hx
          intro a rg hr
          rw [tk_range htk] at hr
          have := hb a rg hr
          exact ⟨this.1, by rw [tk_last htk]; exact this.2⟩

theorem ar_bnd_Reach {hash : List Nat → List Nat} {v : Variant}
    (cov : ∀ s r, Reach hash v s r → be_Covered hash s r) {s : State} {r : Nat}
    (h : Reach hash v s r) : ar_Bnd s := by
  induction h with
  | init a e s h => exact ar_bnd_init h
  | call s r e c s' o hre h1 h2 h3 h4 ih =>
    exact ar_bnd_step (cov _ _ hre) (cov _ _ (.call s r e c s' o hre h1 h2 h3 h4)) h4 ih
  | wait s r r' _ _ ih => exact ih

theorem ar_bnd_v1 {hash : List Nat → List Nat} {v : Variant} (hv : v1_Fam v) {s : State} {r : Nat}
    (h : v1_Reach hash v s r) : ar_Bnd s := by
  induction h with
  | init a e s h => exact ar_bnd_init h
  | call s r e c s' o hre h1 h2 h3 h4 ih =>
    exact ar_bnd_step (.v1 hv hre) (.v1 hv (.call s r e c s' o hre h1 h2 h3 h4)) h4 ih
  | wait s r r' _ _ ih => exact ih

theorem ar_bnd_g1 {hash : List Nat → List Nat} {s : State} {r : Nat}
    (h : g1_Reach hash s r) : ar_Bnd s := by
  induction h with
  | init a e s h => exact ar_bnd_init h
  | call s r e c s' o hre h1 h2 h3 h4 ih =>
    exact ar_bnd_step (.guarV1 hre) (.guarV1 (.call s r e c s' o hre h1 h2 h3 h4)) h4 ih
  | wait s r r' _ _ ih => exact ih

theorem ar_bnd_ng {hash : List Nat → List Nat} {s : State} {r : Nat}
    (h : ng_Reach hash s r) : ar_Bnd s := by
  induction h with
  | init a e s h => exact ar_bnd_init h
  | call s r e c s' o hre h1 h2 h3 h4 ih =>
    exact ar_bnd_step (.nftGuar hre) (.nftGuar (.call s r e c s' o hre h1 h2 h3 h4)) h4 ih
  | wait s r r' _ _ ih => exact ih

/-- **bounds in every reachable state** of each of the eight launchpads (before, during and after
    the filter, during the lottery and while winners claim) -/
theorem ar_bnd_covered {hash : List Nat → List Nat} {s : State} {r : Nat}
    (h : be_Covered hash s r) : ar_Bnd s := by
  cases h with
  | plain hv h => exact ar_bnd_Reach (fun _ _ h => .plain hv h) h
  | guarV2 h => exact ar_bnd_Reach (fun _ _ h => .guarV2 h) h
  | nft h => exact ar_bnd_Reach (fun _ _ h => .nft h) h
  | v1 hv h => exact ar_bnd_v1 hv h
  | guarV1 h => exact ar_bnd_g1 h
  | nftGuar h => exact ar_bnd_ng h

/-! ### the guaranteed-ticket launchpads without NFT draw: the partition survives the base lottery
  (until the distribution step completes) -/

theorem ar_part_of_alloc {c : Core}
    (alloc : ∃ Ls : List (Nat × Nat), (Ls.map Prod.fst).Nodup ∧
      (∀ p ∈ Ls, 1 ≤ p.2 ∧ p.2 = c.confirmed p.1) ∧ Chain Ls 1 c.range c.batch ∧
      c.lastTicketId = ticketTotal Ls ∧
      (∀ a, a ∉ Ls.map Prod.fst → c.range a = none ∧ c.confirmed a = 0) ∧
      PayPre c (Ls.map Prod.fst)) :
    ∃ L, ar_Part c L ∧ ∀ p ∈ L, p.2 = c.confirmed p.1 := by
  obtain ⟨Ls, hnd, hpos, hch, hlast, hout, _⟩ := alloc
  exact ⟨Ls, ⟨hnd, fun p hp => (hpos p hp).1, hch, hlast, hout⟩, fun p hp => (hpos p hp).2⟩

theorem ar_part_dist_Phase {T0 : Nat} {c : Core} (h : Phase T0 c) (hf : c.flags.filtered = true)
    (hs : c.flags.selected = false) : ∃ L, ar_Part c L ∧ ∀ p ∈ L, p.2 = c.confirmed p.1 :=
  ar_part_of_alloc (rb_phase_C h hf hs).alloc

theorem ar_part_dist_v1 {T0 : Nat} {c : Core} {g : v1_G} (h : v1_PhaseC T0 c g)
    (hf : c.flags.filtered = true) (ha : c.flags.additional = false) :
    ∃ L, ar_Part c L ∧ ∀ p ∈ L, p.2 = c.confirmed p.1 := by
  rcases h with ⟨_, _, ⟨L0, hp, _⟩ | ⟨hc, _⟩ | hE⟩ | ⟨h1, _⟩
  · rw [hp.notFiltered] at hf; cases hf
  · exact ar_part_of_alloc hc.alloc
  · exact ar_part_of_alloc hE.alloc
  · rw [h1] at ha; cases ha

/-- guarV2, migration, lockedGuar, guarV1: from the completion of the filter until the completion
    of the distribution step (`additional = false`; nobody can claim before) the compacted
    allocation list partitions the ticket space -/
theorem ar_part_dist {hash : List Nat → List Nat} {s : State} {r : Nat}
    (h : Reach hash .guarV2 s r ∨ (∃ v, v1_Fam v ∧ v1_Reach hash v s r) ∨ g1_Reach hash s r)
    (hf : s.flags.filtered = true) (ha : s.flags.additional = false) :
    ∃ L, ar_Part s.core L ∧ ∀ p ∈ L, p.2 = s.confirmed p.1 := by
  rcases h with h | ⟨v, hv, h⟩ | h
  · obtain ⟨a0, ha0⟩ := Reach_iff.mp h
    rcases (reach_WF2 ha0).phase with ⟨_, h2, _, h4⟩ | hE | hF
    · exact ar_part_dist_Phase h4 hf h2
    · exact ar_part_of_alloc hE.alloc
    · have : s.flags.additional = true := hF.add
      rw [this] at ha; cases ha
  · obtain ⟨a0, ha0⟩ := v1_Reach_iff.mp h
    exact ar_part_dist_v1 (v1_reach_WF hv ha0).phase hf ha
  · obtain ⟨a0, ha0⟩ := g1_Reach_iff.mp h
    exact ar_part_dist_v1 (g1_reach_WF ha0).phase hf ha

end LP
