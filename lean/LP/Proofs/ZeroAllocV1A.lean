import LP.Proofs.ZeroAllocV1
import LP.Proofs.ReachBEGen
/-
  LP.Proofs.ZeroAllocV1A — zero-size allocations in the v1 guaranteed family, part 2: the phase
  BEFORE the first `filter` call.

  A zero-size entry `(a, 0, 0, m)` of `addTicketsV1` creates the empty range `[f, f-1]`, a
  zero-size batch, the record `uts a = {a := 0, b := 0, c := 0, d := if m then 1 else 0}` and, when
  `m = true`, a whitelist entry that moves one ticket of the reserve
  (`nrWinning - 1`, `totalGuaranteed + 1`).  No state of the original development looks like
  that (there a live record belongs to a holder of a non-empty range), so in this phase the
  real state `s` is compared with a SHADOW `y` of the original development that carries NO
  guarantee at all:

      y = zv_g (z_w s (z_eraseR s.range) (z_eraseB s.batch) (zv_K …) s.claimed) [] U BU N TG

  (`zv_g` overwrites `whitelist`, `uts`, `blUts`, `nrWinning`, `totalGuaranteed`).  The shadow
  takes REAL steps: `addTicketsV1 l` is matched by `addTicketsV1 (zv_lst l)` (zero-size entries
  dropped, every other entry `(a, st, en, m)` replaced by `(a, 0, st + en, false)`), `blacklist l`
  / `unblacklist l` by the same call on the addresses with a non-empty range, everything else by
  itself.  The shadow supplies the ticket-space and ledger part of the invariant; the reserve
  part is `GuarInvX s` on the REAL state (C12, which never needed the restriction).
-/
namespace LP
open LP.FY LP.Events

/-- overwrite the guaranteed-ticket bookkeeping -/
def zv_g (s : State) (W : List Nat) (U BU : Nat → Option UTS) (N TG : Nat) : State :=
  { s with whitelist := W, uts := U, blUts := BU, nrWinning := N, totalGuaranteed := TG }

def zv_gt (t : Tx) (W : List Nat) (U BU : Nat → Option UTS) (N TG : Nat) : Tx :=
  { t with s := zv_g t.s W U BU N TG }

theorem zv_g_self (s : State) :
    zv_g s s.whitelist s.uts s.blUts s.nrWinning s.totalGuaranteed = s := rfl

section
variable {W : List Nat} {U BU : Nat → Option UTS} {N TG : Nat}

theorem zv_send_g (t : Tx) (a : Nat) (p : Pay) :
    (zv_gt t W U BU N TG).send a p = mapR (zv_gt · W U BU N TG) (t.send a p) := by
  unfold Tx.send
  by_cases h : t.s.bal p.tok p.nonce < p.amount
  · have h' : (zv_gt t W U BU N TG).s.bal p.tok p.nonce < p.amount := h
    rw [if_pos h, if_pos h']; rfl
  · have h' : ¬ (zv_gt t W U BU N TG).s.bal p.tok p.nonce < p.amount := h
    rw [if_neg h, if_neg h']; rfl

theorem zv_refund_g (t : Tx) (e : Env) (a n : Nat) :
    (zv_gt t W U BU N TG).refund e a n = mapR (zv_gt · W U BU N TG) (t.refund e a n) := by
  unfold Tx.refund
  by_cases hn : n = 0
  · rw [if_pos hn, if_pos hn]; rfl
  · rw [if_neg hn, if_neg hn]
    simp only [mapR_bind]
    refine bind_eq_bind_of_mapR (zv_gt · W U BU N TG) ?_ ?_
    · rhs_exact zv_send_g _ _ _
    · intro t1; rfl

/-- the endpoints that neither read nor write the guaranteed-ticket bookkeeping (the deposit
    reads only the sum `nrWinning + totalGuaranteed`) -/
def zv_gindep : Call → Bool
  | .deposit | .setTicketPrice _ _ | .setPerTicket _ | .setConfStart _ | .setSelStart _
  | .setClaimStart _ | .setSupport _ | .pause | .unpause => true
  | _ => false

theorem zv_exec_g (hash : List Nat → List Nat) (t : Tx) (e : Env) (c : Call)
    (hc : zv_gindep c = true) (hg : t.s.variant.hasGuaranteed = true)
    (hsum : N + TG = t.s.nrWinning + t.s.totalGuaranteed) :
    exec hash (zv_gt t W U BU N TG) e c = mapR (zv_gt · W U BU N TG) (exec hash t e c) := by
  cases c with
  | deposit =>
    have hd : (zv_gt t W U BU N TG).s.nrWinning + reservedForDeposit (zv_gt t W U BU N TG).s
        = t.s.nrWinning + reservedForDeposit t.s := by
      unfold reservedForDeposit
      have hg' : (zv_gt t W U BU N TG).s.variant.hasGuaranteed = true := hg
      rw [hg, hg']
      exact hsum
    simp only [exec]
    rw [hd]
    simp only [depositLaunchpadTokens]
    z_peel
  | setTicketPrice tok a =>
    simp only [exec, trySetTicketPrice]
    z_peel
  | setPerTicket a => simp only [exec]; z_peel
  | setConfStart x => simp only [exec, validTimelineChange]; z_peel
  | setSelStart x => simp only [exec, validTimelineChange]; z_peel
  | setClaimStart x => simp only [exec, validTimelineChange]; z_peel
  | setSupport a => rfl
  | pause => rfl
  | unpause => rfl
  | _ => simp [zv_gindep] at hc

end

/-! ### the shadow state and the invariant of the phase before the first `filter` call -/

/-- blacklist flags of the shadow: only holders of a non-empty range -/
def zv_K (R : Nat → Option Range) (bl : Nat → Bool) : Nat → Bool :=
  fun a => bl a && (z_eraseR R a).isSome

/-- the shadow of `s` with guarantee bookkeeping `([], U, BU, N, TG)` -/
def zv_sh (s : State) (U BU : Nat → Option UTS) (N TG : Nat) : State :=
  zv_g (z_w s (z_eraseR s.range) (z_eraseB s.batch) (zv_K s.range s.blacklist) s.claimed) [] U BU N TG

/-- **invariant before the first `filter` call**: the shadow is a well-formed state of the
    original development, the reserve invariant of C12 holds on the REAL state, the reserve is
    conserved, only zero-size batches dangle above `lastTicketId` -/
structure zv_PA (T0 : Nat) (s : State) (r : Nat) : Prop where
  sh : ∃ U BU N TG, v1_WF T0 (zv_sh s U BU N TG) r ∧
    (∀ u, (z_eraseR s.range u).isSome = true → (U u).isSome = true)
  gx : GuarInvX s
  sum : s.nrWinning + s.totalGuaranteed = T0
  hd : z_Hd s
  ns : s.flags.started = false

theorem zv_sh_sum {T0 : Nat} {s : State} {U BU : Nat → Option UTS} {N TG r : Nat}
    (h : v1_WF T0 (zv_sh s U BU N TG) r) (hns : s.flags.started = false) : N + TG = T0 := by
  obtain ⟨_, htg, L0, hp, _, _⟩ := v1_phase_notStarted h.phase hns
  have h1 : N = T0 - TG := hp.nrw
  have h2 : TG ≤ T0 := htg
  omega

/-- frame of the endpoints that do not touch the guarantee bookkeeping -/
theorem zv_step_g_frame {hash : List Nat → List Nat} {s s' : State} {e : Env} {c : Call} {o : Out}
    (hc : zv_gindep c = true) (hg : s.variant.hasGuaranteed = true)
    (h : step hash s e c = .ok (s', o)) :
    s'.whitelist = s.whitelist ∧ s'.uts = s.uts ∧ s'.blUts = s.blUts ∧
    s'.nrWinning = s.nrWinning ∧ s'.totalGuaranteed = s.totalGuaranteed := by
  obtain ⟨m, t, _, _, _, hx, rfl, rfl⟩ := step_ok_inv h
  have h2 := zv_exec_g (W := s.whitelist) (U := s.uts) (BU := s.blUts) (N := s.nrWinning)
    (TG := s.totalGuaranteed) hash (tx0 s e) e c hc hg rfl
  have h3 : zv_gt (tx0 s e) s.whitelist s.uts s.blUts s.nrWinning s.totalGuaranteed = tx0 s e := rfl
  rw [h3, hx] at h2
  have h4 : t = zv_gt t s.whitelist s.uts s.blUts s.nrWinning s.totalGuaranteed := by
    injection h2
  refine ⟨?_, ?_, ?_, ?_, ?_⟩
  · exact (congrArg (fun x => x.s.whitelist) h4).trans rfl
  · exact (congrArg (fun x => x.s.uts) h4).trans rfl
  · exact (congrArg (fun x => x.s.blUts) h4).trans rfl
  · exact (congrArg (fun x => x.s.nrWinning) h4).trans rfl
  · exact (congrArg (fun x => x.s.totalGuaranteed) h4).trans rfl

theorem zv_gindep_z {c : Call} (h : zv_gindep c = true) : z_indep c = true := by
  cases c <;> first | rfl | (simp [zv_gindep] at h)

theorem zv_gindep_CallOK {c : Call} (h : zv_gindep c = true) : v1_CallOK c := by
  cases c <;> first | trivial | (simp [zv_gindep] at h)

theorem zv_step_flags_eq {hash : List Nat → List Nat} {s s' : State} {e : Env} {c : Call} {o : Out}
    (h : step hash s e c = .ok (s', o)) (h5 : c.isSelection = false) : s'.flags = s.flags := by
  obtain ⟨m, t, _, _, _, hx, rfl, rfl⟩ := step_ok_inv h
  cases hcs : c.setsStatic with
  | true =>
    rcases exec_static_cases hx with ⟨h0, _⟩ | ⟨_, h1⟩
    · rw [hcs] at h0; cases h0
    · rw [h1]; cases c <;> rfl
  | false => exact exec_flags_eq hx hcs h5

/-- **the endpoints that touch neither the allocation maps nor the guarantee bookkeeping** -/
theorem zv_PA_indep {T0 : Nat} {hash : List Nat → List Nat} {s s' : State} {e : Env} {c : Call}
    {o : Out} {r : Nat} (hc : zv_gindep c = true) (h : zv_PA T0 s r) (hr : r ≤ e.round)
    (hok : EnvOK e) (hs : step hash s e c = .ok (s', o)) : zv_PA T0 s' e.round := by
  obtain ⟨U, BU, N, TG, hwf, hU⟩ := h.sh
  have hvar : v1_Fam s.variant := hwf.var
  obtain ⟨f1, f2, _, _, f5, _⟩ := v1_fam_flags hvar
  obtain ⟨g1, g2, g3, g4⟩ := z_step_indep_frame (zv_gindep_z hc) f1 f2 hs
  obtain ⟨k1, k2, k3, k4, k5⟩ := zv_step_g_frame hc f5 hs
  have hvar' : s'.variant = s.variant := be_variant_step hs
  have hfl : s'.flags = s.flags := zv_step_flags_eq hs (by cases c <;> first | rfl | (simp [zv_gindep] at hc))
  have htk : s'.tk = s.tk := by
    refine z_step_tk hs ?_ ?_ ?_ ?_ ?_ <;>
      (first | (intro h; subst h; simp [zv_gindep] at hc) | (intro l h; subst h; simp [zv_gindep] at hc))
  have hd' := z_Hd_keep hs htk (fun _ => h.hd) (by rw [hfl]; exact h.ns)
  obtain ⟨m, t, hm, hpay, hown, hx, rfl, rfl⟩ := step_ok_inv hs
  have hsum := zv_sh_sum hwf h.ns
  -- the shadow takes the same step
  have hx2 : exec hash (tx0 (zv_sh s U BU N TG) e) e c
      = .ok (zv_gt (z_wt t (z_eraseR s.range) (z_eraseB s.batch) (zv_K s.range s.blacklist) s.claimed)
          [] U BU N TG) := by
    have e1 : tx0 (zv_sh s U BU N TG) e
        = zv_gt (z_wt (tx0 s e) (z_eraseR s.range) (z_eraseB s.batch) (zv_K s.range s.blacklist) s.claimed)
            [] U BU N TG := rfl
    rw [e1, zv_exec_g hash _ e c hc (by exact f5) (by
      show N + TG = s.nrWinning + s.totalGuaranteed
      rw [hsum, h.sum]), z_exec_indep hash _ e c (zv_gindep_z hc) (by exact f1) (by exact f2), hx]
    rfl
  have hstep := z_step_intro (s := zv_sh s U BU N TG) (by exact hm) hpay (by exact hown) hx2
  have hsh : (zv_gt (z_wt t (z_eraseR s.range) (z_eraseB s.batch) (zv_K s.range s.blacklist) s.claimed)
      [] U BU N TG).s = zv_sh t.s U BU N TG := by
    show zv_g (z_w t.s _ _ _ _) [] U BU N TG = zv_g (z_w t.s _ _ _ _) [] U BU N TG
    rw [g1, g2, g3, g4]
  rw [hsh] at hstep
  have hwf' := v1_call_WF hwf hr hok (zv_gindep_CallOK hc) hstep
  refine ⟨⟨U, BU, N, TG, hwf', ?_⟩, ?_, ?_, hd', by rw [hfl]; exact h.ns⟩
  · intro u hu; rw [g1] at hu; exact hU u hu
  · exact GuarInvX_of_GEq ⟨k1, k2, k3, g1, k4, k5, hvar'⟩ g3 h.gx
  · rw [k4, k5]; exact h.sum

/-- **`confirm`** (the caller holds a non-empty range, or none and confirms zero tickets) -/
theorem zv_PA_confirm {T0 : Nat} {hash : List Nat → List Nat} {s s' : State} {e : Env} {n : Nat}
    {o : Out} {r : Nat} (h : zv_PA T0 s r) (hr : r ≤ e.round)
    (hok : EnvOK e) (hs : step hash s e (.confirm n) = .ok (s', o)) : zv_PA T0 s' e.round := by
  obtain ⟨U, BU, N, TG, hwf, hU⟩ := h.sh
  obtain ⟨m, t, hm, hpay, hown, hx, rfl, rfl⟩ := step_ok_inv hs
  simp only [exec] at hx
  rw [LP.Props.C07.confirmTickets_ok_iff] at hx
  obtain ⟨total, ⟨a1, a2, a3, a4, a5, a6, a7⟩, rfl⟩ := hx
  have a5' : s.blacklist e.caller = false := a5
  have hx2 : exec hash (tx0 (zv_sh s U BU N TG) e) e (.confirm n)
      = .ok (zv_gt (z_wt ((tx0 s e).setS { (tx0 s e).s with
                confirmed := upd (tx0 s e).s.confirmed e.caller ((tx0 s e).s.confirmed e.caller + n) }
              |>.emit (LP.Props.C07.confirmEvent (tx0 s e).s e n total))
            (z_eraseR s.range) (z_eraseB s.batch) (zv_K s.range s.blacklist) s.claimed) [] U BU N TG) := by
    simp only [exec]
    rw [LP.Props.C07.confirmTickets_ok_iff]
    refine ⟨total, ⟨a1, a2, a3, a4, ?_, ?_, a7⟩, rfl⟩
    · show zv_K s.range s.blacklist e.caller = false
      simp [zv_K, a5']
    · exact z_ticketsFor (z_eraseB s.batch) (zv_K s.range s.blacklist) s.claimed a6
  have hstep := z_step_intro (s := zv_sh s U BU N TG) (by exact hm) hpay (by exact hown) hx2
  have hwf' := v1_call_WF (c := .confirm n) hwf hr hok trivial hstep
  refine ⟨⟨U, BU, N, TG, hwf', hU⟩, ?_, h.sum, ?_, h.ns⟩
  · exact GuarInvX_of_GEq (s := s) ⟨rfl, rfl, rfl, rfl, rfl, rfl, rfl⟩ rfl h.gx
  · intro i b hi hb
    exact h.hd i b hi hb

/-! ### addTicketsV1 -/

/-- the shadow of `s` with arbitrary flags -/
def zv_y (s : State) (K C : Nat → Bool) (U BU : Nat → Option UTS) (N TG : Nat) : State :=
  zv_g (z_w s (z_eraseR s.range) (z_eraseB s.batch) K C) [] U BU N TG

/-- the allocation list of the shadow: zero-size entries dropped, no guarantee -/
def zv_lst (l : List (Nat × Nat × Nat × Bool)) : List (Nat × Nat × Nat × Bool) :=
  (l.filter (fun q => decide (1 ≤ q.2.1 + q.2.2.1))).map (fun q => (q.1, 0, q.2.1 + q.2.2.1, false))

theorem zv_lst_CallOK (l : List (Nat × Nat × Nat × Bool)) : v1_CallOK (.addTicketsV1 (zv_lst l)) := by
  intro q hq
  obtain ⟨q0, hq0, rfl⟩ := List.mem_map.mp hq
  have := of_decide_eq_true (List.mem_filter.mp hq0).2
  show 1 ≤ 0 + (q0.2.1 + q0.2.2.1)
  omega

theorem zv_alloc_pos (s : State) (b n : Nat) (hn : 1 ≤ n) :
    z_eraseR (allocState s b n).range
      = upd (z_eraseR s.range) b (some ⟨s.lastTicketId + 1, s.lastTicketId + n⟩) ∧
    z_eraseB (allocState s b n).batch
      = upd (z_eraseB s.batch) (s.lastTicketId + 1) (some ⟨b, n⟩) :=
  ⟨z_eraseR_upd_ne _ _ _ (by show s.lastTicketId + 1 ≤ s.lastTicketId + n; omega),
   z_eraseB_upd_pos _ _ _ (by show n ≠ 0; omega)⟩

theorem zv_alloc_Hd (s : State) (b n : Nat) (hd : z_Hd s) : z_Hd (allocState s b n) := by
  intro i bt hi hb
  have hi' : s.lastTicketId + n < i := hi
  have hb' : upd s.batch (s.lastTicketId + 1) (some ⟨b, n⟩) i = some bt := hb
  by_cases hx : i = s.lastTicketId + 1
  · rw [hx, upd_same] at hb'
    injection hb' with hb'
    rw [← hb']
    show n = 0
    omega
  · rw [upd_other _ _ _ _ hx] at hb'
    exact hd i bt (by omega) hb'

theorem zv_alloc_zero (s : State) (b : Nat) (hr : s.range b = none) (hd : z_Hd s) :
    z_eraseR (allocState s b 0).range = z_eraseR s.range ∧
    z_eraseB (allocState s b 0).batch = z_eraseB s.batch := by
  constructor
  · show z_eraseR (upd s.range b (some ⟨s.lastTicketId + 1, s.lastTicketId + 0⟩)) = _
    rw [z_eraseR_upd_empty _ _ _ (by show ¬ s.lastTicketId + 1 ≤ s.lastTicketId + 0; omega)]
    exact z_upd_none_self _ _ (z_eraseR_of_none hr)
  · show z_eraseB (upd s.batch (s.lastTicketId + 1) (some ⟨b, 0⟩)) = _
    rw [z_eraseB_upd_zero _ _ _ rfl]
    apply z_upd_none_self
    cases hb : z_eraseB s.batch (s.lastTicketId + 1) with
    | none => rfl
    | some bt =>
      obtain ⟨k1, k2⟩ := z_eraseB_some.mp hb
      exact absurd (hd _ bt (by omega) k1) k2

/-- one entry without guarantee on a state whose threshold is positive -/
theorem zv_addV1Many_cons_y (Y : State) (b n : Nat) (rest : List (Nat × Nat × Nat × Bool))
    (tw tg : Nat) (hr : Y.range b = none) (hb : Y.lastTicketId + 1 + n < usizeMax)
    (hm : 0 < Y.minConfirmed) :
    addV1Many ((b, 0, n, false) :: rest) (Y, tw, tg)
      = addV1Many rest ({ allocState Y b n with
          whitelist := Y.whitelist,
          uts := upd Y.uts b (some { a := 0, b := n, c := 0, d := 0 }) }, tw, tg) := by
  have hm' : ¬ (0 ≥ Y.minConfirmed) := by omega
  have hm2 : ¬ (0 ≥ (allocState Y b n).minConfirmed) := hm'
  rw [addV1Many, tryCreateTickets_eq]
  simp only [Nat.zero_add, if_pos hr, if_pos hb, hm2, decide_false, Bool.false_and,
    Bool.false_eq_true, if_false]
  rfl

theorem zv_addV1Many (K C : Nat → Bool) (BU : Nat → Option UTS) (N TG : Nat) :
    ∀ (l : List (Nat × Nat × Nat × Bool)) (s : State) (tw tg : Nat) (r : State × Nat × Nat)
      (U : Nat → Option UTS) (tw2 tg2 : Nat),
      addV1Many l (s, tw, tg) = .ok r → z_Hd s → 0 < s.minConfirmed →
      (∀ u, (z_eraseR s.range u).isSome = true → (U u).isSome = true) →
      ∃ U', addV1Many (zv_lst l) (zv_y s K C U BU N TG, tw2, tg2)
          = .ok (zv_y r.1 K C U' BU N TG, tw2, tg2) ∧ z_Hd r.1 ∧
        (∀ u, (z_eraseR r.1.range u).isSome = true → (U' u).isSome = true) := by
  intro l
  induction l with
  | nil =>
    intro s tw tg r U tw2 tg2 h hd _ hU
    simp only [addV1Many, Except.ok.injEq] at h
    subst h
    exact ⟨U, rfl, hd, hU⟩
  | cons q rest ih =>
    obtain ⟨b, st, en, mg⟩ := q
    intro s tw tg r U tw2 tg2 h hd hm hU
    obtain ⟨hr, hb, wl1, u1, tw3, tg3, h'⟩ := v1_addV1Many_cons h
    by_cases hn : 1 ≤ st + en
    · -- a real entry
      obtain ⟨e1, e2⟩ := zv_alloc_pos s b (st + en) hn
      have hstate : zv_y ({ allocState s b (st + en) with whitelist := wl1, uts := u1 }) K C
            (upd U b (some { a := 0, b := st + en, c := 0, d := 0 })) BU N TG
          = { allocState (zv_y s K C U BU N TG) b (st + en) with
              whitelist := (zv_y s K C U BU N TG).whitelist,
              uts := upd (zv_y s K C U BU N TG).uts b (some { a := 0, b := st + en, c := 0, d := 0 }) } := by
        show zv_g (z_w _ (z_eraseR (allocState s b (st + en)).range)
          (z_eraseB (allocState s b (st + en)).batch) K C) [] _ BU N TG = _
        rw [e1, e2]
        rfl
      obtain ⟨U', k1, k2, k3⟩ := ih _ tw3 tg3 r
        (upd U b (some { a := 0, b := st + en, c := 0, d := 0 })) tw2 tg2 h'
        (zv_alloc_Hd s b (st + en) hd) hm (by
          intro u hu
          by_cases hub : u = b
          · subst hub; simp
          · rw [upd_other _ _ _ _ hub]
            apply hU
            have hu' : (z_eraseR (allocState s b (st + en)).range u).isSome = true := hu
            rw [e1, upd_other _ _ _ _ hub] at hu'
            exact hu')
      refine ⟨U', ?_, k2, k3⟩
      have hl : zv_lst ((b, st, en, mg) :: rest) = (b, 0, st + en, false) :: zv_lst rest := by
        unfold zv_lst
        rw [List.filter_cons_of_pos (by simpa using hn)]
        rfl
      rw [hl, zv_addV1Many_cons_y (zv_y s K C U BU N TG) b (st + en) _ tw2 tg2 (z_eraseR_of_none hr) hb hm,
        ← hstate]
      exact k1
    · -- a zero-size entry: the shadow does not move
      have hn0 : st + en = 0 := by omega
      rw [hn0] at h'
      obtain ⟨e1, e2⟩ := zv_alloc_zero s b hr hd
      have hstate : zv_y ({ allocState s b 0 with whitelist := wl1, uts := u1 }) K C U BU N TG
          = zv_y s K C U BU N TG := by
        show zv_g (z_w _ (z_eraseR (allocState s b 0).range) (z_eraseB (allocState s b 0).batch) K C)
          [] _ BU N TG = _
        rw [e1, e2]
        rfl
      obtain ⟨U', k1, k2, k3⟩ := ih _ tw3 tg3 r U tw2 tg2 h' (zv_alloc_Hd s b 0 hd) hm (by
        intro u hu
        apply hU
        have hu' : (z_eraseR (allocState s b 0).range u).isSome = true := hu
        rw [e1] at hu'
        exact hu')
      refine ⟨U', ?_, k2, k3⟩
      have hl : zv_lst ((b, st, en, mg) :: rest) = zv_lst rest := by
        unfold zv_lst
        rw [List.filter_cons_of_neg (by simpa using hn)]
      rw [hl, ← hstate]
      exact k1

theorem zv_eraseR_congr {f g : Nat → Option Range} {a : Nat} (h : f a = g a) :
    z_eraseR f a = z_eraseR g a := by
  unfold z_eraseR; rw [h]

/-- **`addTicketsV1 l`**, matched on the shadow by `addTicketsV1 (zv_lst l)` -/
theorem zv_PA_add {T0 : Nat} {hash : List Nat → List Nat} {s s' : State} {e : Env}
    {l : List (Nat × Nat × Nat × Bool)} {o : Out} {r : Nat} (h : zv_PA T0 s r) (hr : r ≤ e.round)
    (hok : EnvOK e) (hs : step hash s e (.addTicketsV1 l) = .ok (s', o)) : zv_PA T0 s' e.round := by
  obtain ⟨U, BU, N, TG, hwf, hU⟩ := h.sh
  obtain ⟨hsum', hgx'⟩ := v1_step_guar (c := .addTicketsV1 l) rfl h.gx hs
  have hfl : s'.flags = s.flags := zv_step_flags_eq hs rfl
  obtain ⟨m, t, hm, hpay, hown, hx, rfl, rfl⟩ := step_ok_inv hs
  simp only [exec, bind_ok_iff, pure_ok_iff] at hx
  obtain ⟨s1, hat, rfl⟩ := hx
  unfold addTicketsV1 at hat
  simp only [bind_ok_iff, pure_ok_iff, requireStage, req_ok_iff, exists_const, Prod.exists] at hat
  obtain ⟨hst, sA, tw, tg, hmany, rfl⟩ := hat
  have hmc : 0 < (tx0 s e).s.minConfirmed := hwf.static.1
  obtain ⟨U', k1, k2, k3⟩ := zv_addV1Many (zv_K s.range s.blacklist) s.claimed BU N TG l (tx0 s e).s _ _ _
    U N TG hmany h.hd hmc hU
  obtain ⟨s0', hcm, hrg, _, _, wl, u, hsA⟩ := v1_addV1Many_sim l (tx0 s e).s (tx0 s e).s _ _ _ _ _
    rfl rfl rfl hmany
  obtain ⟨_, hnone, _, _, _, hfr, _, _⟩ := createMany_ok (v1_proj l) _ s0' hcm
  have hbl : sA.blacklist = s.blacklist := by rw [hsA]; rfl
  have hcl : sA.claimed = s.claimed := by rw [hsA]; rfl
  have hK : zv_K sA.range sA.blacklist = zv_K s.range s.blacklist := by
    funext a
    unfold zv_K
    rw [hbl]
    cases hb : s.blacklist a with
    | false => rfl
    | true =>
      have hsome := h.gx.bl_range a hb
      have hnin : a ∉ (v1_proj l).map Prod.fst := by
        intro hin
        have : s.range a = none := hnone a hin
        rw [this] at hsome; cases hsome
      have : sA.range a = s.range a := by rw [hrg]; exact hfr a hnin
      rw [zv_eraseR_congr this]
  have hx2 : exec hash (tx0 (zv_sh s U BU N TG) e) e (.addTicketsV1 (zv_lst l))
      = .ok ((tx0 (zv_sh s U BU N TG) e).setS
          (zv_y sA (zv_K s.range s.blacklist) s.claimed U' BU N TG)) := by
    simp only [exec, bind_ok_iff, pure_ok_iff]
    refine ⟨_, ?_, rfl⟩
    unfold addTicketsV1
    simp only [bind_ok_iff, pure_ok_iff, requireStage, req_ok_iff, exists_const, Prod.exists]
    exact ⟨hst, _, _, _, k1, rfl⟩
  have hmz : endpointMeta (zv_sh s U BU N TG).variant (.addTicketsV1 (zv_lst l)) = some m := by
    rw [← hm]; rfl
  have hstep := z_step_intro (s := zv_sh s U BU N TG) hmz hpay (by exact hown) hx2
  have hwf' := v1_call_WF hwf hr hok (zv_lst_CallOK l) hstep
  have hsh : ((tx0 (zv_sh s U BU N TG) e).setS
      (zv_y sA (zv_K s.range s.blacklist) s.claimed U' BU N TG)).s
        = zv_sh ({ sA with totalGuaranteed := tg, nrWinning := tw }) U' BU N TG := by
    show zv_y sA (zv_K s.range s.blacklist) s.claimed U' BU N TG
      = zv_y sA (zv_K sA.range sA.blacklist) sA.claimed U' BU N TG
    rw [hK, hcl]
  rw [hsh] at hwf'
  exact ⟨⟨U', BU, N, TG, hwf', k3⟩, hgx', by rw [hsum']; exact h.sum, k2, by rw [hfl]; exact h.ns⟩

/-! ### blacklist -/

theorem zv_sum_filter (f : Nat → Nat) (p : Nat → Bool) :
    ∀ (l : List Nat), (∀ a ∈ l, p a = false → f a = 0) → ((l.filter p).map f).sum = (l.map f).sum
  | [], _ => rfl
  | a :: rest, h => by
    have ih := zv_sum_filter f p rest (fun b hb => h b (List.mem_cons_of_mem _ hb))
    cases hp : p a with
    | true =>
      rw [List.filter_cons_of_pos (by simp [hp])]
      simp only [List.map_cons, List.sum_cons, ih]
    | false =>
      rw [List.filter_cons_of_neg (by simp [hp])]
      simp only [List.map_cons, List.sum_cons, ih, h a (List.mem_cons_self ..) hp, Nat.zero_add]

/-- with an empty whitelist the v1 clear hook does nothing -/
theorem zv_clearV1Many_nil : ∀ (l : List Nat) (s : State) (rm tg : Nat), s.whitelist = [] →
    clearV1Many l (s, rm, tg) = .ok (s, rm, tg)
  | [], s, rm, tg, _ => rfl
  | u :: rest, s, rm, tg, h => by
    have e1 : swapRemove s.whitelist u = ([], false) := by rw [h]; rfl
    have e2 : ({ s with whitelist := [] } : State) = s := by
      cases s
      simp only at h
      subst h
      rfl
    simp only [clearV1Many, e1, Bool.not_false, if_true]
    rw [e2]
    exact zv_clearV1Many_nil rest s rm tg h

theorem zv_clearGuaranteedV1_nil (s : State) (l : List Nat) (h : s.whitelist = []) :
    clearGuaranteedV1 s l = .ok s := by
  unfold clearGuaranteedV1
  rw [zv_clearV1Many_nil l s 0 s.totalGuaranteed h]
  rfl

/-- blacklisting on the shadow -/
theorem zv_blState (s : State) (l l' : List Nat) (R : Nat → Option Range) (B : Nat → Option Batch)
    (K K' C : Nat → Bool) (U BU : Nat → Option UTS) (N TG : Nat)
    (hK : K' = fun a => if a ∈ l' then true else K a)
    (hC : (fun a => if a ∈ l' then 0 else s.confirmed a) = fun a => if a ∈ l then 0 else s.confirmed a)
    (hS : blConfSum s l' = blConfSum s l) :
    blState (zv_g (z_w s R B K C) [] U BU N TG) l'
      = zv_g (z_w (blState s l) R B K' C) [] U BU N TG := by
  subst hK
  have h1 : blConfSum (zv_g (z_w s R B K C) [] U BU N TG) l' = blConfSum s l := hS
  have h2 : (fun a => if a ∈ l' then 0 else (zv_g (z_w s R B K C) [] U BU N TG).confirmed a)
      = fun a => if a ∈ l then 0 else s.confirmed a := hC
  unfold blState
  rw [h1, h2]
  rfl

/-- before the first `filter` call an address without a non-empty range has nothing confirmed -/
theorem zv_noRange_noConf {T0 : Nat} {y : State} {r : Nat} (hwf : v1_WF T0 y r)
    (hns : y.flags.started = false) {a : Nat} (ha : y.range a = none) : y.confirmed a = 0 := by
  obtain ⟨_, _, L0, hp, hA, _⟩ := v1_phase_notStarted hwf.phase hns
  by_cases hin : a ∈ L0.map Prod.fst
  · obtain ⟨rr, hrr⟩ := rb_Chain_range_some hA.chain hin
    have hrr' : y.range a = some rr := hrr
    rw [ha] at hrr'; cases hrr'
  · exact hp.outC a hin

theorem zv_isSome_false {α : Type} {x : Option α} (h : ¬ (x.isSome = true)) : x = none := by
  cases x with
  | none => rfl
  | some a => exact absurd rfl h

/-- **`blacklist l`**, matched on the shadow by `blacklist (l without the holders of an empty range)` -/
theorem zv_PA_blacklist {T0 : Nat} {hash : List Nat → List Nat} {s s' : State} {e : Env}
    {l : List Nat} {o : Out} {r : Nat} (h : zv_PA T0 s r) (hr : r ≤ e.round)
    (hok : EnvOK e) (hs : step hash s e (.blacklist l) = .ok (s', o)) : zv_PA T0 s' e.round := by
  obtain ⟨U, BU, N, TG, hwf, hU⟩ := h.sh
  obtain ⟨hsum', hgx'⟩ := v1_step_guar (c := .blacklist l) rfl h.gx hs
  have hfl : s'.flags = s.flags := zv_step_flags_eq hs rfl
  have hvar : v1_Fam s.variant := hwf.var
  obtain ⟨f1, f2, f3, f4, _⟩ := v1_fam_flags hvar
  obtain ⟨m, t, hm, hpay, hown, hx, rfl, rfl⟩ := step_ok_inv hs
  obtain ⟨hadd1, _, _, _, _, _, s1, py, bal, hgh, hts, hpb⟩ := exec_blacklist_out hx
  obtain ⟨hperm, hstage, hnd, hall, hle, _⟩ := (addUsersToBlacklist_ok_iff _ _ _ _).mp hadd1
  obtain ⟨hpy, hbal⟩ := hpb (by exact f2)
  obtain ⟨⟨wl, uu, bb, nw, tg, hs1⟩, _⟩ := hgh
  have hts' : t.s = s1 := by rw [hts, hpy, hbal]
  have hc : ∀ a, z_eraseR s.range a = none → s.confirmed a = 0 := fun a ha =>
    zv_noRange_noConf hwf h.ns (a := a) ha
  have hmem : ∀ a, a ∈ l.filter (fun a => (z_eraseR s.range a).isSome) ↔
      a ∈ l ∧ (z_eraseR s.range a).isSome = true := fun a => List.mem_filter
  have hS : blConfSum (tx0 s e).s (l.filter (fun a => (z_eraseR s.range a).isSome))
      = blConfSum (tx0 s e).s l :=
    zv_sum_filter s.confirmed (fun a => (z_eraseR s.range a).isSome) l
      (fun a _ hp => hc a (zv_isSome_false (by rw [hp]; simp)))
  have hC : (fun a => if a ∈ l.filter (fun a => (z_eraseR s.range a).isSome) then 0
        else (tx0 s e).s.confirmed a)
      = fun a => if a ∈ l then 0 else (tx0 s e).s.confirmed a := by
    funext a
    by_cases h1 : a ∈ l
    · by_cases h2 : (z_eraseR s.range a).isSome = true
      · rw [if_pos ((hmem a).mpr ⟨h1, h2⟩), if_pos h1]
      · rw [if_neg (fun hh => h2 ((hmem a).mp hh).2), if_pos h1]
        exact hc a (zv_isSome_false h2)
    · rw [if_neg (fun hh => h1 ((hmem a).mp hh).1), if_neg h1]
  have hK : zv_K s.range (fun a => if a ∈ l then true else s.blacklist a)
      = fun a => if a ∈ l.filter (fun a => (z_eraseR s.range a).isSome) then true
          else zv_K s.range s.blacklist a := by
    funext a
    show ((if a ∈ l then true else s.blacklist a) && (z_eraseR s.range a).isSome)
      = (if a ∈ l.filter (fun a => (z_eraseR s.range a).isSome) then true
          else (s.blacklist a && (z_eraseR s.range a).isSome))
    by_cases h1 : a ∈ l
    · by_cases h2 : (z_eraseR s.range a).isSome = true
      · rw [if_pos ((hmem a).mpr ⟨h1, h2⟩), if_pos h1, h2]; rfl
      · rw [if_neg (fun hh => h2 ((hmem a).mp hh).2), if_pos h1]
        have : (z_eraseR s.range a).isSome = false := by simpa using h2
        rw [this]; simp
    · rw [if_neg (fun hh => h1 ((hmem a).mp hh).1), if_neg h1]
  have hstate := zv_blState (tx0 s e).s l (l.filter (fun a => (z_eraseR s.range a).isSome))
    (z_eraseR s.range) (z_eraseB s.batch) (zv_K s.range s.blacklist) _ s.claimed U BU N TG hK hC hS
  -- the shadow accepts the filtered call
  have hy1 : addUsersToBlacklist (tx0 (zv_sh s U BU N TG) e) e
      (l.filter (fun a => (z_eraseR s.range a).isSome))
      = .ok (blTx (tx0 (zv_sh s U BU N TG) e) e (l.filter (fun a => (z_eraseR s.range a).isSome))) := by
    rw [addUsersToBlacklist_ok_iff]
    refine ⟨hperm, hstage, hnd.filter _, ?_, ?_, rfl⟩
    · intro u hu
      obtain ⟨h1, h2⟩ := (hmem u).mp hu
      refine ⟨?_, h2⟩
      show zv_K s.range s.blacklist u = false
      have : s.blacklist u = false := (hall u h1).1
      simp [zv_K, this]
    · have : blConfSum (tx0 (zv_sh s U BU N TG) e).s (l.filter (fun a => (z_eraseR s.range a).isSome))
          = blConfSum (tx0 s e).s l := hS
      rw [this]
      exact hle
  have hx2 : exec hash (tx0 (zv_sh s U BU N TG) e) e
      (.blacklist (l.filter (fun a => (z_eraseR s.range a).isSome)))
      = .ok (blTx (tx0 (zv_sh s U BU N TG) e) e (l.filter (fun a => (z_eraseR s.range a).isSome))) := by
    have hg : blHookG (blTx (tx0 (zv_sh s U BU N TG) e) e (l.filter (fun a => (z_eraseR s.range a).isSome)))
        (l.filter (fun a => (z_eraseR s.range a).isSome))
        = .ok (blTx (tx0 (zv_sh s U BU N TG) e) e (l.filter (fun a => (z_eraseR s.range a).isSome))) := by
      unfold blHookG
      rw [if_neg (by show ¬ (s.variant.isV2 = true); rw [f3]; simp), if_pos (by exact f4),
        zv_clearGuaranteedV1_nil _ _ rfl]
      rfl
    have hn : blHookN (blTx (tx0 (zv_sh s U BU N TG) e) e (l.filter (fun a => (z_eraseR s.range a).isSome)))
        (l.filter (fun a => (z_eraseR s.range a).isSome))
        = .ok (blTx (tx0 (zv_sh s U BU N TG) e) e (l.filter (fun a => (z_eraseR s.range a).isSome))) := by
      unfold blHookN
      rw [if_neg (by show ¬ (s.variant.hasNft = true); rw [f2]; simp)]
      rfl
    have he : blHookE (blTx (tx0 (zv_sh s U BU N TG) e) e (l.filter (fun a => (z_eraseR s.range a).isSome))) e
        (l.filter (fun a => (z_eraseR s.range a).isSome))
        = blTx (tx0 (zv_sh s U BU N TG) e) e (l.filter (fun a => (z_eraseR s.range a).isSome)) := by
      unfold blHookE
      rw [if_neg (by show ¬ (s.variant.isV2 = true); rw [f3]; simp)]
    rw [exec_blacklist_eq, hy1]
    show (blHookG _ _ >>= _) = _
    rw [hg]
    show (blHookN _ _ >>= _) = _
    rw [hn]
    show (pure (blHookE _ _ _) : Res Tx) = _
    rw [he]
    rfl
  have hmz : endpointMeta (zv_sh s U BU N TG).variant
      (.blacklist (l.filter (fun a => (z_eraseR s.range a).isSome))) = some m := by
    rw [← hm]; rfl
  have hstep := z_step_intro (s := zv_sh s U BU N TG) hmz hpay (by exact hown) hx2
  have hwf' := v1_call_WF (c := .blacklist _) hwf hr hok trivial hstep
  have hsh : (blTx (tx0 (zv_sh s U BU N TG) e) e (l.filter (fun a => (z_eraseR s.range a).isSome))).s
      = zv_sh t.s U BU N TG := by
    refine Eq.trans (b := zv_g (z_w (blState (tx0 s e).s l) (z_eraseR s.range) (z_eraseB s.batch)
      (zv_K s.range (fun a => if a ∈ l then true else s.blacklist a)) s.claimed) [] U BU N TG) hstate ?_
    rw [hts', hs1]
    rfl
  rw [hsh] at hwf'
  refine ⟨⟨U, BU, N, TG, hwf', ?_⟩, hgx', by rw [hsum']; exact h.sum, ?_, by rw [hfl]; exact h.ns⟩
  · intro u hu
    apply hU
    rw [hts', hs1] at hu
    exact hu
  · rw [hts', hs1]
    intro i b hi hb
    exact h.hd i b hi hb

/-! ### unblacklist -/

/-- the v1 restore hook skips every holder of a live record -/
theorem zv_restoreV1Many_skip : ∀ (l : List Nat) (s : State) (nw tg : Nat),
    (∀ u ∈ l, (s.uts u).isSome = true ∨ (s.range u).isNone = true) →
    restoreV1Many l (s, nw, tg) = .ok (s, nw, tg)
  | [], _, _, _, _ => rfl
  | u :: rest, s, nw, tg, h => by
    have hu : ((s.uts u).isSome || (s.range u).isNone) = true := by
      rcases h u (List.mem_cons_self ..) with h1 | h1 <;> simp [h1]
    simp only [restoreV1Many, hu, if_true]
    exact zv_restoreV1Many_skip rest s nw tg (fun v hv => h v (List.mem_cons_of_mem _ hv))

theorem zv_restoreGuaranteedV1_skip (s : State) (l : List Nat)
    (h : ∀ u ∈ l, (s.uts u).isSome = true ∨ (s.range u).isNone = true) :
    restoreGuaranteedV1 s l = .ok s := by
  unfold restoreGuaranteedV1
  rw [zv_restoreV1Many_skip l s _ _ h]
  rfl

theorem zv_unblState (s : State) (l l' : List Nat) (R : Nat → Option Range) (B : Nat → Option Batch)
    (K K' C : Nat → Bool) (U BU : Nat → Option UTS) (N TG : Nat)
    (hK : K' = fun a => if a ∈ l' then false else K a) :
    unblState (zv_g (z_w s R B K C) [] U BU N TG) l'
      = zv_g (z_w (unblState s l) R B K' C) [] U BU N TG := by
  subst hK
  rfl

/-- **`unblacklist l`** (migration variant), matched on the shadow by the same call on the holders
    of a non-empty range -/
theorem zv_PA_unblacklist {T0 : Nat} {hash : List Nat → List Nat} {s s' : State} {e : Env}
    {l : List Nat} {o : Out} {r : Nat} (h : zv_PA T0 s r) (hr : r ≤ e.round)
    (hok : EnvOK e) (hs : step hash s e (.unblacklist l) = .ok (s', o)) : zv_PA T0 s' e.round := by
  obtain ⟨U, BU, N, TG, hwf, hU⟩ := h.sh
  obtain ⟨hsum', hgx'⟩ := v1_step_guar (c := .unblacklist l) rfl h.gx hs
  have hfl : s'.flags = s.flags := zv_step_flags_eq hs rfl
  have hvar : v1_Fam s.variant := hwf.var
  obtain ⟨f1, f2, f3, f4, _⟩ := v1_fam_flags hvar
  obtain ⟨m, t, hm, hpay, hown, hx, rfl, rfl⟩ := step_ok_inv hs
  obtain ⟨hrem, hgh, _, _, _⟩ := exec_unblacklist_out hx
  obtain ⟨hperm, hstage, hnd, hall, _⟩ := (removeUsersFromBlacklist_ok_iff _ _ _ _).mp hrem
  obtain ⟨⟨wl, uu, bb, nw, tg, hs1⟩, _⟩ := hgh
  have hmem : ∀ a, a ∈ l.filter (fun a => (z_eraseR s.range a).isSome) ↔
      a ∈ l ∧ (z_eraseR s.range a).isSome = true := fun a => List.mem_filter
  have hK : zv_K s.range (fun a => if a ∈ l then false else s.blacklist a)
      = fun a => if a ∈ l.filter (fun a => (z_eraseR s.range a).isSome) then false
          else zv_K s.range s.blacklist a := by
    funext a
    show ((if a ∈ l then false else s.blacklist a) && (z_eraseR s.range a).isSome)
      = (if a ∈ l.filter (fun a => (z_eraseR s.range a).isSome) then false
          else (s.blacklist a && (z_eraseR s.range a).isSome))
    by_cases h1 : a ∈ l
    · by_cases h2 : (z_eraseR s.range a).isSome = true
      · rw [if_pos ((hmem a).mpr ⟨h1, h2⟩), if_pos h1]; rfl
      · rw [if_neg (fun hh => h2 ((hmem a).mp hh).2), if_pos h1]
        have : (z_eraseR s.range a).isSome = false := by simpa using h2
        rw [this]; simp
    · rw [if_neg (fun hh => h1 ((hmem a).mp hh).1), if_neg h1]
  have hstate := zv_unblState (tx0 s e).s l (l.filter (fun a => (z_eraseR s.range a).isSome))
    (z_eraseR s.range) (z_eraseB s.batch) (zv_K s.range s.blacklist) _ s.claimed U BU N TG hK
  have hy1 : removeUsersFromBlacklist (tx0 (zv_sh s U BU N TG) e).s e
      (l.filter (fun a => (z_eraseR s.range a).isSome))
      = .ok (unblState (tx0 (zv_sh s U BU N TG) e).s (l.filter (fun a => (z_eraseR s.range a).isSome))) := by
    rw [removeUsersFromBlacklist_ok_iff]
    refine ⟨hperm, hstage, hnd.filter _, ?_, rfl⟩
    intro u hu
    obtain ⟨h1, h2⟩ := (hmem u).mp hu
    show zv_K s.range s.blacklist u = true
    have : s.blacklist u = true := hall u h1
    simp [zv_K, this, h2]
  have hy2 : restoreGuaranteedV1
      (unblState (tx0 (zv_sh s U BU N TG) e).s (l.filter (fun a => (z_eraseR s.range a).isSome)))
      (l.filter (fun a => (z_eraseR s.range a).isSome))
      = .ok (unblState (tx0 (zv_sh s U BU N TG) e).s (l.filter (fun a => (z_eraseR s.range a).isSome))) := by
    apply zv_restoreGuaranteedV1_skip
    intro u hu
    left
    exact hU u ((hmem u).mp hu).2
  have hx2 : exec hash (tx0 (zv_sh s U BU N TG) e) e
      (.unblacklist (l.filter (fun a => (z_eraseR s.range a).isSome)))
      = .ok ((tx0 (zv_sh s U BU N TG) e).setS
          (unblState (tx0 (zv_sh s U BU N TG) e).s (l.filter (fun a => (z_eraseR s.range a).isSome)))) := by
    simp only [exec]
    rw [hy1]
    show (if (unblState (tx0 (zv_sh s U BU N TG) e).s _).variant.isV2 = true then _ else _) = _
    rw [if_neg (by show ¬ (s.variant.isV2 = true); rw [f3]; simp)]
    show (restoreGuaranteedV1 _ _ >>= _) = _
    rw [hy2]
    rfl
  have hmz : endpointMeta (zv_sh s U BU N TG).variant
      (.unblacklist (l.filter (fun a => (z_eraseR s.range a).isSome))) = some m := by
    rw [← hm]; rfl
  have hstep := z_step_intro (s := zv_sh s U BU N TG) hmz hpay (by exact hown) hx2
  have hwf' := v1_call_WF (c := .unblacklist _) hwf hr hok trivial hstep
  have hsh : ((tx0 (zv_sh s U BU N TG) e).setS
      (unblState (tx0 (zv_sh s U BU N TG) e).s (l.filter (fun a => (z_eraseR s.range a).isSome)))).s
      = zv_sh t.s U BU N TG := by
    refine Eq.trans (b := zv_g (z_w (unblState (tx0 s e).s l) (z_eraseR s.range) (z_eraseB s.batch)
      (zv_K s.range (fun a => if a ∈ l then false else s.blacklist a)) s.claimed) [] U BU N TG) hstate ?_
    rw [hs1]
    rfl
  rw [hsh] at hwf'
  refine ⟨⟨U, BU, N, TG, hwf', ?_⟩, hgx', by rw [hsum']; exact h.sum, ?_, by rw [hfl]; exact h.ns⟩
  · intro u hu
    apply hU
    rw [hs1] at hu
    exact hu
  · rw [hs1]
    intro i b hi hb
    exact h.hd i b hi hb

end LP
