import LP.Proofs.ReachAux
/-
  LP.Proofs.ReachWF — the inductive invariant `WF T0 s r` of the plain launchpad
  (`Variant.base` and `Variant.locked`), its establishment by `init`, and its preservation by
  the passing of time and by the endpoints that do not run a loop:
  setters, `setSupport`, `pause`, `unpause`, `deposit`, `addTickets`, `confirm`, `blacklist`.

  The invariant is stated over the projection `State.core` (the fields the ledger equations and
  the ticket space depend on) so that calls which leave the projection alone are immediate.
-/
namespace LP
open LP.FY

/-- the two variants without an additional selection step -/
def Plain (v : Variant) : Prop := v = .base ∨ v = .locked

/-- a call carries EGLD or ESDT, not both -/
def EnvOK (e : Env) : Prop := e.egld = 0 ∨ e.esdts = []

/-- restriction on histories: every allocation has at least one ticket (a zero-size allocation
    produces an empty range `[f, f-1]` and a batch slot the next allocation overwrites; that case
    is documented separately) -/
def CallOK : Call → Prop
  | .addTickets l => ∀ p ∈ l, 1 ≤ p.2
  | _ => True

def AllDone (s : State) : Prop := s.flags.selected = true ∧ s.flags.additional = true

/-! ### the projection -/

structure Core where
  price : Nat
  payBal : Nat
  confirmed : Nat → Nat
  nrWinning : Nat
  status : Nat → Bool
  posToId : Nat → Nat
  range : Nat → Option Range
  batch : Nat → Option Batch
  lastTicketId : Nat
  op : Op
  flags : Flags
  claimable : Nat

def State.core (s : State) : Core :=
  { price := s.price, payBal := s.bal s.payTok 0, confirmed := s.confirmed,
    nrWinning := s.nrWinning, status := s.status, posToId := s.posToId, range := s.range,
    batch := s.batch, lastTicketId := s.lastTicketId, op := s.op, flags := s.flags,
    claimable := s.claimablePayment }

def PayPre (c : Core) (L : List Nat) : Prop := c.payBal = c.price * sumOver c.confirmed L

def dueC (c : Core) (a : Nat) : Nat :=
  match c.range a with
  | none => 0
  | some _ => c.price * (c.confirmed a - winOf c.range c.status a)

def PayPost (c : Core) (L : List Nat) : Prop := c.payBal = c.claimable + sumOver (dueC c) L

theorem rb_PayPre_iff (s : State) (L : List Nat) : PayEqPre s L ↔ PayPre s.core L := Iff.rfl

theorem rb_refundDue_eq (s : State) : refundDue s = dueC s.core := by
  funext a; rfl

theorem rb_PayPost_iff (s : State) (L : List Nat) : PayEqPost s L ↔ PayPost s.core L := by
  unfold PayEqPost PayPost; rw [rb_refundDue_eq]; rfl

/-! ### the phases -/

/-- common part of the two phases before the filter has completed -/
structure Pre (T0 : Nat) (c : Core) (L0 : List (Nat × Nat)) : Prop where
  notFiltered : c.flags.filtered = false
  notSelected : c.flags.selected = false
  nrw : c.nrWinning = T0
  status0 : c.status = fun _ => false
  pos0 : c.posToId = fun _ => 0
  ok : AllocOK c.confirmed L0
  outC : ∀ a, a ∉ L0.map Prod.fst → c.confirmed a = 0
  outR : ∀ a, a ∉ L0.map Prod.fst → c.range a = none
  pay : PayPre c (L0.map Prod.fst)

/-- phase A: no filter call yet -/
structure PhA (c : Core) (L0 : List (Nat × Nat)) : Prop where
  notStarted : c.flags.started = false
  op : c.op = .none
  chain : Chain L0 1 c.range c.batch
  last : c.lastTicketId = ticketTotal L0

/-- phase B: the filter is interrupted -/
structure PhB (c : Core) (L0 : List (Nat × Nat)) : Prop where
  started : c.flags.started = true
  mid : ∃ f rm, c.op = .filter f rm ∧ Mid c.confirmed c.lastTicketId L0 ⟨c.range, c.batch, f, rm⟩

/-- phase C: filtered, lottery not complete -/
structure PhC (T0 : Nat) (c : Core) : Prop where
  started : c.flags.started = true
  filtered : c.flags.filtered = true
  notSelected : c.flags.selected = false
  nrw : c.nrWinning = min T0 c.lastTicketId
  alloc : ∃ Ls : List (Nat × Nat), (Ls.map Prod.fst).Nodup ∧
    (∀ p ∈ Ls, 1 ≤ p.2 ∧ p.2 = c.confirmed p.1) ∧ Chain Ls 1 c.range c.batch ∧
    c.lastTicketId = ticketTotal Ls ∧
    (∀ a, a ∉ Ls.map Prod.fst → c.range a = none ∧ c.confirmed a = 0) ∧
    PayPre c (Ls.map Prod.fst)
  sel : (c.op = .none ∧ c.status = (fun _ => false) ∧ c.posToId = fun _ => 0) ∨
    (∃ rng pos arr, c.op = .select rng pos ∧ 1 ≤ pos ∧ pos ≤ c.nrWinning ∧
      R c.lastTicketId pos c.status c.posToId arr)

/-- phase D: all selection steps complete -/
structure PhD (c : Core) : Prop where
  started : c.flags.started = true
  filtered : c.flags.filtered = true
  selected : c.flags.selected = true
  op : c.op = .none
  rngOk : ∀ a r, c.range a = some r → r.first ≤ r.last ∧ r.last + 1 = r.first + c.confirmed a
  rngNone : ∀ a, c.range a = none → c.confirmed a = 0
  disj : ∀ a b ra rb, a ≠ b → c.range a = some ra → c.range b = some rb →
    ra.last < rb.first ∨ rb.last < ra.first
  led : ∃ L : List Nat, L.Nodup ∧ (∀ a, c.confirmed a ≠ 0 → a ∈ L) ∧ PayPost c L ∧
    sumOver (winOf c.range c.status) L = c.nrWinning

def Phase (T0 : Nat) (c : Core) : Prop :=
  (∃ L0, Pre T0 c L0 ∧ (PhA c L0 ∨ PhB c L0)) ∨ PhC T0 c ∨ PhD c

/-- the inductive invariant; `r` is the round of the latest transaction, `T0` the number of
    winning tickets configured at deployment -/
structure WF (T0 : Nat) (s : State) (r : Nat) : Prop where
  var : Plain s.variant
  pricePos : 0 < s.price
  tokNe : s.payTok ≠ .esdt s.lpTok
  add : s.flags.additional = true
  balOther : ∀ t, t ≠ s.payTok → t ≠ .esdt s.lpTok → s.bal t 0 = 0
  tlConf : r < s.cfg.conf → ∀ a, s.confirmed a = 0
  tlStarted : s.flags.started = true → s.cfg.conf ≤ r ∧ s.cfg.sel ≤ r
  phase : Phase T0 s.core

/-! ### extraction of the phase from the flags -/

theorem rb_phase_notStarted {T0 : Nat} {c : Core} (h : Phase T0 c) (hs : c.flags.started = false) :
    ∃ L0, Pre T0 c L0 ∧ PhA c L0 := by
  rcases h with ⟨L0, hp, ha | hb⟩ | hc | hd
  · exact ⟨L0, hp, ha⟩
  · rw [hb.started] at hs; cases hs
  · rw [hc.started] at hs; cases hs
  · rw [hd.started] at hs; cases hs

theorem rb_phase_notFiltered {T0 : Nat} {c : Core} (h : Phase T0 c) (hs : c.flags.filtered = false) :
    ∃ L0, Pre T0 c L0 ∧ (PhA c L0 ∨ PhB c L0) := by
  rcases h with h | hc | hd
  · exact h
  · rw [hc.filtered] at hs; cases hs
  · rw [hd.filtered] at hs; cases hs

theorem rb_phase_C {T0 : Nat} {c : Core} (h : Phase T0 c) (hf : c.flags.filtered = true)
    (hs : c.flags.selected = false) : PhC T0 c := by
  rcases h with ⟨L0, hp, _⟩ | hc | hd
  · rw [hp.notFiltered] at hf; cases hf
  · exact hc
  · rw [hd.selected] at hs; cases hs

theorem rb_phase_D {T0 : Nat} {c : Core} (h : Phase T0 c) (hs : c.flags.selected = true) : PhD c := by
  rcases h with ⟨L0, hp, _⟩ | hc | hd
  · rw [hp.notSelected] at hs; cases hs
  · rw [hc.notSelected] at hs; cases hs
  · exact hd

/-! ### stages -/

theorem rb_stage_addTickets {s : State} {e : Env} (h : s.stage e = .addTickets) :
    e.round < s.cfg.conf := by
  unfold State.stage stageOf at h
  repeat' (split at h)
  all_goals first | assumption | cases h

theorem rb_stage_confirm {s : State} {e : Env} (h : s.stage e = .confirm) :
    s.cfg.conf ≤ e.round ∧ e.round < s.cfg.sel := by
  unfold State.stage stageOf at h
  repeat' (split at h)
  all_goals first | (cases h; done) | (constructor <;> omega)

theorem rb_stage_winnerSelection {s : State} {e : Env} (h : s.stage e = .winnerSelection) :
    s.cfg.conf ≤ e.round ∧ s.cfg.sel ≤ e.round := by
  unfold State.stage stageOf at h
  repeat' (split at h)
  all_goals first | (cases h; done) | (constructor <;> omega)

theorem rb_stage_claim {s : State} {e : Env} (h : s.stage e = .claim) :
    s.flags.selected = true ∧ s.cfg.conf ≤ e.round ∧ s.cfg.sel ≤ e.round := by
  obtain ⟨h1, _, _, h4⟩ := LP.Props.C06.claim_stage_means_all_done _ _ _ h
  refine ⟨h1, ?_, h4⟩
  unfold State.stage stageOf at h
  split at h
  · cases h
  · omega

theorem rb_notStarted_of_lt {T0 : Nat} {s : State} {r : Nat} (h : WF T0 s r) {n : Nat}
    (hr : r ≤ n) (hlt : n < s.cfg.conf ∨ n < s.cfg.sel) : s.flags.started = false := by
  cases hs : s.flags.started with
  | false => rfl
  | true => have := h.tlStarted hs; omega

/-! ### transfer of the invariant along an unchanged projection -/

theorem rb_WF_of_core {T0 : Nat} {s s' : State} {r r' : Nat} (h : WF T0 s r)
    (hcore : s'.core = s.core) (hv : s'.variant = s.variant) (hp : s'.payTok = s.payTok)
    (hl : s'.lpTok = s.lpTok)
    (hb : ∀ t, t ≠ s.payTok → t ≠ .esdt s.lpTok → s'.bal t 0 = 0)
    (htl1 : r' < s'.cfg.conf → ∀ a, s.confirmed a = 0)
    (htl2 : s.flags.started = true → s'.cfg.conf ≤ r' ∧ s'.cfg.sel ≤ r') : WF T0 s' r' := by
  have hprice : s'.price = s.price := congrArg Core.price hcore
  have hflags : s'.flags = s.flags := congrArg Core.flags hcore
  have hconf : s'.confirmed = s.confirmed := congrArg Core.confirmed hcore
  refine ⟨by rw [hv]; exact h.var, by rw [hprice]; exact h.pricePos, by rw [hp, hl]; exact h.tokNe,
    by rw [hflags]; exact h.add, ?_, ?_, ?_, by rw [hcore]; exact h.phase⟩
  · intro t h1 h2; rw [hp] at h1; rw [hl] at h2; exact hb t h1 h2
  · intro h1; rw [hconf]; exact htl1 h1
  · intro h1; rw [hflags] at h1; exact htl2 h1

/-! ### deployment -/

theorem rb_init_inv {v : Variant} (hv : Plain v) {a : InitArgs} {e : Env} {s : State}
    (h : init v a e = .ok s) :
    s.variant = v ∧ 0 < a.price ∧ 0 < a.nrWinning ∧ a.payTok ≠ .esdt a.lpTok ∧
    s.price = a.price ∧ s.payTok = a.payTok ∧ s.lpTok = a.lpTok ∧ s.nrWinning = a.nrWinning ∧
    s.flags = { additional := true } ∧ s.bal = (fun _ _ => 0) ∧ s.confirmed = (fun _ => 0) ∧
    s.status = (fun _ => false) ∧ s.posToId = (fun _ => 0) ∧ s.range = (fun _ => none) ∧
    s.batch = (fun _ => none) ∧ s.lastTicketId = 0 ∧ s.op = .none ∧ s.claimablePayment = 0 := by
  unfold init at h
  rcases hv with rfl | rfl <;>
    simp only [Variant.hasNft, Variant.v1Alloc, Variant.hasLock, Variant.noAdditionalStep, bind_ok_iff,
      req_ok_iff, pure_ok_iff, pure_bind,
      exists_const, if_true, if_false, Bool.false_eq_true, reduceCtorEq, decide_eq_true_eq,
      bne_iff_ne, ne_eq, not_false_eq_true, beq_iff_eq] at h
  all_goals
    lp_peel h
    subst h
    refine ⟨rfl, by omega, by omega, by assumption, rfl, rfl, rfl, rfl, rfl, rfl, rfl, rfl, rfl, rfl, rfl,
      rfl, rfl, rfl⟩

theorem init_WF {v : Variant} (hv : Plain v) {a : InitArgs} {e : Env} {s : State}
    (h : init v a e = .ok s) : WF a.nrWinning s e.round := by
  obtain ⟨h1, h2, h3, h4, h5, h6, h7, h8, h9, h10, h11, h12, h13, h14, h15, h16, h17, h18⟩ :=
    rb_init_inv hv h
  refine ⟨by rw [h1]; exact hv, by omega, by rw [h6, h7]; exact h4, by rw [h9], ?_, ?_, ?_, ?_⟩
  · intro t _ _; rw [h10]
  · intro _ a; rw [h11]
  · intro hs; rw [h9] at hs; cases hs
  · left
    refine ⟨[], ⟨?_, ?_, h8, h12, h13, ⟨List.nodup_nil, nofun, nofun⟩, ?_, ?_, ?_⟩, Or.inl ⟨?_, h17, ?_, h16⟩⟩
    · show s.flags.filtered = false; rw [h9]
    · show s.flags.selected = false; rw [h9]
    · intro a _; show s.confirmed a = 0; rw [h11]
    · intro a _; show s.range a = none; rw [h14]
    · show s.bal s.payTok 0 = s.price * sumOver s.confirmed []
      rw [h10]; simp [sumOver]
    · show s.flags.started = false; rw [h9]
    · trivial

/-! ### passing of time -/

theorem wait_WF {T0 : Nat} {s : State} {r r' : Nat} (h : WF T0 s r) (hr : r ≤ r') : WF T0 s r' :=
  ⟨h.var, h.pricePos, h.tokNe, h.add, h.balOther, fun h1 => h.tlConf (by omega),
    fun h1 => by have := h.tlStarted h1; omega, h.phase⟩

end LP
