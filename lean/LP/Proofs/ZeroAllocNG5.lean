import LP.Proofs.ZeroAllocNG4
/-
  LP.Proofs.ZeroAllocNG5 — zero-size allocations in `Variant.nftGuar`, part 5: the combined step
  `secondary` on the erased state.  Its first loop reads the guarantee records and the ranges of
  the WHITELISTED addresses only: their records are the same on both sides, and an empty range
  behaves like no range (`zc_processGuaranteed`).
-/
namespace LP
open LP.FY

/-- two loop bodies that agree on an invariant give the same run -/
theorem zc_runWhile_congr {σ : Type} (b1 b2 : σ → Res (σ × Bool)) (P : σ → Prop)
    (hb : ∀ x, P x → b1 x = b2 x) (hP : ∀ x x' c, P x → b2 x = .ok (x', c) → P x') :
    ∀ (fuel : Nat) (bud : Option Nat) (x : σ), P x →
      runWhile b1 fuel bud x = runWhile b2 fuel bud x := by
  intro fuel
  induction fuel with
  | zero => intro bud x _; rfl
  | succ n ih =>
    intro bud x hx
    cases hbx : b2 x with
    | error err =>
      have h1 : b1 x = .error err := by rw [hb x hx, hbx]
      rw [runWhile_err hbx, runWhile_err h1]
    | ok r =>
      obtain ⟨x1, c⟩ := r
      have h1 : b1 x = .ok (x1, c) := by rw [hb x hx, hbx]
      have hx1 := hP x x1 c hx hbx
      cases c
      · rw [runWhile_stop hbx, runWhile_stop h1]
      · cases bud with
        | none => rw [runWhile_cont_none hbx, runWhile_cont_none h1]; exact ih _ _ hx1
        | some k =>
          cases k with
          | zero => rw [runWhile_cont_zero hbx, runWhile_cont_zero h1]
          | succ k => rw [runWhile_cont_succ hbx, runWhile_cont_succ h1]; exact ih _ _ hx1

/-- for the top-up an empty range behaves like no range -/
theorem zc_processGuaranteed (status : Nat → Bool) (R : Nat → Option Range) (u g : Nat) :
    processGuaranteed status (z_eraseR R u) g = processGuaranteed status (R u) g := by
  cases hr : R u with
  | none => rw [z_eraseR_of_none hr]
  | some r =>
    by_cases hne : r.first ≤ r.last
    · rw [z_eraseR_of_ne hr hne]
    · rw [z_eraseR_of_empty hr hne]
      have hlen : rangeLen r = 0 := by unfold rangeLen; omega
      unfold processGuaranteed
      simp only [hlen, countWinning, topUp]
      split
      · simp
      · rfl

/-- the first loop of `secondary` reads the same data on the erased state -/
theorem zc_guarBody (s : State) (B : Nat → Option Batch) (K C : Nat → Bool) (U : Nat → Option UTS)
    (x : GSt) (hx : ∀ u ∈ x.whitelist, U u = s.uts u) :
    guarBody (zc_w s (z_eraseR s.range) B K C U) x = guarBody s x := by
  unfold guarBody
  show (if x.usersLeft = 0 then _ else _) = _
  by_cases h0 : x.usersLeft = 0
  · rw [if_pos h0, if_pos h0]
  · rw [if_neg h0, if_neg h0]
    cases hwl : x.whitelist with
    | nil => rfl
    | cons u rest =>
      simp only
      have hu : U u = s.uts u := hx u (by rw [hwl]; exact List.mem_cons_self ..)
      show (match U u with | none => _ | some st => _) = _
      rw [hu]
      cases s.uts u with
      | none => rfl
      | some st =>
        simp only
        show (if _ then _ else _) = _
        have hpg : ∀ g, processGuaranteed x.status ((zc_w s (z_eraseR s.range) B K C U).range u) g
            = processGuaranteed x.status (s.range u) g := fun g => zc_processGuaranteed _ _ _ _
        simp only [hpg]
        rfl

theorem zc_guarBody_wl (s : State) {x x' : GSt} {c : Bool} (h : guarBody s x = .ok (x', c)) :
    ∀ u, u ∈ x'.whitelist → u ∈ x.whitelist := by
  by_cases h0 : x.usersLeft = 0
  · rw [guarBody_stop s x h0] at h
    injection h with h; injection h with h _; subst h
    exact fun _ hu => hu
  · cases hwl : x.whitelist with
    | nil =>
      unfold guarBody at h
      simp only [h0, if_false, hwl] at h
      cases h
    | cons u rest =>
      obtain ⟨x'', k1, k2, _⟩ := guarBody_step s x u rest hwl h0
      rw [k1] at h
      injection h with h; injection h with h _; subst h
      intro v hv
      rw [k2] at hv
      rw [← hwl]
      exact zc_swapRemove_sub hv

section
variable {R : Nat → Option Range} {B : Nat → Option Batch} {K C : Nat → Bool} {U : Nat → Option UTS}

def zc_wl (x : LSt) (R : Nat → Option Range) (B : Nat → Option Batch) (K C : Nat → Bool)
    (U : Nat → Option UTS) : LSt := { x with tx := zc_wt x.tx R B K C U }

def zc_wn (x : NSt) (R : Nat → Option Range) (B : Nat → Option Batch) (K C : Nat → Bool)
    (U : Nat → Option UTS) : NSt := { x with tx := zc_wt x.tx R B K C U }

theorem zc_leftoverBody (hash : List Nat → List Nat) (v2 : Bool) (nrOrig last : Nat) (x : LSt) :
    leftoverBody hash v2 nrOrig last (zc_wl x R B K C U)
      = mapR (fst1 (zc_wl · R B K C U)) (leftoverBody hash v2 nrOrig last x) := by
  unfold leftoverBody
  simp only [zc_wl]
  by_cases h : nrOrig + x.additional ≥ last
  · simp only [h, if_true, zc_draw]
    repeat' ite_both
    all_goals rfl
  · simp only [h, if_false, zc_draw]
    repeat' ite_both
    all_goals rfl

theorem zc_nftBody (hash : List Nat → List Nat) (total : Nat) (x : NSt) :
    nftBody hash total (zc_wn x R B K C U) = mapR (fst1 (zc_wn · R B K C U)) (nftBody hash total x) := by
  unfold nftBody
  simp only [zc_wn, zc_draw]
  ite_both
  · rfl
  split <;> rfl

theorem zc_nftSubstep (hash : List Nat → List Nat) (t : Tx) (rng : Rng) :
    nftSubstep hash (zc_wt t R B K C U) rng
      = mapR (fst1 (zc_wt · R B K C U)) (nftSubstep hash t rng) := by
  unfold nftSubstep
  simp only [mapR_bind]
  refine bind_eq_bind_of_mapR (fst1 (zc_wn · R B K C U)) ?_ ?_
  · rhs_exact runWhile_commutes (zc_wn · R B K C U) _ (zc_nftBody hash _) _ _ _
  · intro ⟨y, b2, st2⟩
    cases st2 <;> rfl

end

theorem zc_guarSubK2 (R : Nat → Option Range) (B : Nat → Option Batch) (K C : Nat → Bool)
    (U : Nat → Option UTS) (RR : Res (LSt × Option Nat × LoopStatus)) :
    guarSubK2 (mapR (fst1 (zc_wl · R B K C U)) RR) = mapR (fst1 (zc_wt · R B K C U)) (guarSubK2 RR) := by
  cases RR with
  | error err => rfl
  | ok q2 =>
    obtain ⟨y, b2, st2⟩ := q2
    cases st2 <;> rfl

/-- the guaranteed-ticket sub-step on the erased state -/
theorem zc_guaranteedSubstep (hash : List Nat → List Nat) (t : Tx) (g : GuarOp)
    (B : Nat → Option Batch) (K C : Nat → Bool) (U : Nat → Option UTS)
    (hU : ∀ u ∈ t.s.whitelist, U u = t.s.uts u) :
    guaranteedSubstep hash (zc_wt t (z_eraseR t.s.range) B K C U) g
      = mapR (fst1 (zc_wt · (z_eraseR t.s.range) B K C U)) (guaranteedSubstep hash t g) := by
  rw [guaranteedSubstep_K, guaranteedSubstep_K]
  have key : runWhile (guarBody (zc_wt t (z_eraseR t.s.range) B K C U).s)
      ((zc_wt t (z_eraseR t.s.range) B K C U).s.whitelist.length + 2)
      (zc_wt t (z_eraseR t.s.range) B K C U).c.budget (guarX (zc_wt t (z_eraseR t.s.range) B K C U).s g)
      = runWhile (guarBody t.s) (t.s.whitelist.length + 2) t.c.budget (guarX t.s g) :=
    zc_runWhile_congr (guarBody (zc_w t.s (z_eraseR t.s.range) B K C U)) (guarBody t.s)
      (fun x => ∀ u ∈ x.whitelist, U u = t.s.uts u)
      (fun x hx => zc_guarBody t.s B K C U x hx)
      (fun x x' c hx hb u hu => hx u (zc_guarBody_wl t.s hb u hu))
      _ _ _ hU
  rw [key]
  cases runWhile (guarBody t.s) (t.s.whitelist.length + 2) t.c.budget (guarX t.s g) with
  | error err => rfl
  | ok q =>
    obtain ⟨x, b, st⟩ := q
    cases st with
    | outOfFuel => rfl
    | interrupted => rfl
    | completed =>
      unfold guarSubK
      simp only [bind, Except.bind, Tx.setS]
      have hl := runWhile_commutes (zc_wl · (z_eraseR t.s.range) B K C U) _
        (zc_leftoverBody (R := z_eraseR t.s.range) (B := B) (K := K) (C := C) (U := U) hash
          t.s.variant.isV2 t.s.nrWinning t.s.lastTicketId)
        (if t.s.variant.isV2 then t.s.lastTicketId + 2 else v1LeftoverFuel) b
        ⟨x.status, t.s.posToId, g.rng, x.leftover, g.offset, x.additional,
          ⟨{ t.s with whitelist := x.whitelist, status := x.status, op := .none },
            { t.c with budget := b }, t.o⟩⟩
      refine Eq.trans (b := guarSubK2 (mapR (fst1 (zc_wl · (z_eraseR t.s.range) B K C U))
        (runWhile (leftoverBody hash t.s.variant.isV2 t.s.nrWinning t.s.lastTicketId)
          (if t.s.variant.isV2 then t.s.lastTicketId + 2 else v1LeftoverFuel) b
          ⟨x.status, t.s.posToId, g.rng, x.leftover, g.offset, x.additional,
            ⟨{ t.s with whitelist := x.whitelist, status := x.status, op := .none },
              { t.c with budget := b }, t.o⟩⟩))) ?_ ?_
      · rw [← hl]; rfl
      · exact (zc_guarSubK2 _ _ _ _ _ _).trans rfl


/-! ### `secondary` in pieces -/

/-- the NFT draw part of `secondary` -/
def zc_tail (hash : List Nat → List Nat) (p : Tx × Rng) : Res Tx :=
  nftSubstep hash p.1 p.2 >>= fun q =>
    match q.2.2 with
    | .completed =>
      pure { q.1 with s := { q.1.s with flags := { q.1.s.flags with additional := true } },
                      o := { q.1.o with ret := [0] } }
    | _ => pure { q.1 with s := { q.1.s with op := .additional (.nft q.2.1) }, o := { q.1.o with ret := [1] } }

/-- the guaranteed-ticket part of `secondary` -/
def zc_stage1 (hash : List Nat → List Nat) (t : Tx) (g : GuarOp) : Res (Sum Tx (Tx × Rng)) :=
  guaranteedSubstep hash t g >>= fun q =>
    match q.2.2 with
    | .completed =>
      pure (Sum.inr ((q.1.setS (creditAdditional q.1.s q.2.1.additional)).freshRng.2,
                     (q.1.setS (creditAdditional q.1.s q.2.1.additional)).freshRng.1))
    | _ => pure (Sum.inl { q.1 with s := { q.1.s with op := .additional (.guar q.2.1) },
                                    o := { q.1.o with ret := [1] } })

/-- the body of `secondary` after its three guards -/
def zc_secBody (hash : List Nat → List Nat) (t : Tx) : Res Tx :=
  (match t.s.op with
    | .none => pure (AddData.guar { rng := t.freshRng.1 }, t.freshRng.2)
    | .additional d => pure (d, t)
    | _ => .error (.user "Another ongoing operation is in progress")) >>= fun ct =>
  (match ct.1 with
    | .guar g => zc_stage1 hash ct.2 g
    | .nft r => pure (Sum.inr (ct.2, r))) >>= fun st1 =>
  match st1 with
  | .inl t => pure t
  | .inr p => zc_tail hash p

theorem zc_secondary_eq (hash : List Nat → List Nat) (t : Tx) (e : Env) :
    secondary hash t e =
      (requireStage t.s e .winnerSelection "Not in winner selection period" >>= fun _ =>
       req t.s.flags.selected "Must select winners for base launchpad first" >>= fun _ =>
       req (!t.s.flags.additional) "Already performed this step" >>= fun _ =>
       zc_secBody hash t) := by
  unfold secondary zc_secBody
  refine bind_congr_fun ?_; intro _
  refine bind_congr_fun ?_; intro _
  refine bind_congr_fun ?_; intro _
  cases hop : t.s.op with
  | none =>
    simp only [pure_bind, zc_stage1, bind_assoc]
    refine bind_congr_fun ?_
    intro ⟨t1, g1, st1⟩
    cases st1 <;> rfl
  | additional d =>
    cases d with
    | nft r => simp only [pure_bind]; rfl
    | guar g =>
      simp only [pure_bind, zc_stage1, bind_assoc]
      refine bind_congr_fun ?_
      intro ⟨t1, g1, st1⟩
      cases st1 <;> rfl
  | filter _ _ => rfl
  | select _ _ => rfl


def zc_sum (R : Nat → Option Range) (B : Nat → Option Batch) (K C : Nat → Bool) (U : Nat → Option UTS) :
    Sum Tx (Tx × Rng) → Sum Tx (Tx × Rng)
  | .inl t => .inl (zc_wt t R B K C U)
  | .inr p => .inr (zc_wt p.1 R B K C U, p.2)

theorem zc_tail_comm (hash : List Nat → List Nat) (R : Nat → Option Range) (B : Nat → Option Batch)
    (K C : Nat → Bool) (U : Nat → Option UTS) (p : Tx × Rng) :
    zc_tail hash (zc_wt p.1 R B K C U, p.2) = mapR (zc_wt · R B K C U) (zc_tail hash p) := by
  unfold zc_tail
  simp only [mapR_bind]
  refine bind_eq_bind_of_mapR (fst1 (zc_wt · R B K C U)) ?_ ?_
  · exact zc_nftSubstep hash p.1 p.2
  · intro ⟨t1, r1, st1⟩
    cases st1 <;> rfl

theorem zc_stage1_comm (hash : List Nat → List Nat) (t : Tx) (g : GuarOp)
    (B : Nat → Option Batch) (K C : Nat → Bool) (U : Nat → Option UTS)
    (hU : ∀ u ∈ t.s.whitelist, U u = t.s.uts u) :
    zc_stage1 hash (zc_wt t (z_eraseR t.s.range) B K C U) g
      = mapR (zc_sum (z_eraseR t.s.range) B K C U) (zc_stage1 hash t g) := by
  unfold zc_stage1
  simp only [mapR_bind]
  refine bind_eq_bind_of_mapR (fst1 (zc_wt · (z_eraseR t.s.range) B K C U)) ?_ ?_
  · exact zc_guaranteedSubstep hash t g B K C U hU
  · intro ⟨t1, g1, st1⟩
    cases st1 with
    | completed =>
      have hf := zc_freshRng (R := z_eraseR t.s.range) (B := B) (K := K) (C := C) (U := U)
        (t1.setS (creditAdditional t1.s g1.additional))
      show pure (Sum.inr ((zc_wt (t1.setS (creditAdditional t1.s g1.additional))
          (z_eraseR t.s.range) B K C U).freshRng.2,
        (zc_wt (t1.setS (creditAdditional t1.s g1.additional)) (z_eraseR t.s.range) B K C U).freshRng.1)) = _
      rw [hf]
      rfl
    | interrupted => rfl
    | outOfFuel => rfl

theorem zc_secBody_comm (hash : List Nat → List Nat) (t : Tx)
    (B : Nat → Option Batch) (K C : Nat → Bool) (U : Nat → Option UTS)
    (hU : ∀ u ∈ t.s.whitelist, U u = t.s.uts u) :
    zc_secBody hash (zc_wt t (z_eraseR t.s.range) B K C U)
      = mapR (zc_wt · (z_eraseR t.s.range) B K C U) (zc_secBody hash t) := by
  have tailc : ∀ st1 : Sum Tx (Tx × Rng),
      (match zc_sum (z_eraseR t.s.range) B K C U st1 with
        | .inl t => pure t
        | .inr p => zc_tail hash p)
      = mapR (zc_wt · (z_eraseR t.s.range) B K C U)
          (match st1 with
            | .inl t => pure t
            | .inr p => zc_tail hash p) := by
    intro st1
    cases st1 with
    | inl t1 => rfl
    | inr p => exact zc_tail_comm hash _ B K C U p
  unfold zc_secBody
  have hop' : (zc_wt t (z_eraseR t.s.range) B K C U).s.op = t.s.op := rfl
  rw [hop']
  cases hop : t.s.op with
  | none =>
    simp only [pure_bind, mapR_bind]
    have e1 := zc_stage1_comm hash t.freshRng.2 { rng := t.freshRng.1 } B K C U
      (by rw [Tx.freshRng_s]; exact hU)
    rw [Tx.freshRng_s] at e1
    rw [zc_freshRng]
    simp only
    refine bind_eq_bind_of_mapR (zc_sum (z_eraseR t.s.range) B K C U) e1 ?_
    exact tailc
  | additional d =>
    cases d with
    | nft r =>
      simp only [pure_bind]
      exact tailc (Sum.inr (t, r))
    | guar g =>
      simp only [pure_bind, mapR_bind]
      refine bind_eq_bind_of_mapR (zc_sum (z_eraseR t.s.range) B K C U)
        (zc_stage1_comm hash t g B K C U hU) ?_
      exact tailc
  | filter _ _ => rfl
  | select _ _ => rfl

/-- **the body of `secondary` commutes with the erasure** (the records of the whitelisted addresses
    are the same on both sides) -/
theorem zc_secondary (hash : List Nat → List Nat) (t : Tx) (e : Env)
    (B : Nat → Option Batch) (K C : Nat → Bool) (U : Nat → Option UTS)
    (hU : ∀ u ∈ t.s.whitelist, U u = t.s.uts u) :
    secondary hash (zc_wt t (z_eraseR t.s.range) B K C U) e
      = mapR (zc_wt · (z_eraseR t.s.range) B K C U) (secondary hash t e) := by
  rw [zc_secondary_eq, zc_secondary_eq]
  simp only [mapR_bind]
  show (requireStage t.s e .winnerSelection _ >>= fun _ => _) = _
  refine bind_congr_fun ?_; intro _
  show (req t.s.flags.selected _ >>= fun _ => _) = _
  refine bind_congr_fun ?_; intro _
  show (req (!t.s.flags.additional) _ >>= fun _ => _) = _
  refine bind_congr_fun ?_; intro _
  exact zc_secBody_comm hash t B K C U hU

end LP
