import LP.Step
import LP.Proofs.Reserve
/-
  LP.Proofs.ReserveSeq — the reserve invariant along real call sequences (`exec`) made of
  allocation / blacklist / refund / un-blacklist endpoints (A3).
-/
namespace LP

/-- outcome classification: success with `P`, or an error that is not a panic -/
def SatNP {α : Type} (r : Res α) (P : α → Prop) : Prop :=
  match r with
  | .ok a => P a
  | .error e => ∀ site, e ≠ .panic site

theorem SatU.toNP {α : Type} {r : Res α} {P : α → Prop} (h : SatU r P) : SatNP r P := by
  cases r with
  | ok a => exact h
  | error e => obtain ⟨m, rfl⟩ := h; intro site hc; cases hc

/-- the two states agree on everything the reserve invariant reads, except the blacklist flags -/
structure GEq (s s' : State) : Prop where
  whitelist : s'.whitelist = s.whitelist
  uts : s'.uts = s.uts
  blUts : s'.blUts = s.blUts
  range : s'.range = s.range
  nrWinning : s'.nrWinning = s.nrWinning
  totalGuaranteed : s'.totalGuaranteed = s.totalGuaranteed
  variant : s'.variant = s.variant

theorem GEq.refl (s : State) : GEq s s := ⟨rfl, rfl, rfl, rfl, rfl, rfl, rfl⟩

theorem GEq.trans {a b c : State} (h1 : GEq a b) (h2 : GEq b c) : GEq a c :=
  ⟨h2.whitelist.trans h1.whitelist, h2.uts.trans h1.uts, h2.blUts.trans h1.blUts,
   h2.range.trans h1.range, h2.nrWinning.trans h1.nrWinning,
   h2.totalGuaranteed.trans h1.totalGuaranteed, h2.variant.trans h1.variant⟩

theorem send_spec (t : Tx) (to : Nat) (p : Pay) :
    SatNP (t.send to p) (fun t' => GEq t.s t'.s ∧ t'.s.blacklist = t.s.blacklist) := by
  unfold Tx.send
  split
  · intro site hc; cases hc
  · exact ⟨⟨rfl, rfl, rfl, rfl, rfl, rfl, rfl⟩, rfl⟩

theorem refund_spec (t : Tx) (e : Env) (a n : Nat) :
    SatNP (t.refund e a n) (fun t' => GEq t.s t'.s ∧ t'.s.blacklist = t.s.blacklist) := by
  unfold Tx.refund
  split
  · exact ⟨GEq.refl _, rfl⟩
  · have h := send_spec t a ⟨t.s.payTok, 0, t.s.price * n⟩
    simp only [bind, Except.bind]
    cases hs : t.send a ⟨t.s.payTok, 0, t.s.price * n⟩ with
    | error err => rw [hs] at h; exact h
    | ok t1 => rw [hs] at h; exact h

theorem blacklistMany_spec (e : Env) (l : List Nat) (t : Tx) :
    SatNP (blacklistMany e l t) (fun t' => GEq t.s t'.s ∧
      (∀ u, t'.s.blacklist u = true ↔ (t.s.blacklist u = true ∨ u ∈ l)) ∧
      (∀ u ∈ l, (t.s.range u).isSome = true)) := by
  induction l generalizing t with
  | nil => exact ⟨GEq.refl _, by simp, by simp⟩
  | cons a rest ih =>
    simp only [blacklistMany]
    split
    · intro site hc; cases hc
    split
    · intro site hc; cases hc
    rename_i hbl hr
    have hr' : (t.s.range a).isSome = true := by
      cases hq : t.s.range a <;> simp [hq] at hr ⊢
    have hstep : SatNP (if t.s.confirmed a > 0 then t.refund e a (t.s.confirmed a) else .ok t)
        (fun t' => GEq t.s t'.s ∧ t'.s.blacklist = t.s.blacklist) := by
      split
      · exact refund_spec _ _ _ _
      · exact ⟨GEq.refl _, rfl⟩
    cases hq : (if t.s.confirmed a > 0 then t.refund e a (t.s.confirmed a) else .ok t) with
    | error err => rw [hq] at hstep; exact hstep
    | ok t1 =>
      rw [hq] at hstep
      obtain ⟨g1, b1⟩ := hstep
      simp only []
      -- the state handed to the recursive call
      have hnext := ih (t1.setS
        { (if t.s.confirmed a > 0 then { t1.s with confirmed := upd t1.s.confirmed a 0 } else t1.s)
          with blacklist := upd (if t.s.confirmed a > 0 then
              { t1.s with confirmed := upd t1.s.confirmed a 0 } else t1.s).blacklist a true })
      have g2 : GEq t.s (t1.setS
        { (if t.s.confirmed a > 0 then { t1.s with confirmed := upd t1.s.confirmed a 0 } else t1.s)
          with blacklist := upd (if t.s.confirmed a > 0 then
              { t1.s with confirmed := upd t1.s.confirmed a 0 } else t1.s).blacklist a true }).s := by
        split <;> exact ⟨g1.whitelist, g1.uts, g1.blUts, g1.range, g1.nrWinning,
          g1.totalGuaranteed, g1.variant⟩
      have b2 : (t1.setS
        { (if t.s.confirmed a > 0 then { t1.s with confirmed := upd t1.s.confirmed a 0 } else t1.s)
          with blacklist := upd (if t.s.confirmed a > 0 then
              { t1.s with confirmed := upd t1.s.confirmed a 0 } else t1.s).blacklist a true }).s.blacklist
          = upd t.s.blacklist a true := by
        split <;> simp only [Tx.setS, b1]
      revert hnext
      generalize (t1.setS
        { (if t.s.confirmed a > 0 then { t1.s with confirmed := upd t1.s.confirmed a 0 } else t1.s)
          with blacklist := upd (if t.s.confirmed a > 0 then
              { t1.s with confirmed := upd t1.s.confirmed a 0 } else t1.s).blacklist a true }) = t2 at g2 b2 ⊢
      intro hnext
      cases hres : blacklistMany e rest t2 with
      | error err => rw [hres] at hnext; exact hnext
      | ok t3 =>
        rw [hres] at hnext
        obtain ⟨g3, b3, r3⟩ := hnext
        refine ⟨g2.trans g3, ?_, ?_⟩
        · intro u
          rw [b3 u, b2, upd_apply]
          by_cases hu : u = a
          · simp [hu]
          · simp [hu]
        · intro u hu
          rcases List.mem_cons.1 hu with rfl | hu
          · exact hr'
          · have := r3 u hu
            rw [g2.range] at this; exact this

end LP

namespace LP

theorem unblacklistMany_spec (l : List Nat) (s : State) :
    SatU (unblacklistMany l s) (fun s' => GEq s s' ∧ l.Nodup ∧
      (∀ u ∈ l, s.blacklist u = true) ∧
      (∀ u, s'.blacklist u = true ↔ (s.blacklist u = true ∧ u ∉ l))) := by
  induction l generalizing s with
  | nil => exact ⟨GEq.refl _, List.nodup_nil, by simp, by simp⟩
  | cons a rest ih =>
    simp only [unblacklistMany]
    split
    · rename_i hb
      have := ih { s with blacklist := upd s.blacklist a false }
      cases hres : unblacklistMany rest { s with blacklist := upd s.blacklist a false } with
      | error err => rw [hres] at this; exact this
      | ok s' =>
        rw [hres] at this
        obtain ⟨g, nd, hall, hiff⟩ := this
        have hna : a ∉ rest := by
          intro ha
          have := hall a ha
          simp at this
        refine ⟨⟨g.whitelist, g.uts, g.blUts, g.range, g.nrWinning, g.totalGuaranteed, g.variant⟩,
          List.nodup_cons.2 ⟨hna, nd⟩, ?_, ?_⟩
        · intro u hu
          rcases List.mem_cons.1 hu with rfl | hu
          · exact hb
          · have := hall u hu
            simp only [upd_apply] at this
            split at this
            · cases this
            · exact this
        · intro u
          rw [hiff u]
          simp only [upd_apply, List.mem_cons, not_or]
          by_cases hu : u = a
          · simp [hu]
          · simp [hu]
    · exact SatU_user _ _

theorem refundNftMany_spec (l : List Nat) (t : Tx) :
    SatNP (refundNftMany l t) (fun t' => GEq t.s t'.s ∧ t'.s.blacklist = t.s.blacklist) := by
  induction l generalizing t with
  | nil => exact ⟨GEq.refl _, rfl⟩
  | cons u rest ih =>
    simp only [refundNftMany]
    split
    · have h1 := send_spec (t.setS { t.s with payers := (swapRemove t.s.payers u).1 }) u t.s.nftCost
      cases hs : (t.setS { t.s with payers := (swapRemove t.s.payers u).1 }).send u t.s.nftCost with
      | error err => rw [hs] at h1; exact h1
      | ok t1 =>
        rw [hs] at h1
        simp only []
        have h2 := ih t1
        cases hr : refundNftMany rest t1 with
        | error err => rw [hr] at h2; exact h2
        | ok t2 =>
          rw [hr] at h2
          have g0 : GEq t.s (t.setS { t.s with payers := (swapRemove t.s.payers u).1 }).s :=
            ⟨rfl, rfl, rfl, rfl, rfl, rfl, rfl⟩
          exact ⟨(g0.trans h1.1).trans h2.1, h2.2.trans h1.2⟩
    · exact ih t

/-! ### frames of the six loops -/

/-- what the hooks leave alone: blacklist flags, variant, and existing ranges -/
structure Fr (s s' : State) : Prop where
  blacklist : s'.blacklist = s.blacklist
  variant : s'.variant = s.variant
  range : ∀ u, (s.range u).isSome = true → (s'.range u).isSome = true

theorem Fr.refl (s : State) : Fr s s := ⟨rfl, rfl, fun _ h => h⟩
theorem Fr.trans {a b c : State} (h1 : Fr a b) (h2 : Fr b c) : Fr a c :=
  ⟨h2.blacklist.trans h1.blacklist, h2.variant.trans h1.variant, fun u h => h2.range u (h1.range u h)⟩

theorem clearV2Many_frame (l : List Nat) (s : State) (nw tg : Nat) (s' : State) (nw' tg' : Nat)
    (h : clearV2Many l (s, nw, tg) = .ok (s', nw', tg')) :
    Fr s s' ∧ (∀ u, (u ∈ l ∨ s.uts u = none) → s'.uts u = none) := by
  induction l generalizing s nw tg with
  | nil =>
    simp only [clearV2Many] at h
    cases h
    exact ⟨Fr.refl _, fun u hu => by simpa using hu⟩
  | cons a rest ih =>
    simp only [clearV2Many] at h
    split at h
    · cases h
    · obtain ⟨f, hu⟩ := ih _ _ _ h
      refine ⟨⟨f.blacklist, f.variant, f.range⟩, ?_⟩
      intro u hu'
      apply hu
      by_cases hua : u = a
      · right; simp [hua]
      · rcases hu' with hm | hn
        · rcases List.mem_cons.1 hm with e | hm
          · exact absurd e hua
          · exact Or.inl hm
        · right; simp only [upd_apply, hua, if_false]; exact hn

theorem restoreV2Many_frame (l : List Nat) (s : State) (nw tg : Nat) (s' : State) (nw' tg' : Nat)
    (h : restoreV2Many l (s, nw, tg) = .ok (s', nw', tg')) :
    Fr s s' ∧ (∀ u, u ∉ l → s'.uts u = s.uts u) := by
  induction l generalizing s nw tg with
  | nil =>
    simp only [restoreV2Many] at h
    cases h
    exact ⟨Fr.refl _, fun _ _ => rfl⟩
  | cons a rest ih =>
    simp only [restoreV2Many] at h
    split at h
    · obtain ⟨f, hu⟩ := ih _ _ _ h
      exact ⟨f, fun u hn => hu u (fun hm => hn (List.mem_cons_of_mem _ hm))⟩
    split at h
    · split at h
      · cases h
      · obtain ⟨f, hu⟩ := ih _ _ _ h
        refine ⟨⟨f.blacklist, f.variant, f.range⟩, ?_⟩
        intro u hn
        rw [hu u (fun hm => hn (List.mem_cons_of_mem _ hm))]
        exact upd_other _ _ _ _ (fun e => hn (e ▸ List.mem_cons_self ..))
    · obtain ⟨f, hu⟩ := ih _ _ _ h
      refine ⟨⟨f.blacklist, f.variant, f.range⟩, ?_⟩
      intro u hn
      rw [hu u (fun hm => hn (List.mem_cons_of_mem _ hm))]
      exact upd_other _ _ _ _ (fun e => hn (e ▸ List.mem_cons_self ..))

theorem addV2Many_frame (e : Env) (l : List (Nat × Nat × List (Nat × Nat))) (s : State)
    (tw tg uc ta ga : Nat) (r : State × Nat × Nat × Nat × Nat × Nat)
    (h : addV2Many e l (s, tw, tg, uc, ta, ga) = .ok r) :
    Fr s r.1 ∧ (∀ u, (s.range u).isSome = true → r.1.uts u = s.uts u) := by
  induction l generalizing s tw tg uc ta ga with
  | nil =>
    simp only [addV2Many] at h
    cases h
    exact ⟨Fr.refl _, fun _ _ => rfl⟩
  | cons x rest ih =>
    obtain ⟨buyer, n, infos⟩ := x
    simp only [addV2Many] at h
    split at h
    · exact ih _ _ _ _ _ _ h
    split at h
    · cases h
    split at h
    · cases h
    split at h
    · cases h
    rcases tryCreateTickets_cases s buyer n with ⟨m, hm⟩ | ⟨hnone, hok⟩
    · rw [hm] at h; cases h
    · rw [hok] at h
      simp only [] at h
      have hne : ∀ u, (s.range u).isSome = true → u ≠ buyer := by
        intro u hu e; subst e; simp [hnone] at hu
      have hrange : ∀ u, (s.range u).isSome = true →
          (upd s.range buyer (some ⟨s.lastTicketId + 1, s.lastTicketId + 1 + n - 1⟩) u).isSome = true := by
        intro u hu
        rw [upd_other _ _ _ _ (hne u hu)]; exact hu
      split at h
      · cases h
      split at h
      · split at h
        · cases h
        · obtain ⟨f, hu⟩ := ih _ _ _ _ _ _ h
          refine ⟨⟨f.blacklist, f.variant, fun u hx => f.range u (hrange u hx)⟩, ?_⟩
          intro u hx
          rw [hu u (hrange u hx)]
          exact upd_other _ _ _ _ (hne u hx)
      · obtain ⟨f, hu⟩ := ih _ _ _ _ _ _ h
        refine ⟨⟨f.blacklist, f.variant, fun u hx => f.range u (hrange u hx)⟩, ?_⟩
        intro u hx
        rw [hu u (hrange u hx)]
        exact upd_other _ _ _ _ (hne u hx)

end LP

namespace LP

theorem clearV1Many_frame (l : List Nat) (s : State) (rm tg : Nat) (s' : State) (rm' tg' : Nat)
    (h : clearV1Many l (s, rm, tg) = .ok (s', rm', tg')) : Fr s s' := by
  induction l generalizing s rm tg with
  | nil => simp only [clearV1Many] at h; cases h; exact Fr.refl _
  | cons a rest ih =>
    simp only [clearV1Many] at h
    split at h
    · have f := ih _ _ _ h
      exact ⟨f.blacklist, f.variant, f.range⟩
    split at h
    · cases h
    split at h
    · cases h
    · have f := ih _ _ _ h
      exact ⟨f.blacklist, f.variant, f.range⟩

theorem restoreV1Many_frame (l : List Nat) (s : State) (nw tg : Nat) (s' : State) (nw' tg' : Nat)
    (h : restoreV1Many l (s, nw, tg) = .ok (s', nw', tg')) : Fr s s' := by
  induction l generalizing s nw tg with
  | nil => simp only [restoreV1Many] at h; cases h; exact Fr.refl _
  | cons a rest ih =>
    simp only [restoreV1Many] at h
    split at h
    · exact ih _ _ _ h
    split at h
    · exact ih _ _ _ h
    split at h
    · cases h
    · have f := ih _ _ _ h
      exact ⟨f.blacklist, f.variant, f.range⟩

theorem addV1Many_frame (l : List (Nat × Nat × Nat × Bool)) (s : State) (tw tg : Nat)
    (r : State × Nat × Nat) (h : addV1Many l (s, tw, tg) = .ok r) : Fr s r.1 := by
  induction l generalizing s tw tg with
  | nil => simp only [addV1Many] at h; cases h; exact Fr.refl _
  | cons x rest ih =>
    obtain ⟨buyer, staking, energy, migrated⟩ := x
    simp only [addV1Many] at h
    rcases tryCreateTickets_cases s buyer (staking + energy) with ⟨m, hm⟩ | ⟨hnone, hok⟩
    · rw [hm] at h; cases h
    · rw [hok] at h
      simp only [] at h
      have hrange : ∀ (X : Option Range) (u : Nat), (s.range u).isSome = true →
          (upd s.range buyer X u).isSome = true := by
        intro X u hu
        have : u ≠ buyer := by intro e; subst e; simp [hnone] at hu
        rw [upd_other _ _ _ _ this]; exact hu
      have key : ∀ (s1 : State) (tw' tg' : Nat) (h : addV1Many rest (s1, tw', tg') = .ok r),
          s1.blacklist = s.blacklist →
          s1.variant = s.variant →
          (∀ u, (s.range u).isSome = true → (s1.range u).isSome = true) →
          Fr s r.1 := by
        intro s1 tw' tg' h' hb hv hr
        have f := ih _ _ _ h'
        exact ⟨f.blacklist.trans hb, f.variant.trans hv, fun u hx => f.range u (hr u hx)⟩
      cases migrated <;> by_cases hs : staking ≥ s.minConfirmed <;> rcases tw with _ | _ | n <;>
        simp [hs] at h <;> exact key _ _ _ (h := h) rfl rfl (hrange _)

end LP

namespace LP

theorem SatNP_bind {α β : Type} {r : Res α} {f : α → Res β} {P : α → Prop} {Q : β → Prop}
    (h : SatNP r P) (hf : ∀ a, P a → SatNP (f a) Q) : SatNP (r >>= f) Q := by
  cases r with
  | error e => exact h
  | ok a => exact hf a h

theorem SatNP.mono {α : Type} {r : Res α} {P Q : α → Prop} (h : SatNP r P)
    (hpq : ∀ a, P a → Q a) : SatNP r Q := by
  cases r with
  | ok a => exact hpq a h
  | error e => exact h

theorem SatNP_of_ok {α : Type} {r : Res α} {P : α → Prop} (h : ∀ a, r = .ok a → P a)
    (hnp : ∀ site, r ≠ .error (.panic site)) : SatNP r P := by
  cases r with
  | ok a => exact h a rfl
  | error e => intro site hc; subst hc; exact hnp site rfl

theorem req_spec (c : Bool) (m : String) : SatNP (req c m) (fun _ => c = true) := by
  unfold req; split
  · assumption
  · intro site hc; cases hc

theorem addUsersToBlacklist_spec (t : Tx) (e : Env) (l : List Nat) :
    SatNP (addUsersToBlacklist t e l) (fun t' => GEq t.s t'.s ∧
      (∀ u, t'.s.blacklist u = true ↔ (t.s.blacklist u = true ∨ u ∈ l)) ∧
      (∀ u ∈ l, (t.s.range u).isSome = true)) := by
  unfold addUsersToBlacklist extendedPermissions
  refine SatNP_bind (req_spec _ _) (fun _ _ => ?_)
  refine SatNP_bind (req_spec _ _) (fun _ _ => ?_)
  exact blacklistMany_spec e l t

theorem removeUsersFromBlacklist_spec (s : State) (e : Env) (l : List Nat) :
    SatNP (removeUsersFromBlacklist s e l) (fun s' => GEq s s' ∧ l.Nodup ∧
      (∀ u ∈ l, s.blacklist u = true) ∧
      (∀ u, s'.blacklist u = true ↔ (s.blacklist u = true ∧ u ∉ l))) := by
  unfold removeUsersFromBlacklist extendedPermissions
  refine SatNP_bind (req_spec _ _) (fun _ _ => ?_)
  refine SatNP_bind (req_spec _ _) (fun _ _ => ?_)
  exact (unblacklistMany_spec l s).toNP

/-! ### frames of the six hooks -/

theorem clearGuaranteedV2_frame {s s' : State} {l : List Nat}
    (h : clearGuaranteedV2 s l = .ok s') :
    Fr s s' ∧ (∀ u, (u ∈ l ∨ s.uts u = none) → s'.uts u = none) := by
  unfold clearGuaranteedV2 at h
  cases hres : clearV2Many l (s, s.nrWinning, s.totalGuaranteed) with
  | error err => rw [hres] at h; cases h
  | ok r =>
    obtain ⟨s1, nw, tg⟩ := r
    rw [hres] at h
    simp only [bind, Except.bind, pure, Except.pure, Except.ok.injEq] at h
    subst h
    have := clearV2Many_frame _ _ _ _ _ _ _ hres
    exact ⟨⟨this.1.blacklist, this.1.variant, this.1.range⟩, this.2⟩

theorem clearGuaranteedV1_frame {s s' : State} {l : List Nat}
    (h : clearGuaranteedV1 s l = .ok s') : Fr s s' := by
  unfold clearGuaranteedV1 at h
  cases hres : clearV1Many l (s, 0, s.totalGuaranteed) with
  | error err => rw [hres] at h; cases h
  | ok r =>
    obtain ⟨s1, nw, tg⟩ := r
    rw [hres] at h
    simp only [bind, Except.bind, pure, Except.pure, Except.ok.injEq] at h
    subst h
    have := clearV1Many_frame _ _ _ _ _ _ _ hres
    exact ⟨this.blacklist, this.variant, this.range⟩

theorem restoreGuaranteedV2_frame {s s' : State} {l : List Nat}
    (h : restoreGuaranteedV2 s l = .ok s') :
    Fr s s' ∧ (∀ u, u ∉ l → s'.uts u = s.uts u) := by
  unfold restoreGuaranteedV2 at h
  cases hres : restoreV2Many l (s, s.nrWinning, s.totalGuaranteed) with
  | error err => rw [hres] at h; cases h
  | ok r =>
    obtain ⟨s1, nw, tg⟩ := r
    rw [hres] at h
    simp only [bind, Except.bind, pure, Except.pure, Except.ok.injEq] at h
    subst h
    have := restoreV2Many_frame _ _ _ _ _ _ _ hres
    exact ⟨⟨this.1.blacklist, this.1.variant, this.1.range⟩, this.2⟩

theorem restoreGuaranteedV1_frame {s s' : State} {l : List Nat}
    (h : restoreGuaranteedV1 s l = .ok s') : Fr s s' := by
  unfold restoreGuaranteedV1 at h
  cases hres : restoreV1Many l (s, s.nrWinning, s.totalGuaranteed) with
  | error err => rw [hres] at h; cases h
  | ok r =>
    obtain ⟨s1, nw, tg⟩ := r
    rw [hres] at h
    simp only [bind, Except.bind, pure, Except.pure, Except.ok.injEq] at h
    subst h
    have := restoreV1Many_frame _ _ _ _ _ _ _ hres
    exact ⟨this.blacklist, this.variant, this.range⟩

theorem addTicketsV1_frame {s s' : State} {e : Env} {l : List (Nat × Nat × Nat × Bool)}
    (h : addTicketsV1 s e l = .ok s') : Fr s s' := by
  unfold addTicketsV1 requireStage req at h
  split at h
  · simp only [bind, Except.bind] at h
    cases hres : addV1Many l (s, s.nrWinning, s.totalGuaranteed) with
    | error err => rw [hres] at h; cases h
    | ok r =>
      obtain ⟨s1, nw, tg⟩ := r
      rw [hres] at h
      simp only [pure, Except.pure, Except.ok.injEq] at h
      subst h
      have := addV1Many_frame _ _ _ _ _ hres
      exact ⟨this.blacklist, this.variant, this.range⟩
  · cases h

theorem addTicketsV2_frame {t t' : Tx} {e : Env} {l : List (Nat × Nat × List (Nat × Nat))}
    (h : addTicketsV2 t e l = .ok t') :
    Fr t.s t'.s ∧ (∀ u, (t.s.range u).isSome = true → t'.s.uts u = t.s.uts u) := by
  unfold addTicketsV2 requireStage req at h
  split at h
  · simp only [bind, Except.bind] at h
    cases hres : addV2Many e l (t.s, t.s.nrWinning, t.s.totalGuaranteed, 0, 0, 0) with
    | error err => rw [hres] at h; cases h
    | ok r =>
      obtain ⟨s1, nw, tg, uc, ta, ga⟩ := r
      rw [hres] at h
      simp only [pure, Except.pure, Except.ok.injEq] at h
      subst h
      have := addV2Many_frame _ _ _ _ _ _ _ _ _ hres
      exact ⟨⟨this.1.blacklist, this.1.variant, this.1.range⟩, this.2⟩
  · cases h

end LP

namespace LP

/-! ### the invariant along real call sequences -/

/-- `GuarInv` plus what the common blacklist module guarantees: a blacklisted user has a
    ticket range and (v2) no live record -/
structure GuarInvX (s : State) : Prop where
  base : GuarInv s.variant.isV2 s
  bl_none : s.variant.isV2 = true → ∀ u, s.blacklist u = true → s.uts u = none
  bl_range : ∀ u, s.blacklist u = true → (s.range u).isSome = true

/-- one successful call: reserve conserved, invariant re-established, same contract variant -/
def RStep (s s' : State) : Prop :=
  s'.nrWinning + s'.totalGuaranteed = s.nrWinning + s.totalGuaranteed ∧ GuarInvX s' ∧
    s'.variant = s.variant

theorem GuarInv_of_GEq {v2 : Bool} {s s' : State} (g : GEq s s') (h : GuarInv v2 s) :
    GuarInv v2 s' := by
  unfold GuarInv at *
  rw [g.whitelist, g.uts, g.blUts, g.range, g.totalGuaranteed]; exact h

theorem GuarInvX_of_GEq {s s' : State} (g : GEq s s') (hb : s'.blacklist = s.blacklist)
    (h : GuarInvX s) : GuarInvX s' := by
  refine ⟨?_, ?_, ?_⟩
  · rw [g.variant]; exact GuarInv_of_GEq g h.base
  · intro hv u hu; rw [g.variant] at hv; rw [hb] at hu; rw [g.uts]; exact h.bl_none hv u hu
  · intro u hu; rw [hb] at hu; rw [g.range]; exact h.bl_range u hu

theorem RStep_of_GEq {s a b : State} (h : RStep s a) (g : GEq a b) (hb : b.blacklist = a.blacklist) :
    RStep s b :=
  ⟨by rw [g.nrWinning, g.totalGuaranteed]; exact h.1, GuarInvX_of_GEq g hb h.2.1,
   g.variant.trans h.2.2⟩

theorem exec_addTicketsV2 (hash : List Nat → List Nat) (t : Tx) (e : Env)
    (l : List (Nat × Nat × List (Nat × Nat))) (hv : t.s.variant.isV2 = true)
    (h : GuarInvX t.s) :
    SatNP (exec hash t e (.addTicketsV2 l)) (fun t' => RStep t.s t'.s) := by
  have hb : GuarInv true t.s := hv ▸ h.base
  have h1 := (addTicketsV2_reserve t e l hb).toNP
  show SatNP (addTicketsV2 t e l) _
  cases hres : addTicketsV2 t e l with
  | error err => rw [hres] at h1; exact h1
  | ok t' =>
    rw [hres] at h1
    obtain ⟨f, hu⟩ := addTicketsV2_frame hres
    refine ⟨h1.1, ⟨?_, ?_, ?_⟩, f.variant⟩
    · rw [f.variant, hv]; exact h1.2
    · intro _ u hu'
      rw [f.blacklist] at hu'
      rw [hu u (h.bl_range u hu')]; exact h.bl_none hv u hu'
    · intro u hu'
      rw [f.blacklist] at hu'
      exact f.range u (h.bl_range u hu')

theorem exec_addTicketsV1 (hash : List Nat → List Nat) (t : Tx) (e : Env)
    (l : List (Nat × Nat × Nat × Bool)) (hv : t.s.variant.isV2 = false)
    (h : GuarInvX t.s) :
    SatNP (exec hash t e (.addTicketsV1 l)) (fun t' => RStep t.s t'.s) := by
  have hb : GuarInv false t.s := hv ▸ h.base
  have h1 := (addTicketsV1_reserve t.s e l hb).toNP
  show SatNP (addTicketsV1 t.s e l >>= fun s => pure (t.setS s)) _
  cases hres : addTicketsV1 t.s e l with
  | error err => rw [hres] at h1; exact h1
  | ok s' =>
    rw [hres] at h1
    have f := addTicketsV1_frame hres
    show RStep t.s s'
    refine ⟨h1.1, ⟨?_, ?_, ?_⟩, f.variant⟩
    · rw [f.variant, hv]; exact h1.2
    · intro hv'; rw [f.variant, hv] at hv'; cases hv'
    · intro u hu'
      rw [f.blacklist] at hu'
      exact f.range u (h.bl_range u hu')

/-- the v2 blacklist hook, run after the common blacklist loop -/
theorem clearV2_after_blacklist (s0 s1 : State) (l : List Nat) (hv : s0.variant.isV2 = true)
    (h : GuarInvX s0) (g1 : GEq s0 s1)
    (b1 : ∀ u, s1.blacklist u = true ↔ (s0.blacklist u = true ∨ u ∈ l))
    (r1 : ∀ u ∈ l, (s0.range u).isSome = true) :
    ∃ s', clearGuaranteedV2 s1 l = .ok s' ∧ RStep s0 s' := by
  have hb : GuarInv true s1 := GuarInv_of_GEq g1 (hv ▸ h.base)
  obtain ⟨s', hok, hc, hi⟩ := clearGuaranteedV2_reserve s1 l hb
  obtain ⟨f, hu⟩ := clearGuaranteedV2_frame hok
  refine ⟨s', hok, ?_, ⟨?_, ?_, ?_⟩, f.variant.trans g1.variant⟩
  · rw [hc, g1.nrWinning, g1.totalGuaranteed]
  · rw [f.variant, g1.variant, hv]; exact hi
  · intro _ u hu'
    rw [f.blacklist, b1] at hu'
    apply hu
    rcases hu' with ho | hm
    · right; rw [g1.uts]; exact h.bl_none hv u ho
    · exact Or.inl hm
  · intro u hu'
    rw [f.blacklist, b1] at hu'
    apply f.range
    rw [g1.range]
    rcases hu' with ho | hm
    · exact h.bl_range u ho
    · exact r1 u hm

theorem clearV1_after_blacklist (s0 s1 : State) (l : List Nat) (hv : s0.variant.isV2 = false)
    (h : GuarInvX s0) (g1 : GEq s0 s1)
    (b1 : ∀ u, s1.blacklist u = true ↔ (s0.blacklist u = true ∨ u ∈ l))
    (r1 : ∀ u ∈ l, (s0.range u).isSome = true) :
    ∃ s', clearGuaranteedV1 s1 l = .ok s' ∧ RStep s0 s' := by
  have hb : GuarInv false s1 := GuarInv_of_GEq g1 (hv ▸ h.base)
  obtain ⟨s', hok, hc, hi⟩ := clearGuaranteedV1_reserve s1 l hb
  have f := clearGuaranteedV1_frame hok
  refine ⟨s', hok, ?_, ⟨?_, ?_, ?_⟩, f.variant.trans g1.variant⟩
  · rw [hc, g1.nrWinning, g1.totalGuaranteed]
  · rw [f.variant, g1.variant, hv]; exact hi
  · intro hv'; rw [f.variant, g1.variant, hv] at hv'; cases hv'
  · intro u hu'
    rw [f.blacklist, b1] at hu'
    apply f.range
    rw [g1.range]
    rcases hu' with ho | hm
    · exact h.bl_range u ho
    · exact r1 u hm

theorem noClear_after_blacklist (s0 s1 : State) (l : List Nat) (hv : s0.variant.isV2 = false)
    (h : GuarInvX s0) (g1 : GEq s0 s1)
    (b1 : ∀ u, s1.blacklist u = true ↔ (s0.blacklist u = true ∨ u ∈ l))
    (r1 : ∀ u ∈ l, (s0.range u).isSome = true) : RStep s0 s1 := by
  refine ⟨by rw [g1.nrWinning, g1.totalGuaranteed], ⟨?_, ?_, ?_⟩, g1.variant⟩
  · rw [g1.variant]; exact GuarInv_of_GEq g1 h.base
  · intro hv'; rw [g1.variant, hv] at hv'; cases hv'
  · intro u hu'
    rw [b1] at hu'
    rw [g1.range]
    rcases hu' with ho | hm
    · exact h.bl_range u ho
    · exact r1 u hm

theorem SatNP_pure {α : Type} {a : α} {P : α → Prop} (h : P a) : SatNP (pure a : Res α) P := h

theorem exec_blacklist (hash : List Nat → List Nat) (t : Tx) (e : Env) (l : List Nat)
    (h : GuarInvX t.s) :
    SatNP (exec hash t e (.blacklist l)) (fun t' => RStep t.s t'.s) := by
  simp only [exec]
  refine SatNP_bind (addUsersToBlacklist_spec t e l) (fun t1 ⟨g1, b1, r1⟩ => ?_)
  -- the NFT refund and the event, after the guaranteed-ticket hook
  have tail : ∀ t2 : Tx, RStep t.s t2.s →
      (SatNP (refundNftMany l t2) (fun t3 => RStep t.s t3.s)) := fun t2 h2 =>
    (refundNftMany_spec l t2).mono (fun t3 h3 => RStep_of_GEq h2 h3.1 h3.2)
  split
  · rename_i hv
    rw [g1.variant] at hv
    refine SatNP_bind (P := fun s' => RStep t.s s') ?_ (fun s' hs => ?_)
    · obtain ⟨s', hok, hs⟩ := clearV2_after_blacklist t.s t1.s l hv h g1 b1 r1
      rw [hok]; exact hs
    refine SatNP_bind (P := fun (t2 : Tx) => RStep t.s t2.s) (SatNP_pure hs) (fun t2 h2 => ?_)
    split
    · refine SatNP_bind (tail t2 h2) (fun t3 h3 => ?_)
      split <;> exact h3
    · refine SatNP_bind (P := fun (t3 : Tx) => RStep t.s t3.s) (SatNP_pure h2) (fun t3 h3 => ?_)
      split <;> exact h3
  · rename_i hv
    rw [g1.variant] at hv
    have hv : t.s.variant.isV2 = false := by simpa using hv
    split
    · refine SatNP_bind (P := fun s' => RStep t.s s') ?_ (fun s' hs => ?_)
      · obtain ⟨s', hok, hs⟩ := clearV1_after_blacklist t.s t1.s l hv h g1 b1 r1
        rw [hok]; exact hs
      refine SatNP_bind (P := fun (t2 : Tx) => RStep t.s t2.s) (SatNP_pure hs) (fun t2 h2 => ?_)
      split
      · refine SatNP_bind (tail t2 h2) (fun t3 h3 => ?_)
        split <;> exact h3
      · refine SatNP_bind (P := fun (t3 : Tx) => RStep t.s t3.s) (SatNP_pure h2) (fun t3 h3 => ?_)
        split <;> exact h3
    · have hs := noClear_after_blacklist t.s t1.s l hv h g1 b1 r1
      refine SatNP_bind (P := fun (t2 : Tx) => RStep t.s t2.s) (SatNP_pure hs) (fun t2 h2 => ?_)
      split
      · refine SatNP_bind (tail t2 h2) (fun t3 h3 => ?_)
        split <;> exact h3
      · refine SatNP_bind (P := fun (t3 : Tx) => RStep t.s t3.s) (SatNP_pure h2) (fun t3 h3 => ?_)
        split <;> exact h3

theorem exec_refundUsers (hash : List Nat → List Nat) (t : Tx) (e : Env) (l : List Nat)
    (hv : t.s.variant.isV2 = true) (h : GuarInvX t.s) :
    SatNP (exec hash t e (.refundUsers l)) (fun t' => RStep t.s t'.s) := by
  simp only [exec]
  refine SatNP_bind (addUsersToBlacklist_spec t e l) (fun t1 ⟨g1, b1, r1⟩ => ?_)
  obtain ⟨s', hok, hs⟩ := clearV2_after_blacklist t.s t1.s l hv h g1 b1 r1
  rw [hok]; exact hs

theorem exec_unblacklist (hash : List Nat → List Nat) (t : Tx) (e : Env) (l : List Nat)
    (h : GuarInvX t.s) :
    SatNP (exec hash t e (.unblacklist l)) (fun t' => RStep t.s t'.s) := by
  simp only [exec]
  refine SatNP_bind (removeUsersFromBlacklist_spec t.s e l) (fun s1 ⟨g, nd, hall, hiff⟩ => ?_)
  split
  · rename_i hv
    rw [g.variant] at hv
    have hb : GuarInv true s1 := GuarInv_of_GEq g (hv ▸ h.base)
    have hno : ∀ u ∈ l, s1.uts u = none := by
      intro u hu; rw [g.uts]; exact h.bl_none hv u (hall u hu)
    have h1 := (restoreGuaranteedV2_reserve s1 l hb nd hno).toNP
    cases hres : restoreGuaranteedV2 s1 l with
    | error err => rw [hres] at h1; exact h1
    | ok s2 =>
      rw [hres] at h1
      obtain ⟨f, hu⟩ := restoreGuaranteedV2_frame hres
      show RStep t.s s2
      refine ⟨?_, ⟨?_, ?_, ?_⟩, f.variant.trans g.variant⟩
      · rw [h1.1, g.nrWinning, g.totalGuaranteed]
      · rw [f.variant, g.variant, hv]; exact h1.2
      · intro _ u hu'
        rw [f.blacklist, hiff] at hu'
        rw [hu u hu'.2, g.uts]; exact h.bl_none hv u hu'.1
      · intro u hu'
        rw [f.blacklist, hiff] at hu'
        apply f.range; rw [g.range]; exact h.bl_range u hu'.1
  · rename_i hv
    rw [g.variant] at hv
    have hv : t.s.variant.isV2 = false := by simpa using hv
    have hb : GuarInv false s1 := GuarInv_of_GEq g (hv ▸ h.base)
    have h1 := (restoreGuaranteedV1_reserve s1 l hb).toNP
    cases hres : restoreGuaranteedV1 s1 l with
    | error err => rw [hres] at h1; exact h1
    | ok s2 =>
      rw [hres] at h1
      have f := restoreGuaranteedV1_frame hres
      show RStep t.s s2
      refine ⟨?_, ⟨?_, ?_, ?_⟩, f.variant.trans g.variant⟩
      · rw [h1.1, g.nrWinning, g.totalGuaranteed]
      · rw [f.variant, g.variant, hv]; exact h1.2
      · intro hv'; rw [f.variant, g.variant, hv] at hv'; cases hv'
      · intro u hu'
        rw [f.blacklist, hiff] at hu'
        apply f.range; rw [g.range]; exact h.bl_range u hu'.1

end LP

namespace LP

/-- the endpoints that touch the guaranteed-ticket reserve before winner selection -/
def isGuarCall : Call → Bool
  | .addTicketsV1 _ | .addTicketsV2 _ | .blacklist _ | .refundUsers _ | .unblacklist _ => true
  | _ => false

theorem v1Alloc_not_isV2 (v : Variant) (h : v.v1Alloc = true) : v.isV2 = false := by
  cases v <;> simp [Variant.v1Alloc, Variant.isV2] at h ⊢

theorem exec_guar_step (hash : List Nat → List Nat) (t : Tx) (e : Env) (c : Call)
    (hc : isGuarCall c = true) (hm : (endpointMeta t.s.variant c).isSome = true)
    (h : GuarInvX t.s) :
    SatNP (exec hash t e c) (fun t' => RStep t.s t'.s) := by
  cases c <;> simp only [isGuarCall, Bool.false_eq_true] at hc
  case addTicketsV1 l =>
    apply exec_addTicketsV1 _ _ _ _ _ h
    apply v1Alloc_not_isV2
    simp only [endpointMeta] at hm
    split at hm
    · assumption
    · cases hm
  case addTicketsV2 l =>
    apply exec_addTicketsV2 _ _ _ _ _ h
    simp only [endpointMeta] at hm
    split at hm
    · assumption
    · cases hm
  case blacklist l => exact exec_blacklist _ _ _ _ h
  case refundUsers l =>
    apply exec_refundUsers _ _ _ _ _ h
    simp only [endpointMeta] at hm
    split at hm
    · assumption
    · cases hm
  case unblacklist l => exact exec_unblacklist _ _ _ _ h

theorem GEq_credit (s : State) (e : Env) : GEq s (creditPayments s e) :=
  ⟨rfl, rfl, rfl, rfl, rfl, rfl, rfl⟩

/-- one transaction through the dispatcher -/
theorem step_guar (hash : List Nat → List Nat) (s : State) (e : Env) (c : Call)
    (hc : isGuarCall c = true) (h : GuarInvX s) :
    SatNP (step hash s e c) (fun r => RStep s r.1) := by
  unfold step
  cases hm : endpointMeta s.variant c with
  | none => intro site hx; cases hx
  | some m =>
    simp only []
    split
    · intro site hx; cases hx
    split
    · intro site hx; cases hx
    have hX : GuarInvX (creditPayments s e) := GuarInvX_of_GEq (GEq_credit s e) rfl h
    have := exec_guar_step hash ⟨creditPayments s e, ⟨e.budget, e.seeds, e.script⟩, {}⟩ e c hc
      (by show (endpointMeta s.variant c).isSome = true; rw [hm]; rfl) hX
    cases hres : exec hash ⟨creditPayments s e, ⟨e.budget, e.seeds, e.script⟩, {}⟩ e c with
    | error err => rw [hres] at this; exact this
    | ok t' => rw [hres] at this; exact this

/-- A3: along any history made of allocation / blacklist / refund / un-blacklist
    transactions (rejected ones leave the state unchanged) the reserve is conserved and the
    invariant holds -/
theorem run_guar_reserve (hash : List Nat → List Nat) (cs : List (Env × Call)) (s : State)
    (hcs : ∀ ec ∈ cs, isGuarCall ec.2 = true) (h : GuarInvX s) :
    RStep s (run hash s cs) := by
  induction cs generalizing s with
  | nil => exact ⟨rfl, h, rfl⟩
  | cons ec rest ih =>
    obtain ⟨e, c⟩ := ec
    have hstep := step_guar hash s e c (hcs (e, c) (List.mem_cons_self ..)) h
    have hrest : ∀ ec ∈ rest, isGuarCall ec.2 = true :=
      fun ec hm => hcs ec (List.mem_cons_of_mem _ hm)
    simp only [run]
    cases hres : step hash s e c with
    | error err => exact ih s hrest h
    | ok r =>
      obtain ⟨s', o⟩ := r
      rw [hres] at hstep
      have h2 := ih s' hrest hstep.2.1
      exact ⟨h2.1.trans hstep.1, h2.2.1, h2.2.2.trans hstep.2.2⟩

/-- A3, no counter wraps: no transaction of such a history panics -/
theorem run_guar_no_panic (hash : List Nat → List Nat) (pre post : List (Env × Call))
    (e : Env) (c : Call) (s : State)
    (hcs : ∀ ec ∈ pre ++ (e, c) :: post, isGuarCall ec.2 = true) (h : GuarInvX s) (site : String) :
    step hash (run hash s pre) e c ≠ .error (.panic site) := by
  have h1 := run_guar_reserve hash pre s (fun ec hm => hcs ec (List.mem_append_left _ hm)) h
  have h2 := step_guar hash (run hash s pre) e c
    (hcs (e, c) (List.mem_append_right _ (List.mem_cons_self ..))) h1.2.1
  intro hx
  rw [hx] at h2
  exact h2 site rfl

/-- the freshly deployed contract satisfies the invariant -/
theorem GuarInvX_initial (s : State) (hw : s.whitelist = []) (ht : s.totalGuaranteed = 0)
    (hu : s.uts = fun _ => none) (hr : s.range = fun _ => none)
    (hb : s.blacklist = fun _ => false) : GuarInvX s := by
  refine ⟨?_, ?_, ?_⟩
  · unfold GuarInv
    rw [hw, ht, hu, hr]
    refine ⟨List.nodup_nil, rfl, ?_, ?_, ?_, ?_⟩
    · intro u st hx; cases hx
    · intro u hx; cases hx
    · intro u hx; cases hx
    · intro _ u hx; cases hx
  · intro _ u hx; rw [hb] at hx; cases hx
  · intro u hx; rw [hb] at hx; cases hx

end LP
