import LP.Proofs.FrameFlags
import LP.Proofs.ClaimedFrame
import LP.Proofs.ReachBEGen
import LP.Props.C06gates
import LP.Props.C06run
/-
  LP.Proofs.Once — helper material for C06 "each selection step exactly once and in order":

  * `Entry`, `Entry.doneFilter/doneSelect/doneAdditional/isClaim` : log entries (accepted
    transaction + output) and "this entry is a completed filter / base selection / additional step"
    (`o.ret = [0]`, the model's encoding of `OperationCompletionStatus::Completed`, see
    `statusRet` and the `ret := [0]` / `ret := [1]` writes of the five selection endpoints);
  * `step_flags_exact` : the exact effect of ONE accepted transaction on the three phase flags:
      `filtered' = filtered || doneFilter`, `selected' = selected || doneSelect`,
      `additional' = additional || doneAdditional` (and `started` is never reset);
  * `runLog` (mirror of `run`), `LogChain` (a sequence of accepted transactions), `runLog_chain`
    (`run` is the final state of the log), `LogChain.split`;
  * `PhaseOK` : the order invariant of the flags, with `init_phaseOK`, `step_phaseOK`;
  * the three "start round reached ⇒ frozen" lemmas for one step and for histories.
-/
namespace LP
open LP.Props LP.Props.C17

/-! ### log entries -/

/-- an accepted transaction together with its output -/
abbrev Entry := Env × Call × Out

/-- the additional step of the variant: `distribute` (guarV1, guarV2, migration, lockedGuar),
    `selectNft` (nft), `secondary` (nftGuar) -/
def Call.isAdditional : Call → Bool
  | .distribute | .selectNft | .secondary => true
  | _ => false

/-- the endpoint returned `OperationCompletionStatus::Completed` (`statusRet .completed = 0`) -/
def Out.done (o : Out) : Bool := o.ret == [0]

def Entry.doneFilter (x : Entry) : Bool :=
  match x.2.1 with
  | .filter => x.2.2.done
  | _ => false

def Entry.doneSelect (x : Entry) : Bool :=
  match x.2.1 with
  | .select => x.2.2.done
  | _ => false

def Entry.doneAdditional (x : Entry) : Bool := x.2.1.isAdditional && x.2.2.done

/-- a participant's claim or the owner's withdrawal -/
def Entry.isClaim (x : Entry) : Bool :=
  match x.2.1 with
  | .claim | .claimPayment => true
  | _ => false

/-- all four flags are only gained -/
def Flags.gain4 (f f' : Flags) : Prop :=
  (f.started = true → f'.started = true) ∧ (f.filtered = true → f'.filtered = true) ∧
  (f.selected = true → f'.selected = true) ∧ (f.additional = true → f'.additional = true)

theorem Flags.gain4_refl (f : Flags) : Flags.gain4 f f := ⟨id, id, id, id⟩

theorem Flags.gain4_trans {f g h : Flags} (a : Flags.gain4 f g) (b : Flags.gain4 g h) :
    Flags.gain4 f h :=
  ⟨fun x => b.1 (a.1 x), fun x => b.2.1 (a.2.1 x), fun x => b.2.2.1 (a.2.2.1 x),
   fun x => b.2.2.2 (a.2.2.2 x)⟩

theorem Flags.gain4.gain {f f' : Flags} (h : Flags.gain4 f f') : Flags.gain f f' := ⟨h.2.2.1, h.2.2.2⟩

/-! ### exact effect of the five selection endpoints on the flags -/

/-- `filterTickets`: `filtered` is set exactly when the call returns completed; the other two phase
    flags are untouched; `started` is only gained -/
theorem filterTickets_exact {t t' : Tx} {e : Env} (h : filterTickets t e = .ok t') :
    t'.s.flags.filtered = (t.s.flags.filtered || t'.o.done) ∧
    t'.s.flags.selected = t.s.flags.selected ∧
    t'.s.flags.additional = t.s.flags.additional ∧
    (t.s.flags.started = true → t'.s.flags.started = true) := by
  unfold filterTickets at h
  cases hop : t.s.op <;>
    simp only [hop, bind_ok_iff, req_ok_iff, pure_ok_iff, exists_const, Prod.exists, reduceCtorEq, false_and, and_false] at h
  all_goals
    lp_peel h
    split at h
    · cases h
    · cases h
      refine ⟨?_, ?_, ?_, ?_⟩
      · simp only [Out.done]; split <;> simp
      · split <;> rfl
      · split <;> rfl
      · intro hh; split <;> first | rfl | exact hh
    · simp only [bind_ok_iff, pure_ok_iff] at h
      lp_peel h
      subst h
      refine ⟨?_, ?_, ?_, ?_⟩
      · simp [Out.done, Tx.emit]
      · simp only [Tx.emit]; split <;> rfl
      · simp only [Tx.emit]; split <;> rfl
      · intro hh; simp only [Tx.emit]; split <;> first | rfl | exact hh

/-- `selectWinners`: `selected` is set exactly when the call returns completed -/
theorem selectWinners_exact {hash : List Nat → List Nat} {t t' : Tx} {e : Env}
    (h : selectWinners hash t e = .ok t') :
    t'.s.flags.filtered = t.s.flags.filtered ∧
    t'.s.flags.selected = (t.s.flags.selected || t'.o.done) ∧
    t'.s.flags.additional = t.s.flags.additional ∧
    t'.s.flags.started = t.s.flags.started := by
  unfold selectWinners at h
  cases hop : t.s.op <;>
    simp only [hop, bind_ok_iff, req_ok_iff, pure_ok_iff, exists_const, Prod.exists, reduceCtorEq, false_and, and_false] at h
  all_goals
    lp_peel h
    split at h
    · cases h
    · cases h
      exact ⟨rfl, by simp [Out.done], rfl, rfl⟩
    · cases h
      exact ⟨rfl, by simp [Out.done, Tx.emit], rfl, rfl⟩

/-- the shape of the result of an additional-step endpoint after its sub-steps: either completed
    (`ret = [0]`, `additional := true`) or not (`ret = [1]`, flags as before) -/
theorem add_exact_of {f : Flags} {t' : Tx}
    (h : (t'.o.ret = [0] ∧ t'.s.flags = { f with additional := true }) ∨
         (t'.o.ret = [1] ∧ t'.s.flags = f)) :
    t'.s.flags.filtered = f.filtered ∧ t'.s.flags.selected = f.selected ∧
    t'.s.flags.additional = (f.additional || t'.o.done) ∧ t'.s.flags.started = f.started := by
  rcases h with ⟨h1, h2⟩ | ⟨h1, h2⟩
  · rw [h2]; exact ⟨rfl, rfl, by simp [Out.done, h1], rfl⟩
  · rw [h2]; exact ⟨rfl, rfl, by simp [Out.done, h1], rfl⟩

theorem distribute_shape {hash : List Nat → List Nat} {t t' : Tx} {e : Env}
    (h : distribute hash t e = .ok t') :
    (t'.o.ret = [0] ∧ t'.s.flags = { t.s.flags with additional := true }) ∨
    (t'.o.ret = [1] ∧ t'.s.flags = t.s.flags) := by
  unfold distribute at h
  cases hv : t.s.variant.isV2 <;> rcases hop : t.s.op with _ | _ | _ | (g | r) <;>
    simp only [hv, hop, pure_bind, bind_ok_iff, req_ok_iff, exists_const, Prod.exists, reduceCtorEq, false_and, and_false, if_true, if_false, Bool.false_eq_true] at h
  all_goals
    lp_peel h
    have e1 := guaranteedSubstep_flags ‹guaranteedSubstep _ _ _ = _›
    try simp only [Tx.freshRng_s] at e1
    repeat' (split at h)
    all_goals
      simp only [pure_ok_iff] at h
      subst h
      rw [← e1]
      first
        | exact Or.inl ⟨rfl, rfl⟩
        | exact Or.inr ⟨rfl, rfl⟩

/-- `distribute`: `additional` is set exactly when the call returns completed -/
theorem distribute_exact {hash : List Nat → List Nat} {t t' : Tx} {e : Env}
    (h : distribute hash t e = .ok t') :
    t'.s.flags.filtered = t.s.flags.filtered ∧ t'.s.flags.selected = t.s.flags.selected ∧
    t'.s.flags.additional = (t.s.flags.additional || t'.o.done) ∧
    t'.s.flags.started = t.s.flags.started := add_exact_of (distribute_shape h)

theorem selectNft_shape {hash : List Nat → List Nat} {t t' : Tx} {e : Env}
    (h : selectNft hash t e = .ok t') :
    (t'.o.ret = [0] ∧ t'.s.flags = { t.s.flags with additional := true }) ∨
    (t'.o.ret = [1] ∧ t'.s.flags = t.s.flags) := by
  unfold selectNft at h
  rcases hop : t.s.op with _ | _ | _ | (g | r) <;>
    simp only [hop, pure_bind, bind_ok_iff, req_ok_iff, exists_const, Prod.exists, reduceCtorEq, false_and, and_false] at h
  all_goals
    lp_peel h
    have e1 := nftSubstep_flags ‹nftSubstep _ _ _ = _›
    try simp only [Tx.freshRng_s] at e1
    repeat' (split at h)
    all_goals
      simp only [pure_ok_iff] at h
      subst h
      rw [← e1]
      first
        | exact Or.inl ⟨rfl, rfl⟩
        | exact Or.inr ⟨rfl, rfl⟩

/-- `selectNft`: `additional` is set exactly when the call returns completed -/
theorem selectNft_exact {hash : List Nat → List Nat} {t t' : Tx} {e : Env}
    (h : selectNft hash t e = .ok t') :
    t'.s.flags.filtered = t.s.flags.filtered ∧ t'.s.flags.selected = t.s.flags.selected ∧
    t'.s.flags.additional = (t.s.flags.additional || t'.o.done) ∧
    t'.s.flags.started = t.s.flags.started := add_exact_of (selectNft_shape h)

theorem secondary_shape {hash : List Nat → List Nat} {t t' : Tx} {e : Env}
    (h : secondary hash t e = .ok t') :
    (t'.o.ret = [0] ∧ t'.s.flags = { t.s.flags with additional := true }) ∨
    (t'.o.ret = [1] ∧ t'.s.flags = t.s.flags) := by
  unfold secondary at h
  rcases hop : t.s.op with _ | _ | _ | (g | r) <;>
    simp only [hop, pure_bind, bind_ok_iff, req_ok_iff, exists_const, Prod.exists, reduceCtorEq, false_and, and_false] at h
  case additional.nft =>
    lp_peel h
    have e1 := nftSubstep_flags ‹nftSubstep _ _ _ = _›
    repeat' (split at h)
    all_goals
      simp only [pure_ok_iff] at h
      subst h
      rw [← e1]
      first
        | exact Or.inl ⟨rfl, rfl⟩
        | exact Or.inr ⟨rfl, rfl⟩
  all_goals
    lp_peel h
    have e1 := guaranteedSubstep_flags ‹guaranteedSubstep _ _ _ = _›
    try simp only [Tx.freshRng_s] at e1
    split at h
    · simp only [bind_ok_iff, Prod.exists] at h
      obtain ⟨t2, r2, st2, h2, h⟩ := h
      have e2 := nftSubstep_flags h2
      simp only [Tx.freshRng_s, Tx.setS_s] at e2
      have e3 : t2.s.flags = t.s.flags := e2.trans e1
      repeat' (split at h)
      all_goals
        simp only [pure_ok_iff] at h
        subst h
        rw [← e3]
        first
          | exact Or.inl ⟨rfl, rfl⟩
          | exact Or.inr ⟨rfl, rfl⟩
    · simp only [pure_ok_iff] at h
      subst h
      rw [← e1]
      exact Or.inr ⟨rfl, rfl⟩

/-- `secondary`: `additional` is set exactly when the call returns completed -/
theorem secondary_exact {hash : List Nat → List Nat} {t t' : Tx} {e : Env}
    (h : secondary hash t e = .ok t') :
    t'.s.flags.filtered = t.s.flags.filtered ∧ t'.s.flags.selected = t.s.flags.selected ∧
    t'.s.flags.additional = (t.s.flags.additional || t'.o.done) ∧
    t'.s.flags.started = t.s.flags.started := add_exact_of (secondary_shape h)

/-! ### exact effect of one accepted transaction on the flags -/

/-- what one accepted transaction `(e, c)` with output `o` does to the flags -/
structure FlagsEffect (f f' : Flags) (x : Entry) : Prop where
  filtered : f'.filtered = (f.filtered || x.doneFilter)
  selected : f'.selected = (f.selected || x.doneSelect)
  additional : f'.additional = (f.additional || x.doneAdditional)
  started : f.started = true → f'.started = true

theorem FlagsEffect.of_eq {f f' : Flags} {x : Entry} (h : f' = f)
    (h1 : x.doneFilter = false) (h2 : x.doneSelect = false) (h3 : x.doneAdditional = false) :
    FlagsEffect f f' x := by
  subst h
  exact ⟨by simp [h1], by simp [h2], by simp [h3], id⟩

theorem FlagsEffect.gain4 {f f' : Flags} {x : Entry} (h : FlagsEffect f f' x) : Flags.gain4 f f' :=
  ⟨h.started, fun hh => by rw [h.filtered, hh]; rfl, fun hh => by rw [h.selected, hh]; rfl,
   fun hh => by rw [h.additional, hh]; rfl⟩

theorem exec_flags_exact {hash : List Nat → List Nat} {t t' : Tx} {e : Env} {c : Call}
    (h : exec hash t e c = .ok t') : FlagsEffect t.s.flags t'.s.flags (e, c, t'.o) := by
  cases hcs : c.setsStatic with
  | true =>
    rcases exec_static_cases h with ⟨h0, _⟩ | ⟨_, h1⟩
    · rw [hcs] at h0; cases h0
    · refine FlagsEffect.of_eq ?_ ?_ ?_ ?_
      · rw [h1]; cases c <;> rfl
      all_goals (cases c <;> first | rfl | (simp [Call.setsStatic] at hcs))
  | false =>
    cases h5 : c.isSelection with
    | false =>
      refine FlagsEffect.of_eq (exec_flags_eq h hcs h5) ?_ ?_ ?_
      all_goals (cases c <;> first | rfl | (simp [Call.isSelection] at h5))
    | true =>
      cases c with
      | filter =>
        obtain ⟨h1, h2, h3, h4⟩ := filterTickets_exact (by simpa only [exec] using h)
        exact ⟨h1, by rw [h2]; simp [Entry.doneSelect], by rw [h3]; simp [Entry.doneAdditional, Call.isAdditional], h4⟩
      | select =>
        obtain ⟨h1, h2, h3, h4⟩ := selectWinners_exact (by simpa only [exec] using h)
        exact ⟨by rw [h1]; simp [Entry.doneFilter], h2, by rw [h3]; simp [Entry.doneAdditional, Call.isAdditional], fun hh => by rw [h4]; exact hh⟩
      | distribute =>
        obtain ⟨h1, h2, h3, h4⟩ := distribute_exact (by simpa only [exec] using h)
        exact ⟨by rw [h1]; simp [Entry.doneFilter], by rw [h2]; simp [Entry.doneSelect], by rw [h3]; simp [Entry.doneAdditional, Call.isAdditional], fun hh => by rw [h4]; exact hh⟩
      | selectNft =>
        obtain ⟨h1, h2, h3, h4⟩ := selectNft_exact (by simpa only [exec] using h)
        exact ⟨by rw [h1]; simp [Entry.doneFilter], by rw [h2]; simp [Entry.doneSelect], by rw [h3]; simp [Entry.doneAdditional, Call.isAdditional], fun hh => by rw [h4]; exact hh⟩
      | secondary =>
        obtain ⟨h1, h2, h3, h4⟩ := secondary_exact (by simpa only [exec] using h)
        exact ⟨by rw [h1]; simp [Entry.doneFilter], by rw [h2]; simp [Entry.doneSelect], by rw [h3]; simp [Entry.doneAdditional, Call.isAdditional], fun hh => by rw [h4]; exact hh⟩
      | _ => simp [Call.isSelection] at h5

/-- **exact flag effect of one accepted transaction**: `filtered` is set exactly by a completed
    `filter`, `selected` exactly by a completed `select`, `additional` exactly by a completed
    additional step; nothing is ever reset -/
theorem step_flags_exact {hash : List Nat → List Nat} {s s' : State} {e : Env} {c : Call} {o : Out}
    (h : step hash s e c = .ok (s', o)) : FlagsEffect s.flags s'.flags (e, c, o) := by
  obtain ⟨m, t, _, _, _, hx, rfl, rfl⟩ := step_ok_inv h
  exact exec_flags_exact hx

theorem step_flags_gain4 {hash : List Nat → List Nat} {s s' : State} {e : Env} {c : Call} {o : Out}
    (h : step hash s e c = .ok (s', o)) : Flags.gain4 s.flags s'.flags :=
  (step_flags_exact h).gain4

/-! ### gates of the selection endpoints and of the claims, as facts about the flags -/

theorem doneFilter_call {x : Entry} (h : x.doneFilter = true) : x.2.1 = .filter ∧ x.2.2.ret = [0] := by
  obtain ⟨e, c, o⟩ := x
  cases c <;> simp_all [Entry.doneFilter, Out.done]

theorem doneSelect_call {x : Entry} (h : x.doneSelect = true) : x.2.1 = .select ∧ x.2.2.ret = [0] := by
  obtain ⟨e, c, o⟩ := x
  cases c <;> simp_all [Entry.doneSelect, Out.done]

theorem doneAdditional_call {x : Entry} (h : x.doneAdditional = true) :
    (x.2.1 = .distribute ∨ x.2.1 = .selectNft ∨ x.2.1 = .secondary) ∧ x.2.2.ret = [0] := by
  obtain ⟨e, c, o⟩ := x
  cases c <;> simp_all [Entry.doneAdditional, Call.isAdditional, Out.done]

/-- an accepted `filter` (completed or not) needs `filtered = false` -/
theorem filter_needs {hash : List Nat → List Nat} {s s' : State} {e : Env} {o : Out}
    (h : step hash s e .filter = .ok (s', o)) : s.flags.filtered = false :=
  (C06.filter_gate hash s e _ h).2

theorem select_needs {hash : List Nat → List Nat} {s s' : State} {e : Env} {o : Out}
    (h : step hash s e .select = .ok (s', o)) : s.flags.filtered = true ∧ s.flags.selected = false :=
  (C06.select_gate hash s e _ h).2

theorem additional_needs {hash : List Nat → List Nat} {s s' : State} {e : Env} {c : Call} {o : Out}
    (hc : c.isAdditional = true) (h : step hash s e c = .ok (s', o)) :
    s.flags.selected = true ∧ s.flags.additional = false := by
  have hc' : c = .distribute ∨ c = .selectNft ∨ c = .secondary := by
    cases c <;> simp_all [Call.isAdditional]
  exact (C06.additional_gate hash s e c _ hc' h).2

/-! ### the order invariant -/

/-- the phase flags are ordered (`selected → filtered`, `additional → selected` where the variant has
    an additional step, `additional` preset otherwise) and a participant can only have settled after
    all selection steps -/
structure PhaseOK (s : State) : Prop where
  sel_fil : s.flags.selected = true → s.flags.filtered = true
  add_sel : s.variant.noAdditionalStep = false → s.flags.additional = true → s.flags.selected = true
  preset : s.variant.noAdditionalStep = true → s.flags.additional = true
  claimed : ∀ a, s.claimed a = true → s.flags.selected = true ∧ s.flags.additional = true

/-- deployment: the flags are all clear except the preset `additional` of base/locked -/
theorem init_fresh {v : Variant} {a : InitArgs} {e : Env} {s : State} (h : init v a e = .ok s) :
    s.variant = v ∧ s.flags = { additional := v.noAdditionalStep } ∧ s.claimed = fun _ => false := by
  unfold init at h
  cases v <;>
    simp only [Variant.hasNft, Variant.v1Alloc, Variant.hasLock, bind_ok_iff, req_ok_iff, pure_ok_iff, pure_bind,
      exists_const, if_true, if_false, Bool.false_eq_true, beq_self_eq_true, reduceCtorEq, decide_eq_true_eq,
      bne_iff_ne, ne_eq, not_false_eq_true, beq_iff_eq, bne_self_eq_false] at h
  all_goals
    repeat (cases h with | intro _ h)
    subst h
    exact ⟨rfl, rfl, rfl⟩

theorem init_phaseOK {v : Variant} {a : InitArgs} {e : Env} {s : State} (h : init v a e = .ok s) :
    PhaseOK s := by
  obtain ⟨h1, h2, h3⟩ := init_fresh h
  refine ⟨?_, ?_, ?_, ?_⟩
  · rw [h2]; intro hh; cases hh
  · rw [h1, h2]; intro hv hh; simp only at hh; rw [hv] at hh; cases hh
  · rw [h1, h2]; intro hv; exact hv
  · rw [h3]; intro a hh; cases hh

theorem step_claimed_cases {hash : List Nat → List Nat} {s s' : State} {e : Env} {c : Call} {o : Out}
    (h : step hash s e c = .ok (s', o)) :
    (c ≠ .claim ∧ s'.claimed = s.claimed) ∨ (c = .claim ∧ s'.claimed = upd s.claimed e.caller true) := by
  obtain ⟨m, t, _, _, _, hx, rfl, _⟩ := step_ok_inv h
  by_cases hc : c = .claim
  · subst hc
    exact Or.inr ⟨rfl, exec_claim_claimed hx⟩
  · exact Or.inl ⟨hc, exec_claimed_eq hc hx⟩

/-- an accepted `claim` or `claimPayment` finds all selection steps completed, provided nobody has
    settled before they were (`PhaseOK.claimed`; needed for the vesting variants, where an already
    settled participant may call `claim` again at any time) -/
theorem claim_needs {hash : List Nat → List Nat} {s s' : State} {e : Env} {c : Call} {o : Out}
    (hc : c = .claim ∨ c = .claimPayment) (hcl : ∀ a, s.claimed a = true → s.flags.selected = true ∧ s.flags.additional = true)
    (h : step hash s e c = .ok (s', o)) : s.flags.selected = true ∧ s.flags.additional = true := by
  rcases hc with rfl | rfl
  · rcases C06.claim_gate hash s e _ h with h1 | ⟨_, h1⟩
    · have := C06.claim_stage_means_all_done _ _ _ h1
      exact ⟨this.1, this.2.1⟩
    · exact hcl _ h1
  · have := C06.claim_stage_means_all_done _ _ _ (C06.claimPayment_gate hash s e _ h)
    exact ⟨this.1, this.2.1⟩

theorem step_phaseOK {hash : List Nat → List Nat} {s s' : State} {e : Env} {c : Call} {o : Out}
    (hp : PhaseOK s) (h : step hash s e c = .ok (s', o)) : PhaseOK s' := by
  have hf := step_flags_exact h
  have hg := hf.gain4
  have hv : s'.variant = s.variant := be_variant_step h
  refine ⟨?_, ?_, ?_, ?_⟩
  · intro hs
    rw [hf.selected] at hs
    cases h0 : s.flags.selected with
    | true => exact hg.2.1 (hp.sel_fil h0)
    | false =>
      rw [h0, Bool.false_or] at hs
      have hc := (doneSelect_call hs).1
      simp only at hc
      subst hc
      exact hg.2.1 (select_needs h).1
  · intro hna ha
    rw [hv] at hna
    rw [hf.additional] at ha
    cases h0 : s.flags.additional with
    | true => exact hg.2.2.1 (hp.add_sel hna h0)
    | false =>
      rw [h0, Bool.false_or] at ha
      have hc : c.isAdditional = true := by
        simp only [Entry.doneAdditional, Bool.and_eq_true] at ha
        exact ha.1
      exact hg.2.2.1 (additional_needs hc h).1
  · intro hna
    rw [hv] at hna
    exact hg.2.2.2 (hp.preset hna)
  · intro a ha
    rcases step_claimed_cases h with ⟨_, h1⟩ | ⟨rfl, h1⟩
    · rw [h1] at ha
      have := hp.claimed a ha
      exact ⟨hg.2.2.1 this.1, hg.2.2.2 this.2⟩
    · have := claim_needs (Or.inl rfl) hp.claimed h
      exact ⟨hg.2.2.1 this.1, hg.2.2.2 this.2⟩

theorem run_phaseOK (hash : List Nat → List Nat) (p : Hist) (s : State) (hp : PhaseOK s) :
    PhaseOK (run hash s p) :=
  run_induct hash PhaseOK (fun _ _ _ _ _ hq hst => step_phaseOK hq hst) p s hp

theorem run_flags_gain4 (hash : List Nat → List Nat) : ∀ (p : Hist) (s : State),
    Flags.gain4 s.flags (run hash s p).flags
  | [], s => Flags.gain4_refl _
  | (e, c) :: rest, s => by
    unfold run
    cases h : step hash s e c with
    | error err => exact run_flags_gain4 hash rest s
    | ok r =>
      obtain ⟨s', o⟩ := r
      exact Flags.gain4_trans (step_flags_gain4 h) (run_flags_gain4 hash rest s')

theorem run_variant (hash : List Nat → List Nat) (p : Hist) (s : State) :
    (run hash s p).variant = s.variant :=
  run_induct hash (fun x => x.variant = s.variant)
    (fun _ _ _ _ _ hq hst => (be_variant_step hst).trans hq) p s rfl

/-! ### the log of a history -/

/-- the transaction of a log entry -/
def Entry.tx (x : Entry) : Env × Call := (x.1, x.2.1)

/-- the accepted transactions of a history, in order, with their outputs (same recursion as `run`:
    a rejected transaction leaves no trace) -/
def runLog (hash : List Nat → List Nat) : State → List (Env × Call) → List Entry
  | _, [] => []
  | s, (e, c) :: rest =>
    match step hash s e c with
    | .ok (s', o) => (e, c, o) :: runLog hash s' rest
    | .error _ => runLog hash s rest

/-- `LogChain hash s l s'`: starting in `s`, the transactions of `l` are accepted one after the other
    with exactly the recorded outputs, and lead to `s'` -/
inductive LogChain (hash : List Nat → List Nat) : State → List Entry → State → Prop
  | nil (s : State) : LogChain hash s [] s
  | cons {s s' s'' : State} {e : Env} {c : Call} {o : Out} {l : List Entry} :
      step hash s e c = .ok (s', o) → LogChain hash s' l s'' → LogChain hash s ((e, c, o) :: l) s''

/-- **`run` is the final state of the log**: the entries of `runLog hash s p` are accepted in turn
    starting from `s`, with the recorded outputs, and end in `run hash s p` -/
theorem runLog_chain (hash : List Nat → List Nat) : ∀ (p : Hist) (s : State),
    LogChain hash s (runLog hash s p) (run hash s p)
  | [], s => .nil s
  | (e, c) :: rest, s => by
    unfold run runLog
    cases h : step hash s e c with
    | error err => exact runLog_chain hash rest s
    | ok r =>
      obtain ⟨s', o⟩ := r
      exact .cons h (runLog_chain hash rest s')

/-- the logged transactions are a sub-history of `p` (order kept, only rejected ones dropped) -/
theorem runLog_sublist (hash : List Nat → List Nat) : ∀ (p : Hist) (s : State),
    ((runLog hash s p).map Entry.tx).Sublist p
  | [], _ => List.Sublist.slnil
  | (e, c) :: rest, s => by
    unfold runLog
    cases h : step hash s e c with
    | error err => exact (runLog_sublist hash rest s).cons _
    | ok r =>
      obtain ⟨s', o⟩ := r
      exact (runLog_sublist hash rest s').cons_cons _

/-- replaying only the accepted transactions gives the same log and the same final state -/
theorem LogChain.replay {hash : List Nat → List Nat} {s s' : State} {l : List Entry}
    (h : LogChain hash s l s') :
    runLog hash s (l.map Entry.tx) = l ∧ run hash s (l.map Entry.tx) = s' := by
  induction h with
  | nil s => exact ⟨rfl, rfl⟩
  | cons hst _ ih =>
    simp only [List.map_cons, Entry.tx, runLog, run, hst]
    exact ⟨by rw [ih.1], ih.2⟩

theorem runLog_append (hash : List Nat → List Nat) : ∀ (p q : Hist) (s : State),
    runLog hash s (p ++ q) = runLog hash s p ++ runLog hash (run hash s p) q
  | [], _, _ => rfl
  | (e, c) :: rest, q, s => by
    simp only [List.cons_append, run, runLog]
    cases step hash s e c with
    | error err => exact runLog_append hash rest q s
    | ok r => simp only [List.cons_append]; rw [runLog_append hash rest q r.1]

/-- cut a chain at an entry: the state before it, the accepted step, the state after it -/
theorem LogChain.split {hash : List Nat → List Nat} : ∀ {l1 : List Entry} {s s'' : State} {x : Entry} {l2 : List Entry},
    LogChain hash s (l1 ++ x :: l2) s'' →
    ∃ s1 s2, LogChain hash s l1 s1 ∧ step hash s1 x.1 x.2.1 = .ok (s2, x.2.2) ∧ LogChain hash s2 l2 s''
  | [], s, s'', x, l2, h => by
    cases h with
    | cons hst hrest => exact ⟨s, _, .nil s, hst, hrest⟩
  | y :: l1, s, s'', x, l2, h => by
    cases h with
    | cons hst hrest =>
      obtain ⟨s1, s2, h1, h2, h3⟩ := LogChain.split hrest
      exact ⟨s1, s2, .cons hst h1, h2, h3⟩

theorem LogChain.preserves {hash : List Nat → List Nat} (P : State → Prop)
    (hstep : ∀ s e c s' o, P s → step hash s e c = .ok (s', o) → P s')
    {s s' : State} {l : List Entry} (h : LogChain hash s l s') (hp : P s) : P s' := by
  induction h with
  | nil s => exact hp
  | cons hst _ ih => exact ih (hstep _ _ _ _ _ hp hst)

theorem LogChain.phaseOK {hash : List Nat → List Nat} {s s' : State} {l : List Entry}
    (h : LogChain hash s l s') (hp : PhaseOK s) : PhaseOK s' :=
  h.preserves PhaseOK (fun _ _ _ _ _ hq hst => step_phaseOK hq hst) hp

/-- the flags at the end of a chain: each is set exactly if it was set before or the chain contains
    the corresponding completed step -/
theorem LogChain.flags {hash : List Nat → List Nat} {s s' : State} {l : List Entry}
    (h : LogChain hash s l s') :
    s'.flags.filtered = (s.flags.filtered || l.any Entry.doneFilter) ∧
    s'.flags.selected = (s.flags.selected || l.any Entry.doneSelect) ∧
    s'.flags.additional = (s.flags.additional || l.any Entry.doneAdditional) ∧
    Flags.gain4 s.flags s'.flags := by
  induction h with
  | nil s => simp [Flags.gain4_refl]
  | cons hst _ ih =>
    have hf := step_flags_exact hst
    obtain ⟨i1, i2, i3, i4⟩ := ih
    refine ⟨?_, ?_, ?_, Flags.gain4_trans hf.gain4 i4⟩
    · rw [i1, hf.filtered, List.any_cons, Bool.or_assoc]
    · rw [i2, hf.selected, List.any_cons, Bool.or_assoc]
    · rw [i3, hf.additional, List.any_cons, Bool.or_assoc]

/-- once `filtered` is set no `filter` call is accepted any more -/
theorem LogChain.no_filter {hash : List Nat → List Nat} {s s' : State} {l : List Entry}
    (h : LogChain hash s l s') (hf : s.flags.filtered = true) : ∀ x ∈ l, x.2.1 ≠ .filter := by
  induction h with
  | nil s => intro x hx; cases hx
  | @cons s s1 s2 e c o l hst _ ih =>
    intro x hx
    rcases List.mem_cons.1 hx with rfl | hx
    · intro hc
      simp only at hc
      subst hc
      rw [filter_needs hst] at hf
      cases hf
    · exact ih ((step_flags_gain4 hst).2.1 hf) x hx

/-- once `selected` is set no `select` call is accepted any more -/
theorem LogChain.no_select {hash : List Nat → List Nat} {s s' : State} {l : List Entry}
    (h : LogChain hash s l s') (hf : s.flags.selected = true) : ∀ x ∈ l, x.2.1 ≠ .select := by
  induction h with
  | nil s => intro x hx; cases hx
  | @cons s s1 s2 e c o l hst _ ih =>
    intro x hx
    rcases List.mem_cons.1 hx with rfl | hx
    · intro hc
      simp only at hc
      subst hc
      rw [(select_needs hst).2] at hf
      cases hf
    · exact ih ((step_flags_gain4 hst).2.2.1 hf) x hx

/-- once `additional` is set (in base/locked: from deployment) no additional-step call is accepted -/
theorem LogChain.no_additional {hash : List Nat → List Nat} {s s' : State} {l : List Entry}
    (h : LogChain hash s l s') (hf : s.flags.additional = true) : ∀ x ∈ l, x.2.1.isAdditional = false := by
  induction h with
  | nil s => intro x hx; cases hx
  | @cons s s1 s2 e c o l hst _ ih =>
    intro x hx
    rcases List.mem_cons.1 hx with rfl | hx
    · show c.isAdditional = false
      cases hc : c.isAdditional with
      | false => rfl
      | true =>
        rw [(additional_needs hc hst).2] at hf
        cases hf
    · exact ih ((step_flags_gain4 hst).2.2.2 hf) x hx

theorem LogChain.no_doneFilter {hash : List Nat → List Nat} {s s' : State} {l : List Entry}
    (h : LogChain hash s l s') (hf : s.flags.filtered = true) : ∀ x ∈ l, x.doneFilter = false := by
  intro x hx
  cases hd : x.doneFilter with
  | false => rfl
  | true => exact absurd (doneFilter_call hd).1 (h.no_filter hf x hx)

theorem LogChain.no_doneSelect {hash : List Nat → List Nat} {s s' : State} {l : List Entry}
    (h : LogChain hash s l s') (hf : s.flags.selected = true) : ∀ x ∈ l, x.doneSelect = false := by
  intro x hx
  cases hd : x.doneSelect with
  | false => rfl
  | true => exact absurd (doneSelect_call hd).1 (h.no_select hf x hx)

theorem LogChain.no_doneAdditional {hash : List Nat → List Nat} {s s' : State} {l : List Entry}
    (h : LogChain hash s l s') (hf : s.flags.additional = true) : ∀ x ∈ l, x.doneAdditional = false := by
  intro x hx
  simp only [Entry.doneAdditional, h.no_additional hf x hx, Bool.false_and]

theorem countP_zero_of {l : List Entry} {p : Entry → Bool} (h : ∀ x ∈ l, p x = false) :
    l.countP p = 0 := by
  rw [List.countP_eq_zero]
  intro x hx
  rw [h x hx]
  exact Bool.false_ne_true

/-- a generic "at most once" rule: if a completed `p`-step sets a flag under which no further
    completed `p`-step is accepted, the chain contains at most one -/
theorem LogChain.count_le_one {hash : List Nat → List Nat} (p : Entry → Bool) (flag : State → Bool)
    (hset : ∀ s e c s' o, step hash s e c = .ok (s', o) → p (e, c, o) = true → flag s' = true)
    (hnone : ∀ s l s', LogChain hash s l s' → flag s = true → ∀ x ∈ l, p x = false)
    {s s' : State} {l : List Entry} (h : LogChain hash s l s') : l.countP p ≤ 1 := by
  induction h with
  | nil s => simp
  | @cons s s1 s2 e c o l hst hrest ih =>
    rw [List.countP_cons]
    cases hp : p (e, c, o) with
    | false => simpa using ih
    | true =>
      have := countP_zero_of (hnone _ _ _ hrest (hset _ _ _ _ _ hst hp))
      simp [this]

theorem LogChain.count_filter {hash : List Nat → List Nat} {s s' : State} {l : List Entry}
    (h : LogChain hash s l s') : l.countP Entry.doneFilter ≤ 1 :=
  h.count_le_one Entry.doneFilter (fun s => s.flags.filtered)
    (fun _ _ _ _ _ hst hp => by rw [(step_flags_exact hst).filtered, hp, Bool.or_true])
    (fun _ _ _ hc hf => hc.no_doneFilter hf)

theorem LogChain.count_select {hash : List Nat → List Nat} {s s' : State} {l : List Entry}
    (h : LogChain hash s l s') : l.countP Entry.doneSelect ≤ 1 :=
  h.count_le_one Entry.doneSelect (fun s => s.flags.selected)
    (fun _ _ _ _ _ hst hp => by rw [(step_flags_exact hst).selected, hp, Bool.or_true])
    (fun _ _ _ hc hf => hc.no_doneSelect hf)

theorem LogChain.count_additional {hash : List Nat → List Nat} {s s' : State} {l : List Entry}
    (h : LogChain hash s l s') : l.countP Entry.doneAdditional ≤ 1 :=
  h.count_le_one Entry.doneAdditional (fun s => s.flags.additional)
    (fun _ _ _ _ _ hst hp => by rw [(step_flags_exact hst).additional, hp, Bool.or_true])
    (fun _ _ _ hc hf => hc.no_doneAdditional hf)

/-! ### a start round that has been reached is frozen -/

theorem claim_frozen_once_reached {hash : List Nat → List Nat} {s s' : State} {e : Env} {c : Call} {o : Out}
    (h : step hash s e c = .ok (s', o)) (hr : s.cfg.claim ≤ e.round) : s'.cfg.claim = s.cfg.claim := by
  rcases step_static_cases h with ⟨_, h1⟩ | ⟨_, h1⟩
  · rw [static_cfg h1]
  · cases c with
    | setClaimStart r =>
      obtain ⟨m, t, _, _, _, hx, rfl, _⟩ := step_ok_inv h
      have := (exec_setClaimStart_s hx).2.1
      have h2 : (tx0 s e).s.cfg = s.cfg := rfl
      rw [h2] at this
      omega
    | _ => rw [h1]; rfl

/-- a quantity that no accepted call at a round `≥` its value can change stays the same along every
    history whose rounds are non-decreasing and `≥` that value -/
theorem frozen_along (hash : List Nat → List Nat) (g : State → Nat)
    (hstep : ∀ s s' e c o, step hash s e c = .ok (s', o) → g s ≤ e.round → g s' = g s) :
    ∀ (p : Hist) (s : State) (r : Nat), g s ≤ r → RoundsFrom r p → g (run hash s p) = g s
  | [], _, _, _, _ => rfl
  | (e, c) :: rest, s, r, hr, ⟨h1, h2⟩ => by
    unfold run
    cases h : step hash s e c with
    | error err => exact frozen_along hash g hstep rest s e.round (Nat.le_trans hr h1) h2
    | ok x =>
      obtain ⟨s', o⟩ := x
      have h3 := hstep s s' e c o h (Nat.le_trans hr h1)
      rw [frozen_along hash g hstep rest s' e.round (by rw [h3]; exact Nat.le_trans hr h1) h2, h3]

theorem conf_frozen_along (hash : List Nat → List Nat) (p : Hist) (s : State) (r : Nat)
    (hr : s.cfg.conf ≤ r) (hp : RoundsFrom r p) : (run hash s p).cfg.conf = s.cfg.conf :=
  frozen_along hash (fun s => s.cfg.conf) (fun _ _ _ _ _ h hh => conf_frozen_once_reached h hh) p s r hr hp

theorem sel_frozen_along (hash : List Nat → List Nat) (p : Hist) (s : State) (r : Nat)
    (hr : s.cfg.sel ≤ r) (hp : RoundsFrom r p) : (run hash s p).cfg.sel = s.cfg.sel :=
  frozen_along hash (fun s => s.cfg.sel) (fun _ _ _ _ _ h hh => be_sel_frozen_step h hh) p s r hr hp

theorem claim_frozen_along (hash : List Nat → List Nat) (p : Hist) (s : State) (r : Nat)
    (hr : s.cfg.claim ≤ r) (hp : RoundsFrom r p) : (run hash s p).cfg.claim = s.cfg.claim :=
  frozen_along hash (fun s => s.cfg.claim) (fun _ _ _ _ _ h hh => claim_frozen_once_reached h hh) p s r hr hp

/-! ### positions in a list -/

theorem getElem?_split {α : Type} {l : List α} {j : Nat} {y : α} (h : l[j]? = some y) :
    l = l.take j ++ y :: l.drop (j + 1) := by
  obtain ⟨hj, rfl⟩ := List.getElem?_eq_some_iff.1 h
  rw [← List.drop_eq_getElem_cons hj, List.take_append_drop]

theorem mem_take_index {α : Type} {l : List α} {j : Nat} {x : α} (h : x ∈ l.take j) :
    ∃ i, i < j ∧ l[i]? = some x := by
  obtain ⟨i, hi⟩ := List.mem_iff_getElem?.1 h
  rw [List.getElem?_take] at hi
  split at hi
  · exact ⟨i, by assumption, hi⟩
  · cases hi

theorem mem_drop_of_index {α : Type} {l : List α} {i j : Nat} {x : α} (h : l[i]? = some x)
    (hij : j < i) : x ∈ l.drop (j + 1) := by
  refine List.mem_iff_getElem?.2 ⟨i - (j + 1), ?_⟩
  rw [List.getElem?_drop]
  have : j + 1 + (i - (j + 1)) = i := by omega
  rw [this]; exact h

theorem mem_drop_index {α : Type} {l : List α} {j : Nat} {x : α} (h : x ∈ l.drop (j + 1)) :
    ∃ k, j < k ∧ l[k]? = some x := by
  obtain ⟨i, hi⟩ := List.mem_iff_getElem?.1 h
  rw [List.getElem?_drop] at hi
  exact ⟨j + 1 + i, by omega, hi⟩

/-! ### the phase number -/

/-- number of completed selection steps (the preset `additional` of base/locked counts) -/
def Flags.phase (f : Flags) : Nat := f.filtered.toNat + f.selected.toNat + f.additional.toNat

theorem Flags.gain4.phase_le {f f' : Flags} (h : Flags.gain4 f f') : f.phase ≤ f'.phase := by
  obtain ⟨_, h1, h2, h3⟩ := h
  unfold Flags.phase
  cases a : f.filtered <;> cases b : f.selected <;> cases c : f.additional <;>
    simp_all [Bool.toNat] <;> omega

/-- with the order invariant the three phase flags form a staircase -/
theorem PhaseOK.staircase {s : State} (h : PhaseOK s) :
    (s.variant.noAdditionalStep = false →
      (s.flags.filtered = false ∧ s.flags.selected = false ∧ s.flags.additional = false) ∨
      (s.flags.filtered = true ∧ s.flags.selected = false ∧ s.flags.additional = false) ∨
      (s.flags.filtered = true ∧ s.flags.selected = true ∧ s.flags.additional = false) ∨
      (s.flags.filtered = true ∧ s.flags.selected = true ∧ s.flags.additional = true)) ∧
    (s.variant.noAdditionalStep = true →
      (s.flags.filtered = false ∧ s.flags.selected = false ∧ s.flags.additional = true) ∨
      (s.flags.filtered = true ∧ s.flags.selected = false ∧ s.flags.additional = true) ∨
      (s.flags.filtered = true ∧ s.flags.selected = true ∧ s.flags.additional = true)) := by
  obtain ⟨h1, h2, h3, _⟩ := h
  constructor
  · intro hv
    have h2 := h2 hv
    cases a : s.flags.filtered <;> cases b : s.flags.selected <;> cases c : s.flags.additional <;> simp_all
  · intro hv
    have h3 := h3 hv
    cases a : s.flags.filtered <;> cases b : s.flags.selected <;> simp_all

/-! ### what holds around an entry of a chain -/

/-- cut a chain at an entry `x`: the state `s1` before it and `s2` after it, with the flag facts that
    the gates and the exact effect give for a completed step -/
theorem LogChain.entry {hash : List Nat → List Nat} {s s'' : State} {l1 : List Entry} {x : Entry}
    {l2 : List Entry} (h : LogChain hash s (l1 ++ x :: l2) s'') :
    ∃ s1 s2, LogChain hash s l1 s1 ∧ step hash s1 x.1 x.2.1 = .ok (s2, x.2.2) ∧ LogChain hash s2 l2 s'' ∧
      (x.doneFilter = true → s1.flags.filtered = false ∧ s2.flags.filtered = true) ∧
      (x.doneSelect = true → s1.flags.filtered = true ∧ s1.flags.selected = false ∧
        s2.flags.filtered = true ∧ s2.flags.selected = true) ∧
      (x.doneAdditional = true → s1.flags.selected = true ∧ s1.flags.additional = false ∧
        s2.flags.selected = true ∧ s2.flags.additional = true) := by
  obtain ⟨s1, s2, h1, h2, h3⟩ := h.split
  have hf := step_flags_exact h2
  have hg := hf.gain4
  refine ⟨s1, s2, h1, h2, h3, ?_, ?_, ?_⟩
  · intro hd
    have hc := (doneFilter_call hd).1
    have h2' := h2
    rw [hc] at h2'
    exact ⟨filter_needs h2', by rw [hf.filtered]; show (_ || Entry.doneFilter x) = true; rw [hd, Bool.or_true]⟩
  · intro hd
    have hc := (doneSelect_call hd).1
    have h2' := h2
    rw [hc] at h2'
    obtain ⟨g1, g2⟩ := select_needs h2'
    exact ⟨g1, g2, hg.2.1 g1, by rw [hf.selected]; show (_ || Entry.doneSelect x) = true; rw [hd, Bool.or_true]⟩
  · intro hd
    have hc : x.2.1.isAdditional = true := by
      simp only [Entry.doneAdditional, Bool.and_eq_true] at hd
      exact hd.1
    obtain ⟨g1, g2⟩ := additional_needs hc h2
    exact ⟨g1, g2, hg.2.2.1 g1, by rw [hf.additional]; show (_ || Entry.doneAdditional x) = true; rw [hd, Bool.or_true]⟩

theorem isClaim_call {x : Entry} (h : x.isClaim = true) : x.2.1 = .claim ∨ x.2.1 = .claimPayment := by
  obtain ⟨e, c, o⟩ := x
  cases c <;> simp_all [Entry.isClaim]

theorem any_true_index {l : List Entry} {p : Entry → Bool} (h : l.any p = true) :
    ∃ x ∈ l, p x = true := by
  simpa [List.any_eq_true] using h

end LP

#print axioms LP.step_flags_exact
#print axioms LP.step_phaseOK
#print axioms LP.runLog_chain
#print axioms LP.LogChain.flags
#print axioms LP.LogChain.count_filter
#print axioms LP.LogChain.count_select
#print axioms LP.LogChain.count_additional
#print axioms LP.frozen_along
