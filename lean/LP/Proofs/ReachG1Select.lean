import LP.Proofs.ReachG1Filter
/-
  LP.Proofs.ReachG1Select — preservation of `g1_WF` (`Variant.guarV1`) by `selectWinners`
  (same proof as `LP/Proofs/ReachV1Select.lean`, whose variant-free lemmas are reused).
-/
namespace LP
open LP.FY

theorem g1_select {T0 : Nat} {hash : List Nat → List Nat} {s s' : State} {e : Env} {o : Out}
    {r : Nat} (h : g1_WF T0 s r) (_hr : r ≤ e.round)
    (hs : step hash s e .select = .ok (s', o)) : g1_WF T0 s' e.round := by
  obtain ⟨hstage, hfil, hnsel⟩ := v1_select_gate hs
  obtain ⟨hadd, htg, hC, hgw⟩ := v1_phase_C h.phase hfil hnsel
  have hadd' : s.flags.additional = false := hadd
  obtain ⟨x, hcase⟩ := v1_select_cases hC hs
  obtain ⟨hc1, hc2⟩ := rb_stage_winnerSelection hstage
  rcases hcase with ⟨rfl, p1, p2, arr, hR⟩ | ⟨rfl, arr, hR⟩
  · refine ⟨h.var, h.pricePos, h.tokNe, h.static, h.balOther, ?_, ?_,
      g1_vs_early (s' := selInt s x) h _hr hadd' hadd' rfl rfl (Nat.le_refl _) (fun hq => (h.vs.lp.nodep hq).1), ?_⟩
    · intro hlt; exfalso; have : e.round < s.cfg.conf := hlt; omega
    · intro _; exact ⟨hc1, hc2⟩
    · left
      exact ⟨hadd, htg, Or.inr (Or.inl ⟨⟨hC.started, hC.filtered, hC.notSelected, hC.nrw, hC.alloc,
        Or.inr ⟨x.rng, x.pos, arr, rfl, p1, p2, hR⟩⟩, hgw⟩)⟩
  · have hnl : s.nrWinning ≤ s.lastTicketId := by
      have : s.nrWinning = min (T0 - s.totalGuaranteed) s.lastTicketId := hC.nrw
      omega
    have hcount : countTrue x.status s.lastTicketId = s.nrWinning := hR.count hnl
    have hinv := LInv_init (additional := 0) hR (fun _ ht => ht) hR.flagsIn (by rw [hcount]; rfl)
      default 0 default
    refine ⟨h.var, h.pricePos, h.tokNe, h.static, h.balOther, ?_, ?_, ?_, ?_⟩
    · intro hlt; exfalso; have : e.round < s.cfg.conf := hlt; omega
    · intro _; exact ⟨hc1, hc2⟩
    · exact g1_vs_early (s' := selDone s x) h _hr hadd' hadd' rfl rfl (Nat.le_refl _)
        (fun hq => (h.vs.lp.nodep hq).1)
    · left
      refine ⟨hadd, htg, Or.inr (Or.inr ⟨hC.started, hC.filtered, rfl, hC.nrw, rfl, hC.alloc,
        fun _ => hgw, 0, 1, 0, Or.inl ⟨rfl, rfl, rfl, rfl⟩, hinv.pinv, hcount, ?_, ?_⟩)⟩
      · have := hgw.total
        show 0 + 0 + gSum false s.uts s.whitelist = s.totalGuaranteed
        have h2 : s.totalGuaranteed = gSum false s.uts s.whitelist := this
        omega
      · intro u st hu hpos
        exact Or.inl (hgw.mem_of_pos u st hu hpos)

end LP
