import LP.Proofs.ReachNGSel
/-
  LP.Proofs.ReachNGSec — preservation of `ng_WF` by `secondary` (`secondarySelectionStep` of
  launchpad-nft-and-guaranteed-tickets), for ANY budget and from a fresh or a saved operation:

    * interrupted in the v1 top-up loop        (`distSaved1`, cursor `guar` saved)
    * interrupted in the v1 leftover loop      (`distSaved2`, cursor `guar` saved)
    * guaranteed sub-step completed, then the NFT draw interrupted (cursor `nft` saved, phase F)
    * guaranteed sub-step completed and the draw completed in the same call
    * resumed in the NFT draw (cursor `nft`): interrupted again, or completed.

  `ng_secondary_cases` is the counterpart of `distribute_ok_cases` (LP/Proofs/Resume.lean); the
  loop invariants are those of `LP/Proofs/ReachV1Loops.lean` and `nftSubstep_spec`
  (LP/Proofs/NftDraw.lean).
-/
namespace LP
open LP.FY LP.Props.C14

/-- the NFT-draw part of `secondary`: one `nftSubstep` call and the bookkeeping after it -/
def ng_NftTail (hash : List Nat → List Nat) (t2 : Tx) (rng : Rng) (t' : Tx) : Prop :=
  ∃ t3 rng' st, nftSubstep hash t2 rng = .ok (t3, rng', st) ∧
    ((st = .completed ∧ t'.s = { t3.s with flags := { t3.s.flags with additional := true } } ∧
        t'.o.ret = [0]) ∨
     (st ≠ .completed ∧ t'.s = { t3.s with op := .additional (.nft rng') } ∧ t'.o.ret = [1]))

/-- storage after the guaranteed-ticket sub-step of `secondary` completed (loops ended in `x`,
    `z`; winners and proceeds credited; the saved operation cleared; the draw not yet started) -/
def ng_midState (s : State) (x : GSt) (z : LCore) : State :=
  { guarS1 s x with status := z.status, posToId := z.posToId, op := .none,
                    claimablePayment := s.claimablePayment + s.price * z.additional,
                    nrWinning := s.nrWinning + z.additional }

/-- the guaranteed-ticket part of an accepted `secondary` call from storage `s` and cursor `g` -/
def ng_GuarPart (hash : List Nat → List Nat) (s : State) (g : GuarOp) (t' : Tx) : Prop :=
  ∃ (b0 : Option Nat) (d0 : DCtx) (x : GSt) (b1 : Option Nat),
    (runWhile (guarBody s) (s.whitelist.length + 2) b0 (guarX s g) = .ok (x, b1, .interrupted) ∧
      t'.s = distSaved1 s g x ∧ t'.o.ret = [1]) ∨
    (runWhile (guarBody s) (s.whitelist.length + 2) b0 (guarX s g) = .ok (x, b1, .completed) ∧
      ∃ z b2,
        (runWhile (leftCoreBody hash s.variant.isV2 s.nrWinning s.lastTicketId) (leftFuel s) b1
            (leftZ (guarS1 s x) (guarG1 g x) d0) = .ok (z, b2, .interrupted) ∧
          t'.s = distSaved2 s x z ∧ t'.o.ret = [1]) ∨
        (runWhile (leftCoreBody hash s.variant.isV2 s.nrWinning s.lastTicketId) (leftFuel s) b1
            (leftZ (guarS1 s x) (guarG1 g x) d0) = .ok (z, b2, .completed) ∧
          ∃ t2 rng, t2.s = ng_midState s x z ∧ ng_NftTail hash t2 rng t'))

/-- the three ways `guaranteedSubstep` can succeed -/
theorem ng_guarSub_cases (hash : List Nat → List Nat) (t0 : Tx) (g : GuarOp) (a : Tx) (a1 : GuarOp)
    (b : LoopStatus) (h : guaranteedSubstep hash t0 g = .ok (a, a1, b)) :
    ∃ x b1,
      (runWhile (guarBody t0.s) (t0.s.whitelist.length + 2) t0.c.budget (guarX t0.s g)
          = .ok (x, b1, .interrupted) ∧ b = .interrupted ∧ a.s = guarS1 t0.s x ∧ a1 = guarG1 g x) ∨
      (runWhile (guarBody t0.s) (t0.s.whitelist.length + 2) t0.c.budget (guarX t0.s g)
          = .ok (x, b1, .completed) ∧ ∃ z b2,
        (runWhile (leftCoreBody hash t0.s.variant.isV2 t0.s.nrWinning t0.s.lastTicketId)
            (leftFuel t0.s) b1 (leftZ (guarS1 t0.s x) (guarG1 g x) t0.dctx) = .ok (z, b2, .interrupted) ∧
          b = .interrupted ∧ a = leftTx t0 (guarS1 t0.s x) z b2 ∧ a1 = leftG z) ∨
        (runWhile (leftCoreBody hash t0.s.variant.isV2 t0.s.nrWinning t0.s.lastTicketId)
            (leftFuel t0.s) b1 (leftZ (guarS1 t0.s x) (guarG1 g x) t0.dctx) = .ok (z, b2, .completed) ∧
          b = .completed ∧ a = leftTx t0 (guarS1 t0.s x) z b2 ∧ a1 = leftG z)) := by
  rw [guaranteedSubstep_eq] at h
  cases hR1 : runWhile (guarBody t0.s) (t0.s.whitelist.length + 2) t0.c.budget (guarX t0.s g) with
  | error err => rw [hR1] at h; cases h
  | ok q =>
    obtain ⟨x, b1, st⟩ := q
    rw [hR1] at h
    cases st with
    | outOfFuel => cases h
    | interrupted =>
      simp only [guarSubOutcome, Except.ok.injEq, Prod.mk.injEq] at h
      obtain ⟨rfl, rfl, rfl⟩ := h
      exact ⟨x, b1, Or.inl ⟨rfl, rfl, rfl, rfl⟩⟩
    | completed =>
      simp only [guarSubOutcome] at h
      cases hR2 : runWhile (leftCoreBody hash t0.s.variant.isV2 t0.s.nrWinning t0.s.lastTicketId)
          (leftFuel t0.s) b1 (leftZ (guarS1 t0.s x) (guarG1 g x) t0.dctx) with
      | error err => rw [hR2] at h; cases h
      | ok q2 =>
        obtain ⟨z, b2, st2⟩ := q2
        rw [hR2] at h
        cases st2 with
        | outOfFuel => cases h
        | interrupted =>
          simp only [guarSubOutcome2, Except.ok.injEq, Prod.mk.injEq] at h
          obtain ⟨rfl, rfl, rfl⟩ := h
          exact ⟨x, b1, Or.inr ⟨rfl, z, b2, Or.inl ⟨hR2, rfl, rfl, rfl⟩⟩⟩
        | completed =>
          simp only [guarSubOutcome2, Except.ok.injEq, Prod.mk.injEq] at h
          obtain ⟨rfl, rfl, rfl⟩ := h
          exact ⟨x, b1, Or.inr ⟨rfl, z, b2, Or.inr ⟨hR2, rfl, rfl, rfl⟩⟩⟩


theorem ng_secNftFinish_inv {t3 : Tx} {rng' : Rng} {st : LoopStatus} {t' : Tx}
    (h : secNftFinish (t3, rng', st) = .ok t') :
    (st = .completed ∧ t'.s = { t3.s with flags := { t3.s.flags with additional := true } } ∧
        t'.o.ret = [0]) ∨
    (st ≠ .completed ∧ t'.s = { t3.s with op := .additional (.nft rng') } ∧ t'.o.ret = [1]) := by
  cases st <;> simp only [secNftFinish, pure_ok_iff] at h <;> subst h
  · exact Or.inl ⟨rfl, rfl, rfl⟩
  · exact Or.inr ⟨by decide, rfl, rfl⟩
  · exact Or.inr ⟨by decide, rfl, rfl⟩

/-- the tail of `secondary` after the guaranteed-ticket sub-step (same code) -/
def ng_secGuarFinish (hash : List Nat → List Nat) : Tx × GuarOp × LoopStatus → Res Tx
  | (a, a1, b) =>
    match b with
    | .completed => do
      let x ← nftSubstep hash (a.setS (creditAdditional a.s a1.additional)).freshRng.2
        (a.setS (creditAdditional a.s a1.additional)).freshRng.1
      secNftFinish x
    | _ => pure { a with s := { a.s with op := .additional (.guar a1) }, o := { a.o with ret := [1] } }

theorem ng_guarPart_of (hash : List Nat → List Nat) (t0 : Tx) (g : GuarOp) (t' : Tx)
    (a : Tx) (a1 : GuarOp) (b : LoopStatus)
    (hsub : guaranteedSubstep hash t0 g = .ok (a, a1, b))
    (hfin : ng_secGuarFinish hash (a, a1, b) = .ok t') : ng_GuarPart hash t0.s g t' := by
  obtain ⟨x, b1, hc⟩ := ng_guarSub_cases hash t0 g a a1 b hsub
  refine ⟨t0.c.budget, t0.dctx, x, b1, ?_⟩
  rcases hc with ⟨hR1, rfl, ha, rfl⟩ | ⟨hR1, z, b2, ⟨hR2, rfl, rfl, rfl⟩ | ⟨hR2, rfl, rfl, rfl⟩⟩
  · simp only [ng_secGuarFinish, pure_ok_iff] at hfin
    subst hfin
    refine Or.inl ⟨hR1, ?_, rfl⟩
    show ({ a.s with op := .additional (.guar (guarG1 g x)) } : State) = _
    rw [ha]; rfl
  · simp only [ng_secGuarFinish, pure_ok_iff] at hfin
    subst hfin
    exact Or.inr ⟨hR1, z, b2, Or.inl ⟨hR2, rfl, rfl⟩⟩
  · simp only [ng_secGuarFinish, bind_ok_iff, Prod.exists] at hfin
    obtain ⟨t3, rng', st, hn, hf⟩ := hfin
    refine Or.inr ⟨hR1, z, b2, Or.inr ⟨hR2, _, _, ?_, t3, rng', st, hn, ng_secNftFinish_inv hf⟩⟩
    rw [Tx.freshRng_s]
    rfl

/-- the ways a `secondary` call can be accepted -/
theorem ng_secondary_cases (hash : List Nat → List Nat) (t t' : Tx) (e : Env)
    (h : secondary hash t e = .ok t') :
    t.s.stage e = .winnerSelection ∧ t.s.flags.selected = true ∧ t.s.flags.additional = false ∧
    ((∃ g, guarOpOf t = some g ∧ ng_GuarPart hash t.s g t') ∨
     (∃ r, t.s.op = .additional (.nft r) ∧ ng_NftTail hash t r t')) := by
  unfold secondary at h
  rcases hop : t.s.op with _ | _ | _ | (g | r) <;>
    simp only [hop, pure_bind, bind_ok_iff, req_ok_iff, exists_const, Prod.exists, reduceCtorEq,
      false_and, and_false, requireStage, beq_iff_eq, Bool.not_eq_true'] at h
  case additional.nft =>
    obtain ⟨hst, hsel, hadd, t3, rng', st, hsub, hfin⟩ := h
    exact ⟨hst, hsel, hadd, Or.inr ⟨r, rfl, t3, rng', st, hsub, ng_secNftFinish_inv hfin⟩⟩
  case none =>
    obtain ⟨hst, hsel, hadd, a, a1, b, hsub, hfin⟩ := h
    have hfin' : ng_secGuarFinish hash (a, a1, b) = .ok t' := hfin
    have := ng_guarPart_of hash _ _ t' a a1 b hsub hfin'
    rw [Tx.freshRng_s] at this
    exact ⟨hst, hsel, hadd, Or.inl ⟨_, by simp only [guarOpOf, hop], this⟩⟩
  case additional.guar =>
    obtain ⟨hst, hsel, hadd, a, a1, b, hsub, hfin⟩ := h
    have hfin' : ng_secGuarFinish hash (a, a1, b) = .ok t' := hfin
    have := ng_guarPart_of hash _ _ t' a a1 b hsub hfin'
    exact ⟨hst, hsel, hadd, Or.inl ⟨_, by simp only [guarOpOf, hop], this⟩⟩

/-! ### the ticket space in phase E (as `v1_RI_of_alloc`, whatever the ledger clause) -/

theorem ng_RI_of_alloc {s : State} {P : List Nat → Prop}
    (halloc : ∃ Ls : List (Nat × Nat), (Ls.map Prod.fst).Nodup ∧
      (∀ p ∈ Ls, 1 ≤ p.2 ∧ p.2 = s.confirmed p.1) ∧ Chain Ls 1 s.range s.batch ∧
      s.lastTicketId = ticketTotal Ls ∧
      (∀ a, a ∉ Ls.map Prod.fst → s.range a = none ∧ s.confirmed a = 0) ∧
      P (Ls.map Prod.fst)) : v1_RI s := by
  obtain ⟨Ls, _, hLs, hch, hlast, hout, _⟩ := halloc
  have hpos : ∀ p ∈ Ls, 1 ≤ p.2 := fun p hp => (hLs p hp).1
  refine ⟨?_, ?_⟩
  · intro u r hr
    have hin : u ∈ Ls.map Prod.fst := by
      apply Classical.byContradiction
      intro hn
      rw [(hout u hn).1] at hr; cases hr
    obtain ⟨p, hp, rfl⟩ := List.mem_map.mp hin
    obtain ⟨r', hr', h1, h2, h3, h4⟩ := Chain_bounds hch hpos p hp
    rw [hr] at hr'
    injection hr' with hr'
    subst hr'
    have hc := (hLs p hp).2
    unfold RangeIn rangeLen
    rw [hlast]
    exact ⟨⟨h1, by omega⟩, by omega⟩
  · intro u hr
    by_cases hin : u ∈ Ls.map Prod.fst
    · obtain ⟨rr, hrr⟩ := rb_Chain_range_some hch hin
      rw [hr] at hrr; cases hrr
    · exact (hout u hin).2

/-- phase E after an interrupted call (as `v1_PhE_next`, over the ticket part of the holdings) -/
theorem ng_PhE_next {T0 : Nat} {s s' : State} (hE : v1_PhE T0 (nf_core s) (v1_gv s))
    (hcore : nf_core s' = { nf_core s with status := s'.status, posToId := s'.posToId, op := s'.op })
    (hgv : v1_gv s' = { v1_gv s with whitelist := s'.whitelist })
    {rng : Rng} {lo off add : Nat} (hop : s'.op = .additional (.guar ⟨rng, lo, off, add⟩))
    (hpos : PosInv s.lastTicketId s'.status s'.posToId (s.nrWinning + off))
    (hcount : countTrue s'.status s.lastTicketId = s.nrWinning + add)
    (hsplit : lo + add + gSum false s.uts s'.whitelist = s.totalGuaranteed)
    (hhon : ∀ u st, s.uts u = some st → gOf false st > 0 →
      u ∈ s'.whitelist ∨ v1_HonS s s'.status u st) :
    v1_PhE T0 (nf_core s') (v1_gv s') := by
  rw [hcore, hgv]
  refine ⟨hE.started, hE.filtered, hE.selected, hE.nrw, hE.claimable, hE.alloc, ?_, lo, off, add,
    Or.inr ⟨rng, hop⟩, hpos, hcount, hsplit, hhon⟩
  intro h0
  have h0' : s'.op = .none := h0
  rw [hop] at h0'; cases h0'

/-! ### the NFT draw from phase F -/

/-- what the NFT-draw part of `secondary` needs of the storage it starts from (phase F, whatever
    the saved operation) -/
structure ng_Mid (T0 : Nat) (s : State) (r : Nat) : Prop where
  var : s.variant = .nftGuar
  pricePos : 0 < s.price
  tokNe : s.payTok ≠ .esdt s.lpTok
  static : 0 < s.minConfirmed
  tl : s.cfg.conf ≤ r ∧ s.cfg.sel ≤ r
  lp : ng_LpSep s r → s.deposited = true → s.perTicket * s.nrWinning ≤ s.bal (.esdt s.lpTok) 0
  phF : ng_PhF T0 (nf_core s) (v1_gv s)
  side : nf_SideInv (nf_side s)

/-- the NFT-draw part of a call, as a state transformer: the lists after it, and whether the draw
    completed (`nf_drawDone`, `ret = [0]`) or was interrupted (`nf_drawInt`, `ret = [1]`) -/
theorem ng_tail_shape {hash : List Nat → List Nat} {s : State} {t2 t' : Tx} {rng : Rng}
    (hok : NftOk s) (hle : s.nftWinners.length ≤ s.availNfts)
    (ht2 : t2.s = s) (htail : ng_NftTail hash t2 rng t') :
    ∃ P W, NftOk { s with payers := P, nftWinners := W } ∧ W.length ≤ s.availNfts ∧
      P.length + W.length = s.payers.length + s.nftWinners.length ∧
      (∀ a, (a ∈ P ∨ a ∈ W) ↔ (a ∈ s.payers ∨ a ∈ s.nftWinners)) ∧
      s.nftWinners <+: W ∧
      ((t'.s = nf_drawDone s P W ∧ t'.o.ret = [0] ∧
          W.length = min s.availNfts (s.payers.length + s.nftWinners.length)) ∨
       (∃ rng', t'.s = nf_drawInt s P W rng' ∧ t'.o.ret = [1])) := by
  obtain ⟨t3, rng', st, hsub, hfin⟩ := htail
  have hok0 : NftOk t2.s := by rw [ht2]; exact hok
  have hle0 : t2.s.nftWinners.length ≤ t2.s.availNfts := by rw [ht2]; exact hle
  obtain ⟨_, h2, h3, hWle, hlen, hun, hpre, hcomp⟩ := nftSubstep_spec hsub hok0 hle0
  rw [ht2] at h2 hWle hlen hun hpre hcomp
  refine ⟨t3.s.payers, t3.s.nftWinners, ⟨h3.nodupP, h3.nodupW, h3.disj⟩, hWle, hlen, hun, hpre, ?_⟩
  rcases hfin with ⟨hst, hs', hret⟩ | ⟨hst, hs', hret⟩
  · subst hst
    refine Or.inl ⟨?_, hret, hcomp rfl⟩
    rw [hs', h2]; rfl
  · refine Or.inr ⟨rng', ?_, hret⟩
    rw [hs', h2]
    cases st with
    | completed => exact absurd rfl hst
    | interrupted => rfl
    | outOfFuel => rfl

theorem ng_tail_WF {T0 : Nat} {hash : List Nat → List Nat} {s : State} {r : Nat} {t2 t' : Tx}
    {rng : Rng} (hm : ng_Mid T0 s r) (ht2 : t2.s = s) (htail : ng_NftTail hash t2 rng t') :
    ng_WF T0 t'.s r := by
  have hs0 := hm.side
  obtain ⟨P, W, hokPW, hWle, hlen, hun, _, hcase⟩ :=
    ng_tail_shape ⟨hs0.nodupP, hs0.nodupW, hs0.disj⟩ hs0.winLe ht2 htail
  have hF := hm.phF
  have hadd : s.flags.additional = false := hF.notDone
  have hD := hF.post
  obtain ⟨L, hLnd, hLsupp, hLpay⟩ := hF.pre
  have hsel : s.flags.selected = true := hD.selected
  have hheld : (nf_side s).held = s.nftCost.amount * (s.payers.length + s.nftWinners.length) := by
    simp [nf_Side.held, nf_side, hadd]
  have hfresh : ∀ a, s.claimed a = false := hs0.fresh hadd
  obtain ⟨hc1, hc2⟩ := hm.tl
  rcases hcase with ⟨hs'', _, _⟩ | ⟨rng', hs'', _⟩
  · -- the draw completed
    rw [hs'']
    have hheld' : ({ nf_side s with payers := P, winners := W, cnft := s.nftCost.amount * W.length, additional := true } : nf_Side).held
        = (nf_side s).held := by
      rw [hheld]
      simp only [nf_Side.held, if_true]
      show s.nftCost.amount * W.length + s.nftCost.amount * P.length = _
      rw [← hlen, Nat.mul_add]; omega
    have htix : ({ nf_side s with payers := P, winners := W, cnft := s.nftCost.amount * W.length, additional := true } : nf_Side).tix = (nf_side s).tix := by
      unfold nf_Side.tix nf_Side.feeIn
      rw [hheld']; rfl
    refine ng_WF_buildF ({ nf_side s with payers := P, winners := W, cnft := s.nftCost.amount * W.length, additional := true }) rfl ?_ hm.var hm.pricePos hm.tokNe hm.static
      ?_ ?_ ?_ ?_ ?_
    · refine ⟨hs0.balOther, ?_, ?_, hokPW.nodupP, hokPW.nodupW, hokPW.disj, hWle, ?_, nofun,
        ?_, ?_⟩
      · intro hsm; rw [hheld']; exact hs0.feeLe hsm
      · intro b1 b2; rw [hheld']; exact hs0.feeEq b1 b2
      · intro a ha; exact hs0.conf a ((hun a).mp ha)
      · intro a hcl
        have hcl' : s.claimed a = true := hcl
        rw [hfresh a] at hcl'; cases hcl'
      · intro hq
        have hq' : s.flags.selected = false := hq
        rw [hsel] at hq'; cases hq'
    · intro hlt; exfalso; have : r < s.cfg.conf := hlt; omega
    · intro _; exact ⟨hc1, hc2⟩
    · intro hq hd
      have e1 : ng_owed (nf_drawDone s P W) = s.nrWinning := by
        rw [ng_owed_of_not (by intro rg; show Op.none ≠ _; nofun)]
        unfold v1_owed
        show s.nrWinning + (if true = true then 0 else s.totalGuaranteed) = _
        simp
      rw [e1]
      exact hm.lp hq hd
    · intro hq
      have hq' : true = false := hq
      cases hq'
    · left; right
      rw [htix]
      exact ⟨rfl, nf_PhD_flags hD { s.flags with additional := true } rfl rfl rfl⟩
  · -- interrupted
    rw [hs'']
    have hheld' : ({ nf_side s with payers := P, winners := W } : nf_Side).held = (nf_side s).held := by
      rw [hheld]
      simp only [nf_Side.held]
      have : (nf_side s).additional = false := hadd
      rw [this]
      simp only [Bool.false_eq_true, if_false]
      rw [hlen]; rfl
    have htix : ({ nf_side s with payers := P, winners := W } : nf_Side).tix = (nf_side s).tix := by
      unfold nf_Side.tix nf_Side.feeIn
      rw [hheld']; rfl
    refine ng_WF_buildF ({ nf_side s with payers := P, winners := W }) rfl ?_ hm.var hm.pricePos hm.tokNe
      hm.static ?_ ?_ ?_ ?_ ?_
    · refine ⟨hs0.balOther, ?_, ?_, hokPW.nodupP, hokPW.nodupW, hokPW.disj, hWle, ?_, hs0.fresh,
        ?_, ?_⟩
      · intro hsm; rw [hheld']; exact hs0.feeLe hsm
      · intro b1 b2; rw [hheld']; exact hs0.feeEq b1 b2
      · intro a ha; exact hs0.conf a ((hun a).mp ha)
      · intro a hcl
        have hcl' : s.claimed a = true := hcl
        rw [hfresh a] at hcl'; cases hcl'
      · intro hq
        have hq' : s.flags.selected = false := hq
        rw [hsel] at hq'; cases hq'
    · intro hlt; exfalso; have : r < s.cfg.conf := hlt; omega
    · intro _; exact ⟨hc1, hc2⟩
    · intro hq hd
      have e1 : ng_owed (nf_drawInt s P W rng') = s.nrWinning := ng_owed_nft (rg := rng') rfl
      rw [e1]
      exact hm.lp hq hd
    · intro _ hq
      exact absurd rfl (hq rng')
    · right
      rw [htix]
      exact ⟨⟨hadd, hD, ⟨L, hLnd, hLsupp, hLpay⟩, hF.nrw, hF.count, hF.claimable, hF.inside, hF.hon⟩,
        rng', rfl⟩

/-! ### the endpoint -/

/-- how the storage `m` from which the NFT draw of a call starts relates to the storage `s` before
    the call: `m = s` (resumed in the draw) or the guaranteed-ticket sub-step completed in this call -/
structure ng_MidRel (s m : State) : Prop where
  payers : m.payers = s.payers
  winners : m.nftWinners = s.nftWinners
  avail : m.availNfts = s.availNfts
  cost : m.nftCost = s.nftCost
  last : m.lastTicketId = s.lastTicketId
  price : m.price = s.price
  mono : ∀ t, s.status t = true → m.status t = true
  uts : m.uts = s.uts
  confirmed : m.confirmed = s.confirmed
  minc : m.minConfirmed = s.minConfirmed
  range : m.range = s.range
  flags : m.flags = s.flags

theorem ng_MidRel.refl (s : State) : ng_MidRel s s :=
  ⟨rfl, rfl, rfl, rfl, rfl, rfl, fun _ h => h, rfl, rfl, rfl, rfl, rfl⟩

/-- `(calcV1 …).1 ≤ c + d` -/
theorem ng_calcV1_fst_le (st : UTS) (conf minc : Nat) : (calcV1 st conf minc).1 ≤ gOf false st := by
  have := calcV1_sum st conf minc
  simp only [gOf_false]
  omega

/-- an accepted `secondary` call from a well-formed state: either it is interrupted inside the
    guaranteed-ticket sub-step (the invariant holds afterwards, `ret = [1]`, the cursor `guar` is
    saved), or its NFT-draw part runs from a storage `m` in phase F -/
theorem ng_secondary_split {T0 : Nat} {hash : List Nat → List Nat} {s : State} {e : Env} {t : Tx}
    {r : Nat} (h : ng_WF T0 s r) (hr : r ≤ e.round)
    (hx : secondary hash (rbTx s e) e = .ok t) :
    s.flags.selected = true ∧ s.flags.additional = false ∧
    ((ng_WF T0 t.s e.round ∧ t.o.ret = [1] ∧ t.s.flags.additional = false ∧
        (∃ g, t.s.op = .additional (.guar g)) ∧ (∀ rg, s.op ≠ .additional (.nft rg)) ∧
        t.s.payers = s.payers ∧ t.s.nftWinners = s.nftWinners) ∨
     (∃ m t2 rng, ng_Mid T0 m e.round ∧ t2.s = m ∧ ng_NftTail hash t2 rng t ∧ ng_MidRel s m)) := by
  have hiv2 : s.variant.isV2 = false := (ng_flags h.var).2.2.1
  obtain ⟨hstage, hsel, hadd, hcase⟩ := ng_secondary_cases hash _ t e hx
  simp only [rbTx_s] at hstage hsel hadd hcase
  obtain ⟨hc1, hc2⟩ := rb_stage_winnerSelection hstage
  have hs0 := h.side
  refine ⟨hsel, hadd, ?_⟩
  rcases hcase with ⟨g, hg, hpart⟩ | ⟨rng, hop, htail⟩
  · -- the guaranteed-ticket sub-step runs: the state is in phase E
    rcases ng_phase_sel h.phase hsel hadd with ⟨htg, hE⟩ | ⟨_, rr, hopF⟩
    rotate_left
    · exfalso
      have hopF' : s.op = .additional (.nft rr) := hopF
      unfold guarOpOf at hg
      simp only [rbTx_s, hopF'] at hg
      cases hg
    have hopE : ∀ rg, s.op ≠ .additional (.nft rg) := fun rg => ng_PhE_op hE rg
    have hw0 : s.nftWinners = [] := h.noWinE hadd hopE
    have hlpE : ng_LpSep s e.round → s.deposited = true →
        s.perTicket * (s.nrWinning + s.totalGuaranteed) ≤ s.bal (.esdt s.lpTok) 0 := by
      intro hq hd
      have hq' : ng_LpSep s r := hq.imp id (fun h1 => Nat.lt_of_le_of_lt hr h1)
      have := h.lp hq' hd
      rw [ng_owed_of_not hopE] at this
      unfold v1_owed at this
      rw [hadd] at this
      simpa using this
    obtain ⟨lo, off, add, hop, hpos, hcount, hsplit, hhon⟩ := hE.dist
    obtain ⟨hg1, hg2, hg3⟩ := v1_guarOpOf hg hop
    have hRI : v1_RI s := ng_RI_of_alloc (P := fun L => PayPre (nf_core s) L) hE.alloc
    have hG0 : v1_G1 s s.nrWinning s.totalGuaranteed (guarX s g) := by
      refine ⟨rfl, hpos.inside, fun _ ht => ht, ?_, ?_, hhon⟩
      · show countTrue s.status s.lastTicketId = s.nrWinning + g.additional
        rw [hg3]; exact hcount
      · show g.leftover + g.additional + gSum false s.uts s.whitelist = s.totalGuaranteed
        rw [hg1, hg3]; exact hsplit
    have hpos' : PosInv s.lastTicketId s.status s.posToId (s.nrWinning + g.offset) := by
      rw [hg2]; exact hpos
    obtain ⟨b0, d0, x, b1, hcs⟩ := hpart
    rcases hcs with ⟨hrun, hs', hret⟩ | ⟨hrun, z, b2, hcase2⟩
    · -- interrupted in the first loop
      have hG := (v1_loop1 hiv2 hRI hrun hG0).1 rfl
      left
      rw [hs']
      refine ⟨?_, hret, hadd, ⟨_, rfl⟩, hopE, rfl, rfl⟩
      refine ng_WF_build (nf_side s) rfl hs0 h.var h.pricePos h.tokNe h.static ?_ ?_ ?_
        (fun _ _ => hw0) ?_
      · intro hlt; exfalso; have : e.round < s.cfg.conf := hlt; omega
      · intro _; exact ⟨hc1, hc2⟩
      · intro hq hd
        have := hlpE hq hd
        show s.perTicket * (s.nrWinning + if s.flags.additional = true then 0 else s.totalGuaranteed)
          ≤ s.bal (.esdt s.lpTok) 0
        rw [hadd]
        simpa using this
      · left; left
        refine ⟨hadd, htg, Or.inr (Or.inr ?_)⟩
        exact ng_PhE_next (s := s) (s' := distSaved1 s g x) hE rfl rfl
          (rng := g.rng) (lo := x.leftover) (off := g.offset) (add := x.additional) rfl
          (v1_PosInv_mono hpos' hG.mono hG.flagsIn) hG.count hG.split hG.hon
    · obtain ⟨hG, hnil⟩ := (v1_loop1 hiv2 hRI hrun hG0).2 rfl
      rw [hiv2] at hcase2
      have hL0 : v1_L2 s.lastTicketId s.nrWinning s.totalGuaranteed x.status
          (leftZ (guarS1 s x) (guarG1 g x) d0) := by
        refine ⟨⟨?_, hG.count⟩, ?_, fun _ ht => ht⟩
        · exact v1_PosInv_mono hpos' hG.mono hG.flagsIn
        · have := hG.split
          rw [hnil] at this
          simp only [gSum_nil, Nat.add_zero] at this
          exact this
      rcases hcase2 with ⟨hrun2, hs', hret⟩ | ⟨hrun2, t2, rng2, ht2, htail⟩
      · -- interrupted in the second loop
        have hL := (v1_loop2 hrun2 hL0).1 rfl
        left
        rw [hs']
        refine ⟨?_, hret, hadd, ⟨_, rfl⟩, hopE, rfl, rfl⟩
        refine ng_WF_build (nf_side s) rfl hs0 h.var h.pricePos h.tokNe h.static ?_ ?_ ?_
          (fun _ _ => hw0) ?_
        · intro hlt; exfalso; have : e.round < s.cfg.conf := hlt; omega
        · intro _; exact ⟨hc1, hc2⟩
        · intro hq hd
          have := hlpE hq hd
          show s.perTicket * (s.nrWinning + if s.flags.additional = true then 0 else s.totalGuaranteed)
            ≤ s.bal (.esdt s.lpTok) 0
          rw [hadd]
          simpa using this
        · left; left
          refine ⟨hadd, htg, Or.inr (Or.inr ?_)⟩
          refine ng_PhE_next (s := s) (s' := distSaved2 s x z) hE rfl rfl
            (rng := z.rng) (lo := z.leftover) (off := z.offset) (add := z.additional) rfl
            hL.inv.pinv hL.inv.count ?_ ?_
          · show z.leftover + z.additional + gSum false s.uts x.whitelist = s.totalGuaranteed
            rw [hnil]; simp only [gSum_nil, Nat.add_zero]; exact hL.sum
          · intro u st hu hp
            rcases hG.hon u st hu hp with hm | hh
            · rw [hnil] at hm; cases hm
            · exact Or.inr (v1_HonS_mono hL.mono hh)
      · -- the guaranteed-ticket sub-step completed; the draw follows in the same call
        obtain ⟨hinv, hle, hmono, hfin⟩ := (v1_loop2 hrun2 hL0).2 rfl
        have hcl : s.claimablePayment = s.price * s.nrWinning := hE.claimable
        have hnrw : s.nrWinning = min (T0 - s.totalGuaranteed) s.lastTicketId := hE.nrw
        have htg' : s.totalGuaranteed ≤ T0 := htg
        have hll : s.nrWinning + z.additional ≤ s.lastTicketId := hinv.le_last
        have hD := v1_handover (c := nf_core s) hE.started hE.filtered hE.selected hE.alloc
          (st' := z.status) (pi' := z.posToId) (n' := s.nrWinning + z.additional)
          (cl := s.claimablePayment + s.price * z.additional) hinv.count
          (by rw [hcl, Nat.mul_add]; rfl)
        have hD' := nf_PhD_flags hD s.flags rfl rfl rfl
        obtain ⟨Ls, hnd, _, _, _, hout, hpay⟩ := hE.alloc
        right
        refine ⟨ng_midState s x z, t2, rng2, ?_, ht2, htail, ?_⟩
        · refine ⟨h.var, h.pricePos, h.tokNe, h.static, ⟨hc1, hc2⟩, ?_,
            ⟨hadd, hD', ⟨Ls.map Prod.fst, hnd, ?_, hpay⟩, ?_, hinv.count, ?_, hinv.pinv.inside, ?_⟩, hs0⟩
          · intro hq hd
            have := hlpE hq hd
            show s.perTicket * (s.nrWinning + z.additional) ≤ s.bal (.esdt s.lpTok) 0
            have hle' : s.nrWinning + z.additional ≤ s.nrWinning + s.totalGuaranteed := by omega
            exact Nat.le_trans (Nat.mul_le_mul_left _ hle') this
          · intro a ha
            apply Classical.byContradiction
            intro hin
            exact ha (hout a hin).2
          · show s.nrWinning + z.additional = min T0 s.lastTicketId
            rcases hfin with hf | hf <;> omega
          · show s.claimablePayment + s.price * z.additional = s.price * (s.nrWinning + z.additional)
            rw [hcl, Nat.mul_add]
          · intro u st hu
            show min (calcV1 st (s.confirmed u) s.minConfirmed).1 (s.confirmed u)
              ≤ winOf s.range z.status u
            have hu' : s.uts u = some st := hu
            by_cases hpos : gOf false st > 0
            · rcases hG.hon u st hu' hpos with hm | hh
              · rw [hnil] at hm; cases hm
              · exact v1_HonS_mono hmono hh
            · have := ng_calcV1_fst_le st (s.confirmed u) s.minConfirmed
              have h0 : (calcV1 st (s.confirmed u) s.minConfirmed).1 = 0 := by omega
              rw [h0]; simp
        · exact ⟨rfl, rfl, rfl, rfl, rfl, rfl, fun t ht => hmono t (hG.mono t ht), rfl, rfl, rfl,
            rfl, rfl⟩
  · -- resumed in the NFT draw: the state is in phase F
    have hop' : s.op = .additional (.nft rng) := hop
    rcases ng_phase_sel h.phase hsel hadd with ⟨_, hE⟩ | ⟨hF, _⟩
    · exact absurd hop' (ng_PhE_op hE rng)
    right
    refine ⟨s, rbTx s e, rng, ⟨h.var, h.pricePos, h.tokNe, h.static, ⟨hc1, hc2⟩, ?_, hF, hs0⟩, rfl,
      htail, ng_MidRel.refl s⟩
    intro hq hd
    have hq' : ng_LpSep s r := hq.imp id (fun h1 => Nat.lt_of_le_of_lt hr h1)
    have := h.lp hq' hd
    rw [ng_owed_nft hop'] at this
    exact this

theorem ng_secondary {T0 : Nat} {hash : List Nat → List Nat} {s s' : State} {e : Env} {o : Out}
    {r : Nat} (h : ng_WF T0 s r) (hr : r ≤ e.round)
    (hs : step hash s e .secondary = .ok (s', o)) : ng_WF T0 s' e.round := by
  obtain ⟨t, hx, rfl⟩ := rb_step_np (by
    intro m hm; simp only [endpointMeta] at hm; split at hm
    · simp at hm; rw [← hm]
    · cases hm) hs
  simp only [exec] at hx
  obtain ⟨_, _, hcase⟩ := ng_secondary_split h hr hx
  rcases hcase with ⟨hwf, _⟩ | ⟨m, t2, rng, hmid, ht2, htail, _⟩
  · exact hwf
  · exact ng_tail_WF hmid ht2 htail

end LP
