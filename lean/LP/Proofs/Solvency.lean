import LP.Props.C07
/-
  LP.Proofs.Solvency — sums over participants and the payment-token ledger equations.
-/
namespace LP

/-- Σ_{a ∈ L} f a -/
def sumOver (f : Nat → Nat) : List Nat → Nat
  | [] => 0
  | a :: rest => f a + sumOver f rest

theorem sumOver_congr {f g : Nat → Nat} {L : List Nat} (h : ∀ a ∈ L, f a = g a) :
    sumOver f L = sumOver g L := by
  induction L with
  | nil => rfl
  | cons a rest ih =>
    simp only [sumOver]
    rw [h a (by simp), ih (fun x hx => h x (by simp [hx]))]

theorem sumOver_upd_not_mem (f : Nat → Nat) (L : List Nat) (k v : Nat) (hk : k ∉ L) :
    sumOver (upd f k v) L = sumOver f L := by
  apply sumOver_congr
  intro a ha
  have : a ≠ k := fun h => hk (h ▸ ha)
  simp [upd, this]

/-- updating one member of a duplicate-free list changes the sum by exactly the difference -/
theorem sumOver_upd_mem (f : Nat → Nat) (L : List Nat) (k v : Nat) (hn : L.Nodup) (hk : k ∈ L) :
    sumOver (upd f k v) L + f k = sumOver f L + v := by
  induction L with
  | nil => simp at hk
  | cons a rest ih =>
    simp only [sumOver]
    rw [List.nodup_cons] at hn
    by_cases hak : a = k
    · subst hak
      rw [sumOver_upd_not_mem f rest a v hn.1]
      simp [upd]; omega
    · have hk' : k ∈ rest := by
        cases hk with
        | head => exact absurd rfl hak
        | tail _ h => exact h
      have := ih hn.2 hk'
      simp [upd, hak]; omega

theorem sumOver_zero (f : Nat → Nat) (L : List Nat) (h : ∀ a ∈ L, f a = 0) : sumOver f L = 0 := by
  induction L with
  | nil => rfl
  | cons a rest ih => simp [sumOver, h a (by simp), ih (fun x hx => h x (by simp [hx]))]

theorem sumOver_le {f g : Nat → Nat} {L : List Nat} (h : ∀ a ∈ L, f a ≤ g a) : sumOver f L ≤ sumOver g L := by
  induction L with
  | nil => simp [sumOver]
  | cons a rest ih =>
    simp only [sumOver]
    have := h a (by simp)
    have := ih (fun x hx => h x (by simp [hx]))
    omega

theorem sumOver_add (f g : Nat → Nat) (L : List Nat) :
    sumOver (fun a => f a + g a) L = sumOver f L + sumOver g L := by
  induction L with
  | nil => rfl
  | cons a rest ih => simp only [sumOver, ih]; omega

theorem mul_sumOver (c : Nat) (f : Nat → Nat) (L : List Nat) :
    c * sumOver f L = sumOver (fun a => c * f a) L := by
  induction L with
  | nil => simp [sumOver]
  | cons a rest ih => simp only [sumOver, Nat.mul_add, ih]

/-- `L` lists (without repetition) every address that has confirmed tickets -/
structure Covers (s : State) (L : List Nat) : Prop where
  nodup : L.Nodup
  supp : ∀ a, s.confirmed a ≠ 0 → a ∈ L

/-- **Ledger equation before the selection is complete**: the contract holds, in the
    ticket-payment token, exactly the full payment of every confirmed ticket. -/
def PayEqPre (s : State) (L : List Nat) : Prop :=
  s.bal s.payTok 0 = s.price * sumOver s.confirmed L

/-- winning tickets of an address, as the winner view counts them -/
def winCountOf (s : State) (a : Nat) : Nat :=
  match s.range a with
  | none => 0
  | some r => countWinning s.status r.first (rangeLen r)

/-- what is still owed to participant `a` in the payment token once all steps are complete:
    nothing if already settled (no range), else price × (confirmed − winning) -/
def refundDue (s : State) (a : Nat) : Nat :=
  match s.range a with
  | none => 0
  | some _ => s.price * (s.confirmed a - winCountOf s a)

/-- **Ledger equation after all selection steps**: holdings = the owner's not-yet-withdrawn
    proceeds + the refund due for every losing ticket of participants who have not settled. -/
def PayEqPost (s : State) (L : List Nat) : Prop :=
  s.bal s.payTok 0 = s.claimablePayment + sumOver (refundDue s) L

/-- the hand-over between the two equations at the moment the last selection step completes:
    if proceeds = price × (total winners), every participant's winners are at most his
    confirmed tickets, unconfirmed addresses hold no range, then Pre ⇒ Post -/
theorem pre_to_post (s : State) (L : List Nat)
    (hpre : PayEqPre s L)
    (hcp : s.claimablePayment = s.price * sumOver (winCountOf s) L)
    (hle : ∀ a ∈ L, winCountOf s a ≤ s.confirmed a)
    (hnr : ∀ a ∈ L, s.range a = none → s.confirmed a = 0) :
    PayEqPost s L := by
  unfold PayEqPost PayEqPre at *
  rw [hpre, hcp, mul_sumOver, mul_sumOver, ← sumOver_add]
  apply sumOver_congr
  intro a ha
  unfold refundDue
  cases hr : s.range a with
  | none =>
    have h0 := hnr a ha hr
    have : winCountOf s a = 0 := by simp [winCountOf, hr]
    simp [h0, this]
  | some r =>
    have := hle a ha
    simp only []
    rw [← Nat.mul_add]
    congr 1
    omega

/-- once everybody has settled and the owner has withdrawn, nothing is left -/
theorem all_settled_zero (s : State) (L : List Nat) (hpost : PayEqPost s L)
    (hall : ∀ a ∈ L, s.range a = none) (hcp : s.claimablePayment = 0) :
    s.bal s.payTok 0 = 0 := by
  unfold PayEqPost at hpost
  rw [hpost, hcp, sumOver_zero]
  intro a ha
  simp [refundDue, hall a ha]

end LP
