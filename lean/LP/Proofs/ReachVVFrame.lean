import LP.Proofs.ReachVVClaim
/-
  LP.Proofs.ReachVVFrame — later states of `Variant.guarV2`:
    * `vv_Later hash s r s2 r2` : `s2` (at round `r2`) is reached from `s` (at round `r`) by accepted
      calls with non-decreasing rounds and by the passing of time;
    * `vv_later_frozen`  : once the confirmation start round has been reached, no later state has a
      different schedule (stored or not), `perTicket`, or confirmation start round;
    * `vv_later_settled` : a settled participant stays settled, his entitlement never changes, his
      booked amount never decreases, the completion flags stay set;
    * the launchpad-token ledger in closed form (`vv_lp_exact`, read off cases A / B of `LPost`).
-/
namespace LP
open LP.FY LP.Events

/-! ### later states -/

/-- `vv_Later hash s r s2 r2`: `s2` (at round `r2`) is reached from `s` (at round `r`) by accepted
    calls with non-decreasing rounds and by the passing of time -/
inductive vv_Later (hash : List Nat → List Nat) (s : State) (r : Nat) : State → Nat → Prop
  | refl : vv_Later hash s r s r
  | call (s1 : State) (r1 : Nat) (e : Env) (c : Call) (s2 : State) (o : Out) :
      vv_Later hash s r s1 r1 → r1 ≤ e.round → EnvOK e → CallOK c →
      step hash s1 e c = .ok (s2, o) → vv_Later hash s r s2 e.round
  | wait (s1 : State) (r1 r2 : Nat) : vv_Later hash s r s1 r1 → r1 ≤ r2 → vv_Later hash s r s1 r2

theorem vv_Later.reach {hash : List Nat → List Nat} {a0 : InitArgs} {s : State} {r : Nat}
    (h : ReachA hash .guarV2 a0 s r) {s2 : State} {r2 : Nat} (hl : vv_Later hash s r s2 r2) :
    ReachA hash .guarV2 a0 s2 r2 ∧ r ≤ r2 := by
  induction hl with
  | refl => exact ⟨h, Nat.le_refl _⟩
  | call s1 r1 e c s2 o _ k1 k2 k3 k4 ih =>
    exact ⟨.call s1 r1 e c s2 o ih.1 k1 k2 k3 k4, by have := ih.2; omega⟩
  | wait s1 r1 r2 _ k1 ih => exact ⟨.wait s1 r1 r2 ih.1 k1, by have := ih.2; omega⟩

theorem vv_Later.trans {hash : List Nat → List Nat} {s : State} {r : Nat} {s1 : State} {r1 : Nat}
    (h1 : vv_Later hash s r s1 r1) {s2 : State} {r2 : Nat} (h2 : vv_Later hash s1 r1 s2 r2) :
    vv_Later hash s r s2 r2 := by
  induction h2 with
  | refl => exact h1
  | call sa ra e c sb o _ k1 k2 k3 k4 ih => exact .call sa ra e c sb o ih k1 k2 k3 k4
  | wait sa ra rb _ k1 ih => exact .wait sa ra rb ih k1

/-- **the schedule is frozen once the confirmation period has started**: from a state (reachable
    or not) in which the confirmation start round has been reached, no later state has a different
    stored schedule (in particular "no schedule" stays "no schedule"), a different `perTicket` or a
    different confirmation start round (C17 `terms_frozen_after_confirmation_starts`,
    `conf_frozen_once_reached`, along the reachability relation) -/
theorem vv_later_frozen {hash : List Nat → List Nat} {s : State} {r : Nat}
    (hconf : s.cfg.conf ≤ r) {s2 : State} {r2 : Nat} (hl : vv_Later hash s r s2 r2) :
    s2.sched2 = s.sched2 ∧ s2.cfg.conf = s.cfg.conf ∧ s2.perTicket = s.perTicket ∧
    s2.lpTok = s.lpTok ∧ r ≤ r2 := by
  induction hl with
  | refl => exact ⟨rfl, rfl, rfl, rfl, Nat.le_refl _⟩
  | call s1 r1 e c s2 o _ k1 _ _ k4 ih =>
    obtain ⟨i1, i2, i3, i4, i5⟩ := ih
    have hge : s1.cfg.conf ≤ e.round := by rw [i2]; omega
    have hst : s1.stage e ≠ .addTickets := (LP.Props.C17.stage_ne_addTickets_iff s1 e).2 hge
    obtain ⟨ht, h1⟩ := LP.Props.C17.terms_frozen_after_confirmation_starts_all k4 hst
    have h2 := conf_frozen_once_reached k4 hge
    exact ⟨by rw [h1]; exact i1, by rw [h2]; exact i2, by rw [terms_perTicket ht]; exact i3,
      by rw [terms_lpTok ht]; exact i4, by omega⟩
  | wait s1 r1 r2 _ k1 ih => exact ⟨ih.1, ih.2.1, ih.2.2.1, ih.2.2.2.1, by have := ih.2.2.2.2; omega⟩

/-- **a settled participant's entitlement never changes**, he stays settled, his booked amount
    never decreases, and the completion flags stay set -/
theorem vv_later_settled {hash : List Nat → List Nat} {a0 : InitArgs} {s : State} {r : Nat}
    (h : ReachA hash .guarV2 a0 s r) {a : Nat} (hcl : s.claimed a = true) {s2 : State} {r2 : Nat}
    (hl : vv_Later hash s r s2 r2) :
    s2.claimed a = true ∧ s2.userTotal a = s.userTotal a ∧ s.userClaimed a ≤ s2.userClaimed a ∧
    AllDone s2 := by
  induction hl with
  | refl => exact ⟨hcl, rfl, Nat.le_refl _, vv_settled_done (reach_WF2 h) hcl⟩
  | call s1 r1 e c s2 o hl1 k1 k2 k3 k4 ih =>
    obtain ⟨i1, i2, i3, i4⟩ := ih
    have hr1 := (vv_Later.reach h hl1).1
    have hwf := reach_WF2 hr1
    have hxx := vv_reach_Exact hr1
    obtain ⟨_, _, _, hfl, _, _, _, hfr⟩ := vv_done_frame hwf k1 i4 k4
    have hd2 : AllDone s2 := by unfold AllDone; rw [hfl]; exact i4
    by_cases hc : c = .claim
    · subst hc
      obtain ⟨_, _, _, _, _, j6, _, j8, j9, j10, _⟩ := vv_claim_effect hwf hxx k1 k4
      by_cases hae : a = e.caller
      · subst hae
        exact ⟨j9, by rw [j10 i1]; exact i2, by omega, hd2⟩
      · obtain ⟨q1, q2, q3⟩ := j8 a hae
        exact ⟨by rw [q3]; exact i1, by rw [q2]; exact i2, by rw [q1]; exact i3, hd2⟩
    · obtain ⟨q1, q2, q3⟩ := hfr hc
      exact ⟨by rw [q3]; exact i1, by rw [q1]; exact i2, by rw [q2]; exact i3, hd2⟩
  | wait s1 r1 r2 _ k1 ih => exact ih

/-- **every history is a later history**: running (`run`: rejected transactions leave the state
    unchanged) any list of transactions whose rounds are non-decreasing and `≥ r`, each carrying
    EGLD or ESDT but not both, leads to a later state; if the history can be continued by a
    transaction at `e`, the round reached is `≤ e.round` -/
theorem vv_Later_run (hash : List Nat → List Nat) :
    ∀ (hist : LP.Props.C17.Hist) (s : State) (r : Nat) (e : Env) (c : Call),
      LP.Props.C17.RoundsFrom r (hist ++ [(e, c)]) → (∀ p ∈ hist, EnvOK p.1 ∧ CallOK p.2) →
      ∃ r2, r2 ≤ e.round ∧ vv_Later hash s r (run hash s hist) r2
  | [], s, r, e, c, hr, _ => ⟨r, hr.1, .refl⟩
  | (e1, c1) :: rest, s, r, e, c, hr, hok => by
    obtain ⟨hr1, hr2⟩ := hr
    have hok1 := hok (e1, c1) (List.mem_cons_self ..)
    have hokr : ∀ p ∈ rest, EnvOK p.1 ∧ CallOK p.2 := fun p hp => hok p (List.mem_cons_of_mem _ hp)
    unfold run
    cases hst : step hash s e1 c1 with
    | error err =>
      obtain ⟨r2, k1, k2⟩ := vv_Later_run hash rest s e1.round e c hr2 hokr
      exact ⟨r2, k1, vv_Later.trans (.wait s r e1.round .refl hr1) k2⟩
    | ok q =>
      obtain ⟨s', o⟩ := q
      obtain ⟨r2, k1, k2⟩ := vv_Later_run hash rest s' e1.round e c hr2 hokr
      exact ⟨r2, k1, vv_Later.trans (.call s r e1 c1 s' o .refl hr1 hok1.1 hok1.2 hst) k2⟩

/-- one accepted transaction of a history -/
theorem vv_run_cons_ok {hash : List Nat → List Nat} {s s' : State} {e : Env} {c : Call} {o : Out}
    {rest : LP.Props.C17.Hist} (h : step hash s e c = .ok (s', o)) :
    run hash s ((e, c) :: rest) = run hash s' rest := by
  simp only [run, h]

/-- one rejected transaction of a history -/
theorem vv_run_cons_err {hash : List Nat → List Nat} {s : State} {e : Env} {c : Call} {err : Err}
    {rest : LP.Props.C17.Hist} (h : step hash s e c = .error err) :
    run hash s ((e, c) :: rest) = run hash s rest := by
  simp only [run, h]

/-- a settled participant has settled in the claim stage, hence after the confirmation start round -/
theorem vv_settled_conf {T0 : Nat} {s : State} {r : Nat} (h : WF2 T0 s r) {a : Nat}
    (hcl : s.claimed a = true) : s.cfg.conf ≤ r := by
  have hd := vv_settled_done h hcl
  have hst : s.flags.started = true := (v2_phase_F h.phase hd.2).d.started
  exact (h.tlStarted hst).1

/-! ### the launchpad-token ledger in closed form -/

theorem vv_sumOver_sub {f g : Nat → Nat} (hle : ∀ a, g a ≤ f a) (L : List Nat) :
    sumOver (fun a => f a - g a) L + sumOver g L = sumOver f L := by
  induction L with
  | nil => rfl
  | cons a rest ih =>
    simp only [sumOver]
    have := hle a
    omega

/-- the ledger list may be assumed to contain a given address -/
theorem vv_lp_exact_with {T0 : Nat} {s : State} {r : Nat} (h : WF2 T0 s r) (hd : AllDone s)
    (a : Nat) :
    ∃ L : List Nat, a ∈ L ∧ L.Nodup ∧ (∀ x, x ∉ L → s.userTotal x = 0 ∧ s.userClaimed x = 0) ∧
      s.bal (.esdt s.lpTok) 0 = ownSurplus s + s.perTicket * s.nrWinning
        + sumOver (fun x => s.userTotal x - s.userClaimed x) L := by
  have hp := h.lp.post hd.2
  obtain ⟨L, haL, hnd, hout, hAB⟩ := v2_LPost_with hp a
  have hgap := vv_sumOver_sub (f := s.userTotal) (g := s.userClaimed) hp.le L
  refine ⟨L, haL, hnd, hout, ?_⟩
  unfold ownSurplus
  rcases hAB with ⟨a1, W, w1, w2, w3⟩ | ⟨b1, _, b3⟩
  · have a1' : s.bal (.esdt s.lpTok) 0 + sumOver s.userClaimed L = s.totalDeposited := a1
    have w1' : s.claimablePayment = s.price * W := w1
    have w2' : W * s.perTicket = s.perTicket * s.nrWinning + sumOver s.userTotal L := w2
    have w3' : W * s.perTicket ≤ s.totalDeposited := w3
    have hdiv : s.claimablePayment / s.price = W := by
      rw [w1']; exact Nat.mul_div_cancel_left W h.pricePos
    rw [hdiv]
    split <;> omega
  · have b1' : s.totalDeposited = 0 := b1
    have b3' : s.bal (.esdt s.lpTok) 0 + sumOver s.userClaimed L
        = s.perTicket * s.nrWinning + sumOver s.userTotal L := b3
    rw [if_pos b1']
    omega

theorem vv_lp_exact {T0 : Nat} {s : State} {r : Nat} (h : WF2 T0 s r) (hd : AllDone s) :
    ∃ L : List Nat, L.Nodup ∧ (∀ x, x ∉ L → s.userTotal x = 0 ∧ s.userClaimed x = 0) ∧
      s.bal (.esdt s.lpTok) 0 = ownSurplus s + s.perTicket * s.nrWinning
        + sumOver (fun x => s.userTotal x - s.userClaimed x) L := by
  obtain ⟨L, _, h2, h3, h4⟩ := vv_lp_exact_with h hd 0
  exact ⟨L, h2, h3, h4⟩

end LP

#print axioms LP.vv_later_frozen
#print axioms LP.vv_later_settled
#print axioms LP.vv_Later_run
#print axioms LP.vv_lp_exact
