import LP.Proofs.ZeroAlloc2
import LP.Proofs.Once
import LP.Props.C10frame
import LP.Proofs.AllocReach
/-
  LP.Proofs.ZeroAlloc3 — zero-size allocations, part 3: the filter loop on the erased maps, the
  reachable states without the `CallOK` restriction (`ReachZ`) and the simulation theorem
  `z_sim`: every `ReachZ` state of a plain launchpad is `ZSim`-related to a `Reach` state of the
  original development.
-/
namespace LP
open LP.FY

/-! ### the filter loop -/

def z_ef (f : FilSt) : FilSt := ⟨z_eraseR f.range, z_eraseB f.batch, f.first, f.removed⟩

/-- one iteration of the filter commutes with the erasure whenever the batch it reads (if any) is
    a real one -/
theorem z_filterBody (conf : Nat → Nat) (last : Nat) (f : FilSt)
    (hP : f.first ≠ last + 1 → ∃ b, z_eraseB f.batch f.first = some b) :
    filterBody conf last (z_ef f) = mapR (fst1 z_ef) (filterBody conf last f) := by
  unfold filterBody
  show (if f.first = last + 1 then _ else _) = _
  by_cases h1 : f.first = last + 1
  · rw [if_pos h1, if_pos h1]; rfl
  · rw [if_neg h1, if_neg h1]
    obtain ⟨b, hb⟩ := hP h1
    obtain ⟨hb1, hb2⟩ := z_eraseB_some.mp hb
    have hbz : (z_ef f).batch (z_ef f).first = some b := hb
    rw [hbz, hb1]
    simp only
    by_cases hle : conf b.addr ≤ b.n
    · simp only [csub, hle, if_true]
      by_cases h0 : conf b.addr = 0
      · simp only [h0, if_true, mapR_ok, fst1_mk]
        unfold z_ef
        simp only [z_eraseR_upd_none, z_eraseB_upd_none]
      · simp only [h0, if_false]
        by_cases h2 : f.removed > 0 ∨ conf b.addr < b.n
        · have h2' : (z_ef f).removed > 0 ∨ conf b.addr < b.n := h2
          rw [if_pos h2, if_pos h2']
          by_cases h3 : f.removed ≤ f.first
          · have h3' : (z_ef f).removed ≤ (z_ef f).first := h3
            simp only [h3, h3', if_true, mapR_ok, fst1_mk]
            unfold z_ef
            simp only
            rw [z_eraseR_upd_ne _ _ _ (by show f.first - f.removed ≤ f.first - f.removed + conf b.addr - 1; omega),
              z_eraseB_upd_pos _ _ _ (by show conf b.addr ≠ 0; exact h0), z_eraseB_upd_none]
          · have h3' : ¬ (z_ef f).removed ≤ (z_ef f).first := h3
            simp only [h3, h3', if_false]; rfl
        · have h2' : ¬ ((z_ef f).removed > 0 ∨ conf b.addr < b.n) := h2
          rw [if_neg h2, if_neg h2']
          rfl
    · simp only [csub, hle, if_false]; rfl

/-- `runWhile` commutes with a state map along an invariant under which the body commutes -/
theorem z_runWhile_commutes {σ : Type} (φ : σ → σ) (body : σ → Res (σ × Bool)) (P : σ → Prop)
    (hb : ∀ x, P x → body (φ x) = mapR (fst1 φ) (body x))
    (hP : ∀ x x', P x → body x = .ok (x', true) → P x') :
    ∀ (fuel : Nat) (bud : Option Nat) (x : σ), P x →
      runWhile body fuel bud (φ x) = mapR (fst1 φ) (runWhile body fuel bud x) := by
  intro fuel
  induction fuel with
  | zero => intro bud x _; rfl
  | succ n ih =>
    intro bud x hx
    cases hbx : body x with
    | error err =>
      have h2 : body (φ x) = .error err := by rw [hb x hx, hbx]; rfl
      rw [runWhile_err hbx, runWhile_err h2]; rfl
    | ok r =>
      obtain ⟨x1, c⟩ := r
      have h2 : body (φ x) = .ok (φ x1, c) := by rw [hb x hx, hbx]; rfl
      cases c
      · rw [runWhile_stop hbx, runWhile_stop h2]; rfl
      · have hx1 := hP x x1 hx hbx
        cases bud with
        | none => rw [runWhile_cont_none hbx, runWhile_cont_none h2]; exact ih _ _ hx1
        | some k =>
          cases k with
          | zero => rw [runWhile_cont_zero hbx, runWhile_cont_zero h2]; rfl
          | succ k => rw [runWhile_cont_succ hbx, runWhile_cont_succ h2]; exact ih _ _ hx1

/-- under the loop invariant of the original development (on the erased maps) the batch read by
    the next iteration is a real one -/
theorem z_Mid_reads {conf : Nat → Nat} {last : Nat} {L0 : List (Nat × Nat)} {y : FilSt}
    (hm : Mid conf last L0 (z_ef y)) (h1 : y.first ≠ last + 1) :
    ∃ b, z_eraseB y.batch y.first = some b := by
  obtain ⟨P, S, _, _, hcS, _, _, hlast, _, _⟩ := hm
  cases S with
  | nil =>
    simp only [ticketTotal, Nat.add_zero] at hlast
    exact absurd hlast h1
  | cons p S' => exact ⟨_, hcS.1⟩

theorem z_filter_loop {conf : Nat → Nat} {last : Nat} {L0 : List (Nat × Nat)} (hok : AllocOK conf L0)
    (fuel : Nat) (bud : Option Nat) (x : FilSt) (hm : Mid conf last L0 (z_ef x)) :
    runWhile (filterBody conf last) fuel bud (z_ef x)
      = mapR (fst1 z_ef) (runWhile (filterBody conf last) fuel bud x) := by
  refine z_runWhile_commutes z_ef (filterBody conf last) (fun y => Mid conf last L0 (z_ef y))
    (fun y hy => z_filterBody conf last y (z_Mid_reads hy)) ?_ fuel bud x hm
  intro y y' hy hby
  have h2 : filterBody conf last (z_ef y) = .ok (z_ef y', true) := by
    rw [z_filterBody conf last y (z_Mid_reads hy), hby]; rfl
  exact rb_filterBody_Mid hok h2 hy

theorem z_filStOf {s : State} {x : FilSt} (K C : Nat → Bool) (h : filStOf s = some x) :
    filStOf (z_w s (z_eraseR s.range) (z_eraseB s.batch) K C) = some (z_ef x) := by
  unfold filStOf at h ⊢
  show (match s.op with | .none => _ | .filter f r => _ | _ => _) = _
  cases hop : s.op <;> rw [hop] at h <;> simp only at h ⊢
  · injection h with h; subst h; rfl
  · injection h with h; subst h; rfl
  · cases h
  · cases h

/-- **the body of `filter`**: the same call on the erased state gives the erased result -/
theorem z_filterTickets {t t' : Tx} {e : Env} {L0 : List (Nat × Nat)} (K C : Nat → Bool)
    (h : filterTickets t e = .ok t') (hok : AllocOK t.s.confirmed L0)
    (hmid : ∀ x, filStOf t.s = some x → Mid t.s.confirmed t.s.lastTicketId L0 (z_ef x)) :
    filterTickets (z_wt t (z_eraseR t.s.range) (z_eraseB t.s.batch) K C) e
      = .ok (z_wt t' (z_eraseR t'.s.range) (z_eraseB t'.s.batch) K C) := by
  obtain ⟨hpre, x, hxs⟩ := filterTickets_inv t t' e h
  have hpre' : FilterPre (z_wt t (z_eraseR t.s.range) (z_eraseB t.s.batch) K C).s e :=
    ⟨hpre.notPaused, hpre.stage, hpre.notFiltered⟩
  have hxs' : filStOf (z_wt t (z_eraseR t.s.range) (z_eraseB t.s.batch) K C).s = some (z_ef x) :=
    z_filStOf K C hxs
  have hloop := z_filter_loop hok (t.s.lastTicketId + 2) t.c.budget x (hmid x hxs)
  cases hrun : runWhile (filterBody t.s.confirmed t.s.lastTicketId) (t.s.lastTicketId + 2)
      t.c.budget x with
  | error err =>
    have := filterTickets_error t e x err hpre hxs hrun
    rw [this] at h; cases h
  | ok q =>
    obtain ⟨f, b, st⟩ := q
    rw [hrun] at hloop
    have hrun' : runWhile (filterBody (z_wt t (z_eraseR t.s.range) (z_eraseB t.s.batch) K C).s.confirmed
        (z_wt t (z_eraseR t.s.range) (z_eraseB t.s.batch) K C).s.lastTicketId)
        ((z_wt t (z_eraseR t.s.range) (z_eraseB t.s.batch) K C).s.lastTicketId + 2)
        (z_wt t (z_eraseR t.s.range) (z_eraseB t.s.batch) K C).c.budget (z_ef x) = .ok (z_ef f, b, st) := hloop
    cases st with
    | outOfFuel =>
      have := filterTickets_outOfFuel t e x f b hpre hxs hrun
      rw [this] at h; cases h
    | interrupted =>
      have h1 := filterTickets_interrupted t e x f b hpre hxs hrun
      rw [h1] at h
      injection h with h
      subst h
      rw [filterTickets_interrupted _ e (z_ef x) (z_ef f) b hpre' hxs' hrun']
      rfl
    | completed =>
      by_cases hle : f.removed ≤ t.s.lastTicketId
      · have h1 := filterTickets_completed t e x f b hpre hxs hrun hle
        rw [h1] at h
        injection h with h
        subst h
        rw [filterTickets_completed _ e (z_ef x) (z_ef f) b hpre' hxs' hrun' hle]
        rfl
      · obtain ⟨err, this⟩ := filterTickets_underflow t e x f b hpre hxs hrun hle
        rw [this] at h; cases h

/-! ### reachable states without the restriction `CallOK` -/

/-- states reachable from a deployment with arguments `a0` by ANY accepted calls (no `CallOK`:
    `addTickets` entries may have zero tickets) -/
inductive ReachZA (hash : List Nat → List Nat) (v : Variant) (a0 : InitArgs) : State → Nat → Prop
  | init (e : Env) (s : State) : init v a0 e = .ok s → ReachZA hash v a0 s e.round
  | call (s : State) (r : Nat) (e : Env) (c : Call) (s' : State) (o : Out) :
      ReachZA hash v a0 s r → r ≤ e.round → EnvOK e →
      step hash s e c = .ok (s', o) → ReachZA hash v a0 s' e.round
  | wait (s : State) (r r' : Nat) : ReachZA hash v a0 s r → r ≤ r' → ReachZA hash v a0 s r'

/-- `Reach` without the `CallOK` premise -/
inductive ReachZ (hash : List Nat → List Nat) (v : Variant) : State → Nat → Prop
  | init (a : InitArgs) (e : Env) (s : State) : init v a e = .ok s → ReachZ hash v s e.round
  | call (s : State) (r : Nat) (e : Env) (c : Call) (s' : State) (o : Out) :
      ReachZ hash v s r → r ≤ e.round → EnvOK e →
      step hash s e c = .ok (s', o) → ReachZ hash v s' e.round
  | wait (s : State) (r r' : Nat) : ReachZ hash v s r → r ≤ r' → ReachZ hash v s r'

theorem ReachZ_iff {hash : List Nat → List Nat} {v : Variant} {s : State} {r : Nat} :
    ReachZ hash v s r ↔ ∃ a0, ReachZA hash v a0 s r := by
  constructor
  · intro h
    induction h with
    | init a e s h => exact ⟨a, .init e s h⟩
    | call s r e c s' o _ h1 h2 h3 ih =>
      obtain ⟨a0, ih⟩ := ih
      exact ⟨a0, .call s r e c s' o ih h1 h2 h3⟩
    | wait s r r' _ h1 ih =>
      obtain ⟨a0, ih⟩ := ih
      exact ⟨a0, .wait s r r' ih h1⟩
  · rintro ⟨a0, h⟩
    induction h with
    | init e s h => exact .init a0 e s h
    | call s r e c s' o _ h1 h2 h3 ih => exact .call s r e c s' o ih h1 h2 h3
    | wait s r r' _ h1 ih => exact .wait s r r' ih h1

/-- every state of the original development is a `ReachZ` state -/
theorem ReachA.toZ {hash : List Nat → List Nat} {v : Variant} {a0 : InitArgs} {s : State} {r : Nat}
    (h : ReachA hash v a0 s r) : ReachZA hash v a0 s r := by
  induction h with
  | init e s h => exact .init e s h
  | call s r e c s' o _ h1 h2 _ h4 ih => exact .call s r e c s' o ih h1 h2 h4
  | wait s r r' _ h1 ih => exact .wait s r r' ih h1

theorem Reach.toZ {hash : List Nat → List Nat} {v : Variant} {s : State} {r : Nat}
    (h : Reach hash v s r) : ReachZ hash v s r := by
  obtain ⟨a0, h⟩ := Reach_iff.mp h
  exact ReachZ_iff.mpr ⟨a0, h.toZ⟩

/-! ### small frames -/

theorem z_indep_CallOK {c : Call} (h : z_indep c = true) : CallOK c := by
  cases c <;> first | trivial | (simp [z_indep] at h)

theorem z_step_tk {hash : List Nat → List Nat} {s s' : State} {e : Env} {c : Call} {o : Out}
    (h : step hash s e c = .ok (s', o)) (hc : c ≠ .claim) (hf : c ≠ .filter)
    (ha : ∀ l, c ≠ .addTickets l) (ha1 : ∀ l, c ≠ .addTicketsV1 l) (ha2 : ∀ l, c ≠ .addTicketsV2 l) :
    s'.tk = s.tk := by
  obtain ⟨m, t, _, _, _, hx, rfl, _⟩ := step_ok_inv h
  exact exec_tk_eq hc hf ha ha1 ha2 hx

theorem z_started_back {hash : List Nat → List Nat} {s s' : State} {e : Env} {c : Call} {o : Out}
    (h : step hash s e c = .ok (s', o)) (hs' : s'.flags.started = false) : s.flags.started = false := by
  cases hst : s.flags.started with
  | false => rfl
  | true => have := (step_flags_gain4 h).1 hst; rw [this] at hs'; cases hs'

theorem z_filtered_back {hash : List Nat → List Nat} {s s' : State} {e : Env} {c : Call} {o : Out}
    (h : step hash s e c = .ok (s', o)) (hs' : s'.flags.filtered = false) : s.flags.filtered = false := by
  cases hst : s.flags.filtered with
  | false => rfl
  | true => have := (step_flags_gain4 h).2.1 hst; rw [this] at hs'; cases hs'

theorem z_Hd_keep {hash : List Nat → List Nat} {s s' : State} {e : Env} {c : Call} {o : Out}
    (h : step hash s e c = .ok (s', o)) (htk : s'.tk = s.tk)
    (hd : s.flags.started = false → z_Hd s) : s'.flags.started = false → z_Hd s' := by
  intro hs'
  have := hd (z_started_back h hs')
  intro i b hi hb
  rw [tk_last htk] at hi
  rw [tk_batch htk] at hb
  exact this i b hi hb

/-! ### the simulation, endpoint by endpoint -/

/-- the endpoints that do not touch the four fields -/
theorem z_sim_indep {hash : List Nat → List Nat} {v : Variant} {a0 : InitArgs} {s z : State} {r : Nat}
    {e : Env} {c : Call} {s' : State} {o : Out} (hv : Plain v) (hc : z_indep c = true)
    (hz : ReachA hash v a0 z r) (hsim : ZSim s z) (hd : s.flags.started = false → z_Hd s)
    (hr : r ≤ e.round) (hok : EnvOK e) (hs : step hash s e c = .ok (s', o)) :
    ∃ z', ReachA hash v a0 z' e.round ∧ ZSim s' z' ∧ (s'.flags.started = false → z_Hd s') ∧
      step hash z e c = .ok (z', o) := by
  have hwf := reach_WF hv hz
  have hvar : s.variant = z.variant := (congrArg State.variant hsim.rest).symm
  obtain ⟨f1, f2, _⟩ := z_plain_flags (hvar ▸ hwf.var)
  obtain ⟨g1, g2, g3, g4⟩ := z_step_indep_frame hc f1 f2 hs
  have hstep : step hash z e c = .ok (z_w s' z.range z.batch z.blacklist z.claimed, o) := by
    have := z_step_indep (R := z.range) (B := z.batch) (K := z.blacklist) (C := z.claimed) hc f1 f2 hs
    rw [← hsim.rest] at this
    exact this
  refine ⟨_, .call z r e c _ o hz hr hok (z_indep_CallOK hc) hstep, ⟨rfl, ?_, ?_, ?_, ?_⟩, ?_, hstep⟩
  · show z.range = z_eraseR s'.range
    rw [g1]; exact hsim.range
  · intro hf
    show z.batch = z_eraseB s'.batch
    rw [g2]; exact hsim.batch (z_filtered_back hs hf)
  · intro a ha; rw [g3]; exact hsim.bl a ha
  · intro a ha; rw [g4]; exact hsim.cl a ha
  · refine z_Hd_keep hs (z_step_tk hs ?_ ?_ ?_ ?_ ?_) hd <;>
      (first | (intro h; subst h; simp [z_indep] at hc) | (intro l h; subst h; simp [z_indep] at hc))

/-- `z` as an overwriting of `s` -/
theorem ZSim.shape {s z : State} (h : ZSim s z) :
    ∃ B K C, z = z_w s (z_eraseR s.range) B K C ∧ B = z.batch ∧ K = z.blacklist ∧ C = z.claimed :=
  ⟨_, _, _, h.eq, rfl, rfl, rfl⟩

theorem ZSim.fields {s z : State} (h : ZSim s z) :
    z.cfg = s.cfg ∧ z.flags = s.flags ∧ z.variant = s.variant ∧ z.owner = s.owner ∧
    z.confirmed = s.confirmed ∧ z.op = s.op ∧ z.lastTicketId = s.lastTicketId := by
  have := h.rest
  refine ⟨?_, ?_, ?_, ?_, ?_, ?_, ?_⟩
  · have := congrArg State.cfg this; exact this
  · have := congrArg State.flags this; exact this
  · have := congrArg State.variant this; exact this
  · have := congrArg State.owner this; exact this
  · have := congrArg State.confirmed this; exact this
  · have := congrArg State.op this; exact this
  · have := congrArg State.lastTicketId this; exact this

/-- `addTickets l`, matched by `addTickets (l without the zero-size entries)` -/
theorem z_sim_add {hash : List Nat → List Nat} {v : Variant} {a0 : InitArgs} {s z : State} {r : Nat}
    {e : Env} {l : List (Nat × Nat)} {s' : State} {o : Out} (hv : Plain v)
    (hz : ReachA hash v a0 z r) (hsim : ZSim s z) (hd : s.flags.started = false → z_Hd s)
    (hr : r ≤ e.round) (hok : EnvOK e) (hs : step hash s e (.addTickets l) = .ok (s', o)) :
    ∃ z', ReachA hash v a0 z' e.round ∧ ZSim s' z' ∧ (s'.flags.started = false → z_Hd s') ∧
      step hash z e (.addTickets (l.filter (fun p => decide (1 ≤ p.2)))) = .ok (z', o) := by
  have hwf := reach_WF hv hz
  obtain ⟨m, t, hm, hpay, hown, hx, rfl, rfl⟩ := step_ok_inv hs
  have hx0 := hx
  simp only [exec, bind_ok_iff, requireStage, req_ok_iff, exists_const] at hx0
  have hst : s.stage e = .addTickets := by simpa [tx0] using hx0.1
  have hlt : e.round < s.cfg.conf := rb_stage_addTickets hst
  have hcfg : z.cfg = s.cfg := by have := congrArg State.cfg hsim.rest; exact this
  have hfl : z.flags = s.flags := by have := congrArg State.flags hsim.rest; exact this
  have hvz : z.variant = s.variant := by have := congrArg State.variant hsim.rest; exact this
  have hoz : z.owner = s.owner := by have := congrArg State.owner hsim.rest; exact this
  have hns : z.flags.started = false := rb_notStarted_of_lt hwf hr (Or.inl (by rw [hcfg]; exact hlt))
  obtain ⟨L0, hp, _⟩ := rb_phase_notStarted hwf.phase hns
  have hnf : s.flags.filtered = false := by rw [← hfl]; exact hp.notFiltered
  have hds : z_Hd (tx0 s e).s := hd (by rw [← hfl]; exact hns)
  obtain ⟨k1, k2, k3, k4, k5, k6⟩ := z_exec_addTickets z.blacklist z.claimed hx hds
  have hzeq : z = z_w s (z_eraseR s.range) (z_eraseB s.batch) z.blacklist z.claimed := by
    have := hsim.eq
    rw [hsim.batch hnf] at this
    exact this
  have htx : tx0 z e = z_wt (tx0 s e) (z_eraseR (tx0 s e).s.range) (z_eraseB (tx0 s e).s.batch)
      z.blacklist z.claimed := by
    conv => lhs; rw [hzeq]
    rfl
  have hmz : endpointMeta z.variant (.addTickets (l.filter (fun p => decide (1 ≤ p.2)))) = some m := by
    rw [← hm, hvz]; rfl
  have hstep := z_step_intro hmz hpay (by rw [hoz]; exact hown) (by rw [htx]; exact k1)
  refine ⟨_, .call z r e _ _ _ hz hr hok ?_ hstep, ⟨rfl, rfl, fun _ => rfl, ?_, ?_⟩, ?_, ?_⟩
  · intro p hp
    exact of_decide_eq_true (List.mem_filter.mp hp).2
  · intro a ha
    show t.s.blacklist a = true
    rw [k3]; exact hsim.bl a ha
  · intro a ha
    show t.s.claimed a = true
    rw [k4]; exact hsim.cl a ha
  · intro _; exact k2
  · exact hstep

/-- `confirm n` (the caller's range is not empty, or it has none and `n = 0`) -/
theorem z_sim_confirm {hash : List Nat → List Nat} {v : Variant} {a0 : InitArgs} {s z : State} {r : Nat}
    {e : Env} {n : Nat} {s' : State} {o : Out} (_hv : Plain v)
    (hz : ReachA hash v a0 z r) (hsim : ZSim s z) (hd : s.flags.started = false → z_Hd s)
    (hr : r ≤ e.round) (hok : EnvOK e) (hs : step hash s e (.confirm n) = .ok (s', o)) :
    ∃ z', ReachA hash v a0 z' e.round ∧ ZSim s' z' ∧ (s'.flags.started = false → z_Hd s') ∧
      step hash z e (.confirm n) = .ok (z', o) := by
  have htk := z_step_tk hs (by simp) (by simp) (by simp) (by simp) (by simp)
  have hd' := z_Hd_keep hs htk hd
  have hfb := z_filtered_back hs
  obtain ⟨m, t, hm, hpay, hown, hx, rfl, rfl⟩ := step_ok_inv hs
  obtain ⟨_, _, hvz, hoz, _, _, _⟩ := hsim.fields
  obtain ⟨k1, k2, k3, k4, k5, k6, k7⟩ := z_exec_confirm z.batch z.blacklist z.claimed hx
    (fun hk => hsim.bl _ hk)
  have htx : tx0 z e = z_wt (tx0 s e) (z_eraseR (tx0 s e).s.range) z.batch z.blacklist z.claimed := by
    conv => lhs; rw [hsim.eq]
    rfl
  have hmz : endpointMeta z.variant (.confirm n) = some m := by rw [← hm, hvz]
  have hstep := z_step_intro hmz hpay (by rw [hoz]; exact hown) (by rw [htx]; exact k1)
  refine ⟨_, .call z r e (.confirm n) _ _ hz hr hok trivial hstep, ⟨rfl, ?_, ?_, ?_, ?_⟩, hd', hstep⟩
  · show z_eraseR (tx0 s e).s.range = z_eraseR t.s.range
    rw [k2]
  · intro hf
    show z.batch = z_eraseB t.s.batch
    rw [k3]; exact hsim.batch (hfb hf)
  · intro a ha
    show t.s.blacklist a = true
    rw [k4]; exact hsim.bl a ha
  · intro a ha
    show t.s.claimed a = true
    rw [k5]; exact hsim.cl a ha

/-- before the filter starts, an address without a (non-empty) range has nothing confirmed -/
theorem z_noRange_noConf {T0 : Nat} {z : State} {r : Nat} (hwf : WF T0 z r)
    (hns : z.flags.started = false) {a : Nat} (ha : z.range a = none) : z.confirmed a = 0 := by
  obtain ⟨L0, hp, hA⟩ := rb_phase_notStarted hwf.phase hns
  by_cases hin : a ∈ L0.map Prod.fst
  · obtain ⟨rr, hrr⟩ := rb_Chain_range_some hA.chain hin
    have hrr' : z.range a = some rr := hrr
    rw [ha] at hrr'; cases hrr'
  · exact hp.outC a hin

/-- `blacklist l`, matched by `blacklist (l without the addresses whose range is empty)` -/
theorem z_sim_blacklist {hash : List Nat → List Nat} {v : Variant} {a0 : InitArgs} {s z : State} {r : Nat}
    {e : Env} {l : List Nat} {s' : State} {o : Out} (hv : Plain v)
    (hz : ReachA hash v a0 z r) (hsim : ZSim s z) (hd : s.flags.started = false → z_Hd s)
    (hr : r ≤ e.round) (hok : EnvOK e) (hs : step hash s e (.blacklist l) = .ok (s', o)) :
    ∃ z', ReachA hash v a0 z' e.round ∧ ZSim s' z' ∧ (s'.flags.started = false → z_Hd s') ∧
      step hash z e (.blacklist (l.filter (fun a => (z_eraseR s.range a).isSome))) = .ok (z', o) := by
  have hwf := reach_WF hv hz
  have htk := z_step_tk hs (by simp) (by simp) (by simp) (by simp) (by simp)
  have hd' := z_Hd_keep hs htk hd
  have hfb := z_filtered_back hs
  have hcl := (LP.Props.C09.step_claimed_exact hash s e _ s' o hs).1 (by simp)
  obtain ⟨m, t, hm, hpay, hown, hx, rfl, rfl⟩ := step_ok_inv hs
  obtain ⟨hcfg, hfl, hvz, hoz, hcf, _, _⟩ := hsim.fields
  -- the stage
  have hx0 := hx
  simp only [exec, bind_ok_iff] at hx0
  obtain ⟨t1, h1, _⟩ := hx0
  unfold addUsersToBlacklist at h1
  simp only [bind_ok_iff, req_ok_iff, exists_const] at h1
  obtain ⟨_, _, hstage, _⟩ := h1
  have hstage' : stageLt s e .winnerSelection = true := hstage
  have hns : z.flags.started = false := by
    cases hst : s.stage e with
    | addTickets =>
      exact rb_notStarted_of_lt hwf hr (Or.inl (by rw [hcfg]; exact rb_stage_addTickets hst))
    | confirm =>
      exact rb_notStarted_of_lt hwf hr (Or.inr (by rw [hcfg]; exact (rb_stage_confirm hst).2))
    | winnerSelection => simp [stageLt, hst, Stage.toNat] at hstage'
    | claim => simp [stageLt, hst, Stage.toNat] at hstage'
  have hc : ∀ a ∈ l, z_eraseR (tx0 s e).s.range a = none → (tx0 s e).s.confirmed a = 0 := by
    intro a _ hnone
    have h1 : z.range a = none := by rw [hsim.range]; exact hnone
    have := z_noRange_noConf hwf hns h1
    rw [hcf] at this
    exact this
  have hpl : Plain (tx0 s e).s.variant := by
    show Plain s.variant
    rw [← hvz]; exact hwf.var
  obtain ⟨K', k1, k2⟩ := z_exec_blacklist z.batch z.blacklist z.claimed hpl hx (fun a ha => hsim.bl a ha) hc
  have htx : tx0 z e = z_wt (tx0 s e) (z_eraseR (tx0 s e).s.range) z.batch z.blacklist z.claimed := by
    conv => lhs; rw [hsim.eq]
    rfl
  have hmz : endpointMeta z.variant
      (.blacklist (l.filter (fun a => (z_eraseR s.range a).isSome))) = some m := by
    rw [← hm, hvz]; rfl
  have hstep := z_step_intro hmz hpay (by rw [hoz]; exact hown) (by rw [htx]; exact k1)
  refine ⟨_, .call z r e (.blacklist _) _ _ hz hr hok trivial hstep, ⟨rfl, ?_, ?_, k2, ?_⟩, hd', hstep⟩
  · show z_eraseR (tx0 s e).s.range = z_eraseR t.s.range
    rw [tk_range htk]; rfl
  · intro hf
    show z.batch = z_eraseB t.s.batch
    rw [tk_batch htk]; exact hsim.batch (hfb hf)
  · intro a ha
    show t.s.claimed a = true
    rw [hcl]; exact hsim.cl a ha

/-- `filter` (interrupted or completed, fresh or resumed): the same call on the erased state -/
theorem z_sim_filter {hash : List Nat → List Nat} {v : Variant} {a0 : InitArgs} {s z : State} {r : Nat}
    {e : Env} {s' : State} {o : Out} (hv : Plain v)
    (hz : ReachA hash v a0 z r) (hsim : ZSim s z)
    (hr : r ≤ e.round) (hok : EnvOK e) (hs : step hash s e .filter = .ok (s', o)) :
    ∃ z', ReachA hash v a0 z' e.round ∧ ZSim s' z' ∧ (s'.flags.started = false → z_Hd s') ∧
      step hash z e .filter = .ok (z', o) := by
  have hwf := reach_WF hv hz
  have hcl := (LP.Props.C09.step_claimed_exact hash s e _ s' o hs).1 (by simp)
  have hbl := LP.Props.C10frame.blacklist_frame hash s s' e _ o hs (by simp) (by simp) (by simp)
  obtain ⟨m, t, hm, hpay, hown, hx, rfl, rfl⟩ := step_ok_inv hs
  obtain ⟨hcfg, hfl, hvz, hoz, hcf, hop, hlast⟩ := hsim.fields
  simp only [exec] at hx
  obtain ⟨hpre, _⟩ := filterTickets_inv _ _ _ hx
  have hnf : s.flags.filtered = false := hpre.notFiltered
  obtain ⟨L0, hp, hab⟩ := rb_phase_notFiltered hwf.phase (by show z.flags.filtered = false; rw [hfl]; exact hnf)
  have hzb : z.batch = z_eraseB s.batch := hsim.batch hnf
  have hokA : AllocOK (tx0 s e).s.confirmed L0 := by
    have : AllocOK z.confirmed L0 := hp.ok
    rw [hcf] at this; exact this
  have hmid : ∀ x, filStOf (tx0 s e).s = some x →
      Mid (tx0 s e).s.confirmed (tx0 s e).s.lastTicketId L0 (z_ef x) := by
    intro x hxs
    have hxs' : filStOf s = some x := hxs
    show Mid s.confirmed s.lastTicketId L0 (z_ef x)
    rw [← hcf, ← hlast]
    rcases hab with ha | hb
    · have hop' : s.op = .none := by rw [← hop]; exact ha.op
      simp only [filStOf, hop', Option.some.injEq] at hxs'
      subst hxs'
      have hl : z.lastTicketId = ticketTotal L0 := ha.last
      rw [hl]
      have := rb_Mid_start (conf := z.confirmed) ha.chain hp.outR
      have e1 : z.core.range = z_eraseR s.range := hsim.range
      have e2 : z.core.batch = z_eraseB s.batch := hzb
      rw [e1, e2] at this
      exact this
    · obtain ⟨f0, rm, hop0, hm0⟩ := hb.mid
      have hop' : s.op = .filter f0 rm := by rw [← hop]; exact hop0
      simp only [filStOf, hop', Option.some.injEq] at hxs'
      subst hxs'
      have e1 : z.core.range = z_eraseR s.range := hsim.range
      have e2 : z.core.batch = z_eraseB s.batch := hzb
      rw [e1, e2] at hm0
      exact hm0
  have k1 := z_filterTickets z.blacklist z.claimed hx hokA hmid
  have htx : tx0 z e = z_wt (tx0 s e) (z_eraseR (tx0 s e).s.range) (z_eraseB (tx0 s e).s.batch)
      z.blacklist z.claimed := by
    have := hsim.eq
    rw [hzb] at this
    conv => lhs; rw [this]
    rfl
  have hmz : endpointMeta z.variant .filter = some m := by rw [← hm, hvz]
  have hstep := z_step_intro (hash := hash) hmz hpay (by rw [hoz]; exact hown)
    (by rw [htx]; simp only [exec]; exact k1)
  have hreach : ReachA hash v a0 _ e.round := .call z r e .filter _ _ hz hr hok trivial hstep
  refine ⟨_, hreach, ⟨rfl, rfl, fun _ => rfl, ?_, ?_⟩, ?_, hstep⟩
  · intro a ha
    show t.s.blacklist a = true
    rw [hbl]; exact hsim.bl a ha
  · intro a ha
    show t.s.claimed a = true
    rw [hcl]; exact hsim.cl a ha
  · intro hst
    exfalso
    -- after a filter call the operation is saved or the flag is set: not phase A
    have hwf' := reach_WF hv hreach
    obtain ⟨L1, hp1, hA1⟩ := rb_phase_notStarted hwf'.phase hst
    obtain ⟨_, _, _, _, hcase⟩ := LP.Events.filterTickets_out hx
    rcases hcase with ⟨_, _, hf, _⟩ | ⟨_, _, _, _, f1, r1, hop1⟩
    · have : t.s.flags.filtered = false := hp1.notFiltered
      rw [hf] at this; cases this
    · have : t.s.op = .none := hA1.op
      rw [hop1] at this; cases this

/-- `claim`: by an address with a non-empty range it is matched by the same claim; by an address
    with an empty range it is matched by NO step (the erased state does not move) -/
theorem z_sim_claim {hash : List Nat → List Nat} {v : Variant} {a0 : InitArgs} {s z : State} {r : Nat}
    {e : Env} {s' : State} {o : Out} (hv : Plain v)
    (hz : ReachA hash v a0 z r) (hsim : ZSim s z)
    (hr : r ≤ e.round) (hok : EnvOK e) (hs : step hash s e .claim = .ok (s', o)) :
    ∃ z', ReachA hash v a0 z' e.round ∧ ZSim s' z' ∧ (s'.flags.started = false → z_Hd s') ∧
      (step hash z e .claim = .ok (z', o) ∨
        (z' = z ∧ ∃ rg, s.range e.caller = some rg ∧ rg.last < rg.first ∧
          s' = z_w s (upd s.range e.caller none) (upd s.batch rg.first none) s.blacklist
                (upd s.claimed e.caller true))) := by
  have hwf := reach_WF hv hz
  have hBz : pl_Base z := (pl_reachA hv hz).base
  obtain ⟨hcfg, hfl, hvz, hoz, hcf, hop, hlast⟩ := hsim.fields
  have hBs : pl_Base s := by
    have h := hsim.rest
    rw [h] at hBz
    exact ⟨hBz.var, hBz.tokNe, hBz.perPos, hBz.pct⟩
  obtain ⟨rg, hacc, hs'eq⟩ := pl_claim_state hBs hs
  obtain ⟨he1, he2, hst, hncl, hrg, _⟩ := hacc
  have hsel : z.flags.selected = true := by rw [hfl]; exact (rb_stage_claim hst).1
  have hD := rb_phase_D hwf.phase hsel
  have hfil : s.flags.filtered = true := by rw [← hfl]; exact hD.filtered
  have hsta : s.flags.started = true := by rw [← hfl]; exact hD.started
  obtain ⟨f1, f2, _⟩ := z_plain_flags hBs.var
  by_cases hne : rg.first ≤ rg.last
  · -- a real participant
    have hs2 := hs
    rw [LP.Props.C09.step_claim_ok_iff] at hs2
    obtain ⟨_, _, t, hx, rfl, rfl⟩ := hs2
    rw [exec_claim_nonvested hash _ e (by exact f1)] at hx
    have hR : z.range e.caller = some rg := by rw [hsim.range]; exact z_eraseR_of_ne hrg hne
    have hC : z.claimed e.caller = (LP.Props.C09.txc s e).s.claimed e.caller := by
      show z.claimed e.caller = s.claimed e.caller
      rw [hncl]
      cases hk : z.claimed e.caller with
      | false => rfl
      | true => rw [hsim.cl _ hk] at hncl; cases hncl
    have k1 := z_claimBase (R := z.range) (B := z.batch) (K := z.blacklist) (C := z.claimed)
      (by exact f2) hx (by exact hrg) hR hC
    have htx : LP.Props.C09.txc z e
        = z_wt (LP.Props.C09.txc s e) z.range z.batch z.blacklist z.claimed := by
      conv => lhs; rw [hsim.rest]
      rfl
    have hstep : step hash z e .claim
        = .ok ((z_wt t (upd z.range e.caller none) (upd z.batch rg.first none) z.blacklist
            (upd z.claimed e.caller true)).s, t.o) := by
      rw [LP.Props.C09.step_claim_ok_iff]
      refine ⟨he1, he2, _, ?_, rfl, rfl⟩
      rw [exec_claim_nonvested hash _ e (by show z.variant.vested = false; rw [hvz]; exact f1), htx]
      exact k1
    have e1 : t.s.range = upd s.range e.caller none := by rw [hs'eq]; rfl
    have e2 : t.s.claimed = upd s.claimed e.caller true := by rw [hs'eq]; rfl
    have e3 : t.s.blacklist = s.blacklist := by rw [hs'eq]; rfl
    have e4 : t.s.flags = s.flags := by rw [hs'eq]; rfl
    refine ⟨_, .call z r e .claim _ _ hz hr hok trivial hstep, ⟨rfl, ?_, ?_, ?_, ?_⟩, ?_, Or.inl hstep⟩
    · show upd z.range e.caller none = z_eraseR t.s.range
      rw [e1, z_eraseR_upd_none, hsim.range]
    · intro hf
      rw [e4, hfil] at hf; cases hf
    · intro a ha
      show t.s.blacklist a = true
      rw [e3]; exact hsim.bl a ha
    · intro a ha
      have ha' : upd z.claimed e.caller true a = true := ha
      show t.s.claimed a = true
      rw [e2]
      by_cases hx : a = e.caller
      · subst hx; simp
      · rw [upd_other _ _ _ _ hx] at ha' ⊢; exact hsim.cl a ha'
    · intro hf
      rw [e4, hsta] at hf; cases hf
  · -- an address with an empty range: the erased state does not move
    have hzn : z.range e.caller = none := by rw [hsim.range]; exact z_eraseR_of_empty hrg hne
    have hc0 : s.confirmed e.caller = 0 := by
      rw [← hcf]; exact hD.rngNone e.caller hzn
    have hst2 := z_claim_stutter hBs hs hrg (by omega) hc0
    refine ⟨z, .wait z r e.round hz hr, ⟨?_, ?_, ?_, ?_, ?_⟩, ?_, Or.inr ⟨rfl, rg, hrg, by omega, hst2⟩⟩
    · rw [hst2, z_w_w]; exact hsim.rest
    · rw [hst2]
      show z.range = z_eraseR (upd s.range e.caller none)
      rw [z_eraseR_upd_none, ← hsim.range, z_upd_none_self _ _ hzn]
    · intro hf
      rw [hst2] at hf
      have hf' : s.flags.filtered = false := hf
      rw [hfil] at hf'; cases hf'
    · intro a ha
      rw [hst2]
      exact hsim.bl a ha
    · intro a ha
      rw [hst2]
      show upd s.claimed e.caller true a = true
      by_cases hx : a = e.caller
      · subst hx; simp
      · rw [upd_other _ _ _ _ hx]; exact hsim.cl a ha
    · intro hf
      rw [hst2] at hf
      have hf' : s.flags.started = false := hf
      rw [hsta] at hf'; cases hf'

/-! ### the simulation theorem -/

/-- one accepted call from a state related to a `ReachA` state leads to a state related to a
    `ReachA` state -/
theorem z_sim_step {hash : List Nat → List Nat} {v : Variant} {a0 : InitArgs} {s z : State} {r : Nat}
    {e : Env} {c : Call} {s' : State} {o : Out} (hv : Plain v)
    (hz : ReachA hash v a0 z r) (hsim : ZSim s z) (hd : s.flags.started = false → z_Hd s)
    (hr : r ≤ e.round) (hok : EnvOK e) (hs : step hash s e c = .ok (s', o)) :
    ∃ z', ReachA hash v a0 z' e.round ∧ ZSim s' z' ∧ (s'.flags.started = false → z_Hd s') := by
  have hwf := reach_WF hv hz
  have hpl : Plain s.variant := by rw [← hsim.fields.2.2.1]; exact hwf.var
  have hex := rb_exposed hpl hs
  cases c with
  | addTickets l =>
    obtain ⟨z', h1, h2, h3, _⟩ := z_sim_add hv hz hsim hd hr hok hs; exact ⟨z', h1, h2, h3⟩
  | confirm n =>
    obtain ⟨z', h1, h2, h3, _⟩ := z_sim_confirm hv hz hsim hd hr hok hs; exact ⟨z', h1, h2, h3⟩
  | filter =>
    obtain ⟨z', h1, h2, h3, _⟩ := z_sim_filter hv hz hsim hr hok hs; exact ⟨z', h1, h2, h3⟩
  | claim =>
    obtain ⟨z', h1, h2, h3, _⟩ := z_sim_claim hv hz hsim hr hok hs; exact ⟨z', h1, h2, h3⟩
  | blacklist l =>
    obtain ⟨z', h1, h2, h3, _⟩ := z_sim_blacklist hv hz hsim hd hr hok hs; exact ⟨z', h1, h2, h3⟩
  | deposit | setTicketPrice _ _ | setPerTicket _ | setConfStart _ | setSelStart _ | setClaimStart _
  | setSupport _ | pause | unpause | select | claimPayment =>
    obtain ⟨z', h1, h2, h3, _⟩ := z_sim_indep hv rfl hz hsim hd hr hok hs; exact ⟨z', h1, h2, h3⟩
  | _ => exact absurd hex id

/-- **SIMULATION**: every state reachable WITHOUT the restriction `CallOK` (zero-size allocation
    entries allowed) is `ZSim`-related to a state reachable in the original development (same
    deployment arguments, same round): erase the empty ranges and the zero-size batches. -/
theorem z_sim {hash : List Nat → List Nat} {v : Variant} (hv : Plain v) {a0 : InitArgs}
    {s : State} {r : Nat} (h : ReachZA hash v a0 s r) :
    ∃ z, ReachA hash v a0 z r ∧ ZSim s z ∧ (s.flags.started = false → z_Hd s) := by
  induction h with
  | init e s h =>
    obtain ⟨_, _, _, _, _, _, _, _, _, _, _, _, _, h14, h15, h16, _, _⟩ := rb_init_inv hv h
    refine ⟨s, .init e s h, ZSim.refl_of_clean ?_ ?_, ?_⟩
    · rw [h14]; rfl
    · rw [h15]; rfl
    · intro _ i b _ hb
      rw [h15] at hb; cases hb
  | call s r e c s' o _ h1 h2 h3 ih =>
    obtain ⟨z, hz, hsim, hd⟩ := ih
    exact z_sim_step hv hz hsim hd h1 h2 h3
  | wait s r r' _ h1 ih =>
    obtain ⟨z, hz, hsim, hd⟩ := ih
    exact ⟨z, .wait z r r' hz h1, hsim, hd⟩

theorem z_sim_reach {hash : List Nat → List Nat} {v : Variant} (hv : Plain v)
    {s : State} {r : Nat} (h : ReachZ hash v s r) :
    ∃ z, Reach hash v z r ∧ ZSim s z := by
  obtain ⟨a0, h⟩ := ReachZ_iff.mp h
  obtain ⟨z, hz, hsim, _⟩ := z_sim hv h
  exact ⟨z, Reach_iff.mpr ⟨a0, hz⟩, hsim⟩

/-! ### quantities that do not see the erasure -/

theorem ZSim.shape' {s z : State} (h : ZSim s z) : ∃ R B K C, z = z_w s R B K C :=
  ⟨_, _, _, _, h.rest⟩

theorem ZSim.winCountOf_eq {s z : State} (h : ZSim s z) (a : Nat) : winCountOf s a = winCountOf z a := by
  have hst : z.status = s.status := by have := congrArg State.status h.rest; exact this
  unfold winCountOf
  rw [h.range, hst]
  cases hr : s.range a with
  | none => rw [z_eraseR_of_none hr]
  | some rg =>
    by_cases hne : rg.first ≤ rg.last
    · rw [z_eraseR_of_ne hr hne]
    · rw [z_eraseR_of_empty hr hne]
      have : rangeLen rg = 0 := by unfold rangeLen; omega
      simp only [this, countWinning]

theorem ZSim.refundDue_eq {s z : State} (h : ZSim s z)
    (hnone : ∀ a, z.range a = none → z.confirmed a = 0) (a : Nat) : refundDue s a = refundDue z a := by
  have hw := h.winCountOf_eq a
  have hc : z.confirmed = s.confirmed := by have := congrArg State.confirmed h.rest; exact this
  have hp : z.price = s.price := by have := congrArg State.price h.rest; exact this
  unfold refundDue
  rw [← hw, hc, hp, h.range]
  cases hr : s.range a with
  | none => rw [z_eraseR_of_none hr]
  | some rg =>
    by_cases hne : rg.first ≤ rg.last
    · rw [z_eraseR_of_ne hr hne]
    · have hz : z.range a = none := by rw [h.range]; exact z_eraseR_of_empty hr hne
      rw [z_eraseR_of_empty hr hne]
      have := hnone a hz
      rw [hc] at this
      simp [this]

/-- after completion an address without a (non-empty) range has nothing confirmed -/
theorem z_done_rngNone {hash : List Nat → List Nat} {v : Variant} (hv : Plain v) {a0 : InitArgs}
    {z : State} {r : Nat} (hz : ReachA hash v a0 z r) (hsel : z.flags.selected = true) :
    ∀ a, z.range a = none → z.confirmed a = 0 :=
  (rb_phase_D (reach_WF hv hz).phase hsel).rngNone

end LP

#print axioms LP.z_sim
#print axioms LP.z_sim_reach
