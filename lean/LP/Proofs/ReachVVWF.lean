import LP.Proofs.ReachV2Base
import LP.Props.C17
import LP.Proofs.ClaimedFrame
/-
  LP.Proofs.ReachVVWF — exactness of vesting along the reachable histories of `Variant.guarV2`
  (launchpad-guaranteed-tickets-v2, milestone schedule `sched2`).

  On top of the invariant `WF2` (LP/Proofs/ReachV2WF.lean, preserved by every accepted call:
  `call_WF2`) an ADDITIONAL invariant `vv_Exact s r` is carried along:
    * `settled` : every SETTLED participant's `userClaimed` is EXACTLY the released amount
                `userTotal × unlockedPct2 r' sched / 10000` of the schedule in force
                (`sched2Of s` = the stored milestone list, or the default `[(0, 100 %)]`)
                at some earlier round `r' ≤ r`;
    * `unset` : a participant who has not settled has `userClaimed = 0`
                (together: `vv_Exact.exact`, the form `0 ∨ exactly released` of C13);
    * `sch`   : a stored schedule has at most 60 milestones and was accepted by
                `validSchedule2 t0` at some past round `t0 ≤ r` lying before the confirmation start
                round (hence: non-empty, rounds sorted, every percentage ≤ 100 %, sum = 100 %);
    * `unit`  : every entitlement is a multiple of `perTicket`.
  `vv_done_frame`: once every selection step is complete only `claim` touches the vesting
  records, and the schedule / `perTicket` / the confirmation start round never change again.
  `vv_call_Exact`, `vv_wait_Exact`, `vv_init_Exact`, `vv_reach_Exact`.
-/
namespace LP
open LP.FY LP.Events

/-! ### the additional invariant -/

/-- exactness of the booked vesting amounts, validity of a stored schedule -/
structure vv_Exact (s : State) (r : Nat) : Prop where
  settled : ∀ a, s.claimed a = true →
    ∃ r', r' ≤ r ∧ s.userClaimed a = entitled (s.userTotal a) (unlockedPct2 r' (sched2Of s))
  unset : ∀ a, s.claimed a = false → s.userClaimed a = 0
  sch : ∀ ms, s.sched2 = some ms →
    ms.length ≤ 60 ∧ ∃ t0, t0 ≤ r ∧ t0 < s.cfg.conf ∧ validSchedule2 t0 ms = true
  unit : ∀ a, ∃ k, s.userTotal a = k * s.perTicket

/-- the exactness clause in the form of C13 (`claimedExactly`): `0` or exactly the released amount
    at some earlier round -/
theorem vv_Exact.exact {s : State} {r : Nat} (h : vv_Exact s r) (a : Nat) :
    s.userClaimed a = 0 ∨
    ∃ r', r' ≤ r ∧ s.userClaimed a = entitled (s.userTotal a) (unlockedPct2 r' (sched2Of s)) := by
  cases hc : s.claimed a with
  | false => exact Or.inl (h.unset a hc)
  | true => exact Or.inr (h.settled a hc)

theorem vv_Exact.mono {s : State} {r r' : Nat} (h : vv_Exact s r) (hr : r ≤ r') : vv_Exact s r' :=
  ⟨fun a ha => by
     obtain ⟨x, hx, e⟩ := h.settled a ha
     exact ⟨x, by omega, e⟩,
   h.unset,
   fun ms hms => ⟨(h.sch ms hms).1, by
     obtain ⟨t0, h1, h2, h3⟩ := (h.sch ms hms).2
     exact ⟨t0, by omega, h2, h3⟩⟩,
   h.unit⟩

theorem vv_wait_Exact {s : State} {r r' : Nat} (h : vv_Exact s r) (hr : r ≤ r') : vv_Exact s r' :=
  h.mono hr

/-- nothing booked, nothing recorded, nobody settled: the invariant holds trivially -/
theorem vv_Exact_of_fresh {s : State} {r : Nat}
    (hf : ∀ a, s.userTotal a = 0 ∧ s.userClaimed a = 0 ∧ s.claimed a = false)
    (hsch : ∀ ms, s.sched2 = some ms →
      ms.length ≤ 60 ∧ ∃ t0, t0 ≤ r ∧ t0 < s.cfg.conf ∧ validSchedule2 t0 ms = true) :
    vv_Exact s r :=
  ⟨fun a ha => (by rw [(hf a).2.2] at ha; cases ha), fun a _ => (hf a).2.1, hsch,
    fun a => ⟨0, by rw [(hf a).1, Nat.zero_mul]⟩⟩

theorem vv_init_Exact {a : InitArgs} {e : Env} {s : State} (h : init .guarV2 a e = .ok s) :
    vv_Exact s e.round := by
  obtain ⟨_, _, _, _, rfl⟩ := v2_init_inv h
  exact vv_Exact_of_fresh (fun _ => ⟨rfl, rfl, rfl⟩) (fun ms hms => by cases hms)

/-! ### the schedule in force -/

/-- a valid schedule (accepted by `validSchedule2` at some round), spelled out -/
theorem vv_valid_props {t0 : Nat} {ms : List (Nat × Nat)} (hv : validSchedule2 t0 ms = true) :
    ms ≠ [] ∧ (∀ m ∈ ms, m.2 ≤ 10000 ∧ t0 ≤ m.1 ∧ m.1 ≤ t0 + 26280000) ∧
    ms.Pairwise (fun a b => a.1 ≤ b.1) ∧ (ms.map (·.2)).sum = 10000 :=
  (v2_schedule_accepted_iff t0 ms).1 hv

/-- the schedule in force is sorted and fully released once every milestone round is reached -/
theorem vv_sched_in_force {s : State} {r : Nat} (hx : vv_Exact s r) :
    (sched2Of s).Pairwise (fun a b => a.1 ≤ b.1) ∧ ((sched2Of s).map (·.2)).sum = 10000 ∧
    sched2Of s ≠ [] ∧
    (∀ now, (∀ m ∈ sched2Of s, m.1 ≤ now) → unlockedPct2 now (sched2Of s) = 10000) := by
  cases hs : s.sched2 with
  | none =>
    have : sched2Of s = defaultSchedule2 := by unfold sched2Of; rw [hs]; rfl
    rw [this]
    exact ⟨defaultSchedule2_sorted, defaultSchedule2_sum, by decide, fun now _ => unlockedPct2_default now⟩
  | some ms =>
    have : sched2Of s = ms := by unfold sched2Of; rw [hs]; rfl
    rw [this]
    obtain ⟨_, t0, _, _, hv⟩ := hx.sch ms hs
    obtain ⟨k1, _, k3, k4⟩ := vv_valid_props hv
    exact ⟨k3, k4, k1, fun now h => (unlockedPct2_accepted hv).2.1 now h⟩

/-- ... in particular once the round of the LAST milestone is reached -/
theorem vv_sched_after_last {s : State} {r : Nat} (hx : vv_Exact s r) (now : Nat)
    (hne : sched2Of s ≠ []) (h : ((sched2Of s).getLast hne).1 ≤ now) :
    unlockedPct2 now (sched2Of s) = 10000 := by
  obtain ⟨k1, _, _, k4⟩ := vv_sched_in_force hx
  exact k4 now (fun m hm => Nat.le_trans (roundsSorted_le_last _ k1 hne m hm) h)

/-! ### what `WF2` already gives about the vesting records -/

/-- a participant who has not settled has no vesting record; nobody is booked more than his
    entitlement -/
theorem vv_records {T0 : Nat} {s : State} {r : Nat} (h : WF2 T0 s r) (a : Nat) :
    (s.claimed a = false → s.userTotal a = 0 ∧ s.userClaimed a = 0) ∧
    s.userClaimed a ≤ s.userTotal a := by
  cases hq : s.flags.additional with
  | false =>
    obtain ⟨h1, h2, _⟩ := (h.lp.pre hq).fresh a
    have h1' : s.userTotal a = 0 := h1
    have h2' : s.userClaimed a = 0 := h2
    exact ⟨fun _ => ⟨h1', h2'⟩, by rw [h1', h2']; exact Nat.le_refl _⟩
  | true =>
    have hp := h.lp.post hq
    have hle : s.userClaimed a ≤ s.userTotal a := hp.le a
    refine ⟨fun hc => ?_, hle⟩
    have h1 : s.userTotal a = 0 := hp.unclaimed a hc
    exact ⟨h1, by omega⟩

/-- a settled participant has settled after the distribution: every selection step is complete -/
theorem vv_settled_done {T0 : Nat} {s : State} {r : Nat} (h : WF2 T0 s r) {a : Nat}
    (hcl : s.claimed a = true) : AllDone s := by
  have hadd : s.flags.additional = true := by
    cases hq : s.flags.additional with
    | true => rfl
    | false =>
      have := ((h.lp.pre hq).fresh a).2.2
      have this' : s.claimed a = false := this
      rw [hcl] at this'; cases this'
  exact ⟨(v2_phase_F h.phase hadd).d.selected, hadd⟩

/-- the unlocked percentage of the schedule in force never exceeds 100 % -/
theorem vv_pct_le {T0 : Nat} {s : State} {r : Nat} (h : WF2 T0 s r) (now : Nat) :
    unlockedPct2 now (sched2Of s) ≤ 10000 := h.lp.sched now

/-! ### generic frames at the level of `step` -/

/-- every call other than `claim` leaves the `claimed` flags alone -/
theorem vv_step_claimed {hash : List Nat → List Nat} {s s' : State} {e : Env} {c : Call} {o : Out}
    (hc : c ≠ .claim) (hs : step hash s e c = .ok (s', o)) : s'.claimed = s.claimed := by
  obtain ⟨m, t, _, _, _, hx, rfl, _⟩ := step_ok_inv hs
  exact exec_claimed_eq hc hx

/-- a round below the confirmation start round stays below it -/
theorem vv_conf_lower {hash : List Nat → List Nat} {s s' : State} {e : Env} {c : Call} {o : Out}
    (hs : step hash s e c = .ok (s', o)) {t0 : Nat} (h0 : t0 ≤ e.round) (h1 : t0 < s.cfg.conf) :
    t0 < s'.cfg.conf := by
  by_cases hge : s.cfg.conf ≤ e.round
  · rw [conf_frozen_once_reached hs hge]; exact h1
  · rcases step_static_cases hs with ⟨_, hst⟩ | ⟨_, hst⟩
    · rw [static_cfg hst]; exact h1
    · cases c with
      | setConfStart x =>
        obtain ⟨m, t, _, _, _, hx, rfl, _⟩ := step_ok_inv hs
        obtain ⟨k1, _, k3⟩ := exec_setConfStart_s hx
        rw [k1]
        show t0 < x
        omega
      | _ => rw [hst]; exact h1

/-! ### once every selection step is complete -/

/-- **frame after completion**: from a well-formed state in which every selection step is
    complete, an accepted call leaves the price, `perTicket`, the flags, the schedule and the
    confirmation start round unchanged; only `claimPayment` changes the recorded proceeds (to
    zero); only `claim` touches the vesting records and the `claimed` flags -/
theorem vv_done_frame {T0 : Nat} {hash : List Nat → List Nat} {s s' : State} {e : Env} {c : Call}
    {o : Out} {r : Nat} (h : WF2 T0 s r) (hr : r ≤ e.round) (hd : AllDone s)
    (hs : step hash s e c = .ok (s', o)) :
    s'.price = s.price ∧ s'.perTicket = s.perTicket ∧ s'.lpTok = s.lpTok ∧ s'.flags = s.flags ∧
    s'.sched2 = s.sched2 ∧ s'.cfg.conf = s.cfg.conf ∧
    (s'.claimablePayment = s.claimablePayment ∨ (c = .claimPayment ∧ s'.claimablePayment = 0)) ∧
    (c ≠ .claim → s'.userTotal = s.userTotal ∧ s'.userClaimed = s.userClaimed ∧
      s'.claimed = s.claimed) := by
  have hF : PhF s.gcore := v2_phase_F h.phase hd.2
  have hD : PhD s.core := hF.d
  have hst : s.flags.started = true := hD.started
  obtain ⟨hc1, hc2⟩ := h.tlStarted hst
  have hfil : s.flags.filtered = true := hD.filtered
  have hex := v2_exposed h.var hs
  have hnotAdd : s.stage e ≠ .addTickets := fun hh => by have := rb_stage_addTickets hh; omega
  have hnotConf : s.stage e ≠ .confirm := fun hh => by have := (rb_stage_confirm hh).2; omega
  obtain ⟨hterms, hsch⟩ := LP.Props.C17.terms_frozen_after_confirmation_starts_all hs hnotAdd
  have hprice : s'.price = s.price := terms_price hterms
  have hpt : s'.perTicket = s.perTicket := terms_perTicket hterms
  have hlt : s'.lpTok = s.lpTok := terms_lpTok hterms
  have hconf : s'.cfg.conf = s.cfg.conf := conf_frozen_once_reached hs (by omega)
  suffices hmain : s'.flags = s.flags ∧
      (s'.claimablePayment = s.claimablePayment ∨ (c = .claimPayment ∧ s'.claimablePayment = 0)) ∧
      (c ≠ .claim → s'.userTotal = s.userTotal ∧ s'.userClaimed = s.userClaimed ∧
        s'.claimed = s.claimed) from
    ⟨hprice, hpt, hlt, hmain.1, hsch, hconf, hmain.2.1, hmain.2.2⟩
  cases c with
  | addTicketsV2 l =>
    exact absurd (LP.Props.C06.alloc_only_in_addTickets hash s e _ _ (Or.inr (Or.inr ⟨l, rfl⟩)) hs) hnotAdd
  | setTicketPrice tok a =>
    exact absurd (LP.Props.C06.terms_only_in_addTickets hash s e _ _ (Or.inl ⟨tok, a, rfl⟩) hs) hnotAdd
  | setPerTicket a =>
    exact absurd (LP.Props.C06.terms_only_in_addTickets hash s e _ _ (Or.inr (Or.inl ⟨a, rfl⟩)) hs) hnotAdd
  | setSchedule2 l =>
    exact absurd (LP.Props.C06.terms_only_in_addTickets hash s e _ _
      (Or.inr (Or.inr (Or.inr ⟨l, rfl⟩))) hs) hnotAdd
  | confirm n =>
    exact absurd (LP.Props.C06.confirm_only_in_confirm hash s e _ _ (Or.inl ⟨n, rfl⟩) hs) hnotConf
  | blacklist l =>
    rcases LP.Props.C06.blacklist_only_before_selection hash s e _ _ (Or.inl ⟨l, rfl⟩) hs with hh | hh
    · exact absurd hh hnotAdd
    · exact absurd hh hnotConf
  | refundUsers l =>
    rcases LP.Props.C06.blacklist_only_before_selection hash s e _ _ (Or.inr (Or.inl ⟨l, rfl⟩)) hs with hh | hh
    · exact absurd hh hnotAdd
    · exact absurd hh hnotConf
  | unblacklist l =>
    rcases LP.Props.C06.blacklist_only_before_selection hash s e _ _ (Or.inr (Or.inr ⟨l, rfl⟩)) hs with hh | hh
    · exact absurd hh hnotAdd
    · exact absurd hh hnotConf
  | filter =>
    have := (LP.Props.C06.filter_gate hash s e _ hs).2
    rw [hfil] at this; cases this
  | select =>
    have := (LP.Props.C06.select_gate hash s e _ hs).2.2
    rw [hd.1] at this; cases this
  | distribute =>
    exfalso
    have := (LP.Props.C06.additional_gate hash s e _ _ (Or.inl rfl) hs).2.2
    rw [hd.2] at this; cases this
  | setConfStart x =>
    obtain ⟨t, hx, rfl⟩ := rb_step_np (by intro m hm; simp [endpointMeta] at hm; rw [← hm]) hs
    have := (exec_setConfStart_s hx).2.1
    have : e.round < s.cfg.conf := this
    omega
  | setSelStart x =>
    obtain ⟨t, hx, rfl⟩ := rb_step_np (by intro m hm; simp [endpointMeta] at hm; rw [← hm]) hs
    have := (exec_setSelStart_s hx).2.1
    have : e.round < s.cfg.sel := this
    omega
  | setClaimStart x =>
    obtain ⟨t, hx, rfl⟩ := rb_step_np (by intro m hm; simp [endpointMeta] at hm; rw [← hm]) hs
    rw [(exec_setClaimStart_s hx).1]
    exact ⟨rfl, Or.inl rfl, fun _ => ⟨rfl, rfl, rfl⟩⟩
  | setSupport a =>
    obtain ⟨t, hx, rfl⟩ := rb_step_np (by intro m hm; simp [endpointMeta] at hm; rw [← hm]) hs
    simp only [exec, pure_ok_iff] at hx
    subst hx
    exact ⟨rfl, Or.inl rfl, fun _ => ⟨rfl, rfl, rfl⟩⟩
  | pause =>
    obtain ⟨t, hx, rfl⟩ := rb_step_np (by intro m hm; simp [endpointMeta] at hm; rw [← hm]) hs
    simp only [exec, pure_ok_iff] at hx
    subst hx
    exact ⟨rfl, Or.inl rfl, fun _ => ⟨rfl, rfl, rfl⟩⟩
  | unpause =>
    obtain ⟨t, hx, rfl⟩ := rb_step_np (by intro m hm; simp [endpointMeta] at hm; rw [← hm]) hs
    simp only [exec, pure_ok_iff] at hx
    subst hx
    exact ⟨rfl, Or.inl rfl, fun _ => ⟨rfl, rfl, rfl⟩⟩
  | deposit =>
    obtain ⟨m, t, _, _, _, hx, rfl, _⟩ := step_ok_inv hs
    rw [(exec_deposit_s hx).2]
    exact ⟨rfl, Or.inl rfl, fun _ => ⟨rfl, rfl, rfl⟩⟩
  | claim =>
    obtain ⟨t, hx, rfl⟩ := rb_step_np (by intro m hm; simp [endpointMeta] at hm; rw [← hm]) hs
    obtain ⟨hvest, _, hv2, _⟩ := v2_flags h.var
    simp only [exec, rbTx_s, hvest, if_true] at hx
    obtain ⟨t1, c, h1, _, hts, _⟩ := v2_claimVested_state hv2 hx
    rcases v2_claimSettle_state h1 with ⟨_, rfl⟩ | ⟨_, _, rg, B, _, _, ht1, _⟩
    · rw [hts]; exact ⟨rfl, Or.inl rfl, fun hc => absurd rfl hc⟩
    · rw [hts, ht1]; exact ⟨rfl, Or.inl rfl, fun hc => absurd rfl hc⟩
  | claimPayment =>
    obtain ⟨t, hx, rfl⟩ := rb_step_np (by intro m hm; simp [endpointMeta] at hm; rw [← hm]) hs
    obtain ⟨hvest, _, hv2, _⟩ := v2_flags h.var
    simp only [exec, rbTx_s, hvest, if_true] at hx
    obtain ⟨_, _, _, hts⟩ := v2_claimPaymentOwn_state h.tokNe hx
    rw [hts]
    exact ⟨rfl, Or.inr ⟨rfl, rfl⟩, fun _ => ⟨rfl, rfl, rfl⟩⟩
  | _ => exact absurd hex id

end LP

#print axioms LP.vv_init_Exact
#print axioms LP.vv_wait_Exact
#print axioms LP.vv_sched_in_force
#print axioms LP.vv_sched_after_last
#print axioms LP.vv_records
#print axioms LP.vv_done_frame
