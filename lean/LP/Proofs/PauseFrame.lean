import LP.Proofs.StepLemmas
import LP.Proofs.Loop
import LP.Proofs.Vesting
import LP.Proofs.Claim
import LP.Proofs.PauseAttr
/-
  LP.Proofs.PauseFrame — the `paused` flag is transparent.

  `State.setP s b` overwrites the flag.  For every helper `X` of the model that does not read the
  flag we prove the *equation*
      X (setP b input) = mapR (setP b) (X input)
  (errors included), i.e. `X` commutes with overwriting the flag; the loops carry the state only
  inside a `Tx`, so `runWhile` gets a commutation rule (`runWhile_commutes`).  For the five gated
  bodies (`confirmTickets`, `filterTickets`, `selectWinners`, v2 `distribute`, v2 `claimVested`)
  the same equation holds when the flag is overwritten by its own value.  Instantiating `b` with
  the current value yields the frame (`paused` is written only by `pause`/`unpause`), with
  `b := false` the transparency of the flag.
-/
set_option linter.unusedSimpArgs false

namespace LP

/-! ### overwriting the flag -/

def State.setP (s : State) (b : Bool) : State := { s with paused := b }
def Tx.setP (t : Tx) (b : Bool) : Tx := { t with s := t.s.setP b }

@[simp, setp] theorem State.setP_paused (s : State) (b : Bool) : (s.setP b).paused = b := rfl
@[simp, setp] theorem State.setP_variant (s : State) (b : Bool) : (s.setP b).variant = s.variant := rfl
@[simp, setp] theorem State.setP_owner (s : State) (b : Bool) : (s.setP b).owner = s.owner := rfl
@[simp, setp] theorem State.setP_lpTok (s : State) (b : Bool) : (s.setP b).lpTok = s.lpTok := rfl
@[simp, setp] theorem State.setP_perTicket (s : State) (b : Bool) : (s.setP b).perTicket = s.perTicket := rfl
@[simp, setp] theorem State.setP_payTok (s : State) (b : Bool) : (s.setP b).payTok = s.payTok := rfl
@[simp, setp] theorem State.setP_price (s : State) (b : Bool) : (s.setP b).price = s.price := rfl
@[simp, setp] theorem State.setP_nrWinning (s : State) (b : Bool) : (s.setP b).nrWinning = s.nrWinning := rfl
@[simp, setp] theorem State.setP_cfg (s : State) (b : Bool) : (s.setP b).cfg = s.cfg := rfl
@[simp, setp] theorem State.setP_flags (s : State) (b : Bool) : (s.setP b).flags = s.flags := rfl
@[simp, setp] theorem State.setP_support (s : State) (b : Bool) : (s.setP b).support = s.support := rfl
@[simp, setp] theorem State.setP_deposited (s : State) (b : Bool) : (s.setP b).deposited = s.deposited := rfl
@[simp, setp] theorem State.setP_totalDeposited (s : State) (b : Bool) : (s.setP b).totalDeposited = s.totalDeposited := rfl
@[simp, setp] theorem State.setP_claimablePayment (s : State) (b : Bool) : (s.setP b).claimablePayment = s.claimablePayment := rfl
@[simp, setp] theorem State.setP_lastTicketId (s : State) (b : Bool) : (s.setP b).lastTicketId = s.lastTicketId := rfl
@[simp, setp] theorem State.setP_range (s : State) (b : Bool) : (s.setP b).range = s.range := rfl
@[simp, setp] theorem State.setP_batch (s : State) (b : Bool) : (s.setP b).batch = s.batch := rfl
@[simp, setp] theorem State.setP_confirmed (s : State) (b : Bool) : (s.setP b).confirmed = s.confirmed := rfl
@[simp, setp] theorem State.setP_status (s : State) (b : Bool) : (s.setP b).status = s.status := rfl
@[simp, setp] theorem State.setP_posToId (s : State) (b : Bool) : (s.setP b).posToId = s.posToId := rfl
@[simp, setp] theorem State.setP_blacklist (s : State) (b : Bool) : (s.setP b).blacklist = s.blacklist := rfl
@[simp, setp] theorem State.setP_claimed (s : State) (b : Bool) : (s.setP b).claimed = s.claimed := rfl
@[simp, setp] theorem State.setP_op (s : State) (b : Bool) : (s.setP b).op = s.op := rfl
@[simp, setp] theorem State.setP_bal (s : State) (b : Bool) : (s.setP b).bal = s.bal := rfl
@[simp, setp] theorem State.setP_minConfirmed (s : State) (b : Bool) : (s.setP b).minConfirmed = s.minConfirmed := rfl
@[simp, setp] theorem State.setP_whitelist (s : State) (b : Bool) : (s.setP b).whitelist = s.whitelist := rfl
@[simp, setp] theorem State.setP_totalGuaranteed (s : State) (b : Bool) : (s.setP b).totalGuaranteed = s.totalGuaranteed := rfl
@[simp, setp] theorem State.setP_uts (s : State) (b : Bool) : (s.setP b).uts = s.uts := rfl
@[simp, setp] theorem State.setP_blUts (s : State) (b : Bool) : (s.setP b).blUts = s.blUts := rfl
@[simp, setp] theorem State.setP_sched1 (s : State) (b : Bool) : (s.setP b).sched1 = s.sched1 := rfl
@[simp, setp] theorem State.setP_sched2 (s : State) (b : Bool) : (s.setP b).sched2 = s.sched2 := rfl
@[simp, setp] theorem State.setP_userTotal (s : State) (b : Bool) : (s.setP b).userTotal = s.userTotal := rfl
@[simp, setp] theorem State.setP_userClaimed (s : State) (b : Bool) : (s.setP b).userClaimed = s.userClaimed := rfl
@[simp, setp] theorem State.setP_nftCost (s : State) (b : Bool) : (s.setP b).nftCost = s.nftCost := rfl
@[simp, setp] theorem State.setP_availNfts (s : State) (b : Bool) : (s.setP b).availNfts = s.availNfts := rfl
@[simp, setp] theorem State.setP_payers (s : State) (b : Bool) : (s.setP b).payers = s.payers := rfl
@[simp, setp] theorem State.setP_nftWinners (s : State) (b : Bool) : (s.setP b).nftWinners = s.nftWinners := rfl
@[simp, setp] theorem State.setP_claimableNft (s : State) (b : Bool) : (s.setP b).claimableNft = s.claimableNft := rfl
@[simp, setp] theorem State.setP_sftToken (s : State) (b : Bool) : (s.setP b).sftToken = s.sftToken := rfl
@[simp, setp] theorem State.setP_sftCreated (s : State) (b : Bool) : (s.setP b).sftCreated = s.sftCreated := rfl
@[simp, setp] theorem State.setP_sftIssuedFlag (s : State) (b : Bool) : (s.setP b).sftIssuedFlag = s.sftIssuedFlag := rfl
@[simp, setp] theorem State.setP_sftRole (s : State) (b : Bool) : (s.setP b).sftRole = s.sftRole := rfl
@[simp, setp] theorem State.setP_lockPct (s : State) (b : Bool) : (s.setP b).lockPct = s.lockPct := rfl
@[simp, setp] theorem State.setP_unlockEpoch (s : State) (b : Bool) : (s.setP b).unlockEpoch = s.unlockEpoch := rfl
@[simp, setp] theorem State.setP_lockAddr (s : State) (b : Bool) : (s.setP b).lockAddr = s.lockAddr := rfl

@[simp, setp] theorem Tx.setP_s (t : Tx) (b : Bool) : (t.setP b).s = t.s.setP b := rfl
@[simp, setp] theorem Tx.setP_c (t : Tx) (b : Bool) : (t.setP b).c = t.c := rfl
@[simp, setp] theorem Tx.setP_o (t : Tx) (b : Bool) : (t.setP b).o = t.o := rfl
theorem State.setP_self (s : State) : s.setP s.paused = s := rfl
theorem Tx.setP_self (t : Tx) : t.setP t.s.paused = t := rfl
@[simp] theorem State.setP_setP (s : State) (b c : Bool) : (s.setP b).setP c = s.setP c := rfl
@[simp] theorem Tx.setP_setP (t : Tx) (b c : Bool) : (t.setP b).setP c = t.setP c := rfl

/-- two states that agree after overwriting the flag with the same value differ at most in it -/
theorem State.eq_of_setP_eq {s s' : State} {b : Bool} (h : s.setP b = s'.setP b)
    (hp : s.paused = s'.paused) : s = s' := by
  have h1 : (s.setP b).setP s.paused = (s'.setP b).setP s.paused := by rw [h]
  rw [State.setP_setP, State.setP_setP, State.setP_self, hp, State.setP_self] at h1
  exact h1

/-! ### `mapR`: lifting a map through `Res` -/

def mapR {α β : Type} (f : α → β) : Res α → Res β
  | .ok a => .ok (f a)
  | .error e => .error e

@[simp, setp] theorem mapR_ok {α β : Type} (f : α → β) (a : α) : mapR f (.ok a : Res α) = .ok (f a) := rfl
@[simp, setp] theorem mapR_pure {α β : Type} (f : α → β) (a : α) : mapR f (pure a : Res α) = pure (f a) := rfl
@[simp, setp] theorem mapR_error {α β : Type} (f : α → β) (e : Err) :
    mapR f (.error e : Res α) = .error e := rfl
@[setp] theorem mapR_bind {α β γ : Type} (f : β → γ) (x : Res α) (g : α → Res β) :
    mapR f (x >>= g) = x >>= fun a => mapR f (g a) := by
  cases x <;> rfl
@[setp] theorem bind_mapR {α β γ : Type} (f : α → β) (x : Res α) (g : β → Res γ) :
    mapR f x >>= g = x >>= fun a => g (f a) := by
  cases x <;> rfl
@[setp] theorem mapR_ite {α β : Type} (f : α → β) (c : Prop) [Decidable c] (x y : Res α) :
    mapR f (if c then x else y) = if c then mapR f x else mapR f y := by
  split <;> rfl
attribute [setp] pure_bind

theorem mapR_ok_iff {α β : Type} (f : α → β) (x : Res α) (b : β) :
    mapR f x = .ok b ↔ ∃ a, x = .ok a ∧ f a = b := by
  cases x <;> simp [mapR]
theorem mapR_id' {α : Type} (f : α → α) (x : Res α) (h : ∀ a, x = .ok a → f a = a) : mapR f x = x := by
  cases x with
  | error e => rfl
  | ok a => simp only [mapR_ok, h a rfl]

theorem ite_eq_ite {α : Type} (c : Prop) [Decidable c] {a a' b b' : α}
    (h1 : c → a = a') (h2 : ¬c → b = b') : ite c a b = ite c a' b' := by
  split
  · exact h1 ‹_›
  · exact h2 ‹_›

theorem ite_eq_ite' {α : Type} (c c' : Prop) [Decidable c] [Decidable c'] {a a' b b' : α}
    (hc : c ↔ c') (h1 : c → a = a') (h2 : ¬c → b = b') : ite c a b = ite c' a' b' := by
  by_cases h : c
  · rw [if_pos h, if_pos (hc.mp h)]; exact h1 h
  · rw [if_neg h, if_neg (fun h' => h (hc.mpr h'))]; exact h2 h

theorem ite_eq_mapR_ite {α β : Type} (f : α → β) (c c' : Prop) [Decidable c] [Decidable c']
    {a b : Res β} {a' b' : Res α}
    (hc : c ↔ c') (h1 : c → a = mapR f a') (h2 : ¬c → b = mapR f b') :
    ite c a b = mapR f (ite c' a' b') := by
  by_cases h : c
  · rw [if_pos h, if_pos (hc.mp h)]; exact h1 h
  · rw [if_neg h, if_neg (fun h' => h (hc.mpr h'))]; exact h2 h

/-- split an equation between two conditionals on the same condition (up to unfolding) -/
macro "ite_both" : tactic => `(tactic| first
  | refine ite_eq_ite _ (fun _ => ?_) (fun _ => ?_)
  | refine ite_eq_ite' _ _ Iff.rfl (fun _ => ?_) (fun _ => ?_)
  | refine ite_eq_mapR_ite _ _ _ Iff.rfl (fun _ => ?_) (fun _ => ?_))

/-- close `lhs = rhs` with an equation whose right-hand side matches `rhs` syntactically and whose
    left-hand side matches `lhs` up to unfolding -/
macro "rhs_exact " t:term : tactic => `(tactic| (refine Eq.trans ?_ $t; rfl))

/-- congruence for a bind whose first action commutes with `φ` -/
theorem bind_eq_bind_of_mapR {α β : Type} (φ : α → α) {x' x : Res α} {g' h : α → Res β}
    (hx : x' = mapR φ x) (hg : ∀ a, g' (φ a) = h a) : x' >>= g' = x >>= h := by
  subst hx
  cases x with
  | error e => rfl
  | ok a => exact hg a

theorem bind_congr_fun {α β : Type} {x : Res α} {f g : α → Res β} (h : ∀ a, f a = g a) :
    x >>= f = x >>= g := by
  cases x with
  | error e => rfl
  | ok a => exact h a

/-- `setp_call b` closes `X input' = mapR (setP b) (X input)` for a helper `X` whose commutation
    lemma is known, where `input'` is `input` with the flag overwritten by `b` *up to unfolding*;
    one rule is added per helper lemma below -/
syntax "setp_call " term:max : tactic
macro_rules | `(tactic| setp_call $_b) => `(tactic| fail "setp_call: no rule applies")

/-- peel one common layer (a conditional on the same condition, a bind on the same action, a bind
    on a helper call that commutes with overwriting the flag) off an equation between two `Res`
    computations, or close it by unfolding -/
macro "setp_step " b:term:max : tactic => `(tactic| first
  | rfl
  | ite_both
  | (refine bind_congr_fun ?_; intro a;
      first | (obtain ⟨a1, a2, a3⟩ : _ × _ × _ := a) | (obtain ⟨a1, a2⟩ : _ × _ := a) | skip)
  | setp_call $b
  | (apply bind_eq_bind_of_mapR; (· setp_call $b); intro a;
      first | (obtain ⟨a1, a2, a3⟩ : _ × _ × _ := a) | (obtain ⟨a1, a2⟩ : _ × _ := a) | skip)
  | contradiction
  | simp only [setp]
  | split)

/-- map the first component -/
def fst1 {α β : Type} (f : α → α) : α × β → α × β := fun p => (f p.1, p.2)
@[simp, setp] theorem fst1_mk {α β : Type} (f : α → α) (a : α) (b : β) : fst1 f (a, b) = (f a, b) := rfl
@[simp, setp] theorem fst1_fst {α β : Type} (f : α → α) (p : α × β) : (fst1 f p).1 = f p.1 := rfl
@[simp, setp] theorem fst1_snd {α β : Type} (f : α → α) (p : α × β) : (fst1 f p).2 = p.2 := rfl
/-- map the second component -/
def snd1 {α β : Type} (f : β → β) : α × β → α × β := fun p => (p.1, f p.2)
@[simp, setp] theorem snd1_fst {α β : Type} (f : β → β) (p : α × β) : (snd1 f p).1 = p.1 := rfl
@[simp, setp] theorem snd1_snd {α β : Type} (f : β → β) (p : α × β) : (snd1 f p).2 = f p.2 := rfl
@[simp, setp] theorem snd1_mk {α β : Type} (f : β → β) (a : α) (b : β) : snd1 f (a, b) = (a, f b) := rfl

/-! ### the loop commutes with a state map that the body commutes with -/

theorem runWhile_commutes {σ : Type} (φ : σ → σ) (body : σ → Res (σ × Bool))
    (hb : ∀ x, body (φ x) = mapR (fst1 φ) (body x)) :
    ∀ (fuel : Nat) (bud : Option Nat) (x : σ),
      runWhile body fuel bud (φ x) = mapR (fst1 φ) (runWhile body fuel bud x) := by
  intro fuel
  induction fuel with
  | zero => intro bud x; rfl
  | succ n ih =>
    intro bud x
    cases hbx : body x with
    | error err =>
      have h2 : body (φ x) = .error err := by rw [hb, hbx]; rfl
      rw [runWhile_err hbx, runWhile_err h2]; rfl
    | ok r =>
      obtain ⟨x1, c⟩ := r
      have h2 : body (φ x) = .ok (φ x1, c) := by rw [hb, hbx]; rfl
      cases c
      · rw [runWhile_stop hbx, runWhile_stop h2]; rfl
      · cases bud with
        | none => rw [runWhile_cont_none hbx, runWhile_cont_none h2]; exact ih _ _
        | some k =>
          cases k with
          | zero => rw [runWhile_cont_zero hbx, runWhile_cont_zero h2]; rfl
          | succ k => rw [runWhile_cont_succ hbx, runWhile_cont_succ h2]; exact ih _ _

/-! ### primitive transaction operations -/

@[simp, setp] theorem creditPayments_setP (s : State) (e : Env) (b : Bool) :
    creditPayments (s.setP b) e = (creditPayments s e).setP b := rfl
@[simp, setp] theorem Tx.mk_setP (s : State) (b : Bool) (c : Ctx) (o : Out) :
    Tx.mk (s.setP b) c o = (Tx.mk s c o).setP b := rfl
@[simp, setp] theorem Tx.setS_setP (t : Tx) (b : Bool) (s : State) :
    (t.setP b).setS (s.setP b) = (t.setS s).setP b := rfl
@[setp] theorem Tx.setS_s' (t : Tx) (s : State) : (t.setS s).s = s := rfl
@[setp] theorem Tx.setS_o' (t : Tx) (s : State) : (t.setS s).o = t.o := rfl
@[setp] theorem Tx.setS_c' (t : Tx) (s : State) : (t.setS s).c = t.c := rfl
@[setp] theorem Tx.emit_s' (t : Tx) (ev : Ev) : (t.emit ev).s = t.s := rfl
@[setp] theorem Tx.emit_c' (t : Tx) (ev : Ev) : (t.emit ev).c = t.c := rfl
@[simp, setp] theorem Tx.emit_setP (t : Tx) (b : Bool) (ev : Ev) : (t.setP b).emit ev = (t.emit ev).setP b := rfl
@[simp, setp] theorem requireStage_setP (s : State) (b : Bool) (e : Env) (st : Stage) (msg : String) :
    requireStage (s.setP b) e st msg = requireStage s e st msg := rfl
@[simp, setp] theorem extendedPermissions_setP (s : State) (b : Bool) (e : Env) :
    extendedPermissions (s.setP b) e = extendedPermissions s e := rfl
@[simp, setp] theorem ownerOrUser_setP (s : State) (b : Bool) (e : Env) :
    ownerOrUser (s.setP b) e = ownerOrUser s e := rfl
@[simp, setp] theorem stageLt_setP (s : State) (b : Bool) (e : Env) (st : Stage) :
    stageLt (s.setP b) e st = stageLt s e st := rfl
@[simp, setp] theorem ticketsFor_setP (s : State) (b : Bool) (a : Nat) :
    ticketsFor (s.setP b) a = ticketsFor s a := rfl

theorem Tx.freshRng_setP (t : Tx) (b : Bool) :
    (t.setP b).freshRng = (t.freshRng.1, t.freshRng.2.setP b) := by
  unfold Tx.freshRng
  show (match t.c.seeds with | [] => _ | sd :: rest => _) = _
  cases t.c.seeds <;> rfl

theorem Tx.draw_setP (hash : List Nat → List Nat) (t : Tx) (b : Bool) (rng : Rng) :
    (t.setP b).draw hash rng
      = ((t.draw hash rng).1, (t.draw hash rng).2.1, (t.draw hash rng).2.2.setP b) := by
  unfold Tx.draw
  show (match t.c.script with | [] => _ | x :: xs => _) = _
  cases t.c.script <;> rfl

theorem Tx.send_setP (t : Tx) (b : Bool) (a : Nat) (p : Pay) :
    (t.setP b).send a p = mapR (·.setP b) (t.send a p) := by
  unfold Tx.send
  simp only [setp] <;> rfl

theorem Tx.refund_setP (t : Tx) (b : Bool) (e : Env) (a n : Nat) :
    (t.setP b).refund e a n = mapR (·.setP b) (t.refund e a n) := by
  unfold Tx.refund
  simp only [setp, pure_bind, Tx.send_setP] <;> rfl

theorem Tx.sendLocked_setP (t : Tx) (b : Bool) (e : Env) (d a : Nat) :
    (t.setP b).sendLocked e d a = mapR (·.setP b) (t.sendLocked e d a) := by
  unfold Tx.sendLocked
  simp only [setp, pure_bind, Tx.send_setP] <;> rfl

theorem Tx.sendLaunchpadTokens_setP (t : Tx) (b : Bool) (e : Env) (a n : Nat) :
    (t.setP b).sendLaunchpadTokens e a n = mapR (·.setP b) (t.sendLaunchpadTokens e a n) := by
  unfold Tx.sendLaunchpadTokens
  simp only [setp, Tx.send_setP, Tx.sendLocked_setP] <;> rfl

macro_rules | `(tactic| setp_call $b) => `(tactic| rhs_exact Tx.send_setP _ $b _ _)
macro_rules | `(tactic| setp_call $b) => `(tactic| rhs_exact Tx.refund_setP _ $b _ _ _)
macro_rules | `(tactic| setp_call $b) => `(tactic| rhs_exact Tx.sendLocked_setP _ $b _ _ _)
macro_rules | `(tactic| setp_call $b) => `(tactic| rhs_exact Tx.sendLaunchpadTokens_setP _ $b _ _ _)

/-! ### launchpad-common helpers -/

theorem tryCreateTickets_setP (s : State) (b : Bool) (a n : Nat) :
    tryCreateTickets (s.setP b) a n = mapR (·.setP b) (tryCreateTickets s a n) := by
  unfold tryCreateTickets
  simp only [setp] <;> rfl

theorem createMany_setP (b : Bool) : ∀ (l : List (Nat × Nat)) (s : State),
    createMany l (s.setP b) = mapR (·.setP b) (createMany l s)
  | [], s => rfl
  | (a, n) :: rest, s => by
    unfold createMany
    rw [tryCreateTickets_setP]
    cases tryCreateTickets s a n with
    | error e => rfl
    | ok s1 => exact createMany_setP b rest s1

theorem trySetTicketPrice_setP (s : State) (b : Bool) (tok : Token) (amount : Nat) :
    trySetTicketPrice (s.setP b) tok amount = mapR (·.setP b) (trySetTicketPrice s tok amount) := by
  unfold trySetTicketPrice
  simp only [setp] <;> rfl

theorem depositLaunchpadTokens_setP (s : State) (b : Bool) (e : Env) (tw : Nat) :
    depositLaunchpadTokens (s.setP b) e tw = mapR (·.setP b) (depositLaunchpadTokens s e tw) := by
  unfold depositLaunchpadTokens
  simp only [setp] <;> rfl

@[simp, setp] theorem reservedForDeposit_setP (s : State) (b : Bool) :
    reservedForDeposit (s.setP b) = reservedForDeposit s := rfl

theorem settle_setP (s : State) (b : Bool) (e : Env) :
    settle (s.setP b) e = mapR (fst1 (·.setP b)) (settle s e) := by
  unfold settle
  simp only [setp]
  congr 1; funext _; congr 1; funext _
  split <;> simp only [setp] <;> rfl

theorem blacklistMany_setP (e : Env) (b : Bool) : ∀ (l : List Nat) (t : Tx),
    blacklistMany e l (t.setP b) = mapR (·.setP b) (blacklistMany e l t)
  | [], t => rfl
  | a :: rest, t => by
    unfold blacklistMany
    simp only [setp]
    ite_both
    · rfl
    ite_both
    · rfl
    by_cases hc : t.s.confirmed a > 0
    · simp only [hc, if_true, Tx.refund_setP]
      cases t.refund e a (t.s.confirmed a) with
      | error err => rfl
      | ok t1 =>
        simp only [setp]
        rhs_exact blacklistMany_setP e b rest _
    · simp only [hc, if_false]
      rhs_exact blacklistMany_setP e b rest _

theorem addUsersToBlacklist_setP (t : Tx) (b : Bool) (e : Env) (l : List Nat) :
    addUsersToBlacklist (t.setP b) e l = mapR (·.setP b) (addUsersToBlacklist t e l) := by
  unfold addUsersToBlacklist
  simp only [setp, blacklistMany_setP] <;> rfl

theorem unblacklistMany_setP (b : Bool) : ∀ (l : List Nat) (s : State),
    unblacklistMany l (s.setP b) = mapR (·.setP b) (unblacklistMany l s)
  | [], s => rfl
  | a :: rest, s => by
    unfold unblacklistMany
    simp only [setp]
    ite_both
    · rhs_exact unblacklistMany_setP b rest _
    · rfl

theorem removeUsersFromBlacklist_setP (s : State) (b : Bool) (e : Env) (l : List Nat) :
    removeUsersFromBlacklist (s.setP b) e l = mapR (·.setP b) (removeUsersFromBlacklist s e l) := by
  unfold removeUsersFromBlacklist
  simp only [setp, unblacklistMany_setP] <;> rfl

/-! ### guaranteed tickets: allocation and blacklist hooks -/

theorem addV1Many_setP (b : Bool) : ∀ (l : List (Nat × Nat × Nat × Bool)) (s : State) (tw tg : Nat),
    addV1Many l (s.setP b, tw, tg) = mapR (fst1 (·.setP b)) (addV1Many l (s, tw, tg))
  | [], s, tw, tg => rfl
  | (buyer, staking, energy, migrated) :: rest, s, tw, tg => by
    unfold addV1Many
    rw [tryCreateTickets_setP]
    cases tryCreateTickets s buyer (staking + energy) with
    | error e => rfl
    | ok s1 =>
      simp only [setp]
      ite_both
      · rfl
      ite_both
      · rfl
      rhs_exact addV1Many_setP b rest _ _ _

theorem addTicketsV1_setP (s : State) (b : Bool) (e : Env) (l : List (Nat × Nat × Nat × Bool)) :
    addTicketsV1 (s.setP b) e l = mapR (·.setP b) (addTicketsV1 s e l) := by
  unfold addTicketsV1
  simp only [setp, addV1Many_setP] <;> rfl

theorem addV2Many_setP (e : Env) (b : Bool) : ∀ (l : List (Nat × Nat × List (Nat × Nat)))
    (s : State) (r : Nat × Nat × Nat × Nat × Nat),
    addV2Many e l (s.setP b, r) = mapR (fst1 (·.setP b)) (addV2Many e l (s, r))
  | [], s, r => rfl
  | (buyer, n, infos) :: rest, s, (tw, tg, uc, ta, ga) => by
    unfold addV2Many
    simp only [setp]
    ite_both
    · exact addV2Many_setP e b rest s _
    ite_both
    · rfl
    ite_both
    · rfl
    ite_both
    · rfl
    rw [tryCreateTickets_setP]
    cases tryCreateTickets s buyer n with
    | error e => rfl
    | ok s1 =>
      simp only [setp]
      ite_both
      · rfl
      ite_both
      · ite_both
        · rfl
        · rhs_exact addV2Many_setP e b rest _ _
      · rhs_exact addV2Many_setP e b rest _ _

theorem addTicketsV2_setP (t : Tx) (b : Bool) (e : Env) (l : List (Nat × Nat × List (Nat × Nat))) :
    addTicketsV2 (t.setP b) e l = mapR (·.setP b) (addTicketsV2 t e l) := by
  unfold addTicketsV2
  simp only [setp, addV2Many_setP] <;> rfl

theorem clearV1Many_setP (b : Bool) : ∀ (l : List Nat) (s : State) (r : Nat × Nat),
    clearV1Many l (s.setP b, r) = mapR (fst1 (·.setP b)) (clearV1Many l (s, r))
  | [], s, r => rfl
  | u :: rest, s, (removed, tg) => by
    unfold clearV1Many
    simp only [setp]
    ite_both
    · rhs_exact clearV1Many_setP b rest _ _
    cases csub tg ((s.uts u).getD {}).c "guaranteed_tickets_init.rs:95 total_guaranteed -= staking" with
    | error e => rfl
    | ok tg1 =>
      simp only []
      cases csub tg1 ((s.uts u).getD {}).d "guaranteed_tickets_init.rs:96 total_guaranteed -= migration" with
      | error e => rfl
      | ok tg2 => rhs_exact clearV1Many_setP b rest _ _

theorem clearGuaranteedV1_setP (s : State) (b : Bool) (l : List Nat) :
    clearGuaranteedV1 (s.setP b) l = mapR (·.setP b) (clearGuaranteedV1 s l) := by
  unfold clearGuaranteedV1
  simp only [setp, clearV1Many_setP] <;> rfl

theorem clearV2Many_setP (b : Bool) : ∀ (l : List Nat) (s : State) (r : Nat × Nat),
    clearV2Many l (s.setP b, r) = mapR (fst1 (·.setP b)) (clearV2Many l (s, r))
  | [], s, r => rfl
  | u :: rest, s, (nw, tg) => by
    unfold clearV2Many
    simp only [setp]
    cases csub tg (sumG ((s.uts u).getD {}).infos) "v2 guaranteed_tickets_init.rs:142 total_guaranteed -= recovered" with
    | error e => rfl
    | ok tg1 => rhs_exact clearV2Many_setP b rest _ _

theorem clearGuaranteedV2_setP (s : State) (b : Bool) (l : List Nat) :
    clearGuaranteedV2 (s.setP b) l = mapR (·.setP b) (clearGuaranteedV2 s l) := by
  unfold clearGuaranteedV2
  simp only [setp, clearV2Many_setP] <;> rfl

theorem restoreV1Many_setP (b : Bool) : ∀ (l : List Nat) (s : State) (r : Nat × Nat),
    restoreV1Many l (s.setP b, r) = mapR (fst1 (·.setP b)) (restoreV1Many l (s, r))
  | [], s, r => rfl
  | u :: rest, s, (nw, tg) => by
    unfold restoreV1Many
    simp only [setp]
    ite_both
    · exact restoreV1Many_setP b rest _ _
    ite_both
    · exact restoreV1Many_setP b rest _ _
    ite_both
    · rfl
    rhs_exact restoreV1Many_setP b rest _ _

theorem restoreGuaranteedV1_setP (s : State) (b : Bool) (l : List Nat) :
    restoreGuaranteedV1 (s.setP b) l = mapR (·.setP b) (restoreGuaranteedV1 s l) := by
  unfold restoreGuaranteedV1
  simp only [setp, restoreV1Many_setP] <;> rfl

theorem restoreV2Many_setP (b : Bool) : ∀ (l : List Nat) (s : State) (r : Nat × Nat),
    restoreV2Many l (s.setP b, r) = mapR (fst1 (·.setP b)) (restoreV2Many l (s, r))
  | [], s, r => rfl
  | u :: rest, s, (nw, tg) => by
    unfold restoreV2Many
    simp only [setp]
    ite_both
    · exact restoreV2Many_setP b rest _ _
    ite_both
    · ite_both
      · rfl
      · rhs_exact restoreV2Many_setP b rest _ _
    · rhs_exact restoreV2Many_setP b rest _ _

theorem restoreGuaranteedV2_setP (s : State) (b : Bool) (l : List Nat) :
    restoreGuaranteedV2 (s.setP b) l = mapR (·.setP b) (restoreGuaranteedV2 s l) := by
  unfold restoreGuaranteedV2
  simp only [setp, restoreV2Many_setP] <;> rfl


/-! ### distribution step -/

theorem guarBody_setP (s : State) (b : Bool) : guarBody (s.setP b) = guarBody s := rfl

def LSt.setP (x : LSt) (b : Bool) : LSt := { x with tx := x.tx.setP b }

theorem leftoverBody_setP (hash : List Nat → List Nat) (v2 : Bool) (nrOrig last : Nat) (b : Bool)
    (x : LSt) :
    leftoverBody hash v2 nrOrig last (x.setP b)
      = mapR (fst1 (·.setP b)) (leftoverBody hash v2 nrOrig last x) := by
  unfold leftoverBody
  simp only [LSt.setP]
  by_cases h : nrOrig + x.additional ≥ last
  · simp only [h, if_true, setp, Tx.draw_setP]
    repeat' ite_both
    all_goals rfl
  · simp only [h, if_false, setp, Tx.draw_setP]
    repeat' ite_both
    all_goals rfl

theorem guaranteedSubstep_setP (hash : List Nat → List Nat) (t : Tx) (b : Bool) (g : GuarOp) :
    guaranteedSubstep hash (t.setP b) g = mapR (fst1 (·.setP b)) (guaranteedSubstep hash t g) := by
  unfold guaranteedSubstep
  simp only [setp, guarBody_setP]
  congr 1
  funext ⟨x, b1, st⟩
  cases st with
  | outOfFuel => rfl
  | interrupted => rfl
  | completed =>
    simp only [setp]
    refine bind_eq_bind_of_mapR (fst1 (LSt.setP · b)) ?_ ?_
    · rhs_exact runWhile_commutes (LSt.setP · b) _ (leftoverBody_setP hash _ _ _ b) _ _ _
    · intro ⟨y, b2, st2⟩
      cases st2 <;> rfl

@[simp, setp] theorem creditAdditional_setP (s : State) (b : Bool) (n : Nat) :
    creditAdditional (s.setP b) n = (creditAdditional s n).setP b := rfl

theorem distribute_setP (hash : List Nat → List Nat) (t : Tx) (b : Bool) (e : Env)
    (hg : t.s.variant.isV2 = true → b = t.s.paused) :
    distribute hash (t.setP b) e = mapR (·.setP b) (distribute hash t e) := by
  unfold distribute
  simp only [setp]
  cases hv : t.s.variant.isV2
  · simp only [Bool.false_eq_true, if_false]
    cases hop : t.s.op with
    | additional d =>
      cases d <;> simp only [setp, pure_bind, Tx.freshRng_setP, guaranteedSubstep_setP] <;>
        repeat' (setp_step b)
    | _ =>
      simp only [setp, pure_bind, Tx.freshRng_setP, guaranteedSubstep_setP] <;>
      repeat' (setp_step b)
  · obtain rfl := hg hv
    simp only [if_true]
    cases hop : t.s.op with
    | additional d =>
      cases d <;> simp only [setp, pure_bind, Tx.freshRng_setP, guaranteedSubstep_setP] <;>
        repeat' (setp_step t.s.paused)
    | _ =>
      simp only [setp, pure_bind, Tx.freshRng_setP, guaranteedSubstep_setP] <;>
      repeat' (setp_step t.s.paused)


/-! ### vesting -/

@[simp, setp] theorem claimable1_setP (s : State) (b : Bool) (e : Env) (a : Nat) :
    claimable1 (s.setP b) e a = claimable1 s e a := rfl
@[simp, setp] theorem claimable2_setP (s : State) (b : Bool) (e : Env) (a : Nat) :
    claimable2 (s.setP b) e a = claimable2 s e a := rfl

theorem setSchedule1_setP (s : State) (b : Bool) (e : Env) (a1 a2 a3 a4 a5 : Nat) :
    setSchedule1 (s.setP b) e a1 a2 a3 a4 a5 = mapR (·.setP b) (setSchedule1 s e a1 a2 a3 a4 a5) := by
  unfold setSchedule1
  simp only [setp] <;> rfl

theorem setSchedule2_setP (t : Tx) (b : Bool) (e : Env) (ms : List (Nat × Nat)) :
    setSchedule2 (t.setP b) e ms = mapR (·.setP b) (setSchedule2 t e ms) := by
  unfold setSchedule2
  simp only [setp] <;> rfl

theorem claimPaymentOwn_setP (t : Tx) (b : Bool) (e : Env) :
    claimPaymentOwn (t.setP b) e = mapR (·.setP b) (claimPaymentOwn t e) := by
  unfold claimPaymentOwn
  simp only [setp]
  repeat' (setp_step b)

theorem claimSettle_setP (t : Tx) (b : Bool) (e : Env) :
    claimSettle (t.setP b) e = mapR (·.setP b) (claimSettle t e) := by
  unfold claimSettle
  simp only [setp, settle_setP]
  ite_both
  · rfl
  refine bind_congr_fun ?_
  intro ⟨s, redeem, refund⟩
  simp only [setp, Tx.refund_setP]
  refine bind_congr_fun ?_
  intro t1
  by_cases h : redeem > 0 <;> simp only [h, if_true, if_false] <;> rfl

theorem claimPay_setP (v2 : Bool) (t : Tx) (b : Bool) (e : Env) (c : Nat) :
    claimPay v2 (t.setP b) e c = mapR (·.setP b) (claimPay v2 t e c) := by
  unfold claimPay
  simp only [setp, Tx.send_setP]
  ite_both
  · refine bind_congr_fun ?_
    intro t1
    cases v2 <;> rfl
  · rfl

theorem claimBody_setP (v2 : Bool) (t : Tx) (b : Bool) (e : Env) :
    claimBody v2 (t.setP b) e = mapR (·.setP b) (claimBody v2 t e) := by
  unfold claimBody
  simp only [setp, claimSettle_setP, claimPay_setP]

theorem claimVested_setP (t : Tx) (b : Bool) (e : Env)
    (hg : t.s.variant.isV2 = true → b = t.s.paused) :
    claimVested (t.setP b) e = mapR (·.setP b) (claimVested t e) := by
  rw [claimVested_eq, claimVested_eq]
  simp only [setp, claimBody_setP]
  ite_both
  · rw [hg ‹_›]
  · rfl


/-! ### NFT helpers -/

theorem confirmNft_setP (s : State) (b : Bool) (e : Env) :
    confirmNft (s.setP b) e = mapR (·.setP b) (confirmNft s e) := by
  unfold confirmNft
  simp only [setp] <;> rfl

theorem refundNftMany_setP (b : Bool) : ∀ (l : List Nat) (t : Tx),
    refundNftMany l (t.setP b) = mapR (·.setP b) (refundNftMany l t)
  | [], t => rfl
  | u :: rest, t => by
    unfold refundNftMany
    simp only [setp]
    ite_both
    · have h1 := Tx.send_setP (t.setS { t.s with payers := (swapRemove t.s.payers u).1 }) b u t.s.nftCost
      refine Eq.trans (b := match mapR (·.setP b) ((t.setS { t.s with payers := (swapRemove t.s.payers u).1 }).send u t.s.nftCost) with
        | .error e => .error e
        | .ok t' => refundNftMany rest t') ?_ ?_
      · rw [← h1]; rfl
      · cases (t.setS { t.s with payers := (swapRemove t.s.payers u).1 }).send u t.s.nftCost with
        | error err => rfl
        | ok t1 => exact refundNftMany_setP b rest t1
    · exact refundNftMany_setP b rest t

def NSt.setP (x : NSt) (b : Bool) : NSt := { x with tx := x.tx.setP b }

theorem nftBody_setP (hash : List Nat → List Nat) (total : Nat) (b : Bool) (x : NSt) :
    nftBody hash total (x.setP b) = mapR (fst1 (·.setP b)) (nftBody hash total x) := by
  unfold nftBody
  simp only [NSt.setP]
  simp only [setp, Tx.draw_setP]
  ite_both
  · rfl
  split <;> rfl

theorem nftSubstep_setP (hash : List Nat → List Nat) (t : Tx) (b : Bool) (rng : Rng) :
    nftSubstep hash (t.setP b) rng = mapR (fst1 (·.setP b)) (nftSubstep hash t rng) := by
  unfold nftSubstep
  simp only [setp]
  refine bind_eq_bind_of_mapR (fst1 (NSt.setP · b)) ?_ ?_
  · rhs_exact runWhile_commutes (NSt.setP · b) _ (nftBody_setP hash _ b) _ _ _
  · intro ⟨y, b2, st2⟩
    cases st2 <;> rfl

macro_rules | `(tactic| setp_call $b) => `(tactic| rhs_exact nftSubstep_setP _ _ $b _)
macro_rules | `(tactic| setp_call $b) => `(tactic| rhs_exact guaranteedSubstep_setP _ _ $b _)

theorem selectNft_setP (hash : List Nat → List Nat) (t : Tx) (b : Bool) (e : Env) :
    selectNft hash (t.setP b) e = mapR (·.setP b) (selectNft hash t e) := by
  unfold selectNft
  simp only [setp]
  cases hop : t.s.op with
  | additional d =>
    cases d <;> simp only [setp, pure_bind, Tx.freshRng_setP, nftSubstep_setP] <;>
      repeat' (setp_step b)
  | _ =>
    simp only [setp, pure_bind, Tx.freshRng_setP, nftSubstep_setP] <;>
    repeat' (setp_step b)

theorem secondary_setP (hash : List Nat → List Nat) (t : Tx) (b : Bool) (e : Env) :
    secondary hash (t.setP b) e = mapR (·.setP b) (secondary hash t e) := by
  unfold secondary
  simp only [setp]
  cases hop : t.s.op with
  | additional d =>
    cases d <;> simp only [setp, pure_bind, Tx.freshRng_setP, nftSubstep_setP, guaranteedSubstep_setP] <;>
      repeat' (setp_step b)
  | _ =>
    simp only [setp, pure_bind, Tx.freshRng_setP, nftSubstep_setP, guaranteedSubstep_setP] <;>
    repeat' (setp_step b)

theorem claimNft_setP (t : Tx) (b : Bool) (e : Env) :
    claimNft (t.setP b) e = mapR (·.setP b) (claimNft t e) := by
  unfold claimNft
  simp only [setp]
  by_cases hw : (swapRemove t.s.nftWinners e.caller).2 = true
  · simp only [hw, if_true, setp]
    repeat' (setp_step b)
  · simp only [hw, if_false, setp]
    by_cases hp : (swapRemove t.s.payers e.caller).2 = true
    · simp only [hp, if_true, setp]
      repeat' (setp_step b)
    · simp only [hp, if_false, setp]
      repeat' (setp_step b)

theorem claimNftPayment_setP (t : Tx) (b : Bool) (e : Env) :
    claimNftPayment (t.setP b) e = mapR (·.setP b) (claimNftPayment t e) := by
  unfold claimNftPayment
  simp only [setp, Tx.send_setP]
  repeat' (setp_step b)

theorem claimPaymentCommon_setP (t : Tx) (b : Bool) (e : Env) :
    claimPaymentCommon (t.setP b) e = mapR (·.setP b) (claimPaymentCommon t e) := by
  unfold claimPaymentCommon
  simp only [setp, Tx.send_setP]
  repeat' (setp_step b)


/-! ### the gated bodies of launchpad-common: the flag may be overwritten by its own value -/

theorem confirmTickets_setP (t : Tx) (b : Bool) (e : Env) (n : Nat) (hb : b = t.s.paused) :
    confirmTickets (t.setP b) e n = mapR (·.setP b) (confirmTickets t e n) := by
  unfold confirmTickets
  simp only [setp]
  rw [← hb]
  repeat' (setp_step b)

theorem filterTickets_setP (t : Tx) (b : Bool) (e : Env) (hb : b = t.s.paused) :
    filterTickets (t.setP b) e = mapR (·.setP b) (filterTickets t e) := by
  unfold filterTickets
  simp only [setp]
  rw [← hb]
  cases hop : t.s.op <;> simp only [setp] <;> repeat' (setp_step b)

def SelSt.setP (x : SelSt) (b : Bool) : SelSt := { x with tx := x.tx.setP b }

theorem selectBody_setP (hash : List Nat → List Nat) (nr last : Nat) (b : Bool) (x : SelSt) :
    selectBody hash nr last (x.setP b) = mapR (fst1 (·.setP b)) (selectBody hash nr last x) := by
  unfold selectBody
  simp only [SelSt.setP]
  simp only [setp, Tx.draw_setP]
  repeat' ite_both
  all_goals rfl

theorem selectWinners_setP (hash : List Nat → List Nat) (t : Tx) (b : Bool) (e : Env)
    (hb : b = t.s.paused) :
    selectWinners hash (t.setP b) e = mapR (·.setP b) (selectWinners hash t e) := by
  unfold selectWinners
  simp only [setp]
  rw [← hb]
  cases hop : t.s.op with
  | none =>
    simp only [setp, Tx.freshRng_setP]
    repeat' (first | rfl | (refine bind_congr_fun ?_; intro _))
    refine bind_eq_bind_of_mapR (fst1 (SelSt.setP · b)) ?_ ?_
    · rhs_exact runWhile_commutes (SelSt.setP · b) _ (selectBody_setP hash _ _ b) _ _ _
    · intro ⟨y, b2, st2⟩
      cases st2 <;> rfl
  | select r p =>
    simp only [setp]
    repeat' (first | rfl | (refine bind_congr_fun ?_; intro _))
    refine bind_eq_bind_of_mapR (fst1 (SelSt.setP · b)) ?_ ?_
    · rhs_exact runWhile_commutes (SelSt.setP · b) _ (selectBody_setP hash _ _ b) _ _ _
    · intro ⟨y, b2, st2⟩
      cases st2 <;> rfl
  | _ => simp only [setp] <;> repeat' (setp_step b)


/-! ### all endpoints -/

/-- `pause` / `unpause` -/
def Call.isPauseCtl : Call → Bool
  | .pause | .unpause => true
  | _ => false

/-- the calls whose body reads the flag: confirm / filter / select in every variant, and the
    distribution step and claims in v2 -/
def gated (v : Variant) : Call → Bool
  | .confirm _ | .filter | .select => true
  | .distribute | .claim => v.isV2
  | _ => false

theorem vested_of_isV2 {v : Variant} (h : v.isV2 = true) : v.vested = true := by
  cases v <;> simp_all [Variant.isV2, Variant.vested]

/-- **every endpoint body other than `pause`/`unpause` commutes with overwriting the flag**
    (for a gated call: with overwriting it by its own value) -/
theorem exec_setP (hash : List Nat → List Nat) (t : Tx) (b : Bool) (e : Env) (c : Call)
    (hc : c.isPauseCtl = false) (hg : gated t.s.variant c = true → b = t.s.paused) :
    exec hash (t.setP b) e c = mapR (·.setP b) (exec hash t e c) := by
  cases c with
  | pause | unpause => simp [Call.isPauseCtl] at hc
  | confirm n => exact confirmTickets_setP t b e n (hg rfl)
  | filter => exact filterTickets_setP t b e (hg rfl)
  | select => exact selectWinners_setP hash t b e (hg rfl)
  | distribute => exact distribute_setP hash t b e hg
  | claim =>
    simp only [exec, setp]
    ite_both
    · exact claimVested_setP t b e hg
    · simp only [setp, settle_setP, Tx.refund_setP, Tx.sendLaunchpadTokens_setP, claimNft_setP]
      repeat' (setp_step b)
  | addTickets l => simp only [exec, setp, createMany_setP] <;> repeat' (setp_step b)
  | addTicketsV1 l => simp only [exec, setp, addTicketsV1_setP] <;> repeat' (setp_step b)
  | addTicketsV2 l => exact addTicketsV2_setP t b e l
  | deposit => simp only [exec, setp, depositLaunchpadTokens_setP] <;> repeat' (setp_step b)
  | setTicketPrice tok amount =>
    simp only [exec, setp, trySetTicketPrice_setP] <;> repeat' (setp_step b)
  | setPerTicket amount => simp only [exec, setp] <;> repeat' (setp_step b)
  | setConfStart r => simp only [exec, setp] <;> repeat' (setp_step b)
  | setSelStart r => simp only [exec, setp] <;> repeat' (setp_step b)
  | setClaimStart r => simp only [exec, setp] <;> repeat' (setp_step b)
  | setSupport a => rfl
  | claimPayment =>
    simp only [exec, setp]
    ite_both
    · exact claimPaymentOwn_setP t b e
    · simp only [setp, claimPaymentCommon_setP, claimNftPayment_setP]
      repeat' (setp_step b)
  | blacklist l =>
    simp only [exec, setp, addUsersToBlacklist_setP, clearGuaranteedV2_setP, clearGuaranteedV1_setP,
      refundNftMany_setP]
    repeat' (setp_step b)
  | refundUsers l =>
    simp only [exec, setp, addUsersToBlacklist_setP, clearGuaranteedV2_setP] <;> repeat' (setp_step b)
  | unblacklist l =>
    simp only [exec, setp, removeUsersFromBlacklist_setP, restoreGuaranteedV2_setP,
      restoreGuaranteedV1_setP] <;> repeat' (setp_step b)
  | setSchedule1 a1 a2 a3 a4 a5 => simp only [exec, setp, setSchedule1_setP] <;> repeat' (setp_step b)
  | setSchedule2 l => exact setSchedule2_setP t b e l
  | confirmNft => simp only [exec, setp, confirmNft_setP] <;> repeat' (setp_step b)
  | selectNft => exact selectNft_setP hash t b e
  | secondary => exact secondary_setP hash t b e
  | setNftCost c => simp only [exec, setp] <;> repeat' (setp_step b)
  | issueSft => simp only [exec, setp] <;> repeat' (setp_step b)
  | createSfts => simp only [exec, setp] <;> repeat' (setp_step b)
  | setTransferRole o => simp only [exec, setp] <;> repeat' (setp_step b)
  | sftSetup => rfl


/-! ### whole transactions -/

@[simp] theorem gated_setP (s : State) (b : Bool) (c : Call) : gated (s.setP b).variant c = gated s.variant c := rfl

/-- **`step` commutes with overwriting the flag** for every call other than `pause`/`unpause`
    (for a gated call: with overwriting it by its own value); errors included -/
theorem step_setP (hash : List Nat → List Nat) (s : State) (b : Bool) (e : Env) (c : Call)
    (hc : c.isPauseCtl = false) (hg : gated s.variant c = true → b = s.paused) :
    step hash (s.setP b) e c = mapR (fst1 (·.setP b)) (step hash s e c) := by
  unfold step
  simp only [setp]
  cases endpointMeta s.variant c with
  | none => rfl
  | some m =>
    simp only []
    ite_both
    · rfl
    ite_both
    · rfl
    have h := exec_setP hash ⟨creditPayments s e, ⟨e.budget, e.seeds, e.script⟩, {}⟩ b e c hc hg
    rw [h]
    cases exec hash ⟨creditPayments s e, ⟨e.budget, e.seeds, e.script⟩, {}⟩ e c <;> rfl

/-- an accepted gated call was made on an un-paused contract -/
theorem gated_ok_unpaused {hash : List Nat → List Nat} {s s' : State} {e : Env} {c : Call} {o : Out}
    (h : step hash s e c = .ok (s', o)) (hg : gated s.variant c = true) : s.paused = false := by
  obtain ⟨m, t, _, _, _, hx, _, _⟩ := step_ok_inv h
  cases hp : s.paused with
  | false => rfl
  | true =>
    exfalso
    cases c <;> simp only [gated, Bool.false_eq_true] at hg
    · simp [exec, confirmTickets, bind_ok_iff, tx0, hp] at hx
    · simp [exec, filterTickets, bind_ok_iff, tx0, hp] at hx
    · simp [exec, selectWinners, bind_ok_iff, tx0, hp] at hx
    · have hv := vested_of_isV2 hg
      simp [exec, claimVested, bind_ok_iff, tx0, hp, hg, hv] at hx
    · simp [exec, distribute, bind_ok_iff, tx0, hp, hg] at hx


theorem Call.isPauseCtl_eq_false {c : Call} (h1 : c ≠ .pause) (h2 : c ≠ .unpause) :
    c.isPauseCtl = false := by
  cases c <;> simp_all [Call.isPauseCtl]

/-- frame: an accepted call other than `pause`/`unpause` leaves the flag alone -/
theorem step_paused_eq {hash : List Nat → List Nat} {s s' : State} {e : Env} {c : Call} {o : Out}
    (h : step hash s e c = .ok (s', o)) (hc : c.isPauseCtl = false) : s'.paused = s.paused := by
  have h1 := step_setP hash s s.paused e c hc (fun _ => rfl)
  rw [State.setP_self, h] at h1
  simp only [mapR_ok, fst1_mk, Except.ok.injEq, Prod.mk.injEq, and_true] at h1
  have := congrArg State.paused h1
  simpa using this

/-- forward transparency: an accepted call is accepted on the un-paused state, same output -/
theorem step_unpaused_of_ok {hash : List Nat → List Nat} {s s' : State} {e : Env} {c : Call} {o : Out}
    (h : step hash s e c = .ok (s', o)) (hc : c.isPauseCtl = false) :
    step hash (s.setP false) e c = .ok (s'.setP false, o) := by
  rw [step_setP hash s false e c hc (fun hg => (gated_ok_unpaused h hg).symm), h]
  rfl

/-- backward transparency for calls that do not read the flag -/
theorem step_of_unpaused_ok {hash : List Nat → List Nat} {s s0' : State} {e : Env} {c : Call} {o : Out}
    (h : step hash (s.setP false) e c = .ok (s0', o)) (hc : c.isPauseCtl = false)
    (hg : gated s.variant c = false) :
    step hash s e c = .ok (s0'.setP s.paused, o) := by
  have h1 := step_setP hash (s.setP false) s.paused e c hc (by rw [gated_setP, hg]; intro h; cases h)
  rw [State.setP_setP, State.setP_self, h] at h1
  exact h1

/-- a call rejected for a reason other than the pause is rejected on the un-paused state too -/
theorem step_unpaused_of_error {hash : List Nat → List Nat} {s : State} {e : Env} {c : Call} {err : Err}
    (h : step hash s e c = .error err) (hc : c.isPauseCtl = false)
    (hg : ¬(gated s.variant c = true ∧ s.paused = true)) :
    step hash (s.setP false) e c = .error err := by
  rw [step_setP hash s false e c hc, h]
  · rfl
  · intro hgt
    cases hp : s.paused with
    | false => rfl
    | true => exact absurd ⟨hgt, hp⟩ hg

/-! ### histories -/

/-- the pause-free history: drop `pause`/`unpause` and the calls rejected because of the pause
    (a gated call made while the flag is set), following the real run from `s` -/
def erasePause (hash : List Nat → List Nat) : State → List (Env × Call) → List (Env × Call)
  | _, [] => []
  | s, (e, c) :: rest =>
    match step hash s e c with
    | .ok (s', _) =>
      if c.isPauseCtl then erasePause hash s' rest else (e, c) :: erasePause hash s' rest
    | .error _ =>
      if c.isPauseCtl || (gated s.variant c && s.paused) then erasePause hash s rest
      else (e, c) :: erasePause hash s rest

theorem step_ctl_setP {hash : List Nat → List Nat} {s s' : State} {e : Env} {c : Call} {o : Out}
    (h : step hash s e c = .ok (s', o)) (hc : c.isPauseCtl = true) : s'.setP false = s.setP false := by
  obtain ⟨m, t, hm, hpay, _, hx, hs, ho⟩ := step_ok_inv h
  cases c <;> simp only [Call.isPauseCtl, Bool.false_eq_true] at hc
  all_goals
    simp [endpointMeta] at hm
    subst hm
    simp at hpay
    simp [exec, pure, Except.pure] at hx
    subst hx
    simp [hs, tx0, Tx.setS, Tx.emit, creditPayments_nopay s e hpay.1 hpay.2, State.setP]

theorem run_cons_ok {hash : List Nat → List Nat} {s s' : State} {e : Env} {c : Call} {o : Out}
    (rest : List (Env × Call)) (h : step hash s e c = .ok (s', o)) :
    run hash s ((e, c) :: rest) = run hash s' rest := by
  simp only [run, h]

theorem run_cons_error {hash : List Nat → List Nat} {s : State} {e : Env} {c : Call} {err : Err}
    (rest : List (Env × Call)) (h : step hash s e c = .error err) :
    run hash s ((e, c) :: rest) = run hash s rest := by
  simp only [run, h]

theorem erasePause_cons_ok {hash : List Nat → List Nat} {s s' : State} {e : Env} {c : Call} {o : Out}
    (rest : List (Env × Call)) (h : step hash s e c = .ok (s', o)) :
    erasePause hash s ((e, c) :: rest)
      = if c.isPauseCtl then erasePause hash s' rest else (e, c) :: erasePause hash s' rest := by
  simp only [erasePause, h]

theorem erasePause_cons_error {hash : List Nat → List Nat} {s : State} {e : Env} {c : Call} {err : Err}
    (rest : List (Env × Call)) (h : step hash s e c = .error err) :
    erasePause hash s ((e, c) :: rest)
      = if c.isPauseCtl || (gated s.variant c && s.paused) then erasePause hash s rest
        else (e, c) :: erasePause hash s rest := by
  simp only [erasePause, h]

/-- **pause is transparent over histories**: the final state of any history equals, up to the flag,
    the final state of its pause-free sub-history run from the un-paused state -/
theorem run_erasePause (hash : List Nat → List Nat) : ∀ (h : List (Env × Call)) (s : State),
    (run hash s h).setP false = run hash (s.setP false) (erasePause hash s h)
  | [], s => rfl
  | (e, c) :: rest, s => by
    cases hst : step hash s e c with
    | ok r =>
      obtain ⟨s', o⟩ := r
      rw [run_cons_ok rest hst, erasePause_cons_ok rest hst]
      cases hc : c.isPauseCtl with
      | true =>
        simp only [if_true]
        rw [run_erasePause hash rest s', step_ctl_setP hst hc]
      | false =>
        simp only [Bool.false_eq_true, if_false]
        rw [run_cons_ok _ (step_unpaused_of_ok hst hc)]
        exact run_erasePause hash rest s'
    | error err =>
      rw [run_cons_error rest hst, erasePause_cons_error rest hst]
      by_cases hd : (c.isPauseCtl || (gated s.variant c && s.paused)) = true
      · simp only [hd, if_true]
        exact run_erasePause hash rest s
      · rw [if_neg hd]
        have hc : c.isPauseCtl = false := by
          cases h : c.isPauseCtl <;> simp_all
        have hg : ¬(gated s.variant c = true ∧ s.paused = true) := by
          intro ⟨h1, h2⟩; simp [h1, h2] at hd
        rw [run_cons_error _ (step_unpaused_of_error hst hc hg)]
        exact run_erasePause hash rest s


/-! ### vocabulary and auxiliary facts for LP.Props.C19frame -/

/-- the calls whose gate reads the flag -/
def GatedCall (v : Variant) (c : Call) : Prop :=
  (∃ n, c = .confirm n) ∨ c = .filter ∨ c = .select ∨ (v = .guarV2 ∧ (c = .distribute ∨ c = .claim))

theorem isV2_iff (v : Variant) : v.isV2 = true ↔ v = .guarV2 := by
  cases v <;> simp [Variant.isV2]

theorem gated_iff (v : Variant) (c : Call) : gated v c = true ↔ GatedCall v c := by
  unfold GatedCall
  cases c <;> simp [gated, isV2_iff]

theorem gated_false_of {v : Variant} {c : Call} (h : ¬GatedCall v c) : gated v c = false := by
  cases hg : gated v c with
  | false => rfl
  | true => exact absurd ((gated_iff v c).mp hg) h


/-- what `erasePause` deletes: `pause`/`unpause`, and gated calls made while the flag is set
    (these are rejected); everything else — accepted calls and calls rejected for another reason —
    stays, in order -/
theorem erasePause_spec (hash : List Nat → List Nat) (s : State) (e : Env) (c : Call)
    (rest : List (Env × Call)) :
    erasePause hash s ((e, c) :: rest)
      = (if c.isPauseCtl || (gated s.variant c && s.paused) then [] else [(e, c)])
        ++ erasePause hash (run hash s [(e, c)]) rest := by
  cases hst : step hash s e c with
  | ok r =>
    obtain ⟨s', o⟩ := r
    rw [erasePause_cons_ok rest hst, run_cons_ok [] hst]
    cases hc : c.isPauseCtl with
    | true => simp [run]
    | false =>
      have : (gated s.variant c && s.paused) = false := by
        cases hg : gated s.variant c with
        | false => rfl
        | true => rw [gated_ok_unpaused hst hg]; rfl
      simp [run, this]
  | error err =>
    rw [erasePause_cons_error rest hst, run_cons_error [] hst]
    by_cases hd : (c.isPauseCtl || (gated s.variant c && s.paused)) = true
    · simp only [hd, if_true]; rfl
    · simp only [hd]; rfl


theorem run_all_rejected (hash : List Nat → List Nat) (s : State) : ∀ (l : List (Env × Call)),
    (∀ ec ∈ l, ∃ err, step hash s ec.1 ec.2 = .error err) → run hash s l = s
  | [], _ => rfl
  | (e, c) :: rest, hall => by
    obtain ⟨err, herr⟩ := hall (e, c) (by simp)
    rw [run_cons_error rest herr]
    exact run_all_rejected hash s rest (fun ec hec => hall ec (by simp [hec]))

/-- the calls of a paused stretch that survive `erasePause` are rejected without the pause too -/
theorem erasePause_paused_stretch (hash : List Nat → List Nat) (s1 : State) (e2 : Env) (s2 : State) (o2 : Out)
    (h2 : step hash s1 e2 .unpause = .ok (s2, o2)) : ∀ (mid : List (Env × Call)),
    (∀ ec ∈ mid, ∃ err, step hash s1 ec.1 ec.2 = .error err) →
    ∀ ec ∈ erasePause hash s1 (mid ++ [(e2, Call.unpause)]),
      ∃ err, step hash { s1 with paused := false } ec.1 ec.2 = .error err
  | [], _ => by
    intro ec hec
    rw [List.nil_append, erasePause_cons_ok [] h2] at hec
    simp [Call.isPauseCtl, erasePause] at hec
  | (e, c) :: rest, hall => by
    intro ec hec
    obtain ⟨err, herr⟩ := hall (e, c) (by simp)
    have ih := erasePause_paused_stretch hash s1 e2 s2 o2 h2 rest
      (fun ec hec => hall ec (by simp [hec]))
    rw [List.cons_append, erasePause_cons_error _ herr] at hec
    by_cases hd : (c.isPauseCtl || (gated s1.variant c && s1.paused)) = true
    · rw [if_pos hd] at hec
      exact ih ec hec
    · rw [if_neg hd] at hec
      rcases List.mem_cons.mp hec with rfl | hec
      · have hc : c.isPauseCtl = false := by
          cases h : c.isPauseCtl <;> simp_all
        have hg : ¬(gated s1.variant c = true ∧ s1.paused = true) := by
          intro ⟨h1, h2⟩; simp [h1, h2] at hd
        exact ⟨err, step_unpaused_of_error herr hc hg⟩
      · exact ih ec hec


/-! ### outputs along a history -/

/-- the accepted calls of a history with their outputs, in order -/
def runOuts (hash : List Nat → List Nat) : State → List (Env × Call) → List (Env × Call × Out)
  | _, [] => []
  | s, (e, c) :: rest =>
    match step hash s e c with
    | .ok (s', o) => (e, c, o) :: runOuts hash s' rest
    | .error _ => runOuts hash s rest

theorem runOuts_cons_ok {hash : List Nat → List Nat} {s s' : State} {e : Env} {c : Call} {o : Out}
    (rest : List (Env × Call)) (h : step hash s e c = .ok (s', o)) :
    runOuts hash s ((e, c) :: rest) = (e, c, o) :: runOuts hash s' rest := by
  simp only [runOuts, h]

theorem runOuts_cons_error {hash : List Nat → List Nat} {s : State} {e : Env} {c : Call} {err : Err}
    (rest : List (Env × Call)) (h : step hash s e c = .error err) :
    runOuts hash s ((e, c) :: rest) = runOuts hash s rest := by
  simp only [runOuts, h]

/-- **the pause-free sub-history produces exactly the outputs of the accepted calls of the
    original history other than `pause`/`unpause`** (same calls, same environments, same
    transfers / events / return values, same order) -/
theorem runOuts_erasePause (hash : List Nat → List Nat) : ∀ (h : List (Env × Call)) (s : State),
    runOuts hash (s.setP false) (erasePause hash s h)
      = (runOuts hash s h).filter (fun x => !x.2.1.isPauseCtl)
  | [], s => rfl
  | (e, c) :: rest, s => by
    cases hst : step hash s e c with
    | ok r =>
      obtain ⟨s', o⟩ := r
      rw [runOuts_cons_ok rest hst, erasePause_cons_ok rest hst]
      cases hc : c.isPauseCtl with
      | true =>
        simp only [if_true, List.filter_cons, hc, Bool.not_true, Bool.false_eq_true, if_false]
        rw [← step_ctl_setP hst hc]
        exact runOuts_erasePause hash rest s'
      | false =>
        simp only [Bool.false_eq_true, if_false, List.filter_cons, hc, Bool.not_false, if_true]
        rw [runOuts_cons_ok _ (step_unpaused_of_ok hst hc), runOuts_erasePause hash rest s']
    | error err =>
      rw [runOuts_cons_error rest hst, erasePause_cons_error rest hst]
      by_cases hd : (c.isPauseCtl || (gated s.variant c && s.paused)) = true
      · simp only [hd, if_true]
        exact runOuts_erasePause hash rest s
      · rw [if_neg hd]
        have hc : c.isPauseCtl = false := by
          cases h : c.isPauseCtl <;> simp_all
        have hg : ¬(gated s.variant c = true ∧ s.paused = true) := by
          intro ⟨h1, h2⟩; simp [h1, h2] at hd
        rw [runOuts_cons_error _ (step_unpaused_of_error hst hc hg)]
        exact runOuts_erasePause hash rest s


end LP
