import LP.Proofs.ReachNGEasy
/-
  LP.Proofs.ReachNGAlloc — preservation of `ng_WF` by the two endpoints of `Variant.nftGuar` that
  move the guaranteed-ticket reserve before the selection: `addTicketsV1` and `blacklist` (ticket
  refund + v1 clear hook + NFT-fee refund).  There is no un-blacklist endpoint in this variant
  (`Variant.hasUnblacklist .nftGuar = false`).  The reserve part is `step_guar` (C12) exactly as in
  `LP/Proofs/ReachV1Alloc.lean`; the fee part is `refundNftMany` as in `LP/Proofs/ReachNftBl.lean`.
-/
namespace LP
open LP.FY LP.Events LP.Props.C14

theorem ng_addTicketsV1 {T0 : Nat} {hash : List Nat → List Nat} {s s' : State} {e : Env} {o : Out}
    {r : Nat} {l : List (Nat × Nat × Nat × Bool)} (h : ng_WF T0 s r) (hr : r ≤ e.round)
    (hpos : ∀ q ∈ l, 1 ≤ q.2.1 + q.2.2.1)
    (hs : step hash s e (.addTicketsV1 l) = .ok (s', o)) : ng_WF T0 s' e.round := by
  have hiv2 : s.variant.isV2 = false := (ng_flags h.var).2.2.1
  obtain ⟨t, hx, rfl⟩ := rb_step_np (by
    intro m hm; simp only [endpointMeta] at hm; split at hm
    · simp at hm; rw [← hm]
    · cases hm) hs
  simp only [exec, bind_ok_iff, pure_ok_iff] at hx
  obtain ⟨s1, hat, rfl⟩ := hx
  have hat' : addTicketsV1 s e l = .ok s1 := hat
  obtain ⟨hst, s0', hcm, hrg, hbt, hlt1, wl, u, tw, tg, heq⟩ := v1_addTicketsV1_inv hat'
  have hlt : e.round < s.cfg.conf := rb_stage_addTickets hst
  have hz : ∀ a, s.confirmed a = 0 := h.tlConf (by omega)
  have hns : s.flags.started = false := ng_notStarted_of_lt h hr (Or.inl hlt)
  obtain ⟨hadd, htg, L0, hp, ha, hg⟩ := ng_phase_notStarted h.phase hns
  have hX : GuarInvX s := (v1_GX_iff s hiv2).mpr ⟨hg.gi, hg.bl_range⟩
  obtain ⟨hcons, hX'⟩ := v1_step_guar (c := .addTicketsV1 l) rfl hX hs
  have hpos' : ∀ p ∈ v1_proj l, 1 ≤ p.2 := by
    intro p hp1
    obtain ⟨q, hq, rfl⟩ := List.mem_map.mp hp1
    exact hpos q hq
  obtain ⟨hnd, hnone, _, hlast, hchain, hfr, hfb, _⟩ := createMany_ok (v1_proj l) s s0' hcm
  have hch := hchain hpos'
  have hnew : ∀ a, a ∈ (v1_proj l).map Prod.fst → a ∉ L0.map Prod.fst := by
    intro a ha1 ha2
    obtain ⟨rr, hrr⟩ := rb_Chain_range_some ha.chain ha2
    have hn : s.range a = none := hnone a ha1
    have hrr' : s.range a = some rr := hrr
    rw [hn] at hrr'; cases hrr'
  have hl0 : s.lastTicketId = ticketTotal L0 := ha.last
  have hnrw0 : s.nrWinning = T0 - s.totalGuaranteed := hp.nrw
  have htg0 : s.totalGuaranteed ≤ T0 := htg
  have hs1v : (Tx.setS (rbTx s e) s1).s = s1 := rfl
  rw [hs1v] at hcons hX' ⊢
  have hiv2' : s1.variant.isV2 = false := by rw [heq]; exact hiv2
  have hg' := (v1_GX_iff s1 hiv2').mp hX'
  have htw : s1.nrWinning = tw := by rw [heq]
  have htg1 : s1.totalGuaranteed = tg := by rw [heq]
  rw [htw, htg1] at hcons
  have hrg1 : s1.range = s0'.range := hrg
  have hbt1 : s1.batch = s0'.batch := hbt
  have hlt2 : s1.lastTicketId = s0'.lastTicketId := hlt1
  have hfl : s1.flags = s.flags := by rw [heq]
  have hside : nf_side s1 = nf_side s := by rw [heq]; rfl
  have hw1 : s1.nftWinners = s.nftWinners := congrArg nf_Side.winners hside
  have hop1 : s1.op = s.op := by rw [heq]
  refine ng_WF_build (nf_side s) hside h.side (by rw [heq]; exact h.var) (by rw [heq]; exact h.pricePos)
    (by rw [heq]; exact h.tokNe) (by rw [heq]; exact h.static) ?_ ?_ ?_ ?_ ?_
  · intro _ a; rw [heq]; exact hz a
  · intro hst2
    have hst3 : s.flags.started = true := by rw [heq] at hst2; exact hst2
    have := h.tlStarted hst3
    rw [heq]
    exact ⟨by show s.cfg.conf ≤ e.round; omega, by show s.cfg.sel ≤ e.round; omega⟩
  · intro _ hd
    have hd' : s.deposited = true := by rw [heq] at hd; exact hd
    have h0 := ng_lp_of_notSel (s := s) h hp.notSelected (Or.inr (by omega)) hd'
    have e1 : v1_owed s1 = v1_owed s := by
      unfold v1_owed
      have hadd' : s.flags.additional = false := hadd
      rw [hfl, htw, htg1, hadd']
      simp only [Bool.false_eq_true, if_false]
      omega
    have e2 : s1.perTicket = s.perTicket := by rw [heq]
    have e3 : s1.bal = s.bal := by rw [heq]
    have e4 : s1.lpTok = s.lpTok := by rw [heq]
    rw [e1, e2, e3, e4]; exact h0
  · rw [hfl, hop1, hw1]; exact h.noWinE
  · have htgv : (v1_gv s1).tg = tg := htg1
    left
    refine v1_mk_phaseA (L0 := L0 ++ v1_proj l) (by show s1.flags.additional = false; rw [hfl]; exact hadd)
      (by rw [htgv]; omega) ?_ ?_ ⟨hg'.gi, hg'.bl_range⟩
    · refine ⟨?_, ?_, ?_, ?_, ?_, ⟨?_, ?_, ?_⟩, ?_, ?_, ?_⟩
      · show s1.flags.filtered = false; rw [hfl]; exact hp.notFiltered
      · show s1.flags.selected = false; rw [hfl]; exact hp.notSelected
      · show s1.nrWinning = T0 - (v1_gv s1).tg
        rw [htw, htgv]; omega
      · show s1.status = _; rw [heq]; exact hp.status0
      · show s1.posToId = _; rw [heq]; exact hp.pos0
      · rw [List.map_append, List.nodup_append]
        exact ⟨hp.ok.nodup, hnd, fun a ha1 b hb1 hab => hnew b hb1 (hab ▸ ha1)⟩
      · intro p hp1
        rcases List.mem_append.mp hp1 with hp1 | hp1
        · exact hp.ok.pos p hp1
        · exact hpos' p hp1
      · intro p hp1
        show s1.confirmed p.1 ≤ p.2
        have : s1.confirmed = s.confirmed := by rw [heq]
        rw [this, hz]; omega
      · intro a _
        show s1.confirmed a = 0
        have : s1.confirmed = s.confirmed := by rw [heq]
        rw [this]; exact hz a
      · intro a ha1
        rw [List.map_append, List.mem_append, not_or] at ha1
        show s1.range a = none
        rw [hrg1, hfr a ha1.2]; exact hp.outR a ha1.1
      · show (nf_side s).tix = s1.price * sumOver s1.confirmed ((L0 ++ v1_proj l).map Prod.fst)
        have e1 : s1.confirmed = s.confirmed := by rw [heq]
        have e4 : s1.price = s.price := by rw [heq]
        rw [e1, e4, sumOver_zero _ _ (fun a _ => hz a)]
        have : (nf_side s).tix = s.price * sumOver s.confirmed (L0.map Prod.fst) := hp.pay
        rw [sumOver_zero _ _ (fun a _ => hz a)] at this
        exact this
    · refine ⟨?_, ?_, ?_, ?_⟩
      · show s1.flags.started = false; rw [hfl]; exact ha.notStarted
      · show s1.op = .none
        rw [hop1]; exact ha.op
      · show Chain (L0 ++ v1_proj l) 1 s1.range s1.batch
        rw [rb_Chain_append, hrg1, hbt1]
        constructor
        · apply rb_Chain_congr ha.chain hp.ok.pos
          · intro a ha1; exact hfr a (fun hh => hnew a hh ha1)
          · intro x _ hx2; exact hfb x (by omega)
        · rw [← hl0, Nat.add_comm]; exact hch
      · show s1.lastTicketId = ticketTotal (L0 ++ v1_proj l)
        rw [hlt2, hlast, rb_ticketTotal_append, hl0]

/-! ### blacklist -/

/-- storage after an accepted `blacklist` call of the variant: ticket refunds (`blState`), the v1
    clear hook (`wl`, `uu`, `bb`, `nw`, `tg`), the fee refunds (`P`, `B`) -/
def ng_blState (s : State) (l : List Nat) (wl : List Nat) (uu bb : Nat → Option UTS) (nw tg : Nat)
    (P : List Nat) (B : Bal) : State :=
  { blState s l with whitelist := wl, uts := uu, blUts := bb, nrWinning := nw, totalGuaranteed := tg,
                     payers := P, bal := B }

/-- storage after the ticket refunds and the v1 clear hook -/
def ng_clState (s : State) (l : List Nat) (wl : List Nat) (uu bb : Nat → Option UTS) (nw tg : Nat) :
    State :=
  { blState s l with whitelist := wl, uts := uu, blUts := bb, nrWinning := nw, totalGuaranteed := tg }

/-- shape of an accepted `blacklist` call -/
theorem ng_blacklist_shape {hash : List Nat → List Nat} {s : State} {e : Env} {l : List Nat} {t : Tx}
    (hv : s.variant = .nftGuar) (hx : exec hash (rbTx s e) e (.blacklist l) = .ok t) :
    (s.stage e = .addTickets ∨ s.stage e = .confirm) ∧ l.Nodup ∧
    (∀ u ∈ l, s.blacklist u = false ∧ (s.range u).isSome = true) ∧
    s.price * blConfSum s l ≤ s.bal s.payTok 0 ∧
    ∃ wl uu bb nw tg t2 t3, t2.s = ng_clState s l wl uu bb nw tg ∧
      refundNftMany l t2 = .ok t3 ∧ t.s = t3.s := by
  obtain ⟨_, hv2, hv3, hv1, _⟩ := ng_flags hv
  rw [exec_blacklist_eq] at hx
  simp only [bind_ok_iff, pure_ok_iff] at hx
  obtain ⟨t1, h1, t2, h2, t3, h3, h4⟩ := hx
  obtain ⟨_, hstage, hnd, hall, hle, rfl⟩ := (addUsersToBlacklist_ok_iff _ _ _ _).mp h1
  simp only [rbTx_s] at hstage hall hle
  have hvar : (blTx (rbTx s e) e l).s.variant = s.variant := rfl
  unfold blHookG at h2
  simp only [hvar, hv3, hv1, Bool.false_eq_true, if_false, if_true, bind_ok_iff, pure_ok_iff] at h2
  obtain ⟨s1, hc, rfl⟩ := h2
  obtain ⟨⟨wl, uu, bb, nw, tg, hs1⟩, _⟩ := LP.Events.clearGuaranteedV1_frame hc
  have hvar2 : ((blTx (rbTx s e) e l).setS s1).s.variant = s.variant := by
    show s1.variant = s.variant
    rw [hs1]; rfl
  unfold blHookN at h3
  simp only [hvar2, hv2, if_true] at h3
  refine ⟨hstage, hnd, hall, hle, wl, uu, bb, nw, tg, _, t3, ?_, h3, ?_⟩
  · show s1 = _
    rw [hs1]; rfl
  · have hvar3 : t3.s.variant = s.variant := by
      obtain ⟨P, B, hshape⟩ := nf_refundNftMany_shape l h3
      rw [hshape]
      show s1.variant = s.variant
      rw [hs1]; rfl
    rw [← h4]
    unfold blHookE
    rw [hvar3, hv3]
    rfl

theorem ng_blacklist {T0 : Nat} {hash : List Nat → List Nat} {s s' : State} {e : Env} {o : Out}
    {r : Nat} {l : List Nat} (h : ng_WF T0 s r) (hr : r ≤ e.round)
    (hs : step hash s e (.blacklist l) = .ok (s', o)) : ng_WF T0 s' e.round := by
  have hiv2 : s.variant.isV2 = false := (ng_flags h.var).2.2.1
  obtain ⟨t, hx, hs't⟩ := rb_step_np (by intro m hm; simp [endpointMeta] at hm; rw [← hm]) hs
  obtain ⟨hstage, hnd, hall, hle, wl, uu, bb, nw, tg, t2, t3, ht2, h2, ht3⟩ :=
    ng_blacklist_shape h.var hx
  obtain ⟨P, B, hshape⟩ := nf_refundNftMany_shape l h2
  have hs'eq : s' = ng_blState s l wl uu bb nw tg P B := by
    rw [hs't, ht3, hshape, ht2]; rfl
  have hlt_or : e.round < s.cfg.conf ∨ e.round < s.cfg.sel := by
    rcases hstage with h1 | h1
    · exact Or.inl (rb_stage_addTickets h1)
    · exact Or.inr (rb_stage_confirm h1).2
  have hns : s.flags.started = false := ng_notStarted_of_lt h hr hlt_or
  obtain ⟨hna, htg, L0, hp, ha, hg⟩ := ng_phase_notStarted h.phase hns
  obtain ⟨hna', hnsel, hw0⟩ := ng_early_side h hns
  have hs0 := h.side
  -- the reserve
  have hX : GuarInvX s := (v1_GX_iff s hiv2).mpr ⟨hg.gi, hg.bl_range⟩
  obtain ⟨hcons, hX'⟩ := v1_step_guar (c := .blacklist l) rfl hX hs
  have hiv2' : s'.variant.isV2 = false := by rw [hs'eq]; exact hiv2
  have hg' := (v1_GX_iff s' hiv2').mp hX'
  have hnw1 : s'.nrWinning = nw := by rw [hs'eq]; rfl
  have htg1 : s'.totalGuaranteed = tg := by rw [hs'eq]; rfl
  rw [hnw1, htg1] at hcons
  have hnrw0 : s.nrWinning = T0 - s.totalGuaranteed := hp.nrw
  have htg0 : s.totalGuaranteed ≤ T0 := htg
  -- the effect of the fee refunds
  obtain ⟨a1, a2, _, _, _, _, a7⟩ := refundNftMany_recon l h2
  obtain ⟨_, hPnd, hPmem, _⟩ := refundNftMany_exact l _ _ (by rw [ht2]; exact hs0.nodupP) hnd h2
  have hP2 : t3.s.payers = P := by rw [hshape]
  have hB2 : t3.s.bal = B := by rw [hshape]
  have hbsP : t2.s.payers = s.payers := by rw [ht2]; rfl
  have hbsC : t2.s.nftCost = s.nftCost := by rw [ht2]; rfl
  have hbsB : t2.s.bal = s.bal.sub s.payTok 0 (s.price * blConfSum s l) := by rw [ht2]; rfl
  rw [hP2, hB2, hbsP, hbsC, hbsB] at a1
  rw [hP2, hbsP] at a2 hPmem
  rw [hP2] at hPnd
  rw [hB2, hbsC, hbsB] at a7
  -- the listed users are allocated
  have hall' : ∀ u ∈ l, u ∈ L0.map Prod.fst := by
    intro u hu
    apply Classical.byContradiction
    intro hnin
    have h1 : s.range u = none := hp.outR u hnin
    have h2 := (hall u hu).2
    have h2' : (s.range u).isSome = true := h2
    rw [h1] at h2'; cases h2'
  have hle' : s.price * blConfSum s l ≤ s.bal s.payTok 0 := hle
  have hsum := rb_sumOver_blacklist l s.confirmed (L0.map Prod.fst) hp.ok.nodup hnd hall'
  have hpay : (nf_side s).tix = s.price * sumOver s.confirmed (L0.map Prod.fst) := hp.pay
  have hXle : s.price * blConfSum s l ≤ (nf_side s).tix := by
    rw [hpay]; unfold blConfSum; rw [← hsum, Nat.mul_add]; omega
  -- the two liabilities
  have hheld : (nf_side s).held = s.nftCost.amount * s.payers.length := by
    simp [nf_Side.held, nf_side, hna', hw0]
  have hside : nf_side s' = nf_side ({ blState s l with payers := P, bal := B }) := by
    rw [hs'eq]; rfl
  have hbsC' : (blState s l).nftCost = s.nftCost := rfl
  have hheld' : (nf_side { blState s l with payers := P, bal := B }).held
      = s.nftCost.amount * P.length := by
    simp only [nf_Side.held, nf_side]
    have e1 : (blState s l).flags.additional = false := hna'
    have e2 : (blState s l).nftWinners = [] := hw0
    simp [e1, e2, hbsC']
  have hsame : (nf_side { blState s l with payers := P, bal := B }).same ↔ (nf_side s).same := Iff.rfl
  have hisLp : (nf_side { blState s l with payers := P, bal := B }).isLp ↔ (nf_side s).isLp := Iff.rfl
  have hmul : s.nftCost.amount * P.length ≤ s.nftCost.amount * s.payers.length :=
    Nat.mul_le_mul_left _ a2
  have hsubpay : (s.bal.sub s.payTok 0 (s.price * blConfSum s l)) s.payTok 0
      = s.bal s.payTok 0 - s.price * blConfSum s l := by simp [Bal.sub]
  have hkey : (nf_side { blState s l with payers := P, bal := B }).tix
        = (nf_side s).tix - s.price * blConfSum s l ∧
      ((nf_side s).same → s.nftCost.amount * P.length ≤ B s.payTok 0) := by
    by_cases hsm : (nf_side s).same
    · have hsm' : s.nftCost.tok = s.payTok ∧ s.nftCost.nonce = 0 := hsm
      have hfl := hs0.feeLe hsm
      rw [hheld] at hfl
      have hfl' : s.nftCost.amount * s.payers.length ≤ s.bal s.payTok 0 := hfl
      rw [hsm'.1, hsm'.2, hsubpay] at a1
      have htx : (nf_side s).tix = s.bal s.payTok 0 - s.nftCost.amount * s.payers.length := by
        unfold nf_Side.tix nf_Side.feeIn; rw [if_pos hsm, hheld]; rfl
      rw [htx] at hXle
      refine ⟨?_, fun _ => by omega⟩
      unfold nf_Side.tix nf_Side.feeIn
      rw [if_pos (hsame.mpr hsm), if_pos hsm, hheld', hheld]
      show B s.payTok 0 - _ = s.bal s.payTok 0 - _ - _
      omega
    · refine ⟨?_, fun hh => absurd hh hsm⟩
      have hsm' : ¬ (s.payTok = s.nftCost.tok ∧ 0 = s.nftCost.nonce) := by
        intro hh; exact hsm ⟨hh.1.symm, hh.2.symm⟩
      unfold nf_Side.tix nf_Side.feeIn
      rw [if_neg (fun hh => hsm (hsame.mp hh)), if_neg hsm]
      show B s.payTok 0 - 0 = s.bal s.payTok 0 - 0 - _
      rw [a7 _ _ hsm', hsubpay]; omega
  obtain ⟨htix, hcover⟩ := hkey
  have hfl : s'.flags = s.flags := by rw [hs'eq]; rfl
  have hcf : s'.confirmed = fun a => if a ∈ l then 0 else s.confirmed a := by rw [hs'eq]; rfl
  have hcfg : s'.cfg = s.cfg := by rw [hs'eq]; rfl
  refine ng_WF_build _ hside ?_ (by rw [hs'eq]; exact h.var) (by rw [hs'eq]; exact h.pricePos)
    (by rw [hs'eq]; exact h.tokNe) (by rw [hs'eq]; exact h.static) ?_ ?_ ?_ ?_ ?_
  · refine ⟨?_, ?_, ?_, hPnd, hs0.nodupW, ?_, hs0.winLe, ?_, hs0.fresh, ?_, hs0.noWin⟩
    rotate_right
    · intro a hcl
      have hcl' : s.claimed a = true := hcl
      have : s.claimed a = false := hs0.fresh hna a
      rw [this] at hcl'; cases hcl'
    · intro t k b1 b2 b3
      show B t k = 0
      have b3' : ¬ (t = s.nftCost.tok ∧ k = s.nftCost.nonce) := b3
      have b1' : ¬ (t = s.payTok ∧ k = 0) := b1
      rw [a7 t k b3']
      simp only [Bal.sub, b1', if_false]
      exact hs0.balOther t k b1 b2 b3
    · intro hsm
      rw [hheld']
      exact hcover (hsame.mp hsm)
    · intro b1 b2
      have b1' : ¬ (nf_side s).same := fun hh => b1 (hsame.mpr hh)
      have b1'' : ¬ (s.nftCost.tok = s.payTok ∧ s.nftCost.nonce = 0) := b1'
      have := hs0.feeEq b1' (fun hh => b2 (hisLp.mpr hh))
      rw [hheld] at this
      have this' : s.bal s.nftCost.tok s.nftCost.nonce = s.nftCost.amount * s.payers.length := this
      rw [hheld']
      show B s.nftCost.tok s.nftCost.nonce = _
      have hsb : (s.bal.sub s.payTok 0 (s.price * blConfSum s l)) s.nftCost.tok s.nftCost.nonce
          = s.bal s.nftCost.tok s.nftCost.nonce := by
        simp only [Bal.sub, b1'', if_false]
      rw [hsb, this'] at a1
      omega
    · intro a _
      show a ∉ s.nftWinners
      rw [hw0]; simp
    · intro a ha1
      show 0 < (if a ∈ l then 0 else s.confirmed a)
      have ha1' : a ∈ P ∨ a ∈ s.nftWinners := ha1
      rcases ha1' with ha1' | ha1'
      · obtain ⟨m1, m2⟩ := (hPmem a).mp ha1'
        rw [if_neg m2]
        exact hs0.conf a (Or.inl m1)
      · rw [hw0] at ha1'; cases ha1'
  · intro hlt2 a
    rw [hcf]
    show (if a ∈ l then 0 else s.confirmed a) = 0
    split
    · rfl
    · exact h.tlConf (by rw [hcfg] at hlt2; omega) a
  · intro hst2
    rw [hfl] at hst2
    have := h.tlStarted hst2
    rw [hcfg]; omega
  · intro hq hd
    have hd' : s.deposited = true := by rw [hs'eq] at hd; exact hd
    have hne : Token.esdt s.lpTok ≠ s.payTok := fun hh => h.tokNe hh.symm
    -- the launchpad-token slot is untouched
    have hBlp : B (.esdt s.lpTok) 0 = s.bal (.esdt s.lpTok) 0 ∧ ng_LpSep s r := by
      rcases hq with hq | hq
      · have hq' : ¬ (nf_side s).isLp := by rw [hs'eq] at hq; exact hq
        have hq'' : ¬ (Token.esdt s.lpTok = s.nftCost.tok ∧ 0 = s.nftCost.nonce) := by
          intro hh; exact hq' ⟨hh.1.symm, hh.2.symm⟩
        refine ⟨?_, Or.inl hq'⟩
        rw [a7 _ _ hq'']
        simp only [Bal.sub, hne, false_and, if_false]
      · have hq' : e.round < s.cfg.conf := by rw [hcfg] at hq; exact hq
        obtain ⟨hp0, _⟩ := ng_no_payers h hr hq'
        rw [hp0] at a1 a2
        have hPl : P.length = 0 := by simpa using a2
        rw [hPl] at a1
        simp only [List.length_nil, Nat.mul_zero, Nat.add_zero] at a1
        refine ⟨?_, Or.inr (by omega)⟩
        by_cases hsl : Token.esdt s.lpTok = s.nftCost.tok ∧ 0 = s.nftCost.nonce
        · rw [hsl.1, hsl.2, a1]
          rw [← hsl.1, ← hsl.2]
          simp only [Bal.sub, hne, false_and, if_false]
        · rw [a7 _ _ hsl]
          simp only [Bal.sub, hne, false_and, if_false]
    have h0 := ng_lp_of_notSel (s := s) h hnsel hBlp.2 hd'
    have e1 : v1_owed s' = v1_owed s := by
      unfold v1_owed
      rw [hfl, hnw1, htg1, hna']
      simp only [Bool.false_eq_true, if_false]
      omega
    have e2 : s'.perTicket = s.perTicket := by rw [hs'eq]; rfl
    have e3 : s'.lpTok = s.lpTok := by rw [hs'eq]; rfl
    have e4 : s'.bal = B := by rw [hs'eq]; rfl
    rw [e1, e2, e3, e4, hBlp.1]
    exact h0
  · intro _ _
    have : s'.nftWinners = s.nftWinners := by rw [hs'eq]; rfl
    rw [this]; exact hw0
  · have htgv : (v1_gv s').tg = tg := htg1
    left
    refine v1_mk_phaseA (L0 := L0) (by show s'.flags.additional = false; rw [hfl]; exact hna)
      (by rw [htgv]; omega) ?_ ?_ ⟨hg'.gi, hg'.bl_range⟩
    · refine ⟨?_, ?_, ?_, ?_, ?_, ⟨hp.ok.nodup, hp.ok.pos, ?_⟩, ?_, ?_, ?_⟩
      · show s'.flags.filtered = false; rw [hfl]; exact hp.notFiltered
      · show s'.flags.selected = false; rw [hfl]; exact hp.notSelected
      · show s'.nrWinning = T0 - (v1_gv s').tg
        rw [hnw1, htgv]; omega
      · show s'.status = _
        have : s'.status = s.status := by rw [hs'eq]; rfl
        rw [this]; exact hp.status0
      · show s'.posToId = _
        have : s'.posToId = s.posToId := by rw [hs'eq]; rfl
        rw [this]; exact hp.pos0
      · intro p hp1
        show s'.confirmed p.1 ≤ p.2
        rw [hcf]
        show (if p.1 ∈ l then 0 else s.confirmed p.1) ≤ p.2
        split
        · omega
        · exact hp.ok.le p hp1
      · intro a ha1
        show s'.confirmed a = 0
        rw [hcf]
        show (if a ∈ l then 0 else s.confirmed a) = 0
        split
        · rfl
        · exact hp.outC a ha1
      · intro a ha1
        show s'.range a = none
        have : s'.range = s.range := by rw [hs'eq]; rfl
        rw [this]; exact hp.outR a ha1
      · show (nf_side { blState s l with payers := P, bal := B }).tix
          = s'.price * sumOver s'.confirmed (L0.map Prod.fst)
        have e1 : s'.price = s.price := by rw [hs'eq]; rfl
        rw [htix, hpay, e1, hcf]
        unfold blConfSum
        rw [← hsum, Nat.mul_add]
        omega
    · refine ⟨?_, ?_, ?_, ?_⟩
      · show s'.flags.started = false; rw [hfl]; exact ha.notStarted
      · show s'.op = .none
        have : s'.op = s.op := by rw [hs'eq]; rfl
        rw [this]; exact ha.op
      · show Chain L0 1 s'.range s'.batch
        have e1 : s'.range = s.range := by rw [hs'eq]; rfl
        have e2 : s'.batch = s.batch := by rw [hs'eq]; rfl
        rw [e1, e2]; exact ha.chain
      · show s'.lastTicketId = ticketTotal L0
        have : s'.lastTicketId = s.lastTicketId := by rw [hs'eq]; rfl
        rw [this]; exact ha.last

end LP
