import LP.Proofs.ReachBEV2
import LP.Proofs.ReachV1Base
import LP.Proofs.ReachG1Base
/-
  LP.Proofs.ReachBEV1 — the v1 guaranteed-ticket launchpads form `be_Family`s:
  `Variant.migration` and `Variant.lockedGuar` (reachable states `v1_Reach hash v`, common claim
  path) and `Variant.guarV1` (reachable states `g1_Reach hash`, vesting claim path, so `be_NC` is
  needed as for `guarV2`).  Side conditions on histories: `EnvOK`, `v1_CallOK`.
-/
namespace LP
open LP.Props LP.Events LP.FY

/-- side conditions on the transactions of a history of the v1 developments -/
def be_POK1 (e : Env) (c : Call) : Prop := EnvOK e ∧ v1_CallOK c

/-- the phase structure shared by `v1_WF` and `g1_WF` -/
theorem be_Tix_of_v1_PhaseC {T0 : Nat} {c : Core} {g : v1_G} (h : v1_PhaseC T0 c g) : be_Tix c := by
  rcases h with ⟨_, _, ⟨L0, hp, ⟨ha, _⟩ | ⟨hb, _⟩⟩ | ⟨hc, _⟩ | hE⟩ | ⟨_, hd⟩
  · exact be_Tix_of_PhA hp ha
  · exact be_Tix_of_PhB hp hb
  · exact be_Tix_of_PhC hc
  · apply be_Tix_of_alloc hE.filtered _ hE.alloc
    intro f rm hop
    obtain ⟨lo, off, add, ⟨h1, _⟩ | ⟨rng, h1⟩, _⟩ := hE.dist
    · rw [h1] at hop; cases hop
    · rw [h1] at hop; cases hop
  · exact be_Tix_of_PhD hd

theorem be_v1_additional_of_notFiltered {T0 : Nat} {c : Core} {g : v1_G} (h : v1_PhaseC T0 c g)
    (hf : c.flags.filtered = false) : c.flags.additional = false := by
  rcases h with ⟨h1, _⟩ | ⟨_, hd⟩
  · exact h1
  · rw [hd.filtered] at hf; cases hf

/-! ### migration, lockedGuar -/

theorem be_BV_reach_v1 {hash : List Nat → List Nat} {v : Variant} {s : State} {r : Nat}
    (h : v1_Reach hash v s r) : be_BV s := by
  induction h with
  | init a e s h => exact be_BV_init h
  | call s r e c s' o _ _ _ _ h4 ih => exact be_BV_step ih h4
  | wait s r r' _ _ ih => exact ih

theorem be_good_v1 {hash : List Nat → List Nat} {v : Variant} (hv : v1_Fam v) {s : State} {r : Nat}
    (h : v1_Reach hash v s r) : be_Good s := by
  obtain ⟨a0, ha⟩ := v1_Reach_iff.mp h
  have wf := v1_reach_WF hv ha
  have hnv : s.variant.vested = false := (v1_fam_flags wf.var).1
  have hbv := be_BV_reach_v1 h
  exact ⟨be_Tix_of_v1_PhaseC wf.phase, hbv.1, hbv.2,
    fun h1 => (by rw [hnv] at h1; cases h1), fun h1 => (by rw [hnv] at h1; cases h1)⟩

theorem be_family_v1 (hash : List Nat → List Nat) {v : Variant} (hv : v1_Fam v) :
    be_Family hash be_POK1 (v1_Reach hash v) :=
  ⟨fun hs hr hp hst => .call _ _ _ _ _ _ hs hr hp.1 hp.2 hst, fun hs hr => .wait _ _ _ hs hr,
    fun hs => be_good_v1 hv hs⟩

/-! ### guarV1 -/

theorem be_BV_reach_g1 {hash : List Nat → List Nat} {s : State} {r : Nat}
    (h : g1_Reach hash s r) : be_BV s := by
  induction h with
  | init a e s h => exact be_BV_init h
  | call s r e c s' o _ _ _ _ h4 ih => exact be_BV_step ih h4
  | wait s r r' _ _ ih => exact ih

/-- before the filter completes nobody has settled -/
theorem be_fresh_g1 {T0 : Nat} {s : State} {r : Nat} (wf : g1_WF T0 s r)
    (hf : s.flags.filtered = false) : ∀ a, s.claimed a = false := by
  have ha : s.flags.additional = false := be_v1_additional_of_notFiltered wf.phase hf
  intro a
  exact (wf.vs.fresh ha a).2.2

theorem be_NC_reach_g1 {hash : List Nat → List Nat} {s : State} {r : Nat}
    (h : g1_Reach hash s r) : be_NC s := by
  induction h with
  | init a e s h =>
    intro u hu
    have := congrArg CB.blacklist (init_cb h)
    rw [show s.blacklist = fun _ => false from this] at hu
    cases hu
  | call s r e c s' o hre h1 h2 h3 h4 ih =>
    obtain ⟨a0, ha⟩ := g1_Reach_iff.mp hre
    have wf := g1_reach_WF ha
    refine be_NC_step (be_Tix_of_v1_PhaseC wf.phase) (be_BV_reach_g1 hre).1 ih ?_ h4
    intro hc
    have hst : s.stage e = .addTickets ∨ s.stage e = .confirm :=
      C06.blacklist_only_before_selection hash s e c _
        (hc.elim Or.inl (fun x => Or.inr (Or.inl x))) h4
    have hns := g1_notStarted_of_lt wf h1 (be_stage_early_lt hst)
    have hnf : s.flags.filtered = false := by
      obtain ⟨_, _, L0, hp, _⟩ := v1_phase_notStarted wf.phase hns
      exact hp.notFiltered
    exact be_fresh_g1 wf hnf
  | wait s r r' _ _ ih => exact ih

theorem be_good_g1 {hash : List Nat → List Nat} {s : State} {r : Nat}
    (h : g1_Reach hash s r) : be_Good s := by
  obtain ⟨a0, ha⟩ := g1_Reach_iff.mp h
  have wf := g1_reach_WF ha
  have hbv := be_BV_reach_g1 h
  exact ⟨be_Tix_of_v1_PhaseC wf.phase, hbv.1, hbv.2,
    fun _ => be_NC_reach_g1 h, fun _ hf => be_fresh_g1 wf hf⟩

theorem be_family_g1 (hash : List Nat → List Nat) :
    be_Family hash be_POK1 (g1_Reach hash) :=
  ⟨fun hs hr hp hst => .call _ _ _ _ _ _ hs hr hp.1 hp.2 hst, fun hs hr => .wait _ _ _ hs hr,
    fun hs => be_good_g1 hs⟩

end LP
