import LP.Step
import LP.Proofs.Loop
import LP.Proofs.StepLemmas
import LP.Proofs.Frame
import LP.Proofs.GuarLoop
import LP.Proofs.Leftover
/-
  LP.Proofs.Resume — the gas-resumable endpoints other than `filterTickets`
  (`selectWinners`, `selectNft`, `distribute`, `secondary`): what an interrupted call saves,
  that a resumed call consumes no seed, and that any accepted schedule of chunked calls ends in
  the storage of the single unbudgeted call.

  Technique.  The loops of these endpoints carry the transaction record `tx : Tx` as draw
  source / draw log.  Only two components of it are ever touched by `Tx.draw`: the hook's
  script and the draw log; they are isolated as a *draw context* `DCtx`.  Every loop body is
  shown to be the image, under a lifting map, of a *core* body that does not mention the
  transaction at all (`selectBody_lift`, …); `runWhile_map` transports whole runs.  The generic
  resumption lemmas of `LP/Proofs/Loop.lean` are then applied to the core bodies.

  Contents.
  * generic: `runWhile_map`, `runWhile_resume_any`, `runWhile_interrupted_measure`,
    `runWhile_completed_stop`; `DCtx`, `Tx.withDctx`, `Tx.draw_withDctx`, `firstRng`, `callTx`.
  * 1 `selectWinners`: `SelCore`, `selCoreBody`, `selectBody_lift`, `selCoreOf` / `selStOf`,
    `selectSaved`, `selectDone`, `SelectPre`, `selectWinners_eq` (the endpoint as a function of the
    core loop), `selectWinners_inv`, `selectWinners_ok_cases`, (a) `selectWinners_interrupted`
    (`_model`), (b) `selectWinners_seeds`, `selectWinners_resumed_env_irrelevant`,
    (c) `selectCalls`, `selectCalls_run`, `selectCalls_eq_single`, `selectCalls_deterministic`,
    `selectWinners_single_accepted`, (d) `selCore_completes`, `selectCalls_completes`; `step_select`.
  * 2 NFT draw: `NCore`, `nftCoreBody`, `nftBody_lift`, `NInv`, `nftSubstep_eq`, `selectNft_eq`,
    `selectNft_ok_cases`, `selectNft_interrupted`, `selectNft_seeds`,
    `selectNft_resumed_env_irrelevant`, `NftReady`, `nftCalls`, `nftCalls_run`,
    `nftCalls_eq_single`, `nftCore_completes`, `nftCalls_completes`.
  * 3 `distribute`: `LCore`, `leftCoreBody`, `leftoverBody_lift`, `guaranteedSubstep_eq`,
    `distribute_eq`, `distribute_ok_cases` (`distSaved1`, `distSaved2`, `distDone`), `guarBody_len`,
    `guarRun_completed_nil`, `guarRun_nil`, `distCalls`, `distCalls_run`, `distCalls_eq_single`,
    `distribute_interrupted_saves`, `distribute_seeds`, `distribute_resumed_env_irrelevant`,
    `distribute_whitelist_progress`, `distCalls_first_loop_completes`, `guarRun_total`.
  * 4 `secondary`: `guaranteedSubstep_seeds`, `nftSubstep_seeds`, `secondary_seeds`,
    `secondary_nft_phase_no_seed`, `secondary_guar_phase_no_seed`, `secondary_nft_rng`.
  (5, the frame between calls, is in `LP/Proofs/ResumeFrame.lean`.)
-/
namespace LP

/-! ### generic: transporting `runWhile` along a map of loop states -/

theorem runWhile_map {σ τ : Type} (f : τ → σ) (body : σ → Res (σ × Bool))
    (body' : τ → Res (τ × Bool))
    (h : ∀ y, body (f y) = (body' y).map (fun p => (f p.1, p.2))) :
    ∀ (fuel : Nat) (b : Option Nat) (y : τ),
      runWhile body fuel b (f y) =
        (runWhile body' fuel b y).map (fun r => (f r.1, r.2.1, r.2.2)) := by
  intro fuel
  induction fuel with
  | zero => intro b y; rfl
  | succ n ih =>
    intro b y
    cases hb : body' y with
    | error e =>
      have hb2 : body (f y) = .error e := by rw [h, hb]; rfl
      rw [runWhile_err hb2, runWhile_err hb]; rfl
    | ok p =>
      obtain ⟨y', c⟩ := p
      have hb2 : body (f y) = .ok (f y', c) := by rw [h, hb]; rfl
      cases c with
      | false => rw [runWhile_stop hb2, runWhile_stop hb]; rfl
      | true =>
        cases b with
        | none => rw [runWhile_cont_none hb2, runWhile_cont_none hb]; exact ih _ _
        | some k =>
          cases k with
          | zero => rw [runWhile_cont_zero hb2, runWhile_cont_zero hb]; rfl
          | succ k => rw [runWhile_cont_succ hb2, runWhile_cont_succ hb]; exact ih _ _

/-- a budgeted call is never interrupted when the budget is `none` -/
theorem runWhile_interrupted_budget {σ : Type} {body : σ → Res (σ × Bool)} {f : Nat}
    {b b' : Option Nat} {s s' : σ} (h : runWhile body f b s = .ok (s', b', .interrupted)) :
    ∃ k, b = some k := by
  cases b with
  | none => exact absurd rfl (runWhile_none_budget body f s s' b' _ h).2
  | some k => exact ⟨k, rfl⟩

/-- resumption with an arbitrary (possibly absent) budget on the first call -/
theorem runWhile_resume_any {σ : Type} (body : σ → Res (σ × Bool)) (f f2 : Nat) (b : Option Nat)
    (s s1 sf : σ) (b1 : Option Nat)
    (h1 : runWhile body f b s = .ok (s1, b1, .interrupted))
    (h2 : runWhile body f2 none s1 = .ok (sf, none, .completed)) :
    runWhile body (f + f2) none s = .ok (sf, none, .completed) := by
  obtain ⟨k, rfl⟩ := runWhile_interrupted_budget h1
  exact runWhile_resume body f f2 k s s1 sf b1 h1 h2

/-! ### the draw context -/

/-- the part of a transaction record that `Tx.draw` reads and writes -/
structure DCtx where
  script : List Nat
  log : List Nat

def DCtx.draw (hash : List Nat → List Nat) (d : DCtx) (rng : Rng) : Nat × Rng × DCtx :=
  match d.script with
  | [] => ((rng.next hash).1, (rng.next hash).2, ⟨[], d.log ++ [(rng.next hash).1]⟩)
  | x :: xs => (x, (rng.next hash).2, ⟨xs, d.log ++ [x]⟩)

def Tx.dctx (t : Tx) : DCtx := ⟨t.c.script, t.o.draws⟩

def Tx.withDctx (t : Tx) (d : DCtx) : Tx :=
  { t with c := { t.c with script := d.script }, o := { t.o with draws := d.log } }

theorem Tx.withDctx_dctx (t : Tx) : t.withDctx t.dctx = t := rfl
@[simp] theorem Tx.withDctx_s (t : Tx) (d : DCtx) : (t.withDctx d).s = t.s := rfl
@[simp] theorem Tx.dctx_withDctx (t : Tx) (d : DCtx) : (t.withDctx d).dctx = d := rfl
@[simp] theorem Tx.withDctx_withDctx (t : Tx) (d d' : DCtx) :
    (t.withDctx d).withDctx d' = t.withDctx d' := rfl

theorem Tx.draw_withDctx (hash : List Nat → List Nat) (t : Tx) (d : DCtx) (rng : Rng) :
    (t.withDctx d).draw hash rng =
      ((d.draw hash rng).1, (d.draw hash rng).2.1, t.withDctx (d.draw hash rng).2.2) := by
  obtain ⟨sc, lg⟩ := d
  cases sc <;> rfl

/-- prefixing the log commutes with drawing -/
def DCtx.shift (L : List Nat) (d : DCtx) : DCtx := ⟨d.script, L ++ d.log⟩

theorem DCtx.draw_shift (hash : List Nat → List Nat) (L : List Nat) (d : DCtx) (rng : Rng) :
    (d.shift L).draw hash rng =
      ((d.draw hash rng).1, (d.draw hash rng).2.1, (d.draw hash rng).2.2.shift L) := by
  obtain ⟨sc, lg⟩ := d
  cases sc <;> simp [DCtx.draw, DCtx.shift, List.append_assoc]

theorem DCtx.draw_script_nil (hash : List Nat → List Nat) (d : DCtx) (rng : Rng)
    (h : d.script = []) : (d.draw hash rng).2.2.script = [] := by
  obtain ⟨sc, lg⟩ := d
  simp only at h
  subst h
  rfl

/-- the seed a call hands to its first `Random::default()` -/
def firstRng (seeds : List (List Nat)) : Rng := ⟨seeds.headD zeroSeed, 0⟩

theorem Tx.freshRng_fst (t : Tx) : t.freshRng.1 = firstRng t.c.seeds := by
  unfold Tx.freshRng firstRng
  cases t.c.seeds <;> rfl

theorem Tx.freshRng_dctx (t : Tx) : t.freshRng.2.dctx = t.dctx := by
  unfold Tx.freshRng
  cases t.c.seeds <;> rfl

theorem Tx.freshRng_o (t : Tx) : t.freshRng.2.o = t.o := by
  unfold Tx.freshRng
  cases t.c.seeds <;> rfl

theorem Tx.freshRng_budget (t : Tx) : t.freshRng.2.c.budget = t.c.budget := by
  unfold Tx.freshRng
  cases t.c.seeds <;> rfl

theorem Tx.freshRng_seeds (t : Tx) : t.freshRng.2.c.seeds = t.c.seeds.tail := by
  unfold Tx.freshRng
  cases h : t.c.seeds with
  | nil => exact h
  | cons a r => rfl

/-! ## 1. `selectWinners` -/

/-- the loop state of `selectWinners` without the transaction record -/
structure SelCore where
  status : Nat → Bool
  posToId : Nat → Nat
  rng : Rng
  pos : Nat
  d : DCtx

def SelCore.lift (t0 : Tx) (y : SelCore) : SelSt :=
  ⟨y.status, y.posToId, y.rng, y.pos, t0.withDctx y.d⟩

def SelSt.core (x : SelSt) : SelCore := ⟨x.status, x.posToId, x.rng, x.pos, x.tx.dctx⟩

theorem SelSt.lift_core (x : SelSt) : SelCore.lift x.tx x.core = x := rfl
theorem SelCore.core_lift (t0 : Tx) (y : SelCore) : (SelCore.lift t0 y).core = y := rfl

/-- `selectBody` on the core -/
def selCoreBody (hash : List Nat → List Nat) (nr last : Nat) (y : SelCore) :
    Res (SelCore × Bool) :=
  if nr = 0 then .ok (y, false) else
  let r := y.d.draw hash y.rng
  let sp := shuffleStep last y.status y.posToId y.pos r.1
  if y.pos = nr then .ok (⟨sp.1, sp.2, r.2.1, y.pos, r.2.2⟩, false)
  else .ok (⟨sp.1, sp.2, r.2.1, y.pos + 1, r.2.2⟩, true)

theorem selectBody_lift (hash : List Nat → List Nat) (nr last : Nat) (t0 : Tx) (y : SelCore) :
    selectBody hash nr last (SelCore.lift t0 y) =
      (selCoreBody hash nr last y).map (fun p => (SelCore.lift t0 p.1, p.2)) := by
  unfold selectBody selCoreBody
  by_cases h0 : nr = 0
  · simp only [h0, if_true]; rfl
  · simp only [h0, if_false, SelCore.lift, Tx.draw_withDctx]
    by_cases hp : y.pos = nr
    · simp only [hp, if_true]; rfl
    · simp only [hp, if_false]; rfl

/-! ### the endpoint -/

/-- storage after an interrupted `selectWinners` call that stopped in loop state `y` -/
def selectSaved (s : State) (y : SelCore) : State :=
  { s with status := y.status, posToId := y.posToId, op := .select y.rng y.pos }

/-- storage after a completed `selectWinners` call that ended in loop state `y` -/
def selectDone (s : State) (y : SelCore) : State :=
  { s with status := y.status, posToId := y.posToId, op := .none,
           flags := { s.flags with selected := true },
           claimablePayment := s.price * s.nrWinning }

structure SelectPre (s : State) (e : Env) : Prop where
  notPaused : s.paused = false
  stage : s.stage e = .winnerSelection
  caller : (e.caller == s.owner || !e.callerIsContract) = true
  filtered : s.flags.filtered = true
  notSelected : s.flags.selected = false

/-- the transaction record after the endpoint has taken its seed (only when it starts the
    operation) -/
def selTxOf (t : Tx) : Tx :=
  match t.s.op with
  | .none => t.freshRng.2
  | _ => t

/-- the loop state the endpoint starts from: fresh generator from the call's first seed and
    position 1 when no operation is saved, the saved `(rng, pos)` otherwise -/
def selCoreOf (t : Tx) : Option SelCore :=
  match t.s.op with
  | .none => some ⟨t.s.status, t.s.posToId, t.freshRng.1, 1, t.dctx⟩
  | .select r p => some ⟨t.s.status, t.s.posToId, r, p, t.dctx⟩
  | _ => none

/-- the same as a `SelSt` (with the transaction record as draw source) -/
def selStOf (t : Tx) : Option SelSt := (selCoreOf t).map (SelCore.lift (selTxOf t))

def selectTxInt (t : Tx) (y : SelCore) (b : Option Nat) : Tx :=
  { s := selectSaved t.s y, c := { ((selTxOf t).withDctx y.d).c with budget := b },
    o := { ((selTxOf t).withDctx y.d).o with ret := [1] } }

def selectTxDone (t : Tx) (e : Env) (y : SelCore) (b : Option Nat) : Tx :=
  Tx.emit { s := selectDone t.s y, c := { ((selTxOf t).withDctx y.d).c with budget := b },
            o := { ((selTxOf t).withDctx y.d).o with ret := [0] } }
    ⟨"selectWinnersCompleted", topics e, [e.caller, e.round, e.epoch, t.s.nrWinning]⟩

/-- what the endpoint returns, as a function of the result of the core loop -/
def selectOutcome (t : Tx) (e : Env) : Res (SelCore × Option Nat × LoopStatus) → Res Tx
  | .error err => .error err
  | .ok (_, _, .outOfFuel) => .error (.vm "out of gas")
  | .ok (y, b, .interrupted) => .ok (selectTxInt t y b)
  | .ok (y, b, .completed) => .ok (selectTxDone t e y b)

theorem selectWinners_eq (hash : List Nat → List Nat) (t : Tx) (e : Env) (y : SelCore)
    (hp : SelectPre t.s e) (hy : selCoreOf t = some y) :
    selectWinners hash t e =
      selectOutcome t e (runWhile (selCoreBody hash t.s.nrWinning t.s.lastTicketId)
        (t.s.nrWinning + 2) t.c.budget y) := by
  obtain ⟨h1, h2, h3, h4, h5⟩ := hp
  have h1' : (!t.s.paused) = true := by simp [h1]
  have h2' : (t.s.stage e == Stage.winnerSelection) = true := by simp [h2]
  have h5' : (!t.s.flags.selected) = true := by simp [h5]
  unfold selectWinners
  simp only [bind, Except.bind, pure, Except.pure, req, requireStage, ownerOrUser, h1', h2', h3, h4,
    h5', if_true]
  cases hop : t.s.op with
  | none =>
    simp only [selCoreOf, hop, Option.some.injEq] at hy
    subst hy
    have hl : (⟨t.s.status, t.s.posToId, t.freshRng.1, 1, t.freshRng.2⟩ : SelSt) =
        SelCore.lift t.freshRng.2 ⟨t.s.status, t.s.posToId, t.freshRng.1, 1, t.dctx⟩ := by
      rw [← Tx.freshRng_dctx]; rfl
    simp only [hl, runWhile_map _ _ _ (selectBody_lift hash _ _ _), Tx.freshRng_budget]
    cases runWhile (selCoreBody hash t.s.nrWinning t.s.lastTicketId) (t.s.nrWinning + 2)
        t.c.budget ⟨t.s.status, t.s.posToId, t.freshRng.1, 1, t.dctx⟩ with
    | error err => rfl
    | ok r =>
      obtain ⟨y', b, st⟩ := r
      cases st <;> simp [selectOutcome, Except.map, selectTxInt, selectTxDone, selTxOf, hop,
        SelCore.lift, selectSaved, selectDone, h4]
  | select r p =>
    simp only [selCoreOf, hop, Option.some.injEq] at hy
    subst hy
    have hl : (⟨t.s.status, t.s.posToId, r, p, t⟩ : SelSt) =
        SelCore.lift t ⟨t.s.status, t.s.posToId, r, p, t.dctx⟩ := rfl
    simp only [hl, runWhile_map _ _ _ (selectBody_lift hash _ _ _)]
    cases runWhile (selCoreBody hash t.s.nrWinning t.s.lastTicketId) (t.s.nrWinning + 2)
        t.c.budget ⟨t.s.status, t.s.posToId, r, p, t.dctx⟩ with
    | error err => rfl
    | ok r =>
      obtain ⟨y', b, st⟩ := r
      cases st <;> simp [selectOutcome, Except.map, selectTxInt, selectTxDone, selTxOf, hop,
        SelCore.lift, selectSaved, selectDone, h4]
  | filter _ _ => simp [selCoreOf, hop] at hy
  | additional _ => simp [selCoreOf, hop] at hy

/-- an accepted call passed the five gates and found no foreign ongoing operation -/
theorem selectWinners_inv (hash : List Nat → List Nat) (t t' : Tx) (e : Env)
    (h : selectWinners hash t e = .ok t') : SelectPre t.s e ∧ ∃ y, selCoreOf t = some y := by
  unfold selectWinners at h
  cases hop : t.s.op <;>
    simp only [hop, requireStage, ownerOrUser, bind_ok_iff, req_ok_iff, pure_ok_iff, exists_const,
      Prod.exists, reduceCtorEq, false_and, and_false] at h
  all_goals
    obtain ⟨g1, g2, g3, g4, g5, _⟩ := h
    exact ⟨⟨by simpa using g1, by simpa using g2, g3, g4, by simpa using g5⟩,
      by simp only [selCoreOf, hop]; exact ⟨_, rfl⟩⟩

/-- the two ways a `selectWinners` call can be accepted -/
theorem selectWinners_ok_cases (hash : List Nat → List Nat) (t t' : Tx) (e : Env)
    (h : selectWinners hash t e = .ok t') :
    SelectPre t.s e ∧ ∃ y y' b, selCoreOf t = some y ∧
      ((runWhile (selCoreBody hash t.s.nrWinning t.s.lastTicketId) (t.s.nrWinning + 2)
          t.c.budget y = .ok (y', b, .interrupted) ∧ t' = selectTxInt t y' b) ∨
       (runWhile (selCoreBody hash t.s.nrWinning t.s.lastTicketId) (t.s.nrWinning + 2)
          t.c.budget y = .ok (y', b, .completed) ∧ t' = selectTxDone t e y' b)) := by
  obtain ⟨hp, y, hy⟩ := selectWinners_inv hash t t' e h
  refine ⟨hp, ?_⟩
  rw [selectWinners_eq hash t e y hp hy] at h
  cases hr : runWhile (selCoreBody hash t.s.nrWinning t.s.lastTicketId) (t.s.nrWinning + 2)
      t.c.budget y with
  | error err => rw [hr] at h; cases h
  | ok r =>
    obtain ⟨y', b, st⟩ := r
    rw [hr] at h
    cases st with
    | outOfFuel => cases h
    | interrupted =>
      simp only [selectOutcome, Except.ok.injEq] at h
      exact ⟨y, y', b, hy, Or.inl ⟨hr, h.symm⟩⟩
    | completed =>
      simp only [selectOutcome, Except.ok.injEq] at h
      exact ⟨y, y', b, hy, Or.inr ⟨hr, h.symm⟩⟩

/-! ### (a) what an interrupted call writes -/

theorem selTxOf_o (t : Tx) : (selTxOf t).o = t.o := by
  unfold selTxOf
  split
  · exact Tx.freshRng_o t
  · rfl

/-- (a) an interrupted call stores the cursor `op := .select rng pos` and the two updated maps,
    returns `[1]`, emits no event, makes no transfer, and changes nothing else -/
theorem selectWinners_interrupted (hash : List Nat → List Nat) (t : Tx) (e : Env)
    (y y' : SelCore) (b : Option Nat) (hp : SelectPre t.s e) (hy : selCoreOf t = some y)
    (hrun : runWhile (selCoreBody hash t.s.nrWinning t.s.lastTicketId) (t.s.nrWinning + 2)
              t.c.budget y = .ok (y', b, .interrupted)) :
    ∃ t', selectWinners hash t e = .ok t' ∧
      t'.s = { t.s with status := y'.status, posToId := y'.posToId,
                        op := .select y'.rng y'.pos } ∧
      t'.o.ret = [1] ∧ t'.o.events = t.o.events ∧ t'.o.xfers = t.o.xfers ∧
      t'.o.locks = t.o.locks ∧ t'.o.sfts = t.o.sfts ∧ t'.o.draws = y'.d.log := by
  refine ⟨selectTxInt t y' b, ?_, rfl, rfl, ?_, ?_, ?_, ?_, rfl⟩
  · rw [selectWinners_eq hash t e y hp hy, hrun]; rfl
  all_goals simp only [selectTxInt, Tx.withDctx, selTxOf_o]

theorem selCoreOf_saved (t : Tx) (s : State) (y : SelCore) (h : t.s = selectSaved s y) :
    selCoreOf t = some ⟨y.status, y.posToId, y.rng, y.pos, t.dctx⟩ := by
  simp only [selCoreOf, h, selectSaved]

/-! ### (b) a resumed call consumes no seed -/

/-- the transaction record of a fresh call: storage `s`, the environment's seeds and script, the
    given iteration budget, empty output -/
def callTx (s : State) (e : Env) (b : Option Nat) : Tx := ⟨s, ⟨b, e.seeds, e.script⟩, {}⟩

theorem selCoreOf_resumed (t : Tx) (r : Rng) (p : Nat) (hop : t.s.op = .select r p) :
    selCoreOf t = some ⟨t.s.status, t.s.posToId, r, p, t.dctx⟩ := by
  simp only [selCoreOf, hop]

theorem selTxOf_resumed (t : Tx) (r : Rng) (p : Nat) (hop : t.s.op = .select r p) :
    selTxOf t = t := by
  simp only [selTxOf, hop]

/-- the seeds left to the rest of the transaction: a resumed call leaves them untouched, a call
    that starts the operation pops exactly one -/
theorem selectWinners_seeds (hash : List Nat → List Nat) (t t' : Tx) (e : Env)
    (h : selectWinners hash t e = .ok t') :
    t'.c.seeds = (match t.s.op with | .none => t.c.seeds.tail | _ => t.c.seeds) := by
  obtain ⟨_, y, y', b, hy, hc⟩ := selectWinners_ok_cases hash t t' e h
  have : t'.c.seeds = (selTxOf t).c.seeds := by
    rcases hc with ⟨_, rfl⟩ | ⟨_, rfl⟩ <;> rfl
  rw [this]
  unfold selTxOf
  split
  · exact Tx.freshRng_seeds t
  · rfl

/-- (b) the result of a resumed call does not depend on the seeds offered by its environment
    (nor on caller / round / epoch, as long as both environments pass the gates): same
    storage, same return value, same draws; in particular same acceptance. -/
theorem selectWinners_resumed_env_irrelevant (hash : List Nat → List Nat) (s : State)
    (r : Rng) (p : Nat) (hop : s.op = .select r p) (e e' : Env) (b : Option Nat)
    (hscr : e.script = e'.script) (hp : SelectPre s e) (hp' : SelectPre s e') :
    (selectWinners hash (callTx s e b) e).map (fun t => (t.s, t.o.ret, t.o.draws)) =
    (selectWinners hash (callTx s e' b) e').map (fun t => (t.s, t.o.ret, t.o.draws)) := by
  have hy := selCoreOf_resumed (callTx s e b) r p hop
  have hy' := selCoreOf_resumed (callTx s e' b) r p hop
  rw [selectWinners_eq hash _ e _ hp hy, selectWinners_eq hash _ e' _ hp' hy']
  have hd : (callTx s e b).dctx = (callTx s e' b).dctx := by
    simp only [callTx, Tx.dctx, hscr]
  rw [hd]
  have key : ∀ q : Res (SelCore × Option Nat × LoopStatus),
      (selectOutcome (callTx s e b) e q).map (fun t => (t.s, t.o.ret, t.o.draws)) =
      (selectOutcome (callTx s e' b) e' q).map (fun t => (t.s, t.o.ret, t.o.draws)) := by
    intro q
    cases q with
    | error err => rfl
    | ok q =>
      obtain ⟨y', b', st⟩ := q
      cases st
      · simp only [selectOutcome, selectTxDone, Except.map, Tx.emit, selTxOf, callTx, hop, Tx.withDctx,
          selectDone]
      · simp only [selectOutcome, selectTxInt, Except.map, selTxOf, callTx, hop, Tx.withDctx,
          selectSaved]
      · rfl
  exact key _

/-! ### (c) chunked = single -/

/-- successive accepted `selectWinners` transactions on the storage: call `i` is made in its own
    environment `eᵢ` (caller, round, epoch, seeds, script) with iteration budget `bᵢ`.  Returns
    the final storage and the concatenation of the calls' draw logs. -/
def selectCalls (hash : List Nat → List Nat) : List (Env × Option Nat) → State → Res (State × List Nat)
  | [], s => .ok (s, [])
  | (e, b) :: rest, s =>
    match selectWinners hash (callTx s e b) e with
    | .error err => .error err
    | .ok t' =>
      match selectCalls hash rest t'.s with
      | .error err => .error err
      | .ok (s', ds) => .ok (s', t'.o.draws ++ ds)

/-- the loop state a call in environment `e` starts from on storage `s` -/
def selCoreAt (s : State) (e : Env) : Option SelCore := selCoreOf (callTx s e none)

theorem selCoreOf_callTx_budget (s : State) (e : Env) (b : Option Nat) :
    selCoreOf (callTx s e b) = selCoreAt s e := by
  unfold selCoreAt selCoreOf callTx
  cases s.op <;> simp [Tx.freshRng_fst, Tx.dctx]

def SelCore.shift (L : List Nat) (y : SelCore) : SelCore := { y with d := y.d.shift L }

theorem selCoreBody_shift (hash : List Nat → List Nat) (nr last : Nat) (L : List Nat)
    (y : SelCore) :
    selCoreBody hash nr last (y.shift L) =
      (selCoreBody hash nr last y).map (fun p => (p.1.shift L, p.2)) := by
  unfold selCoreBody
  by_cases h0 : nr = 0
  · simp only [h0, if_true]; rfl
  · simp only [h0, if_false, SelCore.shift, DCtx.draw_shift]
    by_cases hp : y.pos = nr
    · simp only [hp, if_true]; rfl
    · simp only [hp, if_false]; rfl

theorem selCoreBody_script_nil (hash : List Nat → List Nat) (nr last : Nat) (y y' : SelCore)
    (c : Bool) (h : selCoreBody hash nr last y = .ok (y', c)) (hs : y.d.script = []) :
    y'.d.script = [] := by
  unfold selCoreBody at h
  by_cases h0 : nr = 0
  · simp only [h0, if_true, Except.ok.injEq, Prod.mk.injEq] at h
    rw [← h.1]; exact hs
  · simp only [h0, if_false] at h
    by_cases hp : y.pos = nr
    · simp only [hp, if_true, Except.ok.injEq, Prod.mk.injEq] at h
      rw [← h.1]; exact DCtx.draw_script_nil hash _ _ hs
    · simp only [hp, if_false, Except.ok.injEq, Prod.mk.injEq] at h
      rw [← h.1]; exact DCtx.draw_script_nil hash _ _ hs

theorem selectDone_saved (s : State) (y1 y : SelCore) :
    selectDone (selectSaved s y1) y = selectDone s y := rfl

theorem selCoreAt_saved (s : State) (y : SelCore) (e : Env) :
    selCoreAt (selectSaved s y) e = some ⟨y.status, y.posToId, y.rng, y.pos, ⟨e.script, []⟩⟩ := rfl

theorem runWhile_selCore_script_nil (hash : List Nat → List Nat) (nr last fuel : Nat)
    (b b' : Option Nat) (y y' : SelCore) (st : LoopStatus)
    (h : runWhile (selCoreBody hash nr last) fuel b y = .ok (y', b', st))
    (hs : y.d.script = []) : y'.d.script = [] :=
  runWhile_preserves (fun z => z.d.script = []) _
    (fun x x' c hb hx => selCoreBody_script_nil hash nr last x x' c hb hx) _ _ _ _ _ _ h hs

theorem runWhile_selCore_shift (hash : List Nat → List Nat) (nr last fuel : Nat) (L : List Nat)
    (b : Option Nat) (y : SelCore) :
    runWhile (selCoreBody hash nr last) fuel b (y.shift L) =
      (runWhile (selCoreBody hash nr last) fuel b y).map
        (fun r => (r.1.shift L, r.2.1, r.2.2)) :=
  runWhile_map (SelCore.shift L) _ _ (selCoreBody_shift hash nr last L) fuel b y

/-- (c), loop level: an accepted schedule of calls (own environments, arbitrary budgets, no
    scripted draws) that ends with the step completed computes the final loop state `yf` of ONE
    unbudgeted run of the core loop from the state `y` the first call started in; the final
    storage is `selectDone s yf`, the concatenated draw log is the log of that run. -/
theorem selectCalls_run (hash : List Nat → List Nat) :
    ∀ (rest : List (Env × Option Nat)) (e0 : Env) (b0 : Option Nat) (s s' : State)
      (ds : List Nat) (y : SelCore),
      selCoreAt s e0 = some y → e0.script = [] → (∀ c ∈ rest, c.1.script = []) →
      selectCalls hash ((e0, b0) :: rest) s = .ok (s', ds) → s'.flags.selected = true →
      ∃ yf fuel, runWhile (selCoreBody hash s.nrWinning s.lastTicketId) fuel none y
                  = .ok (yf, none, .completed) ∧
        s' = selectDone s yf ∧ yf.d.log = ds := by
  intro rest
  induction rest with
  | nil =>
    intro e0 b0 s s' ds y hy hscr _ hc hsel
    simp only [selectCalls] at hc
    cases hcall : selectWinners hash (callTx s e0 b0) e0 with
    | error err => rw [hcall] at hc; cases hc
    | ok t1 =>
      rw [hcall] at hc
      simp only [Except.ok.injEq, Prod.mk.injEq, List.append_nil] at hc
      obtain ⟨rfl, rfl⟩ := hc
      obtain ⟨hp, y0, y', b, hy0, hcs⟩ := selectWinners_ok_cases hash _ _ _ hcall
      rw [selCoreOf_callTx_budget, hy] at hy0
      injection hy0 with hy0
      subst hy0
      rcases hcs with ⟨_, rfl⟩ | ⟨hrun, rfl⟩
      · have h1 : s.flags.selected = true := hsel
        have h2 : s.flags.selected = false := hp.notSelected
        rw [h1] at h2; cases h2
      · exact ⟨y', _, runWhile_completed_any_budget _ _ _ _ _ _ hrun, rfl, rfl⟩
  | cons c1 rest2 ih =>
    obtain ⟨e1, b1⟩ := c1
    intro e0 b0 s s' ds y hy hscr hrest hc hsel
    simp only [selectCalls] at hc
    cases hcall : selectWinners hash (callTx s e0 b0) e0 with
    | error err => rw [hcall] at hc; cases hc
    | ok t1 =>
      rw [hcall] at hc
      simp only at hc
      obtain ⟨hp, y0, y1, b, hy0, hcs⟩ := selectWinners_ok_cases hash _ _ _ hcall
      rw [selCoreOf_callTx_budget, hy] at hy0
      injection hy0 with hy0
      subst hy0
      cases hcall2 : selectWinners hash (callTx t1.s e1 b1) e1 with
      | error err => rw [hcall2] at hc; cases hc
      | ok t2 =>
        obtain ⟨hp2, _⟩ := selectWinners_inv hash _ _ _ hcall2
        rcases hcs with ⟨hrun, rfl⟩ | ⟨_, rfl⟩
        · -- first call interrupted: resume
          have hrest' : selectCalls hash ((e1, b1) :: rest2) (selectSaved s y1) =
              (match selectWinners hash (callTx (selectSaved s y1) e1 b1) e1 with
               | .error err => .error err
               | .ok t' =>
                 match selectCalls hash rest2 t'.s with
                 | .error err => .error err
                 | .ok (s', ds) => .ok (s', t'.o.draws ++ ds)) := rfl
          have hs1 : (selectTxInt (callTx s e0 b0) y1 b).s = selectSaved s y1 := rfl
          rw [hs1] at hc hcall2
          rw [← hrest'] at hc
          cases hrc : selectCalls hash ((e1, b1) :: rest2) (selectSaved s y1) with
          | error err => rw [hrc] at hc; cases hc
          | ok r =>
            obtain ⟨s2, ds2⟩ := r
            rw [hrc] at hc
            simp only [Except.ok.injEq, Prod.mk.injEq] at hc
            obtain ⟨rfl, rfl⟩ := hc
            have he1 : e1.script = [] := hrest (e1, b1) (List.mem_cons_self ..)
            obtain ⟨yf, fuel, hrunf, hfin, hlog⟩ :=
              ih e1 b1 (selectSaved s y1) s2 ds2
                ⟨y1.status, y1.posToId, y1.rng, y1.pos, ⟨[], []⟩⟩
                (by rw [selCoreAt_saved, he1]) he1
                (fun c hc => hrest c (List.mem_cons_of_mem _ hc)) hrc hsel
            have hys : y.d.script = [] := by
              have := hy
              unfold selCoreAt selCoreOf at this
              cases hop : s.op <;> simp only [hop, callTx, Tx.dctx, Option.some.injEq,
                reduceCtorEq] at this <;> (rw [← this]; exact hscr)
            have hy1s : y1.d.script = [] :=
              runWhile_selCore_script_nil hash _ _ _ _ _ _ _ _ hrun hys
            have hshift : y1 = (⟨y1.status, y1.posToId, y1.rng, y1.pos, ⟨[], []⟩⟩ : SelCore).shift
                y1.d.log := by
              obtain ⟨a1, a2, a3, a4, ⟨sc, lg⟩⟩ := y1
              simp only at hy1s
              subst hy1s
              simp [SelCore.shift, DCtx.shift]
            have hrun2 : runWhile (selCoreBody hash s.nrWinning s.lastTicketId) fuel none y1 =
                .ok (yf.shift y1.d.log, none, .completed) := by
              rw [hshift, runWhile_selCore_shift]
              have : (selectSaved s y1).nrWinning = s.nrWinning ∧
                  (selectSaved s y1).lastTicketId = s.lastTicketId := ⟨rfl, rfl⟩
              rw [this.1, this.2] at hrunf
              rw [hrunf]
              simp [Except.map, SelCore.shift, DCtx.shift]
            refine ⟨yf.shift y1.d.log, _, runWhile_resume_any _ _ _ _ _ _ _ _ hrun hrun2, ?_, ?_⟩
            · rw [hfin]; rfl
            · show y1.d.log ++ yf.d.log = _
              rw [hlog]; rfl
        · -- first call completed: a second call cannot be accepted
          have : (selectTxDone (callTx s e0 b0) e0 y1 b).s.flags.selected = false :=
            hp2.notSelected
          cases this

/-- the first accepted call of a schedule determines the loop state the operation starts from -/
theorem selCoreAt_eq_of_first (s : State) (e0 e1 : Env)
    (hseed : s.op = .none → firstRng e1.seeds = firstRng e0.seeds)
    (hscr : e1.script = e0.script) : selCoreAt s e1 = selCoreAt s e0 := by
  unfold selCoreAt selCoreOf
  cases hop : s.op with
  | none =>
    simp only [callTx, hop, Tx.freshRng_fst, Tx.dctx, hscr, hseed hop]
  | select r p => simp only [callTx, hop, Tx.dctx, hscr]
  | filter _ _ => simp only [callTx, hop]
  | additional _ => simp only [callTx, hop]

/-- (c) **chunked = single**: if an accepted schedule of `selectWinners` calls — arbitrary
    budgets, arbitrary later callers / rounds / epochs / seeds, no scripted draws — completes
    the step, the final storage (all of it) and the concatenated draw log are those of ONE
    unbudgeted call that starts from the same loop state, i.e. (when the schedule starts the
    operation) carries the FIRST call's first seed. -/
theorem selectCalls_eq_single (hash : List Nat → List Nat) (e0 : Env) (b0 : Option Nat)
    (rest : List (Env × Option Nat)) (s s' : State) (ds : List Nat) (e1 : Env) (t1 : Tx)
    (hscr0 : e0.script = []) (hrest : ∀ c ∈ rest, c.1.script = [])
    (hc : selectCalls hash ((e0, b0) :: rest) s = .ok (s', ds))
    (hsel : s'.flags.selected = true)
    (hsame : selCoreAt s e1 = selCoreAt s e0)
    (h1 : selectWinners hash (callTx s e1 none) e1 = .ok t1) :
    s' = t1.s ∧ ds = t1.o.draws := by
  obtain ⟨_, y1, y1', b, hy1, hcs⟩ := selectWinners_ok_cases hash _ _ _ h1
  rw [selCoreOf_callTx_budget, hsame] at hy1
  obtain ⟨yf, fuel, hrun, hfin, hlog⟩ :=
    selectCalls_run hash rest e0 b0 s s' ds y1 hy1 hscr0 hrest hc hsel
  rcases hcs with ⟨hr, _⟩ | ⟨hr, rfl⟩
  · obtain ⟨k, hk⟩ := runWhile_interrupted_budget hr
    cases hk
  · have hr' := runWhile_completed_any_budget _ _ _ _ _ _ hr
    have : yf = y1' := runWhile_completed_unique _ _ _ _ _ _ hrun hr'
    subst this
    exact ⟨hfin, hlog.symm⟩

/-- schedule independence: two accepted completing schedules whose first calls carry the same
    first seed end in the same storage with the same draws -/
theorem selectCalls_deterministic (hash : List Nat → List Nat) (e0 e0' : Env)
    (b0 b0' : Option Nat) (rest rest' : List (Env × Option Nat)) (s s1 s2 : State)
    (ds1 ds2 : List Nat)
    (hscr0 : e0.script = []) (hrest : ∀ c ∈ rest, c.1.script = [])
    (hscr0' : e0'.script = []) (hrest' : ∀ c ∈ rest', c.1.script = [])
    (hc : selectCalls hash ((e0, b0) :: rest) s = .ok (s1, ds1))
    (hc' : selectCalls hash ((e0', b0') :: rest') s = .ok (s2, ds2))
    (hsel : s1.flags.selected = true) (hsel' : s2.flags.selected = true)
    (hseed : s.op = .none → firstRng e0'.seeds = firstRng e0.seeds) :
    s1 = s2 ∧ ds1 = ds2 := by
  have hsame : selCoreAt s e0' = selCoreAt s e0 :=
    selCoreAt_eq_of_first s e0 e0' hseed (by rw [hscr0, hscr0'])
  have hacc : ∃ t, selectWinners hash (callTx s e0 b0) e0 = .ok t := by
    simp only [selectCalls] at hc
    cases h : selectWinners hash (callTx s e0 b0) e0 with
    | error err => rw [h] at hc; cases hc
    | ok t => exact ⟨t, rfl⟩
  obtain ⟨t, ht⟩ := hacc
  obtain ⟨_, y, hy⟩ := selectWinners_inv hash _ _ _ ht
  rw [selCoreOf_callTx_budget] at hy
  obtain ⟨yf, f, hrun, hfin, hlog⟩ :=
    selectCalls_run hash rest e0 b0 s s1 ds1 y hy hscr0 hrest hc hsel
  obtain ⟨yf', f', hrun', hfin', hlog'⟩ :=
    selectCalls_run hash rest' e0' b0' s s2 ds2 y (by rw [hsame, hy]) hscr0' hrest' hc' hsel'
  have : yf = yf' := runWhile_completed_unique _ _ _ _ _ _ hrun hrun'
  subst this
  exact ⟨by rw [hfin, hfin'], by rw [← hlog, ← hlog']⟩

/-! ### (d) liveness -/

/-- loop state after one draw + shuffle step, with the given next position -/
def selCoreStep (hash : List Nat → List Nat) (last : Nat) (y : SelCore) (pos' : Nat) : SelCore :=
  ⟨(shuffleStep last y.status y.posToId y.pos (y.d.draw hash y.rng).1).1,
   (shuffleStep last y.status y.posToId y.pos (y.d.draw hash y.rng).1).2,
   (y.d.draw hash y.rng).2.1, pos', (y.d.draw hash y.rng).2.2⟩

theorem selCoreBody_eq (hash : List Nat → List Nat) (nr last : Nat) (y : SelCore) :
    selCoreBody hash nr last y =
      if nr = 0 then .ok (y, false) else
      if y.pos = nr then .ok (selCoreStep hash last y y.pos, false)
      else .ok (selCoreStep hash last y (y.pos + 1), true) := rfl

/-- the core loop from position `pos ≤ nr` completes within `nr - pos + 1` iterations -/
theorem selCore_completes (hash : List Nat → List Nat) (nr last : Nat) :
    ∀ (fuel : Nat) (y : SelCore), (nr = 0 ∨ (1 ≤ y.pos ∧ y.pos ≤ nr)) → nr - y.pos + 1 ≤ fuel →
      ∃ y', runWhile (selCoreBody hash nr last) fuel none y = .ok (y', none, .completed) := by
  intro fuel
  induction fuel with
  | zero => intro y _ h; omega
  | succ fuel ih =>
    intro y hpos hf
    by_cases h0 : nr = 0
    · have hb : selCoreBody hash nr last y = .ok (y, false) := by
        simp only [selCoreBody, h0, if_true]
      exact ⟨y, runWhile_stop hb _ _⟩
    · have hp : 1 ≤ y.pos ∧ y.pos ≤ nr := by
        rcases hpos with h | h
        · exact absurd h h0
        · exact h
      by_cases hpn : y.pos = nr
      · have hb : selCoreBody hash nr last y = .ok (selCoreStep hash last y y.pos, false) := by
          rw [selCoreBody_eq, if_neg h0, if_pos hpn]
        exact ⟨_, runWhile_stop hb _ _⟩
      · have hb : selCoreBody hash nr last y = .ok (selCoreStep hash last y (y.pos + 1), true) := by
          rw [selCoreBody_eq, if_neg h0, if_neg hpn]
        obtain ⟨y', hy'⟩ := ih (selCoreStep hash last y (y.pos + 1))
          (Or.inr ⟨by simp only [selCoreStep]; omega, by simp only [selCoreStep]; omega⟩)
          (by simp only [selCoreStep]; omega)
        exact ⟨y', by rw [runWhile_cont_none hb]; exact hy'⟩

theorem SelectPre_saved (s : State) (y : SelCore) (e : Env) (h : SelectPre s e) :
    SelectPre (selectSaved s y) e := ⟨h.1, h.2, h.3, h.4, h.5⟩

theorem selCore_unshift (hash : List Nat → List Nat) (nr last fuel : Nat) (L : List Nat)
    (y yf : SelCore)
    (h : runWhile (selCoreBody hash nr last) fuel none (y.shift L) = .ok (yf, none, .completed)) :
    ∃ yf', runWhile (selCoreBody hash nr last) fuel none y = .ok (yf', none, .completed) := by
  rw [runWhile_selCore_shift] at h
  cases hr : runWhile (selCoreBody hash nr last) fuel none y with
  | error err => rw [hr] at h; cases h
  | ok q =>
    obtain ⟨a, b, st⟩ := q
    rw [hr] at h
    simp only [Except.map, Except.ok.injEq, Prod.mk.injEq] at h
    obtain ⟨_, rfl, rfl⟩ := h
    exact ⟨a, rfl⟩

theorem selectWinners_callTx_eq (hash : List Nat → List Nat) (s : State) (e : Env)
    (b : Option Nat) (y : SelCore) (hp : SelectPre s e) (hy : selCoreAt s e = some y) :
    selectWinners hash (callTx s e b) e =
      selectOutcome (callTx s e b) e
        (runWhile (selCoreBody hash s.nrWinning s.lastTicketId) (s.nrWinning + 2) b y) :=
  selectWinners_eq hash (callTx s e b) e y hp (by rw [selCoreOf_callTx_budget]; exact hy)

theorem selectCalls_completes_gen (hash : List Nat → List Nat) :
    ∀ (rest : List (Env × Option Nat)) (e0 : Env) (b0 : Option Nat) (s : State)
      (y yf : SelCore) (N : Nat),
      selCoreAt s e0 = some y → e0.script = [] → (∀ c ∈ rest, c.1.script = []) →
      SelectPre s e0 → (∀ c ∈ rest, SelectPre s c.1) →
      runWhile (selCoreBody hash s.nrWinning s.lastTicketId) N none y
        = .ok (yf, none, .completed) →
      N ≤ s.nrWinning + 2 → N ≤ rest.length + 1 →
      ∃ cs1 cs2 s' ds, (e0, b0) :: rest = cs1 ++ cs2 ∧
        selectCalls hash cs1 s = .ok (s', ds) ∧ s'.flags.selected = true := by
  intro rest
  induction rest with
  | nil =>
    intro e0 b0 s y yf N hy hscr _ hp _ hrun hN hlen
    have hcall := selectWinners_callTx_eq hash s e0 b0 y hp hy
    -- one iteration at most is needed, so the call completes whatever its budget
    have hdone : ∃ b', runWhile (selCoreBody hash s.nrWinning s.lastTicketId) (s.nrWinning + 2)
        b0 y = .ok (yf, b', .completed) := by
      cases b0 with
      | none => exact ⟨none, runWhile_fuel_mono _ _ _ _ _ _ _ hrun (by decide) _ hN⟩
      | some k =>
        rcases runWhile_call_progress _ N y yf hrun k (s.nrWinning + 2) hN with h | ⟨_, _, _, h, _⟩
        · exact h
        · simp only [List.length_nil] at hlen; omega
    obtain ⟨b', hb'⟩ := hdone
    refine ⟨[(e0, b0)], [], (selectTxDone (callTx s e0 b0) e0 yf b').s,
      (selectTxDone (callTx s e0 b0) e0 yf b').o.draws ++ [], rfl, ?_, rfl⟩
    have : selectWinners hash (callTx s e0 b0) e0 = .ok (selectTxDone (callTx s e0 b0) e0 yf b') := by
      rw [hcall, hb']; rfl
    simp only [selectCalls, this]
  | cons c1 rest2 ih =>
    obtain ⟨e1, b1⟩ := c1
    intro e0 b0 s y yf N hy hscr hrest hp hprest hrun hN hlen
    have hcall := selectWinners_callTx_eq hash s e0 b0 y hp hy
    have hprog : (∃ b', runWhile (selCoreBody hash s.nrWinning s.lastTicketId) (s.nrWinning + 2)
        b0 y = .ok (yf, b', .completed)) ∨
        (∃ k y1, b0 = some k ∧ runWhile (selCoreBody hash s.nrWinning s.lastTicketId)
          (s.nrWinning + 2) b0 y = .ok (y1, some 0, .interrupted) ∧ k + 1 < N ∧
          runWhile (selCoreBody hash s.nrWinning s.lastTicketId) (N - (k + 1)) none y1
            = .ok (yf, none, .completed)) := by
      cases b0 with
      | none => exact Or.inl ⟨none, runWhile_fuel_mono _ _ _ _ _ _ _ hrun (by decide) _ hN⟩
      | some k =>
        rcases runWhile_call_progress _ N y yf hrun k (s.nrWinning + 2) hN with
          h | ⟨y1, h1, _, h3, h4⟩
        · exact Or.inl h
        · exact Or.inr ⟨k, y1, rfl, h1, h3, h4⟩
    rcases hprog with ⟨b', hb'⟩ | ⟨k, y1, rfl, hint, hk, hrest1⟩
    · refine ⟨[(e0, b0)], (e1, b1) :: rest2, (selectTxDone (callTx s e0 b0) e0 yf b').s,
        (selectTxDone (callTx s e0 b0) e0 yf b').o.draws ++ [], rfl, ?_, rfl⟩
      have : selectWinners hash (callTx s e0 b0) e0 =
          .ok (selectTxDone (callTx s e0 b0) e0 yf b') := by
        rw [hcall, hb']; rfl
      simp only [selectCalls, this]
    · have hthis : selectWinners hash (callTx s e0 (some k)) e0 =
          .ok (selectTxInt (callTx s e0 (some k)) y1 (some 0)) := by
        rw [hcall, hint]; rfl
      have he1 : e1.script = [] := hrest (e1, b1) (List.mem_cons_self ..)
      have hys : y.d.script = [] := by
        have := hy
        unfold selCoreAt selCoreOf at this
        cases hop : s.op <;> simp only [hop, callTx, Tx.dctx, Option.some.injEq,
          reduceCtorEq] at this <;> (rw [← this]; exact hscr)
      have hy1s : y1.d.script = [] :=
        runWhile_selCore_script_nil hash _ _ _ _ _ _ _ _ hint hys
      have hshift : y1 = (⟨y1.status, y1.posToId, y1.rng, y1.pos, ⟨[], []⟩⟩ : SelCore).shift
          y1.d.log := by
        obtain ⟨a1, a2, a3, a4, ⟨sc, lg⟩⟩ := y1
        simp only at hy1s
        subst hy1s
        simp [SelCore.shift, DCtx.shift]
      rw [hshift] at hrest1
      obtain ⟨yf', hrun'⟩ := selCore_unshift hash _ _ _ _ _ _ hrest1
      obtain ⟨cs1, cs2, s', ds, hsplit, hcalls, hsel⟩ :=
        ih e1 b1 (selectSaved s y1) _ yf' (N - (k + 1))
          (by rw [selCoreAt_saved, he1]) he1 (fun c hc => hrest c (List.mem_cons_of_mem _ hc))
          (SelectPre_saved s y1 e1 (hprest (e1, b1) (List.mem_cons_self ..)))
          (fun c hc => SelectPre_saved s y1 c.1 (hprest c (List.mem_cons_of_mem _ hc)))
          hrun' (by show N - (k + 1) ≤ s.nrWinning + 2; omega)
          (by simp only [List.length_cons] at hlen ⊢; omega)
      refine ⟨(e0, some k) :: cs1, cs2, s', (selectTxInt (callTx s e0 (some k)) y1 (some 0)).o.draws ++ ds,
        by rw [hsplit]; rfl, ?_, hsel⟩
      simp only [selectCalls, hthis]
      have : (selectTxInt (callTx s e0 (some k)) y1 (some 0)).s = selectSaved s y1 := rfl
      rw [this, hcalls]

/-- (d) liveness: a schedule that starts the operation (`op = .none`), all of whose calls pass
    the gates (not paused, winner-selection stage, user caller, filtered, not yet selected) and
    carry no scripted draws, completes after at most `nrWinning + 1` calls whatever the budgets
    (each call makes at least one iteration); later calls (`cs2`) would be rejected. -/
theorem selectCalls_completes (hash : List Nat → List Nat) (cs : List (Env × Option Nat))
    (s : State) (hop : s.op = .none) (hpre : ∀ c ∈ cs, SelectPre s c.1)
    (hscr : ∀ c ∈ cs, c.1.script = []) (hlen : s.nrWinning + 1 ≤ cs.length) :
    ∃ cs1 cs2 s' ds, cs = cs1 ++ cs2 ∧ selectCalls hash cs1 s = .ok (s', ds) ∧
      s'.flags.selected = true := by
  cases cs with
  | nil => simp at hlen
  | cons c rest =>
    obtain ⟨e0, b0⟩ := c
    have hy : selCoreAt s e0 = some ⟨s.status, s.posToId, (callTx s e0 none).freshRng.1, 1,
        (callTx s e0 none).dctx⟩ := by
      simp only [selCoreAt, selCoreOf, callTx, hop]
    obtain ⟨yf, hrun⟩ := selCore_completes hash s.nrWinning s.lastTicketId (s.nrWinning + 1)
      ⟨s.status, s.posToId, (callTx s e0 none).freshRng.1, 1, (callTx s e0 none).dctx⟩
      (by by_cases h : s.nrWinning = 0
          · exact Or.inl h
          · exact Or.inr ⟨Nat.le_refl _, by simp only; omega⟩)
      (by simp only; omega)
    exact selectCalls_completes_gen hash rest e0 b0 s _ yf (s.nrWinning + 1) hy
      (hscr _ (List.mem_cons_self ..)) (fun c hc => hscr c (List.mem_cons_of_mem _ hc))
      (hpre _ (List.mem_cons_self ..)) (fun c hc => hpre c (List.mem_cons_of_mem _ hc))
      hrun (by omega) (by simp only [List.length_cons] at hlen; omega)

/-- the single unbudgeted call that starts the operation is accepted as soon as the gates pass,
    and completes the step -/
theorem selectWinners_single_accepted (hash : List Nat → List Nat) (s : State) (e : Env)
    (hop : s.op = .none) (hp : SelectPre s e) :
    ∃ t yf, selectWinners hash (callTx s e none) e = .ok t ∧ t.s = selectDone s yf ∧
      t.o.ret = [0] ∧ t.s.flags.selected = true ∧ t.s.op = .none := by
  have hy : selCoreAt s e = some ⟨s.status, s.posToId, (callTx s e none).freshRng.1, 1,
      (callTx s e none).dctx⟩ := by
    simp only [selCoreAt, selCoreOf, callTx, hop]
  obtain ⟨yf, hrun⟩ := selCore_completes hash s.nrWinning s.lastTicketId (s.nrWinning + 2)
    ⟨s.status, s.posToId, (callTx s e none).freshRng.1, 1, (callTx s e none).dctx⟩
    (by by_cases h : s.nrWinning = 0
        · exact Or.inl h
        · exact Or.inr ⟨Nat.le_refl _, by simp only; omega⟩)
    (by simp only; omega)
  refine ⟨selectTxDone (callTx s e none) e yf none, yf, ?_, rfl, rfl, rfl, rfl⟩
  rw [selectWinners_callTx_eq hash s e none _ hp hy, hrun]; rfl

/-- the `selectWinners` transaction as dispatched by `step` (non-payable, callable by anyone, in
    every variant) -/
theorem step_select (hash : List Nat → List Nat) (s : State) (e : Env)
    (h1 : e.egld = 0) (h2 : e.esdts = []) :
    step hash s e .select =
      match selectWinners hash (callTx s e e.budget) e with
      | .error err => .error err
      | .ok t => .ok (t.s, t.o) := by
  simp only [step, endpointMeta, exec, creditPayments_nopay s e h1 h2, h1, h2, callTx]
  simp
  cases selectWinners hash ⟨s, ⟨e.budget, e.seeds, e.script⟩, {}⟩ e <;> rfl

/-! ## 2. the NFT draw (`nftSubstep`, `selectNft`) -/

/-- the loop state of the NFT draw without the transaction record -/
structure NCore where
  payers : List Nat
  winners : List Nat
  usersLeft : Nat
  selected : Nat
  rng : Rng
  d : DCtx

def NCore.lift (t0 : Tx) (y : NCore) : NSt :=
  ⟨y.payers, y.winners, y.usersLeft, y.selected, y.rng, t0.withDctx y.d⟩

/-- `nftBody` on the core -/
def nftCoreBody (hash : List Nat → List Nat) (total : Nat) (y : NCore) : Res (NCore × Bool) :=
  if y.usersLeft = 0 || y.selected = total then .ok (y, false) else
  match y.payers[inRange (y.d.draw hash y.rng).1 1 (y.usersLeft + 1) - 1]? with
  | none => .error (.user "index out of range (confirmedNftUserList)")
  | some w =>
    .ok (⟨(swapRemove y.payers w).1, (setInsert y.winners w).1, y.usersLeft - 1, y.selected + 1,
          (y.d.draw hash y.rng).2.1, (y.d.draw hash y.rng).2.2⟩, true)

theorem nftBody_lift (hash : List Nat → List Nat) (total : Nat) (t0 : Tx) (y : NCore) :
    nftBody hash total (NCore.lift t0 y) =
      (nftCoreBody hash total y).map (fun p => (NCore.lift t0 p.1, p.2)) := by
  unfold nftBody nftCoreBody
  by_cases h0 : (y.usersLeft = 0 || y.selected = total) = true
  · have h0' : ((NCore.lift t0 y).usersLeft = 0 || (NCore.lift t0 y).selected = total) = true := h0
    rw [if_pos h0', if_pos h0]; rfl
  · have h0' : ¬ ((NCore.lift t0 y).usersLeft = 0 || (NCore.lift t0 y).selected = total) = true := h0
    rw [if_neg h0', if_neg h0]
    simp only [NCore.lift, Tx.draw_withDctx]
    cases y.payers[inRange (y.d.draw hash y.rng).1 1 (y.usersLeft + 1) - 1]? <;> rfl

def NCore.shift (L : List Nat) (y : NCore) : NCore := { y with d := y.d.shift L }

theorem nftCoreBody_shift (hash : List Nat → List Nat) (total : Nat) (L : List Nat) (y : NCore) :
    nftCoreBody hash total (y.shift L) =
      (nftCoreBody hash total y).map (fun p => (p.1.shift L, p.2)) := by
  unfold nftCoreBody
  by_cases h0 : (y.usersLeft = 0 || y.selected = total) = true
  · have h0' : ((y.shift L).usersLeft = 0 || (y.shift L).selected = total) = true := h0
    rw [if_pos h0', if_pos h0]; rfl
  · have h0' : ¬ ((y.shift L).usersLeft = 0 || (y.shift L).selected = total) = true := h0
    rw [if_neg h0', if_neg h0]
    simp only [NCore.shift, DCtx.draw_shift]
    cases y.payers[inRange (y.d.draw hash y.rng).1 1 (y.usersLeft + 1) - 1]? <;> rfl

theorem runWhile_nftCore_shift (hash : List Nat → List Nat) (total fuel : Nat) (L : List Nat)
    (b : Option Nat) (y : NCore) :
    runWhile (nftCoreBody hash total) fuel b (y.shift L) =
      (runWhile (nftCoreBody hash total) fuel b y).map (fun r => (r.1.shift L, r.2.1, r.2.2)) :=
  runWhile_map (NCore.shift L) _ _ (nftCoreBody_shift hash total L) fuel b y

/-- what the loop maintains: the work list has no duplicates and is disjoint from the winners,
    and the two counters are the lengths of the two lists (this is what makes reloading the
    counters from storage on resumption harmless) -/
structure NInv (y : NCore) : Prop where
  nodup : y.payers.Nodup
  disj : ∀ a ∈ y.payers, a ∉ y.winners
  left : y.usersLeft = y.payers.length
  sel : y.selected = y.winners.length

def nftCoreStep (hash : List Nat → List Nat) (y : NCore) (w : Nat) : NCore :=
  ⟨(swapRemove y.payers w).1, (setInsert y.winners w).1, y.usersLeft - 1, y.selected + 1,
   (y.d.draw hash y.rng).2.1, (y.d.draw hash y.rng).2.2⟩

theorem nftCoreBody_step (hash : List Nat → List Nat) (total : Nat) (y : NCore) (hi : NInv y)
    (h0 : ¬ (y.usersLeft = 0 || y.selected = total) = true) :
    ∃ y', nftCoreBody hash total y = .ok (y', true) ∧ NInv y' ∧
      y'.usersLeft + 1 = y.usersLeft ∧ y'.selected = y.selected + 1 := by
  have hul : y.usersLeft ≠ 0 := by
    intro h; apply h0; simp [h]
  have h1 := inRange_ge (y.d.draw hash y.rng).1 1 (y.usersLeft + 1)
  have h2 := inRange_lt (y.d.draw hash y.rng).1 1 (y.usersLeft + 1) (by omega)
  have hidx : inRange (y.d.draw hash y.rng).1 1 (y.usersLeft + 1) - 1 < y.payers.length := by
    rw [← hi.left]; omega
  obtain ⟨w, hw⟩ : ∃ w, y.payers[inRange (y.d.draw hash y.rng).1 1 (y.usersLeft + 1) - 1]? = some w :=
    ⟨_, List.getElem?_eq_getElem hidx⟩
  have hmem : w ∈ y.payers := List.mem_of_getElem? hw
  have hnw : w ∉ y.winners := hi.disj w hmem
  refine ⟨nftCoreStep hash y w, by simp only [nftCoreBody, if_neg h0, hw, nftCoreStep],
    ⟨?_, ?_, ?_, ?_⟩, ?_, rfl⟩
  · exact swapRemove_nodup w hi.nodup
  · intro a ha
    have ha : a ∈ (swapRemove y.payers w).1 := ha
    rw [mem_swapRemove hi.nodup] at ha
    show a ∉ (setInsert y.winners w).1
    rw [setInsert_of_not_mem hnw]
    simp only [List.mem_append, List.mem_singleton, not_or]
    exact ⟨hi.disj a ha.2, ha.1⟩
  · have := swapRemove_length hmem
    show y.usersLeft - 1 = (swapRemove y.payers w).1.length
    rw [hi.left]; omega
  · show y.selected + 1 = (setInsert y.winners w).1.length
    rw [setInsert_of_not_mem hnw, hi.sel]; simp
  · show y.usersLeft - 1 + 1 = y.usersLeft
    omega

theorem nftCoreBody_inv (hash : List Nat → List Nat) (total : Nat) (y y' : NCore) (c : Bool)
    (h : nftCoreBody hash total y = .ok (y', c)) (hi : NInv y) : NInv y' := by
  by_cases h0 : (y.usersLeft = 0 || y.selected = total) = true
  · simp only [nftCoreBody, if_pos h0, Except.ok.injEq, Prod.mk.injEq] at h
    rw [← h.1]; exact hi
  · obtain ⟨y2, h2, hi2, _⟩ := nftCoreBody_step hash total y hi h0
    rw [h2] at h
    simp only [Except.ok.injEq, Prod.mk.injEq] at h
    rw [← h.1]; exact hi2

theorem runWhile_nftCore_inv (hash : List Nat → List Nat) (total fuel : Nat)
    (b b' : Option Nat) (y y' : NCore) (st : LoopStatus)
    (h : runWhile (nftCoreBody hash total) fuel b y = .ok (y', b', st)) (hi : NInv y) : NInv y' :=
  runWhile_preserves NInv _ (fun x x' c hb hx => nftCoreBody_inv hash total x x' c hb hx)
    _ _ _ _ _ _ h hi

theorem nftCoreBody_script_nil (hash : List Nat → List Nat) (total : Nat) (y y' : NCore)
    (c : Bool) (h : nftCoreBody hash total y = .ok (y', c)) (hs : y.d.script = []) :
    y'.d.script = [] := by
  unfold nftCoreBody at h
  by_cases h0 : (y.usersLeft = 0 || y.selected = total) = true
  · simp only [if_pos h0, Except.ok.injEq, Prod.mk.injEq] at h
    rw [← h.1]; exact hs
  · simp only [if_neg h0] at h
    cases hw : y.payers[inRange (y.d.draw hash y.rng).1 1 (y.usersLeft + 1) - 1]? with
    | none => rw [hw] at h; cases h
    | some w =>
      rw [hw] at h
      simp only [Except.ok.injEq, Prod.mk.injEq] at h
      rw [← h.1]; exact DCtx.draw_script_nil hash _ _ hs

theorem runWhile_nftCore_script_nil (hash : List Nat → List Nat) (total fuel : Nat)
    (b b' : Option Nat) (y y' : NCore) (st : LoopStatus)
    (h : runWhile (nftCoreBody hash total) fuel b y = .ok (y', b', st))
    (hs : y.d.script = []) : y'.d.script = [] :=
  runWhile_preserves (fun z => z.d.script = []) _
    (fun x x' c hb hx => nftCoreBody_script_nil hash total x x' c hb hx) _ _ _ _ _ _ h hs

/-- the draw completes within `min usersLeft (total - selected) + 1` iterations and never fails -/
theorem nftCore_completes (hash : List Nat → List Nat) (total : Nat) :
    ∀ (fuel : Nat) (y : NCore), NInv y → y.selected ≤ total →
      min y.usersLeft (total - y.selected) + 1 ≤ fuel →
      ∃ y', runWhile (nftCoreBody hash total) fuel none y = .ok (y', none, .completed) := by
  intro fuel
  induction fuel with
  | zero => intro y _ _ h; omega
  | succ fuel ih =>
    intro y hi hle hf
    by_cases h0 : (y.usersLeft = 0 || y.selected = total) = true
    · have hb : nftCoreBody hash total y = .ok (y, false) := by
        simp only [nftCoreBody, if_pos h0]
      exact ⟨y, runWhile_stop hb _ _⟩
    · obtain ⟨y1, hb, hi1, hl1, hs1⟩ := nftCoreBody_step hash total y hi h0
      have hne : y.selected ≠ total := by
        intro h; apply h0; simp [h]
      obtain ⟨y', hy'⟩ := ih y1 hi1 (by omega) (by omega)
      exact ⟨y', by rw [runWhile_cont_none hb]; exact hy'⟩

/-! ### `nftSubstep` and the endpoint `selectNft` -/

/-- the loop state `nftSubstep` starts from: lists and counters reloaded from storage -/
def nftCoreOf (t : Tx) (rng : Rng) : NCore :=
  ⟨t.s.payers, t.s.nftWinners, t.s.payers.length, t.s.nftWinners.length, rng, t.dctx⟩

/-- the transaction record after the loop of `nftSubstep` -/
def nftTx (t : Tx) (y : NCore) (b : Option Nat) : Tx :=
  { s := { t.s with payers := y.payers, nftWinners := y.winners },
    c := { (t.withDctx y.d).c with budget := b }, o := (t.withDctx y.d).o }

def nftSubOutcome (t : Tx) : Res (NCore × Option Nat × LoopStatus) → Res (Tx × Rng × LoopStatus)
  | .error err => .error err
  | .ok (_, _, .outOfFuel) => .error (.vm "out of gas")
  | .ok (y, b, .interrupted) => .ok (nftTx t y b, y.rng, .interrupted)
  | .ok (y, b, .completed) =>
    .ok ((nftTx t y b).setS { (nftTx t y b).s with
            op := .none, claimableNft := t.s.nftCost.amount * y.winners.length }, y.rng, .completed)

theorem nftSubstep_eq (hash : List Nat → List Nat) (t : Tx) (rng : Rng) :
    nftSubstep hash t rng =
      nftSubOutcome t (runWhile (nftCoreBody hash t.s.availNfts) (t.s.payers.length + 2)
        t.c.budget (nftCoreOf t rng)) := by
  unfold nftSubstep
  have hl : (⟨t.s.payers, t.s.nftWinners, t.s.payers.length, t.s.nftWinners.length, rng, t⟩ : NSt) =
      NCore.lift t (nftCoreOf t rng) := rfl
  simp only [hl, runWhile_map _ _ _ (nftBody_lift hash _ _)]
  cases runWhile (nftCoreBody hash t.s.availNfts) (t.s.payers.length + 2) t.c.budget
      (nftCoreOf t rng) with
  | error err => rfl
  | ok q =>
    obtain ⟨y, b, st⟩ := q
    cases st <;> rfl

theorem nftCoreOf_freshRng (t : Tx) (r : Rng) : nftCoreOf t.freshRng.2 r = nftCoreOf t r := by
  simp only [nftCoreOf, Tx.freshRng_s, Tx.freshRng_dctx]

structure NftPre (s : State) (e : Env) : Prop where
  stage : s.stage e = .winnerSelection
  selected : s.flags.selected = true
  notDone : s.flags.additional = false

/-- the generator the endpoint starts from: fresh from the call's first seed when no operation
    is saved, the saved one otherwise -/
def nftRngOf (t : Tx) : Option Rng :=
  match t.s.op with
  | .none => some t.freshRng.1
  | .additional (.nft r) => some r
  | _ => none

/-- storage after an interrupted NFT draw that stopped in loop state `y` -/
def nftSaved (s : State) (y : NCore) : State :=
  { s with payers := y.payers, nftWinners := y.winners, op := .additional (.nft y.rng) }

/-- storage after a completed NFT draw that ended in loop state `y` -/
def nftDone (s : State) (y : NCore) : State :=
  { s with payers := y.payers, nftWinners := y.winners, op := .none,
           claimableNft := s.nftCost.amount * y.winners.length,
           flags := { s.flags with additional := true } }

def nftTxInt (t : Tx) (y : NCore) (b : Option Nat) : Tx :=
  { s := nftSaved t.s y, c := { ((selTxOf t).withDctx y.d).c with budget := b },
    o := { ((selTxOf t).withDctx y.d).o with ret := [1] } }

def nftTxDone (t : Tx) (y : NCore) (b : Option Nat) : Tx :=
  { s := nftDone t.s y, c := { ((selTxOf t).withDctx y.d).c with budget := b },
    o := { ((selTxOf t).withDctx y.d).o with ret := [0] } }

def selectNftOutcome (t : Tx) : Res (NCore × Option Nat × LoopStatus) → Res Tx
  | .error err => .error err
  | .ok (_, _, .outOfFuel) => .error (.vm "out of gas")
  | .ok (y, b, .interrupted) => .ok (nftTxInt t y b)
  | .ok (y, b, .completed) => .ok (nftTxDone t y b)

theorem selectNft_eq (hash : List Nat → List Nat) (t : Tx) (e : Env) (r : Rng)
    (hp : NftPre t.s e) (hr : nftRngOf t = some r) :
    selectNft hash t e =
      selectNftOutcome t (runWhile (nftCoreBody hash t.s.availNfts) (t.s.payers.length + 2)
        t.c.budget (nftCoreOf t r)) := by
  obtain ⟨h1, h2, h3⟩ := hp
  have h1' : (t.s.stage e == Stage.winnerSelection) = true := by simp [h1]
  have h3' : (!t.s.flags.additional) = true := by simp [h3]
  unfold selectNft
  simp only [bind, Except.bind, pure, Except.pure, req, requireStage, h1', h2, h3', if_true]
  rcases hop : t.s.op with _ | _ | _ | (g | r0)
  · simp only [nftRngOf, hop, Option.some.injEq] at hr
    subst hr
    simp only [nftSubstep_eq, nftCoreOf_freshRng, Tx.freshRng_s, Tx.freshRng_budget]
    cases runWhile (nftCoreBody hash t.s.availNfts) (t.s.payers.length + 2) t.c.budget
        (nftCoreOf t t.freshRng.1) with
    | error err => rfl
    | ok q =>
      obtain ⟨y, b, st⟩ := q
      cases st <;> simp [nftSubOutcome, selectNftOutcome, nftTxInt, nftTxDone, nftTx, selTxOf, hop,
        nftSaved, nftDone, Tx.setS, h2]
  · simp [nftRngOf, hop] at hr
  · simp [nftRngOf, hop] at hr
  · simp [nftRngOf, hop] at hr
  · simp only [nftRngOf, hop, Option.some.injEq] at hr
    subst hr
    simp only [nftSubstep_eq]
    cases runWhile (nftCoreBody hash t.s.availNfts) (t.s.payers.length + 2) t.c.budget
        (nftCoreOf t r0) with
    | error err => rfl
    | ok q =>
      obtain ⟨y, b, st⟩ := q
      cases st <;> simp [nftSubOutcome, selectNftOutcome, nftTxInt, nftTxDone, nftTx, selTxOf, hop,
        nftSaved, nftDone, Tx.setS, h2]

theorem selectNft_inv (hash : List Nat → List Nat) (t t' : Tx) (e : Env)
    (h : selectNft hash t e = .ok t') : NftPre t.s e ∧ ∃ r, nftRngOf t = some r := by
  unfold selectNft at h
  rcases hop : t.s.op with _ | _ | _ | (g | r) <;>
    simp only [hop, requireStage, pure_bind, bind_ok_iff, req_ok_iff, exists_const, Prod.exists,
      reduceCtorEq, false_and, and_false] at h
  all_goals
    obtain ⟨g1, g2, g3, _⟩ := h
    exact ⟨⟨by simpa using g1, g2, by simpa using g3⟩,
      by simp only [nftRngOf, hop]; exact ⟨_, rfl⟩⟩

/-- the two ways a `selectNft` call can be accepted -/
theorem selectNft_ok_cases (hash : List Nat → List Nat) (t t' : Tx) (e : Env)
    (h : selectNft hash t e = .ok t') :
    NftPre t.s e ∧ ∃ r y b, nftRngOf t = some r ∧
      ((runWhile (nftCoreBody hash t.s.availNfts) (t.s.payers.length + 2) t.c.budget
          (nftCoreOf t r) = .ok (y, b, .interrupted) ∧ t'.s = nftSaved t.s y ∧
          t'.o.ret = [1] ∧ t'.o.draws = y.d.log ∧ t'.o.events = t.o.events ∧
          t'.c.seeds = (selTxOf t).c.seeds) ∨
       (runWhile (nftCoreBody hash t.s.availNfts) (t.s.payers.length + 2) t.c.budget
          (nftCoreOf t r) = .ok (y, b, .completed) ∧ t'.s = nftDone t.s y ∧
          t'.o.ret = [0] ∧ t'.o.draws = y.d.log ∧ t'.o.events = t.o.events ∧
          t'.c.seeds = (selTxOf t).c.seeds)) := by
  obtain ⟨hp, r, hr⟩ := selectNft_inv hash t t' e h
  refine ⟨hp, ?_⟩
  rw [selectNft_eq hash t e r hp hr] at h
  cases hrun : runWhile (nftCoreBody hash t.s.availNfts) (t.s.payers.length + 2) t.c.budget
      (nftCoreOf t r) with
  | error err => rw [hrun] at h; cases h
  | ok q =>
    obtain ⟨y, b, st⟩ := q
    rw [hrun] at h
    have ho : ((selTxOf t).withDctx y.d).o.events = t.o.events := by
      simp only [Tx.withDctx, selTxOf_o]
    cases st with
    | outOfFuel => cases h
    | interrupted =>
      simp only [selectNftOutcome, Except.ok.injEq] at h
      subst h
      exact ⟨r, y, b, hr, Or.inl ⟨hrun, rfl, rfl, rfl, ho, rfl⟩⟩
    | completed =>
      simp only [selectNftOutcome, Except.ok.injEq] at h
      subst h
      exact ⟨r, y, b, hr, Or.inr ⟨hrun, rfl, rfl, rfl, ho, rfl⟩⟩

/-- (a) an interrupted `selectNft` call saves the generator in `op := .additional (.nft rng)`
    together with the updated `payers` / `nftWinners`, returns `[1]`, emits nothing, and changes
    nothing else -/
theorem selectNft_interrupted (hash : List Nat → List Nat) (t : Tx) (e : Env) (r : Rng)
    (y : NCore) (b : Option Nat) (hp : NftPre t.s e) (hr : nftRngOf t = some r)
    (hrun : runWhile (nftCoreBody hash t.s.availNfts) (t.s.payers.length + 2) t.c.budget
              (nftCoreOf t r) = .ok (y, b, .interrupted)) :
    ∃ t', selectNft hash t e = .ok t' ∧
      t'.s = { t.s with payers := y.payers, nftWinners := y.winners,
                        op := .additional (.nft y.rng) } ∧
      t'.o.ret = [1] ∧ t'.o.events = t.o.events ∧ t'.o.xfers = t.o.xfers ∧
      t'.o.draws = y.d.log := by
  refine ⟨nftTxInt t y b, by rw [selectNft_eq hash t e r hp hr, hrun]; rfl, rfl, rfl, ?_, ?_, rfl⟩
  all_goals simp only [nftTxInt, Tx.withDctx, selTxOf_o]

/-- seeds: a resumed call leaves them untouched, a call that starts the draw pops exactly one -/
theorem selectNft_seeds (hash : List Nat → List Nat) (t t' : Tx) (e : Env)
    (h : selectNft hash t e = .ok t') :
    t'.c.seeds = (match t.s.op with | .none => t.c.seeds.tail | _ => t.c.seeds) := by
  obtain ⟨_, r, y, b, _, hc⟩ := selectNft_ok_cases hash t t' e h
  have : t'.c.seeds = (selTxOf t).c.seeds := by
    rcases hc with ⟨_, _, _, _, _, h⟩ | ⟨_, _, _, _, _, h⟩ <;> exact h
  rw [this]
  unfold selTxOf
  split
  · exact Tx.freshRng_seeds t
  · rfl

/-- (b) the result of a resumed NFT-draw call does not depend on the seeds (nor caller, round,
    epoch) of its environment -/
theorem selectNft_resumed_env_irrelevant (hash : List Nat → List Nat) (s : State)
    (r : Rng) (hop : s.op = .additional (.nft r)) (e e' : Env) (b : Option Nat)
    (hscr : e.script = e'.script) (hp : NftPre s e) (hp' : NftPre s e') :
    (selectNft hash (callTx s e b) e).map (fun t => (t.s, t.o.ret, t.o.draws, t.o.events)) =
    (selectNft hash (callTx s e' b) e').map (fun t => (t.s, t.o.ret, t.o.draws, t.o.events)) := by
  have hr : nftRngOf (callTx s e b) = some r := by simp only [nftRngOf, callTx, hop]
  have hr' : nftRngOf (callTx s e' b) = some r := by simp only [nftRngOf, callTx, hop]
  rw [selectNft_eq hash _ e r hp hr, selectNft_eq hash _ e' r hp' hr']
  have hd : nftCoreOf (callTx s e b) r = nftCoreOf (callTx s e' b) r := by
    simp only [nftCoreOf, callTx, Tx.dctx, hscr]
  rw [hd]
  have key : ∀ q : Res (NCore × Option Nat × LoopStatus),
      (selectNftOutcome (callTx s e b) q).map (fun t => (t.s, t.o.ret, t.o.draws, t.o.events)) =
      (selectNftOutcome (callTx s e' b) q).map
        (fun t => (t.s, t.o.ret, t.o.draws, t.o.events)) := by
    intro q
    cases q with
    | error err => rfl
    | ok q =>
      obtain ⟨y', b', st⟩ := q
      cases st
      · simp only [selectNftOutcome, nftTxDone, Except.map, selTxOf, callTx, hop, Tx.withDctx, nftDone]
      · simp only [selectNftOutcome, nftTxInt, Except.map, selTxOf, callTx, hop, Tx.withDctx, nftSaved]
      · rfl
  exact key _

/-! ### chunked NFT draw = single call -/

def nftCalls (hash : List Nat → List Nat) : List (Env × Option Nat) → State → Res (State × List Nat)
  | [], s => .ok (s, [])
  | (e, b) :: rest, s =>
    match selectNft hash (callTx s e b) e with
    | .error err => .error err
    | .ok t' =>
      match nftCalls hash rest t'.s with
      | .error err => .error err
      | .ok (s', ds) => .ok (s', t'.o.draws ++ ds)

/-- the loop state a `selectNft` call in environment `e` starts from on storage `s` -/
def nftCoreAt (s : State) (e : Env) : Option NCore :=
  (nftRngOf (callTx s e none)).map (nftCoreOf (callTx s e none))

/-- the storage the NFT draw works on: no duplicates in the fee-payer list, nobody both payer
    and winner (true in every reachable state: `confirmNft` inserts into a set, the draw moves
    users from one list to the other) -/
structure NftReady (s : State) : Prop where
  nodup : s.payers.Nodup
  disj : ∀ a ∈ s.payers, a ∉ s.nftWinners

theorem nftCoreAt_some (s : State) (e : Env) (b : Option Nat) (y : NCore)
    (h : nftCoreAt s e = some y) :
    ∃ r, nftRngOf (callTx s e b) = some r ∧ nftCoreOf (callTx s e b) r = y := by
  unfold nftCoreAt at h
  cases hr : nftRngOf (callTx s e none) with
  | none => rw [hr] at h; cases h
  | some r =>
    rw [hr] at h
    simp only [Option.map_some, Option.some.injEq] at h
    refine ⟨r, ?_, h⟩
    rw [← hr]
    unfold nftRngOf callTx
    cases s.op <;> simp [Tx.freshRng_fst]

theorem nftCoreAt_inv (s : State) (e : Env) (y : NCore) (h : nftCoreAt s e = some y)
    (hs : NftReady s) : NInv y ∧ y.d = ⟨e.script, []⟩ := by
  obtain ⟨r, _, rfl⟩ := nftCoreAt_some s e none y h
  exact ⟨⟨hs.nodup, hs.disj, rfl, rfl⟩, rfl⟩

theorem selectNft_callTx_eq (hash : List Nat → List Nat) (s : State) (e : Env) (b : Option Nat)
    (y : NCore) (hp : NftPre s e) (hy : nftCoreAt s e = some y) :
    selectNft hash (callTx s e b) e =
      selectNftOutcome (callTx s e b)
        (runWhile (nftCoreBody hash s.availNfts) (s.payers.length + 2) b y) := by
  obtain ⟨r, hr, rfl⟩ := nftCoreAt_some s e b y hy
  exact selectNft_eq hash (callTx s e b) e r hp hr

theorem nftCall_ok_cases (hash : List Nat → List Nat) (s : State) (e : Env) (b : Option Nat)
    (t' : Tx) (h : selectNft hash (callTx s e b) e = .ok t') :
    NftPre s e ∧ ∃ y y' b', nftCoreAt s e = some y ∧ t'.o.draws = y'.d.log ∧
      ((runWhile (nftCoreBody hash s.availNfts) (s.payers.length + 2) b y
          = .ok (y', b', .interrupted) ∧ t'.s = nftSaved s y') ∨
       (runWhile (nftCoreBody hash s.availNfts) (s.payers.length + 2) b y
          = .ok (y', b', .completed) ∧ t'.s = nftDone s y')) := by
  obtain ⟨hp, r, y', b', hr, hc⟩ := selectNft_ok_cases hash _ _ _ h
  refine ⟨hp, nftCoreOf (callTx s e b) r, y', b', ?_, ?_, ?_⟩
  · unfold nftCoreAt
    have : nftRngOf (callTx s e none) = some r := by
      rw [← hr]; unfold nftRngOf callTx; cases s.op <;> simp [Tx.freshRng_fst]
    rw [this]; rfl
  · rcases hc with ⟨_, _, _, h, _⟩ | ⟨_, _, _, h, _⟩ <;> exact h
  · rcases hc with ⟨h1, h2, _⟩ | ⟨h1, h2, _⟩
    · exact Or.inl ⟨h1, h2⟩
    · exact Or.inr ⟨h1, h2⟩

theorem nftCoreAt_saved (s : State) (y : NCore) (e : Env) :
    nftCoreAt (nftSaved s y) e =
      some ⟨y.payers, y.winners, y.payers.length, y.winners.length, y.rng, ⟨e.script, []⟩⟩ := rfl

theorem NCore.eq_shift_of_inv (y : NCore) (hi : NInv y) (hs : y.d.script = []) :
    y = (⟨y.payers, y.winners, y.payers.length, y.winners.length, y.rng, ⟨[], []⟩⟩ : NCore).shift
          y.d.log := by
  obtain ⟨a1, a2, a3, a4, a5, ⟨sc, lg⟩⟩ := y
  have h3 := hi.left
  have h4 := hi.sel
  simp only at hs h3 h4
  subst hs; subst h3; subst h4
  simp [NCore.shift, DCtx.shift]

/-- loop level: an accepted schedule of `selectNft` calls that completes the draw computes the
    final loop state of ONE unbudgeted run from the state the first call started in -/
theorem nftCalls_run (hash : List Nat → List Nat) :
    ∀ (rest : List (Env × Option Nat)) (e0 : Env) (b0 : Option Nat) (s s' : State)
      (ds : List Nat) (y : NCore),
      nftCoreAt s e0 = some y → NftReady s → e0.script = [] → (∀ c ∈ rest, c.1.script = []) →
      nftCalls hash ((e0, b0) :: rest) s = .ok (s', ds) → s'.flags.additional = true →
      ∃ yf fuel, runWhile (nftCoreBody hash s.availNfts) fuel none y
                  = .ok (yf, none, .completed) ∧
        s' = nftDone s yf ∧ yf.d.log = ds := by
  intro rest
  induction rest with
  | nil =>
    intro e0 b0 s s' ds y hy hrdy hscr _ hc hsel
    simp only [nftCalls] at hc
    cases hcall : selectNft hash (callTx s e0 b0) e0 with
    | error err => rw [hcall] at hc; cases hc
    | ok t1 =>
      rw [hcall] at hc
      simp only [Except.ok.injEq, Prod.mk.injEq, List.append_nil] at hc
      obtain ⟨rfl, rfl⟩ := hc
      obtain ⟨hp, y0, y', b, hy0, hlog, hcs⟩ := nftCall_ok_cases hash _ _ _ _ hcall
      rw [hy] at hy0
      injection hy0 with hy0
      subst hy0
      rcases hcs with ⟨_, hs1⟩ | ⟨hrun, hs1⟩
      · rw [hs1] at hsel
        have h2 : s.flags.additional = false := hp.notDone
        have h1 : s.flags.additional = true := hsel
        rw [h1] at h2; cases h2
      · exact ⟨y', _, runWhile_completed_any_budget _ _ _ _ _ _ hrun, hs1, hlog.symm⟩
  | cons c1 rest2 ih =>
    obtain ⟨e1, b1⟩ := c1
    intro e0 b0 s s' ds y hy hrdy hscr hrest hc hsel
    simp only [nftCalls] at hc
    cases hcall : selectNft hash (callTx s e0 b0) e0 with
    | error err => rw [hcall] at hc; cases hc
    | ok t1 =>
      rw [hcall] at hc
      simp only at hc
      obtain ⟨hp, y0, y1, b, hy0, hlog, hcs⟩ := nftCall_ok_cases hash _ _ _ _ hcall
      rw [hy] at hy0
      injection hy0 with hy0
      subst hy0
      cases hcall2 : selectNft hash (callTx t1.s e1 b1) e1 with
      | error err => rw [hcall2] at hc; cases hc
      | ok t2 =>
        obtain ⟨hp2, _⟩ := nftCall_ok_cases hash _ _ _ _ hcall2
        rcases hcs with ⟨hrun, hs1⟩ | ⟨_, hs1⟩
        · have hrest' : nftCalls hash ((e1, b1) :: rest2) t1.s =
              (match selectNft hash (callTx t1.s e1 b1) e1 with
               | .error err => .error err
               | .ok t' =>
                 match nftCalls hash rest2 t'.s with
                 | .error err => .error err
                 | .ok (s', ds) => .ok (s', t'.o.draws ++ ds)) := rfl
          rw [← hrest'] at hc
          cases hrc : nftCalls hash ((e1, b1) :: rest2) t1.s with
          | error err => rw [hrc] at hc; cases hc
          | ok q =>
            obtain ⟨s2, ds2⟩ := q
            rw [hrc] at hc
            simp only [Except.ok.injEq, Prod.mk.injEq] at hc
            obtain ⟨rfl, rfl⟩ := hc
            rw [hs1] at hrc
            have he1 : e1.script = [] := hrest (e1, b1) (List.mem_cons_self ..)
            obtain ⟨hiy, hdy⟩ := nftCoreAt_inv s e0 y hy hrdy
            have hi1 : NInv y1 := runWhile_nftCore_inv hash _ _ _ _ _ _ _ hrun hiy
            have hy1s : y1.d.script = [] :=
              runWhile_nftCore_script_nil hash _ _ _ _ _ _ _ hrun (by rw [hdy]; exact hscr)
            obtain ⟨yf, fuel, hrunf, hfin, hlogf⟩ :=
              ih e1 b1 (nftSaved s y1) s2 ds2
                ⟨y1.payers, y1.winners, y1.payers.length, y1.winners.length, y1.rng, ⟨[], []⟩⟩
                (by rw [nftCoreAt_saved, he1]) ⟨hi1.nodup, hi1.disj⟩ he1
                (fun c hc => hrest c (List.mem_cons_of_mem _ hc)) hrc hsel
            have hshift := NCore.eq_shift_of_inv y1 hi1 hy1s
            have hrun2 : runWhile (nftCoreBody hash s.availNfts) fuel none y1 =
                .ok (yf.shift y1.d.log, none, .completed) := by
              rw [hshift, runWhile_nftCore_shift]
              have : (nftSaved s y1).availNfts = s.availNfts := rfl
              rw [this] at hrunf
              rw [hrunf]
              simp [Except.map, NCore.shift, DCtx.shift]
            refine ⟨yf.shift y1.d.log, _, runWhile_resume_any _ _ _ _ _ _ _ _ hrun hrun2, ?_, ?_⟩
            · rw [hfin]; rfl
            · show y1.d.log ++ yf.d.log = _
              rw [hlogf, hlog]
        · have h1 : t1.s.flags.additional = false := hp2.notDone
          rw [hs1] at h1
          cases h1

theorem nftCoreAt_eq_of_first (s : State) (e0 e1 : Env)
    (hseed : s.op = .none → firstRng e1.seeds = firstRng e0.seeds)
    (hscr : e1.script = e0.script) : nftCoreAt s e1 = nftCoreAt s e0 := by
  unfold nftCoreAt nftRngOf nftCoreOf
  rcases hop : s.op with _ | _ | _ | (g | r)
  · simp only [callTx, hop, Tx.freshRng_fst, Tx.dctx, hscr, hseed hop]
  all_goals simp only [callTx, hop, Tx.dctx, hscr]

/-- **chunked NFT draw = single call**: final storage (all of it) and concatenated draw log of
    any accepted completing schedule equal those of ONE unbudgeted `selectNft` call carrying the
    first call's first seed -/
theorem nftCalls_eq_single (hash : List Nat → List Nat) (e0 : Env) (b0 : Option Nat)
    (rest : List (Env × Option Nat)) (s s' : State) (ds : List Nat) (e1 : Env) (t1 : Tx)
    (hrdy : NftReady s) (hscr0 : e0.script = []) (hrest : ∀ c ∈ rest, c.1.script = [])
    (hc : nftCalls hash ((e0, b0) :: rest) s = .ok (s', ds))
    (hsel : s'.flags.additional = true)
    (hsame : nftCoreAt s e1 = nftCoreAt s e0)
    (h1 : selectNft hash (callTx s e1 none) e1 = .ok t1) :
    s' = t1.s ∧ ds = t1.o.draws := by
  obtain ⟨_, y1, y1', b, hy1, hlog1, hcs⟩ := nftCall_ok_cases hash _ _ _ _ h1
  rw [hsame] at hy1
  obtain ⟨yf, fuel, hrun, hfin, hlog⟩ :=
    nftCalls_run hash rest e0 b0 s s' ds y1 hy1 hrdy hscr0 hrest hc hsel
  rcases hcs with ⟨hr, _⟩ | ⟨hr, hs1⟩
  · obtain ⟨k, hk⟩ := runWhile_interrupted_budget hr
    cases hk
  · have hr' := runWhile_completed_any_budget _ _ _ _ _ _ hr
    have : yf = y1' := runWhile_completed_unique _ _ _ _ _ _ hrun hr'
    subst this
    exact ⟨by rw [hfin, hs1], by rw [← hlog, hlog1]⟩

/-! ### liveness of the NFT draw -/

/-- an interrupted call made progress for any measure that every CONTINUE iteration decreases -/
theorem runWhile_interrupted_measure {σ : Type} (body : σ → Res (σ × Bool)) (μ : σ → Nat)
    (P : σ → Prop) (hstep : ∀ x x', P x → body x = .ok (x', true) → P x' ∧ μ x' < μ x) :
    ∀ (f : Nat) (b : Option Nat) (x x1 : σ) (b1 : Option Nat),
      runWhile body f b x = .ok (x1, b1, .interrupted) → P x → P x1 ∧ μ x1 < μ x := by
  intro f
  induction f with
  | zero =>
    intro b x x1 b1 h
    rw [runWhile_zero] at h
    injection h with h
    simp only [Prod.mk.injEq] at h
    exact absurd h.2.2 (by decide)
  | succ f ih =>
    intro b x x1 b1 h hp
    cases hb : body x with
    | error e => rw [runWhile_err hb] at h; cases h
    | ok p =>
      obtain ⟨x', c⟩ := p
      cases c with
      | false =>
        rw [runWhile_stop hb] at h
        injection h with h
        simp only [Prod.mk.injEq] at h
        exact absurd h.2.2 (by decide)
      | true =>
        obtain ⟨hp', hμ⟩ := hstep x x' hp hb
        cases b with
        | none =>
          rw [runWhile_cont_none hb] at h
          obtain ⟨h1, h2⟩ := ih _ _ _ _ h hp'
          exact ⟨h1, by omega⟩
        | some k =>
          cases k with
          | zero =>
            rw [runWhile_cont_zero hb] at h
            injection h with h
            simp only [Prod.mk.injEq] at h
            rw [← h.1]; exact ⟨hp', hμ⟩
          | succ k =>
            rw [runWhile_cont_succ hb] at h
            obtain ⟨h1, h2⟩ := ih _ _ _ _ h hp'
            exact ⟨h1, by omega⟩

theorem nftCore_interrupted_progress (hash : List Nat → List Nat) (total f : Nat)
    (b b1 : Option Nat) (y y1 : NCore)
    (h : runWhile (nftCoreBody hash total) f b y = .ok (y1, b1, .interrupted))
    (hi : NInv y) (hle : y.selected ≤ total) :
    (NInv y1 ∧ y1.selected ≤ total) ∧
      min y1.usersLeft (total - y1.selected) < min y.usersLeft (total - y.selected) := by
  refine runWhile_interrupted_measure (nftCoreBody hash total)
    (fun z => min z.usersLeft (total - z.selected)) (fun z => NInv z ∧ z.selected ≤ total)
    ?_ f b y y1 b1 h ⟨hi, hle⟩
  intro x x' hx hb
  by_cases h0 : (x.usersLeft = 0 || x.selected = total) = true
  · simp only [nftCoreBody, if_pos h0, Except.ok.injEq, Prod.mk.injEq] at hb
    exact absurd hb.2 (by decide)
  · obtain ⟨x2, h2, hi2, hl2, hs2⟩ := nftCoreBody_step hash total x hx.1 h0
    rw [h2] at hb
    simp only [Except.ok.injEq, Prod.mk.injEq, and_true] at hb
    subst hb
    have hne : x.selected ≠ total := by
      intro h; apply h0; simp [h]
    have := hx.2
    exact ⟨⟨hi2, by omega⟩, by omega⟩

theorem NftPre_saved (s : State) (y : NCore) (e : Env) (h : NftPre s e) :
    NftPre (nftSaved s y) e := ⟨h.1, h.2, h.3⟩

theorem nftCalls_completes_gen (hash : List Nat → List Nat) :
    ∀ (rest : List (Env × Option Nat)) (e0 : Env) (b0 : Option Nat) (s : State) (y : NCore),
      nftCoreAt s e0 = some y → NftReady s → e0.script = [] → (∀ c ∈ rest, c.1.script = []) →
      NftPre s e0 → (∀ c ∈ rest, NftPre s c.1) → s.nftWinners.length ≤ s.availNfts →
      min s.payers.length (s.availNfts - s.nftWinners.length) ≤ rest.length →
      ∃ cs1 cs2 s' ds, (e0, b0) :: rest = cs1 ++ cs2 ∧
        nftCalls hash cs1 s = .ok (s', ds) ∧ s'.flags.additional = true := by
  intro rest
  induction rest with
  | nil =>
    intro e0 b0 s y hy hrdy hscr _ hp _ hw hlen
    obtain ⟨r, _, hyr⟩ := nftCoreAt_some s e0 none y hy
    obtain ⟨hiy, _⟩ := nftCoreAt_inv s e0 y hy hrdy
    have hul : y.usersLeft = s.payers.length := by rw [← hyr]; rfl
    have hsel : y.selected = s.nftWinners.length := by rw [← hyr]; rfl
    obtain ⟨yf, hrun⟩ := nftCore_completes hash s.availNfts
      (min y.usersLeft (s.availNfts - y.selected) + 1) y hiy (by omega) (Nat.le_refl _)
    have hcall := selectNft_callTx_eq hash s e0 b0 y hp hy
    have hdone : ∃ b', runWhile (nftCoreBody hash s.availNfts) (s.payers.length + 2) b0 y
        = .ok (yf, b', .completed) := by
      cases b0 with
      | none => exact ⟨none, runWhile_fuel_mono _ _ _ _ _ _ _ hrun (by decide) _ (by omega)⟩
      | some k =>
        rcases runWhile_call_progress _ _ y yf hrun k (s.payers.length + 2) (by omega) with
          h | ⟨_, _, _, h, _⟩
        · exact h
        · simp only [List.length_nil] at hlen; omega
    obtain ⟨b', hb'⟩ := hdone
    rw [hb'] at hcall
    refine ⟨[(e0, b0)], [], (nftTxDone (callTx s e0 b0) yf b').s,
      (nftTxDone (callTx s e0 b0) yf b').o.draws ++ [], rfl, ?_, rfl⟩
    simp only [nftCalls, hcall, selectNftOutcome]
  | cons c1 rest2 ih =>
    obtain ⟨e1, b1⟩ := c1
    intro e0 b0 s y hy hrdy hscr hrest hp hprest hw hlen
    obtain ⟨r, _, hyr⟩ := nftCoreAt_some s e0 none y hy
    obtain ⟨hiy, hdy⟩ := nftCoreAt_inv s e0 y hy hrdy
    have hul : y.usersLeft = s.payers.length := by rw [← hyr]; rfl
    have hsel : y.selected = s.nftWinners.length := by rw [← hyr]; rfl
    obtain ⟨yf, hrun⟩ := nftCore_completes hash s.availNfts
      (min y.usersLeft (s.availNfts - y.selected) + 1) y hiy (by omega) (Nat.le_refl _)
    have hcall := selectNft_callTx_eq hash s e0 b0 y hp hy
    have hprog : (∃ b', runWhile (nftCoreBody hash s.availNfts) (s.payers.length + 2) b0 y
        = .ok (yf, b', .completed)) ∨
        (∃ y1, runWhile (nftCoreBody hash s.availNfts) (s.payers.length + 2) b0 y
          = .ok (y1, some 0, .interrupted)) := by
      cases b0 with
      | none => exact Or.inl ⟨none, runWhile_fuel_mono _ _ _ _ _ _ _ hrun (by decide) _ (by omega)⟩
      | some k =>
        rcases runWhile_call_progress _ _ y yf hrun k (s.payers.length + 2) (by omega) with
          h | ⟨y1, h1, _⟩
        · exact Or.inl h
        · exact Or.inr ⟨y1, h1⟩
    rcases hprog with ⟨b', hb'⟩ | ⟨y1, hint⟩
    · rw [hb'] at hcall
      refine ⟨[(e0, b0)], (e1, b1) :: rest2, (nftTxDone (callTx s e0 b0) yf b').s,
        (nftTxDone (callTx s e0 b0) yf b').o.draws ++ [], rfl, ?_, rfl⟩
      simp only [nftCalls, hcall, selectNftOutcome]
    · rw [hint] at hcall
      obtain ⟨⟨hi1, hle1⟩, hμ⟩ := nftCore_interrupted_progress hash _ _ _ _ _ _ hint hiy (by omega)
      have he1 : e1.script = [] := hrest (e1, b1) (List.mem_cons_self ..)
      obtain ⟨cs1, cs2, s', ds, hsplit, hcalls, hadd⟩ :=
        ih e1 b1 (nftSaved s y1) _ (by rw [nftCoreAt_saved]) ⟨hi1.nodup, hi1.disj⟩ he1
          (fun c hc => hrest c (List.mem_cons_of_mem _ hc))
          (NftPre_saved s y1 e1 (hprest (e1, b1) (List.mem_cons_self ..)))
          (fun c hc => NftPre_saved s y1 c.1 (hprest c (List.mem_cons_of_mem _ hc)))
          (by show y1.winners.length ≤ s.availNfts; rw [← hi1.sel]; exact hle1)
          (by show min y1.payers.length (s.availNfts - y1.winners.length) ≤ rest2.length
              rw [← hi1.sel, ← hi1.left]
              simp only [List.length_cons] at hlen
              omega)
      refine ⟨(e0, b0) :: cs1, cs2, s', (nftTxInt (callTx s e0 b0) y1 (some 0)).o.draws ++ ds,
        by rw [hsplit]; rfl, ?_, hadd⟩
      simp only [nftCalls, hcall, selectNftOutcome]
      have : (nftTxInt (callTx s e0 b0) y1 (some 0)).s = nftSaved s y1 := rfl
      rw [this, hcalls]

/-- liveness of the NFT draw: a schedule that starts the draw, all of whose calls pass the gates
    and carry no scripted draws, completes after at most `min availNfts |payers| + 1` calls,
    whatever the budgets -/
theorem nftCalls_completes (hash : List Nat → List Nat) (cs : List (Env × Option Nat))
    (s : State) (hop : s.op = .none) (hrdy : NftReady s) (hpre : ∀ c ∈ cs, NftPre s c.1)
    (hscr : ∀ c ∈ cs, c.1.script = []) (hw : s.nftWinners.length ≤ s.availNfts)
    (hlen : min s.availNfts s.payers.length + 1 ≤ cs.length) :
    ∃ cs1 cs2 s' ds, cs = cs1 ++ cs2 ∧ nftCalls hash cs1 s = .ok (s', ds) ∧
      s'.flags.additional = true := by
  cases cs with
  | nil => simp at hlen
  | cons c rest =>
    obtain ⟨e0, b0⟩ := c
    have hy : nftCoreAt s e0 = some (nftCoreOf (callTx s e0 none) (callTx s e0 none).freshRng.1) := by
      simp only [nftCoreAt, nftRngOf, callTx, hop, Option.map_some]
    exact nftCalls_completes_gen hash rest e0 b0 s _ hy hrdy
      (hscr _ (List.mem_cons_self ..)) (fun c hc => hscr c (List.mem_cons_of_mem _ hc))
      (hpre _ (List.mem_cons_self ..)) (fun c hc => hpre c (List.mem_cons_of_mem _ hc)) hw
      (by simp only [List.length_cons] at hlen; omega)

/-! ## 3. the distribution step (`guaranteedSubstep`, `distribute`) -/

/-- the loop state of the leftover re-draw without the transaction record -/
structure LCore where
  status : Nat → Bool
  posToId : Nat → Nat
  rng : Rng
  leftover : Nat
  offset : Nat
  additional : Nat
  d : DCtx

def LCore.lift (t0 : Tx) (z : LCore) : LSt :=
  ⟨z.status, z.posToId, z.rng, z.leftover, z.offset, z.additional, t0.withDctx z.d⟩

/-- `leftoverBody` on the core -/
def leftCoreBody (hash : List Nat → List Nat) (v2 : Bool) (nrOrig last : Nat) (x : LCore) :
    Res (LCore × Bool) :=
  let x := if nrOrig + x.additional ≥ last then { x with leftover := 0 } else x
  if x.leftover = 0 then .ok (x, false) else
  let cur := nrOrig + x.offset
  let curId := idFromPos x.posToId cur
  if x.status curId then .ok ({ x with offset := x.offset + 1 }, true) else
  let r := x.d.draw hash x.rng
  let x := { x with rng := r.2.1, d := r.2.2 }
  let randPos := inRange r.1 cur (last + 1)
  let selId := idFromPos x.posToId randPos
  if x.status selId then
    if v2 then
      .ok ({ x with posToId := upd (upd x.posToId cur selId) randPos curId,
                    offset := x.offset + 1 }, true)
    else .ok (x, true)
  else
    .ok ({ x with posToId := upd x.posToId randPos curId, status := upd x.status selId true,
                  leftover := x.leftover - 1, additional := x.additional + 1,
                  offset := x.offset + 1 }, true)

theorem leftoverBody_lift (hash : List Nat → List Nat) (v2 : Bool) (nrOrig last : Nat) (t0 : Tx)
    (z : LCore) :
    leftoverBody hash v2 nrOrig last (LCore.lift t0 z) =
      (leftCoreBody hash v2 nrOrig last z).map (fun p => (LCore.lift t0 p.1, p.2)) := by
  obtain ⟨st, p, r, lo, off, add, d⟩ := z
  unfold leftoverBody leftCoreBody
  simp only [LCore.lift]
  by_cases hc : nrOrig + add ≥ last
  · simp only [hc, if_true]
    rfl
  · simp only [hc, if_false]
    by_cases h0 : lo = 0
    · simp only [h0, if_true]; rfl
    · simp only [h0, if_false]
      by_cases h1 : st (idFromPos p (nrOrig + off)) = true
      · simp only [h1, if_true]; rfl
      · simp only [h1, Tx.draw_withDctx]
        by_cases h2 : st (idFromPos p (inRange (d.draw hash r).1 (nrOrig + off) (last + 1))) = true
        · simp only [h2, if_true]
          cases v2 <;> rfl
        · simp only [h2]; rfl

def LCore.shift (L : List Nat) (z : LCore) : LCore := { z with d := z.d.shift L }

theorem leftCoreBody_shift (hash : List Nat → List Nat) (v2 : Bool) (nrOrig last : Nat)
    (L : List Nat) (z : LCore) :
    leftCoreBody hash v2 nrOrig last (z.shift L) =
      (leftCoreBody hash v2 nrOrig last z).map (fun p => (p.1.shift L, p.2)) := by
  obtain ⟨st, p, r, lo, off, add, d⟩ := z
  unfold leftCoreBody
  simp only [LCore.shift]
  by_cases hc : nrOrig + add ≥ last
  · simp only [hc, if_true]
    rfl
  · simp only [hc, if_false]
    by_cases h0 : lo = 0
    · simp only [h0, if_true]; rfl
    · simp only [h0, if_false]
      by_cases h1 : st (idFromPos p (nrOrig + off)) = true
      · simp only [h1, if_true]; rfl
      · simp only [h1, DCtx.draw_shift]
        by_cases h2 : st (idFromPos p (inRange (d.draw hash r).1 (nrOrig + off) (last + 1))) = true
        · simp only [h2, if_true]
          cases v2 <;> rfl
        · simp only [h2]; rfl

theorem runWhile_leftCore_shift (hash : List Nat → List Nat) (v2 : Bool) (nrOrig last fuel : Nat)
    (L : List Nat) (b : Option Nat) (z : LCore) :
    runWhile (leftCoreBody hash v2 nrOrig last) fuel b (z.shift L) =
      (runWhile (leftCoreBody hash v2 nrOrig last) fuel b z).map
        (fun r => (r.1.shift L, r.2.1, r.2.2)) :=
  runWhile_map (LCore.shift L) _ _ (leftCoreBody_shift hash v2 nrOrig last L) fuel b z

theorem leftCoreBody_d (hash : List Nat → List Nat) (v2 : Bool) (nrOrig last : Nat)
    (z z' : LCore) (c : Bool) (h : leftCoreBody hash v2 nrOrig last z = .ok (z', c)) :
    z'.d = z.d ∨ z'.d = (z.d.draw hash z.rng).2.2 := by
  obtain ⟨st, p, r, lo, off, add, d⟩ := z
  unfold leftCoreBody at h
  simp only at h
  by_cases hc : nrOrig + add ≥ last
  · simp only [hc, if_true, Except.ok.injEq, Prod.mk.injEq] at h
    rw [← h.1]; exact Or.inl rfl
  · simp only [hc, if_false] at h
    by_cases h0 : lo = 0
    · simp only [h0, if_true, Except.ok.injEq, Prod.mk.injEq] at h
      rw [← h.1]; exact Or.inl rfl
    · simp only [h0, if_false] at h
      by_cases h1 : st (idFromPos p (nrOrig + off)) = true
      · simp only [h1, if_true, Except.ok.injEq, Prod.mk.injEq] at h
        rw [← h.1]; exact Or.inl rfl
      · simp only [h1, Bool.false_eq_true, if_false] at h
        by_cases h2 : st (idFromPos p (inRange (d.draw hash r).1 (nrOrig + off) (last + 1))) = true
        · simp only [h2, if_true] at h
          cases v2 <;>
            simp only [if_true, Bool.false_eq_true, if_false, Except.ok.injEq, Prod.mk.injEq] at h <;>
            (rw [← h.1]; exact Or.inr rfl)
        · simp only [h2, Bool.false_eq_true, if_false, Except.ok.injEq, Prod.mk.injEq] at h
          rw [← h.1]; exact Or.inr rfl

theorem runWhile_leftCore_script_nil (hash : List Nat → List Nat) (v2 : Bool)
    (nrOrig last fuel : Nat) (b b' : Option Nat) (z z' : LCore) (st : LoopStatus)
    (h : runWhile (leftCoreBody hash v2 nrOrig last) fuel b z = .ok (z', b', st))
    (hs : z.d.script = []) : z'.d.script = [] :=
  runWhile_preserves (fun y => y.d.script = []) _
    (fun x x' c hb hx => by
      rcases leftCoreBody_d hash v2 nrOrig last x x' c hb with h | h
      · rw [h]; exact hx
      · rw [h]; exact DCtx.draw_script_nil hash _ _ hx) _ _ _ _ _ _ h hs

/-! ### `guaranteedSubstep` in terms of the two core loops -/

/-- loop-1 state as (re)loaded by `guaranteedSubstep`: the stored (shrinking) whitelist, its
    length, the stored flags and the counters saved in the `GuarOp` -/
def guarX (s : State) (g : GuarOp) : GSt :=
  ⟨s.whitelist, s.whitelist.length, s.status, g.leftover, g.additional⟩

/-- storage written by loop 1 -/
def guarS1 (s : State) (x : GSt) : State := { s with whitelist := x.whitelist, status := x.status }

/-- cursor after loop 1 -/
def guarG1 (g : GuarOp) (x : GSt) : GuarOp :=
  { g with leftover := x.leftover, additional := x.additional }

/-- loop-2 state as (re)loaded from storage `s` and cursor `g` -/
def leftZ (s : State) (g : GuarOp) (d : DCtx) : LCore :=
  ⟨s.status, s.posToId, g.rng, g.leftover, g.offset, g.additional, d⟩

def leftFuel (s : State) : Nat := if s.variant.isV2 then s.lastTicketId + 2 else v1LeftoverFuel

/-- cursor after loop 2 -/
def leftG (z : LCore) : GuarOp := ⟨z.rng, z.leftover, z.offset, z.additional⟩

/-- transaction record after loop 2 (`s1` = storage after loop 1) -/
def leftTx (t : Tx) (s1 : State) (z : LCore) (b : Option Nat) : Tx :=
  { s := { s1 with op := .none, status := z.status, posToId := z.posToId },
    c := { (t.withDctx z.d).c with budget := b }, o := (t.withDctx z.d).o }

def guarSubOutcome2 (t : Tx) (s1 : State) :
    Res (LCore × Option Nat × LoopStatus) → Res (Tx × GuarOp × LoopStatus)
  | .error e => .error e
  | .ok (_, _, .outOfFuel) => .error (.vm "out of gas")
  | .ok (z, b, .interrupted) => .ok (leftTx t s1 z b, leftG z, .interrupted)
  | .ok (z, b, .completed) => .ok (leftTx t s1 z b, leftG z, .completed)

def guarSubOutcome (hash : List Nat → List Nat) (t : Tx) (g : GuarOp) :
    Res (GSt × Option Nat × LoopStatus) → Res (Tx × GuarOp × LoopStatus)
  | .error e => .error e
  | .ok (_, _, .outOfFuel) => .error (.vm "out of gas")
  | .ok (x, b, .interrupted) =>
    .ok (⟨guarS1 t.s x, { t.c with budget := b }, t.o⟩, guarG1 g x, .interrupted)
  | .ok (x, b, .completed) =>
    guarSubOutcome2 t (guarS1 t.s x)
      (runWhile (leftCoreBody hash t.s.variant.isV2 t.s.nrWinning t.s.lastTicketId)
        (leftFuel t.s) b (leftZ (guarS1 t.s x) (guarG1 g x) t.dctx))

/-- tail of `guaranteedSubstep` after its second loop (same code) -/
def guarSubK2 (R : Res (LSt × Option Nat × LoopStatus)) : Res (Tx × GuarOp × LoopStatus) := do
  let (y, b, st) ← R
  let t := { y.tx with c := { y.tx.c with budget := b },
                       s := { y.tx.s with status := y.status, posToId := y.posToId } }
  let g : GuarOp := ⟨y.rng, y.leftover, y.offset, y.additional⟩
  match st with
  | .outOfFuel => .error (.vm "out of gas")
  | .interrupted => pure (t, g, .interrupted)
  | .completed =>
    let t := t.setS { t.s with op := .none }
    pure (t, g, .completed)

/-- `guaranteedSubstep` with the results of its two loops abstracted (same code) -/
def guarSubK (t : Tx) (g : GuarOp)
    (R1 : Res (GSt × Option Nat × LoopStatus))
    (R2 : Tx → GuarOp → Res (LSt × Option Nat × LoopStatus)) :
    Res (Tx × GuarOp × LoopStatus) := do
  let s := t.s
  let (x, b, st) ← R1
  let t := { t with c := { t.c with budget := b },
                    s := { s with whitelist := x.whitelist, status := x.status } }
  let g := { g with leftover := x.leftover, additional := x.additional }
  match st with
  | .outOfFuel => .error (.vm "out of gas")
  | .interrupted => pure (t, g, .interrupted)
  | .completed =>
    let t := t.setS { t.s with op := .none }
    guarSubK2 (R2 t g)

theorem guaranteedSubstep_K (hash : List Nat → List Nat) (t : Tx) (g : GuarOp) :
    guaranteedSubstep hash t g =
      guarSubK t g
        (runWhile (guarBody t.s) (t.s.whitelist.length + 2) t.c.budget (guarX t.s g))
        (fun t2 g2 => runWhile (leftoverBody hash t2.s.variant.isV2 t2.s.nrWinning t2.s.lastTicketId)
          (if t2.s.variant.isV2 then t2.s.lastTicketId + 2 else v1LeftoverFuel) t2.c.budget
          ⟨t2.s.status, t2.s.posToId, g2.rng, g2.leftover, g2.offset, g2.additional, t2⟩) := rfl

theorem guarSubK_congr (t : Tx) (g : GuarOp)
    (R1 : Res (GSt × Option Nat × LoopStatus))
    (R2 R2' : Tx → GuarOp → Res (LSt × Option Nat × LoopStatus)) (h : ∀ a b, R2 a b = R2' a b) :
    guarSubK t g R1 R2 = guarSubK t g R1 R2' := by
  have : R2 = R2' := funext fun a => funext fun b => h a b
  rw [this]

theorem guarSubK2_map (t2 : Tx) (s1 : State) (t : Tx) (b1 : Option Nat)
    (ht2 : t2 = ⟨{ s1 with op := .none }, { t.c with budget := b1 }, t.o⟩)
    (R : Res (LCore × Option Nat × LoopStatus)) :
    guarSubK2 (R.map (fun r => (LCore.lift t2 r.1, r.2.1, r.2.2))) = guarSubOutcome2 t s1 R := by
  subst ht2
  cases R with
  | error err => rfl
  | ok q =>
    obtain ⟨z, b2, st2⟩ := q
    cases st2 <;> rfl

theorem guaranteedSubstep_eq (hash : List Nat → List Nat) (t : Tx) (g : GuarOp) :
    guaranteedSubstep hash t g =
      guarSubOutcome hash t g
        (runWhile (guarBody t.s) (t.s.whitelist.length + 2) t.c.budget (guarX t.s g)) := by
  rw [guaranteedSubstep_K]
  rw [guarSubK_congr t g _ _
    (fun t2 g2 => (runWhile (leftCoreBody hash t2.s.variant.isV2 t2.s.nrWinning t2.s.lastTicketId)
        (leftFuel t2.s) t2.c.budget (leftZ t2.s g2 t2.dctx)).map
        (fun r => (LCore.lift t2 r.1, r.2.1, r.2.2)))
    (fun t2 g2 => by
      have hl : (⟨t2.s.status, t2.s.posToId, g2.rng, g2.leftover, g2.offset, g2.additional, t2⟩ : LSt)
          = LCore.lift t2 (leftZ t2.s g2 t2.dctx) := rfl
      rw [hl, runWhile_map _ _ _ (leftoverBody_lift hash _ _ _ t2)]
      rfl)]
  cases runWhile (guarBody t.s) (t.s.whitelist.length + 2) t.c.budget (guarX t.s g) with
  | error err => rfl
  | ok q =>
    obtain ⟨x, b, st⟩ := q
    cases st with
    | outOfFuel => rfl
    | interrupted => rfl
    | completed =>
      exact guarSubK2_map _ (guarS1 t.s x) t b rfl _

/-! ### the endpoint `distribute` -/

@[simp] theorem selTxOf_s (t : Tx) : (selTxOf t).s = t.s := by
  unfold selTxOf; split
  · exact Tx.freshRng_s t
  · rfl

@[simp] theorem selTxOf_budget (t : Tx) : (selTxOf t).c.budget = t.c.budget := by
  unfold selTxOf; split
  · exact Tx.freshRng_budget t
  · rfl

@[simp] theorem selTxOf_dctx (t : Tx) : (selTxOf t).dctx = t.dctx := by
  unfold selTxOf; split
  · exact Tx.freshRng_dctx t
  · rfl

structure DistPre (s : State) (e : Env) : Prop where
  notPaused : s.variant.isV2 = true → s.paused = false
  stage : s.stage e = .winnerSelection
  caller : s.variant.isV2 = true → (e.caller == s.owner || !e.callerIsContract) = true
  selected : s.flags.selected = true
  notDone : s.flags.additional = false

/-- the cursor the endpoint starts from: counters 0 / offset 1 and a fresh generator from the
    call's first seed when no operation is saved, the saved `GuarOp` otherwise -/
def guarOpOf (t : Tx) : Option GuarOp :=
  match t.s.op with
  | .none => some { rng := t.freshRng.1 }
  | .additional (.guar g) => some g
  | _ => none

/-- the tail of `distribute` after `guaranteedSubstep` (same code) -/
def distFinish (e : Env) : Tx × GuarOp × LoopStatus → Res Tx
  | (t, g, st) =>
    match st with
    | .completed =>
      let s := creditAdditional t.s g.additional
      let t := { t with s := { s with flags := { s.flags with additional := true } },
                        o := { t.o with ret := [0] } }
      if s.variant.isV2 then
        pure (t.emit ⟨"distributeGuaranteedTicketsCompleted", topics e,
          [e.caller, e.round, e.epoch, g.additional]⟩)
      else pure t
    | _ =>
      pure { t with s := { t.s with op := .additional (.guar g) }, o := { t.o with ret := [1] } }

theorem distribute_eq (hash : List Nat → List Nat) (t : Tx) (e : Env) (g : GuarOp)
    (hp : DistPre t.s e) (hg : guarOpOf t = some g) :
    distribute hash t e = (guaranteedSubstep hash (selTxOf t) g >>= distFinish e) := by
  obtain ⟨h1, h2, h3, h4, h5⟩ := hp
  have h2' : (t.s.stage e == Stage.winnerSelection) = true := by simp [h2]
  have h5' : (!t.s.flags.additional) = true := by simp [h5]
  unfold distribute
  cases hv : t.s.variant.isV2 with
  | false =>
    simp only [hv, bind, Except.bind, pure, Except.pure, req, requireStage, h2', h4, h5', if_true,
      Bool.false_eq_true, if_false]
    rcases hop : t.s.op with _ | _ | _ | (g0 | r0)
    · simp only [guarOpOf, hop, Option.some.injEq] at hg
      subst hg
      simp only [selTxOf, hop]
      cases guaranteedSubstep hash t.freshRng.2 { rng := t.freshRng.1 } with
      | error err => rfl
      | ok q =>
        obtain ⟨t1, g1, st⟩ := q
        cases st <;> rfl
    · simp [guarOpOf, hop] at hg
    · simp [guarOpOf, hop] at hg
    · simp only [guarOpOf, hop, Option.some.injEq] at hg
      subst hg
      simp only [selTxOf, hop]
      cases guaranteedSubstep hash t g0 with
      | error err => rfl
      | ok q =>
        obtain ⟨t1, g1, st⟩ := q
        cases st <;> rfl
    · simp [guarOpOf, hop] at hg
  | true =>
    have h1' : (!t.s.paused) = true := by simp [h1 hv]
    have h3' := h3 hv
    simp only [hv, bind, Except.bind, pure, Except.pure, req, requireStage, ownerOrUser, h1', h2',
      h3', h4, h5', if_true]
    rcases hop : t.s.op with _ | _ | _ | (g0 | r0)
    · simp only [guarOpOf, hop, Option.some.injEq] at hg
      subst hg
      simp only [selTxOf, hop]
      cases guaranteedSubstep hash t.freshRng.2 { rng := t.freshRng.1 } with
      | error err => rfl
      | ok q =>
        obtain ⟨t1, g1, st⟩ := q
        cases st <;> rfl
    · simp [guarOpOf, hop] at hg
    · simp [guarOpOf, hop] at hg
    · simp only [guarOpOf, hop, Option.some.injEq] at hg
      subst hg
      simp only [selTxOf, hop]
      cases guaranteedSubstep hash t g0 with
      | error err => rfl
      | ok q =>
        obtain ⟨t1, g1, st⟩ := q
        cases st <;> rfl
    · simp [guarOpOf, hop] at hg

theorem distribute_inv (hash : List Nat → List Nat) (t t' : Tx) (e : Env)
    (h : distribute hash t e = .ok t') : DistPre t.s e ∧ ∃ g, guarOpOf t = some g := by
  unfold distribute at h
  cases hv : t.s.variant.isV2 <;> rcases hop : t.s.op with _ | _ | _ | (g | r) <;>
    simp only [hv, hop, requireStage, ownerOrUser, pure_bind, bind_ok_iff, req_ok_iff, exists_const,
      Prod.exists, reduceCtorEq, false_and, and_false, if_true, if_false, Bool.false_eq_true] at h
  all_goals first
    | (obtain ⟨g1, g2, g3, g4, g5, _⟩ := h
       exact ⟨⟨fun _ => by simpa using g1, by simpa using g2, fun _ => g3, g4, by simpa using g5⟩,
         by simp only [guarOpOf, hop]; exact ⟨_, rfl⟩⟩)
    | (obtain ⟨g2, g4, g5, _⟩ := h
       have hnv : ¬ t.s.variant.isV2 = true := by rw [hv]; decide
       exact ⟨⟨fun hh => absurd hh hnv, by simpa using g2,
           fun hh => absurd hh hnv, g4, by simpa using g5⟩,
         by simp only [guarOpOf, hop]; exact ⟨_, rfl⟩⟩)

/-- storage after a `distribute` call interrupted in the first loop (state `x`) -/
def distSaved1 (s : State) (g : GuarOp) (x : GSt) : State :=
  { guarS1 s x with op := .additional (.guar (guarG1 g x)) }

/-- storage after a `distribute` call whose first loop ended in `x` and whose second loop was
    interrupted in `z` -/
def distSaved2 (s : State) (x : GSt) (z : LCore) : State :=
  { guarS1 s x with status := z.status, posToId := z.posToId,
                    op := .additional (.guar (leftG z)) }

/-- storage after the `distribute` call in which both loops completed (`x`, `z`) -/
def distDone (s : State) (x : GSt) (z : LCore) : State :=
  { guarS1 s x with status := z.status, posToId := z.posToId, op := .none,
                    claimablePayment := s.claimablePayment + s.price * z.additional,
                    nrWinning := s.nrWinning + z.additional,
                    flags := { s.flags with additional := true } }

/-- the three ways a `distribute` call can be accepted -/
theorem distribute_ok_cases (hash : List Nat → List Nat) (t t' : Tx) (e : Env)
    (h : distribute hash t e = .ok t') :
    DistPre t.s e ∧ ∃ g x b1, guarOpOf t = some g ∧ t'.c.seeds = (selTxOf t).c.seeds ∧
      ((runWhile (guarBody t.s) (t.s.whitelist.length + 2) t.c.budget (guarX t.s g)
          = .ok (x, b1, .interrupted) ∧ t'.s = distSaved1 t.s g x ∧ t'.o.ret = [1] ∧
          t'.o.draws = t.o.draws ∧ t'.o.events = t.o.events) ∨
       (runWhile (guarBody t.s) (t.s.whitelist.length + 2) t.c.budget (guarX t.s g)
          = .ok (x, b1, .completed) ∧ ∃ z b2,
          ((runWhile (leftCoreBody hash t.s.variant.isV2 t.s.nrWinning t.s.lastTicketId)
              (leftFuel t.s) b1 (leftZ (guarS1 t.s x) (guarG1 g x) t.dctx)
              = .ok (z, b2, .interrupted) ∧ t'.s = distSaved2 t.s x z ∧ t'.o.ret = [1] ∧
              t'.o.draws = z.d.log ∧ t'.o.events = t.o.events) ∨
           (runWhile (leftCoreBody hash t.s.variant.isV2 t.s.nrWinning t.s.lastTicketId)
              (leftFuel t.s) b1 (leftZ (guarS1 t.s x) (guarG1 g x) t.dctx)
              = .ok (z, b2, .completed) ∧ t'.s = distDone t.s x z ∧ t'.o.ret = [0] ∧
              t'.o.draws = z.d.log)))) := by
  obtain ⟨hp, g, hg⟩ := distribute_inv hash t t' e h
  refine ⟨hp, g, ?_⟩
  rw [distribute_eq hash t e g hp hg, guaranteedSubstep_eq] at h
  simp only [selTxOf_s, selTxOf_budget] at h
  cases hR1 : runWhile (guarBody t.s) (t.s.whitelist.length + 2) t.c.budget (guarX t.s g) with
  | error err => rw [hR1] at h; cases h
  | ok q =>
    obtain ⟨x, b1, st⟩ := q
    rw [hR1] at h
    cases st with
    | outOfFuel => cases h
    | interrupted =>
      simp only [guarSubOutcome, bind, Except.bind, distFinish, pure, Except.pure,
        Except.ok.injEq] at h
      subst h
      exact ⟨x, b1, hg, rfl, Or.inl ⟨rfl, by simp only [selTxOf_s]; rfl, rfl,
        by simp only [selTxOf_o], by simp only [selTxOf_o]⟩⟩
    | completed =>
      simp only [guarSubOutcome, selTxOf_s, selTxOf_dctx] at h
      cases hR2 : runWhile (leftCoreBody hash t.s.variant.isV2 t.s.nrWinning t.s.lastTicketId)
          (leftFuel t.s) b1 (leftZ (guarS1 t.s x) (guarG1 g x) t.dctx) with
      | error err => rw [hR2] at h; cases h
      | ok q2 =>
        obtain ⟨z, b2, st2⟩ := q2
        rw [hR2] at h
        cases st2 with
        | outOfFuel => cases h
        | interrupted =>
          simp only [guarSubOutcome2, bind, Except.bind, distFinish, pure, Except.pure,
            Except.ok.injEq] at h
          subst h
          exact ⟨x, b1, hg, rfl, Or.inr ⟨rfl, z, b2, Or.inl ⟨hR2, rfl, rfl, rfl,
            by simp only [leftTx, Tx.withDctx, selTxOf_o]⟩⟩⟩
        | completed =>
          simp only [guarSubOutcome2, bind, Except.bind, distFinish, pure, Except.pure] at h
          refine ⟨x, b1, hg, ?_, Or.inr ⟨rfl, z, b2, Or.inr ⟨hR2, ?_, ?_, ?_⟩⟩⟩
          all_goals
            split at h <;> (simp only [Except.ok.injEq] at h; subst h; rfl)

/-! ### the first loop: counters and whitelist reload -/

/-- `guarBody` reads the storage only through `uts`, `confirmed`, `range`, the variant and
    `minConfirmed`; none of them is written by the distribution step -/
theorem guarBody_saved1 (s : State) (g : GuarOp) (x : GSt) :
    guarBody (distSaved1 s g x) = guarBody s := rfl

theorem guarBody_saved2 (s : State) (x : GSt) (z : LCore) :
    guarBody (distSaved2 s x z) = guarBody s := rfl

theorem guarBody_stop_iff (s : State) (x x' : GSt) (h : guarBody s x = .ok (x', false)) :
    x.usersLeft = 0 ∧ x' = x := by
  by_cases h0 : x.usersLeft = 0
  · unfold guarBody at h
    simp only [h0, if_true, Except.ok.injEq, Prod.mk.injEq, and_true] at h
    exact ⟨h0, h.symm⟩
  · exfalso
    cases hw : x.whitelist with
    | nil =>
      unfold guarBody at h
      simp only [h0, if_false] at h
      rw [hw] at h; cases h
    | cons u rest =>
      obtain ⟨x1, e1, _⟩ := guarBody_step s x u rest hw h0
      rw [e1] at h
      simp only [Except.ok.injEq, Prod.mk.injEq] at h
      exact absurd h.2 (by decide)

theorem guarBody_stop (s : State) (x : GSt) (h : x.usersLeft = 0) :
    guarBody s x = .ok (x, false) := by
  unfold guarBody
  rw [if_pos h]

/-- the counter `usersLeft` stays equal to the length of the work list -/
theorem guarBody_len (s : State) (x x' : GSt) (c : Bool) (h : guarBody s x = .ok (x', c))
    (hi : x.usersLeft = x.whitelist.length) : x'.usersLeft = x'.whitelist.length := by
  by_cases h0 : x.usersLeft = 0
  · rw [guarBody_stop s x h0] at h
    simp only [Except.ok.injEq, Prod.mk.injEq] at h
    rw [← h.1]; exact hi
  · cases hw : x.whitelist with
    | nil => rw [hw] at hi; exact absurd hi h0
    | cons u rest =>
      obtain ⟨x1, e1, _, e3, e4, _⟩ := guarBody_step s x u rest hw h0
      rw [e1] at h
      simp only [Except.ok.injEq, Prod.mk.injEq] at h
      rw [← h.1, e4]; omega

theorem runWhile_guar_len (s : State) (fuel : Nat) (b b' : Option Nat) (x x' : GSt)
    (st : LoopStatus) (h : runWhile (guarBody s) fuel b x = .ok (x', b', st))
    (hi : x.usersLeft = x.whitelist.length) : x'.usersLeft = x'.whitelist.length :=
  runWhile_preserves (fun y => y.usersLeft = y.whitelist.length) _
    (fun y y' c hb hy => guarBody_len s y y' c hb hy) _ _ _ _ _ _ h hi

/-- a completed run ended with a STOP iteration from a state satisfying the invariant -/
theorem runWhile_completed_stop {σ : Type} (P : σ → Prop) (body : σ → Res (σ × Bool))
    (hb : ∀ x x' c, body x = .ok (x', c) → P x → P x') :
    ∀ (fuel : Nat) (b : Option Nat) (s s' : σ) (b' : Option Nat),
      runWhile body fuel b s = .ok (s', b', .completed) → P s →
      ∃ s0, P s0 ∧ body s0 = .ok (s', false) := by
  intro fuel
  induction fuel with
  | zero =>
    intro b s s' b' h
    rw [runWhile_zero] at h
    injection h with h
    simp only [Prod.mk.injEq] at h
    exact absurd h.2.2 (by decide)
  | succ n ih =>
    intro b s s' b' h hp
    cases hbs : body s with
    | error e => rw [runWhile_err hbs] at h; cases h
    | ok r =>
      obtain ⟨x, c⟩ := r
      have hx : P x := hb s x c hbs hp
      cases c with
      | false =>
        rw [runWhile_stop hbs] at h
        injection h with h
        simp only [Prod.mk.injEq] at h
        exact ⟨s, hp, by rw [hbs, h.1]⟩
      | true =>
        cases b with
        | none => rw [runWhile_cont_none hbs] at h; exact ih _ _ _ _ h hx
        | some k =>
          cases k with
          | zero =>
            rw [runWhile_cont_zero hbs] at h
            injection h with h
            simp only [Prod.mk.injEq] at h
            exact absurd h.2.2 (by decide)
          | succ k => rw [runWhile_cont_succ hbs] at h; exact ih _ _ _ _ h hx

/-- when the first loop completes, the stored whitelist is empty -/
theorem guarRun_completed_nil (s : State) (fuel : Nat) (b b' : Option Nat) (x x' : GSt)
    (h : runWhile (guarBody s) fuel b x = .ok (x', b', .completed))
    (hi : x.usersLeft = x.whitelist.length) : x'.usersLeft = 0 ∧ x'.whitelist = [] := by
  obtain ⟨x0, hp, hb⟩ := runWhile_completed_stop (fun y => y.usersLeft = y.whitelist.length) _
    (fun y y' c hb hy => guarBody_len s y y' c hb hy) _ _ _ _ _ h hi
  obtain ⟨h0, rfl⟩ := guarBody_stop_iff s x0 x' hb
  exact ⟨h0, List.eq_nil_of_length_eq_zero (by rw [← hp]; exact h0)⟩

/-- on an empty whitelist the first loop stops at once without touching anything -/
theorem guarRun_nil (s : State) (x : GSt) (fuel : Nat) (b : Option Nat) (h : x.usersLeft = 0) :
    runWhile (guarBody s) (fuel + 1) b x = .ok (x, b, .completed) :=
  runWhile_stop (guarBody_stop s x h) _ _

/-! ### chunked `distribute` = single call -/

def distCalls (hash : List Nat → List Nat) : List (Env × Option Nat) → State → Res (State × List Nat)
  | [], s => .ok (s, [])
  | (e, b) :: rest, s =>
    match distribute hash (callTx s e b) e with
    | .error err => .error err
    | .ok t' =>
      match distCalls hash rest t'.s with
      | .error err => .error err
      | .ok (s', ds) => .ok (s', t'.o.draws ++ ds)

theorem LCore.eq_shift (z : LCore) (hs : z.d.script = []) :
    z = (⟨z.status, z.posToId, z.rng, z.leftover, z.offset, z.additional, ⟨[], []⟩⟩ : LCore).shift
          z.d.log := by
  obtain ⟨a1, a2, a3, a4, a5, a6, ⟨sc, lg⟩⟩ := z
  simp only at hs
  subst hs
  simp [LCore.shift, DCtx.shift]

/-- loop level: an accepted schedule of `distribute` calls (own environments, arbitrary
    budgets, no scripted draws) that completes the step computes the final states `xf`, `zf` of
    ONE unbudgeted run of the first loop from the state the first call started in, followed by
    ONE unbudgeted run of the second loop; the final storage is `distDone s xf zf`, the
    concatenated draw log is the log of the second run. -/
theorem distCalls_run (hash : List Nat → List Nat) :
    ∀ (rest : List (Env × Option Nat)) (e0 : Env) (b0 : Option Nat) (s s' : State)
      (ds : List Nat) (g : GuarOp),
      guarOpOf (callTx s e0 b0) = some g → e0.script = [] → (∀ c ∈ rest, c.1.script = []) →
      distCalls hash ((e0, b0) :: rest) s = .ok (s', ds) → s'.flags.additional = true →
      ∃ xf zf f1 f2,
        runWhile (guarBody s) f1 none (guarX s g) = .ok (xf, none, .completed) ∧
        runWhile (leftCoreBody hash s.variant.isV2 s.nrWinning s.lastTicketId) f2 none
          (leftZ (guarS1 s xf) (guarG1 g xf) ⟨[], []⟩) = .ok (zf, none, .completed) ∧
        s' = distDone s xf zf ∧ zf.d.log = ds := by
  intro rest
  induction rest with
  | nil =>
    intro e0 b0 s s' ds g hg hscr _ hc hsel
    simp only [distCalls] at hc
    cases hcall : distribute hash (callTx s e0 b0) e0 with
    | error err => rw [hcall] at hc; cases hc
    | ok t1 =>
      rw [hcall] at hc
      simp only [Except.ok.injEq, Prod.mk.injEq, List.append_nil] at hc
      obtain ⟨rfl, rfl⟩ := hc
      obtain ⟨hp, g', x, b1, hg', _, hcs⟩ := distribute_ok_cases hash _ _ _ hcall
      rw [hg] at hg'
      injection hg' with hg'
      subst hg'
      have hnd : s.flags.additional = false := hp.notDone
      have hd0 : (callTx s e0 b0).dctx = ⟨[], []⟩ := by simp only [callTx, Tx.dctx, hscr]
      rcases hcs with ⟨_, hs1, _⟩ | ⟨hR1, z, b2, ⟨_, hs1, _⟩ | ⟨hR2, hs1, _, hlog⟩⟩
      · rw [hs1] at hsel
        have : s.flags.additional = true := hsel
        rw [this] at hnd; cases hnd
      · rw [hs1] at hsel
        have : s.flags.additional = true := hsel
        rw [this] at hnd; cases hnd
      · rw [hd0] at hR2
        exact ⟨x, z, _, _, runWhile_completed_any_budget _ _ _ _ _ _ hR1,
          runWhile_completed_any_budget _ _ _ _ _ _ hR2, hs1, hlog.symm⟩
  | cons c1 rest2 ih =>
    obtain ⟨e1, b1'⟩ := c1
    intro e0 b0 s s' ds g hg hscr hrest hc hsel
    simp only [distCalls] at hc
    cases hcall : distribute hash (callTx s e0 b0) e0 with
    | error err => rw [hcall] at hc; cases hc
    | ok t1 =>
      rw [hcall] at hc
      simp only at hc
      obtain ⟨hp, g', x, b1, hg', _, hcs⟩ := distribute_ok_cases hash _ _ _ hcall
      rw [hg] at hg'
      injection hg' with hg'
      subst hg'
      have hd0 : (callTx s e0 b0).dctx = ⟨[], []⟩ := by simp only [callTx, Tx.dctx, hscr]
      have he1 : e1.script = [] := hrest (e1, b1') (List.mem_cons_self ..)
      have hrest' : distCalls hash ((e1, b1') :: rest2) t1.s =
          (match distribute hash (callTx t1.s e1 b1') e1 with
           | .error err => .error err
           | .ok t' =>
             match distCalls hash rest2 t'.s with
             | .error err => .error err
             | .ok (s', ds) => .ok (s', t'.o.draws ++ ds)) := rfl
      rw [← hrest'] at hc
      cases hrc : distCalls hash ((e1, b1') :: rest2) t1.s with
      | error err => rw [hrc] at hc; cases hc
      | ok q =>
        obtain ⟨s2, ds2⟩ := q
        rw [hrc] at hc
        simp only [Except.ok.injEq, Prod.mk.injEq] at hc
        obtain ⟨rfl, rfl⟩ := hc
        have hx0 : (guarX s g).usersLeft = (guarX s g).whitelist.length := rfl
        rcases hcs with ⟨hR1, hs1, _, hdr, _⟩ | ⟨hR1, z, b2, ⟨hR2, hs1, _, hdr, _⟩ | ⟨_, hs1, _⟩⟩
        · -- interrupted in the first loop
          rw [hs1] at hrc
          have hlen := runWhile_guar_len s _ _ _ _ _ _ hR1 hx0
          obtain ⟨xf, zf, f1, f2, hr1, hr2, hfin, hlog⟩ :=
            ih e1 b1' (distSaved1 s g x) s2 ds2 (guarG1 g x) rfl he1
              (fun c hc => hrest c (List.mem_cons_of_mem _ hc)) hrc hsel
          have hxx : guarX (distSaved1 s g x) (guarG1 g x) = x := by
            obtain ⟨a1, a2, a3, a4, a5⟩ := x
            simp only at hlen
            subst hlen
            rfl
          rw [guarBody_saved1, hxx] at hr1
          refine ⟨xf, zf, _, f2, runWhile_resume_any _ _ _ _ _ _ _ _ hR1 hr1, hr2, ?_, ?_⟩
          · rw [hfin]; rfl
          · rw [hlog, hdr]; rfl
        · -- first loop completed, interrupted in the second loop
          rw [hs1] at hrc
          obtain ⟨hx0', hxnil⟩ := guarRun_completed_nil s _ _ _ _ _ hR1 hx0
          obtain ⟨xf, zf, f1, f2, hr1, hr2, hfin, hlog⟩ :=
            ih e1 b1' (distSaved2 s x z) s2 ds2 (leftG z) rfl he1
              (fun c hc => hrest c (List.mem_cons_of_mem _ hc)) hrc hsel
          -- the first loop of the later calls stops at once
          have hx1 : (guarX (distSaved2 s x z) (leftG z)).usersLeft = 0 := by
            show x.whitelist.length = 0
            rw [hxnil]; rfl
          have hr1' := guarRun_nil (distSaved2 s x z) _ 0 none hx1
          have hxf : xf = guarX (distSaved2 s x z) (leftG z) :=
            runWhile_completed_unique _ _ _ _ _ _ hr1 hr1'
          subst hxf
          rw [hd0] at hR2
          have hzs : z.d.script = [] :=
            runWhile_leftCore_script_nil hash _ _ _ _ _ _ _ _ _ hR2 rfl
          have hshift := LCore.eq_shift z hzs
          have hr2' : runWhile (leftCoreBody hash s.variant.isV2 s.nrWinning s.lastTicketId) f2 none z =
              .ok (zf.shift z.d.log, none, .completed) := by
            rw [hshift, runWhile_leftCore_shift]
            have : runWhile (leftCoreBody hash s.variant.isV2 s.nrWinning s.lastTicketId) f2 none
                ⟨z.status, z.posToId, z.rng, z.leftover, z.offset, z.additional, ⟨[], []⟩⟩ =
                .ok (zf, none, .completed) := hr2
            rw [this]
            simp [Except.map, LCore.shift, DCtx.shift]
          refine ⟨x, zf.shift z.d.log, _, _, runWhile_completed_any_budget _ _ _ _ _ _ hR1,
            runWhile_resume_any _ _ _ _ _ _ _ _ hR2 hr2', ?_, ?_⟩
          · rw [hfin]; rfl
          · show z.d.log ++ zf.d.log = _
            rw [hlog, hdr]
        · -- completed: a further call is rejected
          exfalso
          have hs1' : t1.s = distDone s x z := hs1
          rw [hs1'] at hrc
          simp only [distCalls] at hrc
          cases hcall2 : distribute hash (callTx (distDone s x z) e1 b1') e1 with
          | error err => rw [hcall2] at hrc; cases hrc
          | ok t2 =>
            obtain ⟨hp2, _⟩ := distribute_inv hash _ _ _ hcall2
            have : (distDone s x z).flags.additional = false := hp2.notDone
            cases this

/-- **chunked `distribute` = single call**: final storage (all of it) and concatenated draw log
    of any accepted completing schedule equal those of ONE unbudgeted call that starts from the
    same cursor (i.e. carries the first call's first seed when the schedule starts the step) -/
theorem distCalls_eq_single (hash : List Nat → List Nat) (e0 : Env) (b0 : Option Nat)
    (rest : List (Env × Option Nat)) (s s' : State) (ds : List Nat) (e1 : Env) (t1 : Tx)
    (hscr0 : e0.script = []) (hrest : ∀ c ∈ rest, c.1.script = []) (hscr1 : e1.script = [])
    (hc : distCalls hash ((e0, b0) :: rest) s = .ok (s', ds))
    (hsel : s'.flags.additional = true)
    (hsame : guarOpOf (callTx s e1 none) = guarOpOf (callTx s e0 b0))
    (h1 : distribute hash (callTx s e1 none) e1 = .ok t1) :
    s' = t1.s ∧ ds = t1.o.draws := by
  obtain ⟨_, g, x, b1, hg, _, hcs⟩ := distribute_ok_cases hash _ _ _ h1
  obtain ⟨xf, zf, f1, f2, hr1, hr2, hfin, hlog⟩ :=
    distCalls_run hash rest e0 b0 s s' ds g (by rw [← hsame]; exact hg) hscr0 hrest hc hsel
  have hd1 : (callTx s e1 none).dctx = ⟨[], []⟩ := by simp only [callTx, Tx.dctx, hscr1]
  rcases hcs with ⟨hR1, _⟩ | ⟨hR1, z, b2, hz⟩
  · obtain ⟨k, hk⟩ := runWhile_interrupted_budget hR1
    cases hk
  · have hb1 : b1 = none := (runWhile_none_budget _ _ _ _ _ _ hR1).1
    subst hb1
    have hxx : xf = x := runWhile_completed_unique _ _ _ _ _ _ hr1 hR1
    subst hxx
    rw [hd1] at hz
    rcases hz with ⟨hR2, _⟩ | ⟨hR2, hs1, _, hdr⟩
    · obtain ⟨k, hk⟩ := runWhile_interrupted_budget hR2
      cases hk
    · have hR2' := runWhile_completed_any_budget _ _ _ _ _ _ hR2
      have hzz : zf = z := runWhile_completed_unique _ _ _ _ _ _ hr2 hR2'
      subst hzz
      exact ⟨by rw [hfin, hs1]; rfl, by rw [← hlog, hdr]⟩

/-- (a) an accepted `distribute` call that does not complete the step saves
    `op := .additional (.guar g')`, returns `[1]`, emits nothing and writes only `whitelist`,
    `status`, `posToId` besides the cursor -/
theorem distribute_interrupted_saves (hash : List Nat → List Nat) (t t' : Tx) (e : Env)
    (h : distribute hash t e = .ok t') (hnd : t'.s.flags.additional = false) :
    ∃ g', t'.s.op = .additional (.guar g') ∧ t'.o.ret = [1] ∧ t'.o.events = t.o.events ∧
      { t'.s with whitelist := t.s.whitelist, status := t.s.status, posToId := t.s.posToId,
                  op := t.s.op } = t.s := by
  obtain ⟨_, g, x, b1, _, _, hcs⟩ := distribute_ok_cases hash _ _ _ h
  rcases hcs with ⟨_, hs1, hr, _, hev⟩ | ⟨_, z, b2, ⟨_, hs1, hr, _, hev⟩ | ⟨_, hs1, _⟩⟩
  · exact ⟨_, by rw [hs1]; rfl, hr, hev, by rw [hs1]; rfl⟩
  · exact ⟨_, by rw [hs1]; rfl, hr, hev, by rw [hs1]; rfl⟩
  · rw [hs1] at hnd; cases hnd

/-- seeds: a resumed `distribute` call leaves the environment's seeds untouched, a call that
    starts the step pops exactly one -/
theorem distribute_seeds (hash : List Nat → List Nat) (t t' : Tx) (e : Env)
    (h : distribute hash t e = .ok t') :
    t'.c.seeds = (match t.s.op with | .none => t.c.seeds.tail | _ => t.c.seeds) := by
  obtain ⟨_, g, x, b1, _, hseeds, _⟩ := distribute_ok_cases hash _ _ _ h
  rw [hseeds]
  unfold selTxOf
  split
  · exact Tx.freshRng_seeds t
  · rfl

/-- (b) the result of a resumed `distribute` call does not depend on the seeds (nor caller,
    round, epoch) of its environment -/
theorem distribute_resumed_env_irrelevant (hash : List Nat → List Nat) (s : State)
    (g : GuarOp) (hop : s.op = .additional (.guar g)) (e e' : Env) (b : Option Nat)
    (hscr : e.script = e'.script) (hp : DistPre s e) (hp' : DistPre s e') :
    (distribute hash (callTx s e b) e).map (fun t => (t.s, t.o.ret, t.o.draws)) =
    (distribute hash (callTx s e' b) e').map (fun t => (t.s, t.o.ret, t.o.draws)) := by
  have hg : guarOpOf (callTx s e b) = some g := by simp only [guarOpOf, callTx, hop]
  have hg' : guarOpOf (callTx s e' b) = some g := by simp only [guarOpOf, callTx, hop]
  have h1 : selTxOf (callTx s e b) = callTx s e b := by simp only [selTxOf, callTx, hop]
  have h1' : selTxOf (callTx s e' b) = callTx s e' b := by simp only [selTxOf, callTx, hop]
  have hd : (callTx s e b).dctx = (callTx s e' b).dctx := by simp only [callTx, Tx.dctx, hscr]
  rw [distribute_eq hash _ e g hp hg, distribute_eq hash _ e' g hp' hg', h1, h1',
    guaranteedSubstep_eq, guaranteedSubstep_eq]
  show Except.map _ (guarSubOutcome hash (callTx s e b) g
      (runWhile (guarBody s) (s.whitelist.length + 2) b (guarX s g)) >>= distFinish e) =
    Except.map _ (guarSubOutcome hash (callTx s e' b) g
      (runWhile (guarBody s) (s.whitelist.length + 2) b (guarX s g)) >>= distFinish e')
  generalize runWhile (guarBody s) (s.whitelist.length + 2) b (guarX s g) = R1
  cases R1 with
  | error err => rfl
  | ok q =>
    obtain ⟨x, b1, st⟩ := q
    cases st with
    | outOfFuel => rfl
    | interrupted => rfl
    | completed =>
      show Except.map _ (guarSubOutcome2 (callTx s e b) (guarS1 s x)
          (runWhile (leftCoreBody hash s.variant.isV2 s.nrWinning s.lastTicketId) (leftFuel s) b1
            (leftZ (guarS1 s x) (guarG1 g x) (callTx s e b).dctx)) >>= distFinish e) =
        Except.map _ (guarSubOutcome2 (callTx s e' b) (guarS1 s x)
          (runWhile (leftCoreBody hash s.variant.isV2 s.nrWinning s.lastTicketId) (leftFuel s) b1
            (leftZ (guarS1 s x) (guarG1 g x) (callTx s e' b).dctx)) >>= distFinish e')
      rw [hd]
      generalize runWhile (leftCoreBody hash s.variant.isV2 s.nrWinning s.lastTicketId)
        (leftFuel s) b1 (leftZ (guarS1 s x) (guarG1 g x) (callTx s e' b).dctx) = R2
      cases R2 with
      | error err => rfl
      | ok q2 =>
        obtain ⟨z, b2, st2⟩ := q2
        cases st2 with
        | outOfFuel => rfl
        | interrupted => rfl
        | completed =>
          cases hv : s.variant.isV2 <;>
            simp [guarSubOutcome2, distFinish, bind, Except.bind, Except.map, pure, Except.pure,
              leftTx, creditAdditional, guarS1, hv, Tx.emit, callTx, Tx.withDctx, leftG]

/-! ### liveness of the first loop -/

theorem guarBody_measure (s : State) (x x' : GSt) (hi : x.usersLeft = x.whitelist.length)
    (h : guarBody s x = .ok (x', true)) :
    x'.usersLeft = x'.whitelist.length ∧ x'.usersLeft < x.usersLeft := by
  refine ⟨guarBody_len s x x' true h hi, ?_⟩
  by_cases h0 : x.usersLeft = 0
  · rw [guarBody_stop s x h0] at h
    simp only [Except.ok.injEq, Prod.mk.injEq] at h
    exact absurd h.2 (by decide)
  · cases hw : x.whitelist with
    | nil => rw [hw] at hi; exact absurd hi h0
    | cons u rest =>
      obtain ⟨x1, e1, _, _, e4, _⟩ := guarBody_step s x u rest hw h0
      rw [e1] at h
      simp only [Except.ok.injEq, Prod.mk.injEq, and_true] at h
      rw [← h, e4]; omega

/-- every accepted `distribute` call either leaves an empty whitelist (first loop finished) or
    strictly shortens the stored whitelist -/
theorem distribute_whitelist_progress (hash : List Nat → List Nat) (t t' : Tx) (e : Env)
    (h : distribute hash t e = .ok t') :
    t'.s.whitelist = [] ∨ t'.s.whitelist.length < t.s.whitelist.length := by
  obtain ⟨_, g, x, b1, _, _, hcs⟩ := distribute_ok_cases hash _ _ _ h
  have hx0 : (guarX t.s g).usersLeft = (guarX t.s g).whitelist.length := rfl
  rcases hcs with ⟨hR1, hs1, _⟩ | ⟨hR1, z, b2, ⟨_, hs1, _⟩ | ⟨_, hs1, _⟩⟩
  · right
    obtain ⟨h1, h2⟩ := runWhile_interrupted_measure (guarBody t.s) (fun y => y.usersLeft)
      (fun y => y.usersLeft = y.whitelist.length)
      (fun y y' hy hb => guarBody_measure t.s y y' hy hb) _ _ _ _ _ hR1 hx0
    rw [hs1]
    show x.whitelist.length < t.s.whitelist.length
    rw [← h1]; exact h2
  · left
    rw [hs1]; exact (guarRun_completed_nil t.s _ _ _ _ _ hR1 hx0).2
  · left
    rw [hs1]; exact (guarRun_completed_nil t.s _ _ _ _ _ hR1 hx0).2

/-- liveness of the first loop: after at most `|whitelist| + 1` accepted calls (whatever their
    budgets, callers, rounds and seeds) every guarantee has been honoured — the stored whitelist
    is empty, so each later call skips the first loop without touching anything -/
theorem distCalls_first_loop_completes (hash : List Nat → List Nat) :
    ∀ (cs : List (Env × Option Nat)) (s s' : State) (ds : List Nat),
      distCalls hash cs s = .ok (s', ds) →
      s'.whitelist.length + cs.length ≤ s.whitelist.length ∨ (cs ≠ [] ∧ s'.whitelist = []) := by
  intro cs
  induction cs with
  | nil =>
    intro s s' ds h
    simp only [distCalls, Except.ok.injEq, Prod.mk.injEq] at h
    left; rw [← h.1]; simp
  | cons c rest ih =>
    obtain ⟨e, b⟩ := c
    intro s s' ds h
    simp only [distCalls] at h
    cases hcall : distribute hash (callTx s e b) e with
    | error err => rw [hcall] at h; cases h
    | ok t1 =>
      rw [hcall] at h
      simp only at h
      cases hrc : distCalls hash rest t1.s with
      | error err => rw [hrc] at h; cases h
      | ok q =>
        obtain ⟨s2, ds2⟩ := q
        rw [hrc] at h
        simp only [Except.ok.injEq, Prod.mk.injEq] at h
        obtain ⟨rfl, _⟩ := h
        have hprog := distribute_whitelist_progress hash _ _ _ hcall
        have hs : (callTx s e b).s.whitelist = s.whitelist := rfl
        rw [hs] at hprog
        rcases ih t1.s s2 ds2 hrc with h1 | ⟨_, h1⟩
        · rcases hprog with h2 | h2
          · right
            refine ⟨by simp, ?_⟩
            rw [h2] at h1
            simp only [List.length_nil, Nat.le_zero_eq] at h1
            exact List.eq_nil_of_length_eq_zero (by omega)
          · left
            simp only [List.length_cons]; omega
        · exact Or.inr ⟨by simp, h1⟩

/-- the first loop of a call never fails and never exhausts its fuel -/
theorem guarRun_total (s : State) (g : GuarOp) (b : Option Nat) :
    ∃ x b' st, runWhile (guarBody s) (s.whitelist.length + 2) b (guarX s g) = .ok (x, b', st) ∧
      st ≠ .outOfFuel := by
  obtain ⟨xf, hrun, _⟩ := guarLoop_total s s.whitelist.length (guarX s g)
    (s.whitelist.length + 1) rfl rfl (Nat.le_refl _)
  cases b with
  | none =>
    exact ⟨xf, none, .completed,
      runWhile_fuel_mono _ _ _ _ _ _ _ hrun (by decide) _ (by omega), by decide⟩
  | some k =>
    rcases runWhile_call_progress _ _ _ xf hrun k (s.whitelist.length + 2) (by omega) with
      ⟨b', h⟩ | ⟨x1, h, _⟩
    · exact ⟨xf, b', .completed, h, by decide⟩
    · exact ⟨x1, some 0, .interrupted, h, by decide⟩

/-! ## 4. `secondary` (crate 8): seed accounting -/

/-- neither sub-step takes a seed: the seeds of the transaction record pass through -/
theorem guaranteedSubstep_seeds (hash : List Nat → List Nat) (t t' : Tx) (g g' : GuarOp)
    (st : LoopStatus) (h : guaranteedSubstep hash t g = .ok (t', g', st)) :
    t'.c.seeds = t.c.seeds := by
  rw [guaranteedSubstep_eq] at h
  cases hR1 : runWhile (guarBody t.s) (t.s.whitelist.length + 2) t.c.budget (guarX t.s g) with
  | error err => rw [hR1] at h; cases h
  | ok q =>
    obtain ⟨x, b1, st1⟩ := q
    rw [hR1] at h
    cases st1 with
    | outOfFuel => cases h
    | interrupted =>
      simp only [guarSubOutcome, Except.ok.injEq, Prod.mk.injEq] at h
      rw [← h.1]
    | completed =>
      simp only [guarSubOutcome] at h
      cases hR2 : runWhile (leftCoreBody hash t.s.variant.isV2 t.s.nrWinning t.s.lastTicketId)
          (leftFuel t.s) b1 (leftZ (guarS1 t.s x) (guarG1 g x) t.dctx) with
      | error err => rw [hR2] at h; cases h
      | ok q2 =>
        obtain ⟨z, b2, st2⟩ := q2
        rw [hR2] at h
        cases st2 with
        | outOfFuel => cases h
        | interrupted =>
          simp only [guarSubOutcome2, Except.ok.injEq, Prod.mk.injEq] at h
          rw [← h.1]; rfl
        | completed =>
          simp only [guarSubOutcome2, Except.ok.injEq, Prod.mk.injEq] at h
          rw [← h.1]; rfl

theorem nftSubstep_seeds (hash : List Nat → List Nat) (t t' : Tx) (r r' : Rng)
    (st : LoopStatus) (h : nftSubstep hash t r = .ok (t', r', st)) :
    t'.c.seeds = t.c.seeds := by
  rw [nftSubstep_eq] at h
  cases hR : runWhile (nftCoreBody hash t.s.availNfts) (t.s.payers.length + 2) t.c.budget
      (nftCoreOf t r) with
  | error err => rw [hR] at h; cases h
  | ok q =>
    obtain ⟨y, b, st1⟩ := q
    rw [hR] at h
    cases st1 with
    | outOfFuel => cases h
    | interrupted =>
      simp only [nftSubOutcome, Except.ok.injEq, Prod.mk.injEq] at h
      rw [← h.1]; rfl
    | completed =>
      simp only [nftSubOutcome, Except.ok.injEq, Prod.mk.injEq] at h
      rw [← h.1]; rfl

theorem nftSubstep_completed_op (hash : List Nat → List Nat) (t t' : Tx) (r r' : Rng)
    (h : nftSubstep hash t r = .ok (t', r', .completed)) : t'.s.op = .none := by
  rw [nftSubstep_eq] at h
  cases hR : runWhile (nftCoreBody hash t.s.availNfts) (t.s.payers.length + 2) t.c.budget
      (nftCoreOf t r) with
  | error err => rw [hR] at h; cases h
  | ok q =>
    obtain ⟨y, b, st1⟩ := q
    rw [hR] at h
    cases st1 with
    | outOfFuel => cases h
    | interrupted =>
      simp only [nftSubOutcome, Except.ok.injEq, Prod.mk.injEq, reduceCtorEq, and_false] at h
    | completed =>
      simp only [nftSubOutcome, Except.ok.injEq, Prod.mk.injEq] at h
      rw [← h.1]; rfl

def Op.isGuar : Op → Bool
  | .additional (.guar _) => true
  | _ => false

/-- **seed accounting of `secondarySelectionStep`.**  An accepted call consumes
    * one seed for the guaranteed-ticket cursor iff it starts the operation (`op = .none`);
    * one further seed — the generator of the NFT draw — iff the guaranteed sub-step completes
      in this very call (it was in progress or just started, and the call does not save a
      `.guar` cursor again);
    * no seed at all once the NFT draw has started (`op = .additional (.nft _)`). -/
theorem secondary_seeds (hash : List Nat → List Nat) (t t' : Tx) (e : Env)
    (h : secondary hash t e = .ok t') :
    match t.s.op with
    | .none =>
      (t'.s.op.isGuar = true ∧ t'.c.seeds = t.c.seeds.tail) ∨
      (t'.s.op.isGuar = false ∧ t'.c.seeds = t.c.seeds.tail.tail)
    | .additional (.guar _) =>
      (t'.s.op.isGuar = true ∧ t'.c.seeds = t.c.seeds) ∨
      (t'.s.op.isGuar = false ∧ t'.c.seeds = t.c.seeds.tail)
    | .additional (.nft _) => t'.s.op.isGuar = false ∧ t'.c.seeds = t.c.seeds
    | _ => False := by
  unfold secondary at h
  rcases hop : t.s.op with _ | _ | _ | (g | r) <;>
    simp only [hop, pure_bind, bind_ok_iff, req_ok_iff, exists_const, Prod.exists, reduceCtorEq,
      false_and, and_false] at h
  case additional.nft =>
    obtain ⟨_, _, _, _, t2, r2, st2, h2, h⟩ := h
    have e1 := nftSubstep_seeds hash _ _ _ _ _ h2
    cases st2
    · have hop2 := nftSubstep_completed_op hash _ _ _ _ h2
      simp only [pure_ok_iff] at h
      subst h
      exact ⟨by show t2.s.op.isGuar = false; rw [hop2]; rfl, e1⟩
    all_goals
      simp only [pure_ok_iff] at h
      subst h
      exact ⟨rfl, e1⟩
  all_goals
    lp_peel h
    have e1 := guaranteedSubstep_seeds hash _ _ _ _ _ ‹guaranteedSubstep _ _ _ = _›
    try simp only [Tx.freshRng_seeds] at e1
    split at h
    · simp only [bind_ok_iff, Prod.exists] at h
      obtain ⟨t2, r2, st2, h2, h⟩ := h
      have e2 := nftSubstep_seeds hash _ _ _ _ _ h2
      simp only [Tx.freshRng_seeds, Tx.setS_c] at e2
      right
      cases st2
      · have hop2 := nftSubstep_completed_op hash _ _ _ _ h2
        simp only [pure_ok_iff] at h
        subst h
        exact ⟨by show t2.s.op.isGuar = false; rw [hop2]; rfl,
          by show t2.c.seeds = _; rw [e2, e1]⟩
      all_goals
        simp only [pure_ok_iff] at h
        subst h
        exact ⟨rfl, by show t2.c.seeds = _; rw [e2, e1]⟩
    · simp only [pure_ok_iff] at h
      subst h
      exact Or.inl ⟨rfl, e1⟩

/-- once the NFT draw of `secondary` has started, no later call consumes a seed -/
theorem secondary_nft_phase_no_seed (hash : List Nat → List Nat) (t t' : Tx) (e : Env) (r : Rng)
    (hop : t.s.op = .additional (.nft r)) (h : secondary hash t e = .ok t') :
    t'.c.seeds = t.c.seeds ∧ t'.s.op.isGuar = false := by
  have := secondary_seeds hash t t' e h
  rw [hop] at this
  exact ⟨this.2, this.1⟩

/-- while the guaranteed sub-step of `secondary` is in progress and stays in progress, resumed
    calls consume no seed -/
theorem secondary_guar_phase_no_seed (hash : List Nat → List Nat) (t t' : Tx) (e : Env)
    (g : GuarOp) (hop : t.s.op = .additional (.guar g)) (h : secondary hash t e = .ok t')
    (hstill : t'.s.op.isGuar = true) : t'.c.seeds = t.c.seeds := by
  have := secondary_seeds hash t t' e h
  rw [hop] at this
  rcases this with h1 | h1
  · exact h1.2
  · rw [hstill] at h1; cases h1.1

/-- the tail of `secondary` after the NFT sub-step (same code) -/
def secNftFinish : Tx × Rng × LoopStatus → Res Tx
  | (t, rng, st) =>
    match st with
    | .completed =>
      pure { t with s := { t.s with flags := { t.s.flags with additional := true } },
                    o := { t.o with ret := [0] } }
    | _ => pure { t with s := { t.s with op := .additional (.nft rng) }, o := { t.o with ret := [1] } }

/-- **where the NFT generator of `secondary` comes from**: in the call in which the guaranteed
    sub-step completes, the NFT draw starts from the fresh generator made of the first seed
    still unused by that call (`firstRng` of the seeds left after the guaranteed cursor took
    its own, if it did) — so it is fixed by that call; whatever the later environments offer is
    never looked at (`secondary_nft_phase_no_seed`). -/
theorem secondary_nft_rng (hash : List Nat → List Nat) (t : Tx) (e : Env) (g g1 : GuarOp)
    (t1 : Tx) (hp : NftPre t.s e) (hg : guarOpOf t = some g)
    (hsub : guaranteedSubstep hash (selTxOf t) g = .ok (t1, g1, .completed)) :
    secondary hash t e =
      (nftSubstep hash (t1.setS (creditAdditional t1.s g1.additional)).freshRng.2
        (firstRng (selTxOf t).c.seeds) >>= secNftFinish) := by
  have hseeds := guaranteedSubstep_seeds hash _ _ _ _ _ hsub
  obtain ⟨h1, h2, h3⟩ := hp
  have h1' : (t.s.stage e == Stage.winnerSelection) = true := by simp [h1]
  have h3' : (!t.s.flags.additional) = true := by simp [h3]
  have hfr : (t1.setS (creditAdditional t1.s g1.additional)).freshRng.1 =
      firstRng (selTxOf t).c.seeds := by
    rw [Tx.freshRng_fst, ← hseeds]; rfl
  unfold secondary
  simp only [bind, Except.bind, pure, Except.pure, req, requireStage, h1', h2, h3', if_true]
  rcases hop : t.s.op with _ | _ | _ | (g0 | r0)
  · simp only [guarOpOf, hop, Option.some.injEq] at hg
    subst hg
    simp only [selTxOf, hop] at hsub hfr ⊢
    simp only [hsub, hfr]
    cases nftSubstep hash (t1.setS (creditAdditional t1.s g1.additional)).freshRng.2
        (firstRng t.freshRng.2.c.seeds) with
    | error err => rfl
    | ok q =>
      obtain ⟨t2, r2, st2⟩ := q
      cases st2 <;> rfl
  · simp [guarOpOf, hop] at hg
  · simp [guarOpOf, hop] at hg
  · simp only [guarOpOf, hop, Option.some.injEq] at hg
    subst hg
    simp only [selTxOf, hop] at hsub hfr ⊢
    simp only [hsub, hfr]
    cases nftSubstep hash (t1.setS (creditAdditional t1.s g1.additional)).freshRng.2
        (firstRng t.c.seeds) with
    | error err => rfl
    | ok q =>
      obtain ⟨t2, r2, st2⟩ := q
      cases st2 <;> rfl
  · simp [guarOpOf, hop] at hg

/-! ### (a) restated on the model's own loop state `SelSt` -/

theorem selStOf_some (t : Tx) (x : SelSt) (h : selStOf t = some x) :
    ∃ y, selCoreOf t = some y ∧ x = SelCore.lift (selTxOf t) y := by
  unfold selStOf at h
  cases hy : selCoreOf t with
  | none => rw [hy] at h; cases h
  | some y =>
    rw [hy] at h
    simp only [Option.map_some, Option.some.injEq] at h
    exact ⟨y, rfl, h.symm⟩

/-- (a) in the vocabulary of the model: if the loop of `selectWinners`, started from the state
    `x` the endpoint loads (`selStOf`), is interrupted in state `x'`, the call is accepted,
    stores `op := .select x'.rng x'.pos` with `status := x'.status`, `posToId := x'.posToId`,
    returns `[1]`, emits no event and changes nothing else -/
theorem selectWinners_interrupted_model (hash : List Nat → List Nat) (t : Tx) (e : Env)
    (x x' : SelSt) (b : Option Nat) (hp : SelectPre t.s e) (hx : selStOf t = some x)
    (hrun : runWhile (selectBody hash t.s.nrWinning t.s.lastTicketId) (t.s.nrWinning + 2)
              t.c.budget x = .ok (x', b, .interrupted)) :
    ∃ t', selectWinners hash t e = .ok t' ∧
      t'.s = { t.s with status := x'.status, posToId := x'.posToId,
                        op := .select x'.rng x'.pos } ∧
      t'.o.ret = [1] ∧ t'.o.events = t.o.events ∧ t'.o.xfers = t.o.xfers ∧
      t'.o.draws = x'.tx.o.draws := by
  obtain ⟨y, hy, rfl⟩ := selStOf_some t x hx
  rw [runWhile_map _ _ _ (selectBody_lift hash _ _ _)] at hrun
  cases hr : runWhile (selCoreBody hash t.s.nrWinning t.s.lastTicketId) (t.s.nrWinning + 2)
      t.c.budget y with
  | error err => rw [hr] at hrun; cases hrun
  | ok q =>
    obtain ⟨y', b', st⟩ := q
    rw [hr] at hrun
    simp only [Except.map, Except.ok.injEq, Prod.mk.injEq] at hrun
    obtain ⟨rfl, rfl, rfl⟩ := hrun
    obtain ⟨t', h1, h2, h3, h4, h5, _, _, h8⟩ :=
      selectWinners_interrupted hash t e y y' b' hp hy hr
    exact ⟨t', h1, h2, h3, h4, h5, h8⟩

end LP
