import LP.Proofs.ReachG1Dist
/-
  LP.Proofs.ReachG1Claim — preservation of `g1_WF` (`Variant.guarV1`) by the vested claim
  (`claimVested` with the v1 claimable computation `claimable1`: first claim = settlement + refund
  + first instalment, repeat claim = further instalment) and by the owner's own withdrawal
  (`claimPaymentOwn`).

  The shapes of the settle part and of the owner's withdrawal do not depend on the variant and are
  reused from `LP/Proofs/ReachV2Claim.lean` (`v2_claimSettle_state`, `v2_claimPaymentOwn_state`), as
  are the ledger moves `v2_LPost_settle`, `v2_LPost_pay`, `v2_LPost_withdraw`.  New here: the
  instalment is computed by `claimable1`; the exactness clause of `g1_Vest` (C13,
  `claimedExactly1`) makes `userClaimed + c` EXACTLY the released amount at the current round
  (`claimable1_step`), which is at most `userTotal` because a stored schedule is valid.
-/
namespace LP
open LP.FY LP.Events

/-! ### shapes -/

theorem g1_claimPay_state {t t' : Tx} {e : Env} {c : Nat} (h : claimPay false t e c = .ok t') :
    t'.s = { t.s with bal := t.s.bal.sub (.esdt t.s.lpTok) 0 c,
                      userClaimed := upd t.s.userClaimed e.caller (t.s.userClaimed e.caller + c) } ∧
    c ≤ t.s.bal (.esdt t.s.lpTok) 0 := by
  unfold claimPay at h
  by_cases hpos : c > 0
  · simp only [hpos, if_true, bind_ok_iff, pure_ok_iff, Bool.false_eq_true, if_false] at h
    obtain ⟨t1, hs, rfl⟩ := h
    obtain ⟨hle, rfl⟩ := (send_ok_iff _ _ _ _).mp hs
    exact ⟨rfl, hle⟩
  · simp only [hpos, if_false, pure_ok_iff] at h
    subst h
    have hc : c = 0 := by omega
    subst hc
    refine ⟨?_, Nat.zero_le _⟩
    rw [Bal.sub_zero, Nat.add_zero, upd_self_val]

/-- shape of an accepted vested claim of crate 4 -/
theorem g1_claimVested_state {s : State} {e : Env} {t : Tx} (hv : s.variant.isV2 = false)
    (h : claimVested (rbTx s e) e = .ok t) :
    ∃ t1 c, claimSettle (rbTx s e) e = .ok t1 ∧ claimable1 t1.s e e.caller = .ok c ∧
      t.s = { t1.s with bal := t1.s.bal.sub (.esdt t1.s.lpTok) 0 c,
                        userClaimed := upd t1.s.userClaimed e.caller (t1.s.userClaimed e.caller + c) } ∧
      c ≤ t1.s.bal (.esdt t1.s.lpTok) 0 := by
  rw [claimVested_eq] at h
  simp only [rbTx_s, hv, Bool.false_eq_true, if_false] at h
  unfold claimBody at h
  simp only [Bool.false_eq_true, if_false, bind_ok_iff] at h
  obtain ⟨t1, h1, c, hc, hp⟩ := h
  obtain ⟨k1, k2⟩ := g1_claimPay_state hp
  exact ⟨t1, c, h1, hc, k1, k2⟩

/-! ### the v1 schedule -/

theorem g1_pct1_le {sc : Option Sched1} (h : ∀ x, sc = some x → validSched1 x) (now : Nat) :
    pct1 now sc ≤ 10000 := by
  cases sc with
  | none => simp [pct1]
  | some x => exact unlockedPct1_le x (h x rfl) now

/-- **path independence at the level of one call** (C13 `claimable1_step`): under the exactness
    clause the booked amount after the call is exactly the released amount at the current round -/
theorem g1_claimable1_exact {s : State} {e : Env} {a c : Nat} (h : claimable1 s e a = .ok c)
    (hinv : s.userClaimed a = 0 ∨
      ∃ r', r' ≤ e.round ∧ s.userClaimed a = entitled (s.userTotal a) (pct1 r' s.sched1)) :
    s.userClaimed a + c = entitled (s.userTotal a) (pct1 e.round s.sched1) :=
  claimable1_step h hinv

/-! ### the vested claim -/

theorem g1_claim {T0 : Nat} {hash : List Nat → List Nat} {s s' : State} {e : Env} {o : Out}
    {r : Nat} (h : g1_WF T0 s r) (hr : r ≤ e.round)
    (hs : step hash s e .claim = .ok (s', o)) : g1_WF T0 s' e.round := by
  obtain ⟨t, hx, rfl⟩ := rb_step_np (by intro m hm; simp [endpointMeta] at hm; rw [← hm]) hs
  obtain ⟨hvest, _, hv2, _⟩ := g1_flags h.var
  simp only [exec, rbTx_s, hvest, if_true] at hx
  obtain ⟨t1, c, h1, hcl1, hts, hcle⟩ := g1_claimVested_state hv2 hx
  have hvs := h.vs
  have hl := hvs.lp
  have hne : Token.esdt s.lpTok ≠ s.payTok := fun hh => h.tokNe hh.symm
  have hexs : ∀ a, s.userClaimed a = 0 ∨
      ∃ r', r' ≤ e.round ∧ s.userClaimed a = entitled (s.userTotal a) (pct1 r' s.sched1) :=
    (hvs.mono hr).exact
  rcases v2_claimSettle_state h1 with ⟨hcl, rfl⟩ | ⟨hcl, hst, rg, B, hrg, hle, ht1, hBle, hBo, hBpay⟩
  · -- a further instalment
    simp only [rbTx_s] at hcl1 hcle
    have hadd : s.flags.additional = true := by
      cases hq : s.flags.additional with
      | true => rfl
      | false =>
        have := ((hl.pre hq).fresh e.caller).2.2
        have this' : s.claimed e.caller = false := this
        rw [hcl] at this'; cases this'
    rw [hts]
    simp only [rbTx_s]
    have hbal : ∀ k, k ≠ .esdt s.lpTok → (s.bal.sub (.esdt s.lpTok) 0 c) k 0 = s.bal k 0 := by
      intro k hk; simp [Bal.sub, hk]
    have hbl : (s.bal.sub (.esdt s.lpTok) 0 c) (.esdt s.lpTok) 0 = s.bal (.esdt s.lpTok) 0 - c := by
      simp [Bal.sub]
    have hpost := hl.post hadd
    have hex := g1_claimable1_exact hcl1 (hexs e.caller)
    have hlec : s.userClaimed e.caller + c ≤ s.userTotal e.caller := by
      rw [hex]; exact entitled_le _ (g1_pct1_le hvs.sch _)
    refine g1_WF_same_cfg (s := s) h ?_ rfl rfl rfl rfl ?_ rfl hr ?_
    · show ({ s.core with payBal := (s.bal.sub (.esdt s.lpTok) 0 c) s.payTok 0 } : Core) = s.core
      rw [hbal _ h.tokNe]; rfl
    · intro k h1 h2
      show (s.bal.sub (.esdt s.lpTok) 0 c) k 0 = 0
      rw [hbal k h2]; exact h.balOther k h1 h2
    · show g1_Vest s.gcore
        { g1_lproj s with
          lpBal := (s.bal.sub (.esdt s.lpTok) 0 c) (.esdt s.lpTok) 0,
          userClaimed := upd s.userClaimed e.caller (s.userClaimed e.caller + c) } s.sched1 e.round
      rw [hbl]
      refine ⟨⟨hl.sched, fun hq => ?_, fun hq => ?_, fun _ => v2_LPost_pay hpost hcle hlec⟩,
        hvs.sch, fun x => ?_⟩
      · obtain ⟨q1, q2, q3, q4, q5⟩ := hl.nodep hq
        have q2' : s.bal (.esdt s.lpTok) 0 = 0 := q2
        have hc0 : c = 0 := by omega
        subst hc0
        refine ⟨q1, by show s.bal (.esdt s.lpTok) 0 - 0 = 0; rw [q2'], q3, fun x => ⟨(q4 x).1, ?_⟩, q5⟩
        show upd s.userClaimed e.caller (s.userClaimed e.caller + 0) x = 0
        rw [Nat.add_zero, upd_self_val]; exact (q4 x).2
      · have : s.flags.additional = false := hq
        rw [hadd] at this; cases this
      · show upd s.userClaimed e.caller (s.userClaimed e.caller + c) x = 0 ∨
          ∃ r', r' ≤ e.round ∧ upd s.userClaimed e.caller (s.userClaimed e.caller + c) x
            = entitled (s.userTotal x) (pct1 r' s.sched1)
        by_cases hxa : x = e.caller
        · subst hxa
          exact Or.inr ⟨e.round, Nat.le_refl _, by rw [upd_same]; exact hex⟩
        · rw [upd_other _ _ _ _ hxa]; exact hexs x
  · -- the first claim: settlement
    obtain ⟨hsel, hadd, hc1, hc2⟩ := v1_stage_claim hst
    have hD : PhD s.core := v1_phase_D h.phase hadd
    have hlp1 : t1.s.lpTok = s.lpTok := by rw [ht1]; rfl
    have hbal1 : t1.s.bal = B := by rw [ht1]
    have hBlp : B (.esdt s.lpTok) 0 = s.bal (.esdt s.lpTok) 0 := hBo _ _ hne
    have hpb0 : (B.sub (.esdt s.lpTok) 0 c) s.payTok 0 = s.bal s.payTok 0 - s.price *
        (s.confirmed e.caller - (clearRange s.status s.posToId rg.first (rangeLen rg)).2.2) := by
      have : (B.sub (.esdt s.lpTok) 0 c) s.payTok 0 = B s.payTok 0 := by
        simp [Bal.sub, h.tokNe]
      rw [this]; exact hBpay
    obtain ⟨pb, hpbd⟩ : ∃ pb, pb = (B.sub (.esdt s.lpTok) 0 c) s.payTok 0 := ⟨_, rfl⟩
    have hpb : pb = s.bal s.payTok 0 - s.price *
        (s.confirmed e.caller - (clearRange s.status s.posToId rg.first (rangeLen rg)).2.2) := by
      rw [hpbd]; exact hpb0
    have hD' := rb_claim_phase (c := s.core) hD (a := e.caller) (r := rg) hrg
      (bt := upd s.batch rg.first none) (pb := pb) hpb
    have hpost := hl.post hadd
    have hut0 : s.userTotal e.caller = 0 := hpost.unclaimed e.caller hcl
    have huc0 : s.userClaimed e.caller = 0 := Nat.le_zero.mp (hut0 ▸ hpost.le e.caller)
    -- the entitlement written by the settlement
    have hut : (if redeemOf s rg > 0 then upd s.userTotal e.caller (redeemOf s rg * s.perTicket)
        else s.userTotal) = upd s.userTotal e.caller (redeemOf s rg * s.perTicket) := by
      by_cases hk0 : redeemOf s rg > 0
      · rw [if_pos hk0]
      · rw [if_neg hk0]
        have : redeemOf s rg = 0 := by omega
        rw [this, Nat.zero_mul, ← hut0, upd_self_val]
    have hk : redeemOf s rg ≤ s.nrWinning := by
      by_cases hc0 : s.confirmed e.caller = 0
      · rw [hc0] at hle; omega
      · obtain ⟨LD, _, hsupp, _, hwin⟩ := hD.led
        have hin := hsupp e.caller hc0
        have h1 := rb_le_sumOver (winOf s.range s.status) LD e.caller hin
        have h2 : winOf s.range s.status e.caller = redeemOf s rg := by
          simp only [winOf, hrg, redeemOf, (rb_clearRange_spec s.status s.posToId rg.first (rangeLen rg)).2.2]
        have hwin' : sumOver (winOf s.range s.status) LD = s.nrWinning := hwin
        omega
    have hcle' : c ≤ s.bal (.esdt s.lpTok) 0 := by
      rw [hlp1, hbal1, hBlp] at hcle; exact hcle
    -- the instalment: exactly the released part of the new entitlement
    have hex : s.userClaimed e.caller + c
        = entitled (redeemOf s rg * s.perTicket) (pct1 e.round s.sched1) := by
      have h0 : t1.s.userClaimed e.caller = 0 ∨ ∃ r', r' ≤ e.round ∧ t1.s.userClaimed e.caller
          = entitled (t1.s.userTotal e.caller) (pct1 r' t1.s.sched1) := by
        left; rw [ht1]; exact huc0
      have := g1_claimable1_exact hcl1 h0
      rw [ht1] at this
      have this' : s.userClaimed e.caller + c = entitled ((if redeemOf s rg > 0
        then upd s.userTotal e.caller (redeemOf s rg * s.perTicket) else s.userTotal) e.caller)
          (pct1 e.round s.sched1) := this
      rw [hut, upd_same] at this'
      exact this'
    have hlec : s.userClaimed e.caller + c ≤ redeemOf s rg * s.perTicket := by
      rw [hex]; exact entitled_le _ (g1_pct1_le hvs.sch _)
    have hbl : (B.sub (.esdt s.lpTok) 0 c) (.esdt s.lpTok) 0 = s.bal (.esdt s.lpTok) 0 - c := by
      simp [Bal.sub, hBlp]
    rw [hts, hlp1, hbal1, ht1]
    refine ⟨h.var, h.pricePos, h.tokNe, h.static, ?_, ?_, ?_, ?_,
      Or.inr ⟨hadd, by rw [hpbd] at hD'; exact hD'⟩⟩
    · intro k h1 h2
      show (B.sub (.esdt s.lpTok) 0 c) k 0 = 0
      have := rb_sub_le B (.esdt s.lpTok) 0 c k 0
      have := hBle k 0
      have h0 := h.balOther k h1 h2
      omega
    · intro hlt; exfalso; have : e.round < s.cfg.conf := hlt; omega
    · intro _; exact ⟨hc1, hc2⟩
    · show g1_Vest { s.gcore with core := claimCore s.core e.caller rg (upd s.batch rg.first none) ((B.sub (.esdt s.lpTok) 0 c) s.payTok 0) }
        { g1_lproj s with
          lpBal := (B.sub (.esdt s.lpTok) 0 c) (.esdt s.lpTok) 0,
          userTotal := (if redeemOf s rg > 0 then upd s.userTotal e.caller (redeemOf s rg * s.perTicket) else s.userTotal),
          userClaimed := upd s.userClaimed e.caller (s.userClaimed e.caller + c),
          claimed := upd s.claimed e.caller true } s.sched1 e.round
      rw [hbl, hut, ← hpbd]
      have hset := v2_LPost_settle (g := s.gcore)
        (g' := { s.gcore with core := claimCore s.core e.caller rg (upd s.batch rg.first none) pb })
        hpost (a := e.caller) (k := redeemOf s rg) hcl hk rfl rfl rfl
      have hpay := v2_LPost_pay hset (a := e.caller) (c := c) hcle' (by
        show s.userClaimed e.caller + c ≤ upd s.userTotal e.caller (redeemOf s rg * s.perTicket) e.caller
        rw [upd_same]; exact hlec)
      refine ⟨⟨hl.sched, fun hq => ?_, fun hq => ?_, fun _ => hpay⟩, hvs.sch, fun x => ?_⟩
      · obtain ⟨q1, q2, q3, q4, q5⟩ := hl.nodep hq
        have q2' : s.bal (.esdt s.lpTok) 0 = 0 := q2
        have q1' : s.confirmed e.caller = 0 := q1 e.caller
        have hc0 : c = 0 := by omega
        have hk0 : redeemOf s rg = 0 := by rw [q1'] at hle; omega
        have q5' : s.nrWinning = 0 := q5 hadd
        refine ⟨fun x => ?_, by show s.bal (.esdt s.lpTok) 0 - c = 0; rw [q2']; exact Nat.zero_sub _, q3, fun x => ⟨?_, ?_⟩,
          fun _ => ?_⟩
        · show upd s.confirmed e.caller 0 x = 0
          by_cases hxa : x = e.caller
          · rw [hxa, upd_same]
          · rw [upd_other _ _ _ _ hxa]; exact q1 x
        · show upd s.userTotal e.caller (redeemOf s rg * s.perTicket) x = 0
          rw [hk0, Nat.zero_mul]
          by_cases hxa : x = e.caller
          · rw [hxa, upd_same]
          · rw [upd_other _ _ _ _ hxa]; exact (q4 x).1
        · show upd s.userClaimed e.caller (s.userClaimed e.caller + c) x = 0
          rw [hc0, Nat.add_zero, upd_self_val]; exact (q4 x).2
        · show s.nrWinning - (clearRange s.status s.posToId rg.first (rangeLen rg)).2.2 = 0
          rw [q5']; exact Nat.zero_sub _
      · have : s.flags.additional = false := hq
        rw [hadd] at this; cases this
      · show upd s.userClaimed e.caller (s.userClaimed e.caller + c) x = 0 ∨
          ∃ r', r' ≤ e.round ∧ upd s.userClaimed e.caller (s.userClaimed e.caller + c) x
            = entitled (upd s.userTotal e.caller (redeemOf s rg * s.perTicket) x) (pct1 r' s.sched1)
        by_cases hxa : x = e.caller
        · subst hxa
          exact Or.inr ⟨e.round, Nat.le_refl _, by rw [upd_same, upd_same]; exact hex⟩
        · rw [upd_other _ _ _ _ hxa, upd_other _ _ _ _ hxa]; exact hexs x

/-! ### the owner's withdrawal -/

theorem g1_claimPayment {T0 : Nat} {hash : List Nat → List Nat} {s s' : State} {e : Env} {o : Out}
    {r : Nat} (h : g1_WF T0 s r) (hr : r ≤ e.round)
    (hs : step hash s e .claimPayment = .ok (s', o)) : g1_WF T0 s' e.round := by
  obtain ⟨t, hx, rfl⟩ := rb_step_np (by intro m hm; simp [endpointMeta] at hm; rw [← hm]) hs
  obtain ⟨hvest, _, hv2, _⟩ := g1_flags h.var
  simp only [exec, rbTx_s, hvest, if_true] at hx
  obtain ⟨hst, hle1, hle2, hts⟩ := v2_claimPaymentOwn_state h.tokNe hx
  obtain ⟨hsel, hadd, hc1, hc2⟩ := v1_stage_claim hst
  have hD : PhD s.core := v1_phase_D h.phase hadd
  have hvs := h.vs
  have hl := hvs.lp
  have hne : Token.esdt s.lpTok ≠ s.payTok := fun hh => h.tokNe hh.symm
  obtain ⟨L, hnd, hsupp, hpost, hwin⟩ := hD.led
  have hpost' : s.bal s.payTok 0 = s.claimablePayment + sumOver (dueC s.core) L := hpost
  have hpb : ((s.bal.sub s.payTok 0 s.claimablePayment).sub (.esdt s.lpTok) 0 (ownSurplus s)) s.payTok 0
      = s.bal s.payTok 0 - s.claimablePayment := by
    simp [Bal.sub, h.tokNe]
  have hbl : ((s.bal.sub s.payTok 0 s.claimablePayment).sub (.esdt s.lpTok) 0 (ownSurplus s))
      (.esdt s.lpTok) 0 = s.bal (.esdt s.lpTok) 0 - ownSurplus s := by
    simp [Bal.sub, hne]
  rw [hts]
  refine ⟨h.var, h.pricePos, h.tokNe, h.static, ?_, ?_, ?_, ?_, Or.inr ⟨hadd, ⟨hD.started,
    hD.filtered, hD.selected, hD.op, hD.rngOk, hD.rngNone, hD.disj, L, hnd, hsupp, ?_, hwin⟩⟩⟩
  · intro k h1 h2
    show ((s.bal.sub s.payTok 0 s.claimablePayment).sub (.esdt s.lpTok) 0 (ownSurplus s)) k 0 = 0
    have a1 := rb_sub_le (s.bal.sub s.payTok 0 s.claimablePayment) (.esdt s.lpTok) 0 (ownSurplus s) k 0
    have a2 := rb_sub_le s.bal s.payTok 0 s.claimablePayment k 0
    have h0 := h.balOther k h1 h2
    omega
  · intro hlt; exfalso; have : e.round < s.cfg.conf := hlt; omega
  · intro _; exact ⟨hc1, hc2⟩
  · show g1_Vest { s.gcore with core := { s.core with payBal := ((s.bal.sub s.payTok 0 s.claimablePayment).sub (.esdt s.lpTok) 0 (ownSurplus s)) s.payTok 0, claimable := 0 } }
      { g1_lproj s with
        lpBal := ((s.bal.sub s.payTok 0 s.claimablePayment).sub (.esdt s.lpTok) 0 (ownSurplus s)) (.esdt s.lpTok) 0,
        totalDeposited := 0 } s.sched1 e.round
    rw [hbl]
    have hw := v2_LPost_withdraw (g := s.gcore)
      (g' := { s.gcore with core := { s.core with payBal := ((s.bal.sub s.payTok 0 s.claimablePayment).sub (.esdt s.lpTok) 0 (ownSurplus s)) s.payTok 0, claimable := 0 } })
      (hl.post hadd) h.pricePos rfl rfl (sur := ownSurplus s) rfl hle2
    refine ⟨⟨hl.sched, fun hq => ?_, fun hq => ?_, fun _ => hw⟩, hvs.sch, (hvs.mono hr).exact⟩
    · obtain ⟨q1, q2, q3, q4, q5⟩ := hl.nodep hq
      have q2' : s.bal (.esdt s.lpTok) 0 = 0 := q2
      exact ⟨q1, by show s.bal (.esdt s.lpTok) 0 - ownSurplus s = 0; rw [q2']; exact Nat.zero_sub _,
        rfl, q4, q5⟩
    · have : s.flags.additional = false := hq
      rw [hadd] at this; cases this
  · show ((s.bal.sub s.payTok 0 s.claimablePayment).sub (.esdt s.lpTok) 0 (ownSurplus s)) s.payTok 0
      = 0 + sumOver (dueC s.core) L
    rw [hpb]; omega

end LP
