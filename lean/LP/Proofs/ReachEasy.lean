import LP.Proofs.ReachWF
/-
  LP.Proofs.ReachEasy — preservation of `WF` by the endpoints without a loop and without a
  claim: setters, `setSupport`, `pause`, `unpause`, `deposit`, `setTicketPrice`, `addTickets`,
  `confirm`, `blacklist`.
-/
namespace LP
open LP.FY LP.Events

/-! ### inversion helpers -/

/-- the initial record of a call without call value -/
def rbTx (s : State) (e : Env) : Tx := ⟨s, ⟨e.budget, e.seeds, e.script⟩, {}⟩

@[simp] theorem rbTx_s (s : State) (e : Env) : (rbTx s e).s = s := rfl

theorem rb_step_np {hash : List Nat → List Nat} {s : State} {e : Env} {c : Call} {s' : State} {o : Out}
    (hnp : ∀ m, endpointMeta s.variant c = some m → m.payable = false)
    (h : step hash s e c = .ok (s', o)) :
    ∃ t, exec hash (rbTx s e) e c = .ok t ∧ s' = t.s := by
  obtain ⟨t, hx, hs, _⟩ := LP.Props.C20.step_nopay_inv hnp h
  exact ⟨t, hx, hs⟩

theorem rb_WF_same_cfg {T0 : Nat} {s s' : State} {r r' : Nat} (h : WF T0 s r)
    (hcore : s'.core = s.core) (hv : s'.variant = s.variant) (hp : s'.payTok = s.payTok)
    (hl : s'.lpTok = s.lpTok)
    (hb : ∀ t, t ≠ s.payTok → t ≠ .esdt s.lpTok → s'.bal t 0 = 0)
    (hcfg : s'.cfg = s.cfg) (hr : r ≤ r') : WF T0 s' r' := by
  apply rb_WF_of_core h hcore hv hp hl hb
  · intro h1; rw [hcfg] at h1; exact h.tlConf (by omega)
  · intro h1; rw [hcfg]; have := h.tlStarted h1; omega

/-! ### trivial endpoints -/

theorem rb_setSupport {T0 : Nat} {hash : List Nat → List Nat} {s s' : State} {e : Env} {o : Out}
    {r a : Nat} (h : WF T0 s r) (hr : r ≤ e.round)
    (hs : step hash s e (.setSupport a) = .ok (s', o)) : WF T0 s' e.round := by
  obtain ⟨t, hx, rfl⟩ := rb_step_np (by intro m hm; simp [endpointMeta] at hm; rw [← hm]) hs
  simp only [exec, pure_ok_iff] at hx
  subst hx
  exact rb_WF_same_cfg h rfl rfl rfl rfl h.balOther rfl hr

theorem rb_pause {T0 : Nat} {hash : List Nat → List Nat} {s s' : State} {e : Env} {o : Out}
    {r : Nat} (h : WF T0 s r) (hr : r ≤ e.round)
    (hs : step hash s e .pause = .ok (s', o)) : WF T0 s' e.round := by
  obtain ⟨t, hx, rfl⟩ := rb_step_np (by intro m hm; simp [endpointMeta] at hm; rw [← hm]) hs
  simp only [exec, pure_ok_iff] at hx
  subst hx
  exact rb_WF_same_cfg h rfl rfl rfl rfl h.balOther rfl hr

theorem rb_unpause {T0 : Nat} {hash : List Nat → List Nat} {s s' : State} {e : Env} {o : Out}
    {r : Nat} (h : WF T0 s r) (hr : r ≤ e.round)
    (hs : step hash s e .unpause = .ok (s', o)) : WF T0 s' e.round := by
  obtain ⟨t, hx, rfl⟩ := rb_step_np (by intro m hm; simp [endpointMeta] at hm; rw [← hm]) hs
  simp only [exec, pure_ok_iff] at hx
  subst hx
  exact rb_WF_same_cfg h rfl rfl rfl rfl h.balOther rfl hr

theorem rb_setPerTicket {T0 : Nat} {hash : List Nat → List Nat} {s s' : State} {e : Env} {o : Out}
    {r a : Nat} (h : WF T0 s r) (hr : r ≤ e.round)
    (hs : step hash s e (.setPerTicket a) = .ok (s', o)) : WF T0 s' e.round := by
  obtain ⟨t, hx, rfl⟩ := rb_step_np (by intro m hm; simp [endpointMeta] at hm; rw [← hm]) hs
  rw [(exec_setPerTicket_s hx).1]
  exact rb_WF_same_cfg h rfl rfl rfl rfl h.balOther rfl hr

theorem rb_setConfStart {T0 : Nat} {hash : List Nat → List Nat} {s s' : State} {e : Env} {o : Out}
    {r x : Nat} (h : WF T0 s r) (hr : r ≤ e.round)
    (hs : step hash s e (.setConfStart x) = .ok (s', o)) : WF T0 s' e.round := by
  obtain ⟨t, hx, rfl⟩ := rb_step_np (by intro m hm; simp [endpointMeta] at hm; rw [← hm]) hs
  obtain ⟨h1, h2, h3⟩ := exec_setConfStart_s hx
  have h2' : e.round < s.cfg.conf := h2
  rw [h1]
  refine rb_WF_of_core h ?_ ?_ ?_ ?_ ?_ ?_ ?_
  · rfl
  · rfl
  · rfl
  · rfl
  · exact h.balOther
  · intro _; exact h.tlConf (by omega)
  · intro hst; have := h.tlStarted hst; omega

theorem rb_setSelStart {T0 : Nat} {hash : List Nat → List Nat} {s s' : State} {e : Env} {o : Out}
    {r x : Nat} (h : WF T0 s r) (hr : r ≤ e.round)
    (hs : step hash s e (.setSelStart x) = .ok (s', o)) : WF T0 s' e.round := by
  obtain ⟨t, hx, rfl⟩ := rb_step_np (by intro m hm; simp [endpointMeta] at hm; rw [← hm]) hs
  obtain ⟨h1, h2, h3⟩ := exec_setSelStart_s hx
  have h2' : e.round < s.cfg.sel := h2
  rw [h1]
  refine rb_WF_of_core h ?_ ?_ ?_ ?_ ?_ ?_ ?_
  · rfl
  · rfl
  · rfl
  · rfl
  · exact h.balOther
  · intro hlt; exact h.tlConf (by have : e.round < s.cfg.conf := hlt; omega)
  · intro hst; have := h.tlStarted hst; omega

theorem rb_setClaimStart {T0 : Nat} {hash : List Nat → List Nat} {s s' : State} {e : Env} {o : Out}
    {r x : Nat} (h : WF T0 s r) (hr : r ≤ e.round)
    (hs : step hash s e (.setClaimStart x) = .ok (s', o)) : WF T0 s' e.round := by
  obtain ⟨t, hx, rfl⟩ := rb_step_np (by intro m hm; simp [endpointMeta] at hm; rw [← hm]) hs
  rw [(exec_setClaimStart_s hx).1]
  refine rb_WF_of_core h ?_ ?_ ?_ ?_ ?_ ?_ ?_
  · rfl
  · rfl
  · rfl
  · rfl
  · exact h.balOther
  · intro hlt; exact h.tlConf (by have : e.round < s.cfg.conf := hlt; omega)
  · intro hst
    have := h.tlStarted hst
    show s.cfg.conf ≤ e.round ∧ s.cfg.sel ≤ e.round
    omega

/-! ### deposit -/

theorem rb_deposit_payment {s0 s1 : State} {e : Env} {tw : Nat}
    (h : depositLaunchpadTokens s0 e tw = .ok s1) (hok : EnvOK e) :
    ∃ amt, e.egld = 0 ∧ e.esdts = [⟨.esdt s0.lpTok, 0, amt⟩] := by
  unfold depositLaunchpadTokens at h
  simp only [bind_ok_iff, pure_ok_iff, req_ok_iff, exists_const, Prod.exists] at h
  obtain ⟨_, tok, amt, hsf, htok, _, _⟩ := h
  unfold singleFungible at hsf
  split at hsf
  · rename_i p hp
    split at hsf
    · rename_i hn
      simp only [Except.ok.injEq, Prod.mk.injEq] at hsf
      have htok' : tok = .esdt s0.lpTok := by simpa using htok
      refine ⟨p.amount, ?_, ?_⟩
      · rcases hok with h0 | h0
        · exact h0
        · rw [hp] at h0; cases h0
      · rw [hp]
        obtain ⟨a, b, c⟩ := p
        simp only at hsf hn
        rw [← htok', ← hsf.1, hn]
    · cases hsf
  · cases hsf

theorem rb_credit_single (s : State) (e : Env) (tok : Token) (amt : Nat) (h1 : e.egld = 0)
    (h2 : e.esdts = [⟨tok, 0, amt⟩]) :
    creditPayments s e = { s with bal := s.bal.add tok 0 amt } := by
  unfold creditPayments
  simp only [h1, h2, List.foldl_cons, List.foldl_nil]
  have : s.bal.add .egld 0 0 = s.bal := by funext t n; unfold Bal.add; split <;> simp
  rw [this]

theorem rb_deposit {T0 : Nat} {hash : List Nat → List Nat} {s s' : State} {e : Env} {o : Out}
    {r : Nat} (h : WF T0 s r) (hr : r ≤ e.round) (hok : EnvOK e)
    (hs : step hash s e .deposit = .ok (s', o)) : WF T0 s' e.round := by
  obtain ⟨m, t, _, _, _, hx, rfl, _⟩ := step_ok_inv hs
  have hx' := hx
  simp only [exec, bind_ok_iff, pure_ok_iff] at hx'
  obtain ⟨s1, hd, _⟩ := hx'
  obtain ⟨amt, he1, he2⟩ := rb_deposit_payment hd hok
  have hlp : (tx0 s e).s.lpTok = s.lpTok := rfl
  rw [hlp] at he2
  have hcp := rb_credit_single s e _ amt he1 he2
  obtain ⟨_, h1⟩ := exec_deposit_s hx
  rw [h1]
  have hts : (tx0 s e).s = creditPayments s e := rfl
  rw [hts, hcp]
  have hbal : ∀ t, t ≠ .esdt s.lpTok → (s.bal.add (.esdt s.lpTok) 0 amt) t 0 = s.bal t 0 := by
    intro t ht; simp [Bal.add, ht]
  refine rb_WF_same_cfg (s := s) h ?_ rfl rfl rfl ?_ rfl hr
  · show ({ s.core with payBal := (s.bal.add (.esdt s.lpTok) 0 amt) s.payTok 0 } : Core) = s.core
    rw [hbal _ h.tokNe]; rfl
  · intro t h1 h2
    show (s.bal.add (.esdt s.lpTok) 0 amt) t 0 = 0
    rw [hbal t h2]; exact h.balOther t h1 h2

/-! ### setTicketPrice -/

theorem rb_setTicketPrice {T0 : Nat} {hash : List Nat → List Nat} {s s' : State} {e : Env} {o : Out}
    {r a : Nat} {tok : Token} (h : WF T0 s r) (hr : r ≤ e.round)
    (hs : step hash s e (.setTicketPrice tok a) = .ok (s', o)) : WF T0 s' e.round := by
  obtain ⟨t, hx, rfl⟩ := rb_step_np (by intro m hm; simp [endpointMeta] at hm; rw [← hm]) hs
  obtain ⟨h1, h2, h3, _, h5⟩ := exec_setTicketPrice_s hx
  have hlt : e.round < s.cfg.conf := rb_stage_addTickets h2
  have hz : ∀ a, s.confirmed a = 0 := h.tlConf (by omega)
  have hns : s.flags.started = false := rb_notStarted_of_lt h hr (Or.inl hlt)
  obtain ⟨L0, hp, ha⟩ := rb_phase_notStarted h.phase hns
  have hpay0 : s.bal s.payTok 0 = 0 := by
    have : s.bal s.payTok 0 = s.price * sumOver s.confirmed (L0.map Prod.fst) := hp.pay
    rw [sumOver_zero _ _ (fun a _ => hz a)] at this
    simpa using this
  have hb0 : ∀ t, t ≠ .esdt s.lpTok → s.bal t 0 = 0 := by
    intro t ht
    by_cases h1 : t = s.payTok
    · rw [h1]; exact hpay0
    · exact h.balOther t h1 ht
  rw [h1]
  refine ⟨h.var, h3, h5, h.add, fun t _ h2 => hb0 t h2, fun _ => hz, ?_, ?_⟩
  · intro hst; have := h.tlStarted hst; exact ⟨by omega, by omega⟩
  · left
    refine ⟨L0, ⟨hp.notFiltered, hp.notSelected, hp.nrw, hp.status0, hp.pos0, hp.ok, hp.outC, hp.outR, ?_⟩,
      Or.inl ⟨ha.notStarted, ha.op, ha.chain, ha.last⟩⟩
    show s.bal tok 0 = a * sumOver s.confirmed (L0.map Prod.fst)
    rw [sumOver_zero _ _ (fun a _ => hz a), hb0 tok h5]; simp

/-! ### addTickets -/

theorem rb_Chain_range_some {L : List (Nat × Nat)} {first : Nat} {range : Nat → Option Range}
    {batch : Nat → Option Batch} (h : Chain L first range batch) {a : Nat}
    (ha : a ∈ L.map Prod.fst) : ∃ r, range a = some r := by
  induction L generalizing first with
  | nil => cases ha
  | cons p rest ih =>
    obtain ⟨_, h2, h3⟩ := h
    simp only [List.map_cons, List.mem_cons] at ha
    rcases ha with rfl | ha
    · exact ⟨_, h2⟩
    · exact ih h3 ha

theorem rb_addTickets {T0 : Nat} {hash : List Nat → List Nat} {s s' : State} {e : Env} {o : Out}
    {r : Nat} {l : List (Nat × Nat)} (h : WF T0 s r) (hr : r ≤ e.round)
    (hpos : ∀ p ∈ l, 1 ≤ p.2)
    (hs : step hash s e (.addTickets l) = .ok (s', o)) : WF T0 s' e.round := by
  obtain ⟨t, hx, rfl⟩ := rb_step_np (by
    intro m hm; simp only [endpointMeta] at hm; split at hm
    · simp at hm; rw [← hm]
    · cases hm) hs
  simp only [exec, bind_ok_iff, pure_ok_iff, requireStage, req_ok_iff, exists_const] at hx
  obtain ⟨hst, s1, hcm, rfl⟩ := hx
  have hst' : s.stage e = .addTickets := by simpa [rbTx] using hst
  have hcm' : createMany l s = .ok s1 := hcm
  have hlt : e.round < s.cfg.conf := rb_stage_addTickets hst'
  have hz : ∀ a, s.confirmed a = 0 := h.tlConf (by omega)
  have hns : s.flags.started = false := rb_notStarted_of_lt h hr (Or.inl hlt)
  obtain ⟨L0, hp, ha⟩ := rb_phase_notStarted h.phase hns
  obtain ⟨hnd, hnone, _, hlast, hchain, hfr, hfb, rg, bt, lt, heq⟩ := createMany_ok l s s1 hcm'
  have hch := hchain hpos
  have hrg : s1.range = rg := by rw [heq]
  have hbt : s1.batch = bt := by rw [heq]
  have hlt1 : s1.lastTicketId = lt := by rw [heq]
  -- new addresses are not in the old list
  have hnew : ∀ a, a ∈ l.map Prod.fst → a ∉ L0.map Prod.fst := by
    intro a ha1 ha2
    obtain ⟨rr, hrr⟩ := rb_Chain_range_some ha.chain ha2
    have hn : s.range a = none := hnone a ha1
    have hrr' : s.range a = some rr := hrr
    rw [hn] at hrr'; cases hrr'
  have hl0 : s.lastTicketId = ticketTotal L0 := ha.last
  show WF T0 s1 e.round
  rw [heq]
  refine ⟨h.var, h.pricePos, h.tokNe, h.add, h.balOther, fun _ => hz, ?_, ?_⟩
  · intro hst2; have := h.tlStarted hst2; exact ⟨by omega, by omega⟩
  · left
    refine ⟨L0 ++ l, ⟨hp.notFiltered, hp.notSelected, hp.nrw, hp.status0, hp.pos0, ⟨?_, ?_, ?_⟩, ?_, ?_, ?_⟩,
      Or.inl ⟨ha.notStarted, ha.op, ?_, ?_⟩⟩
    · rw [List.map_append, List.nodup_append]
      exact ⟨hp.ok.nodup, hnd, fun a ha1 b hb1 hab => hnew b hb1 (hab ▸ ha1)⟩
    · intro p hp1
      rcases List.mem_append.mp hp1 with hp1 | hp1
      · exact hp.ok.pos p hp1
      · exact hpos p hp1
    · intro p hp1
      rcases List.mem_append.mp hp1 with hp1 | hp1
      · exact hp.ok.le p hp1
      · show s.confirmed p.1 ≤ p.2; rw [hz]; omega
    · intro a _; exact hz a
    · intro a ha1
      rw [List.map_append, List.mem_append, not_or] at ha1
      show rg a = none
      rw [← hrg, hfr a ha1.2]; exact hp.outR a ha1.1
    · show s.bal s.payTok 0 = s.price * sumOver s.confirmed ((L0 ++ l).map Prod.fst)
      rw [sumOver_zero _ _ (fun a _ => hz a)]
      have : s.bal s.payTok 0 = s.price * sumOver s.confirmed (L0.map Prod.fst) := hp.pay
      rw [sumOver_zero _ _ (fun a _ => hz a)] at this
      exact this
    · show Chain (L0 ++ l) 1 rg bt
      rw [rb_Chain_append, ← hrg, ← hbt]
      constructor
      · apply rb_Chain_congr ha.chain hp.ok.pos
        · intro a ha1; exact hfr a (fun hh => hnew a hh ha1)
        · intro x _ hx2; exact hfb x (by omega)
      · rw [← hl0, Nat.add_comm]; exact hch
    · show lt = ticketTotal (L0 ++ l)
      rw [← hlt1, hlast, rb_ticketTotal_append, hl0]

/-! ### confirm -/

theorem rb_ticketsFor_chain {s : State} {L : List (Nat × Nat)} (hch : Chain L 1 s.range s.batch)
    (hpos : ∀ p ∈ L, 1 ≤ p.2) {p : Nat × Nat} (hp : p ∈ L) {total : Nat}
    (ht : ticketsFor s p.1 = .ok total) : total = p.2 := by
  obtain ⟨rr, hrr, _, h2, _, h4⟩ := Chain_bounds hch hpos p hp
  unfold ticketsFor at ht
  rw [hrr] at ht
  simp only [csub, if_pos h2, bind, Except.bind, pure, Except.pure, Except.ok.injEq] at ht
  omega

theorem rb_confirm {T0 : Nat} {hash : List Nat → List Nat} {s s' : State} {e : Env} {o : Out}
    {r n : Nat} (h : WF T0 s r) (hr : r ≤ e.round) (hok : EnvOK e)
    (hs : step hash s e (.confirm n) = .ok (s', o)) : WF T0 s' e.round := by
  obtain ⟨total, hacc, rfl, _⟩ := LP.Props.C07.confirm_effect hash s e n s' o hs
  have hbal := LP.Props.C07.confirm_holdings s e n total hacc hok
  obtain ⟨_, _, hst, _, _, htix, hle⟩ := hacc
  obtain ⟨hc1, hc2⟩ := rb_stage_confirm hst
  have hns : s.flags.started = false := rb_notStarted_of_lt h hr (Or.inr hc2)
  obtain ⟨L0, hp, ha⟩ := rb_phase_notStarted h.phase hns
  have hcp : creditPayments s e = { s with bal := s.bal.add s.payTok 0 (s.price * n) } := by
    have : creditPayments s e = { s with bal := (creditPayments s e).bal } := rfl
    rw [this, hbal]
  rw [hcp]
  -- the caller's allocation bounds the new total
  have hin : e.caller ∈ L0.map Prod.fst → ∀ p ∈ L0, p.1 = e.caller → s.confirmed e.caller + n ≤ p.2 := by
    intro _ p hp1 hpe
    have : total = p.2 := rb_ticketsFor_chain ha.chain hp.ok.pos hp1 (by rw [hpe]; exact htix)
    omega
  have hout : e.caller ∉ L0.map Prod.fst → n = 0 ∧ s.confirmed e.caller = 0 := by
    intro hnin
    have hrn : s.range e.caller = none := hp.outR _ hnin
    have hc0 : s.confirmed e.caller = 0 := hp.outC _ hnin
    unfold ticketsFor at htix
    rw [hrn] at htix
    simp only [Except.ok.injEq] at htix
    omega
  refine ⟨h.var, h.pricePos, h.tokNe, h.add, ?_, ?_, ?_, ?_⟩
  · intro t h1 h2
    show (s.bal.add s.payTok 0 (s.price * n)) t 0 = 0
    simp only [Bal.add, h1, false_and, if_false]
    exact h.balOther t h1 h2
  · intro hlt; exfalso; have : e.round < s.cfg.conf := hlt; omega
  · intro hst2; have := h.tlStarted hst2; exact ⟨by omega, by omega⟩
  · left
    refine ⟨L0, ⟨hp.notFiltered, hp.notSelected, hp.nrw, hp.status0, hp.pos0,
      ⟨hp.ok.nodup, hp.ok.pos, ?_⟩, ?_, hp.outR, ?_⟩,
      Or.inl ⟨ha.notStarted, ha.op, ha.chain, ha.last⟩⟩
    · intro p hp1
      show upd s.confirmed e.caller (s.confirmed e.caller + n) p.1 ≤ p.2
      by_cases hpe : p.1 = e.caller
      · rw [hpe, upd_same]
        exact hin (by rw [← hpe]; exact List.mem_map_of_mem hp1) p hp1 hpe
      · rw [upd_other _ _ _ _ hpe]; exact hp.ok.le p hp1
    · intro a ha1
      show upd s.confirmed e.caller (s.confirmed e.caller + n) a = 0
      by_cases hae : a = e.caller
      · subst hae
        obtain ⟨hn0, hc0⟩ := hout ha1
        rw [upd_same, hn0, hc0]
      · rw [upd_other _ _ _ _ hae]; exact hp.outC a ha1
    · show (s.bal.add s.payTok 0 (s.price * n)) s.payTok 0
        = s.price * sumOver (upd s.confirmed e.caller (s.confirmed e.caller + n)) (L0.map Prod.fst)
      have hpay : s.bal s.payTok 0 = s.price * sumOver s.confirmed (L0.map Prod.fst) := hp.pay
      simp only [Bal.add, and_self, if_true, hpay]
      by_cases hmem : e.caller ∈ L0.map Prod.fst
      · have := sumOver_upd_mem s.confirmed (L0.map Prod.fst) e.caller (s.confirmed e.caller + n)
          hp.ok.nodup hmem
        have e1 : sumOver (upd s.confirmed e.caller (s.confirmed e.caller + n)) (L0.map Prod.fst)
            = sumOver s.confirmed (L0.map Prod.fst) + n := by omega
        rw [e1, Nat.mul_add]
      · obtain ⟨hn0, _⟩ := hout hmem
        rw [sumOver_upd_not_mem _ _ _ _ hmem, hn0]; simp

/-! ### blacklist -/

theorem rb_sumOver_blacklist (l : List Nat) : ∀ (f : Nat → Nat) (L : List Nat), L.Nodup → l.Nodup →
    (∀ u ∈ l, u ∈ L) →
    sumOver (fun a => if a ∈ l then 0 else f a) L + (l.map f).sum = sumOver f L := by
  induction l with
  | nil => intro f L _ _ _; simp
  | cons u rest ih =>
    intro f L hL hl hsub
    rw [List.nodup_cons] at hl
    have hu : u ∈ L := hsub u (List.mem_cons_self ..)
    have h1 := sumOver_upd_mem f L u 0 hL hu
    have h2 := ih (upd f u 0) L hL hl.2 (fun x hx => hsub x (List.mem_cons_of_mem _ hx))
    have e1 : (fun a => if a ∈ u :: rest then 0 else f a)
        = (fun a => if a ∈ rest then 0 else upd f u 0 a) := by
      funext a
      by_cases hau : a = u
      · subst hau; simp [upd]
      · simp [upd, hau]
    have e2 : (rest.map (upd f u 0)).sum = (rest.map f).sum := by
      congr 1
      apply List.map_congr_left
      intro x hx
      have : x ≠ u := fun hh => hl.1 (hh ▸ hx)
      simp [upd, this]
    rw [e1]
    simp only [List.map_cons, List.sum_cons]
    rw [e2] at h2
    omega

theorem rb_blacklist {T0 : Nat} {hash : List Nat → List Nat} {s s' : State} {e : Env} {o : Out}
    {r : Nat} {l : List Nat} (h : WF T0 s r) (hr : r ≤ e.round)
    (hs : step hash s e (.blacklist l) = .ok (s', o)) : WF T0 s' e.round := by
  obtain ⟨t, hx, rfl⟩ := rb_step_np (by intro m hm; simp [endpointMeta] at hm; rw [← hm]) hs
  have hv1 : s.variant.isV2 = false := by rcases h.var with hv | hv <;> rw [hv] <;> rfl
  have hv2 : s.variant.v1Alloc = false := by rcases h.var with hv | hv <;> rw [hv] <;> rfl
  have hv3 : s.variant.hasNft = false := by rcases h.var with hv | hv <;> rw [hv] <;> rfl
  simp only [exec, bind_ok_iff] at hx
  obtain ⟨t1, h1, hx⟩ := hx
  obtain ⟨_, hstage, hnd, hall, hle, rfl⟩ := (addUsersToBlacklist_ok_iff _ _ _ _).mp h1
  have hvar : (blTx (rbTx s e) e l).s.variant = s.variant := rfl
  simp only [hvar, hv1, hv2, hv3, Bool.false_eq_true, if_false, pure_bind, pure_ok_iff] at hx
  subst hx
  simp only [rbTx_s] at hstage hall hle
  have hns : s.flags.started = false := by
    have hstage' : s.stage e = .addTickets ∨ s.stage e = .confirm := hstage
    rcases hstage' with h1 | h1
    · exact rb_notStarted_of_lt h hr (Or.inl (rb_stage_addTickets h1))
    · exact rb_notStarted_of_lt h hr (Or.inr (rb_stage_confirm h1).2)
  obtain ⟨L0, hp, ha⟩ := rb_phase_notStarted h.phase hns
  have hall' : ∀ u ∈ l, u ∈ L0.map Prod.fst := by
    intro u hu
    apply Classical.byContradiction
    intro hnin
    have h1 : s.range u = none := hp.outR u hnin
    have h2 := (hall u hu).2
    have h2' : (s.range u).isSome = true := h2
    rw [h1] at h2'; cases h2'
  have hle' : s.price * blConfSum s l ≤ s.bal s.payTok 0 := hle
  have hsum := rb_sumOver_blacklist l s.confirmed (L0.map Prod.fst) hp.ok.nodup hnd hall'
  show WF T0 (blState s l) e.round
  refine ⟨h.var, h.pricePos, h.tokNe, h.add, ?_, ?_, ?_, ?_⟩
  · intro t h1 h2
    show (s.bal.sub s.payTok 0 (s.price * blConfSum s l)) t 0 = 0
    have h1' : t ≠ s.payTok := h1
    simp only [Bal.sub, and_true]
    rw [if_neg h1']
    exact h.balOther t h1 h2
  · intro hlt a
    show (if a ∈ l then 0 else s.confirmed a) = 0
    split
    · rfl
    · exact h.tlConf (by have : e.round < s.cfg.conf := hlt; omega) a
  · intro hst2
    have := h.tlStarted hst2
    show s.cfg.conf ≤ e.round ∧ s.cfg.sel ≤ e.round
    omega
  · left
    refine ⟨L0, ⟨hp.notFiltered, hp.notSelected, hp.nrw, hp.status0, hp.pos0,
      ⟨hp.ok.nodup, hp.ok.pos, ?_⟩, ?_, hp.outR, ?_⟩,
      Or.inl ⟨ha.notStarted, ha.op, ha.chain, ha.last⟩⟩
    · intro p hp1
      show (if p.1 ∈ l then 0 else s.confirmed p.1) ≤ p.2
      split
      · omega
      · exact hp.ok.le p hp1
    · intro a ha1
      show (if a ∈ l then 0 else s.confirmed a) = 0
      split
      · rfl
      · exact hp.outC a ha1
    · show (s.bal.sub s.payTok 0 (s.price * blConfSum s l)) s.payTok 0
        = s.price * sumOver (fun a => if a ∈ l then 0 else s.confirmed a) (L0.map Prod.fst)
      have hpay : s.bal s.payTok 0 = s.price * sumOver s.confirmed (L0.map Prod.fst) := hp.pay
      simp only [Bal.sub, and_self, if_true]
      unfold blConfSum at hle' ⊢
      rw [hpay, ← hsum, Nat.mul_add]
      omega

end LP
