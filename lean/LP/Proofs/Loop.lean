import LP.Loop
/-
  LP.Proofs.Loop — generic facts about the gas-resumable loop `runWhile`:
  fuel monotonicity, budget irrelevance for the final state, resumption, chunked calls
  (`runCalls`), progress and error propagation.
-/
namespace LP

variable {σ : Type}

/-! ### one-step unfolding lemmas -/

theorem runWhile_zero (body : σ → Res (σ × Bool)) (b : Option Nat) (s : σ) :
    runWhile body 0 b s = .ok (s, b, .outOfFuel) := rfl

theorem runWhile_err {body : σ → Res (σ × Bool)} {s : σ} {e : Err}
    (h : body s = .error e) (f : Nat) (b : Option Nat) :
    runWhile body (f+1) b s = .error e := by
  simp only [runWhile, h]

theorem runWhile_stop {body : σ → Res (σ × Bool)} {s s' : σ}
    (h : body s = .ok (s', false)) (f : Nat) (b : Option Nat) :
    runWhile body (f+1) b s = .ok (s', b, .completed) := by
  simp only [runWhile, h]

theorem runWhile_cont_none {body : σ → Res (σ × Bool)} {s s' : σ}
    (h : body s = .ok (s', true)) (f : Nat) :
    runWhile body (f+1) none s = runWhile body f none s' := by
  simp only [runWhile, h]

theorem runWhile_cont_zero {body : σ → Res (σ × Bool)} {s s' : σ}
    (h : body s = .ok (s', true)) (f : Nat) :
    runWhile body (f+1) (some 0) s = .ok (s', some 0, .interrupted) := by
  simp only [runWhile, h]

theorem runWhile_cont_succ {body : σ → Res (σ × Bool)} {s s' : σ}
    (h : body s = .ok (s', true)) (f k : Nat) :
    runWhile body (f+1) (some (k+1)) s = runWhile body f (some k) s' := by
  simp only [runWhile, h]

/-! ### A1 fuel monotonicity -/

theorem runWhile_fuel_mono (body : σ → Res (σ × Bool)) :
    ∀ (f : Nat) (b : Option Nat) (s s' : σ) (b' : Option Nat) (st : LoopStatus),
      runWhile body f b s = .ok (s', b', st) → st ≠ .outOfFuel →
      ∀ f', f ≤ f' → runWhile body f' b s = .ok (s', b', st) := by
  intro f
  induction f with
  | zero =>
    intro b s s' b' st h hst
    rw [runWhile_zero] at h
    injection h with h
    simp only [Prod.mk.injEq] at h
    exact absurd h.2.2.symm hst
  | succ f ih =>
    intro b s s' b' st h hst f' hf
    obtain ⟨f'', rfl⟩ : ∃ f'', f' = f'' + 1 := ⟨f' - 1, by omega⟩
    have hf' : f ≤ f'' := by omega
    cases hb : body s with
    | error e => rw [runWhile_err hb] at h; cases h
    | ok p =>
      obtain ⟨s1, c⟩ := p
      cases c with
      | false =>
        rw [runWhile_stop hb] at h
        rw [runWhile_stop hb]; exact h
      | true =>
        cases b with
        | none =>
          rw [runWhile_cont_none hb] at h
          rw [runWhile_cont_none hb]; exact ih _ _ _ _ _ h hst _ hf'
        | some k =>
          cases k with
          | zero =>
            rw [runWhile_cont_zero hb] at h
            rw [runWhile_cont_zero hb]; exact h
          | succ k =>
            rw [runWhile_cont_succ hb] at h
            rw [runWhile_cont_succ hb]; exact ih _ _ _ _ _ h hst _ hf'

/-- the budget returned by an unbudgeted run is `none` -/
theorem runWhile_none_budget (body : σ → Res (σ × Bool)) :
    ∀ (f : Nat) (s s' : σ) (b' : Option Nat) (st : LoopStatus),
      runWhile body f none s = .ok (s', b', st) → b' = none ∧ st ≠ .interrupted := by
  intro f
  induction f with
  | zero =>
    intro s s' b' st h
    rw [runWhile_zero] at h
    injection h with h
    simp only [Prod.mk.injEq] at h
    exact ⟨h.2.1.symm, by rw [← h.2.2]; decide⟩
  | succ f ih =>
    intro s s' b' st h
    cases hb : body s with
    | error e => rw [runWhile_err hb] at h; cases h
    | ok p =>
      obtain ⟨s1, c⟩ := p
      cases c with
      | false =>
        rw [runWhile_stop hb] at h
        injection h with h
        simp only [Prod.mk.injEq] at h
        exact ⟨h.2.1.symm, by rw [← h.2.2]; decide⟩
      | true =>
        rw [runWhile_cont_none hb] at h
        exact ih _ _ _ _ h

/-! ### A2 a completed budgeted run is a completed unbudgeted run -/

theorem runWhile_completed_any_budget (body : σ → Res (σ × Bool)) :
    ∀ (f : Nat) (b : Option Nat) (s s' : σ) (b' : Option Nat),
      runWhile body f b s = .ok (s', b', .completed) →
      runWhile body f none s = .ok (s', none, .completed) := by
  intro f
  induction f with
  | zero =>
    intro b s s' b' h
    rw [runWhile_zero] at h
    injection h with h
    simp only [Prod.mk.injEq] at h
    exact absurd h.2.2 (by decide)
  | succ f ih =>
    intro b s s' b' h
    cases hb : body s with
    | error e => rw [runWhile_err hb] at h; cases h
    | ok p =>
      obtain ⟨s1, c⟩ := p
      cases c with
      | false =>
        rw [runWhile_stop hb] at h
        rw [runWhile_stop hb]
        injection h with h
        simp only [Prod.mk.injEq] at h
        rw [h.1]
      | true =>
        rw [runWhile_cont_none hb]
        cases b with
        | none =>
          rw [runWhile_cont_none hb] at h
          exact ih _ _ _ _ h
        | some k =>
          cases k with
          | zero =>
            rw [runWhile_cont_zero hb] at h
            injection h with h
            simp only [Prod.mk.injEq] at h
            exact absurd h.2.2 (by decide)
          | succ k =>
            rw [runWhile_cont_succ hb] at h
            exact ih _ _ _ _ h

theorem runWhile_completed_budget (body : σ → Res (σ × Bool))
    (f k : Nat) (s s' : σ) (b' : Option Nat)
    (h : runWhile body f (some k) s = .ok (s', b', .completed)) :
    runWhile body f none s = .ok (s', none, .completed) :=
  runWhile_completed_any_budget body f (some k) s s' b' h

/-- errors are fuel-monotone -/
theorem runWhile_error_mono (body : σ → Res (σ × Bool)) :
    ∀ (f : Nat) (b : Option Nat) (s : σ) (e : Err),
      runWhile body f b s = .error e → ∀ f', f ≤ f' → runWhile body f' b s = .error e := by
  intro f
  induction f with
  | zero => intro b s e h; rw [runWhile_zero] at h; cases h
  | succ f ih =>
    intro b s e h f' hf
    obtain ⟨f'', rfl⟩ : ∃ f'', f' = f'' + 1 := ⟨f' - 1, by omega⟩
    have hf' : f ≤ f'' := by omega
    cases hb : body s with
    | error e' => rw [runWhile_err hb] at h; rw [runWhile_err hb]; exact h
    | ok p =>
      obtain ⟨s1, c⟩ := p
      cases c with
      | false => rw [runWhile_stop hb] at h; cases h
      | true =>
        cases b with
        | none =>
          rw [runWhile_cont_none hb] at h
          rw [runWhile_cont_none hb]; exact ih _ _ _ h _ hf'
        | some k =>
          cases k with
          | zero => rw [runWhile_cont_zero hb] at h; cases h
          | succ k =>
            rw [runWhile_cont_succ hb] at h
            rw [runWhile_cont_succ hb]; exact ih _ _ _ h _ hf'


/-- a failing budgeted call fails without budget as well (same error, same fuel) -/
theorem runWhile_error_any_budget (body : σ → Res (σ × Bool)) :
    ∀ (f : Nat) (b : Option Nat) (s : σ) (e : Err),
      runWhile body f b s = .error e → runWhile body f none s = .error e := by
  intro f
  induction f with
  | zero => intro b s e h; rw [runWhile_zero] at h; cases h
  | succ f ih =>
    intro b s e h
    cases hb : body s with
    | error e' => rw [runWhile_err hb] at h; rw [runWhile_err hb]; exact h
    | ok p =>
      obtain ⟨s1, c⟩ := p
      cases c with
      | false => rw [runWhile_stop hb] at h; cases h
      | true =>
        rw [runWhile_cont_none hb]
        cases b with
        | none => rw [runWhile_cont_none hb] at h; exact h
        | some k =>
          cases k with
          | zero => rw [runWhile_cont_zero hb] at h; cases h
          | succ k => rw [runWhile_cont_succ hb] at h; exact ih _ _ _ h

/-! ### A3 resumption -/

/-- generic "interrupted prefix ++ unbudgeted suffix" composition: whatever the suffix returns
    (value or error), the single unbudgeted run with fuel `f + f2` returns the same, provided
    the suffix did not run out of fuel. -/
theorem runWhile_resume_gen (body : σ → Res (σ × Bool)) (f2 : Nat)
    (r : Res (σ × Option Nat × LoopStatus)) (hr : ∀ x y, r ≠ .ok (x, y, .outOfFuel)) :
    ∀ (f k : Nat) (s s1 : σ) (b1 : Option Nat),
      runWhile body f (some k) s = .ok (s1, b1, .interrupted) →
      runWhile body f2 none s1 = r →
      runWhile body (f + f2) none s = r := by
  intro f
  induction f with
  | zero =>
    intro k s s1 b1 h
    rw [runWhile_zero] at h
    injection h with h
    simp only [Prod.mk.injEq] at h
    exact absurd h.2.2 (by decide)
  | succ f ih =>
    intro k s s1 b1 h h2
    have e : f + 1 + f2 = (f + f2) + 1 := by omega
    rw [e]
    cases hb : body s with
    | error e => rw [runWhile_err hb] at h; cases h
    | ok p =>
      obtain ⟨s', c⟩ := p
      cases c with
      | false =>
        rw [runWhile_stop hb] at h
        injection h with h
        simp only [Prod.mk.injEq] at h
        exact absurd h.2.2 (by decide)
      | true =>
        rw [runWhile_cont_none hb]
        cases k with
        | zero =>
          rw [runWhile_cont_zero hb] at h
          injection h with h
          simp only [Prod.mk.injEq] at h
          obtain ⟨rfl, _, _⟩ := h
          -- suffix with more fuel
          subst h2
          cases hres : runWhile body f2 none s' with
          | error e =>
            -- errors are fuel-monotone as well
            exact runWhile_error_mono body f2 none s' e hres (f + f2) (by omega)
          | ok q =>
            obtain ⟨x, y, st⟩ := q
            have hst : st ≠ .outOfFuel := by
              intro hh; subst hh; exact hr x y hres
            exact runWhile_fuel_mono body f2 none s' x y st hres hst (f + f2) (by omega)
        | succ k =>
          rw [runWhile_cont_succ hb] at h
          exact ih _ _ _ _ h h2


/-- A3: an interrupted call followed by an unbudgeted completed call is one unbudgeted
    completed call (with fuel `f + f2`). -/
theorem runWhile_resume (body : σ → Res (σ × Bool)) (f f2 k : Nat) (s s1 sf : σ)
    (b1 : Option Nat)
    (h1 : runWhile body f (some k) s = .ok (s1, b1, .interrupted))
    (h2 : runWhile body f2 none s1 = .ok (sf, none, .completed)) :
    runWhile body (f + f2) none s = .ok (sf, none, .completed) :=
  runWhile_resume_gen body f2 _ (by intro x y h; cases h) f k s s1 b1 h1 h2

/-! ### A5 errors -/

/-- an interrupted call followed by an unbudgeted failing call is one unbudgeted failing call
    (same error). -/
theorem runWhile_resume_error (body : σ → Res (σ × Bool)) (f f2 k : Nat) (s s1 : σ)
    (b1 : Option Nat) (e : Err)
    (h1 : runWhile body f (some k) s = .ok (s1, b1, .interrupted))
    (h2 : runWhile body f2 none s1 = .error e) :
    runWhile body (f + f2) none s = .error e :=
  runWhile_resume_gen body f2 _ (by intro x y h; cases h) f k s s1 b1 h1 h2

/-! ### A4 iterations, chunked calls -/

/-- `loopIter body n s`: `n` successive applications of the body, all of which say CONTINUE. -/
def loopIter (body : σ → Res (σ × Bool)) : Nat → σ → Option σ
  | 0, s => some s
  | n+1, s =>
    match body s with
    | .ok (s', true) => loopIter body n s'
    | _ => none

theorem loopIter_cont {body : σ → Res (σ × Bool)} {s s' : σ}
    (h : body s = .ok (s', true)) (n : Nat) : loopIter body (n+1) s = loopIter body n s' := by
  simp only [loopIter, h]

/-- an interrupted call with budget `k` performed exactly `k+1` iterations (and returns the
    exhausted budget `some 0`). -/
theorem runWhile_interrupted_loopIter (body : σ → Res (σ × Bool)) :
    ∀ (f k : Nat) (s s1 : σ) (b1 : Option Nat),
      runWhile body f (some k) s = .ok (s1, b1, .interrupted) →
      loopIter body (k+1) s = some s1 ∧ b1 = some 0 ∧ k + 1 ≤ f := by
  intro f
  induction f with
  | zero =>
    intro k s s1 b1 h
    rw [runWhile_zero] at h
    injection h with h
    simp only [Prod.mk.injEq] at h
    exact absurd h.2.2 (by decide)
  | succ f ih =>
    intro k s s1 b1 h
    cases hb : body s with
    | error e => rw [runWhile_err hb] at h; cases h
    | ok p =>
      obtain ⟨s', c⟩ := p
      cases c with
      | false =>
        rw [runWhile_stop hb] at h
        injection h with h
        simp only [Prod.mk.injEq] at h
        exact absurd h.2.2 (by decide)
      | true =>
        rw [loopIter_cont hb]
        cases k with
        | zero =>
          rw [runWhile_cont_zero hb] at h
          injection h with h
          simp only [Prod.mk.injEq] at h
          obtain ⟨rfl, rfl, _⟩ := h
          exact ⟨rfl, rfl, by omega⟩
        | succ k =>
          rw [runWhile_cont_succ hb] at h
          obtain ⟨h1, h2, h3⟩ := ih _ _ _ _ h
          exact ⟨h1, h2, by omega⟩

/-- a completed unbudgeted run = some number `n < fuel` of CONTINUE iterations followed by a
    STOP iteration. -/
theorem runWhile_completed_iff_loopIter (body : σ → Res (σ × Bool)) :
    ∀ (f : Nat) (s sf : σ),
      runWhile body f none s = .ok (sf, none, .completed) ↔
      ∃ n, n < f ∧ ∃ s', loopIter body n s = some s' ∧ body s' = .ok (sf, false) := by
  intro f
  induction f with
  | zero =>
    intro s sf
    constructor
    · intro h
      rw [runWhile_zero] at h
      injection h with h
      simp only [Prod.mk.injEq] at h
      exact absurd h.2.2 (by decide)
    · rintro ⟨n, hn, _⟩; omega
  | succ f ih =>
    intro s sf
    cases hb : body s with
    | error e =>
      rw [runWhile_err hb]
      constructor
      · intro h; cases h
      · rintro ⟨n, hn, s', hi, hs⟩
        cases n with
        | zero => simp only [loopIter, Option.some.injEq] at hi; subst hi; rw [hb] at hs; cases hs
        | succ n => simp only [loopIter, hb] at hi; cases hi
    | ok p =>
      obtain ⟨s1, c⟩ := p
      cases c with
      | false =>
        rw [runWhile_stop hb]
        constructor
        · intro h
          injection h with h
          simp only [Prod.mk.injEq] at h
          exact ⟨0, by omega, s, rfl, by rw [hb, h.1]⟩
        · rintro ⟨n, hn, s', hi, hs⟩
          cases n with
          | zero =>
            simp only [loopIter, Option.some.injEq] at hi; subst hi; rw [hb] at hs
            injection hs with hs
            simp only [Prod.mk.injEq] at hs
            rw [hs.1]
          | succ n => simp only [loopIter, hb] at hi; cases hi
      | true =>
        rw [runWhile_cont_none hb, ih]
        constructor
        · rintro ⟨n, hn, s', hi, hs⟩
          exact ⟨n+1, by omega, s', by rw [loopIter_cont hb]; exact hi, hs⟩
        · rintro ⟨n, hn, s', hi, hs⟩
          cases n with
          | zero =>
            simp only [loopIter, Option.some.injEq] at hi; subst hi; rw [hb] at hs
            injection hs with hs
            simp only [Prod.mk.injEq] at hs
            exact absurd hs.2 (by decide)
          | succ n =>
            rw [loopIter_cont hb] at hi
            exact ⟨n, by omega, s', hi, hs⟩

def outOfGas : Err := .vm "out of gas"

/-- successive calls with budgets `k₁, k₂, …`, each resuming from the state the previous call
    left; stops at the first completed call.  The Bool says whether a call completed. -/
def runCalls (body : σ → Res (σ × Bool)) (fuel : Nat) : List Nat → σ → Res (σ × Bool)
  | [], s => .ok (s, false)
  | k :: ks, s =>
    match runWhile body fuel (some k) s with
    | .error e => .error e
    | .ok (s', _, .completed) => .ok (s', true)
    | .ok (s', _, .interrupted) => runCalls body fuel ks s'
    | .ok (_, _, .outOfFuel) => .error outOfGas

theorem runCalls_cons_completed {body : σ → Res (σ × Bool)} {fuel k : Nat} {s s' : σ}
    {b : Option Nat} (h : runWhile body fuel (some k) s = .ok (s', b, .completed))
    (ks : List Nat) : runCalls body fuel (k :: ks) s = .ok (s', true) := by
  simp only [runCalls, h]

theorem runCalls_cons_interrupted {body : σ → Res (σ × Bool)} {fuel k : Nat} {s s' : σ}
    {b : Option Nat} (h : runWhile body fuel (some k) s = .ok (s', b, .interrupted))
    (ks : List Nat) : runCalls body fuel (k :: ks) s = runCalls body fuel ks s' := by
  simp only [runCalls, h]

theorem runCalls_cons_outOfFuel {body : σ → Res (σ × Bool)} {fuel k : Nat} {s s' : σ}
    {b : Option Nat} (h : runWhile body fuel (some k) s = .ok (s', b, .outOfFuel))
    (ks : List Nat) : runCalls body fuel (k :: ks) s = .error outOfGas := by
  simp only [runCalls, h]

theorem runCalls_cons_error {body : σ → Res (σ × Bool)} {fuel k : Nat} {s : σ} {e : Err}
    (h : runWhile body fuel (some k) s = .error e)
    (ks : List Nat) : runCalls body fuel (k :: ks) s = .error e := by
  simp only [runCalls, h]

/-- A4 (explicit fuel): a completing sequence of chunked calls computes the state of the single
    unbudgeted run. -/
theorem runCalls_eq_single_fuel (body : σ → Res (σ × Bool)) (fuel : Nat) :
    ∀ (ks : List Nat) (s sf : σ), runCalls body fuel ks s = .ok (sf, true) →
      runWhile body (fuel * ks.length) none s = .ok (sf, none, .completed) := by
  intro ks
  induction ks with
  | nil =>
    intro s sf h
    simp only [runCalls] at h
    injection h with h
    simp only [Prod.mk.injEq] at h
    exact absurd h.2 (by decide)
  | cons k ks ih =>
    intro s sf h
    have hlen : fuel * (k :: ks).length = fuel + fuel * ks.length := by
      simp only [List.length_cons, Nat.mul_succ]; omega
    rw [hlen]
    cases hr : runWhile body fuel (some k) s with
    | error e => rw [runCalls_cons_error hr] at h; cases h
    | ok q =>
      obtain ⟨s1, b1, st⟩ := q
      cases st with
      | completed =>
        rw [runCalls_cons_completed hr] at h
        injection h with h
        simp only [Prod.mk.injEq] at h
        have := runWhile_completed_budget body fuel k s s1 b1 hr
        rw [← h.1]
        exact runWhile_fuel_mono body fuel none s s1 none .completed this (by decide) _ (by omega)
      | interrupted =>
        rw [runCalls_cons_interrupted hr] at h
        exact runWhile_resume body fuel _ k s s1 sf b1 hr (ih _ _ h)
      | outOfFuel => rw [runCalls_cons_outOfFuel hr] at h; cases h

theorem runCalls_eq_single (body : σ → Res (σ × Bool)) (fuel : Nat) (ks : List Nat) (s sf : σ)
    (h : runCalls body fuel ks s = .ok (sf, true)) :
    ∃ f, runWhile body f none s = .ok (sf, none, .completed) :=
  ⟨_, runCalls_eq_single_fuel body fuel ks s sf h⟩

/-- two unbudgeted completed runs (any fuels) agree -/
theorem runWhile_completed_unique (body : σ → Res (σ × Bool)) (f f' : Nat) (s sf sf' : σ)
    (h : runWhile body f none s = .ok (sf, none, .completed))
    (h' : runWhile body f' none s = .ok (sf', none, .completed)) : sf = sf' := by
  have a := runWhile_fuel_mono body f none s sf none .completed h (by decide) (f + f') (by omega)
  have b := runWhile_fuel_mono body f' none s sf' none .completed h' (by decide) (f + f') (by omega)
  rw [a] at b
  injection b with b
  simp only [Prod.mk.injEq] at b
  exact b.1

/-- A4 determinism: the final state does not depend on the budget schedule (nor on the fuel
    bounds used by the individual calls). -/
theorem runCalls_deterministic (body : σ → Res (σ × Bool)) (fuel fuel' : Nat)
    (ks ks' : List Nat) (s sf sf' : σ)
    (h : runCalls body fuel ks s = .ok (sf, true))
    (h' : runCalls body fuel' ks' s = .ok (sf', true)) : sf = sf' :=
  runWhile_completed_unique body _ _ s sf sf'
    (runCalls_eq_single_fuel body fuel ks s sf h)
    (runCalls_eq_single_fuel body fuel' ks' s sf' h')

/-! ### progress -/

/-- one call of a run that would complete within `N` iterations: it either completes (same
    state) or is interrupted after exactly `k+1` iterations, leaving `N-(k+1)` to do. -/
theorem runWhile_call_progress (body : σ → Res (σ × Bool)) :
    ∀ (N : Nat) (s sf : σ), runWhile body N none s = .ok (sf, none, .completed) →
      ∀ (k fuel : Nat), N ≤ fuel →
        (∃ b', runWhile body fuel (some k) s = .ok (sf, b', .completed)) ∨
        (∃ s1, runWhile body fuel (some k) s = .ok (s1, some 0, .interrupted) ∧
               loopIter body (k+1) s = some s1 ∧ k + 1 < N ∧
               runWhile body (N - (k+1)) none s1 = .ok (sf, none, .completed)) := by
  intro N
  induction N with
  | zero =>
    intro s sf h
    rw [runWhile_zero] at h
    injection h with h
    simp only [Prod.mk.injEq] at h
    exact absurd h.2.2 (by decide)
  | succ N ih =>
    intro s sf h k fuel hf
    obtain ⟨fuel', rfl⟩ : ∃ f'', fuel = f'' + 1 := ⟨fuel - 1, by omega⟩
    cases hb : body s with
    | error e => rw [runWhile_err hb] at h; cases h
    | ok p =>
      obtain ⟨s', c⟩ := p
      cases c with
      | false =>
        rw [runWhile_stop hb] at h
        injection h with h
        simp only [Prod.mk.injEq] at h
        left
        exact ⟨some k, by rw [runWhile_stop hb, h.1]⟩
      | true =>
        rw [runWhile_cont_none hb] at h
        have hN : 0 < N := by
          cases N with
          | zero =>
            rw [runWhile_zero] at h
            injection h with h
            simp only [Prod.mk.injEq] at h
            exact absurd h.2.2 (by decide)
          | succ n => omega
        rw [loopIter_cont hb]
        cases k with
        | zero =>
          right
          refine ⟨s', runWhile_cont_zero hb _, rfl, by omega, ?_⟩
          simpa using h
        | succ k =>
          rw [runWhile_cont_succ hb]
          rcases ih s' sf h k fuel' (by omega) with hc | ⟨s1, h1, h2, h3, h4⟩
          · left; exact hc
          · right
            refine ⟨s1, h1, h2, by omega, ?_⟩
            have : N + 1 - (k + 1 + 1) = N - (k + 1) := by omega
            rw [this]; exact h4

/-- total number of iterations a budget schedule allows -/
def budgetIters (ks : List Nat) : Nat := (ks.map (· + 1)).sum

theorem length_le_budgetIters (ks : List Nat) : ks.length ≤ budgetIters ks := by
  induction ks with
  | nil => simp [budgetIters]
  | cons k ks ih =>
    simp only [budgetIters, List.map_cons, List.sum_cons, List.length_cons] at *
    omega

/-- A4 progress: if the unbudgeted run completes within `N` iterations, every budget schedule
    that allows at least `N` iterations in total completes with the same state (each call needs
    fuel ≥ N, i.e. the call-local fuel bound must not be the limiting factor). -/
theorem runCalls_completes_of_budgetIters (body : σ → Res (σ × Bool)) (fuel : Nat) :
    ∀ (ks : List Nat) (N : Nat) (s sf : σ),
      runWhile body N none s = .ok (sf, none, .completed) → N ≤ fuel → N ≤ budgetIters ks →
      runCalls body fuel ks s = .ok (sf, true) := by
  intro ks
  induction ks with
  | nil =>
    intro N s sf h _ hN
    simp only [budgetIters, List.map_nil, List.sum_nil, Nat.le_zero_eq] at hN
    subst hN
    rw [runWhile_zero] at h
    injection h with h
    simp only [Prod.mk.injEq] at h
    exact absurd h.2.2 (by decide)
  | cons k ks ih =>
    intro N s sf h hf hN
    rcases runWhile_call_progress body N s sf h k fuel hf with ⟨b', hc⟩ | ⟨s1, h1, _, h3, h4⟩
    · exact runCalls_cons_completed hc ks
    · rw [runCalls_cons_interrupted h1]
      apply ih (N - (k+1)) s1 sf h4 (by omega)
      simp only [budgetIters, List.map_cons, List.sum_cons] at hN ⊢
      omega

/-- the step cannot be left stuck: `N` calls (whatever their budgets, even all `0`) suffice. -/
theorem runCalls_completes_of_length (body : σ → Res (σ × Bool)) (fuel : Nat)
    (ks : List Nat) (N : Nat) (s sf : σ)
    (h : runWhile body N none s = .ok (sf, none, .completed)) (hf : N ≤ fuel)
    (hN : N ≤ ks.length) : runCalls body fuel ks s = .ok (sf, true) :=
  runCalls_completes_of_budgetIters body fuel ks N s sf h hf
    (Nat.le_trans hN (length_le_budgetIters ks))

/-! ### errors in chunked runs -/

/-- if a chunked run fails, the failure is either the failure of the single unbudgeted run
    (same error) or a call-local fuel exhaustion. -/
theorem runCalls_error (body : σ → Res (σ × Bool)) (fuel : Nat) :
    ∀ (ks : List Nat) (s : σ) (e : Err), runCalls body fuel ks s = .error e →
      runWhile body (fuel * ks.length) none s = .error e ∨ e = outOfGas := by
  intro ks
  induction ks with
  | nil => intro s e h; simp only [runCalls] at h; cases h
  | cons k ks ih =>
    intro s e h
    have hlen : fuel * (k :: ks).length = fuel + fuel * ks.length := by
      simp only [List.length_cons, Nat.mul_succ]; omega
    rw [hlen]
    cases hr : runWhile body fuel (some k) s with
    | error e' =>
      rw [runCalls_cons_error hr] at h
      injection h with h
      subst h
      left
      -- a failing budgeted call fails without budget as well
      exact runWhile_error_mono body fuel none s e' (runWhile_error_any_budget body fuel _ s e' hr)
        _ (by omega)
    | ok q =>
      obtain ⟨s1, b1, st⟩ := q
      cases st with
      | completed => rw [runCalls_cons_completed hr] at h; cases h
      | interrupted =>
        rw [runCalls_cons_interrupted hr] at h
        rcases ih _ _ h with h2 | h2
        · left; exact runWhile_resume_error body fuel _ k s s1 b1 e hr h2
        · right; exact h2
      | outOfFuel =>
        rw [runCalls_cons_outOfFuel hr] at h
        injection h with h
        right; exact h.symm

/-- a run that completes without budget never fails when chunked: every prefix of calls returns
    normally (completed with the same state, or still in progress), provided the call-local
    fuel covers the `N` iterations. -/
theorem runCalls_no_error (body : σ → Res (σ × Bool)) (fuel : Nat) :
    ∀ (ks : List Nat) (N : Nat) (s sf : σ),
      runWhile body N none s = .ok (sf, none, .completed) → N ≤ fuel →
      runCalls body fuel ks s = .ok (sf, true) ∨ ∃ s', runCalls body fuel ks s = .ok (s', false) := by
  intro ks
  induction ks with
  | nil => intro N s sf _ _; exact Or.inr ⟨s, rfl⟩
  | cons k ks ih =>
    intro N s sf h hf
    rcases runWhile_call_progress body N s sf h k fuel hf with ⟨b', hc⟩ | ⟨s1, h1, _, _, h4⟩
    · exact Or.inl (runCalls_cons_completed hc ks)
    · rw [runCalls_cons_interrupted h1]
      exact ih (N - (k+1)) s1 sf h4 (by omega)

end LP
