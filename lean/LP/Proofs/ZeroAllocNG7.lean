import LP.Proofs.ZeroAllocNG5
/-
  LP.Proofs.ZeroAllocNG7 — what `secondary` and `filter` leave alone: the guarantee records are not
  written, the whitelist only shrinks.
-/
namespace LP
open LP.FY

theorem zc_nftSubstep_fr {hash : List Nat → List Nat} {t t' : Tx} {rng rng' : Rng} {st : LoopStatus}
    (h : nftSubstep hash t rng = .ok (t', rng', st)) :
    t'.s.uts = t.s.uts ∧ t'.s.whitelist = t.s.whitelist := by
  unfold nftSubstep at h
  simp only [bind_ok_iff, Prod.exists] at h
  obtain ⟨x, b, st0, hrun, hrest⟩ := h
  have hx : x.tx.s = t.s := runWhile_nftBody_tx_s hrun
  cases st0 with
  | outOfFuel => cases hrest
  | interrupted =>
    simp only [pure_ok_iff, Prod.mk.injEq] at hrest
    obtain ⟨rfl, _, _⟩ := hrest
    show x.tx.s.uts = _ ∧ x.tx.s.whitelist = _
    rw [hx]; exact ⟨rfl, rfl⟩
  | completed =>
    simp only [pure_ok_iff, Prod.mk.injEq] at hrest
    obtain ⟨rfl, _, _⟩ := hrest
    show x.tx.s.uts = _ ∧ x.tx.s.whitelist = _
    rw [hx]; exact ⟨rfl, rfl⟩

theorem zc_guaranteedSubstep_fr {hash : List Nat → List Nat} {t t' : Tx} {g g' : GuarOp} {st : LoopStatus}
    (h : guaranteedSubstep hash t g = .ok (t', g', st)) :
    t'.s.uts = t.s.uts ∧ ∀ u, u ∈ t'.s.whitelist → u ∈ t.s.whitelist := by
  unfold guaranteedSubstep at h
  simp only [bind_ok_iff, Prod.exists] at h
  obtain ⟨x, b, st1, hrun1, h⟩ := h
  have hxw : ∀ u, u ∈ x.whitelist → u ∈ t.s.whitelist :=
    runWhile_preserves (fun y : GSt => ∀ u, u ∈ y.whitelist → u ∈ t.s.whitelist) (guarBody t.s)
      (fun y y' c hb hp u hu => hp u (zc_guarBody_wl t.s hb u hu)) _ _ _ _ _ _ hrun1 (fun u hu => hu)
  cases st1 with
  | outOfFuel => cases h
  | interrupted =>
    simp only [pure_ok_iff] at h
    injection h with h1 h2
    subst h1
    exact ⟨rfl, hxw⟩
  | completed =>
    simp only [bind_ok_iff, Prod.exists] at h
    obtain ⟨y, b2, st2, hrun, h⟩ := h
    have hy := runWhile_leftoverBody_tx_s hrun
    cases st2 with
    | outOfFuel => cases h
    | interrupted =>
      simp only [pure_ok_iff] at h
      injection h with h1 h2
      subst h1
      show y.tx.s.uts = _ ∧ ∀ u, u ∈ y.tx.s.whitelist → _
      rw [hy]; exact ⟨rfl, hxw⟩
    | completed =>
      simp only [pure_ok_iff] at h
      injection h with h1 h2
      subst h1
      show y.tx.s.uts = _ ∧ ∀ u, u ∈ y.tx.s.whitelist → _
      rw [hy]; exact ⟨rfl, hxw⟩

theorem zc_tail_fr {hash : List Nat → List Nat} {p : Tx × Rng} {t' : Tx} (h : zc_tail hash p = .ok t') :
    t'.s.uts = p.1.s.uts ∧ t'.s.whitelist = p.1.s.whitelist := by
  unfold zc_tail at h
  simp only [bind_ok_iff] at h
  obtain ⟨⟨t1, r1, st1⟩, hsub, hfin⟩ := h
  have := zc_nftSubstep_fr hsub
  cases st1 <;> (simp only [pure_ok_iff] at hfin; subst hfin; exact this)

def zc_sumTx : Sum Tx (Tx × Rng) → Tx
  | .inl t => t
  | .inr p => p.1

theorem zc_stage1_fr {hash : List Nat → List Nat} {t : Tx} {g : GuarOp} {r : Sum Tx (Tx × Rng)}
    (h : zc_stage1 hash t g = .ok r) :
    (zc_sumTx r).s.uts = t.s.uts ∧ ∀ u, u ∈ (zc_sumTx r).s.whitelist → u ∈ t.s.whitelist := by
  unfold zc_stage1 at h
  simp only [bind_ok_iff] at h
  obtain ⟨⟨t1, g1, st1⟩, hsub, hfin⟩ := h
  have hfr := zc_guaranteedSubstep_fr hsub
  cases st1 with
  | completed =>
    simp only [pure_ok_iff] at hfin
    subst hfin
    show (t1.setS _).freshRng.2.s.uts = _ ∧ ∀ u, u ∈ (t1.setS _).freshRng.2.s.whitelist → _
    rw [Tx.freshRng_s]
    exact hfr
  | interrupted =>
    simp only [pure_ok_iff] at hfin
    subst hfin
    exact hfr
  | outOfFuel =>
    simp only [pure_ok_iff] at hfin
    subst hfin
    exact hfr

theorem zc_secBody_fr {hash : List Nat → List Nat} {t t' : Tx} (h : zc_secBody hash t = .ok t') :
    t'.s.uts = t.s.uts ∧ ∀ u, u ∈ t'.s.whitelist → u ∈ t.s.whitelist := by
  have tailc : ∀ (st1 : Sum Tx (Tx × Rng)),
      ((zc_sumTx st1).s.uts = t.s.uts ∧ ∀ u, u ∈ (zc_sumTx st1).s.whitelist → u ∈ t.s.whitelist) →
      ((match st1 with
        | .inl t => pure t
        | .inr p => zc_tail hash p) : Res Tx) = .ok t' →
      t'.s.uts = t.s.uts ∧ ∀ u, u ∈ t'.s.whitelist → u ∈ t.s.whitelist := by
    intro st1 hm hf
    cases st1 with
    | inl t1 =>
      simp only [pure_ok_iff] at hf
      subst hf
      exact hm
    | inr p =>
      obtain ⟨k1, k2⟩ := zc_tail_fr hf
      exact ⟨k1.trans hm.1, fun u hu => hm.2 u (by show u ∈ p.1.s.whitelist; rw [← k2]; exact hu)⟩
  unfold zc_secBody at h
  cases hop : t.s.op with
  | none =>
    rw [hop] at h
    simp only [pure_bind, bind_ok_iff] at h
    obtain ⟨st1, h1, h2⟩ := h
    have := zc_stage1_fr h1
    rw [Tx.freshRng_s] at this
    exact tailc st1 this h2
  | additional d =>
    rw [hop] at h
    cases d with
    | nft r =>
      simp only [pure_bind] at h
      exact tailc (Sum.inr (t, r)) ⟨rfl, fun u hu => hu⟩ h
    | guar g =>
      simp only [pure_bind, bind_ok_iff] at h
      obtain ⟨st1, h1, h2⟩ := h
      exact tailc st1 (zc_stage1_fr h1) h2
  | filter _ _ => rw [hop] at h; cases h
  | select _ _ => rw [hop] at h; cases h

/-- `secondary` does not write the guarantee records; the whitelist only shrinks -/
theorem zc_secondary_fr {hash : List Nat → List Nat} {t t' : Tx} {e : Env}
    (h : secondary hash t e = .ok t') :
    t'.s.uts = t.s.uts ∧ ∀ u, u ∈ t'.s.whitelist → u ∈ t.s.whitelist := by
  rw [zc_secondary_eq] at h
  simp only [bind_ok_iff] at h
  obtain ⟨_, _, _, _, _, _, h⟩ := h
  exact zc_secBody_fr h


/-- `filter` does not write the guarantee records nor the whitelist -/
theorem zc_filterTickets_fr {t t' : Tx} {e : Env} (h : filterTickets t e = .ok t') :
    t'.s.uts = t.s.uts ∧ t'.s.whitelist = t.s.whitelist := by
  obtain ⟨hpre, x, hxs⟩ := filterTickets_inv t t' e h
  cases hrun : runWhile (filterBody t.s.confirmed t.s.lastTicketId) (t.s.lastTicketId + 2)
      t.c.budget x with
  | error err =>
    have := filterTickets_error t e x err hpre hxs hrun
    rw [this] at h; cases h
  | ok q =>
    obtain ⟨f, b, st⟩ := q
    cases st with
    | outOfFuel =>
      have := filterTickets_outOfFuel t e x f b hpre hxs hrun
      rw [this] at h; cases h
    | interrupted =>
      have h1 := filterTickets_interrupted t e x f b hpre hxs hrun
      rw [h1] at h
      injection h with h
      subst h
      exact ⟨rfl, rfl⟩
    | completed =>
      by_cases hle : f.removed ≤ t.s.lastTicketId
      · have h1 := filterTickets_completed t e x f b hpre hxs hrun hle
        rw [h1] at h
        injection h with h
        subst h
        exact ⟨rfl, rfl⟩
      · obtain ⟨err, this⟩ := filterTickets_underflow t e x f b hpre hxs hrun hle
        rw [this] at h; cases h

open LP.Props.C09 in
/-- what a claim (no lock, with the NFT hook) writes among the fields of the simulation -/
theorem zc_claimBase_fr {t t' : Tx} {e : Env} {r : Range} (hl : t.s.variant.hasLock = false)
    (hn : t.s.variant.hasNft = true) (h : claimBase t e = .ok t')
    (hr : t.s.range e.caller = some r) :
    t'.s.range = upd t.s.range e.caller none ∧ t'.s.claimed = upd t.s.claimed e.caller true ∧
    t'.s.blacklist = t.s.blacklist ∧ t'.s.flags = t.s.flags ∧ t'.s.uts = t.s.uts ∧
    t'.s.whitelist = t.s.whitelist ∧ t'.s.batch = upd t.s.batch r.first none := by
  rw [claimBase_ok_iff] at h
  obtain ⟨r', ⟨_, _, hr', _, _, _⟩, t2, h3, h4⟩ := h
  have hrr : r' = r := by rw [hr] at hr'; exact (Option.some.inj hr').symm
  subst hrr
  have hl2 : (claimMid t e r').s.variant.hasLock = false := by rw [claimMid_state]; exact hl
  rw [sendLaunchpadTokens_nolock_ok_iff _ e _ _ _ hl2] at h3
  obtain ⟨_, ht2⟩ := h3
  have hs2 : t2.s = { settledState t.s e.caller r' with
      bal := (t.s.bal.sub t.s.payTok 0
        (t.s.price * (t.s.confirmed e.caller - countWinning t.s.status r'.first (rangeLen r')))).sub
        (.esdt t.s.lpTok) 0 (countWinning t.s.status r'.first (rangeLen r') * t.s.perTicket) } := by
    rw [ht2, sendTokensResult_state, claimMid_state]
    rfl
  have hn2 : t2.s.variant.hasNft = true := by rw [hs2]; exact hn
  rw [if_pos hn2, claimNft_ok_iff] at h4
  obtain ⟨_, _, rfl⟩ := h4
  have e1 : ∀ {α : Type} (f : State → α), (∀ (s : State) w p b, f { s with nftWinners := w, payers := p, bal := b } = f s) →
      (∀ (s : State) w, f { s with nftWinners := w } = f s) → f (claimNftResult t2 e).s = f t2.s := by
    intro α f h1 h2
    unfold claimNftResult
    simp only
    split
    · exact h1 _ _ _ _
    · exact h2 _ _
  refine ⟨?_, ?_, ?_, ?_, ?_, ?_, ?_⟩
  · rw [e1 State.range (fun _ _ _ _ => rfl) (fun _ _ => rfl), hs2]; rfl
  · rw [e1 State.claimed (fun _ _ _ _ => rfl) (fun _ _ => rfl), hs2]; rfl
  · rw [e1 State.blacklist (fun _ _ _ _ => rfl) (fun _ _ => rfl), hs2]; rfl
  · rw [e1 State.flags (fun _ _ _ _ => rfl) (fun _ _ => rfl), hs2]; rfl
  · rw [e1 State.uts (fun _ _ _ _ => rfl) (fun _ _ => rfl), hs2]; rfl
  · rw [e1 State.whitelist (fun _ _ _ _ => rfl) (fun _ _ => rfl), hs2]; rfl
  · rw [e1 State.batch (fun _ _ _ _ => rfl) (fun _ _ => rfl), hs2]; rfl

end LP
