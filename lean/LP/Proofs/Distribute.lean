import LP.Proofs.GuarLoop
import LP.Proofs.Leftover2
import LP.Proofs.Frame
import LP.Proofs.StepLemmas
import LP.Proofs.ReserveExamples
/-
  LP.Proofs.Distribute — the two loops of `guaranteedSubstep` together (v2): the top-up loop
  keeps `countTrue status last = nrOrig + additional` and the flags inside `1..last`, so the
  leftover loop starts in a state satisfying `LInv`.
-/
namespace LP
open LP.FY

/-- flags inside `1..last` -/
def FlagsIn (last : Nat) (status : Nat → Bool) : Prop := ∀ t, status t = true → 1 ≤ t ∧ t ≤ last

/-- the range lies inside `1..last` -/
def RangeIn (last : Nat) (r : Range) : Prop := 1 ≤ r.first ∧ r.first + rangeLen r ≤ last + 1

/-! ### top-up: the global count grows by the number of marks -/

theorem topUp_countTrue (last : Nat) (status : Nat → Bool) (cur len remaining : Nat)
    (h1 : 1 ≤ cur) (h2 : cur + len ≤ last + 1) :
    countTrue (topUp status cur len remaining).1 last =
      countTrue status last + (topUp status cur len remaining).2.1 := by
  fun_induction topUp status cur len remaining with
  | case1 => simp
  | case2 => simp
  | case3 status cur len remaining hr hs ih => exact ih (by omega) (by omega)
  | case4 status cur len remaining hr hs st m r heq ih =>
    simp only [heq] at ih
    simp only
    rw [ih (by omega) (by omega), countTrue_upd _ _ _ h1 (by omega) (by simpa using hs)]
    omega

theorem topUp_flagsIn (last : Nat) (status : Nat → Bool) (cur len remaining : Nat)
    (h1 : 1 ≤ cur) (h2 : cur + len ≤ last + 1) (h : FlagsIn last status) :
    FlagsIn last (topUp status cur len remaining).1 := by
  intro t ht
  by_cases hin : t < cur ∨ cur + len ≤ t
  · rw [topUp_outside _ _ _ _ _ hin] at ht
    exact h t ht
  · omega

theorem processGuaranteed_countTrue (last : Nat) (status : Nat → Bool) (range : Option Range)
    (g : Nat) (hr : ∀ r, range = some r → RangeIn last r) :
    countTrue (processGuaranteed status range g).1 last =
      countTrue status last + (processGuaranteed status range g).2.2 ∧
    (FlagsIn last status → FlagsIn last (processGuaranteed status range g).1) := by
  cases range with
  | none => exact ⟨rfl, fun h => h⟩
  | some r =>
    obtain ⟨hr1, hr2⟩ := hr r rfl
    simp only [processGuaranteed]
    split
    · exact ⟨topUp_countTrue last _ _ _ _ hr1 hr2, topUp_flagsIn last _ _ _ _ hr1 hr2⟩
    · exact ⟨rfl, fun h => h⟩

/-- one iteration of the top-up loop -/
theorem guarBody_count (last : Nat) (s : State) (x x' : GSt) (b : Bool)
    (hr : ∀ u rest, x.whitelist = u :: rest → ∀ r, s.range u = some r → RangeIn last r)
    (hb : guarBody s x = .ok (x', b)) :
    countTrue x'.status last + x.additional = countTrue x.status last + x'.additional ∧
    x.additional ≤ x'.additional ∧
    (FlagsIn last x.status → FlagsIn last x'.status) := by
  obtain ⟨wl, ul, status, lo, add⟩ := x
  unfold guarBody at hb
  by_cases hul : ul = 0
  · simp only [hul, if_true] at hb
    cases hb
    exact ⟨rfl, Nat.le_refl _, fun h => h⟩
  · simp only [hul, if_false] at hb
    cases wl with
    | nil => cases hb
    | cons u rest =>
      simp only at hb
      have hru := hr u rest rfl
      cases huts : s.uts u with
      | none =>
        simp only [huts] at hb
        cases hb
        exact ⟨rfl, Nat.le_refl _, fun h => h⟩
      | some st =>
        simp only [huts] at hb
        generalize (if s.variant.isV2 = true then calcV2 st.infos (s.confirmed u)
          else calcV1 st (s.confirmed u) s.minConfirmed) = p at hb
        obtain ⟨g, l⟩ := p
        simp only at hb
        split at hb
        · obtain ⟨h1, h2⟩ := processGuaranteed_countTrue last status (s.range u) g hru
          generalize processGuaranteed status (s.range u) g = q at h1 h2 hb
          obtain ⟨st', lo', add'⟩ := q
          simp only at h1 h2 hb
          cases hb
          exact ⟨by simp only; omega, by simp only; omega, h2⟩
        · cases hb
          exact ⟨rfl, Nat.le_refl _, fun h => h⟩

/-- the whole top-up loop, never interrupted -/
theorem guarLoop_count (last : Nat) (s : State) (n : Nat) : ∀ (x : GSt) (fuel : Nat),
    x.whitelist.length = n → x.usersLeft = n → fuel ≥ n + 1 →
    (∀ u ∈ x.whitelist, ∀ r, s.range u = some r → RangeIn last r) →
    ∃ x', runWhile (guarBody s) fuel none x = .ok (x', none, .completed) ∧
      x'.leftover + x'.additional =
        x.leftover + x.additional + gSum s.variant.isV2 s.uts x.whitelist ∧
      countTrue x'.status last + x.additional = countTrue x.status last + x'.additional ∧
      x.additional ≤ x'.additional ∧
      (FlagsIn last x.status → FlagsIn last x'.status) ∧
      (∀ t, x.status t = true → x'.status t = true) := by
  induction n with
  | zero =>
    intro x fuel hl hu hf _
    obtain ⟨x', h1, _, h3, _, h5⟩ := guarLoop_total s 0 x fuel hl hu hf
    obtain ⟨f, rfl⟩ : ∃ f, fuel = f + 1 := ⟨fuel - 1, by omega⟩
    have : runWhile (guarBody s) (f + 1) none x = .ok (x, none, .completed) := by
      simp [runWhile, guarBody, hu]
    rw [this] at h1
    injection h1 with h1
    simp only [Prod.mk.injEq, and_true] at h1
    subst h1
    exact ⟨x, this, h3, rfl, Nat.le_refl _, fun h => h, h5⟩
  | succ n ih =>
    intro x fuel hl hu hf hr
    obtain ⟨f, rfl⟩ : ∃ f, fuel = f + 1 := ⟨fuel - 1, by omega⟩
    obtain ⟨u, rest, hwl⟩ : ∃ u rest, x.whitelist = u :: rest := by
      cases hq : x.whitelist with
      | nil => rw [hq] at hl; cases hl
      | cons u rest => exact ⟨u, rest, rfl⟩
    obtain ⟨x1, e1, e2, e3, e4, e5, _, e7⟩ := guarBody_step s x u rest hwl (by omega)
    obtain ⟨c1, c2, c3⟩ := guarBody_count last s x x1 true
      (fun v rest' hv r hr' => hr v (by rw [hv]; exact List.mem_cons_self ..) r hr') e1
    have hr1 : ∀ v ∈ x1.whitelist, ∀ r, s.range v = some r → RangeIn last r := by
      intro v hv r hr'
      rw [e2, (swapRemove_perm _ _).mem_iff] at hv
      exact hr v (List.mem_of_mem_erase hv) r hr'
    obtain ⟨x', f1, f3, f4, f5, f6, f7⟩ := ih x1 f (by omega) (by omega) (by omega) hr1
    refine ⟨x', ?_, ?_, by omega, by omega, fun h => f6 (c3 h), fun t ht => f7 t (e7 t ht)⟩
    · simp only [runWhile, e1]; exact f1
    · rw [f3, e5, e2, gSum_perm _ _ (swapRemove_perm _ _), hwl, gSum_cons]
      simp only [List.erase_cons_head]
      omega

/-! ### the state left by the base lottery -/

theorem FY.R.flagsIn {n k : Nat} {st : Nat → Bool} {pi : Nat → Nat} {arr : List Nat}
    (h : R n (k + 1) st pi arr) : FlagsIn n st := by
  intro t ht
  have := (h.stat t).mp ht
  exact (h.mem t).mp (List.mem_of_mem_take this)

theorem FY.R.count {n k : Nat} {st : Nat → Bool} {pi : Nat → Nat} {arr : List Nat}
    (h : R n (k + 1) st pi arr) (hk : k ≤ n) : countTrue st n = k := by
  have hl := countTrue_eq_length st n (arr.take k) (h.nodup.sublist (List.take_sublist _ _))
    (fun t ht => (h.mem t).mp (List.mem_of_mem_take ht))
    (fun t _ _ => by have := h.stat t; simpa using this)
  rw [hl, List.length_take, h.len]
  omega

/-- a successful uninterrupted `selectWinners` call on all-clear maps (no scripted draws)
    leaves a state satisfying `R` at `nrWinning + 1` -/
theorem selectWinners_R (hash : List Nat → List Nat) (t : Tx) (e : Env) (t' : Tx)
    (hop : t.s.op = .none) (hb : t.c.budget = none) (hscr : t.c.script = [])
    (hst : t.s.status = fun _ => false) (hpi : t.s.posToId = fun _ => 0)
    (hle : t.s.nrWinning ≤ t.s.lastTicketId)
    (hok : selectWinners hash t e = .ok t') :
    R t'.s.lastTicketId (t'.s.nrWinning + 1) t'.s.status t'.s.posToId
      (tbRun t.s.lastTicketId (draws hash t.freshRng.1 t.s.nrWinning)) := by
  obtain ⟨h1, _, h3, h4⟩ := selectWinners_fy hash t e t' hop hb hscr hok
  rw [hst, hpi] at h1
  have hlen : (draws hash t.freshRng.1 t.s.nrWinning).length = t.s.nrWinning := length_draws _ _ _
  have hR := R_steps (n := t.s.lastTicketId) (draws hash t.freshRng.1 t.s.nrWinning) (i := 1)
    (s := (fun _ => false, fun _ => 0)) (Nat.le_refl 1) (by rw [hlen]; omega)
    (R_init t.s.lastTicketId)
  rw [← h1, hlen] at hR
  rw [h3, h4, Nat.add_comm]
  exact hR

/-! ### both loops of `guaranteedSubstep`, v2, uninterrupted -/

/-- **End to end (v2).**  Started right after the base lottery (`R`), with a fresh operation
    and no gas interruption, the distribution step completes (both loops; no "out of gas" from
    the fuel bounds, no error), and afterwards exactly
    `min (nrWinning + totalGuaranteed) lastTicketId` tickets win, all inside `1..lastTicketId`;
    `additional = min totalGuaranteed (lastTicketId - nrWinning)`; lottery winners stay
    winners. -/
theorem guaranteedSubstep_v2_final (hash : List Nat → List Nat) (t : Tx) (rng : Rng)
    (arr : List Nat) (hv : t.s.variant.isV2 = true) (hb : t.c.budget = none)
    (hle : t.s.nrWinning ≤ t.s.lastTicketId)
    (hR : R t.s.lastTicketId (t.s.nrWinning + 1) t.s.status t.s.posToId arr)
    (hranges : ∀ u ∈ t.s.whitelist, ∀ r, t.s.range u = some r → RangeIn t.s.lastTicketId r)
    (hG : GuarInv t.s.variant.isV2 t.s) :
    ∃ t' g', guaranteedSubstep hash t { rng := rng } = .ok (t', g', .completed) ∧
      countTrue t'.s.status t.s.lastTicketId =
        min (t.s.nrWinning + t.s.totalGuaranteed) t.s.lastTicketId ∧
      g'.additional = min t.s.totalGuaranteed (t.s.lastTicketId - t.s.nrWinning) ∧
      g'.leftover = 0 ∧
      FlagsIn t.s.lastTicketId t'.s.status ∧
      (∀ id, t.s.status id = true → t'.s.status id = true) ∧
      t'.s = { t.s with whitelist := t'.s.whitelist, status := t'.s.status,
                        posToId := t'.s.posToId, op := .none } := by
  obtain ⟨x, h1, hsum, hcount, _, hflags, hmono⟩ := guarLoop_count t.s.lastTicketId t.s
    t.s.whitelist.length ⟨t.s.whitelist, t.s.whitelist.length, t.s.status, 0, 0⟩
    (t.s.whitelist.length + 2) rfl rfl (by omega) hranges
  simp only at hsum hcount hflags hmono
  have htot : x.leftover + x.additional = t.s.totalGuaranteed := by
    rw [hsum, hG.total]; simp
  have hc0 := hR.count hle
  have hc : countTrue x.status t.s.lastTicketId = t.s.nrWinning + x.additional := by omega
  have key : ∀ tx r, runWhile (leftoverBody hash true t.s.nrWinning t.s.lastTicketId)
      (t.s.lastTicketId + 2) none
      ⟨x.status, t.s.posToId, rng, x.leftover, 1, x.additional, tx⟩ = r →
      ∃ y, r = .ok (y, none, .completed) ∧
        countTrue y.status t.s.lastTicketId =
          min (t.s.nrWinning + t.s.totalGuaranteed) t.s.lastTicketId ∧
        y.additional = min t.s.totalGuaranteed (t.s.lastTicketId - t.s.nrWinning) ∧
        y.leftover = 0 ∧ FlagsIn t.s.lastTicketId y.status ∧
        (∀ id, x.status id = true → y.status id = true) ∧ y.tx.s = tx.s := by
    intro tx r hr
    have hinv := LInv_init hR hmono (hflags hR.flagsIn) hc rng x.leftover tx
    obtain ⟨y, hy, _, hl, ha, hcy, hm, hin⟩ :=
      leftover_v2_terminates hash t.s.nrWinning t.s.lastTicketId _ hinv
    have hfr := runWhile_leftoverBody_tx_s hy
    rw [hy] at hr
    refine ⟨y, hr.symm, ?_, ?_, hl, hin, hm, hfr⟩
    · rw [hcy, ha]
      show t.s.nrWinning + min (x.additional + x.leftover) _ = _
      omega
    · rw [ha]
      show min (x.additional + x.leftover) _ = _
      congr 1; omega
  unfold guaranteedSubstep
  simp only [hb, h1, bind, Except.bind, Tx.setS, hv, if_true]
  split
  · next e heq =>
    obtain ⟨y, hy, _⟩ := key _ _ heq
    cases hy
  · next v heq =>
    obtain ⟨y, hy, p1, p2, p3, p4, p5, p6⟩ := key _ _ heq
    cases hy
    refine ⟨_, _, rfl, p1, p2, p3, p4, fun id hid => p5 id (hmono id hid), ?_⟩
    simp only [p6]

/-! ### the endpoint `distributeGuaranteedTickets` (v2) -/

/-- a successful uninterrupted v2 `distribute` call that starts the operation right after the
    base lottery: the stored winner count equals the number of winning flags, which is
    `min (nrWinning + totalGuaranteed) lastTicketId` -/
theorem distribute_v2_final (hash : List Nat → List Nat) (t t' : Tx) (e : Env) (arr : List Nat)
    (hv : t.s.variant.isV2 = true) (hb : t.c.budget = none) (hop : t.s.op = .none)
    (hle : t.s.nrWinning ≤ t.s.lastTicketId)
    (hR : R t.s.lastTicketId (t.s.nrWinning + 1) t.s.status t.s.posToId arr)
    (hranges : ∀ u ∈ t.s.whitelist, ∀ r, t.s.range u = some r → RangeIn t.s.lastTicketId r)
    (hG : GuarInv t.s.variant.isV2 t.s)
    (h : distribute hash t e = .ok t') :
    t'.s.nrWinning = min (t.s.nrWinning + t.s.totalGuaranteed) t.s.lastTicketId ∧
    countTrue t'.s.status t.s.lastTicketId = t'.s.nrWinning ∧
    FlagsIn t.s.lastTicketId t'.s.status ∧
    (∀ id, t.s.status id = true → t'.s.status id = true) ∧
    t'.s.flags.additional = true ∧ t'.s.op = .none ∧ t'.o.ret = [0] := by
  unfold distribute at h
  simp only [hv, if_true, hop, bind_ok_iff, pure_ok_iff, Prod.exists] at h
  obtain ⟨_, _, _, _, _, _, _, _, _, _, g, t1, hgt, a, g1, st, hsub, hrest⟩ := h
  injection hgt with hg ht1
  subst hg ht1
  obtain ⟨f1, f2, f3⟩ := freshRng_ctx t
  obtain ⟨a', g', hs', q1, q2, q3, q4, q5, q6⟩ := guaranteedSubstep_v2_final hash t.freshRng.2
    t.freshRng.1 arr (by rw [f3]; exact hv) (by rw [f2]; exact hb) (by rw [f3]; exact hle)
    (by rw [f3]; exact hR) (by rw [f3]; exact hranges) (by rw [f3]; exact hG)
  rw [hs'] at hsub
  injection hsub with hsub
  simp only [Prod.mk.injEq] at hsub
  obtain ⟨rfl, rfl, rfl⟩ := hsub
  rw [f3] at q1 q2 q4 q5 q6
  have hvar : (creditAdditional a'.s g'.additional).variant.isV2 = true := by
    rw [q6]; exact hv
  simp only [hvar, if_true, pure_ok_iff] at hrest
  subst hrest
  have hnr : a'.s.nrWinning = t.s.nrWinning := by rw [q6]
  refine ⟨?_, ?_, q4, q5, rfl, ?_, rfl⟩
  · show a'.s.nrWinning + g'.additional = _
    rw [hnr, q2]; omega
  · show countTrue a'.s.status _ = a'.s.nrWinning + g'.additional
    rw [q1, hnr, q2]; omega
  · show a'.s.op = .none
    rw [q6]

/-- and such a call does succeed when the endpoint's guards hold: the distribution cannot be
    left stuck by the loops -/
theorem distribute_v2_succeeds (hash : List Nat → List Nat) (t : Tx) (e : Env) (arr : List Nat)
    (hv : t.s.variant.isV2 = true) (hb : t.c.budget = none) (hop : t.s.op = .none)
    (hle : t.s.nrWinning ≤ t.s.lastTicketId)
    (hR : R t.s.lastTicketId (t.s.nrWinning + 1) t.s.status t.s.posToId arr)
    (hranges : ∀ u ∈ t.s.whitelist, ∀ r, t.s.range u = some r → RangeIn t.s.lastTicketId r)
    (hG : GuarInv t.s.variant.isV2 t.s)
    (hp : t.s.paused = false)
    (hst : requireStage t.s e .winnerSelection "Not in winner selection period" = .ok ())
    (hou : ownerOrUser t.s e = .ok ())
    (hsel : t.s.flags.selected = true) (hadd : t.s.flags.additional = false) :
    ∃ t', distribute hash t e = .ok t' := by
  obtain ⟨f1, f2, f3⟩ := freshRng_ctx t
  obtain ⟨a', g', hs', q1, q2, q3, q4, q5, q6⟩ := guaranteedSubstep_v2_final hash t.freshRng.2
    t.freshRng.1 arr (by rw [f3]; exact hv) (by rw [f2]; exact hb) (by rw [f3]; exact hle)
    (by rw [f3]; exact hR) (by rw [f3]; exact hranges) (by rw [f3]; exact hG)
  have hvar : (creditAdditional a'.s g'.additional).variant.isV2 = true := by
    rw [q6, f3]; exact hv
  unfold distribute
  simp only [hv, if_true, hop, hp, hst, hou, hsel, hadd, req, bind, Except.bind, pure, Except.pure,
    Bool.not_false, hs', hvar]
  exact ⟨_, rfl⟩

/-- example state: `sLive` (user 7 holds tickets 1..3 and a guarantee of 2, nothing confirmed)
    with no lottery winner -/
def sEx : State := { sLive with nrWinning := 0 }

end LP
