import LP.Proofs.ReachNftBl
/-
  LP.Proofs.ReachNftSel — preservation of `nf_WF` by `filterTickets`, by the base lottery
  `selectWinners` and by the NFT draw `selectNftWinners` (each interrupted or completed, from a
  fresh or a saved loop state).  `flags.additional` stays `false` until the draw completes.
-/
namespace LP
open LP.FY LP.Props.C14

/-- the invariant from its parts, with the side projection given explicitly -/
theorem nf_WF_build {T0 : Nat} {s' : State} {r' : Nat} (p : nf_Side) (hside : nf_side s' = p)
    (hinv : nf_SideInv p) (hv : s'.variant = .nft) (hprice : 0 < s'.price)
    (htok : s'.payTok ≠ .esdt s'.lpTok)
    (tl1 : r' < s'.cfg.conf → ∀ a, s'.confirmed a = 0)
    (tl2 : s'.flags.started = true → s'.cfg.conf ≤ r' ∧ s'.cfg.sel ≤ r')
    (hphase : nf_Phase T0 { s'.core with payBal := p.tix }) : nf_WF T0 s' r' :=
  ⟨hv, hprice, htok, tl1, tl2, by unfold nf_core; rw [hside]; exact hphase, by rw [hside]; exact hinv⟩

/-! ### filter -/

theorem nf_filter {T0 : Nat} {hash : List Nat → List Nat} {s s' : State} {e : Env} {o : Out}
    {r : Nat} (h : nf_WF T0 s r) (_hr : r ≤ e.round)
    (hs : step hash s e .filter = .ok (s', o)) : nf_WF T0 s' e.round := by
  obtain ⟨t, hx, rfl⟩ := rb_step_np (by intro m hm; simp [endpointMeta] at hm; rw [← hm]) hs
  simp only [exec] at hx
  obtain ⟨hpre, x, f, b, hxs, hcase⟩ := rb_filterTickets_cases hx
  simp only [rbTx_s] at hpre hxs hcase
  obtain ⟨hc1, hc2⟩ := rb_stage_winnerSelection hpre.stage
  have hnsel0 : s.flags.selected = false := by
    cases hq : s.flags.selected with
    | false => rfl
    | true =>
      rcases h.phase with ⟨_, h2, _⟩ | ⟨_, hD, _⟩ | ⟨_, hD⟩
      · have h2' : s.flags.selected = false := h2
        rw [h2'] at hq; cases hq
      · have : s.flags.filtered = true := hD.filtered
        rw [hpre.notFiltered] at this; cases this
      · have : s.flags.filtered = true := hD.filtered
        rw [hpre.notFiltered] at this; cases this
  obtain ⟨hna, hph⟩ := nf_phase_early h.phase hnsel0
  have hna' : s.flags.additional = false := hna
  obtain ⟨L0, hp, hab⟩ := rb_phase_notFiltered hph hpre.notFiltered
  have hmid : Mid s.confirmed s.lastTicketId L0 x ∧ (x.first = 1 ∨ s.flags.started = true) := by
    rcases hab with ha | hb
    · have hop : s.op = .none := ha.op
      simp only [filStOf, hop, Option.some.injEq] at hxs
      subst hxs
      have hl : s.lastTicketId = ticketTotal L0 := ha.last
      rw [hl]
      exact ⟨rb_Mid_start ha.chain hp.outR, Or.inl rfl⟩
    · obtain ⟨f0, rm, hop, hm⟩ := hb.mid
      have hop' : s.op = .filter f0 rm := hop
      simp only [filStOf, hop', Option.some.injEq] at hxs
      subst hxs
      exact ⟨hm, Or.inr hb.started⟩
  obtain ⟨hmid, hfirst⟩ := hmid
  have hok : AllocOK s.confirmed L0 := hp.ok
  have hloop := fun b' st (hrun : runWhile (filterBody s.confirmed s.lastTicketId)
      (s.lastTicketId + 2) (rbTx s e).c.budget x = .ok (f, b', st)) =>
    rb_runWhile_inv (Mid s.confirmed s.lastTicketId L0) (filterBody s.confirmed s.lastTicketId)
      (fun y y' hb hm => rb_filterBody_Mid hok hb hm) _ _ _ _ _ _ hrun hmid
  obtain ⟨hff, hfs, hfa⟩ := rb_filterFlags s x.first
  have hstarted := filterFlags_started s x.first hfirst
  have hpay : (nf_side s).tix = s.price * sumOver s.confirmed (L0.map Prod.fst) := hp.pay
  rcases hcase with ⟨hrun, hs'⟩ | ⟨hrun, hle, hs'⟩
  · -- interrupted
    have hmf : Mid s.confirmed s.lastTicketId L0 f := (hloop _ _ hrun).1 rfl
    have houtR := hmf.choose_spec.choose_spec.2.2.2.2.2.2.2
    rw [hs']
    have hside : nf_side (filterSaved s x f) = nf_side s := by
      show ({ nf_side s with additional := (filterFlags s x.first).additional, selected := (filterFlags s x.first).selected } : nf_Side) = nf_side s
      rw [hfa, hfs]
      rfl
    refine nf_WF_build (nf_side s) hside h.side h.var h.pricePos h.tokNe ?_ ?_ ?_
    · intro hlt; exfalso; have : e.round < s.cfg.conf := hlt; omega
    · intro _; exact ⟨hc1, hc2⟩
    · left
      refine ⟨?_, ?_, Or.inl ⟨L0, ⟨?_, ?_, hp.nrw, hp.status0, hp.pos0, hp.ok, hp.outC, houtR,
        hpay⟩, Or.inr ⟨hstarted, ⟨f.first, f.removed, rfl, hmf⟩⟩⟩⟩
      · show (filterFlags s x.first).additional = false
        rw [hfa]; exact hna
      · show (filterFlags s x.first).selected = false
        rw [hfs]; exact hnsel0
      · show (filterFlags s x.first).filtered = false
        rw [hff]; exact hpre.notFiltered
      · show (filterFlags s x.first).selected = false
        rw [hfs]; exact hp.notSelected
  · -- completed
    obtain ⟨y, hmy, hby⟩ := (hloop _ _ hrun).2 rfl
    obtain ⟨hy1, hyf⟩ := rb_filterBody_false hby
    subst hyf
    obtain ⟨hch, hrem, hlast, hzero, hout⟩ := rb_Mid_final hok hmy hy1
    have hcd := confSum_add_droppedSum s.confirmed L0 hok.le
    have hnew : s.lastTicketId - f.removed = ticketTotal (survivors s.confirmed L0) := by
      rw [ticketTotal_survivors, hrem]; omega
    have hnrw : s.nrWinning = T0 := hp.nrw
    rw [hs']
    have hside : nf_side (filterDone s x f) = nf_side s := by
      show ({ nf_side s with additional := (filterFlags s x.first).additional, selected := (filterFlags s x.first).selected } : nf_Side) = nf_side s
      rw [hfa, hfs]
      rfl
    refine nf_WF_build (nf_side s) hside h.side h.var h.pricePos h.tokNe ?_ ?_ ?_
    · intro hlt; exfalso; have : e.round < s.cfg.conf := hlt; omega
    · intro _; exact ⟨hc1, hc2⟩
    · left
      refine ⟨?_, ?_, Or.inr (Or.inl ⟨hstarted, rfl, ?_, ?_, ?_,
        Or.inl ⟨rfl, hp.status0, hp.pos0⟩⟩)⟩
      · show (filterFlags s x.first).additional = false
        rw [hfa]; exact hna
      · show (filterFlags s x.first).selected = false
        rw [hfs]; exact hnsel0
      · show (filterFlags s x.first).selected = false
        rw [hfs]; exact hp.notSelected
      · show (if s.nrWinning > s.lastTicketId - f.removed then s.lastTicketId - f.removed
              else s.nrWinning) = min T0 (s.lastTicketId - f.removed)
        rw [hnrw]; split <;> omega
      · refine ⟨survivors s.confirmed L0, survivors_nodup _ _ hok.nodup, ?_, hch, hnew, ?_, ?_⟩
        · intro p hp1
          obtain ⟨_, h2, h3⟩ := mem_survivors hp1
          exact ⟨by omega, h2⟩
        · intro a ha
          by_cases hin : a ∈ L0.map Prod.fst
          · obtain ⟨p, hp1, hpa⟩ := List.mem_map.mp hin
            have hc0 : s.confirmed p.1 = 0 := by
              apply Classical.byContradiction
              intro hne
              exact ha (hpa ▸ rb_mem_survivors_of_pos hp1 hne)
            subst hpa
            exact ⟨hzero p hp1 hc0, hc0⟩
          · exact ⟨hout a hin, hp.outC a hin⟩
        · show (nf_side s).tix = s.price * sumOver s.confirmed ((survivors s.confirmed L0).map Prod.fst)
          rw [rb_sumOver_survivors]
          exact hpay

/-! ### the base lottery -/

/-- `rb_select_cases` from the phase alone, over an arbitrary projection with the right lottery
    fields (the holdings do not matter) -/
theorem nf_select_cases {T : Nat} {hash : List Nat → List Nat} {s : State} {e : Env} {t : Tx}
    (hph : ∀ (_ : s.flags.filtered = true) (_ : s.flags.selected = false), PhC T (nf_core s))
    (hx : exec hash (rbTx s e) e .select = .ok t) :
    s.stage e = .winnerSelection ∧ PhC T (nf_core s) ∧ ∃ x : SelSt,
      (t.s = selInt s x ∧ 1 ≤ x.pos ∧ x.pos ≤ s.nrWinning ∧
        ∃ arr, R s.lastTicketId x.pos x.status x.posToId arr) ∨
      (t.s = selDone s x ∧ ∃ arr, R s.lastTicketId (s.nrWinning + 1) x.status x.posToId arr) := by
  simp only [exec] at hx
  obtain ⟨hstage, hfil, hnsel, rng, pos, t0, hop, x, b, st, hrun, hfin⟩ := rb_selectWinners_cases hx
  simp only [rbTx_s] at hstage hfil hnsel hop hrun hfin
  have hC : PhC T (nf_core s) := hph hfil hnsel
  refine ⟨hstage, hC, x, ?_⟩
  have hnl : s.nrWinning ≤ s.lastTicketId := by
    have : s.nrWinning = min T s.lastTicketId := hC.nrw
    omega
  have hstart : 1 ≤ pos ∧ (s.nrWinning ≠ 0 → pos ≤ s.nrWinning) ∧
      (s.nrWinning = 0 → pos = 1) ∧ ∃ arr, R s.lastTicketId pos s.status s.posToId arr := by
    rcases hC.sel with ⟨hop0, hs0, hp0⟩ | ⟨rng1, pos1, arr, hop1, h1, h2, hR⟩
    · have hop0' : s.op = .none := hop0
      rcases hop with ⟨_, rfl⟩ | hop
      · refine ⟨Nat.le_refl 1, fun hne => by omega, fun _ => rfl, List.range' 1 s.lastTicketId, ?_⟩
        have hs0' : s.status = fun _ => false := hs0
        have hp0' : s.posToId = fun _ => 0 := hp0
        rw [hs0', hp0']
        exact R_init _
      · rw [hop0'] at hop; cases hop
    · have hop1' : s.op = .select rng1 pos1 := hop1
      rcases hop with ⟨hop, _⟩ | hop
      · rw [hop1'] at hop; cases hop
      · rw [hop1'] at hop
        injection hop with e1 e2
        subst e1 e2
        have h2' : pos1 ≤ s.nrWinning := h2
        exact ⟨h1, fun _ => h2', fun h0 => by omega, arr, hR⟩
  obtain ⟨hs1, hs2, hs3, arr0, hR0⟩ := hstart
  by_cases hnr : s.nrWinning = 0
  · have hbody : selectBody hash s.nrWinning s.lastTicketId ⟨s.status, s.posToId, rng, pos, t0⟩
        = .ok (⟨s.status, s.posToId, rng, pos, t0⟩, false) := by
      rw [selectBody_eq, if_pos hnr]
    rw [runWhile_stop hbody] at hrun
    simp only [Except.ok.injEq, Prod.mk.injEq] at hrun
    obtain ⟨rfl, _, rfl⟩ := hrun
    rcases hfin with ⟨hh, _⟩ | ⟨_, hs'⟩
    · cases hh
    · have hpos1 := hs3 hnr
      subst hpos1
      exact Or.inr ⟨hs', arr0, by rw [hnr]; exact hR0⟩
  · have hP0 : SelP s.nrWinning s.lastTicketId ⟨s.status, s.posToId, rng, pos, t0⟩ :=
      ⟨hs1, hs2 hnr, arr0, hR0⟩
    obtain ⟨hint, hcomp⟩ := rb_runWhile_inv (SelP s.nrWinning s.lastTicketId)
      (selectBody hash s.nrWinning s.lastTicketId)
      (fun y y' hb hp => rb_selectBody_SelP hnr hnl hb hp) _ _ _ _ _ _ hrun hP0
    rcases hfin with ⟨hst, hs'⟩ | ⟨hst, hs'⟩
    · obtain ⟨p1, p2, arr, hR⟩ := hint hst
      exact Or.inl ⟨hs', p1, p2, arr, hR⟩
    · obtain ⟨y, hPy, hby⟩ := hcomp hst
      exact Or.inr ⟨hs', rb_selectBody_final hnr hnl hby hPy⟩

theorem nf_SideInv_selected {p : nf_Side} (h : nf_SideInv p) : nf_SideInv { p with selected := true } :=
  ⟨h.balOther, h.feeLe, h.feeEq, h.nodupP, h.nodupW, h.disj, h.winLe, h.conf, h.fresh, h.claimedOut,
    nofun⟩

theorem nf_select {T0 : Nat} {hash : List Nat → List Nat} {s s' : State} {e : Env} {o : Out}
    {r : Nat} (h : nf_WF T0 s r) (_hr : r ≤ e.round)
    (hs : step hash s e .select = .ok (s', o)) : nf_WF T0 s' e.round := by
  obtain ⟨t, hx, rfl⟩ := rb_step_np (by intro m hm; simp [endpointMeta] at hm; rw [← hm]) hs
  have hearly : s.flags.selected = false →
      s.flags.additional = false ∧ Phase T0 (nf_core s) := fun hq => nf_phase_early h.phase hq
  obtain ⟨hstage, hC, x, hcase⟩ := nf_select_cases (T := T0)
    (fun hf hq => rb_phase_C (hearly hq).2 hf hq) hx
  have hnsel : s.flags.selected = false := hC.notSelected
  obtain ⟨hna, _⟩ := hearly hnsel
  obtain ⟨hc1, hc2⟩ := rb_stage_winnerSelection hstage
  rcases hcase with ⟨hs', p1, p2, arr, hR⟩ | ⟨hs', arr, hR⟩
  · rw [hs']
    refine nf_WF_build (nf_side s) rfl h.side h.var h.pricePos h.tokNe ?_ ?_ ?_
    · intro hlt; exfalso; have : e.round < s.cfg.conf := hlt; omega
    · intro _; exact ⟨hc1, hc2⟩
    · left
      exact ⟨hna, hnsel, Or.inr (Or.inl ⟨hC.started, hC.filtered, hC.notSelected, hC.nrw,
        hC.alloc, Or.inr ⟨x.rng, x.pos, arr, rfl, p1, p2, hR⟩⟩)⟩
  · rw [hs']
    obtain ⟨hD, _⟩ := rb_handover (c := nf_core s) hC (st' := x.status) (pi' := x.posToId) hR
    obtain ⟨Ls, hnd, _, _, _, hout, hpay⟩ := hC.alloc
    refine nf_WF_build ({ nf_side s with selected := true }) rfl (nf_SideInv_selected h.side)
      h.var h.pricePos h.tokNe ?_ ?_ ?_
    · intro hlt; exfalso; have : e.round < s.cfg.conf := hlt; omega
    · intro _; exact ⟨hc1, hc2⟩
    · right; left
      refine ⟨hna, hD, Or.inl rfl, Ls.map Prod.fst, hnd, ?_, hpay⟩
      intro a ha
      apply Classical.byContradiction
      intro hin
      exact ha (hout a hin).2

/-- the three counts at the completion of the base lottery -/
theorem nf_select_completion {T0 : Nat} {hash : List Nat → List Nat} {s s' : State} {e : Env} {o : Out}
    {r : Nat} (h : nf_WF T0 s r) (hs : step hash s e .select = .ok (s', o))
    (hsel : s'.flags.selected = true) :
    countTrue s'.status s'.lastTicketId = s'.nrWinning ∧
    s'.nrWinning = min T0 s'.lastTicketId ∧
    s'.claimablePayment = s'.price * s'.nrWinning ∧
    (∀ t, s'.status t = true → 1 ≤ t ∧ t ≤ s'.lastTicketId) := by
  obtain ⟨t, hx, rfl⟩ := rb_step_np (by intro m hm; simp [endpointMeta] at hm; rw [← hm]) hs
  have hearly : s.flags.selected = false →
      s.flags.additional = false ∧ Phase T0 (nf_core s) := fun hq => nf_phase_early h.phase hq
  obtain ⟨_, hC, x, hcase⟩ := nf_select_cases (T := T0)
    (fun hf hq => rb_phase_C (hearly hq).2 hf hq) hx
  rcases hcase with ⟨hs', _⟩ | ⟨hs', arr, hR⟩
  · rw [hs'] at hsel
    have h1 : s.flags.selected = true := hsel
    have h2 : s.flags.selected = false := hC.notSelected
    rw [h2] at h1; cases h1
  · obtain ⟨_, h1, h2⟩ := rb_handover (c := nf_core s) hC (st' := x.status) (pi' := x.posToId) hR
    rw [hs']
    exact ⟨h1, hC.nrw, rfl, h2⟩

/-! ### the NFT draw -/

/-- `PhD` does not read the `additional` flag nor (beyond being `none`) the saved operation -/
theorem nf_PhD_flags {c : Core} (h : PhD c) (f : Flags) (h1 : f.started = c.flags.started)
    (h2 : f.filtered = c.flags.filtered) (h3 : f.selected = c.flags.selected) :
    PhD { c with flags := f, op := .none } :=
  ⟨h1.trans h.started, h2.trans h.filtered, h3.trans h.selected, rfl, h.rngOk, h.rngNone, h.disj, h.led⟩

/-- storage after an accepted draw call that ended with lists `P`, `W` -/
def nf_drawInt (s : State) (P W : List Nat) (rng : Rng) : State :=
  { s with payers := P, nftWinners := W, op := .additional (.nft rng) }

def nf_drawDone (s : State) (P W : List Nat) : State :=
  { s with payers := P, nftWinners := W, op := .none,
           claimableNft := s.nftCost.amount * W.length,
           flags := { s.flags with additional := true } }

/-- an accepted `selectNftWinners` call: gates, shape of the new state, facts on the lists -/
theorem nf_selectNft_cases {hash : List Nat → List Nat} {s : State} {e : Env} {t : Tx}
    (hx : exec hash (rbTx s e) e .selectNft = .ok t)
    (hok : NftOk s) (hle : s.nftWinners.length ≤ s.availNfts) :
    s.stage e = .winnerSelection ∧ s.flags.selected = true ∧ s.flags.additional = false ∧
    ∃ P W, NftOk { s with payers := P, nftWinners := W } ∧ W.length ≤ s.availNfts ∧
      P.length + W.length = s.payers.length + s.nftWinners.length ∧
      (∀ a, (a ∈ P ∨ a ∈ W) ↔ (a ∈ s.payers ∨ a ∈ s.nftWinners)) ∧
      s.nftWinners <+: W ∧
      ((∃ rng, t.s = nf_drawInt s P W rng ∧ t.o.ret = [1]) ∨
       (t.s = nf_drawDone s P W ∧ t.o.ret = [0] ∧
        W.length = min s.availNfts (s.payers.length + s.nftWinners.length))) := by
  simp only [exec] at hx
  obtain ⟨hst, hsel, hadd, t0, t1, rng, rng', st, h0, hsub, hfin⟩ := g_selectNft_inv hx
  simp only [rbTx_s] at hst hsel hadd h0
  have hok0 : NftOk t0.s := by rw [h0]; exact hok
  have hle0 : t0.s.nftWinners.length ≤ t0.s.availNfts := by rw [h0]; exact hle
  obtain ⟨h1, h2, h3, h4, h5, h6, h7, h8⟩ := nftSubstep_spec hsub hok0 hle0
  rw [h0] at h2 h4 h5 h6 h7 h8
  refine ⟨hst, hsel, hadd, t1.s.payers, t1.s.nftWinners,
    ⟨h3.nodupP, h3.nodupW, h3.disj⟩, h4, h5, h6, h7, ?_⟩
  rcases hfin with ⟨hc, hs', hret⟩ | ⟨hc, hs', hret⟩
  · subst hc
    refine Or.inr ⟨?_, hret, h8 rfl⟩
    rw [hs', h2]; rfl
  · refine Or.inl ⟨rng', ?_, hret⟩
    rw [hs', h2]
    cases st with
    | completed => exact absurd rfl hc
    | interrupted => rfl
    | outOfFuel => rfl

theorem nf_selectNft {T0 : Nat} {hash : List Nat → List Nat} {s s' : State} {e : Env} {o : Out}
    {r : Nat} (h : nf_WF T0 s r) (_hr : r ≤ e.round)
    (hs : step hash s e .selectNft = .ok (s', o)) : nf_WF T0 s' e.round := by
  obtain ⟨t, hx, rfl⟩ := rb_step_np (by
    intro m hm; simp only [endpointMeta] at hm; split at hm
    · simp at hm; rw [← hm]
    · cases hm) hs
  have hs0 := h.side
  obtain ⟨hstage, hsel, hadd, P, W, hokPW, hWle, hlen, hun, _, hcase⟩ :=
    nf_selectNft_cases hx ⟨hs0.nodupP, hs0.nodupW, hs0.disj⟩ hs0.winLe
  obtain ⟨hc1, hc2⟩ := rb_stage_winnerSelection hstage
  obtain ⟨hD, _, L, hLnd, hLsupp, hLpay⟩ := nf_phase_mid h.phase hsel hadd
  have hheld : (nf_side s).held = s.nftCost.amount * (s.payers.length + s.nftWinners.length) := by
    simp [nf_Side.held, nf_side, hadd]
  have hfresh : ∀ a, s.claimed a = false := hs0.fresh hadd
  have hstd : s.flags.started = true := hD.started
  rcases hcase with ⟨rng, hs', _⟩ | ⟨hs', _, _⟩
  · -- interrupted
    rw [hs']
    have hheld' : ({ nf_side s with payers := P, winners := W } : nf_Side).held = (nf_side s).held := by
      rw [hheld]
      simp only [nf_Side.held]
      have : (nf_side s).additional = false := hadd
      rw [this]
      simp only [Bool.false_eq_true, if_false]
      rw [hlen]; rfl
    have htix : ({ nf_side s with payers := P, winners := W } : nf_Side).tix = (nf_side s).tix := by
      unfold nf_Side.tix nf_Side.feeIn
      rw [hheld']; rfl
    refine nf_WF_build ({ nf_side s with payers := P, winners := W }) rfl ?_ h.var h.pricePos h.tokNe
      ?_ ?_ ?_
    · refine ⟨hs0.balOther, ?_, ?_, hokPW.nodupP, hokPW.nodupW, hokPW.disj, hWle, ?_, hs0.fresh,
        ?_, ?_⟩
      · intro hsm; rw [hheld']; exact hs0.feeLe hsm
      · intro b1 b2; rw [hheld']; exact hs0.feeEq b1 b2
      · intro a ha; exact hs0.conf a ((hun a).mp ha)
      · intro a hcl
        have hcl' : s.claimed a = true := hcl
        rw [hfresh a] at hcl'; cases hcl'
      · intro hq
        have hq' : s.flags.selected = false := hq
        rw [hsel] at hq'; cases hq'
    · intro hlt; exfalso; have : e.round < s.cfg.conf := hlt; omega
    · intro _; exact ⟨hc1, hc2⟩
    · right; left
      rw [htix]
      exact ⟨hadd, hD, Or.inr ⟨rng, rfl⟩, L, hLnd, hLsupp, hLpay⟩
  · -- completed
    rw [hs']
    have hheld' : ({ nf_side s with payers := P, winners := W, cnft := s.nftCost.amount * W.length, additional := true } : nf_Side).held
        = (nf_side s).held := by
      rw [hheld]
      simp only [nf_Side.held, if_true]
      show s.nftCost.amount * W.length + s.nftCost.amount * P.length = _
      rw [← hlen, Nat.mul_add]; omega
    have htix : ({ nf_side s with payers := P, winners := W, cnft := s.nftCost.amount * W.length, additional := true } : nf_Side).tix = (nf_side s).tix := by
      unfold nf_Side.tix nf_Side.feeIn
      rw [hheld']; rfl
    refine nf_WF_build ({ nf_side s with payers := P, winners := W, cnft := s.nftCost.amount * W.length, additional := true }) rfl ?_ h.var h.pricePos h.tokNe
      ?_ ?_ ?_
    · refine ⟨hs0.balOther, ?_, ?_, hokPW.nodupP, hokPW.nodupW, hokPW.disj, hWle, ?_, nofun,
        ?_, ?_⟩
      · intro hsm; rw [hheld']; exact hs0.feeLe hsm
      · intro b1 b2; rw [hheld']; exact hs0.feeEq b1 b2
      · intro a ha; exact hs0.conf a ((hun a).mp ha)
      · intro a hcl
        have hcl' : s.claimed a = true := hcl
        rw [hfresh a] at hcl'; cases hcl'
      · intro hq
        have hq' : s.flags.selected = false := hq
        rw [hsel] at hq'; cases hq'
    · intro hlt; exfalso; have : e.round < s.cfg.conf := hlt; omega
    · intro _; exact ⟨hc1, hc2⟩
    · right; right
      rw [htix]
      exact ⟨rfl, nf_PhD_flags hD { s.flags with additional := true } rfl rfl rfl⟩

end LP
