import LP.Proofs.ReachG1Final
import LP.Props.C17
/-
  LP.Proofs.ReachG1Frame — frames over the reachable states of `Variant.guarV1`:
    * `g1_proceeds_frame`: once every selection step is complete only `claimPayment` changes the
      recorded proceeds (to zero), the price is frozen, the completion flags stay set;
    * `g1_claim_effect`: what an accepted vested claim does to the vesting ledger — the caller's
      booked amount becomes EXACTLY the schedule's released part of his entitlement at the round of
      the call, the contract pays exactly the increment, nobody else is touched;
    * `g1_Later` (accepted calls and the passing of time after a reachable state) and
      `g1_later_frozen`: once the confirmation period has started and a schedule is stored,
      neither the schedule nor the confirmation start round ever changes again, and a settled
      participant's entitlement never changes.
-/
namespace LP
open LP.FY LP.Events

/-! ### the recorded proceeds and the vesting records once every selection step is complete -/

theorem g1_done_frame {T0 : Nat} {hash : List Nat → List Nat} {s s' : State} {e : Env} {c : Call}
    {o : Out} {r : Nat} (h : g1_WF T0 s r) (hr : r ≤ e.round) (hd : AllDone s)
    (hs : step hash s e c = .ok (s', o)) :
    s'.price = s.price ∧ s'.flags = s.flags ∧
    (s'.claimablePayment = s.claimablePayment ∨ (c = .claimPayment ∧ s'.claimablePayment = 0)) ∧
    (c ≠ .claim → s'.userTotal = s.userTotal ∧ s'.userClaimed = s.userClaimed ∧
      s'.claimed = s.claimed) := by
  have hD : PhD s.core := v1_phase_D h.phase hd.2
  have hst : s.flags.started = true := hD.started
  obtain ⟨hc1, hc2⟩ := h.tlStarted hst
  have hfil : s.flags.filtered = true := hD.filtered
  have hex := g1_exposed h.var hs
  have hnotAdd : s.stage e ≠ .addTickets := fun hh => by have := rb_stage_addTickets hh; omega
  have hnotConf : s.stage e ≠ .confirm := fun hh => by have := (rb_stage_confirm hh).2; omega
  cases c with
  | addTicketsV1 l =>
    exact absurd (LP.Props.C06.alloc_only_in_addTickets hash s e _ _ (Or.inr (Or.inl ⟨l, rfl⟩)) hs) hnotAdd
  | setTicketPrice tok a =>
    exact absurd (LP.Props.C06.terms_only_in_addTickets hash s e _ _ (Or.inl ⟨tok, a, rfl⟩) hs) hnotAdd
  | setPerTicket a =>
    exact absurd (LP.Props.C06.terms_only_in_addTickets hash s e _ _ (Or.inr (Or.inl ⟨a, rfl⟩)) hs) hnotAdd
  | confirm n =>
    exact absurd (LP.Props.C06.confirm_only_in_confirm hash s e _ _ (Or.inl ⟨n, rfl⟩) hs) hnotConf
  | blacklist l =>
    rcases LP.Props.C06.blacklist_only_before_selection hash s e _ _ (Or.inl ⟨l, rfl⟩) hs with hh | hh
    · exact absurd hh hnotAdd
    · exact absurd hh hnotConf
  | unblacklist l =>
    rcases LP.Props.C06.blacklist_only_before_selection hash s e _ _ (Or.inr (Or.inr ⟨l, rfl⟩)) hs with hh | hh
    · exact absurd hh hnotAdd
    · exact absurd hh hnotConf
  | filter =>
    have := (LP.Props.C06.filter_gate hash s e _ hs).2
    rw [hfil] at this; cases this
  | select =>
    have := (LP.Props.C06.select_gate hash s e _ hs).2.2
    rw [hd.1] at this; cases this
  | distribute =>
    exfalso
    obtain ⟨t, hx, _, _⟩ := LP.Props.C20.step_nopay_inv (by
      intro m hm; simp only [endpointMeta] at hm; split at hm
      · simp at hm; rw [← hm]
      · cases hm) hs
    simp only [exec] at hx
    have := (distribute_ok_cases hash _ t e hx).1.notDone
    have h2 : s.flags.additional = true := hd.2
    simp only [LP.Props.C20.txOf] at this
    rw [h2] at this; cases this
  | setConfStart x =>
    obtain ⟨t, hx, rfl⟩ := rb_step_np (by intro m hm; simp [endpointMeta] at hm; rw [← hm]) hs
    have := (exec_setConfStart_s hx).2.1
    have : e.round < s.cfg.conf := this
    omega
  | setSelStart x =>
    obtain ⟨t, hx, rfl⟩ := rb_step_np (by intro m hm; simp [endpointMeta] at hm; rw [← hm]) hs
    have := (exec_setSelStart_s hx).2.1
    have : e.round < s.cfg.sel := this
    omega
  | setClaimStart x =>
    obtain ⟨t, hx, rfl⟩ := rb_step_np (by intro m hm; simp [endpointMeta] at hm; rw [← hm]) hs
    rw [(exec_setClaimStart_s hx).1]
    exact ⟨rfl, rfl, Or.inl rfl, fun _ => ⟨rfl, rfl, rfl⟩⟩
  | setSupport a =>
    obtain ⟨t, hx, rfl⟩ := rb_step_np (by intro m hm; simp [endpointMeta] at hm; rw [← hm]) hs
    simp only [exec, pure_ok_iff] at hx
    subst hx
    exact ⟨rfl, rfl, Or.inl rfl, fun _ => ⟨rfl, rfl, rfl⟩⟩
  | pause =>
    obtain ⟨t, hx, rfl⟩ := rb_step_np (by intro m hm; simp [endpointMeta] at hm; rw [← hm]) hs
    simp only [exec, pure_ok_iff] at hx
    subst hx
    exact ⟨rfl, rfl, Or.inl rfl, fun _ => ⟨rfl, rfl, rfl⟩⟩
  | unpause =>
    obtain ⟨t, hx, rfl⟩ := rb_step_np (by intro m hm; simp [endpointMeta] at hm; rw [← hm]) hs
    simp only [exec, pure_ok_iff] at hx
    subst hx
    exact ⟨rfl, rfl, Or.inl rfl, fun _ => ⟨rfl, rfl, rfl⟩⟩
  | deposit =>
    obtain ⟨m, t, _, _, _, hx, rfl, _⟩ := step_ok_inv hs
    rw [(exec_deposit_s hx).2]
    exact ⟨rfl, rfl, Or.inl rfl, fun _ => ⟨rfl, rfl, rfl⟩⟩
  | setSchedule1 a b c d f =>
    rw [setSchedule1_sched1 hs]
    exact ⟨rfl, rfl, Or.inl rfl, fun _ => ⟨rfl, rfl, rfl⟩⟩
  | claim =>
    obtain ⟨t, hx, rfl⟩ := rb_step_np (by intro m hm; simp [endpointMeta] at hm; rw [← hm]) hs
    obtain ⟨hvest, _, hv2, _⟩ := g1_flags h.var
    simp only [exec, rbTx_s, hvest, if_true] at hx
    obtain ⟨t1, c, h1, _, hts, _⟩ := g1_claimVested_state hv2 hx
    rcases v2_claimSettle_state h1 with ⟨_, rfl⟩ | ⟨_, _, rg, B, _, _, ht1, _⟩
    · rw [hts]; exact ⟨rfl, rfl, Or.inl rfl, fun hc => absurd rfl hc⟩
    · rw [hts, ht1]; exact ⟨rfl, rfl, Or.inl rfl, fun hc => absurd rfl hc⟩
  | claimPayment =>
    obtain ⟨t, hx, rfl⟩ := rb_step_np (by intro m hm; simp [endpointMeta] at hm; rw [← hm]) hs
    obtain ⟨hvest, _, hv2, _⟩ := g1_flags h.var
    simp only [exec, rbTx_s, hvest, if_true] at hx
    obtain ⟨_, _, _, hts⟩ := v2_claimPaymentOwn_state h.tokNe hx
    rw [hts]
    exact ⟨rfl, rfl, Or.inr ⟨rfl, rfl⟩, fun _ => ⟨rfl, rfl, rfl⟩⟩
  | _ => exact absurd hex id

theorem g1_proceeds_frame {T0 : Nat} {hash : List Nat → List Nat} {s s' : State} {e : Env} {c : Call}
    {o : Out} {r : Nat} (h : g1_WF T0 s r) (hr : r ≤ e.round) (hd : AllDone s)
    (hs : step hash s e c = .ok (s', o)) :
    s'.price = s.price ∧ s'.flags = s.flags ∧
    (s'.claimablePayment = s.claimablePayment ∨ (c = .claimPayment ∧ s'.claimablePayment = 0)) := by
  obtain ⟨h1, h2, h3, _⟩ := g1_done_frame h hr hd hs
  exact ⟨h1, h2, h3⟩

/-! ### the effect of a vested claim on the vesting ledger -/

/-- **an accepted claim, first or repeat, from a well-formed state**: the schedule and the terms
    are untouched; afterwards the caller's booked amount is EXACTLY the released part of his
    entitlement at the round of the call (whatever he claimed before: path independence); the
    booked amount did not decrease; the contract's launchpad-token balance dropped by exactly the
    increment; nobody else's record changed; the entitlement is unchanged on a repeat claim and is
    `winning tickets × perTicket` (with nothing booked before) on the first claim. -/
theorem g1_claim_effect {T0 : Nat} {hash : List Nat → List Nat} {s s' : State} {e : Env} {o : Out}
    {r : Nat} (h : g1_WF T0 s r) (hr : r ≤ e.round)
    (hs : step hash s e .claim = .ok (s', o)) :
    s'.sched1 = s.sched1 ∧ s'.perTicket = s.perTicket ∧ s'.lpTok = s.lpTok ∧ s'.cfg = s.cfg ∧
    s'.userClaimed e.caller = entitled (s'.userTotal e.caller) (pct1 e.round s.sched1) ∧
    s.userClaimed e.caller ≤ s'.userClaimed e.caller ∧
    s'.bal (.esdt s.lpTok) 0 + (s'.userClaimed e.caller - s.userClaimed e.caller)
      = s.bal (.esdt s.lpTok) 0 ∧
    (∀ a, a ≠ e.caller → s'.userClaimed a = s.userClaimed a ∧ s'.userTotal a = s.userTotal a ∧
      s'.claimed a = s.claimed a) ∧
    s'.claimed e.caller = true ∧
    (s.claimed e.caller = true → s'.userTotal e.caller = s.userTotal e.caller) ∧
    (s.claimed e.caller = false →
      s'.userTotal e.caller = winCountOf s e.caller * s.perTicket ∧ s.userClaimed e.caller = 0 ∧
      s.stage e = .claim) := by
  obtain ⟨t, hx, rfl⟩ := rb_step_np (by intro m hm; simp [endpointMeta] at hm; rw [← hm]) hs
  obtain ⟨hvest, _, hv2, _⟩ := g1_flags h.var
  simp only [exec, rbTx_s, hvest, if_true] at hx
  obtain ⟨t1, c, h1, hcl1, hts, hcle⟩ := g1_claimVested_state hv2 hx
  have hvs := h.vs
  have hl := hvs.lp
  have hne : Token.esdt s.lpTok ≠ s.payTok := fun hh => h.tokNe hh.symm
  have hexs : ∀ a, s.userClaimed a = 0 ∨
      ∃ r', r' ≤ e.round ∧ s.userClaimed a = entitled (s.userTotal a) (pct1 r' s.sched1) :=
    (hvs.mono hr).exact
  rcases v2_claimSettle_state h1 with ⟨hcl, rfl⟩ | ⟨hcl, hst, rg, B, hrg, hle, ht1, hBle, hBo, hBpay⟩
  · simp only [rbTx_s] at hcl1 hcle
    have hex := g1_claimable1_exact hcl1 (hexs e.caller)
    rw [hts]
    refine ⟨rfl, rfl, rfl, rfl, ?_, ?_, ?_, ?_, hcl, fun _ => rfl, fun hq => ?_⟩
    · show upd s.userClaimed e.caller (s.userClaimed e.caller + c) e.caller = _
      rw [upd_same]; exact hex
    · show s.userClaimed e.caller ≤ upd s.userClaimed e.caller (s.userClaimed e.caller + c) e.caller
      rw [upd_same]; omega
    · show (s.bal.sub (.esdt s.lpTok) 0 c) (.esdt s.lpTok) 0 +
        (upd s.userClaimed e.caller (s.userClaimed e.caller + c) e.caller - s.userClaimed e.caller) = _
      rw [upd_same]
      simp only [Bal.sub, and_self, if_true]
      omega
    · intro a ha
      refine ⟨?_, rfl, rfl⟩
      show upd s.userClaimed e.caller (s.userClaimed e.caller + c) a = _
      rw [upd_other _ _ _ _ ha]
    · rw [hcl] at hq; cases hq
  · obtain ⟨hsel, hadd, hc1, hc2⟩ := v1_stage_claim hst
    have hlp1 : t1.s.lpTok = s.lpTok := by rw [ht1]; rfl
    have hbal1 : t1.s.bal = B := by rw [ht1]
    have hBlp : B (.esdt s.lpTok) 0 = s.bal (.esdt s.lpTok) 0 := hBo _ _ hne
    have hpost := hl.post hadd
    have hut0 : s.userTotal e.caller = 0 := hpost.unclaimed e.caller hcl
    have huc0 : s.userClaimed e.caller = 0 := Nat.le_zero.mp (hut0 ▸ hpost.le e.caller)
    have hut : (if redeemOf s rg > 0 then upd s.userTotal e.caller (redeemOf s rg * s.perTicket)
        else s.userTotal) = upd s.userTotal e.caller (redeemOf s rg * s.perTicket) := by
      by_cases hk0 : redeemOf s rg > 0
      · rw [if_pos hk0]
      · rw [if_neg hk0]
        have : redeemOf s rg = 0 := by omega
        rw [this, Nat.zero_mul, ← hut0, upd_self_val]
    have hwc : winCountOf s e.caller = redeemOf s rg := by
      simp only [winCountOf, hrg, redeemOf, (rb_clearRange_spec s.status s.posToId rg.first (rangeLen rg)).2.2]
    have hcle' : c ≤ s.bal (.esdt s.lpTok) 0 := by
      rw [hlp1, hbal1, hBlp] at hcle; exact hcle
    have hex : s.userClaimed e.caller + c
        = entitled (redeemOf s rg * s.perTicket) (pct1 e.round s.sched1) := by
      have h0 : t1.s.userClaimed e.caller = 0 ∨ ∃ r', r' ≤ e.round ∧ t1.s.userClaimed e.caller
          = entitled (t1.s.userTotal e.caller) (pct1 r' t1.s.sched1) := by
        left; rw [ht1]; exact huc0
      have := g1_claimable1_exact hcl1 h0
      rw [ht1] at this
      have this' : s.userClaimed e.caller + c = entitled ((if redeemOf s rg > 0
        then upd s.userTotal e.caller (redeemOf s rg * s.perTicket) else s.userTotal) e.caller)
          (pct1 e.round s.sched1) := this
      rw [hut, upd_same] at this'
      exact this'
    rw [hts, hlp1, hbal1, ht1]
    refine ⟨rfl, rfl, rfl, rfl, ?_, ?_, ?_, ?_, ?_, fun hq => ?_, fun _ => ⟨?_, huc0, hst⟩⟩
    · show upd s.userClaimed e.caller (s.userClaimed e.caller + c) e.caller
        = entitled ((if redeemOf s rg > 0 then upd s.userTotal e.caller (redeemOf s rg * s.perTicket)
            else s.userTotal) e.caller) (pct1 e.round s.sched1)
      rw [hut, upd_same, upd_same]; exact hex
    · show s.userClaimed e.caller ≤ upd s.userClaimed e.caller (s.userClaimed e.caller + c) e.caller
      rw [upd_same]; omega
    · show (B.sub (.esdt s.lpTok) 0 c) (.esdt s.lpTok) 0 +
        (upd s.userClaimed e.caller (s.userClaimed e.caller + c) e.caller - s.userClaimed e.caller) = _
      rw [upd_same]
      simp only [Bal.sub, and_self, if_true, hBlp]
      omega
    · intro a ha
      refine ⟨?_, ?_, ?_⟩
      · show upd s.userClaimed e.caller (s.userClaimed e.caller + c) a = _
        rw [upd_other _ _ _ _ ha]
      · show (if redeemOf s rg > 0 then upd s.userTotal e.caller (redeemOf s rg * s.perTicket)
            else s.userTotal) a = _
        rw [hut, upd_other _ _ _ _ ha]
      · show upd s.claimed e.caller true a = _
        rw [upd_other _ _ _ _ ha]
    · show upd s.claimed e.caller true e.caller = true
      rw [upd_same]
    · rw [hcl] at hq; cases hq
    · show (if redeemOf s rg > 0 then upd s.userTotal e.caller (redeemOf s rg * s.perTicket)
          else s.userTotal) e.caller = _
      rw [hut, upd_same, hwc]

/-! ### later states -/

/-- `g1_Later hash s r s2 r2`: `s2` (at round `r2`) is reached from `s` (at round `r`) by accepted
    calls with non-decreasing rounds and by the passing of time -/
inductive g1_Later (hash : List Nat → List Nat) (s : State) (r : Nat) : State → Nat → Prop
  | refl : g1_Later hash s r s r
  | call (s1 : State) (r1 : Nat) (e : Env) (c : Call) (s2 : State) (o : Out) :
      g1_Later hash s r s1 r1 → r1 ≤ e.round → EnvOK e → v1_CallOK c →
      step hash s1 e c = .ok (s2, o) → g1_Later hash s r s2 e.round
  | wait (s1 : State) (r1 r2 : Nat) : g1_Later hash s r s1 r1 → r1 ≤ r2 → g1_Later hash s r s1 r2

theorem g1_Later.reach {hash : List Nat → List Nat} {a0 : InitArgs} {s : State} {r : Nat}
    (h : g1_ReachA hash a0 s r) {s2 : State} {r2 : Nat} (hl : g1_Later hash s r s2 r2) :
    g1_ReachA hash a0 s2 r2 ∧ r ≤ r2 := by
  induction hl with
  | refl => exact ⟨h, Nat.le_refl _⟩
  | call s1 r1 e c s2 o _ k1 k2 k3 k4 ih => exact ⟨.call s1 r1 e c s2 o ih.1 k1 k2 k3 k4, by have := ih.2; omega⟩
  | wait s1 r1 r2 _ k1 ih => exact ⟨.wait s1 r1 r2 ih.1 k1, by have := ih.2; omega⟩

/-- **the schedule is frozen once the confirmation period has started**: from a state in which
    the confirmation start round has been reached and a schedule is stored, no later state has a
    different schedule or a different confirmation start round (C17 `sched1_frozen`,
    `conf_frozen_once_reached`, along the reachability relation) -/
theorem g1_later_frozen {hash : List Nat → List Nat} {s : State} {r : Nat} {sc : Sched1}
    (hconf : s.cfg.conf ≤ r) (hsc : s.sched1 = some sc) {s2 : State} {r2 : Nat}
    (hl : g1_Later hash s r s2 r2) :
    s2.sched1 = some sc ∧ s2.cfg.conf = s.cfg.conf ∧ r ≤ r2 := by
  induction hl with
  | refl => exact ⟨hsc, rfl, Nat.le_refl _⟩
  | call s1 r1 e c s2 o _ k1 _ _ k4 ih =>
    obtain ⟨i1, i2, i3⟩ := ih
    have hge : s1.cfg.conf ≤ e.round := by rw [i2]; omega
    have hst : s1.stage e ≠ .addTickets := (LP.Props.C17.stage_ne_addTickets_iff s1 e).2 hge
    have h1 := LP.Props.C17.sched1_frozen k4 hst (by rw [i1]; exact nofun)
    have h2 := conf_frozen_once_reached k4 hge
    exact ⟨by rw [h1]; exact i1, by rw [h2]; exact i2, by omega⟩
  | wait s1 r1 r2 _ k1 ih => exact ⟨ih.1, ih.2.1, by have := ih.2.2; omega⟩

/-- a settled participant has settled after the distribution: every selection step is complete -/
theorem g1_settled_done {T0 : Nat} {s : State} {r : Nat} (h : g1_WF T0 s r) {a : Nat}
    (hcl : s.claimed a = true) : AllDone s := by
  have hadd : s.flags.additional = true := by
    cases hq : s.flags.additional with
    | true => rfl
    | false =>
      have := (h.vs.fresh hq a).2.2
      have this' : s.claimed a = false := this
      rw [hcl] at this'; cases this'
  exact ⟨(v1_phase_D h.phase hadd).selected, hadd⟩

/-- **a settled participant's entitlement never changes**, he stays settled, his booked amount
    never decreases, and the completion flags stay set -/
theorem g1_later_settled {hash : List Nat → List Nat} {a0 : InitArgs} {s : State} {r : Nat}
    (h : g1_ReachA hash a0 s r) {a : Nat} (hcl : s.claimed a = true) {s2 : State} {r2 : Nat}
    (hl : g1_Later hash s r s2 r2) :
    s2.claimed a = true ∧ s2.userTotal a = s.userTotal a ∧ s.userClaimed a ≤ s2.userClaimed a ∧
    AllDone s2 := by
  induction hl with
  | refl => exact ⟨hcl, rfl, Nat.le_refl _, g1_settled_done (g1_reach_WF h) hcl⟩
  | call s1 r1 e c s2 o hl1 k1 k2 k3 k4 ih =>
    obtain ⟨i1, i2, i3, i4⟩ := ih
    have hwf := g1_reach_WF (g1_Later.reach h hl1).1
    obtain ⟨_, hfl, _, hfr⟩ := g1_done_frame hwf k1 i4 k4
    have hd2 : AllDone s2 := by unfold AllDone; rw [hfl]; exact i4
    by_cases hc : c = .claim
    · subst hc
      obtain ⟨_, _, _, _, _, j6, _, j8, j9, j10, _⟩ := g1_claim_effect hwf k1 k4
      by_cases hae : a = e.caller
      · subst hae
        exact ⟨j9, by rw [j10 i1]; exact i2, by omega, hd2⟩
      · obtain ⟨q1, q2, q3⟩ := j8 a hae
        exact ⟨by rw [q3]; exact i1, by rw [q2]; exact i2, by rw [q1]; exact i3, hd2⟩
    · obtain ⟨q1, q2, q3⟩ := hfr hc
      exact ⟨by rw [q3]; exact i1, by rw [q1]; exact i2, by rw [q2]; exact i3, hd2⟩
  | wait s1 r1 r2 _ k1 ih => exact ih

end LP
