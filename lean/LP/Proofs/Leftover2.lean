import LP.Proofs.Leftover
import LP.Proofs.FY
import LP.Proofs.Loop
/-
  LP.Proofs.Leftover2 — the leftover re-draw loop (`leftoverBody`) as a whole:
  invariant, termination (v2), final count, draw accounting, chunked execution, v1 facts.
-/
namespace LP
open LP.FY

/-! ### one iteration, all outcomes, both versions -/

/-- the "all tickets already win" test at the head of the closure -/
def lFull (nrOrig last : Nat) (x : LSt) : Prop := nrOrig + x.additional ≥ last

instance (nrOrig last : Nat) (x : LSt) : Decidable (lFull nrOrig last x) := by
  unfold lFull; exact inferInstance

/-- the id at the current position -/
def lCurId (nrOrig : Nat) (x : LSt) : Nat := idFromPos x.posToId (nrOrig + x.offset)

/-- exhaustive description of one iteration (any version). -/
theorem leftoverBody_cases (hash : List Nat → List Nat) (v2 : Bool) (nrOrig last : Nat) (x : LSt) :
    -- STOP
    ((lFull nrOrig last x ∨ x.leftover = 0) ∧
      leftoverBody hash v2 nrOrig last x =
        .ok ({ x with leftover := if lFull nrOrig last x then 0 else x.leftover }, false)) ∨
    -- SKIP (current ticket already wins)
    (¬ lFull nrOrig last x ∧ x.leftover ≠ 0 ∧ x.status (lCurId nrOrig x) = true ∧
      leftoverBody hash v2 nrOrig last x = .ok ({ x with offset := x.offset + 1 }, true)) ∨
    (∃ raw rng' tx', x.tx.draw hash x.rng = (raw, rng', tx') ∧
      ¬ lFull nrOrig last x ∧ x.leftover ≠ 0 ∧ x.status (lCurId nrOrig x) = false ∧
      -- SWAP (v2) / RETRY (v1): drawn ticket already wins
      ((x.status (idFromPos x.posToId (inRange raw (nrOrig + x.offset) (last + 1))) = true ∧
        leftoverBody hash v2 nrOrig last x =
          .ok (if v2 then
                { x with rng := rng', tx := tx',
                         posToId := upd (upd x.posToId (nrOrig + x.offset)
                            (idFromPos x.posToId (inRange raw (nrOrig + x.offset) (last + 1))))
                            (inRange raw (nrOrig + x.offset) (last + 1)) (lCurId nrOrig x),
                         offset := x.offset + 1 }
               else { x with rng := rng', tx := tx' }, true)) ∨
      -- OK: drawn ticket newly wins
       (x.status (idFromPos x.posToId (inRange raw (nrOrig + x.offset) (last + 1))) = false ∧
        leftoverBody hash v2 nrOrig last x =
          .ok ({ x with rng := rng', tx := tx',
                        posToId := upd x.posToId (inRange raw (nrOrig + x.offset) (last + 1))
                            (lCurId nrOrig x),
                        status := upd x.status
                            (idFromPos x.posToId (inRange raw (nrOrig + x.offset) (last + 1))) true,
                        leftover := x.leftover - 1, additional := x.additional + 1,
                        offset := x.offset + 1 }, true)))) := by
  unfold leftoverBody lFull lCurId
  by_cases hfull : nrOrig + x.additional ≥ last
  · left
    exact ⟨Or.inl hfull, by simp [hfull]⟩
  · simp only [hfull, if_false]
    by_cases hlo : x.leftover = 0
    · left
      refine ⟨Or.inr hlo, ?_⟩
      obtain ⟨a, b, c, d, e, f, g⟩ := x
      simp only at hlo
      subst hlo
      simp
    · simp only [hlo, if_false]
      right
      by_cases hcur : x.status (idFromPos x.posToId (nrOrig + x.offset)) = true
      · left
        exact ⟨not_false, hlo, hcur, by simp [hcur]⟩
      · right
        simp only [hcur, Bool.false_eq_true, if_false]
        rcases hd : x.tx.draw hash x.rng with ⟨raw, rng', tx'⟩
        refine ⟨raw, rng', tx', rfl, not_false, hlo, by simp, ?_⟩
        simp only []
        by_cases hsel : x.status (idFromPos x.posToId
            (inRange raw (nrOrig + x.offset) (last + 1))) = true
        · left
          refine ⟨hsel, ?_⟩
          simp only [hsel, if_true]
          cases v2 <;> simp
        · right
          refine ⟨by simpa using hsel, ?_⟩
          simp only [hsel, Bool.false_eq_true, if_false]

/-! ### counting lemmas -/

theorem countTrue_le (st : Nat → Bool) (m : Nat) : countTrue st m ≤ m := by
  induction m with
  | zero => simp [countTrue]
  | succ m ih => rw [countTrue]; split <;> omega

theorem countTrue_congr (st st' : Nat → Bool) (m : Nat)
    (h : ∀ t, 1 ≤ t → t ≤ m → st' t = st t) : countTrue st' m = countTrue st m := by
  induction m with
  | zero => simp [countTrue]
  | succ m ih =>
    rw [countTrue, countTrue, ih (fun t h1 h2 => h t h1 (by omega)), h (m + 1) (by omega) (by omega)]

/-- marking one not-yet-winning id of `1..m` raises the count by exactly one -/
theorem countTrue_upd (st : Nat → Bool) (m t : Nat) (h1 : 1 ≤ t) (h2 : t ≤ m)
    (hf : st t = false) : countTrue (upd st t true) m = countTrue st m + 1 := by
  induction m with
  | zero => omega
  | succ m ih =>
    rw [countTrue, countTrue]
    by_cases e : t = m + 1
    · subst e
      rw [countTrue_congr st (upd st (m + 1) true) m
        (fun u _ hu => upd_other _ _ _ _ (by omega)), upd_same, hf]
      simp
    · rw [ih (by omega), upd_other _ _ _ _ (fun e' => e e'.symm)]
      omega

/-- marking an id outside `1..m` does not change the count -/
theorem countTrue_upd_out (st : Nat → Bool) (m t : Nat) (v : Bool) (h : t < 1 ∨ m < t) :
    countTrue (upd st t v) m = countTrue st m :=
  countTrue_congr _ _ _ (fun u h1 h2 => upd_other _ _ _ _ (by omega))

/-- fewer than `m` winners: some id of `1..m` is not winning -/
theorem exists_false_of_countTrue_lt (st : Nat → Bool) (m : Nat) (h : countTrue st m < m) :
    ∃ t, 1 ≤ t ∧ t ≤ m ∧ st t = false := by
  induction m with
  | zero => omega
  | succ m ih =>
    rw [countTrue] at h
    by_cases e : st (m + 1) = true
    · rw [e] at h
      obtain ⟨t, a, b, c⟩ := ih (by simpa using h)
      exact ⟨t, a, by omega, c⟩
    · exact ⟨m + 1, by omega, by omega, by simpa using e⟩

/-- `m` winners among `1..m`: every id wins -/
theorem all_true_of_countTrue_eq (st : Nat → Bool) (m : Nat) (h : countTrue st m = m) :
    ∀ t, 1 ≤ t → t ≤ m → st t = true := by
  induction m with
  | zero => intro t h1 h2; omega
  | succ m ih =>
    rw [countTrue] at h
    have hle := countTrue_le st m
    by_cases e : st (m + 1) = true
    · rw [e] at h
      intro t h1 h2
      by_cases e' : t = m + 1
      · subst e'; exact e
      · exact ih (by simpa using h) t h1 (by omega)
    · simp only [e, Bool.false_eq_true, if_false] at h
      omega

/-! ### the position/flag invariant -/

/-- `k = nrOrig + offset` is the current position.  Positions `k..last` hold pairwise distinct
    ids of `1..last`; every id of `1..last` that is not at one of these positions wins
    ("consumed positions hold winners"); all winning flags are inside `1..last`. -/
structure PosInv (last : Nat) (status : Nat → Bool) (f : Nat → Nat) (k : Nat) : Prop where
  pos : 1 ≤ k
  bound : k ≤ last + 1
  range : ∀ p, k ≤ p → p ≤ last → 1 ≤ idFromPos f p ∧ idFromPos f p ≤ last
  distinct : PosDistinct last f k
  cover : ∀ t, 1 ≤ t → t ≤ last → status t = false → ∃ p, k ≤ p ∧ p ≤ last ∧ idFromPos f p = t
  inside : ∀ t, status t = true → 1 ≤ t ∧ t ≤ last

/-- if some ticket does not win yet, there is an unconsumed position -/
theorem PosInv.lt_of_count {last k : Nat} {st : Nat → Bool} {f : Nat → Nat}
    (h : PosInv last st f k) (hc : countTrue st last < last) : k ≤ last := by
  obtain ⟨t, h1, h2, h3⟩ := exists_false_of_countTrue_lt st last hc
  obtain ⟨p, a, b, _⟩ := h.cover t h1 h2 h3
  omega

/-- all positions consumed: every ticket wins -/
theorem PosInv.all_win {last k : Nat} {st : Nat → Bool} {f : Nat → Nat}
    (h : PosInv last st f k) (hk : k = last + 1) : countTrue st last = last := by
  have := countTrue_le st last
  by_cases hc : countTrue st last < last
  · have := h.lt_of_count hc; omega
  · omega

/-- SKIP outcome -/
theorem PosInv.skip {last k : Nat} {st : Nat → Bool} {f : Nat → Nat}
    (h : PosInv last st f k) (hk : k ≤ last) (hw : st (idFromPos f k) = true) :
    PosInv last st f (k + 1) where
  pos := by omega
  bound := by omega
  range := fun p h1 h2 => h.range p (by omega) h2
  distinct := fun p q h1 h2 h3 => h.distinct p q (by omega) h2 h3
  cover := by
    intro t h1 h2 h3
    obtain ⟨p, a, b, c⟩ := h.cover t h1 h2 h3
    refine ⟨p, ?_, b, c⟩
    by_cases e : p = k
    · subst e; rw [c, h3] at hw; cases hw
    · omega
  inside := h.inside

/-- SWAP and OK outcomes: the id of the current position moves to `rp ∈ [k, last]`, the id
    found there becomes (or already is) winning. -/
theorem PosInv.move {last k rp : Nat} {st st' : Nat → Bool} {f f' : Nat → Nat}
    (h : PosInv last st f k) (hk : k ≤ last) (hcur : st (idFromPos f k) = false)
    (h1 : k ≤ rp) (h2 : rp ≤ last)
    (hf : ∀ p, k < p → idFromPos f' p = if p = rp then idFromPos f k else idFromPos f p)
    (hst : ∀ t, st' t = true ↔ (st t = true ∨ t = idFromPos f rp)) :
    PosInv last st' f' (k + 1) where
  pos := by omega
  bound := by omega
  range := by
    intro p a b
    rw [hf p (by omega)]
    split
    · exact h.range k (Nat.le_refl _) hk
    · exact h.range p (by omega) b
  distinct := h.distinct.write hf
  cover := by
    intro t a b c
    have hn : ¬ (st t = true ∨ t = idFromPos f rp) := fun hh => by
      rw [(hst t).mpr hh] at c; cases c
    have c1 : st t = false := by
      cases e : st t with
      | false => rfl
      | true => exact absurd (Or.inl e) hn
    have c2 : t ≠ idFromPos f rp := fun e => hn (Or.inr e)
    obtain ⟨p, pa, pb, pc⟩ := h.cover t a b c1
    by_cases e : p = k
    · subst e
      have : rp ≠ p := fun e' => by subst e'; exact c2 pc.symm
      refine ⟨rp, by omega, h2, ?_⟩
      rw [hf rp (by omega), if_pos rfl]; exact pc
    · refine ⟨p, by omega, pb, ?_⟩
      rw [hf p (by omega), if_neg (fun e' => by subst e'; exact c2 pc.symm)]
      exact pc
  inside := by
    intro t ht
    rcases (hst t).mp ht with e | e
    · exact h.inside t e
    · rw [e]; exact h.range rp h1 h2

/-! ### the loop invariant -/

/-- invariant of the leftover loop (both versions) -/
structure LInv (last nrOrig : Nat) (x : LSt) : Prop where
  pinv : PosInv last x.status x.posToId (nrOrig + x.offset)
  count : countTrue x.status last = nrOrig + x.additional

theorem LInv.le_last {last nrOrig : Nat} {x : LSt} (h : LInv last nrOrig x) :
    nrOrig + x.additional ≤ last := by
  rw [← h.count]; exact countTrue_le _ _

theorem LInv.cur_le {last nrOrig : Nat} {x : LSt} (h : LInv last nrOrig x)
    (hf : ¬ lFull nrOrig last x) : nrOrig + x.offset ≤ last := by
  apply h.pinv.lt_of_count
  rw [h.count]; unfold lFull at hf; omega

theorem idFromPos_upd_other (f : Nat → Nat) (a v p : Nat) (h : p ≠ a) :
    idFromPos (upd f a v) p = idFromPos f p := by
  unfold idFromPos; rw [upd_other _ _ _ _ h]

/-- what a progressing iteration (any version) does to the invariant: SKIP -/
theorem LInv.skip {last nrOrig : Nat} {x : LSt} (h : LInv last nrOrig x)
    (hf : ¬ lFull nrOrig last x) (hw : x.status (lCurId nrOrig x) = true) :
    LInv last nrOrig { x with offset := x.offset + 1 } where
  pinv := by
    have := h.pinv.skip (h.cur_le hf) hw
    simpa [Nat.add_assoc] using this
  count := h.count

/-- SWAP (v2) -/
theorem LInv.swap {last nrOrig : Nat} {x : LSt} (h : LInv last nrOrig x)
    (hf : ¬ lFull nrOrig last x) (hw : x.status (lCurId nrOrig x) = false) (raw : Nat)
    (rng' : Rng) (tx' : Tx)
    (hsel : x.status (idFromPos x.posToId (inRange raw (nrOrig + x.offset) (last + 1))) = true) :
    LInv last nrOrig
      { x with rng := rng', tx := tx',
               posToId := upd (upd x.posToId (nrOrig + x.offset)
                  (idFromPos x.posToId (inRange raw (nrOrig + x.offset) (last + 1))))
                  (inRange raw (nrOrig + x.offset) (last + 1)) (lCurId nrOrig x),
               offset := x.offset + 1 } where
  pinv := by
    have hk := h.cur_le hf
    have hge := inRange_ge raw (nrOrig + x.offset) (last + 1)
    have hlt := inRange_lt raw (nrOrig + x.offset) (last + 1) (by omega)
    have hcid := idFromPos_ne_zero x.posToId _ (show nrOrig + x.offset ≠ 0 by have := h.pinv.pos; omega)
    have := h.pinv.move (rp := inRange raw (nrOrig + x.offset) (last + 1)) (st' := x.status)
      (f' := upd (upd x.posToId (nrOrig + x.offset)
          (idFromPos x.posToId (inRange raw (nrOrig + x.offset) (last + 1))))
          (inRange raw (nrOrig + x.offset) (last + 1)) (lCurId nrOrig x))
      hk hw hge (by omega)
      (by
        intro p hp
        unfold lCurId
        rw [idFromPos_upd _ _ _ _ hcid]
        split
        · rfl
        · exact idFromPos_upd_other _ _ _ _ (by omega))
      (by
        intro t
        constructor
        · exact Or.inl
        · rintro (e | e)
          · exact e
          · rw [e]; exact hsel)
    simpa [Nat.add_assoc] using this
  count := h.count

/-- OK (any version) -/
theorem LInv.ok {last nrOrig : Nat} {x : LSt} (h : LInv last nrOrig x)
    (hf : ¬ lFull nrOrig last x) (hw : x.status (lCurId nrOrig x) = false) (raw : Nat)
    (rng' : Rng) (tx' : Tx)
    (hsel : x.status (idFromPos x.posToId (inRange raw (nrOrig + x.offset) (last + 1))) = false) :
    LInv last nrOrig
      { x with rng := rng', tx := tx',
               posToId := upd x.posToId (inRange raw (nrOrig + x.offset) (last + 1))
                  (lCurId nrOrig x),
               status := upd x.status
                  (idFromPos x.posToId (inRange raw (nrOrig + x.offset) (last + 1))) true,
               leftover := x.leftover - 1, additional := x.additional + 1,
               offset := x.offset + 1 } := by
  have hk := h.cur_le hf
  have hge := inRange_ge raw (nrOrig + x.offset) (last + 1)
  have hlt := inRange_lt raw (nrOrig + x.offset) (last + 1) (by omega)
  have hcid := idFromPos_ne_zero x.posToId _ (show nrOrig + x.offset ≠ 0 by have := h.pinv.pos; omega)
  constructor
  · have := h.pinv.move (rp := inRange raw (nrOrig + x.offset) (last + 1))
      (st' := upd x.status
            (idFromPos x.posToId (inRange raw (nrOrig + x.offset) (last + 1))) true)
      (f' := upd x.posToId (inRange raw (nrOrig + x.offset) (last + 1)) (lCurId nrOrig x))
      hk hw hge (by omega)
      (by
        intro p hp
        exact idFromPos_upd _ _ _ _ hcid)
      (by
        intro t
        rw [upd_apply]
        by_cases e : t = idFromPos x.posToId (inRange raw (nrOrig + x.offset) (last + 1))
        · simp [e]
        · simp [e])
    simpa [Nat.add_assoc] using this
  · have hr := h.pinv.range _ hge (by omega)
    show countTrue (upd x.status _ true) last = nrOrig + (x.additional + 1)
    rw [countTrue_upd _ _ _ hr.1 hr.2 hsel, h.count]
    omega

/-! ### classification of iterations, draw log -/

/-- every draw appends exactly the returned raw value to the draw log (scripted or not) -/
theorem draw_log (hash : List Nat → List Nat) (t : Tx) (r : Rng) :
    (t.draw hash r).2.2.o.draws = t.o.draws ++ [(t.draw hash r).1] := by
  unfold Tx.draw
  cases h : t.c.script <;> simp

/-- outcome of the iteration started in a state -/
inductive LKind where
  | stop | skip | redraw | ok
  deriving DecidableEq, Repr

/-- `redraw` is "NewlySelectedAlreadyWinning" (v2: positions swapped, move on; v1: try again) -/
def lKind (hash : List Nat → List Nat) (nrOrig last : Nat) (x : LSt) : LKind :=
  if lFull nrOrig last x ∨ x.leftover = 0 then .stop
  else if x.status (lCurId nrOrig x) then .skip
  else if x.status (idFromPos x.posToId
      (inRange (x.tx.draw hash x.rng).1 (nrOrig + x.offset) (last + 1))) then .redraw
  else .ok

/-- does the iteration consume a raw draw? -/
def LKind.draws : LKind → Nat
  | .redraw => 1
  | .ok => 1
  | _ => 0

/-- does the iteration hand out a reserved ticket? -/
def LKind.hands : LKind → Nat
  | .ok => 1
  | _ => 0

/-- Full specification of one iteration under the invariant (any version):
    it never fails, keeps the invariant, and does what its kind says. -/
theorem leftoverBody_spec (hash : List Nat → List Nat) (v2 : Bool) (nrOrig last : Nat) (x : LSt)
    (h : LInv last nrOrig x) :
    ∃ x', leftoverBody hash v2 nrOrig last x =
        .ok (x', decide (lKind hash nrOrig last x ≠ .stop)) ∧
      LInv last nrOrig x' ∧
      x'.tx.o.draws.length = x.tx.o.draws.length + (lKind hash nrOrig last x).draws ∧
      x'.additional = x.additional + (lKind hash nrOrig last x).hands ∧
      (lKind hash nrOrig last x = .stop →
        (lFull nrOrig last x ∨ x.leftover = 0) ∧ x' = { x with leftover := 0 }) ∧
      (lKind hash nrOrig last x = .skip →
        ¬ lFull nrOrig last x ∧ x.leftover ≠ 0 ∧ nrOrig + x.offset ≤ last ∧
        x' = { x with offset := x.offset + 1 }) ∧
      (lKind hash nrOrig last x = .redraw →
        ¬ lFull nrOrig last x ∧ x.leftover ≠ 0 ∧ nrOrig + x.offset ≤ last ∧
        x'.status = x.status ∧ x'.leftover = x.leftover ∧
        x'.offset = (if v2 then x.offset + 1 else x.offset) ∧
        (v2 = false → x'.posToId = x.posToId)) ∧
      (lKind hash nrOrig last x = .ok →
        ¬ lFull nrOrig last x ∧ nrOrig + x.offset ≤ last ∧
        x'.leftover + 1 = x.leftover ∧ x'.offset = x.offset + 1 ∧
        x'.tx.o.draws = x.tx.o.draws ++ [(x.tx.draw hash x.rng).1] ∧
        ∃ t, 1 ≤ t ∧ t ≤ last ∧ x.status t = false ∧ x'.status = upd x.status t true) := by
  rcases leftoverBody_cases hash v2 nrOrig last x with
    ⟨hs, hb⟩ | ⟨hf, hl, hw, hb⟩ | ⟨raw, rng', tx', hd, hf, hl, hw, ⟨hsel, hb⟩ | ⟨hsel, hb⟩⟩
  · have hk : lKind hash nrOrig last x = .stop := by unfold lKind; rw [if_pos hs]
    have hx : ({ x with leftover := if lFull nrOrig last x then 0 else x.leftover } : LSt)
        = { x with leftover := 0 } := by
      rcases hs with hs | hs
      · rw [if_pos hs]
      · rw [hs]; simp
    rw [hx] at hb
    refine ⟨{ x with leftover := 0 }, by rw [hb, hk]; rfl, ⟨h.pinv, h.count⟩, by rw [hk]; rfl,
      by rw [hk]; rfl, ?_⟩
    rw [hk]
    exact ⟨fun _ => ⟨hs, rfl⟩, (fun e => by cases e), (fun e => by cases e), (fun e => by cases e)⟩
  · have hk : lKind hash nrOrig last x = .skip := by
      unfold lKind; rw [if_neg (by intro e; rcases e with e | e; exact hf e; exact hl e), if_pos hw]
    refine ⟨_, by rw [hb, hk]; rfl, h.skip hf hw, by rw [hk]; rfl, by rw [hk]; rfl, ?_⟩
    rw [hk]
    exact ⟨(fun e => by cases e), fun _ => ⟨hf, hl, h.cur_le hf, rfl⟩, (fun e => by cases e),
      (fun e => by cases e)⟩
  · have hraw : (x.tx.draw hash x.rng).1 = raw := by rw [hd]
    have hlog := draw_log hash x.tx x.rng
    rw [hd] at hlog
    simp only at hlog
    have hk : lKind hash nrOrig last x = .redraw := by
      unfold lKind
      rw [if_neg (by intro e; rcases e with e | e; exact hf e; exact hl e), hw, hraw, hsel]; rfl
    refine ⟨_, by rw [hb, hk]; rfl, ?_, ?_, ?_, ?_⟩
    · cases v2
      · exact ⟨h.pinv, h.count⟩
      · exact h.swap hf hw raw rng' tx' hsel
    · rw [hk]; cases v2 <;> simp [hlog, LKind.draws]
    · rw [hk]; cases v2 <;> simp [LKind.hands]
    · rw [hk]
      refine ⟨(fun e => by cases e), (fun e => by cases e), fun _ => ⟨hf, hl, h.cur_le hf, ?_⟩,
        (fun e => by cases e)⟩
      cases v2 <;> simp
  · have hraw : (x.tx.draw hash x.rng).1 = raw := by rw [hd]
    have hlog := draw_log hash x.tx x.rng
    rw [hd] at hlog
    simp only at hlog
    have hk : lKind hash nrOrig last x = .ok := by
      unfold lKind
      rw [if_neg (by intro e; rcases e with e | e; exact hf e; exact hl e), hw, hraw, hsel]; rfl
    have hcur := h.cur_le hf
    have hge := inRange_ge raw (nrOrig + x.offset) (last + 1)
    have hlt := inRange_lt raw (nrOrig + x.offset) (last + 1) (by omega)
    have hr := h.pinv.range _ hge (by omega)
    refine ⟨_, by rw [hb, hk]; rfl, h.ok hf hw raw rng' tx' hsel, ?_, ?_, ?_⟩
    · rw [hk]; simp [hlog, LKind.draws]
    · rw [hk]; simp [LKind.hands]
    · rw [hk]
      refine ⟨(fun e => by cases e), (fun e => by cases e), (fun e => by cases e),
        fun _ => ⟨hf, hcur, ?_, rfl, ?_, _, hr.1, hr.2, hsel, rfl⟩⟩
      · show x.leftover - 1 + 1 = x.leftover
        omega
      · rw [hraw]; exact hlog

/-! ### v2: every continuing iteration consumes a position -/

theorem upd_true_mono (st : Nat → Bool) (t u : Nat) (h : st u = true) : upd st t true u = true := by
  rw [upd_apply]; split
  · rfl
  · exact h

/-- summary of a continuing iteration (any version); `offset` advances in v2 always, in v1
    unless the outcome is `redraw` -/
theorem leftoverBody_cont (hash : List Nat → List Nat) (v2 : Bool) (nrOrig last : Nat) (x : LSt)
    (h : LInv last nrOrig x) (hk : lKind hash nrOrig last x ≠ .stop) :
    ∃ x', leftoverBody hash v2 nrOrig last x = .ok (x', true) ∧ LInv last nrOrig x' ∧
      ¬ lFull nrOrig last x ∧ x.leftover ≠ 0 ∧ nrOrig + x.offset ≤ last ∧
      x'.leftover + x'.additional = x.leftover + x.additional ∧
      (∀ t, x.status t = true → x'.status t = true) ∧
      x'.tx.o.draws.length = x.tx.o.draws.length + (lKind hash nrOrig last x).draws ∧
      x'.additional = x.additional + (lKind hash nrOrig last x).hands ∧
      ((v2 = true ∨ lKind hash nrOrig last x ≠ .redraw) → x'.offset = x.offset + 1) ∧
      x.offset ≤ x'.offset := by
  obtain ⟨x', hb, hinv, hd, ha, _, h2, h3, h4⟩ := leftoverBody_spec hash v2 nrOrig last x h
  rw [decide_eq_true hk] at hb
  refine ⟨x', hb, hinv, ?_⟩
  cases hkind : lKind hash nrOrig last x with
  | stop => exact absurd hkind hk
  | skip =>
    obtain ⟨a, b, c, e⟩ := h2 hkind
    subst e
    exact ⟨a, b, c, rfl, fun t ht => ht, by rw [← hkind]; exact hd, by rw [← hkind]; exact ha,
      fun _ => rfl, Nat.le_succ _⟩
  | redraw =>
    obtain ⟨a, b, c, e1, e2, e3, _⟩ := h3 hkind
    rw [hkind] at ha hd
    refine ⟨a, b, c, by rw [e2, ha]; rfl, fun t ht => by rw [e1]; exact ht, hd, ha, ?_,
      by rw [e3]; split <;> omega⟩
    rintro (e | e)
    · rw [e3, e]; rfl
    · exact absurd rfl e
  | ok =>
    obtain ⟨a, c, e1, e2, _, t, _, _, _, e3⟩ := h4 hkind
    rw [hkind] at ha hd
    have hl : x.leftover ≠ 0 := by omega
    refine ⟨a, hl, c, ?_, fun u hu => by rw [e3]; exact upd_true_mono _ _ _ hu, hd, ha,
      fun _ => e2, by omega⟩
    rw [ha]; simp only [LKind.hands]; omega

/-- counts along a run: `w` of the kind of each iteration performed (at most `n`) -/
def lCount (hash : List Nat → List Nat) (v2 : Bool) (nrOrig last : Nat) (w : LKind → Nat) :
    Nat → LSt → Nat
  | 0, _ => 0
  | n + 1, x =>
    w (lKind hash nrOrig last x) +
      match leftoverBody hash v2 nrOrig last x with
      | .ok (x', true) => lCount hash v2 nrOrig last w n x'
      | _ => 0

/-- indicator of the iterations that consume a position without drawing -/
def LKind.skips : LKind → Nat
  | .skip => 1
  | _ => 0

/-- indicator of "NewlySelectedAlreadyWinning" -/
def LKind.redraws : LKind → Nat
  | .redraw => 1
  | _ => 0

theorem LKind.draws_eq (k : LKind) : k.draws = k.hands + k.redraws := by cases k <;> rfl

/-- **Termination and final state of the v2 loop.**  From any state satisfying the invariant
    the loop completes within `last + 1 - (nrOrig + offset) + 1` iterations (no error, no fuel
    exhaustion), whatever the draws are. -/
theorem leftover_v2_run (hash : List Nat → List Nat) (nrOrig last : Nat) :
    ∀ (n : Nat) (x : LSt), LInv last nrOrig x → last + 1 - (nrOrig + x.offset) < n →
      ∃ x', runWhile (leftoverBody hash true nrOrig last) n none x = .ok (x', none, .completed) ∧
        LInv last nrOrig x' ∧ x'.leftover = 0 ∧
        x'.additional = min (x.additional + x.leftover) (last - nrOrig) ∧
        (∀ t, x.status t = true → x'.status t = true) ∧
        x'.tx.o.draws.length = x.tx.o.draws.length + lCount hash true nrOrig last LKind.draws n x ∧
        x'.additional = x.additional + lCount hash true nrOrig last LKind.hands n x ∧
        x'.offset = x.offset + lCount hash true nrOrig last LKind.skips n x
          + lCount hash true nrOrig last LKind.draws n x := by
  intro n
  induction n with
  | zero => intro x _ hn; omega
  | succ n ih =>
    intro x h hn
    by_cases hk : lKind hash nrOrig last x = .stop
    · obtain ⟨x', hb, hinv, hd, ha, h1, _⟩ := leftoverBody_spec hash true nrOrig last x h
      rw [hk] at hb hd ha
      obtain ⟨hs, e⟩ := h1 hk
      subst e
      have hle := h.le_last
      refine ⟨_, runWhile_stop hb n none, hinv, rfl, ?_, fun t ht => ht, ?_, ?_, ?_⟩
      · show x.additional = _
        rcases hs with hs | hs
        · unfold lFull at hs; omega
        · omega
      · simp only [lCount, hk, hb]; rfl
      · simp only [lCount, hk, hb]; rfl
      · simp only [lCount, hk, hb]; rfl
    · obtain ⟨x1, hb, hinv, hf, hl, hc, hsum, hmono, hd, ha, ho, _⟩ :=
        leftoverBody_cont hash true nrOrig last x h hk
      have ho := ho (Or.inl rfl)
      obtain ⟨x', hr, hinv', hl', ha', hmono', hd', hh', ho'⟩ := ih x1 hinv (by omega)
      refine ⟨x', by rw [runWhile_cont_none hb]; exact hr, hinv', hl', by rw [ha']; omega,
        fun t ht => hmono' t (hmono t ht), ?_, ?_, ?_⟩
      · simp only [lCount, hb]; omega
      · simp only [lCount, hb]; omega
      · simp only [lCount, hb]
        rw [ho', ho]
        cases hkind : lKind hash nrOrig last x with
        | stop => exact absurd hkind hk
        | skip => simp only [LKind.skips, LKind.draws]; omega
        | redraw => simp only [LKind.skips, LKind.draws]; omega
        | ok => simp only [LKind.skips, LKind.draws]; omega

/-- the fuel `last + 2` used by `guaranteedSubstep` always suffices -/
theorem leftover_v2_terminates (hash : List Nat → List Nat) (nrOrig last : Nat) (x : LSt)
    (h : LInv last nrOrig x) :
    ∃ x', runWhile (leftoverBody hash true nrOrig last) (last + 2) none x
        = .ok (x', none, .completed) ∧
      LInv last nrOrig x' ∧ x'.leftover = 0 ∧
      x'.additional = min (x.additional + x.leftover) (last - nrOrig) ∧
      countTrue x'.status last = nrOrig + x'.additional ∧
      (∀ t, x.status t = true → x'.status t = true) ∧
      (∀ t, x'.status t = true → 1 ≤ t ∧ t ≤ last) := by
  obtain ⟨x', hr, hinv, hl, ha, hm, _⟩ := leftover_v2_run hash nrOrig last (last + 2) x h (by omega)
  exact ⟨x', hr, hinv, hl, ha, hinv.count, hm, hinv.pinv.inside⟩

/-! ### the invariant holds when the loop starts -/

/-- State left by the base lottery (`R last (nrOrig+1) st0 posToId arr`: `posToId` represents
    the Fisher–Yates array `arr`, `st0` flags `arr.take nrOrig`) with extra winning flags set by
    the top-up inside `1..last`, the counter `additional` counting them. -/
theorem LInv_init {last nrOrig additional : Nat} {st0 status : Nat → Bool} {posToId : Nat → Nat}
    {arr : List Nat} (hR : R last (nrOrig + 1) st0 posToId arr)
    (hsup : ∀ t, st0 t = true → status t = true)
    (hin : ∀ t, status t = true → 1 ≤ t ∧ t ≤ last)
    (hc : countTrue status last = nrOrig + additional) (rng : Rng) (leftover : Nat) (tx : Tx) :
    LInv last nrOrig ⟨status, posToId, rng, leftover, 1, additional, tx⟩ := by
  have hle := countTrue_le status last
  have hlen := hR.len
  have hp : PosInv last status posToId (nrOrig + 1) := by
    refine ⟨by omega, by omega, ?_, ?_, ?_, hin⟩
    · intro p h1 h2
      rw [hR.pos p h1 h2]
      exact hR.getD_range (p - 1) (by omega)
    · intro p q h1 h2 h3 e
      rw [hR.pos p h1 (by omega), hR.pos q (by omega) h3] at e
      have := getD_inj arr hR.nodup (p - 1) (q - 1) (by omega) (by omega) e
      omega
    · intro t h1 h2 h3
      have h0 : st0 t = false := by
        cases e : st0 t with
        | false => rfl
        | true => rw [hsup t e] at h3; cases h3
      have hmem : t ∈ arr := (hR.mem t).mpr ⟨h1, h2⟩
      obtain ⟨j, hj, ej⟩ := (mem_iff_getD arr t).mp hmem
      have hnot : ¬ t ∈ arr.take (nrOrig + 1 - 1) := fun hh => by
        rw [(hR.stat t).mpr hh] at h0; cases h0
      have hjge : nrOrig ≤ j := by
        by_cases hlt : j < nrOrig
        · exact absurd ((mem_take_iff_getD arr _ t).mpr ⟨j, by omega, hj, ej⟩) hnot
        · omega
      refine ⟨j + 1, by omega, by omega, ?_⟩
      rw [hR.pos (j + 1) (by omega) (by omega)]
      exact ej
  exact ⟨hp, hc⟩

/-! ### draws -/

theorem lCount_mono (hash : List Nat → List Nat) (v2 : Bool) (nrOrig last : Nat)
    (w w' : LKind → Nat) (hw : ∀ k, w k ≤ w' k) :
    ∀ (n : Nat) (x : LSt), lCount hash v2 nrOrig last w n x ≤ lCount hash v2 nrOrig last w' n x := by
  intro n
  induction n with
  | zero => intro x; simp [lCount]
  | succ n ih =>
    intro x
    simp only [lCount]
    have := hw (lKind hash nrOrig last x)
    split
    · have := ih ‹LSt›; omega
    · omega

/-- no more hand-outs than draws: every reserved ticket handed out costs one draw -/
theorem lCount_hands_le_draws (hash : List Nat → List Nat) (v2 : Bool) (nrOrig last n : Nat)
    (x : LSt) :
    lCount hash v2 nrOrig last LKind.hands n x ≤ lCount hash v2 nrOrig last LKind.draws n x :=
  lCount_mono hash v2 nrOrig last _ _ (fun k => by cases k <;> simp [LKind.hands, LKind.draws]) n x

theorem lCount_add (hash : List Nat → List Nat) (v2 : Bool) (nrOrig last : Nat)
    (w w' : LKind → Nat) :
    ∀ (n : Nat) (x : LSt), lCount hash v2 nrOrig last (fun k => w k + w' k) n x =
      lCount hash v2 nrOrig last w n x + lCount hash v2 nrOrig last w' n x := by
  intro n
  induction n with
  | zero => intro x; simp [lCount]
  | succ n ih =>
    intro x
    simp only [lCount]
    split
    · rw [ih]; omega
    · omega

/-! ### interrupted / chunked execution of the v2 loop -/

/-- the invariant survives any number of continuing iterations (any version) -/
theorem loopIter_LInv (hash : List Nat → List Nat) (v2 : Bool) (nrOrig last : Nat) :
    ∀ (n : Nat) (x x' : LSt), LInv last nrOrig x →
      loopIter (leftoverBody hash v2 nrOrig last) n x = some x' → LInv last nrOrig x' := by
  intro n
  induction n with
  | zero => intro x x' h e; simp only [loopIter, Option.some.injEq] at e; subst e; exact h
  | succ n ih =>
    intro x x' h e
    obtain ⟨x1, hb, hinv, _⟩ := leftoverBody_spec hash v2 nrOrig last x h
    by_cases hk : lKind hash nrOrig last x = .stop
    · rw [hk] at hb
      simp only [loopIter, hb] at e
      cases e
    · rw [decide_eq_true hk] at hb
      rw [loopIter_cont hb] at e
      exact ih x1 x' hinv e

/-- one call with an arbitrary budget: it completes with THE final state of the unbudgeted
    run, or is interrupted in a state that again satisfies the invariant; it never fails and
    never runs out of fuel. -/
theorem leftover_v2_call (hash : List Nat → List Nat) (nrOrig last : Nat) (x : LSt)
    (h : LInv last nrOrig x) (b : Option Nat) :
    ∃ xf, runWhile (leftoverBody hash true nrOrig last) (last + 2) none x
        = .ok (xf, none, .completed) ∧
      ((∃ b', runWhile (leftoverBody hash true nrOrig last) (last + 2) b x
          = .ok (xf, b', .completed)) ∨
       (∃ x1 b', runWhile (leftoverBody hash true nrOrig last) (last + 2) b x
          = .ok (x1, b', .interrupted) ∧ LInv last nrOrig x1 ∧
          runWhile (leftoverBody hash true nrOrig last) (last + 2) none x1
            = .ok (xf, none, .completed))) := by
  obtain ⟨xf, hr, _⟩ := leftover_v2_terminates hash nrOrig last x h
  refine ⟨xf, hr, ?_⟩
  cases b with
  | none => exact Or.inl ⟨none, hr⟩
  | some k =>
    rcases runWhile_call_progress _ (last + 2) x xf hr k (last + 2) (Nat.le_refl _) with
      ⟨b', hc⟩ | ⟨x1, h1, h2, _, h4⟩
    · exact Or.inl ⟨b', hc⟩
    · have hinv1 := loopIter_LInv hash true nrOrig last _ x x1 h h2
      refine Or.inr ⟨x1, some 0, h1, hinv1, ?_⟩
      exact runWhile_fuel_mono _ _ none x1 xf none .completed h4 (by decide) (last + 2) (by omega)

/-- chunked execution: every budget schedule allowing `last + 2` iterations in total (in
    particular any `last + 2` calls) completes, with the final state of the single run; every
    shorter schedule is still in progress (never an error); two completing schedules agree. -/
theorem leftover_v2_chunked (hash : List Nat → List Nat) (nrOrig last : Nat) (x : LSt)
    (h : LInv last nrOrig x) :
    ∃ xf, runWhile (leftoverBody hash true nrOrig last) (last + 2) none x
        = .ok (xf, none, .completed) ∧
      (∀ ks, last + 2 ≤ budgetIters ks →
        runCalls (leftoverBody hash true nrOrig last) (last + 2) ks x = .ok (xf, true)) ∧
      (∀ ks, last + 2 ≤ ks.length →
        runCalls (leftoverBody hash true nrOrig last) (last + 2) ks x = .ok (xf, true)) ∧
      (∀ ks, runCalls (leftoverBody hash true nrOrig last) (last + 2) ks x = .ok (xf, true) ∨
        ∃ s', runCalls (leftoverBody hash true nrOrig last) (last + 2) ks x = .ok (s', false)) ∧
      (∀ fuel ks sf, runCalls (leftoverBody hash true nrOrig last) fuel ks x = .ok (sf, true) →
        sf = xf) := by
  obtain ⟨xf, hr, _⟩ := leftover_v2_terminates hash nrOrig last x h
  refine ⟨xf, hr, ?_, ?_, ?_, ?_⟩
  · intro ks hks
    exact runCalls_completes_of_budgetIters _ _ ks (last + 2) x xf hr (Nat.le_refl _) hks
  · intro ks hks
    exact runCalls_completes_of_length _ _ ks (last + 2) x xf hr (Nat.le_refl _) hks
  · intro ks
    exact runCalls_no_error _ _ ks (last + 2) x xf hr (Nat.le_refl _)
  · intro fuel ks sf hsf
    exact runWhile_completed_unique _ _ _ x sf xf (runCalls_eq_single_fuel _ fuel ks x sf hsf) hr

/-! ### both versions: termination relative to the number of "already winning" re-draws;
    v1: no dead state -/

/-- PARTIAL termination (any version, in particular v1): if the fuel `n` exceeds the number of
    unconsumed positions plus the number of `redraw` outcomes met within `n` iterations, the
    loop completes, with the same final facts as v2.  (For v1 unconditional termination is
    FALSE: a draw stream that keeps hitting a winning ticket repeats `redraw` forever, see
    `leftover_v1_may_spin`.) -/
theorem leftover_run_partial (hash : List Nat → List Nat) (v2 : Bool) (nrOrig last : Nat) :
    ∀ (n : Nat) (x : LSt), LInv last nrOrig x →
      last + 1 - (nrOrig + x.offset) + lCount hash v2 nrOrig last LKind.redraws n x < n →
      ∃ x', runWhile (leftoverBody hash v2 nrOrig last) n none x = .ok (x', none, .completed) ∧
        LInv last nrOrig x' ∧ x'.leftover = 0 ∧
        x'.additional = min (x.additional + x.leftover) (last - nrOrig) ∧
        (∀ t, x.status t = true → x'.status t = true) ∧
        x'.tx.o.draws.length = x.tx.o.draws.length + lCount hash v2 nrOrig last LKind.draws n x ∧
        x'.additional = x.additional + lCount hash v2 nrOrig last LKind.hands n x := by
  intro n
  induction n with
  | zero => intro x _ hn; omega
  | succ n ih =>
    intro x h hn
    by_cases hk : lKind hash nrOrig last x = .stop
    · obtain ⟨x', hb, hinv, hd, ha, h1, _⟩ := leftoverBody_spec hash v2 nrOrig last x h
      rw [hk] at hb hd ha
      obtain ⟨hs, e⟩ := h1 hk
      subst e
      have hle := h.le_last
      refine ⟨_, runWhile_stop hb n none, hinv, rfl, ?_, fun t ht => ht, ?_, ?_⟩
      · show x.additional = _
        rcases hs with hs | hs
        · unfold lFull at hs; omega
        · omega
      · simp only [lCount, hk, hb]; rfl
      · simp only [lCount, hk, hb]; rfl
    · obtain ⟨x1, hb, hinv, hf, hl, hc, hsum, hmono, hd, ha, ho, hoff⟩ :=
        leftoverBody_cont hash v2 nrOrig last x h hk
      simp only [lCount, hb] at hn
      have hfuel : last + 1 - (nrOrig + x1.offset) +
          lCount hash v2 nrOrig last LKind.redraws n x1 < n := by
        by_cases hr : lKind hash nrOrig last x = .redraw
        · rw [hr] at hn
          simp only [LKind.redraws] at hn
          omega
        · have := ho (Or.inr hr)
          omega
      obtain ⟨x', hr, hinv', hl', ha', hmono', hd', hh'⟩ := ih x1 hinv hfuel
      refine ⟨x', by rw [runWhile_cont_none hb]; exact hr, hinv', hl', by rw [ha']; omega,
        fun t ht => hmono' t (hmono t ht), ?_, ?_⟩
      · simp only [lCount, hb]; omega
      · simp only [lCount, hb]; omega

/-- the same state with another script of raw draws -/
def LSt.withScript (x : LSt) (sc : List Nat) : LSt :=
  { x with tx := { x.tx with c := { x.tx.c with script := sc } } }

theorem LInv.withScript {last nrOrig : Nat} {x : LSt} (h : LInv last nrOrig x) (sc : List Nat) :
    LInv last nrOrig (x.withScript sc) := ⟨h.pinv, h.count⟩

theorem inRange_zero (mn mx : Nat) : inRange 0 mn mx = mn := by
  unfold inRange; split <;> simp

/-- the raw value `0` never yields "NewlySelectedAlreadyWinning": it re-selects the current
    ticket, which is not winning when a draw is made -/
theorem lKind_script_zero (hash : List Nat → List Nat) (nrOrig last : Nat) (x : LSt)
    (rest : List Nat) : lKind hash nrOrig last (x.withScript (0 :: rest)) ≠ .redraw := by
  have hraw : ((x.withScript (0 :: rest)).tx.draw hash (x.withScript (0 :: rest)).rng).1 = 0 := by
    simp [LSt.withScript, Tx.draw]
  unfold lKind
  rw [hraw, inRange_zero]
  split
  · exact fun e => by cases e
  · by_cases hw : (x.withScript (0 :: rest)).status (lCurId nrOrig (x.withScript (0 :: rest))) = true
    · rw [if_pos hw]; exact fun e => by cases e
    · rw [if_neg hw]
      have : (x.withScript (0 :: rest)).status (idFromPos (x.withScript (0 :: rest)).posToId
          (nrOrig + (x.withScript (0 :: rest)).offset)) = false := by
        simpa [lCurId] using hw
      rw [this]
      exact fun e => by cases e

/-- v1 (and v2): NO DEAD STATE.  In every state satisfying the invariant there is a raw value
    (namely `0`) for which the next iteration does not fail and either stops the loop (all
    tickets win or nothing left to hand out) or makes progress (`offset + 1`). -/
theorem leftover_no_dead_state (hash : List Nat → List Nat) (v2 : Bool) (nrOrig last : Nat)
    (x : LSt) (h : LInv last nrOrig x) :
    ∃ raw, ∀ rest, ∃ x' b,
      leftoverBody hash v2 nrOrig last (x.withScript (raw :: rest)) = .ok (x', b) ∧
      LInv last nrOrig x' ∧
      ((b = false ∧ (lFull nrOrig last x ∨ x.leftover = 0)) ∨
       (b = true ∧ x'.offset = x.offset + 1)) := by
  refine ⟨0, fun rest => ?_⟩
  have hy := h.withScript (0 :: rest)
  have hnr := lKind_script_zero hash nrOrig last x rest
  by_cases hk : lKind hash nrOrig last (x.withScript (0 :: rest)) = .stop
  · obtain ⟨x', hb, hinv, _, _, h1, _⟩ := leftoverBody_spec hash v2 nrOrig last _ hy
    rw [hk] at hb
    exact ⟨x', false, hb, hinv, Or.inl ⟨rfl, (h1 hk).1⟩⟩
  · obtain ⟨x', hb, hinv, _, _, _, _, _, _, _, ho, _⟩ := leftoverBody_cont hash v2 nrOrig last _ hy hk
    exact ⟨x', true, hb, hinv, Or.inr ⟨rfl, ho (Or.inr hnr)⟩⟩

/-! ### v1: unconditional termination is false -/

/-- a state of the v1 loop (3 tickets, ticket 1 won the lottery, ticket 3 was topped up, one
    reserved ticket left) whose scripted draws always hit ticket 3 -/
def spinState (n : Nat) : LSt :=
  { status := fun t => t == 1 || t == 3, posToId := fun _ => 0, rng := default, leftover := 1,
    offset := 1, additional := 1,
    tx := { (default : Tx) with c := { (default : Ctx) with script := List.replicate n 1 } } }

theorem spin_PosInv : PosInv 3 (fun t => t == 1 || t == 3) (fun _ => 0) 2 := by
  refine ⟨by decide, by decide, ?_, ?_, ?_, ?_⟩
  · intro p h1 h2
    have : p = 2 ∨ p = 3 := by omega
    rcases this with rfl | rfl <;> decide
  · intro p q h1 h2 h3
    have : p = 2 ∧ q = 3 := by omega
    obtain ⟨rfl, rfl⟩ := this
    decide
  · intro t h1 h2 h3
    have : t = 1 ∨ t = 2 ∨ t = 3 := by omega
    rcases this with rfl | rfl | rfl
    · simp at h3
    · exact ⟨2, by decide, by decide, by decide⟩
    · simp at h3
  · intro t ht
    simp only [Bool.or_eq_true, beq_iff_eq] at ht
    omega

theorem spinState_LInv (n : Nat) : LInv 3 1 (spinState n) :=
  ⟨spin_PosInv, (by decide : countTrue (fun t => t == 1 || t == 3) 3 = 1 + 1)⟩

theorem spin_step (hash : List Nat → List Nat) (x : LSt) (n : Nat)
    (h1 : x.status = fun t => t == 1 || t == 3) (h2 : x.posToId = fun _ => 0)
    (h3 : x.leftover = 1) (h4 : x.offset = 1) (h5 : x.additional = 1)
    (h6 : x.tx.c.script = List.replicate (n + 1) 1) :
    ∃ x', leftoverBody hash false 1 3 x = .ok (x', true) ∧
      x'.status = x.status ∧ x'.posToId = x.posToId ∧ x'.leftover = 1 ∧ x'.offset = 1 ∧
      x'.additional = 1 ∧ x'.tx.c.script = List.replicate n 1 := by
  obtain ⟨st, p, rng, lo, off, add, tx⟩ := x
  simp only at h1 h2 h3 h4 h5 h6
  subst h1 h2 h3 h4 h5
  rw [List.replicate_succ] at h6
  simp [leftoverBody, Tx.draw, h6, idFromPos, inRange]

/-- For every fuel bound there is a state satisfying the invariant (differing only in the
    scripted draws) on which the v1 loop exhausts the fuel: v1 termination is only
    probabilistic. -/
theorem leftover_v1_may_spin (hash : List Nat → List Nat) (n : Nat) :
    LInv 3 1 (spinState n) ∧
    ∃ x', runWhile (leftoverBody hash false 1 3) n none (spinState n) = .ok (x', none, .outOfFuel) := by
  refine ⟨spinState_LInv n, ?_⟩
  suffices H : ∀ (n : Nat) (x : LSt), (x.status = fun t => t == 1 || t == 3) →
      (x.posToId = fun _ => 0) → x.leftover = 1 → x.offset = 1 → x.additional = 1 →
      x.tx.c.script = List.replicate n 1 →
      ∃ x', runWhile (leftoverBody hash false 1 3) n none x = .ok (x', none, .outOfFuel) from
    H n (spinState n) rfl rfl rfl rfl rfl rfl
  intro n
  induction n with
  | zero => intro x _ _ _ _ _ _; exact ⟨x, rfl⟩
  | succ n ih =>
    intro x h1 h2 h3 h4 h5 h6
    obtain ⟨x1, hb, e1, e2, e3, e4, e5, e6⟩ := spin_step hash x n h1 h2 h3 h4 h5 h6
    rw [runWhile_cont_none hb]
    exact ih x1 (e1.trans h1) (e2.trans h2) e3 e4 e5 e6

end LP
