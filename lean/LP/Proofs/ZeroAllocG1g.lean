import LP.Proofs.ZeroAllocG1f
/-
  LP.Proofs.ZeroAllocG1g — zero-size allocations for `Variant.guarV1`, part 7: the reachability
  relations without the allocation-size premise, the simulation relation `ZGSim` and the
  simulation of every endpoint.
-/
namespace LP
open LP.FY

/-! ### reachable states -/

/-- what remains of `v1_CallOK`: a zero-size allocation entry does not carry the migration flag
    (entries `(a, 0, 0, false)` are allowed; entries `(a, 0, 0, true)` are not) -/
def zg_CallOK : Call → Prop
  | .addTicketsV1 l => ∀ q ∈ l, q.2.1 + q.2.2.1 = 0 → q.2.2.2 = false
  | _ => True

theorem zg_CallOK_of_v1 {c : Call} (h : v1_CallOK c) : zg_CallOK c := by
  cases c <;> first | trivial | skip
  intro q hq h0
  have := h q hq
  omega

/-- `g1_ReachA` with `v1_CallOK` weakened to `zg_CallOK` -/
inductive g1_ReachZA (hash : List Nat → List Nat) (a0 : InitArgs) : State → Nat → Prop
  | init (e : Env) (s : State) : init .guarV1 a0 e = .ok s → g1_ReachZA hash a0 s e.round
  | call (s : State) (r : Nat) (e : Env) (c : Call) (s' : State) (o : Out) :
      g1_ReachZA hash a0 s r → r ≤ e.round → EnvOK e → zg_CallOK c →
      step hash s e c = .ok (s', o) → g1_ReachZA hash a0 s' e.round
  | wait (s : State) (r r' : Nat) : g1_ReachZA hash a0 s r → r ≤ r' → g1_ReachZA hash a0 s r'

/-- `g1_Reach` with `v1_CallOK` weakened to `zg_CallOK` -/
inductive g1_ReachZ (hash : List Nat → List Nat) : State → Nat → Prop
  | init (a : InitArgs) (e : Env) (s : State) : init .guarV1 a e = .ok s → g1_ReachZ hash s e.round
  | call (s : State) (r : Nat) (e : Env) (c : Call) (s' : State) (o : Out) :
      g1_ReachZ hash s r → r ≤ e.round → EnvOK e → zg_CallOK c →
      step hash s e c = .ok (s', o) → g1_ReachZ hash s' e.round
  | wait (s : State) (r r' : Nat) : g1_ReachZ hash s r → r ≤ r' → g1_ReachZ hash s r'

/-- `g1_Reach` with NO premise on the allocation entries at all (for reference; the migrated
    zero-size entries `(a, 0, 0, true)` are not covered by the simulation) -/
inductive g1_ReachFull (hash : List Nat → List Nat) : State → Nat → Prop
  | init (a : InitArgs) (e : Env) (s : State) : init .guarV1 a e = .ok s → g1_ReachFull hash s e.round
  | call (s : State) (r : Nat) (e : Env) (c : Call) (s' : State) (o : Out) :
      g1_ReachFull hash s r → r ≤ e.round → EnvOK e →
      step hash s e c = .ok (s', o) → g1_ReachFull hash s' e.round
  | wait (s : State) (r r' : Nat) : g1_ReachFull hash s r → r ≤ r' → g1_ReachFull hash s r'

theorem g1_ReachZ_iff {hash : List Nat → List Nat} {s : State} {r : Nat} :
    g1_ReachZ hash s r ↔ ∃ a0, g1_ReachZA hash a0 s r := by
  constructor
  · intro h
    induction h with
    | init a e s h => exact ⟨a, .init e s h⟩
    | call s r e c s' o _ h1 h2 h3 h4 ih =>
      obtain ⟨a0, ih⟩ := ih
      exact ⟨a0, .call s r e c s' o ih h1 h2 h3 h4⟩
    | wait s r r' _ h1 ih =>
      obtain ⟨a0, ih⟩ := ih
      exact ⟨a0, .wait s r r' ih h1⟩
  · rintro ⟨a0, h⟩
    induction h with
    | init e s h => exact .init a0 e s h
    | call s r e c s' o _ h1 h2 h3 h4 ih => exact .call s r e c s' o ih h1 h2 h3 h4
    | wait s r r' _ h1 ih => exact .wait s r r' ih h1

theorem g1_ReachA.toZ {hash : List Nat → List Nat} {a0 : InitArgs} {s : State} {r : Nat}
    (h : g1_ReachA hash a0 s r) : g1_ReachZA hash a0 s r := by
  induction h with
  | init e s h => exact .init e s h
  | call s r e c s' o _ h1 h2 h3 h4 ih => exact .call s r e c s' o ih h1 h2 (zg_CallOK_of_v1 h3) h4
  | wait s r r' _ h1 ih => exact .wait s r r' ih h1

theorem g1_Reach.toZ {hash : List Nat → List Nat} {s : State} {r : Nat}
    (h : g1_Reach hash s r) : g1_ReachZ hash s r := by
  obtain ⟨a0, h⟩ := g1_Reach_iff.mp h
  exact g1_ReachZ_iff.mpr ⟨a0, h.toZ⟩

theorem g1_ReachZ.toFull {hash : List Nat → List Nat} {s : State} {r : Nat}
    (h : g1_ReachZ hash s r) : g1_ReachFull hash s r := by
  induction h with
  | init a e s h => exact .init a e s h
  | call s r e c s' o _ h1 h2 _ h4 ih => exact .call s r e c s' o ih h1 h2 h4
  | wait s r r' _ h1 ih => exact .wait s r r' ih h1

/-! ### the simulation relation -/

/-- records of the erased state: equal, or absent where the original has a record without
    guarantee -/
def zg_Uweak (uts U : Nat → Option UTS) : Prop :=
  ∀ a, U a = uts a ∨ (U a = none ∧ ∃ st, uts a = some st ∧ st.c = 0 ∧ st.d = 0)

theorem zg_Urel.weak {R : Nat → Option Range} {uts U : Nat → Option UTS} (h : zg_Urel R uts U) :
    zg_Uweak uts U := fun a => (h a).imp id (fun ⟨h1, _, h3⟩ => ⟨h1, h3⟩)

/-- `z` is the state `s` with the empty ranges, (until the filter has completed) the zero-size
    batches and the guarantee-free records of empty-range addresses removed; the two address flags
    of `z` are below those of `s`.  Every other field is the same. -/
structure ZGSim (s z : State) : Prop where
  rest : z = zg_w s (zg_of z)
  range : z.range = z_eraseR s.range
  batch : s.flags.filtered = false → z.batch = z_eraseB s.batch
  bl : ∀ a, z.blacklist a = true → s.blacklist a = true
  cl : ∀ a, z.claimed a = true → s.claimed a = true
  uts : zg_Uweak s.uts z.uts
  /-- settling happens only after all selection steps -/
  done : ∀ a, s.claimed a = true → s.flags.selected = true ∧ s.flags.additional = true

/-- additional clauses that hold until the filter starts -/
structure zg_A (s z : State) : Prop where
  hd : z_Hd s
  emp : zg_Emp s
  urel : zg_Urel s.range s.uts z.uts
  blr : ∀ a, s.blacklist a = true → (s.range a).isSome = true
  blx : ∀ a, (z.range a).isSome = true → z.blacklist a = s.blacklist a

theorem ZGSim.fields {s z : State} (h : ZGSim s z) :
    z.cfg = s.cfg ∧ z.flags = s.flags ∧ z.variant = s.variant ∧ z.owner = s.owner ∧
    z.confirmed = s.confirmed ∧ z.op = s.op ∧ z.lastTicketId = s.lastTicketId ∧
    z.minConfirmed = s.minConfirmed ∧ z.whitelist = s.whitelist ∧ z.userTotal = s.userTotal := by
  have := h.rest
  refine ⟨?_, ?_, ?_, ?_, ?_, ?_, ?_, ?_, ?_, ?_⟩
  · have := congrArg State.cfg this; exact this
  · have := congrArg State.flags this; exact this
  · have := congrArg State.variant this; exact this
  · have := congrArg State.owner this; exact this
  · have := congrArg State.confirmed this; exact this
  · have := congrArg State.op this; exact this
  · have := congrArg State.lastTicketId this; exact this
  · have := congrArg State.minConfirmed this; exact this
  · have := congrArg State.whitelist this; exact this
  · have := congrArg State.userTotal this; exact this

theorem ZGSim.eq {s z : State} (h : ZGSim s z) :
    z = zg_w s ⟨z_eraseR s.range, z.batch, z.blacklist, z.claimed, z.uts⟩ := by
  have := h.rest
  unfold zg_of at this
  rw [h.range] at this
  exact this

theorem zg_eraseR_congr {f g : Nat → Option Range} {a : Nat} (h : f a = g a) :
    z_eraseR f a = z_eraseR g a := by
  unfold z_eraseR; rw [h]

theorem zg_eraseR_isSome {f : Nat → Option Range} {a : Nat} (h : (z_eraseR f a).isSome = true) :
    (f a).isSome = true := by
  cases hf : f a with
  | none => rw [z_eraseR_of_none hf] at h; cases h
  | some r => rfl

/-! ### facts about the erased (original) state before the filter starts -/

theorem zg_phaseA_facts {T0 : Nat} {z : State} {r : Nat} (hwf : g1_WF T0 z r)
    (hns : z.flags.started = false) :
    (∀ a, (z.uts a).isSome = true → (z.range a).isSome = true) ∧
    (∀ a, z.blacklist a = true → (z.range a).isSome = true) ∧
    (∀ a, a ∈ z.whitelist → (z.range a).isSome = true) ∧
    (∀ a, z.range a = none → z.confirmed a = 0) ∧
    z.flags.filtered = false := by
  obtain ⟨_, _, L0, hp, hA, hgx⟩ := v1_phase_notStarted hwf.phase hns
  refine ⟨hgx.gi.has_range, hgx.bl_range, ?_, ?_, hp.notFiltered⟩
  · intro a ha
    obtain ⟨st, h1, _⟩ := hgx.gi.pos_of_mem a ha
    exact hgx.gi.has_range a (by rw [h1]; rfl)
  · intro a ha
    by_cases hin : a ∈ L0.map Prod.fst
    · obtain ⟨rr, hrr⟩ := rb_Chain_range_some hA.chain hin
      have hrr' : z.range a = some rr := hrr
      rw [ha] at hrr'; cases hrr'
    · exact hp.outC a hin

/-! ### the simulation, endpoint by endpoint -/

theorem zg_indep_CallOK {c : Call} (h : zg_indep c = true) : v1_CallOK c := by
  cases c <;> first | trivial | (simp [zg_indep] at h)

theorem zg_A_keep {hash : List Nat → List Nat} {s s' z z' : State} {e : Env} {c : Call} {o : Out}
    (h : step hash s e c = .ok (s', o)) (htk : s'.tk = s.tk) (hu : s'.uts = s.uts)
    (hb : s'.blacklist = s.blacklist) (hzr : z'.range = z.range) (hzu : z'.uts = z.uts)
    (hzb : z'.blacklist = z.blacklist)
    (hA : s.flags.started = false → zg_A s z) : s'.flags.started = false → zg_A s' z' := by
  intro hs'
  have hA0 := hA (z_started_back h hs')
  refine ⟨?_, ?_, ?_, ?_, ?_⟩
  · intro i b hi hb'
    rw [tk_last htk] at hi
    rw [tk_batch htk] at hb'
    exact hA0.hd i b hi hb'
  · intro a rg hr hlt
    rw [tk_range htk] at hr
    rw [hu]; exact hA0.emp a rg hr hlt
  · rw [tk_range htk, hu, hzu]; exact hA0.urel
  · intro a ha
    rw [hb] at ha
    rw [tk_range htk]; exact hA0.blr a ha
  · intro a ha
    rw [hzr] at ha
    rw [hzb, hb]; exact hA0.blx a ha

theorem zg_done_keep {hash : List Nat → List Nat} {s s' : State} {e : Env} {c : Call} {o : Out}
    (h : step hash s e c = .ok (s', o)) (hc : c ≠ .claim)
    (hd : ∀ a, s.claimed a = true → s.flags.selected = true ∧ s.flags.additional = true) :
    ∀ a, s'.claimed a = true → s'.flags.selected = true ∧ s'.flags.additional = true := by
  intro a ha
  rw [(LP.Props.C09.step_claimed_exact hash s e c s' o h).1 hc] at ha
  obtain ⟨_, _, g3, g4⟩ := step_flags_gain4 h
  exact ⟨g3 (hd a ha).1, g4 (hd a ha).2⟩

/-- the endpoints that do not touch the five fields -/
theorem zg_sim_indep {hash : List Nat → List Nat} {a0 : InitArgs} {s z : State} {r : Nat}
    {e : Env} {c : Call} {s' : State} {o : Out} (hc : zg_indep c = true)
    (hz : g1_ReachA hash a0 z r) (hsim : ZGSim s z) (hA : s.flags.started = false → zg_A s z)
    (hr : r ≤ e.round) (hok : EnvOK e) (hs : step hash s e c = .ok (s', o)) :
    ∃ z', g1_ReachA hash a0 z' e.round ∧ ZGSim s' z' ∧ (s'.flags.started = false → zg_A s' z') ∧
      step hash z e c = .ok (z', o) := by
  have hwf := g1_reach_WF hz
  have hvar : s.variant = z.variant := (congrArg State.variant hsim.rest).symm
  obtain ⟨f1, _⟩ := g1_flags (hvar ▸ hwf.var)
  obtain ⟨g1, g2, g3, g4, g5⟩ := zg_step_indep_frame hc f1 hs
  have hstep : step hash z e c = .ok (zg_w s' (zg_of z), o) := by
    have := zg_step_indep (w := zg_of z) hc f1 hs
    rw [← hsim.rest] at this
    exact this
  have htk : s'.tk = s.tk := by
    refine z_step_tk hs ?_ ?_ ?_ ?_ ?_ <;>
      (first | (intro h; subst h; simp [zg_indep] at hc) | (intro l h; subst h; simp [zg_indep] at hc))
  refine ⟨_, .call z r e c _ o hz hr hok (zg_indep_CallOK hc) hstep,
    ⟨rfl, ?_, ?_, ?_, ?_, ?_, zg_done_keep hs (by intro h; subst h; simp [zg_indep] at hc) hsim.done⟩, ?_, hstep⟩
  · show z.range = z_eraseR s'.range
    rw [g1]; exact hsim.range
  · intro hf
    show z.batch = z_eraseB s'.batch
    rw [g2]; exact hsim.batch (z_filtered_back hs hf)
  · intro a ha; rw [g3]; exact hsim.bl a ha
  · intro a ha; rw [g4]; exact hsim.cl a ha
  · show zg_Uweak s'.uts z.uts
    rw [g5]; exact hsim.uts
  · exact zg_A_keep (z := z) hs htk g5 g3 rfl rfl rfl hA

/-- `addTicketsV1 l`, matched by `addTicketsV1 (l without the zero-size entries)` -/
theorem zg_sim_add {hash : List Nat → List Nat} {a0 : InitArgs} {s z : State} {r : Nat}
    {e : Env} {l : List (Nat × Nat × Nat × Bool)} {s' : State} {o : Out}
    (hz : g1_ReachA hash a0 z r) (hsim : ZGSim s z) (hA : s.flags.started = false → zg_A s z)
    (hr : r ≤ e.round) (hok : EnvOK e) (hcall : zg_CallOK (.addTicketsV1 l))
    (hs : step hash s e (.addTicketsV1 l) = .ok (s', o)) :
    ∃ z', g1_ReachA hash a0 z' e.round ∧ ZGSim s' z' ∧ (s'.flags.started = false → zg_A s' z') ∧
      step hash z e (.addTicketsV1 (l.filter (fun q => decide (1 ≤ q.2.1 + q.2.2.1)))) = .ok (z', o) := by
  have hwf := g1_reach_WF hz
  obtain ⟨m, t, hm, hpay, hown, hx, rfl, rfl⟩ := step_ok_inv hs
  obtain ⟨hcfg, hfl, hvz, hoz, _, _, _, hmc, _, _⟩ := hsim.fields
  have hx0 := hx
  simp only [exec, addTicketsV1, bind_ok_iff, requireStage, req_ok_iff, exists_const] at hx0
  have hst : s.stage e = .addTickets := by simpa [tx0] using hx0.choose_spec.1.1
  have hlt : e.round < s.cfg.conf := rb_stage_addTickets hst
  have hns : z.flags.started = false := g1_notStarted_of_lt hwf hr (Or.inl (by rw [hcfg]; exact hlt))
  have hA0 := hA (by rw [← hfl]; exact hns)
  obtain ⟨q1, q2, _, _, q5⟩ := zg_phaseA_facts hwf hns
  have hnf : s.flags.filtered = false := by rw [← hfl]; exact q5
  obtain ⟨U', k1, k2, k3, k4, k5, k6, k7, k8, k9, k10⟩ :=
    zg_exec_add z.blacklist z.claimed z.uts hx hA0.hd
      (by show 0 < s.minConfirmed; rw [← hmc]; exact hwf.static) hcall hA0.urel
      (by
        intro a ha
        show (z_eraseR s.range a).isSome = true
        rw [← hsim.range]; exact q1 a ha)
      hA0.emp
  have hzeq : z = zg_w s ⟨z_eraseR s.range, z_eraseB s.batch, z.blacklist, z.claimed, z.uts⟩ := by
    have := hsim.eq
    rw [hsim.batch hnf] at this
    exact this
  have htx : tx0 z e = zg_wt (tx0 s e) ⟨z_eraseR (tx0 s e).s.range, z_eraseB (tx0 s e).s.batch,
      z.blacklist, z.claimed, z.uts⟩ := by
    conv => lhs; rw [hzeq]
    rfl
  have hmz : endpointMeta z.variant
      (.addTicketsV1 (l.filter (fun q => decide (1 ≤ q.2.1 + q.2.2.1)))) = some m := by
    rw [← hm, hvz]; rfl
  have hstep := z_step_intro hmz hpay (by rw [hoz]; exact hown) (by rw [htx]; exact k1)
  have hbl : t.s.blacklist = s.blacklist := k7
  have hrange_or : ∀ a, t.s.range a = s.range a ∨ s.range a = none := k6
  refine ⟨_, .call z r e _ _ _ hz hr hok ?_ hstep,
    ⟨rfl, rfl, fun _ => rfl, ?_, ?_, k3.weak, zg_done_keep hs (by simp) hsim.done⟩, ?_, hstep⟩
  · intro p hp
    exact of_decide_eq_true (List.mem_filter.mp hp).2
  · intro a ha
    show t.s.blacklist a = true
    rw [k7]; exact hsim.bl a ha
  · intro a ha
    show t.s.claimed a = true
    rw [k8]; exact hsim.cl a ha
  · intro _
    refine ⟨k2, k5, k3, ?_, ?_⟩
    · intro a ha
      rw [hbl] at ha
      have := hA0.blr a ha
      rcases hrange_or a with h0 | h0
      · rw [h0]; exact this
      · rw [h0] at this; cases this
    · intro a ha
      show z.blacklist a = t.s.blacklist a
      rw [hbl]
      have ha' : (z_eraseR t.s.range a).isSome = true := ha
      rcases hrange_or a with h0 | h0
      · rw [zg_eraseR_congr h0, ← hsim.range] at ha'
        exact hA0.blx a ha'
      · have h1 : s.blacklist a = false := by
          cases hk : s.blacklist a with
          | false => rfl
          | true => have := hA0.blr a hk; rw [h0] at this; cases this
        have h2 : z.blacklist a = false := by
          cases hk : z.blacklist a with
          | false => rfl
          | true => rw [hsim.bl a hk] at h1; cases h1
        rw [h1, h2]

/-- `confirm n` -/
theorem zg_sim_confirm {hash : List Nat → List Nat} {a0 : InitArgs} {s z : State} {r : Nat}
    {e : Env} {n : Nat} {s' : State} {o : Out}
    (hz : g1_ReachA hash a0 z r) (hsim : ZGSim s z) (hA : s.flags.started = false → zg_A s z)
    (hr : r ≤ e.round) (hok : EnvOK e) (hs : step hash s e (.confirm n) = .ok (s', o)) :
    ∃ z', g1_ReachA hash a0 z' e.round ∧ ZGSim s' z' ∧ (s'.flags.started = false → zg_A s' z') ∧
      step hash z e (.confirm n) = .ok (z', o) := by
  have htk := z_step_tk hs (by simp) (by simp) (by simp) (by simp) (by simp)
  have hfb := z_filtered_back hs
  have hs0 := hs
  obtain ⟨m, t, hm, hpay, hown, hx, rfl, rfl⟩ := step_ok_inv hs
  obtain ⟨_, _, hvz, hoz, _⟩ := hsim.fields
  obtain ⟨k1, k2, k3, k4, k5, k6, k7, k8, k9⟩ :=
    zg_exec_confirm z.batch z.blacklist z.claimed z.uts hx (fun hk => hsim.bl _ hk)
  have htx : tx0 z e = zg_wt (tx0 s e) ⟨z_eraseR (tx0 s e).s.range, z.batch, z.blacklist, z.claimed, z.uts⟩ := by
    conv => lhs; rw [hsim.eq]
    rfl
  have hmz : endpointMeta z.variant (.confirm n) = some m := by rw [← hm, hvz]
  have hstep := z_step_intro hmz hpay (by rw [hoz]; exact hown) (by rw [htx]; exact k1)
  refine ⟨_, .call z r e (.confirm n) _ _ hz hr hok trivial hstep,
    ⟨rfl, ?_, ?_, ?_, ?_, ?_, zg_done_keep hs0 (by simp) hsim.done⟩, ?_, hstep⟩
  · show z_eraseR (tx0 s e).s.range = z_eraseR t.s.range
    rw [k2]
  · intro hf
    show z.batch = z_eraseB t.s.batch
    rw [k3]; exact hsim.batch (hfb hf)
  · intro a ha
    show t.s.blacklist a = true
    rw [k4]; exact hsim.bl a ha
  · intro a ha
    show t.s.claimed a = true
    rw [k5]; exact hsim.cl a ha
  · show zg_Uweak t.s.uts z.uts
    rw [k8]; exact hsim.uts
  · exact zg_A_keep (z := z) hs0 htk k8 k4 hsim.range.symm rfl rfl hA

end LP
