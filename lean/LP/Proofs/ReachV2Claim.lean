import LP.Proofs.ReachV2Dist
/-
  LP.Proofs.ReachV2Claim — preservation of `WF2` by the vested claim (`claimVested`: first claim =
  settlement + refund + first instalment, repeat claim = further instalment) and by the owner's
  own withdrawal (`claimPaymentOwn`).
-/
namespace LP
open LP.FY LP.Events

/-! ### shapes -/

/-- redeemable tickets of `a` owning range `r` -/
def redeemOf (s : State) (r : Range) : Nat :=
  (clearRange s.status s.posToId r.first (rangeLen r)).2.2

theorem v2_claimSettle_state {s : State} {e : Env} {t1 : Tx}
    (h : claimSettle (rbTx s e) e = .ok t1) :
    (s.claimed e.caller = true ∧ t1 = rbTx s e) ∨
    (s.claimed e.caller = false ∧ s.stage e = .claim ∧ ∃ r B, s.range e.caller = some r ∧
      redeemOf s r ≤ s.confirmed e.caller ∧
      t1.s = { settled s e.caller r with
                 bal := B,
                 userTotal := if redeemOf s r > 0
                   then upd s.userTotal e.caller (redeemOf s r * s.perTicket) else s.userTotal } ∧
      (∀ k n, B k n ≤ s.bal k n) ∧ (∀ k n, k ≠ s.payTok → B k n = s.bal k n) ∧
      B s.payTok 0 = s.bal s.payTok 0 - s.price * (s.confirmed e.caller - redeemOf s r)) := by
  unfold claimSettle at h
  cases hcl : s.claimed e.caller with
  | true =>
    simp only [rbTx_s, hcl, if_true, pure_ok_iff] at h
    exact Or.inl ⟨rfl, h.symm⟩
  | false =>
    right
    simp only [rbTx_s, hcl, Bool.false_eq_true, if_false, bind_ok_iff, Prod.exists, pure_ok_iff] at h
    obtain ⟨s1, redeem, refund, hset, t2, href, hfin⟩ := h
    obtain ⟨hst, r, hr, hred, hle, hrf, hs1⟩ := rb_settle_inv hset
    subst hrf
    have hred' : redeem = redeemOf s r := hred
    subst hs1
    refine ⟨rfl, hst, r, ?_⟩
    have h1 : ∃ B1, t2.s = { settled s e.caller r with bal := B1 } ∧ (∀ k n, B1 k n ≤ s.bal k n) ∧
        (∀ k n, k ≠ s.payTok → B1 k n = s.bal k n) ∧
        B1 s.payTok 0 = s.bal s.payTok 0 - s.price * (s.confirmed e.caller - redeem) := by
      rcases Nat.eq_zero_or_pos (s.confirmed e.caller - redeem) with h0 | hpos
      · rw [h0] at href
        rw [Tx.refund_zero href, h0]
        exact ⟨s.bal, rfl, fun _ _ => Nat.le_refl _, fun _ _ _ => rfl, by simp⟩
      · obtain ⟨hs, _, _, _⟩ := Tx.refund_pos href hpos
        simp only [Tx.setS_s] at hs
        refine ⟨_, hs, fun k n => rb_sub_le _ _ _ _ _ _, ?_, by simp [Bal.sub, settled]⟩
        intro k n hk
        have hk' : k ≠ (settled s e.caller r).payTok := hk
        simp [Bal.sub, hk, settled]
    obtain ⟨B1, e1, l1, o1, p1⟩ := h1
    refine ⟨B1, hr, by rw [← hred']; exact hle, ?_, l1, o1, by rw [← hred']; exact p1⟩
    subst hfin
    rw [← hred']
    by_cases hz : redeem > 0
    · simp only [hz, if_true, Tx.setS]
      rw [e1]; rfl
    · simp only [hz, if_false]
      rw [e1]; rfl

theorem v2_claimPay_state {t t' : Tx} {e : Env} {c : Nat} (h : claimPay true t e c = .ok t') :
    t'.s = { t.s with bal := t.s.bal.sub (.esdt t.s.lpTok) 0 c,
                      userClaimed := upd t.s.userClaimed e.caller (t.s.userClaimed e.caller + c) } ∧
    c ≤ t.s.bal (.esdt t.s.lpTok) 0 := by
  unfold claimPay at h
  by_cases hpos : c > 0
  · simp only [hpos, if_true, bind_ok_iff, pure_ok_iff] at h
    obtain ⟨t1, hs, rfl⟩ := h
    obtain ⟨hle, rfl⟩ := (send_ok_iff _ _ _ _).mp hs
    exact ⟨rfl, hle⟩
  · simp only [hpos, if_false, pure_ok_iff] at h
    subst h
    have hc : c = 0 := by omega
    subst hc
    refine ⟨?_, Nat.zero_le _⟩
    rw [Bal.sub_zero, Nat.add_zero, upd_self_val]

/-- shape of an accepted vested claim -/
theorem v2_claimVested_state {s : State} {e : Env} {t : Tx} (hv : s.variant.isV2 = true)
    (h : claimVested (rbTx s e) e = .ok t) :
    ∃ t1 c, claimSettle (rbTx s e) e = .ok t1 ∧ claimable2 t1.s e e.caller = .ok c ∧
      t.s = { t1.s with bal := t1.s.bal.sub (.esdt t1.s.lpTok) 0 c,
                        userClaimed := upd t1.s.userClaimed e.caller (t1.s.userClaimed e.caller + c) } ∧
      c ≤ t1.s.bal (.esdt t1.s.lpTok) 0 := by
  rw [claimVested_eq] at h
  simp only [rbTx_s, hv, if_true, req_bind_ok] at h
  obtain ⟨_, h⟩ := h
  unfold claimBody at h
  simp only [if_true, bind_ok_iff] at h
  obtain ⟨t1, h1, c, hc, hp⟩ := h
  obtain ⟨k1, k2⟩ := v2_claimPay_state hp
  exact ⟨t1, c, h1, hc, k1, k2⟩

/-! ### the launchpad-token ledger under a claim -/

theorem v2_claimable2_le {s : State} {e : Env} {a c : Nat} (h : claimable2 s e a = .ok c)
    (hs : ∀ now, unlockedPct2 now (s.sched2.getD defaultSchedule2) ≤ 10000)
    (hle : s.userClaimed a ≤ s.userTotal a) : s.userClaimed a + c ≤ s.userTotal a := by
  rw [claimable2_eq] at h
  split at h
  · injection h with h; omega
  · split at h
    · obtain ⟨h1, h2⟩ := bsub_eq_ok.mp h
      have : entitled2 s a e.round ≤ s.userTotal a := entitled_le _ (hs e.round)
      omega
    · cases h

/-- the ledger list may be assumed to contain a given address -/
theorem v2_LPost_with {g : GCore} {p : LProj} (hp : LPost g p) (a : Nat) :
    ∃ L : List Nat, a ∈ L ∧ L.Nodup ∧ (∀ x, x ∉ L → p.userTotal x = 0 ∧ p.userClaimed x = 0) ∧
    ((p.lpBal + sumOver p.userClaimed L = p.totalDeposited ∧
      ∃ W, g.core.claimable = g.core.price * W ∧
        W * p.perTicket = p.perTicket * g.core.nrWinning + sumOver p.userTotal L ∧
        W * p.perTicket ≤ p.totalDeposited) ∨
     (p.totalDeposited = 0 ∧ g.core.claimable = 0 ∧
      p.lpBal + sumOver p.userClaimed L = p.perTicket * g.core.nrWinning + sumOver p.userTotal L)) := by
  obtain ⟨L, hnd, hout, hAB⟩ := hp.led
  by_cases ha : a ∈ L
  · exact ⟨L, ha, hnd, hout, hAB⟩
  · obtain ⟨h1, h2⟩ := hout a ha
    refine ⟨a :: L, List.mem_cons_self .., List.nodup_cons.mpr ⟨ha, hnd⟩, ?_, ?_⟩
    · intro x hx
      exact hout x (fun hh => hx (List.mem_cons_of_mem _ hh))
    · simp only [sumOver, h1, h2, Nat.zero_add]
      exact hAB

/-- paying `c` launchpad tokens to `a` and booking them -/
theorem v2_LPost_pay {g : GCore} {p : LProj} (hp : LPost g p) {a c : Nat} (hc : c ≤ p.lpBal)
    (hle : p.userClaimed a + c ≤ p.userTotal a) :
    LPost g { p with lpBal := p.lpBal - c,
                     userClaimed := upd p.userClaimed a (p.userClaimed a + c) } := by
  obtain ⟨L, haL, hnd, hout, hAB⟩ := v2_LPost_with hp a
  have hsum := sumOver_upd_mem p.userClaimed L a (p.userClaimed a + c) hnd haL
  have hbal : p.lpBal - c + sumOver (upd p.userClaimed a (p.userClaimed a + c)) L
      = p.lpBal + sumOver p.userClaimed L := by omega
  refine ⟨⟨L, hnd, ?_, ?_⟩, ?_, hp.unclaimed⟩
  · intro x hx
    have hxa : x ≠ a := fun hh => hx (hh ▸ haL)
    obtain ⟨h1, h2⟩ := hout x hx
    exact ⟨h1, by show upd p.userClaimed a _ x = 0; rw [upd_other _ _ _ _ hxa]; exact h2⟩
  · rcases hAB with ⟨a1, a2⟩ | ⟨b1, b2, b3⟩
    · exact Or.inl ⟨by show p.lpBal - c + sumOver (upd p.userClaimed a _) L = _; rw [hbal]; exact a1, a2⟩
    · exact Or.inr ⟨b1, b2, by
        show p.lpBal - c + sumOver (upd p.userClaimed a _) L = _; rw [hbal]; exact b3⟩
  · intro x
    show upd p.userClaimed a (p.userClaimed a + c) x ≤ p.userTotal x
    by_cases hxa : x = a
    · subst hxa; rw [upd_same]; exact hle
    · rw [upd_other _ _ _ _ hxa]; exact hp.le x

/-- the settlement of `a` with `k` winning tickets -/
theorem v2_LPost_settle {g g' : GCore} {p : LProj} (hp : LPost g p) {a k : Nat}
    (hcl : p.claimed a = false) (hk : k ≤ g.core.nrWinning)
    (h1 : g'.core.nrWinning = g.core.nrWinning - k) (h2 : g'.core.claimable = g.core.claimable)
    (h3 : g'.core.price = g.core.price) :
    LPost g' { p with userTotal := upd p.userTotal a (k * p.perTicket),
                      claimed := upd p.claimed a true } := by
  obtain ⟨L, haL, hnd, hout, hAB⟩ := v2_LPost_with hp a
  have hut : p.userTotal a = 0 := hp.unclaimed a hcl
  have huc : p.userClaimed a = 0 := Nat.le_zero.mp (hut ▸ hp.le a)
  have hsum := sumOver_upd_mem p.userTotal L a (k * p.perTicket) hnd haL
  have hmul : p.perTicket * g.core.nrWinning = p.perTicket * (g.core.nrWinning - k) + k * p.perTicket := by
    rw [Nat.mul_comm k, ← Nat.mul_add, Nat.sub_add_cancel hk]
  have hnew : p.perTicket * g'.core.nrWinning + sumOver (upd p.userTotal a (k * p.perTicket)) L
      = p.perTicket * g.core.nrWinning + sumOver p.userTotal L := by
    rw [h1]
    have key : ∀ A B C S S' u : Nat, S' + u = S + C → u = 0 → B = A + C → A + S' = B + S := by
      intros; omega
    exact key _ _ _ _ _ _ hsum hut hmul
  refine ⟨⟨L, hnd, ?_, ?_⟩, ?_, ?_⟩
  · intro x hx
    have hxa : x ≠ a := fun hh => hx (hh ▸ haL)
    obtain ⟨q1, q2⟩ := hout x hx
    exact ⟨by show upd p.userTotal a _ x = 0; rw [upd_other _ _ _ _ hxa]; exact q1, q2⟩
  · rcases hAB with ⟨a1, W, w1, w2, w3⟩ | ⟨b1, b2, b3⟩
    · refine Or.inl ⟨a1, W, by rw [h2, h3]; exact w1, ?_, w3⟩
      show W * p.perTicket = p.perTicket * g'.core.nrWinning + sumOver (upd p.userTotal a _) L
      rw [hnew]; exact w2
    · refine Or.inr ⟨b1, by rw [h2]; exact b2, ?_⟩
      show p.lpBal + sumOver p.userClaimed L
        = p.perTicket * g'.core.nrWinning + sumOver (upd p.userTotal a _) L
      rw [hnew]; exact b3
  · intro x
    show p.userClaimed x ≤ upd p.userTotal a (k * p.perTicket) x
    by_cases hxa : x = a
    · subst hxa; rw [upd_same, huc]; exact Nat.zero_le _
    · rw [upd_other _ _ _ _ hxa]; exact hp.le x
  · intro x hx
    have hx' : upd p.claimed a true x = false := hx
    have hxa : x ≠ a := by
      intro hh; subst hh; rw [upd_same] at hx'; cases hx'
    rw [upd_other _ _ _ _ hxa] at hx'
    show upd p.userTotal a _ x = 0
    rw [upd_other _ _ _ _ hxa]; exact hp.unclaimed x hx'

/-- the owner's own withdrawal -/
theorem v2_LPost_withdraw {g g' : GCore} {p : LProj} (hp : LPost g p) (hprice : 0 < g.core.price)
    (h1 : g'.core.nrWinning = g.core.nrWinning) (h2 : g'.core.claimable = 0)
    {sur : Nat}
    (hsur : sur = if p.totalDeposited = 0 then 0
      else p.totalDeposited - g.core.claimable / g.core.price * p.perTicket)
    (hle : sur ≤ p.lpBal) :
    LPost g' { p with lpBal := p.lpBal - sur, totalDeposited := 0 } := by
  obtain ⟨L, hnd, hout, hAB⟩ := hp.led
  refine ⟨⟨L, hnd, hout, Or.inr ⟨rfl, h2, ?_⟩⟩, hp.le, hp.unclaimed⟩
  show p.lpBal - sur + sumOver p.userClaimed L = p.perTicket * g'.core.nrWinning + sumOver p.userTotal L
  rw [h1]
  rcases hAB with ⟨a1, W, w1, w2, w3⟩ | ⟨b1, b2, b3⟩
  · have hdiv : g.core.claimable / g.core.price = W := by
      rw [w1]; exact Nat.mul_div_cancel_left W hprice
    rw [hdiv] at hsur
    by_cases hd : p.totalDeposited = 0
    · rw [if_pos hd] at hsur
      omega
    · rw [if_neg hd] at hsur
      omega
  · rw [b1] at hsur
    simp only [if_true] at hsur
    omega

/-! ### the vested claim -/

theorem v2_stage_claim {s : State} {e : Env} (h : s.stage e = .claim) :
    s.flags.selected = true ∧ s.flags.additional = true ∧ s.cfg.conf ≤ e.round ∧ s.cfg.sel ≤ e.round := by
  obtain ⟨h1, h2, _, h4⟩ := LP.Props.C06.claim_stage_means_all_done _ _ _ h
  refine ⟨h1, h2, ?_, h4⟩
  unfold State.stage stageOf at h
  split at h
  · cases h
  · omega

/-- the final phase after the settlement of `a` owning `rg` -/
theorem v2_claim_phaseF {g : GCore} (hF : PhF g) {a : Nat} {rg : Range} (hrg : g.core.range a = some rg)
    {bt : Nat → Option Batch} {pb : Nat}
    (hpb : pb = g.core.payBal - g.core.price *
      (g.core.confirmed a - (clearRange g.core.status g.core.posToId rg.first (rangeLen rg)).2.2)) :
    PhF { g with core := claimCore g.core a rg bt pb } := by
  have hD' := rb_claim_phase hF.d hrg (bt := bt) (pb := pb) hpb
  obtain ⟨hsp1, _, _⟩ := rb_clearRange_spec g.core.status g.core.posToId rg.first (rangeLen rg)
  refine ⟨hD', hF.add, ?_, ?_⟩
  · intro t ht
    have ht' : (clearRange g.core.status g.core.posToId rg.first (rangeLen rg)).1 t = true := ht
    rw [hsp1] at ht'
    split at ht'
    · cases ht'
    · exact hF.flagsIn t ht'
  · intro u st r hu hr
    have hr' : upd g.core.range a none u = some r := hr
    have hua : u ≠ a := by
      intro hh; subst hh; rw [upd_same] at hr'; cases hr'
    rw [upd_other _ _ _ _ hua] at hr'
    show (calcV2 st.infos (upd g.core.confirmed a 0 u)).1 ≤
      countWinning (clearRange g.core.status g.core.posToId rg.first (rangeLen rg)).1 r.first (rangeLen r)
    rw [upd_other _ _ _ _ hua]
    have hcw : countWinning (clearRange g.core.status g.core.posToId rg.first (rangeLen rg)).1 r.first
        (rangeLen r) = countWinning g.core.status r.first (rangeLen r) := by
      apply rb_countWinning_congr
      intro t h1 h2
      rw [hsp1]
      obtain ⟨hfb, _⟩ := hF.d.rngOk u r hr'
      obtain ⟨hfa, _⟩ := hF.d.rngOk a rg hrg
      have hd := hF.d.disj a u rg r (Ne.symm hua) hrg hr'
      have : rangeLen r = r.last + 1 - r.first := rfl
      have : rangeLen rg = rg.last + 1 - rg.first := rfl
      rw [if_neg (by omega)]
    rw [hcw]
    exact hF.hon u st r hu hr'

theorem v2_claim {T0 : Nat} {hash : List Nat → List Nat} {s s' : State} {e : Env} {o : Out}
    {r : Nat} (h : WF2 T0 s r) (hr : r ≤ e.round)
    (hs : step hash s e .claim = .ok (s', o)) : WF2 T0 s' e.round := by
  obtain ⟨t, hx, rfl⟩ := rb_step_np (by intro m hm; simp [endpointMeta] at hm; rw [← hm]) hs
  obtain ⟨hvest, _, hv2, _⟩ := v2_flags h.var
  simp only [exec, rbTx_s, hvest, if_true] at hx
  obtain ⟨t1, c, h1, hcl2, hts, hcle⟩ := v2_claimVested_state hv2 hx
  have hl := h.lp
  have hne : Token.esdt s.lpTok ≠ s.payTok := fun hh => h.tokNe hh.symm
  rcases v2_claimSettle_state h1 with ⟨hcl, rfl⟩ | ⟨hcl, hst, rg, B, hrg, hle, ht1, hBle, hBo, hBpay⟩
  · -- a further instalment
    simp only [rbTx_s] at hcl2 hcle
    have hadd : s.flags.additional = true := by
      cases hq : s.flags.additional with
      | true => rfl
      | false =>
        have := ((hl.pre hq).fresh e.caller).2.2
        have this' : s.claimed e.caller = false := this
        rw [hcl] at this'; cases this'
    rw [hts]
    simp only [rbTx_s]
    have hbal : ∀ k, k ≠ .esdt s.lpTok → (s.bal.sub (.esdt s.lpTok) 0 c) k 0 = s.bal k 0 := by
      intro k hk; simp [Bal.sub, hk]
    have hbl : (s.bal.sub (.esdt s.lpTok) 0 c) (.esdt s.lpTok) 0 = s.bal (.esdt s.lpTok) 0 - c := by
      simp [Bal.sub]
    have hpost := hl.post hadd
    have hlec : s.userClaimed e.caller + c ≤ s.userTotal e.caller :=
      v2_claimable2_le hcl2 hl.sched (hpost.le e.caller)
    refine v2_WF_same_cfg_lp (s := s) h ?_ ?_ ⟨rfl, rfl, rfl, rfl, rfl, rfl, rfl⟩ rfl rfl rfl ?_ rfl hr
    · show (⟨{ s.core with payBal := (s.bal.sub (.esdt s.lpTok) 0 c) s.payTok 0 }, s.whitelist, s.uts,
          s.totalGuaranteed⟩ : GCore) = s.gcore
      rw [hbal _ h.tokNe]; rfl
    · show LPI s.gcore
        { s.lproj with
          lpBal := (s.bal.sub (.esdt s.lpTok) 0 c) (.esdt s.lpTok) 0,
          userClaimed := upd s.userClaimed e.caller (s.userClaimed e.caller + c) }
      rw [hbl]
      refine ⟨hl.sched, fun hq => ?_, fun hq => ?_, fun _ => v2_LPost_pay hpost hcle hlec⟩
      · obtain ⟨q1, q2, q3, q4, q5⟩ := hl.nodep hq
        have q2' : s.bal (.esdt s.lpTok) 0 = 0 := q2
        have hc0 : c = 0 := by omega
        subst hc0
        refine ⟨q1, by show s.bal (.esdt s.lpTok) 0 - 0 = 0; rw [q2'], q3, fun x => ⟨(q4 x).1, ?_⟩, q5⟩
        show upd s.userClaimed e.caller (s.userClaimed e.caller + 0) x = 0
        rw [Nat.add_zero, upd_self_val]; exact (q4 x).2
      · have : s.flags.additional = false := hq
        rw [hadd] at this; cases this
    · intro k h1 h2
      show (s.bal.sub (.esdt s.lpTok) 0 c) k 0 = 0
      rw [hbal k h2]; exact h.balOther k h1 h2
  · -- the first claim: settlement
    obtain ⟨hsel, hadd, hc1, hc2⟩ := v2_stage_claim hst
    have hF : PhF s.gcore := v2_phase_F h.phase hadd
    have hlp1 : t1.s.lpTok = s.lpTok := by rw [ht1]; rfl
    have hbal1 : t1.s.bal = B := by rw [ht1]
    have hBlp : B (.esdt s.lpTok) 0 = s.bal (.esdt s.lpTok) 0 := hBo _ _ hne
    have hpb0 : (B.sub (.esdt s.lpTok) 0 c) s.payTok 0 = s.bal s.payTok 0 - s.price *
        (s.confirmed e.caller - (clearRange s.status s.posToId rg.first (rangeLen rg)).2.2) := by
      have : (B.sub (.esdt s.lpTok) 0 c) s.payTok 0 = B s.payTok 0 := by
        simp [Bal.sub, h.tokNe]
      rw [this]; exact hBpay
    obtain ⟨pb, hpbd⟩ : ∃ pb, pb = (B.sub (.esdt s.lpTok) 0 c) s.payTok 0 := ⟨_, rfl⟩
    have hpb : pb = s.bal s.payTok 0 - s.price *
        (s.confirmed e.caller - (clearRange s.status s.posToId rg.first (rangeLen rg)).2.2) := by
      rw [hpbd]; exact hpb0
    have hF' := v2_claim_phaseF (g := s.gcore) hF (a := e.caller) (rg := rg) hrg
      (bt := upd s.batch rg.first none) (pb := pb) hpb
    have hstd : s.flags.started = true := hF.d.started
    have hpost := hl.post hadd
    have hut0 : s.userTotal e.caller = 0 := hpost.unclaimed e.caller hcl
    have huc0 : s.userClaimed e.caller = 0 := Nat.le_zero.mp (hut0 ▸ hpost.le e.caller)
    -- the entitlement written by the settlement
    have hut : (if redeemOf s rg > 0 then upd s.userTotal e.caller (redeemOf s rg * s.perTicket)
        else s.userTotal) = upd s.userTotal e.caller (redeemOf s rg * s.perTicket) := by
      by_cases hk0 : redeemOf s rg > 0
      · rw [if_pos hk0]
      · rw [if_neg hk0]
        have : redeemOf s rg = 0 := by omega
        rw [this, Nat.zero_mul, ← hut0, upd_self_val]
    have hk : redeemOf s rg ≤ s.nrWinning := by
      by_cases hc0 : s.confirmed e.caller = 0
      · rw [hc0] at hle; omega
      · obtain ⟨LD, _, hsupp, _, hwin⟩ := hF.d.led
        have hin := hsupp e.caller hc0
        have h1 := rb_le_sumOver (winOf s.range s.status) LD e.caller hin
        have h2 : winOf s.range s.status e.caller = redeemOf s rg := by
          simp only [winOf, hrg, redeemOf, (rb_clearRange_spec s.status s.posToId rg.first (rangeLen rg)).2.2]
        have hwin' : sumOver (winOf s.range s.status) LD = s.nrWinning := hwin
        omega
    have hcle' : c ≤ s.bal (.esdt s.lpTok) 0 := by
      rw [hlp1, hbal1, hBlp] at hcle; exact hcle
    have hlec : s.userClaimed e.caller + c ≤ redeemOf s rg * s.perTicket := by
      have h0 : t1.s.userClaimed e.caller ≤ t1.s.userTotal e.caller := by
        rw [ht1]
        show s.userClaimed e.caller ≤ _
        rw [huc0]; exact Nat.zero_le _
      have hsch : ∀ now, unlockedPct2 now (t1.s.sched2.getD defaultSchedule2) ≤ 10000 := by
        rw [ht1]; exact hl.sched
      have := v2_claimable2_le hcl2 hsch h0
      rw [ht1] at this
      have this' : s.userClaimed e.caller + c ≤ (if redeemOf s rg > 0
        then upd s.userTotal e.caller (redeemOf s rg * s.perTicket) else s.userTotal) e.caller := this
      rw [hut, upd_same] at this'
      exact this'
    have hbl : (B.sub (.esdt s.lpTok) 0 c) (.esdt s.lpTok) 0 = s.bal (.esdt s.lpTok) 0 - c := by
      simp [Bal.sub, hBlp]
    rw [hts, hlp1, hbal1, ht1]
    refine ⟨h.var, h.pricePos, h.tokNe, ?_, ?_, ?_, h.tgLe, ?_, Or.inr (Or.inr (by rw [hpbd] at hF'; exact hF')), ?_⟩
    · intro k h1 h2
      show (B.sub (.esdt s.lpTok) 0 c) k 0 = 0
      have := rb_sub_le B (.esdt s.lpTok) 0 c k 0
      have := hBle k 0
      have h0 := h.balOther k h1 h2
      omega
    · intro hlt; exfalso; have : e.round < s.cfg.conf := hlt; omega
    · intro _; exact ⟨hc1, hc2⟩
    · intro hq
      have hq' : s.flags.started = false := hq
      rw [hstd] at hq'; cases hq'
    · show LPI { s.gcore with core := claimCore s.core e.caller rg (upd s.batch rg.first none) ((B.sub (.esdt s.lpTok) 0 c) s.payTok 0) }
        { s.lproj with
          lpBal := (B.sub (.esdt s.lpTok) 0 c) (.esdt s.lpTok) 0,
          userTotal := (if redeemOf s rg > 0 then upd s.userTotal e.caller (redeemOf s rg * s.perTicket) else s.userTotal),
          userClaimed := upd s.userClaimed e.caller (s.userClaimed e.caller + c),
          claimed := upd s.claimed e.caller true }
      rw [hbl, hut, ← hpbd]
      have hset := v2_LPost_settle (g := s.gcore)
        (g' := { s.gcore with core := claimCore s.core e.caller rg (upd s.batch rg.first none) pb })
        hpost (a := e.caller) (k := redeemOf s rg) hcl hk rfl rfl rfl
      have hpay := v2_LPost_pay hset (a := e.caller) (c := c) hcle' (by
        show s.userClaimed e.caller + c ≤ upd s.userTotal e.caller (redeemOf s rg * s.perTicket) e.caller
        rw [upd_same]; exact hlec)
      refine ⟨hl.sched, fun hq => ?_, fun hq => ?_, fun _ => hpay⟩
      · obtain ⟨q1, q2, q3, q4, q5⟩ := hl.nodep hq
        have q2' : s.bal (.esdt s.lpTok) 0 = 0 := q2
        have q1' : s.confirmed e.caller = 0 := q1 e.caller
        have hc0 : c = 0 := by omega
        have hk0 : redeemOf s rg = 0 := by rw [q1'] at hle; omega
        have q5' : s.nrWinning = 0 := q5 hadd
        refine ⟨fun x => ?_, by show s.bal (.esdt s.lpTok) 0 - c = 0; rw [q2']; exact Nat.zero_sub _, q3, fun x => ⟨?_, ?_⟩,
          fun _ => ?_⟩
        · show upd s.confirmed e.caller 0 x = 0
          by_cases hxa : x = e.caller
          · rw [hxa, upd_same]
          · rw [upd_other _ _ _ _ hxa]; exact q1 x
        · show upd s.userTotal e.caller (redeemOf s rg * s.perTicket) x = 0
          rw [hk0, Nat.zero_mul]
          by_cases hxa : x = e.caller
          · rw [hxa, upd_same]
          · rw [upd_other _ _ _ _ hxa]; exact (q4 x).1
        · show upd s.userClaimed e.caller (s.userClaimed e.caller + c) x = 0
          rw [hc0, Nat.add_zero, upd_self_val]; exact (q4 x).2
        · show s.nrWinning - (clearRange s.status s.posToId rg.first (rangeLen rg)).2.2 = 0
          rw [q5']; exact Nat.zero_sub _
      · have : s.flags.additional = false := hq
        rw [hadd] at this; cases this

/-! ### the owner's withdrawal -/

/-- launchpad tokens the owner takes back: the deposit minus the winners' share -/
def ownSurplus (s : State) : Nat :=
  if s.totalDeposited = 0 then 0
  else s.totalDeposited - s.claimablePayment / s.price * s.perTicket

theorem v2_claimPaymentOwn_state {s : State} {e : Env} {t : Tx} (hne : s.payTok ≠ .esdt s.lpTok)
    (h : claimPaymentOwn (rbTx s e) e = .ok t) :
    s.stage e = .claim ∧ s.claimablePayment ≤ s.bal s.payTok 0 ∧
    ownSurplus s ≤ s.bal (.esdt s.lpTok) 0 ∧
    t.s = { s with bal := (s.bal.sub s.payTok 0 s.claimablePayment).sub (.esdt s.lpTok) 0 (ownSurplus s),
                   claimablePayment := 0, totalDeposited := 0 } := by
  unfold claimPaymentOwn at h
  simp only [bind_ok_iff] at h
  obtain ⟨_, hst, h⟩ := h
  have hst' : s.stage e = .claim := by
    simpa [requireStage, req_ok_iff] using hst
  refine ⟨hst', ?_⟩
  have hlp : (s.bal.sub s.payTok 0 s.claimablePayment) (.esdt s.lpTok) 0 = s.bal (.esdt s.lpTok) 0 := by
    have : Token.esdt s.lpTok ≠ s.payTok := fun hh => hne hh.symm
    simp [Bal.sub, this]
  -- the second half, from the record after the first transfer
  have tail : ∀ t1 : Tx,
      t1.s = { s with bal := s.bal.sub s.payTok 0 s.claimablePayment, claimablePayment := 0 } →
      (if (t1.setS { t1.s with totalDeposited := 0 }).s.totalDeposited = 0 ∨ True then True else True) →
      ∀ t : Tx,
      (if t1.s.totalDeposited = 0 then pure (t1.setS { t1.s with totalDeposited := 0 }) else
        if s.claimablePayment / (t1.setS { t1.s with totalDeposited := 0 }).s.price *
            (t1.setS { t1.s with totalDeposited := 0 }).s.perTicket ≥ t1.s.totalDeposited
        then pure (t1.setS { t1.s with totalDeposited := 0 })
        else (t1.setS { t1.s with totalDeposited := 0 }).send e.caller
          ⟨.esdt (t1.setS { t1.s with totalDeposited := 0 }).s.lpTok, 0,
            t1.s.totalDeposited - s.claimablePayment / (t1.setS { t1.s with totalDeposited := 0 }).s.price *
              (t1.setS { t1.s with totalDeposited := 0 }).s.perTicket⟩) = .ok t →
      ownSurplus s ≤ s.bal (.esdt s.lpTok) 0 ∧
      t.s = { s with bal := (s.bal.sub s.payTok 0 s.claimablePayment).sub (.esdt s.lpTok) 0 (ownSurplus s),
                     claimablePayment := 0, totalDeposited := 0 } := by
    intro t1 hs1 _ t h2
    unfold ownSurplus
    have hd1 : t1.s.totalDeposited = s.totalDeposited := by rw [hs1]
    rw [hd1] at h2
    by_cases hd : s.totalDeposited = 0
    · rw [if_pos hd] at h2
      simp only [pure_ok_iff] at h2
      subst h2
      rw [if_pos hd]
      refine ⟨Nat.zero_le _, ?_⟩
      simp only [Tx.setS]
      rw [Bal.sub_zero, hs1]
    · rw [if_neg hd] at h2
      rw [if_neg hd]
      have hp1 : (t1.setS { t1.s with totalDeposited := 0 }).s.price = s.price := by
        simp only [Tx.setS]; rw [hs1]
      have hp2 : (t1.setS { t1.s with totalDeposited := 0 }).s.perTicket = s.perTicket := by
        simp only [Tx.setS]; rw [hs1]
      have hp3 : (t1.setS { t1.s with totalDeposited := 0 }).s.lpTok = s.lpTok := by
        simp only [Tx.setS]; rw [hs1]
      rw [hp1, hp2, hp3] at h2
      by_cases hw : s.claimablePayment / s.price * s.perTicket ≥ s.totalDeposited
      · rw [if_pos hw] at h2
        simp only [pure_ok_iff] at h2
        subst h2
        have : s.totalDeposited - s.claimablePayment / s.price * s.perTicket = 0 := by omega
        rw [this]
        refine ⟨Nat.zero_le _, ?_⟩
        simp only [Tx.setS]
        rw [Bal.sub_zero, hs1]
      · rw [if_neg hw] at h2
        obtain ⟨hle2, rfl⟩ := (send_ok_iff _ _ _ _).mp h2
        simp only [Tx.setS] at hle2 ⊢
        rw [hs1] at hle2 ⊢
        simp only at hle2
        rw [hlp] at hle2
        exact ⟨hle2, rfl⟩
  simp only [rbTx_s] at h
  by_cases hpos : s.claimablePayment > 0
  · simp only [hpos, ↓reduceIte, bind_ok_iff] at h
    obtain ⟨t1, h1, h⟩ := h
    obtain ⟨hle, rfl⟩ := (send_ok_iff _ _ _ _).mp h1
    exact ⟨hle, tail _ rfl trivial t h⟩
  · simp only [hpos, ↓reduceIte, pure_bind] at h
    have h0 : s.claimablePayment = 0 := by omega
    refine ⟨by omega, tail (rbTx s e) ?_ trivial t h⟩
    show s = _
    rw [h0, Bal.sub_zero]
    rw [← h0]

theorem v2_claimPayment {T0 : Nat} {hash : List Nat → List Nat} {s s' : State} {e : Env} {o : Out}
    {r : Nat} (h : WF2 T0 s r) (_hr : r ≤ e.round)
    (hs : step hash s e .claimPayment = .ok (s', o)) : WF2 T0 s' e.round := by
  obtain ⟨t, hx, rfl⟩ := rb_step_np (by intro m hm; simp [endpointMeta] at hm; rw [← hm]) hs
  obtain ⟨hvest, _, hv2, _⟩ := v2_flags h.var
  simp only [exec, rbTx_s, hvest, if_true] at hx
  obtain ⟨hst, hle1, hle2, hts⟩ := v2_claimPaymentOwn_state h.tokNe hx
  obtain ⟨hsel, hadd, hc1, hc2⟩ := v2_stage_claim hst
  have hF : PhF s.gcore := v2_phase_F h.phase hadd
  have hstd : s.flags.started = true := hF.d.started
  have hl := h.lp
  have hne : Token.esdt s.lpTok ≠ s.payTok := fun hh => h.tokNe hh.symm
  obtain ⟨L, hnd, hsupp, hpost, hwin⟩ := hF.d.led
  have hpost' : s.bal s.payTok 0 = s.claimablePayment + sumOver (dueC s.core) L := hpost
  have hpb : ((s.bal.sub s.payTok 0 s.claimablePayment).sub (.esdt s.lpTok) 0 (ownSurplus s)) s.payTok 0
      = s.bal s.payTok 0 - s.claimablePayment := by
    simp [Bal.sub, h.tokNe]
  have hbl : ((s.bal.sub s.payTok 0 s.claimablePayment).sub (.esdt s.lpTok) 0 (ownSurplus s))
      (.esdt s.lpTok) 0 = s.bal (.esdt s.lpTok) 0 - ownSurplus s := by
    simp [Bal.sub, hne]
  rw [hts]
  refine ⟨h.var, h.pricePos, h.tokNe, ?_, ?_, ?_, h.tgLe, ?_, Or.inr (Or.inr ⟨⟨hF.d.started,
    hF.d.filtered, hF.d.selected, hF.d.op, hF.d.rngOk, hF.d.rngNone, hF.d.disj, L, hnd, hsupp, ?_, hwin⟩,
    hF.add, hF.flagsIn, hF.hon⟩), ?_⟩
  · intro k h1 h2
    show ((s.bal.sub s.payTok 0 s.claimablePayment).sub (.esdt s.lpTok) 0 (ownSurplus s)) k 0 = 0
    have a1 := rb_sub_le (s.bal.sub s.payTok 0 s.claimablePayment) (.esdt s.lpTok) 0 (ownSurplus s) k 0
    have a2 := rb_sub_le s.bal s.payTok 0 s.claimablePayment k 0
    have h0 := h.balOther k h1 h2
    omega
  · intro hlt; exfalso; have : e.round < s.cfg.conf := hlt; omega
  · intro _; exact ⟨hc1, hc2⟩
  · intro hq
    have hq' : s.flags.started = false := hq
    rw [hstd] at hq'; cases hq'
  · show ((s.bal.sub s.payTok 0 s.claimablePayment).sub (.esdt s.lpTok) 0 (ownSurplus s)) s.payTok 0
      = 0 + sumOver (dueC s.core) L
    rw [hpb]; omega
  · show LPI { s.gcore with core := { s.core with payBal := ((s.bal.sub s.payTok 0 s.claimablePayment).sub (.esdt s.lpTok) 0 (ownSurplus s)) s.payTok 0, claimable := 0 } }
      { s.lproj with
        lpBal := ((s.bal.sub s.payTok 0 s.claimablePayment).sub (.esdt s.lpTok) 0 (ownSurplus s)) (.esdt s.lpTok) 0,
        totalDeposited := 0 }
    rw [hbl]
    have hw := v2_LPost_withdraw (g := s.gcore)
      (g' := { s.gcore with core := { s.core with payBal := ((s.bal.sub s.payTok 0 s.claimablePayment).sub (.esdt s.lpTok) 0 (ownSurplus s)) s.payTok 0, claimable := 0 } })
      (hl.post hadd) h.pricePos rfl rfl (sur := ownSurplus s) rfl hle2
    refine ⟨hl.sched, fun hq => ?_, fun hq => ?_, fun _ => hw⟩
    · obtain ⟨q1, q2, q3, q4, q5⟩ := hl.nodep hq
      have q2' : s.bal (.esdt s.lpTok) 0 = 0 := q2
      exact ⟨q1, by show s.bal (.esdt s.lpTok) 0 - ownSurplus s = 0; rw [q2']; exact Nat.zero_sub _,
        rfl, q4, q5⟩
    · have : s.flags.additional = false := hq
      rw [hadd] at this; cases this

end LP
