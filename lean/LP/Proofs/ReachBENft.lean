import LP.Proofs.ReachBEPlain
import LP.Proofs.ReachNftBase
/-
  LP.Proofs.ReachBENft — `Variant.nft` forms a `be_Family` (reachable states `Reach hash .nft`);
  in addition a blacklisted participant is in neither NFT list (`be_nft_not_listed`).
-/
namespace LP
open LP.Props LP.Events LP.FY

theorem be_Tix_of_nf_Phase {T0 : Nat} {c : Core} (h : nf_Phase T0 c) : be_Tix c := by
  rcases h with ⟨_, _, h3⟩ | ⟨_, hD, hop, _⟩ | ⟨_, hD⟩
  · exact be_Tix_of_Phase h3
  · apply be_Tix_of_PhD_op hD
    intro f rm h1
    rcases hop with h2 | ⟨rg, h2⟩ <;> rw [h2] at h1 <;> cases h1
  · exact be_Tix_of_PhD hD

theorem be_good_nft {hash : List Nat → List Nat} {s : State} {r : Nat}
    (h : Reach hash .nft s r) : be_Good s := by
  obtain ⟨a0, ha⟩ := Reach_iff.mp h
  have wf := nf_reach_WF ha
  have hnv : s.variant.vested = false := by rw [wf.var]; rfl
  have htix : be_Tix (nf_core s) := be_Tix_of_nf_Phase wf.phase
  exact ⟨be_Tix.of_payBal htix, be_BlZero_reach h, be_validPeriods_reach h,
    fun h1 => (by rw [hnv] at h1; cases h1), fun h1 => (by rw [hnv] at h1; cases h1)⟩

theorem be_family_nft (hash : List Nat → List Nat) :
    be_Family hash be_POK (Reach hash .nft) :=
  ⟨fun hs hr hp hst => .call _ _ _ _ _ _ hs hr hp.1 hp.2 hst, fun hs hr => .wait _ _ _ hs hr,
    fun hs => be_good_nft hs⟩

/-- a blacklisted participant neither waits for the NFT draw nor has been drawn -/
theorem be_nft_not_listed {hash : List Nat → List Nat} {s : State} {r : Nat}
    (h : Reach hash .nft s r) {a : Nat} (hb : s.blacklist a = true) :
    a ∉ s.payers ∧ a ∉ s.nftWinners := by
  obtain ⟨a0, ha⟩ := Reach_iff.mp h
  have hs := (nf_reach_WF ha).side
  have h0 : s.confirmed a = 0 := be_BlZero_reach h a hb
  constructor
  · intro hm
    have : 0 < s.confirmed a := hs.conf a (Or.inl hm)
    omega
  · intro hm
    have : 0 < s.confirmed a := hs.conf a (Or.inr hm)
    omega

end LP
