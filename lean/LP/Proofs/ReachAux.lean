import LP.Props.C01
import LP.Props.C10
import LP.Props.C03base
import LP.Props.C17
/-
  LP.Proofs.ReachAux — auxiliary lemmas for the reachable-state theorem of the plain launchpad
  (`LP/Proofs/ReachBase.lean`, `LP/Props/C01reach.lean`):

  * `rb_runWhile_inv`      : loop rule that also exposes the last body call of a completed run
  * `Chain` under append / local changes of the maps, partially compacted chains (`Mid`)
  * one iteration of the filter keeps `Mid` (`rb_filterBody_Mid`), the final iteration (`rb_Mid_final`)
  * counting winning flags along a chain (`rb_chain_count`)
  * `clearRange` characterisation (`rb_clearRange_*`)
  * sums over survivors, call-value bookkeeping of `deposit`
-/
namespace LP
open LP.FY

/-! ### loop rule -/

/-- if every continuing iteration preserves `P` then an interrupted run ends in a `P`-state and a
    completed run ends with a stopping iteration started from a `P`-state -/
theorem rb_runWhile_inv {σ : Type} (P : σ → Prop) (body : σ → Res (σ × Bool))
    (hb : ∀ x x', body x = .ok (x', true) → P x → P x') :
    ∀ (fuel : Nat) (b : Option Nat) (s s' : σ) (b' : Option Nat) (st : LoopStatus),
      runWhile body fuel b s = .ok (s', b', st) → P s →
      (st = .interrupted → P s') ∧ (st = .completed → ∃ x, P x ∧ body x = .ok (s', false)) := by
  intro fuel
  induction fuel with
  | zero =>
    intro b s s' b' st h hp
    simp only [runWhile, Except.ok.injEq, Prod.mk.injEq] at h
    obtain ⟨_, _, rfl⟩ := h
    exact ⟨nofun, nofun⟩
  | succ n ih =>
    intro b s s' b' st h hp
    cases hbs : body s with
    | error e => simp [runWhile, hbs] at h
    | ok r =>
      obtain ⟨x, c⟩ := r
      cases c with
      | false =>
        simp only [runWhile, hbs, Except.ok.injEq, Prod.mk.injEq] at h
        obtain ⟨rfl, _, rfl⟩ := h
        exact ⟨nofun, fun _ => ⟨s, hp, hbs⟩⟩
      | true =>
        have hx : P x := hb s x hbs hp
        cases b with
        | none => simp only [runWhile, hbs] at h; exact ih _ _ _ _ _ h hx
        | some k =>
          cases k with
          | zero =>
            simp only [runWhile, hbs, Except.ok.injEq, Prod.mk.injEq] at h
            obtain ⟨rfl, _, rfl⟩ := h
            exact ⟨fun _ => hx, nofun⟩
          | succ k => simp only [runWhile, hbs] at h; exact ih _ _ _ _ _ h hx

/-! ### allocation lists -/

theorem rb_ticketTotal_append (A B : List (Nat × Nat)) :
    ticketTotal (A ++ B) = ticketTotal A + ticketTotal B := by
  induction A with
  | nil => simp [ticketTotal]
  | cons p A ih => simp only [List.cons_append, ticketTotal, ih]; omega

theorem rb_droppedSum_append (conf : Nat → Nat) (A B : List (Nat × Nat)) :
    droppedSum conf (A ++ B) = droppedSum conf A + droppedSum conf B := by
  induction A with
  | nil => simp [droppedSum]
  | cons p A ih => simp only [List.cons_append, droppedSum, ih]; omega

theorem rb_confSum_append (conf : Nat → Nat) (A B : List (Nat × Nat)) :
    confSum conf (A ++ B) = confSum conf A + confSum conf B := by
  induction A with
  | nil => simp [confSum]
  | cons p A ih => simp only [List.cons_append, confSum, ih]; omega

theorem rb_survivors_append (conf : Nat → Nat) (A B : List (Nat × Nat)) :
    survivors conf (A ++ B) = survivors conf A ++ survivors conf B := by
  simp [survivors, List.filterMap_append]

theorem rb_ticketTotal_zero (L : List (Nat × Nat)) (hpos : ∀ p ∈ L, 1 ≤ p.2)
    (h : ticketTotal L = 0) : L = [] := by
  cases L with
  | nil => rfl
  | cons p r =>
    have := hpos p (List.mem_cons_self ..)
    simp only [ticketTotal] at h
    omega

theorem rb_Chain_append {A B : List (Nat × Nat)} {first : Nat} {range : Nat → Option Range}
    {batch : Nat → Option Batch} :
    Chain (A ++ B) first range batch ↔
      Chain A first range batch ∧ Chain B (first + ticketTotal A) range batch := by
  induction A generalizing first with
  | nil => simp [Chain, ticketTotal]
  | cons p A ih =>
    simp only [List.cons_append, Chain, ticketTotal, ih]
    rw [show first + p.2 + ticketTotal A = first + (p.2 + ticketTotal A) by omega]
    constructor
    · rintro ⟨a, b, c, d⟩; exact ⟨⟨a, b, c⟩, d⟩
    · rintro ⟨⟨a, b, c⟩, d⟩; exact ⟨a, b, c, d⟩

/-- `Chain` only reads the ranges of its addresses and the batch slots inside its span -/
theorem rb_Chain_congr {L : List (Nat × Nat)} {first : Nat} {range range' : Nat → Option Range}
    {batch batch' : Nat → Option Batch} (h : Chain L first range batch)
    (hpos : ∀ p ∈ L, 1 ≤ p.2)
    (hr : ∀ a ∈ L.map Prod.fst, range' a = range a)
    (hb : ∀ x, first ≤ x → x < first + ticketTotal L → batch' x = batch x) :
    Chain L first range' batch' := by
  induction L generalizing first with
  | nil => trivial
  | cons p rest ih =>
    obtain ⟨h1, h2, h3⟩ := h
    have hp := hpos p (List.mem_cons_self ..)
    simp only [ticketTotal] at hb
    refine ⟨?_, ?_, ?_⟩
    · rw [hb _ (Nat.le_refl _) (by omega)]; exact h1
    · rw [hr _ (List.mem_cons_self ..)]; exact h2
    · exact ih h3 (fun q hq => hpos q (List.mem_cons_of_mem _ hq))
        (fun a ha => hr a (List.mem_cons_of_mem _ ha))
        (fun x hx hx2 => hb x (by omega) (by omega))

/-! ### partially compacted chains -/

/-- static facts about an allocation list and the confirmations -/
structure AllocOK (conf : Nat → Nat) (L0 : List (Nat × Nat)) : Prop where
  nodup : (L0.map Prod.fst).Nodup
  pos : ∀ p ∈ L0, 1 ≤ p.2
  le : ∀ p ∈ L0, conf p.1 ≤ p.2

/-- the filter loop state `x` in the middle of compacting the allocation list `L0`: the prefix
    `P` has been processed (its survivors are stored from ticket 1), the suffix `S` is untouched
    and starts at `x.first` -/
def Mid (conf : Nat → Nat) (last : Nat) (L0 : List (Nat × Nat)) (x : FilSt) : Prop :=
  ∃ P S, L0 = P ++ S ∧ Chain (survivors conf P) 1 x.range x.batch ∧
    Chain S x.first x.range x.batch ∧
    x.first = 1 + ticketTotal P ∧ x.removed = droppedSum conf P ∧
    x.first + ticketTotal S = last + 1 ∧
    (∀ p ∈ P, conf p.1 = 0 → x.range p.1 = none) ∧
    (∀ a, a ∉ L0.map Prod.fst → x.range a = none)

theorem rb_Mid_start {conf : Nat → Nat} {L0 : List (Nat × Nat)} {range : Nat → Option Range}
    {batch : Nat → Option Batch} (hch : Chain L0 1 range batch)
    (hout : ∀ a, a ∉ L0.map Prod.fst → range a = none) :
    Mid conf (ticketTotal L0) L0 ⟨range, batch, 1, 0⟩ :=
  ⟨[], L0, rfl, trivial, hch, rfl, rfl, (by simp only []; omega), (fun _ h => by cases h), hout⟩

theorem rb_dropped_le {conf : Nat → Nat} {P : List (Nat × Nat)} (h : ∀ p ∈ P, conf p.1 ≤ p.2) :
    droppedSum conf P ≤ ticketTotal P := by
  have := confSum_add_droppedSum conf P h; omega

theorem rb_filterBody_false {conf : Nat → Nat} {last : Nat} {x x' : FilSt}
    (h : filterBody conf last x = .ok (x', false)) : x.first = last + 1 ∧ x' = x := by
  unfold filterBody at h
  split at h
  · rename_i h1
    simp only [Except.ok.injEq, Prod.mk.injEq, and_true] at h
    exact ⟨h1, h.symm⟩
  · cases hb : x.batch x.first with
    | none => simp [hb] at h
    | some b =>
      simp only [hb, csub] at h
      repeat' (split at h)
      all_goals simp at h

/-- one continuing iteration of the filter keeps `Mid` -/
theorem rb_filterBody_Mid {conf : Nat → Nat} {last : Nat} {L0 : List (Nat × Nat)}
    (hok : AllocOK conf L0) {x x' : FilSt}
    (h : filterBody conf last x = .ok (x', true)) (hm : Mid conf last L0 x) :
    Mid conf last L0 x' := by
  obtain ⟨P, S, hL, hcP, hcS, hfirst, hrem, hlast, hzero, hout⟩ := hm
  cases S with
  | nil =>
    simp only [ticketTotal, Nat.add_zero] at hlast
    rw [filterBody_stop conf last x hlast] at h
    simp at h
  | cons p S' =>
    obtain ⟨a, n⟩ := p
    have hmemP : ∀ q ∈ P, q ∈ L0 := fun q hq => by rw [hL]; exact List.mem_append_left _ hq
    have hmemS : ∀ q ∈ (a, n) :: S', q ∈ L0 := fun q hq => by rw [hL]; exact List.mem_append_right _ hq
    have han : (a, n) ∈ L0 := hmemS _ (List.mem_cons_self ..)
    have hn1 : 1 ≤ n := hok.pos _ han
    have hcn : conf a ≤ n := hok.le _ han
    have hdl : droppedSum conf P ≤ ticketTotal P := rb_dropped_le (fun q hq => hok.le q (hmemP q hq))
    have hcd := confSum_add_droppedSum conf P (fun q hq => hok.le q (hmemP q hq))
    obtain ⟨hb, hr, hcS'⟩ := hcS
    simp only [ticketTotal] at hlast
    have hne : x.first ≠ last + 1 := by omega
    obtain ⟨f1, hbody, hf1, hr1, hrange_o, hrange_a, hbatch_o, hbatch_n⟩ :=
      filterBody_step conf last x a n hne hb hr hcn (by omega)
    rw [hbody] at h
    simp only [Except.ok.injEq, Prod.mk.injEq, and_true] at h
    subst h
    -- nodup facts
    have hnd := hok.nodup
    rw [hL, List.map_append, List.nodup_append] at hnd
    obtain ⟨hndP, hndS, hdisj⟩ := hnd
    simp only [List.map_cons, List.nodup_cons] at hndS
    have haP : a ∉ P.map Prod.fst := fun hh => hdisj a hh a (by simp) rfl
    have haS' : a ∉ S'.map Prod.fst := hndS.1
    have hfr : x.first - x.removed = 1 + confSum conf P := by omega
    refine ⟨P ++ [(a, n)], S', by rw [hL]; simp, ?_, ?_, ?_, ?_, ?_, ?_, ?_⟩
    · -- survivors of the processed prefix
      rw [rb_survivors_append, rb_Chain_append]
      constructor
      · apply rb_Chain_congr hcP (survivors_pos conf P)
        · intro y hy
          apply hrange_o
          intro hya; subst hya
          obtain ⟨q, hq, hqa⟩ := List.mem_map.mp hy
          have := (mem_survivors hq).1
          rw [hqa] at this
          exact haP this
        · intro y hy1 hy2
          rw [ticketTotal_survivors] at hy2
          apply hbatch_o <;> omega
      · rw [ticketTotal_survivors]
        by_cases h0 : conf a = 0
        · rw [survivors_cons_zero conf a n [] h0]; trivial
        · rw [survivors_cons_pos conf a n [] h0]
          refine ⟨?_, ?_, trivial⟩
          · rw [← hfr]; exact hbatch_n h0
          · rw [hrange_a, if_neg h0, hfr]
    · rw [hf1]
      apply rb_Chain_congr hcS' (fun q hq => hok.pos q (hmemS q (List.mem_cons_of_mem _ hq)))
      · intro y hy
        apply hrange_o
        intro hya; subst hya; exact haS' hy
      · intro y hy1 hy2
        apply hbatch_o <;> omega
    · rw [hf1, rb_ticketTotal_append]; simp only [ticketTotal]; omega
    · rw [hr1, rb_droppedSum_append]; simp only [droppedSum]; omega
    · rw [hf1]; omega
    · intro q hq hq0
      rcases List.mem_append.mp hq with hq | hq
      · rw [hrange_o _ (by intro hh; apply haP; rw [← hh]; exact List.mem_map_of_mem hq)]
        exact hzero q hq hq0
      · simp only [List.mem_singleton] at hq
        subst hq
        rw [hrange_a, if_pos hq0]
    · intro y hy
      rw [hrange_o y (by intro hh; subst hh; exact hy (List.mem_map_of_mem han))]
      exact hout y hy

/-- at the stopping iteration the whole list has been compacted -/
theorem rb_Mid_final {conf : Nat → Nat} {last : Nat} {L0 : List (Nat × Nat)}
    (hok : AllocOK conf L0) {x : FilSt} (hm : Mid conf last L0 x) (hstop : x.first = last + 1) :
    Chain (survivors conf L0) 1 x.range x.batch ∧ x.removed = droppedSum conf L0 ∧
    last = ticketTotal L0 ∧
    (∀ p ∈ L0, conf p.1 = 0 → x.range p.1 = none) ∧
    (∀ a, a ∉ L0.map Prod.fst → x.range a = none) := by
  obtain ⟨P, S, hL, hcP, _, hfirst, hrem, hlast, hzero, hout⟩ := hm
  have hS : S = [] := rb_ticketTotal_zero S
    (fun q hq => hok.pos q (by rw [hL]; exact List.mem_append_right _ hq)) (by omega)
  subst hS
  simp only [List.append_nil] at hL
  subst hL
  exact ⟨hcP, hrem, by omega, hzero, hout⟩

theorem rb_Mid_last {conf : Nat → Nat} {last : Nat} {L0 : List (Nat × Nat)} {x : FilSt}
    (hm : Mid conf last L0 x) : last = ticketTotal L0 := by
  obtain ⟨P, S, hL, _, _, hfirst, _, hlast, _, _⟩ := hm
  rw [hL, rb_ticketTotal_append]; omega

/-! ### counting flags -/

theorem rb_countTrue_add (status : Nat → Bool) (f : Nat) (hf : 1 ≤ f) :
    ∀ n, countTrue status (f - 1 + n) = countTrue status (f - 1) + countWinning status f n := by
  intro n
  induction n with
  | zero => simp [countWinning]
  | succ k ih =>
    rw [show f - 1 + (k + 1) = (f - 1 + k) + 1 by omega, countTrue, ih, countWinning]
    rw [show f - 1 + k + 1 = f + k by omega]
    omega

theorem rb_countWinning_le (status : Nat → Bool) (f : Nat) : ∀ n, countWinning status f n ≤ n := by
  intro n
  induction n with
  | zero => simp [countWinning]
  | succ k ih => rw [countWinning]; split <;> omega

theorem rb_countWinning_congr {st st' : Nat → Bool} {f : Nat} :
    ∀ n, (∀ t, f ≤ t → t < f + n → st' t = st t) → countWinning st' f n = countWinning st f n := by
  intro n
  induction n with
  | zero => intro _; rfl
  | succ k ih =>
    intro h
    rw [countWinning, countWinning, ih (fun t h1 h2 => h t h1 (by omega)), h (f + k) (by omega) (by omega)]

/-- winners of an address as a function of the two maps -/
def winOf (range : Nat → Option Range) (status : Nat → Bool) (a : Nat) : Nat :=
  match range a with
  | none => 0
  | some r => countWinning status r.first (rangeLen r)

theorem rb_winCountOf_eq (s : State) : winCountOf s = winOf s.range s.status := rfl

/-- counting along a chain: the winners of the addresses add up to the flags in the span -/
theorem rb_chain_count {L : List (Nat × Nat)} {first : Nat} {range : Nat → Option Range}
    {batch : Nat → Option Batch} (status : Nat → Bool) (h : Chain L first range batch)
    (hf : 1 ≤ first) :
    countTrue status (first - 1) + sumOver (winOf range status) (L.map Prod.fst)
      = countTrue status (first - 1 + ticketTotal L) := by
  induction L generalizing first with
  | nil => simp [sumOver, ticketTotal]
  | cons p rest ih =>
    obtain ⟨_, h2, h3⟩ := h
    have := ih h3 (by omega)
    simp only [List.map_cons, sumOver, ticketTotal]
    have hw : winOf range status p.1 = countWinning status first p.2 := by
      simp only [winOf, h2, rangeLen]
      congr 1; omega
    rw [hw]
    have hsplit := rb_countTrue_add status first hf p.2
    rw [show first + p.2 - 1 = first - 1 + p.2 by omega] at this
    rw [show first - 1 + (p.2 + ticketTotal rest) = first - 1 + p.2 + ticketTotal rest by omega]
    omega

/-- the flags of a position `i` of the lottery: exactly `i - 1` flags, all inside `1..n` -/
theorem rb_R_count {n i : Nat} {st : Nat → Bool} {pi : Nat → Nat} {arr : List Nat}
    (h : R n i st pi arr) (hi : i ≤ n + 1) :
    countTrue st n = i - 1 ∧ ∀ t, st t = true → 1 ≤ t ∧ t ≤ n := by
  have hnd : (arr.take (i - 1)).Nodup := h.nodup.sublist (List.take_sublist _ _)
  have hrange : ∀ t ∈ arr.take (i - 1), 1 ≤ t ∧ t ≤ n :=
    fun t ht => (h.mem t).mp (List.mem_of_mem_take ht)
  refine ⟨?_, fun t ht => hrange t ((h.stat t).mp ht)⟩
  rw [countTrue_eq_length st n _ hnd hrange (fun t _ _ => h.stat t), List.length_take, h.len]
  omega

/-! ### `clearRange` -/

theorem rb_clearRange_spec (status : Nat → Bool) (posToId : Nat → Nat) (first : Nat) :
    ∀ n, (∀ t, (clearRange status posToId first n).1 t
              = if first ≤ t ∧ t < first + n then false else status t) ∧
         (∀ t, (clearRange status posToId first n).2.1 t
              = if first ≤ t ∧ t < first + n then 0 else posToId t) ∧
         (clearRange status posToId first n).2.2 = countWinning status first n := by
  intro n
  induction n with
  | zero =>
    refine ⟨fun t => ?_, fun t => ?_, rfl⟩
    · rw [if_neg (by omega)]; rfl
    · rw [if_neg (by omega)]; rfl
  | succ k ih =>
    obtain ⟨ih1, ih2, ih3⟩ := ih
    have hfresh : (clearRange status posToId first k).1 (first + k) = status (first + k) := by
      rw [ih1]; simp
    refine ⟨fun t => ?_, fun t => ?_, ?_⟩
    · show upd (clearRange status posToId first k).1 (first + k) false t = _
      rw [upd_apply, ih1]
      by_cases h1 : t = first + k
      · subst h1; simp
      · rw [if_neg h1]
        by_cases h2 : first ≤ t ∧ t < first + k
        · rw [if_pos h2, if_pos ⟨h2.1, by omega⟩]
        · rw [if_neg h2, if_neg (by omega)]
    · show upd (clearRange status posToId first k).2.1 (first + k) 0 t = _
      rw [upd_apply, ih2]
      by_cases h1 : t = first + k
      · subst h1; simp
      · rw [if_neg h1]
        by_cases h2 : first ≤ t ∧ t < first + k
        · rw [if_pos h2, if_pos ⟨h2.1, by omega⟩]
        · rw [if_neg h2, if_neg (by omega)]
    · show (if (clearRange status posToId first k).1 (first + k) = true
            then (clearRange status posToId first k).2.2 + 1
            else (clearRange status posToId first k).2.2) = _
      rw [hfresh, ih3, countWinning]
      split <;> simp_all

/-! ### sums -/

theorem rb_sumOver_survivors (conf : Nat → Nat) (L : List (Nat × Nat)) :
    sumOver conf ((survivors conf L).map Prod.fst) = sumOver conf (L.map Prod.fst) := by
  induction L with
  | nil => rfl
  | cons p r ih =>
    obtain ⟨a, n⟩ := p
    by_cases h : conf a = 0
    · rw [survivors_cons_zero conf a n r h, ih]; simp [sumOver, h]
    · rw [survivors_cons_pos conf a n r h]; simp only [List.map_cons, sumOver, ih]

theorem rb_sumOver_append (f : Nat → Nat) (A B : List Nat) :
    sumOver f (A ++ B) = sumOver f A + sumOver f B := by
  induction A with
  | nil => simp [sumOver]
  | cons a A ih => simp only [List.cons_append, sumOver, ih]; omega

theorem rb_le_sumOver (f : Nat → Nat) (L : List Nat) (a : Nat) (h : a ∈ L) : f a ≤ sumOver f L := by
  induction L with
  | nil => cases h
  | cons b L ih =>
    simp only [sumOver]
    rcases List.mem_cons.mp h with rfl | h
    · omega
    · have := ih h; omega

end LP
