import LP.Proofs.ReachBEV1
import LP.Proofs.ReachBENft
import LP.Proofs.ReachBENG
/-
  LP.Proofs.ReachBEAll — the union of the reachable-state developments as ONE `be_Family`:
  `be_Covered hash s r` holds when `s` is a reachable state (latest transaction at round `≤ r`) of
  one of the EIGHT launchpads — base, locked, guarV2, nft (`Reach`), migration, lockedGuar
  (`v1_Reach`), guarV1 (`g1_Reach`), nftGuar (`ng_Reach`).  `be_HistOK` is the conjunction of the side conditions of the three developments.
-/
namespace LP
open LP.Props LP.Events LP.FY

/-- side conditions on a transaction of a history: EGLD or ESDT but not both; every entry of an
    `addTickets` / `addTicketsV1` call allocates at least one ticket -/
def be_HistOK (e : Env) (c : Call) : Prop := EnvOK e ∧ CallOK c ∧ v1_CallOK c

inductive be_Covered (hash : List Nat → List Nat) : State → Nat → Prop
  | plain {v : Variant} {s : State} {r : Nat} : Plain v → Reach hash v s r → be_Covered hash s r
  | guarV2 {s : State} {r : Nat} : Reach hash .guarV2 s r → be_Covered hash s r
  | nft {s : State} {r : Nat} : Reach hash .nft s r → be_Covered hash s r
  | v1 {v : Variant} {s : State} {r : Nat} : v1_Fam v → v1_Reach hash v s r → be_Covered hash s r
  | guarV1 {s : State} {r : Nat} : g1_Reach hash s r → be_Covered hash s r
  | nftGuar {s : State} {r : Nat} : ng_Reach hash s r → be_Covered hash s r

theorem be_HistOK.pok {e : Env} {c : Call} (h : be_HistOK e c) : be_POK e c := ⟨h.1, h.2.1⟩
theorem be_HistOK.pok1 {e : Env} {c : Call} (h : be_HistOK e c) : be_POK1 e c := ⟨h.1, h.2.2⟩

theorem be_family_all (hash : List Nat → List Nat) : be_Family hash be_HistOK (be_Covered hash) := by
  refine ⟨?_, ?_, ?_⟩
  · intro s r e c s' o hs hr hp hst
    cases hs with
    | plain hv h => exact .plain hv ((be_family_plain hash hv).call h hr hp.pok hst)
    | guarV2 h => exact .guarV2 ((be_family_v2 hash).call h hr hp.pok hst)
    | nft h => exact .nft ((be_family_nft hash).call h hr hp.pok hst)
    | v1 hv h => exact .v1 hv ((be_family_v1 hash hv).call h hr hp.pok1 hst)
    | guarV1 h => exact .guarV1 ((be_family_g1 hash).call h hr hp.pok1 hst)
    | nftGuar h => exact .nftGuar ((be_family_ng hash).call h hr hp.pok1 hst)
  · intro s r r' hs hr
    cases hs with
    | plain hv h => exact .plain hv (.wait _ _ _ h hr)
    | guarV2 h => exact .guarV2 (.wait _ _ _ h hr)
    | nft h => exact .nft (.wait _ _ _ h hr)
    | v1 hv h => exact .v1 hv (.wait _ _ _ h hr)
    | guarV1 h => exact .guarV1 (.wait _ _ _ h hr)
    | nftGuar h => exact .nftGuar (.wait _ _ _ h hr)
  · intro s r hs
    cases hs with
    | plain hv h => exact be_good_plain hv h
    | guarV2 h => exact be_good_v2 h
    | nft h => exact be_good_nft h
    | v1 hv h => exact be_good_v1 hv h
    | guarV1 h => exact be_good_g1 h
    | nftGuar h => exact be_good_ng h

/-! ### from `init` and `run` -/

theorem be_covered_init {hash : List Nat → List Nat} {v : Variant} {a : InitArgs}
    {e : Env} {s : State} (h : init v a e = .ok s) : be_Covered hash s e.round := by
  cases v with
  | base => exact .plain (Or.inl rfl) (.init a e s h)
  | locked => exact .plain (Or.inr rfl) (.init a e s h)
  | nft => exact .nft (.init a e s h)
  | guarV1 => exact .guarV1 (.init a e s h)
  | guarV2 => exact .guarV2 (.init a e s h)
  | migration => exact .v1 (Or.inl rfl) (.init a e s h)
  | lockedGuar => exact .v1 (Or.inr rfl) (.init a e s h)
  | nftGuar => exact .nftGuar (.init a e s h)

/-- the state after any history (rounds non-decreasing from `r`, transactions satisfying
    `be_HistOK`, rejected transactions allowed) from a covered state is covered -/
theorem be_covered_run {hash : List Nat → List Nat} {s : State} {r : Nat} (hs : be_Covered hash s r)
    (p : LP.Props.C17.Hist) (hr : LP.Props.C17.RoundsFrom r p) (hp : ∀ x ∈ p, be_HistOK x.1 x.2) :
    ∃ r', be_Covered hash (run hash s p) r' ∧
      ∀ q : LP.Props.C17.Hist, LP.Props.C17.RoundsFrom r (p ++ q) → LP.Props.C17.RoundsFrom r' q := by
  obtain ⟨r', hl, hq⟩ := be_later_run (P := be_HistOK) hash p s r hr hp
  exact ⟨r', (be_family_all hash).later hs hl, hq⟩

end LP
